/-
Shared basics for the lol-html model: byte strings, hex parsing/printing, small list helpers.
No imports: everything under `LolHtml.Model`, `LolHtml.Lane` and `Driver` must stay Mathlib-free so
that the driver links as a `lean_exe`.
-/
namespace LolHtml

abbrev Bytes := List UInt8

def hexDigit (n : Nat) : Char :=
  if n < 10 then Char.ofNat (48 + n) else Char.ofNat (87 + n)

def hexOfByte (b : UInt8) : String :=
  String.ofList [hexDigit (b.toNat / 16), hexDigit (b.toNat % 16)]

def toHex (bs : Bytes) : String :=
  String.ofList (bs.flatMap fun b => [hexDigit (b.toNat / 16), hexDigit (b.toNat % 16)])

def hexVal (c : Char) : Option Nat :=
  if '0' ≤ c ∧ c ≤ '9' then some (c.toNat - 48)
  else if 'a' ≤ c ∧ c ≤ 'f' then some (c.toNat - 87)
  else if 'A' ≤ c ∧ c ≤ 'F' then some (c.toNat - 55)
  else none

def ofHexChars : List Char → Option Bytes
  | [] => some []
  | [_] => none
  | a :: b :: rest =>
    match hexVal a, hexVal b, ofHexChars rest with
    | some x, some y, some r => some (UInt8.ofNat (x * 16 + y) :: r)
    | _, _, _ => none

/-- Parse a hex string; `-` denotes the empty byte string. -/
def ofHex (s : String) : Option Bytes :=
  if s == "-" then some [] else ofHexChars s.toList

def hexOrDash (bs : Bytes) : String := if bs.isEmpty then "-" else toHex bs

/-- `xs[s..e)`; callers that mirror a *checked* Rust slice must test the bounds themselves. -/
def slice (xs : List α) (s e : Nat) : List α := (xs.take e).drop s

def parseNatList (s : String) : Option (List Nat) :=
  if s == "-" then some [] else
  (s.splitOn ",").mapM fun t => t.toNat?

def natListStr (l : List Nat) : String :=
  if l.isEmpty then "-" else ",".intercalate (l.map toString)

def isAsciiAlpha (b : UInt8) : Bool := (97 ≤ b && b ≤ 122) || (65 ≤ b && b ≤ 90)
def isHtmlWhitespace (b : UInt8) : Bool := b == 32 || b == 10 || b == 13 || b == 9 || b == 12
def asciiLower (b : UInt8) : UInt8 := if 65 ≤ b && b ≤ 90 then b + 32 else b
def asciiLowerBytes (bs : Bytes) : Bytes := bs.map asciiLower
def eqIgnoreAsciiCase (a b : Bytes) : Bool := asciiLowerBytes a == asciiLowerBytes b

/-- Bytes of an ASCII string literal (for the driver only; not kernel-reducible). -/
def strBytes (s : String) : Bytes := s.toUTF8.toList

end LolHtml
