import LolHtml.Thm.Full7
import LolHtml.Lemmas.GuardCompose2
/-!
# Package `full`, part 8 — `Full_no_panic` for all configurations: the run-level hypothesis moved to the CLEANED controller

`Full_no_panic_partial'` (Thm/Full7.lean) asks for "the kind guard never fires" in the runs of the REAL controller,
which would need package scan's re-lexing laws relative to an invariant of the sink state. `RelI.run_relG`
(Lemmas/RunRelClean.lean) shows that this is not necessary: it is enough to know it for the runs of the CLEANED
controller — a controller that is `CtlClean` in every state, to which package scan's theorems apply as they are —
provided the per-operation comparison is made between the guarded dispatchers (the same guard on both sides).

`Full_no_panic_partial2 K Inv : Full_scan_opsG_statement K Inv → Full_clean_kind_guard_statement K →
Full_no_panic_statement`, where the argument guard is again discharged (`guardFree2_withArgs`, `argsCtl_of_clean`).

NOT proved (time): the two hypotheses for a concrete `K` / `Inv`. What blocks a direct attack is recorded in
docs/pkg-inv.md ("Follow-up 5"): the dispatcher state does not record the KIND of an outstanding hint, so `K` needs a
ghost component in the controller state and a "controller homomorphism" lemma (runs over a controller with a ghost
are the runs without it).
-/
set_option linter.unusedSimpArgs false
set_option linter.unusedVariables false
namespace LolHtml.Thm.Full
open LolHtml LolHtml.Model LolHtml.Model.Full LolHtml.Lemmas.Full
open LolHtml.Thm.C01 (run writeAll Rewriter.new)
open LolHtml.Model.RelI

theorem NP.np {e : Err} (h : NP e) : (∀ s, e ≠ .panic s) ∧ (∀ s, e ≠ .internal s) := by
  constructor <;> (intro s hh; subst hh; exact h)

/-- **named hypothesis 1 (operations)**: the invariant holds initially; from a state with the invariant every
operation of the guarded dispatcher over the real controller is the operation of the guarded dispatcher over the
cleaned controller (and re-establishes the invariant if it succeeds) or fails with a non-panic error. The guard is the
argument guard on top of the kind guard `K`: only valid lexemes of the admitted kind have to be considered. -/
def Full_scan_opsG_statement (K : ∀ cfg, SGuard (Disp (FullSt cfg))) (Inv : ∀ cfg, Disp (FullSt cfg) → Prop) : Prop :=
  ∀ cfg : Cfg, (∀ enc, Inv cfg (Disp.new (fullCtl cfg) (FullSt.init cfg) enc)) ∧
    CtlRelG (genWorld cfg) (Chunk.R.cleanCtl (fullCtl cfg)) (withArgs argSite (K cfg)) (Inv cfg) NP

/-- **named hypothesis 2 (runs of the CLEANED controller)**: the kind guard refuses with panics that are not the
argument guard's, and in the runs of the cleaned controller it never fires (the guarded parse is the unguarded one and
returns no guard error) -/
def Full_clean_kind_guard_statement (K : ∀ cfg, SGuard (Disp (FullSt cfg))) : Prop :=
  ∀ cfg : Cfg, (∀ inp, KFresh argSite (K cfg) inp) ∧ (∀ e, (K cfg).Fires e → ∃ s, e = .panic s) ∧
    ∀ settings : Settings, GuardFree2 (cleanWorld cfg) (K cfg) (FullSt.init cfg) settings

/-- **Full_no_panic_partial2.** -/
theorem Full_no_panic_partial2 (K : ∀ cfg, SGuard (Disp (FullSt cfg))) (Inv : ∀ cfg, Disp (FullSt cfg) → Prop)
    (h1 : Full_scan_opsG_statement K Inv) (h2 : Full_clean_kind_guard_statement K) : Full_no_panic_statement := by
  intro cfg settings chunks x hx
  obtain ⟨hI, hL⟩ := h1 cfg
  obtain ⟨hK, hKp, hgK⟩ := h2 cfg
  have hx' : x ∈ (run (genWorld cfg) (Rewriter.new (genWorld cfg) (FullSt.init cfg) settings) chunks).2 := hx
  have ht : ArgsTable (cleanWorld cfg).tbl (computeCert Gen.Syntax.table) (computeRaw Gen.Syntax.table) := C15.C15_argsTable_gen
  have hgf : GuardFree2 (cleanWorld cfg) (withArgs argSite (K cfg)) (FullSt.init cfg) settings :=
    guardFree2_withArgs (Dk := fun _ => True) ht argSite_T2 argSite_ne
      (argsCtl_of_clean (w := cleanWorld cfg) (Chunk.R.cleanCtl_clean (fullCtl cfg)) argSite_T2)
      (FullSt.init cfg) settings trivial hK (hgK settings)
  have hpan : ∀ e, (withArgs argSite (K cfg)).Fires e → ∃ s, e = .panic s := by
    intro e hF
    rcases withArgs_fires hF with rfl | rfl | hFK
    · exact ⟨_, rfl⟩
    · exact ⟨_, rfl⟩
    · exact hKp e hFK
  rcases run_relG hL C03.C03_emitsChecked_gen hpan (FullSt.init cfg) settings (hI settings.encoding) hgf chunks x hx'
    with k | k | ⟨e', ⟨e, hG, hee⟩, hxe⟩
  · exact Full_clean_no_panic cfg settings chunks x k
  · rw [k]; trivial
  · rw [hxe]
    rcases hee with rfl | rfl
    · exact hG
    · rw [hG.parseErr]; exact hG

end LolHtml.Thm.Full
