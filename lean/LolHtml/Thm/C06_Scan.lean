import LolHtml.Lemmas.ScanLexSim
import LolHtml.Lemmas.Tiling
import LolHtml.Gen.Syntax
import LolHtml.Gen.Tags
/-!
# C06 — the tag scanner and the lexer agree

Both action sets run over the same table. `Rel cfg ab ms ml` relates a scanner machine `ms` and a
lexer machine `ml` over the same input; the label `ab` is determined by the table state
(`phaseLabels`), validated by the decidable side-condition `PhaseSide` on the generated table:

* `outClean` / `outEnd` (outside a tag, inside a tag name): all `Common` registers equal
  (state, entered, cursor, is_last, cdata_allowed, last_start_tag_name_hash, closing_quote,
  last_text_type), same simulator state, the scanner's hint log equals the lexer's tag-lexeme log,
  scanner `tag_name_hash`/`is_in_end_tag` ⇄ lexer current tag token (kind, hash);
* `inTag` (between `finish_tag_name` and `emit_tag`): the scanner has consulted the simulator,
  committed `cdata_allowed`/`last_start_tag_name_hash`, parked the text-type switch in
  `pending_text_type_change` and logged its hint; the lexer will get the same feedback from the same
  simulator state at `emit_tag` and log the same event.

The sinks answer "stay in this mode" and log tag events (`scanLog`, `lexLog`).
-/
namespace LolHtml.Thm.C06
open LolHtml LolHtml.Model

/-! ### the side-condition on the current table -/

/-- the labelling of the current table (= `phaseLabels Gen.Syntax.table`, checked at build time by
the `#guard` below; written out so that the kernel only has to *check* the fixed point):
states 0–3 `outClean` (CDATA, data, plaintext), 4–27 `outEnd` (rawtext / rcdata / script data groups),
28–30 `outClean` (tag open, end tag open, markup declaration), 31 `outEnd` (tag name),
32–39 `inTag` (self-closing, attributes), 40–64 `outClean` (comments, doctype). -/
def genPhaseLabels : PLabels :=
  List.replicate 4 .outClean ++ List.replicate 24 .outEnd ++ List.replicate 3 .outClean ++ [.outEnd] ++
  List.replicate 8 .inTag ++ List.replicate 25 .outClean

#guard phaseLabels Gen.Syntax.table == genPhaseLabels
#guard PhaseSide Gen.Syntax.table
#guard phaseWitness Gen.Syntax.table == []

/-- `PhaseOk` holds for the table generated from the current Rust sources. -/
theorem C06_phaseSide_gen : PhaseOk Gen.Syntax.table genPhaseLabels = true := by decide +kernel

/-- a table in which `create_start_tag` could run with a stale `is_in_end_tag` (the rawtext end-tag
abort arm jumps to `data_state` instead of back to `rawtext_state`) is rejected, and the witness
names that arm. (The historic `TagScanner::is_in_end_tag` bug class.) -/
def staleEndTable : Table :=
  { Gen.Syntax.table with states := Gen.Syntax.table.states.mapIdx fun j sd =>
      if j == 7 then { sd with arms := sd.arms.mapIdx fun n a =>
        if n == 5 then { a with body := .seq ⟨[⟨.unmarkTagStart, false⟩, ⟨.emitText, true⟩], some (.reconsume 2)⟩ } else a }
      else sd }

theorem C06_phaseSide_rejects_stale_end :
    PhaseOk staleEndTable genPhaseLabels = false ∧ phaseWitnessFrom staleEndTable genPhaseLabels staleEndTable.states 0 = [(7, 5)] := by
  decide +kernel

-- and no other labelling works: the computed least labelling puts `data_state` in `outEnd`, where `tag_open_state` may not create a start tag
#guard PhaseSide staleEndTable == false
#guard phaseWitness staleEndTable == [(28, 0)]

/-! ### the simulation -/

/-- **C06_scan_lex_simulation** (one `stateFn` step). For every table with a valid labelling `P`,
every tag configuration, input slice and pair of related machines: after one state-function call on
each side either both continue and are related again (at the label of the new state, which is the
same on both sides), or both stop; a signal on one side only is an error or a hand-over
(`RequestLexeme`), never "end of input". -/
theorem C06_scan_lex_simulation (tbl : Table) (cfg : TagCfg) (P : PLabels) (hside : PhaseOk tbl P = true)
    (inp : Bytes) (ms ml : M L) (h : RelAt cfg P ms ml) :
    StepRel cfg P (stateFn (envS tbl cfg) inp ms) (stateFn (envL tbl cfg) inp ml) :=
  stateFn_rel P hside ms ml h

/-- `n` state-function calls without a signal -/
def runSteps {κ : Type} (env : Env κ) (inp : Bytes) : Nat → M κ → Option (M κ)
  | 0, m => some m
  | n + 1, m =>
    match (stateFn env inp m).2 with
    | none => runSteps env inp n (stateFn env inp m).1
    | some _ => none

/-- **Same sequence of table states.** As long as neither machine signals, they stay related; in
particular they are in the same table state after every step. -/
theorem C06_run_simulation (tbl : Table) (cfg : TagCfg) (P : PLabels) (hside : PhaseOk tbl P = true)
    (inp : Bytes) (n : Nat) (ms ml ms' ml' : M L) (h : RelAt cfg P ms ml)
    (hs : runSteps (envS tbl cfg) inp n ms = some ms') (hl : runSteps (envL tbl cfg) inp n ml = some ml') :
    RelAt cfg P ms' ml' := by
  induction n generalizing ms ml with
  | zero =>
    simp only [runSteps, Option.some.injEq] at hs hl
    subst hs; subst hl; exact h
  | succ n ih =>
    have hstep := C06_scan_lex_simulation tbl cfg P hside inp ms ml h
    simp only [runSteps] at hs hl
    cases h1 : (stateFn (envS tbl cfg) inp ms).2 with
    | some sig => simp [h1] at hs
    | none =>
      cases h2 : (stateFn (envL tbl cfg) inp ml).2 with
      | some sig => simp [h2] at hl
      | none =>
        simp only [h1, h2] at hs hl
        unfold StepRel at hstep
        simp only [h1, h2] at hstep
        exact ih _ _ hstep hs hl

/-- **The machines break together**: the scanner reports "end of input" at a step iff the lexer does
not silently continue at that step (it reports "end of input" too, or an error). -/
theorem C06_break_together (tbl : Table) (cfg : TagCfg) (P : PLabels) (hside : PhaseOk tbl P = true)
    (inp : Bytes) (ms ml : M L) (h : RelAt cfg P ms ml) (k : Nat) :
    ((stateFn (envS tbl cfg) inp ms).2 = some (.endOfInput k) → (stateFn (envL tbl cfg) inp ml).2 ≠ none) ∧
    ((stateFn (envL tbl cfg) inp ml).2 = some (.endOfInput k) → (stateFn (envS tbl cfg) inp ms).2 ≠ none) := by
  have hstep := C06_scan_lex_simulation tbl cfg P hside inp ms ml h
  unfold StepRel at hstep
  constructor
  · intro h1 h2
    rw [h1, h2] at hstep
    simp [Signal.isEnd] at hstep
  · intro h1 h2
    rw [h1, h2] at hstep
    simp [Signal.isEnd] at hstep

/-- **Agreement at every tag boundary** (any state not labelled `inTag`): the two machines agree on
every common register — position, text type, `cdata_allowed`, `last_start_tag_name_hash` — on the
simulator state, and the scanner has emitted a hint (name hash, namespace) exactly for the tags for
which the lexer has emitted a lexeme, in the same order. -/
theorem C06_boundary_agreement (cfg : TagCfg) (ab : Ab) (ms ml : M L) (h : Rel cfg ab ms ml) (hab : ab ≠ .inTag) :
    ms.c = ml.c ∧ ms.x.sim = ml.x.sim ∧ ms.x.sink = ml.x.sink := by
  obtain ⟨cs, s, xs, cl, l, xl, rfl, rfl, hc⟩ := Rel_destruct h
  cases ab with
  | unreach => exact hc.elim
  | outClean => exact ⟨hc.1.c_eq, hc.1.sim_eq, hc.1.log_eq⟩
  | outEnd => exact ⟨hc.c_eq, hc.sim_eq, hc.log_eq⟩
  | inTag => exact absurd rfl hab

/-- **Inside a tag** the scanner is exactly one event ahead: the hint of the tag being skipped, for
which the simulator (consulted at `finish_tag_name`) gave the answer the lexer will get at `emit_tag`. -/
theorem C06_inTag_one_ahead (cfg : TagCfg) (ms ml : M L) (h : Rel cfg .inTag ms ml) :
    ∃ key f, ms.x.sink = ml.x.sink ++ [evOf key ms.x.sim.currentNs] ∧
      feedbackOf cfg ml.x.sim key = .ok (ms.x.sim, f) ∧ f.isRL = false ∧ ms.c = commit ml.c f key := by
  obtain ⟨cs, s, xs, cl, l, xl, rfl, rfl, hc⟩ := Rel_destruct h
  obtain ⟨⟨key, S1, f, e1, e2, e3, e4, e5, e6, e7⟩, _, _⟩ := hc
  exact ⟨key, f, by rw [e7, e4], by rw [e4]; exact e2, e3, e6⟩

/-- fresh machines (as built by `Parser.new`) are related -/
theorem C06_initial (tbl : Table) (cfg : TagCfg) (P : PLabels) (hdata : P.at tbl.dataState = .outClean) (strict : Bool) :
    RelAt cfg P (⟨{ state := tbl.dataState }, .scanner {}, { sink := [], sim := Sim.new strict }⟩ : M L)
      ⟨{ state := tbl.dataState }, .lexer {}, { sink := [], sim := Sim.new strict }⟩ := by
  unfold RelAt
  simp only [hdata]
  exact ⟨⟨rfl, rfl, rfl, rfl, rfl, rfl⟩, rfl⟩

/-- **Non-vacuity**: `<a b='c'>x</a><!--` — both machines run 15 steps without a signal and end
related (`C06_run_simulation`); here are the final states and the two logs, computed. -/
def sampleInput : Bytes := [60,97,32,98,61,39,99,39,62,120,60,47,97,62,60,33,45,45]

def m0s : M L := ⟨{ state := 2 }, .scanner {}, { sink := [], sim := Sim.new false }⟩
def m0l : M L := ⟨{ state := 2 }, .lexer {}, { sink := [], sim := Sim.new false }⟩

example :
    ((runSteps (envS Gen.Syntax.table Gen.Tags.cfg) sampleInput 15 m0s).map fun m => (m.c.state, m.x.sink)) =
      some (41, [.start 6 .html, .end_ 6]) ∧
    ((runSteps (envL Gen.Syntax.table Gen.Tags.cfg) sampleInput 15 m0l).map fun m => (m.c.state, m.x.sink)) =
      some (41, [.start 6 .html, .end_ 6]) := by decide +kernel

/-- after 6 steps both are in `attribute_value_single_quoted_state`; the scanner is one event ahead -/
example :
    ((runSteps (envS Gen.Syntax.table Gen.Tags.cfg) sampleInput 6 m0s).map fun m => (m.c.state, m.x.sink)) =
      some (37, [.start 6 .html]) ∧
    ((runSteps (envL Gen.Syntax.table Gen.Tags.cfg) sampleInput 6 m0l).map fun m => (m.c.state, m.x.sink)) =
      some (37, []) := by decide +kernel

/-! ### mode switches -/

/-- **C06_switch (lexer → scanner).** After a tag lexeme the sink may answer "scan": the lexer returns
`directive .scan (mkBookmark c lexemeStart none)`. The scanner resumed from that bookmark is related
(label of the text state, `outClean`/`outEnd`) to the lexer that would have continued through
`--> dyn next_text_parsing_state`: `continue_from_bookmark` restores exactly `cdata_allowed`,
`last_text_type`, `last_start_tag_name_hash`, the state and the position. `closing_quote` is not
part of the bookmark: hypothesis `hq` (see `C06_quote_set_before_use`). -/
theorem C06_switch_lex_to_scan (tbl : Table) (cfg : TagCfg) (P : PLabels)
    (htext : ∀ tt, (P.at (tbl.textState tt) = .outClean ∨ P.at (tbl.textState tt) = .outEnd))
    (cl : Common) (l : LexRegs) (x : Ctx L) (hcur : l.curTag = none) (hfd : l.fd = .none)
    (p : Parser L) (hscan : p.scanR.isInEndTag = false ∧ p.scanR.pendingTextTypeChange = none)
    (hq : p.scanC.closingQuote = cl.closingQuote) (last : Bool) :
    let bm := mkBookmark cl l.lexemeStart .none
    let p' := loadBookmark (envS tbl cfg) .scan bm { p with x := x }
    RelAt cfg P (p'.machine last)
      ⟨{ cl with state := tbl.textState cl.lastTextType, entered := false, nextPos := l.lexemeStart, isLast := last },
       .lexer l, x⟩ := by
  intro bm p'
  unfold RelAt
  have hext : ∀ a b : Common, a.nextPos = b.nextPos → a.isLast = b.isLast → a.state = b.state →
      a.entered = b.entered → a.cdataAllowed = b.cdataAllowed → a.lastStartTagNameHash = b.lastStartTagNameHash →
      a.closingQuote = b.closingQuote → a.lastTextType = b.lastTextType → a = b := by
    intro a b h1 h2 h3 h4 h5 h6 h7 h8
    cases a; cases b; simp_all
  have hr : (p'.machine last).r = .scanner p.scanR := by
    simp [p', loadBookmark, Parser.machine]
  have hx : (p'.machine last).x = x := by
    simp [p', loadBookmark, Parser.machine]
  have hc : (p'.machine last).c =
      { cl with state := tbl.textState cl.lastTextType, entered := false, nextPos := l.lexemeStart, isLast := last } := by
    apply hext <;> simp [p', bm, loadBookmark, mkBookmark, Parser.machine, envS, hq]
  generalize p'.machine last = mm at hr hx hc ⊢
  obtain ⟨mc, mr, mx⟩ := mm
  simp only at hr hx hc
  rw [hr, hx, hc]
  have hra : RA { cl with state := tbl.textState cl.lastTextType, entered := false, nextPos := l.lexemeStart, isLast := last }
      p.scanR x
      { cl with state := tbl.textState cl.lastTextType, entered := false, nextPos := l.lexemeStart, isLast := last } l x :=
    ⟨rfl, rfl, rfl, hscan.2, hfd, by simp [TagCorr, hcur, hscan.1]⟩
  show Rel cfg (P.at (tbl.textState cl.lastTextType)) _ _
  rcases htext cl.lastTextType with h1 | h1 <;> rw [h1]
  · exact ⟨hra, hscan.1⟩
  · exact hra

/-- the text states of the current table are labelled `outClean` / `outEnd` -/
theorem C06_text_states_gen (tt : TextType) :
    genPhaseLabels.at (Gen.Syntax.table.textState tt) = .outClean ∨ genPhaseLabels.at (Gen.Syntax.table.textState tt) = .outEnd := by
  cases tt <;> decide

/-- `closing_quote` is written before it is read: every arm that enters a state with a
`closing_quote` pattern sets it (so the stale value after a mode switch is never observed). -/
def quoteSetBeforeUse (t : Table) : Bool :=
  let uses (j : StateId) : Bool := match t.state? j with
    | some sd => sd.arms.any (fun a => a.pat == .closingQuote)
    | none => false
  t.states.all fun sd => sd.arms.all fun a => a.body.seqs.all fun q =>
    match q.trans with
    | some (.goto j) | some (.reconsume j) =>
      !uses j || q.calls.any (fun c => c.act == .setClosingQuoteToDouble || c.act == .setClosingQuoteToSingle)
    | some .gotoDyn => (textStates t).all (fun j => !uses j)
    | none => !(sd.arms.any (fun a => a.pat == .closingQuote)) || true

theorem C06_quote_set_before_use : quoteSetBeforeUse Gen.Syntax.table = true := by decide +kernel

/-- **C06_switch (scanner → lexer), the bookmark.** At a hint answered "lex" the scanner returns
`directive .lex (mkBookmark c tagStart fd)` where `c` already carries the committed
`cdata_allowed`/`last_start_tag_name_hash`; `continue_from_bookmark` loads exactly these, the
position of `<`, and the feedback directive, into the lexer. -/
theorem C06_switch_scan_to_lex_bookmark (env : Env L) (c : Common) (tagStart : Nat) (fd : FeedbackDirective)
    (p : Parser L) :
    let p' := loadBookmark env .lex (mkBookmark c tagStart fd) p
    p'.directive = .lex ∧ p'.lexC.cdataAllowed = c.cdataAllowed ∧ p'.lexC.lastTextType = c.lastTextType ∧
    p'.lexC.lastStartTagNameHash = c.lastStartTagNameHash ∧ p'.lexC.state = env.tbl.textState c.lastTextType ∧
    p'.lexC.entered = false ∧ p'.lexC.nextPos = tagStart ∧ p'.lexR.lexemeStart = tagStart ∧ p'.lexR.fd = fd ∧
    p'.x = p.x ∧ p'.scanC = p.scanC ∧ p'.scanR = p.scanR := by
  simp [loadBookmark, mkBookmark]

/-- **C06_switch (scanner → lexer), `emit_tag` of the re-lexed tag.** The lexer re-lexes the hinted
tag with the feedback directive taken from the scanner (`Skip`, or `ApplyUnhandled(SwitchTextType t)`
for a parked text-type switch): at `emit_tag` it does not consult the simulator again and ends with
exactly the registers the scanner has after its own `emit_tag`. Hypothesis `hkey`: the re-lexed tag
is the hinted one (same kind; for a start tag the hash the scanner stored in
`last_start_tag_name_hash`). -/
theorem C06_switch_emit_tag (tbl : Table) (cfg : TagCfg) (inp : Bytes) (cs : Common) (s : ScanRegs) (x : Ctx L)
    (l : LexRegs) (tok : TagOutline) (hct : l.curTag = some tok) (hfd : l.fd = scanTakeFeedbackDirective s)
    (hkey : tok.isStart = true → tok.nameHash = cs.lastStartTagNameHash) :
    ((lexEmitTag (envL tbl cfg) inp cs l x).1.c = (scanAct (envS tbl cfg) .emitTag inp cs s x).1.c) ∧
    (lexEmitTag (envL tbl cfg) inp cs l x).1.x.sim = x.sim := by
  unfold lexEmitTag
  rw [hct]
  simp only [hfd, envL, scanTakeFeedbackDirective, scanAct]
  cases hp : s.pendingTextTypeChange with
  | none =>
    simp only [lexGetFeedback]
    cases tok with
    | startTag n h ns as sc =>
      have := hkey rfl
      simp only [TagOutline.nameHash] at this
      simp [lexStampTag, lexEmitTagLexeme, lexLog, this]
    | endTag n h => simp [lexStampTag, lexEmitTagLexeme, lexLog]
  | some t =>
    simp only [lexGetFeedback]
    cases tok with
    | startTag n h ns as sc =>
      have := hkey rfl
      simp only [TagOutline.nameHash] at this
      simp [lexHandleFeedback, lexStampTag, lexEmitTagLexeme, lexLog, this]
    | endTag n h => simp [lexHandleFeedback, lexStampTag, lexEmitTagLexeme, lexLog]

/-! ### independence -/

def Flags.union (a b : Flags) : Flags :=
  ⟨a.text || b.text, a.comments || b.comments, a.nextStartTag || b.nextStartTag, a.nextEndTag || b.nextEndTag,
   a.doctypes || b.doctypes⟩

/-- more capture flags never turn "lex" into "scan" -/
theorem C06_flags_monotone_directive (f o : Flags) (h : (Flags.union f o).isEmpty = true) : f.isEmpty = true := by
  simp only [Flags.union, Flags.isEmpty, Bool.and_eq_true, Bool.not_eq_true', Bool.or_eq_false_iff] at h ⊢
  obtain ⟨⟨⟨⟨h1, h2⟩, h3⟩, h4⟩, h5⟩ := h
  exact ⟨⟨⟨⟨h1.1, h2.1⟩, h3.1⟩, h4.1⟩, h5.1⟩

/-- adding the observer flags `o` to every flag decision of a controller -/
def withObserver {γ : Type} (ctl : Controller γ) (o : Flags) : Controller γ :=
  { ctl with
    initialFlags := fun g => Flags.union (ctl.initialFlags g) o
    startTag := fun g n ns => match ctl.startTag g n ns with
      | (g', .flags f) => (g', .flags (Flags.union f o))
      | r => r
    auxInfo := fun g i => match ctl.auxInfo g i with
      | (g', .ok f) => (g', .ok (Flags.union f o))
      | r => r
    endTag := fun g n => ((ctl.endTag g n).1, Flags.union (ctl.endTag g n).2 o) }

/-- (The independence claim itself — statement `C06_independence_statement`, the proved part
`C06_independence_partial` — is in `Thm/C06_Indep.lean`, over the faithful controller
`Model.withObs`; `withObserver` above hands the observers' tokens to `H`'s token handler and is only
adequate for observer-only `H`.) -/
theorem C06_withObserver_initial {γ : Type} (ctl : Controller γ) (o : Flags) (g : γ) :
    (withObserver ctl o).initialFlags g = Flags.union (ctl.initialFlags g) o := rfl

end LolHtml.Thm.C06
