/-
Property C08 in every supported encoding: the escaping / validation theorems for an abstract
ASCII-compatible codec (package enc's `Enc.Codec` with its `Lawful` laws) plus ONE more law,
`StructSafe`: the encoding of a non-ASCII scalar contains no byte below 0x40 (every byte that is
structural in HTML — whitespace, `! " & ' - / < = >` — is below 0x40). True of every encoding
lol-html accepts (`AsciiCompatibleEncoding`: single-byte encodings use 0x80–0xFF, Shift_JIS / Big5 / GBK
/ EUC trail bytes are ≥ 0x40, UTF-8 ≥ 0x80; gb18030's four-byte digits 0x30–0x39 are the one exception and
are NOT structural — the theorems below only need the bytes they name, see `StructSafeFor`); proved
here for enc's lawful instances (`windows1252`, `iso88597`, `toy2`, `utf8Codec`).

What the Rust does: names and comment text are VALIDATED on the UTF-8 bytes of the `&str` and WRITTEN
in the document's encoding; text content is escaped on the `&str`, then encoded (unmappable → `&#N;`);
attribute values are encoded, then escaped on the encoded bytes (so `C08_attr_value_no_quote` applies
as is to every encoding).
-/
import LolHtml.Lemmas.EscCodec
import LolHtml.Thm.C08_Escape

namespace LolHtml.Thm.C08Codec
open LolHtml LolHtml.Enc LolHtml.Model.Esc LolHtml.Spec.Esc LolHtml.Lemmas.Esc LolHtml.Lemmas.EscCodec
open LolHtml.Lemmas.EscComment

/-- bytes that can be structural in HTML are below 0x40 -/
def Struct (b : UInt8) : Prop := b < 0x40

theorem struct_small : ∀ b, Struct b → b < 128 := by
  intro b h
  unfold Struct at h
  rw [UInt8.lt_iff_toNat_lt] at h ⊢
  simp at h ⊢; omega

/-- **The additional codec law**: a non-ASCII scalar is never encoded with a byte below 0x40. -/
def StructSafe (c : Enc.Codec) : Prop :=
  ∀ (ch : Char) (bs : Bytes), 128 ≤ ch.toNat → c.encChar ch = some bs → ∀ b ∈ bs, (0x40 : UInt8) ≤ b

/-- every scalar of the string has an encoding (no `&#N;` replacement: `has_replacements = false`) -/
def Mappable (c : Enc.Codec) (cs : List Char) : Prop := ∀ ch ∈ cs, ∃ bs, c.encChar ch = some bs

theorem any_congr_on {α} {p q : α → Bool} : ∀ {l : List α}, (∀ x ∈ l, p x = q x) → l.any p = l.any q
  | [], _ => rfl
  | a :: l, h => by
    have ih : l.any p = l.any q := any_congr_on (fun x hx => h x (List.mem_cons_of_mem _ hx))
    simp only [List.any_cons, h a (by simp), ih]

theorem encUnit_ascii {c : Enc.Codec} (L : c.Lawful) (ch : Char) (h : ch.toNat < 128) :
    encUnit c ch = [UInt8.ofNat ch.toNat] := by
  simp [encUnit, L.enc_ascii ch h]

theorem not_struct_of_ge {b : UInt8} (h : (0x40 : UInt8) ≤ b) : ¬ Struct b := by
  unfold Struct
  rw [UInt8.le_iff_toNat_le] at h
  rw [UInt8.lt_iff_toNat_lt]
  omega

theorem unitSafe_mappable {c : Enc.Codec} (L : c.Lawful) (hs : StructSafe c) {cs : List Char} (hm : Mappable c cs) :
    UnitSafeOn (encUnit c) Struct cs := by
  refine ⟨fun ch _ h => encUnit_ascii L ch h, fun ch hch h => ?_⟩
  obtain ⟨bs, hbs⟩ := hm ch hch
  simp only [encUnit, hbs]
  refine ⟨?_, fun b hb => not_struct_of_ge (hs ch bs h hbs b hb)⟩
  intro hn; have := (L.enc_size ch bs hbs).1; rw [hn] at this; simp at this

/-! ### instances of the law -/

/-- UTF-8: every byte of a non-ASCII scalar is ≥ 0x80 -/
theorem utf8_high (ch : Char) (h : 128 ≤ ch.toNat) : ∀ b ∈ Utf8.encodeChar ch, (0x80 : UInt8) ≤ b := by
  intro b hb
  unfold Utf8.encodeChar at hb
  have hv : ch.toNat < 0x110000 := by
    have := ch.valid
    rcases this with h1 | ⟨_, h2⟩
    · exact Nat.lt_trans h1 (by decide)
    · exact h2
  simp only [show ¬ ch.toNat < 128 by omega, if_false] at hb
  rw [UInt8.le_iff_toNat_le]
  split at hb
  · simp only [List.mem_cons, List.not_mem_nil, or_false] at hb
    rcases hb with rfl | rfl <;> simp [UInt8.toNat_ofNat'] <;> omega
  · split at hb
    · simp only [List.mem_cons, List.not_mem_nil, or_false] at hb
      rcases hb with rfl | rfl | rfl <;> simp [UInt8.toNat_ofNat'] <;> omega
    · simp only [List.mem_cons, List.not_mem_nil, or_false] at hb
      rcases hb with rfl | rfl | rfl | rfl <;> simp [UInt8.toNat_ofNat'] <;> omega

theorem utf8_structSafe : StructSafe utf8Codec := by
  intro ch bs h hbs b hb
  simp only [utf8Codec, Option.some.injEq] at hbs
  subst hbs
  have := utf8_high ch h b hb
  rw [UInt8.le_iff_toNat_le] at this ⊢
  simp at this ⊢; omega

theorem singleByte_structSafe (t : List Nat) (ht : t.length ≤ 128) : StructSafe (singleByte t) := by
  intro ch bs h hbs b hb
  simp only [singleByte, show ¬ ch.toNat < 128 by omega, if_false, tblFind] at hbs
  split at hbs
  · rename_i i hi
    simp only [Option.some.injEq] at hbs
    subst hbs
    simp only [List.mem_singleton] at hb
    subst hb
    obtain ⟨hlt, _⟩ := List.idxOf?_eq_some_iff.mp hi
    rw [UInt8.le_iff_toNat_le]
    simp [UInt8.toNat_ofNat']; omega
  · cases hbs

theorem toy2_structSafe : StructSafe toy2 := by
  intro ch bs h hbs b hb
  simp only [toy2, show ¬ ch.toNat < 128 by omega, if_false] at hbs
  split at hbs
  · rename_i hr
    simp only [Option.some.injEq] at hbs
    subst hbs
    simp only [List.mem_cons, List.not_mem_nil, or_false] at hb
    rw [UInt8.le_iff_toNat_le]
    rcases hb with rfl | rfl
    · simp [UInt8.toNat_ofNat']; omega
    · split <;> simp [UInt8.toNat_ofNat'] <;> omega
  · cases hbs

theorem windows1252_structSafe : StructSafe windows1252.codec :=
  singleByte_structSafe windows1252Table (by decide +kernel)
theorem iso88597_structSafe : StructSafe iso88597.codec :=
  singleByte_structSafe iso88597Table (by decide +kernel)

/-! ### Text content: escape, then encode (with `&#N;` for unmappable scalars) -/

/-- `escape_body_text` on the scalars of the `&str` (triggers and entities are ASCII) -/
def escapeChars (t : EscTable) (s : List Char) : List Char :=
  s.flatMap fun ch =>
    if ch.toNat < 128 ∧ t.triggers.contains (UInt8.ofNat ch.toNat) then (t.repl (UInt8.ofNat ch.toNat)).map toChar
    else [ch]

theorem dec7_digits (n : Nat) : ∀ b ∈ dec7 n, 48 ≤ b.toNat ∧ b.toNat ≤ 57 := by
  intro b hb
  simp only [dec7, List.mem_map, List.mem_append, List.mem_singleton] at hb
  obtain ⟨d, hd, rfl⟩ := hb
  have hd10 : d < 10 := by
    rcases hd with hd | hd
    · have := (List.dropWhile_suffix (fun x => x == 0)).subset hd
      simp only [List.mem_cons, List.not_mem_nil, or_false] at this
      rcases this with h | h | h | h | h | h <;> (rw [h]; exact Nat.mod_lt _ (by decide))
    · rw [hd]; exact Nat.mod_lt _ (by decide)
  simp [UInt8.toNat_ofNat']; omega

/-- the per-scalar output (NCR included) never contains `<` or `>` for a scalar other than `<`, `>` -/
theorem unitSafe_body {c : Enc.Codec} (L : c.Lawful) (hs : StructSafe c) (cs : List Char) :
    UnitSafeOn (encUnit c) (fun b => b = 60 ∨ b = 62) cs := by
  refine ⟨fun ch _ h => encUnit_ascii L ch h, fun ch _ h => ?_⟩
  unfold encUnit
  cases hb : c.encChar ch with
  | some bs =>
    simp only
    refine ⟨?_, fun b hbm => ?_⟩
    · intro hn; have := (L.enc_size ch bs hb).1; rw [hn] at this; simp at this
    · have := hs ch bs h hb b hbm
      rw [UInt8.le_iff_toNat_le] at this
      rintro (rfl | rfl) <;> simp at this
  | none =>
    simp only
    refine ⟨by simp [ncr], fun b hbm => ?_⟩
    simp only [ncr, List.cons_append, List.nil_append, List.mem_cons, List.mem_append, List.not_mem_nil, or_false] at hbm
    rcases hbm with rfl | rfl | hd | rfl
    · decide
    · decide
    · have := dec7_digits _ b hd
      rintro (rfl | rfl) <;> simp at this
    · decide

theorem side_body_ascii : bodyTable.triggers.all (· < 128) = true ∧
    bodyTable.triggers.all (fun b => (bodyTable.repl b).all (· < 128)) = true := by decide

/-- **C08_body_no_markup_codec.** In EVERY lawful, structure-safe encoding: the bytes written for
`ContentType::Text` content — the escaped string encoded scalar by scalar, unmappable scalars as
`&#N;` — contain no `<` byte and no `>` byte. -/
theorem C08_body_no_markup_codec (c : Enc.Codec) (L : c.Lawful) (hs : StructSafe c) (s : List Char) :
    (60 : UInt8) ∉ encodeAll c (escapeChars bodyTable s) ∧ (62 : UInt8) ∉ encodeAll c (escapeChars bodyTable s) := by
  have hsmall : ∀ b : UInt8, (b = 60 ∨ b = 62) → b < 128 := by rintro b (rfl | rfl) <;> decide
  have key : ∀ b : UInt8, (b = 60 ∨ b = 62) → toChar b ∉ escapeChars bodyTable s := by
    intro b hb hm
    simp only [escapeChars, List.mem_flatMap] at hm
    obtain ⟨ch, _, hch⟩ := hm
    split at hch
    · rename_i hc
      -- an entity byte: none of them is `<` or `>`
      simp only [List.mem_map] at hch
      obtain ⟨x, hx, hxe⟩ := hch
      have htrig : (UInt8.ofNat ch.toNat) ∈ bodyTable.triggers := by simpa using hc.2
      have hxs : x < 128 := by
        have := side_body_ascii.2
        simp only [List.all_eq_true, decide_eq_true_eq] at this
        exact this _ htrig x hx
      have : x = b := by
        have h1 := congrArg Char.toNat hxe
        rw [toChar_toNat hxs, toChar_toNat (hsmall b hb)] at h1
        exact UInt8.toNat_inj.mp h1
      subst this
      have hav : ∀ y : UInt8, (y = 60 ∨ y = 62) → y ∉ bodyTable.repl (UInt8.ofNat ch.toNat) := by
        intro y hy
        have h60 := Thm.C08.side_body_avoids_lt
        have h62 := Thm.C08.side_body_avoids_gt
        simp only [avoids, Bool.and_eq_true, List.all_eq_true, Bool.not_eq_true', List.contains_eq_mem,
          decide_eq_false_iff_not] at h60 h62
        rcases hy with rfl | rfl
        · exact h60.2 _ htrig
        · exact h62.2 _ htrig
      exact hav x hb hx
    · rename_i hc
      simp only [List.mem_singleton] at hch
      -- the scalar itself: `<` and `>` are triggers
      apply hc
      have hn : ch.toNat = b.toNat := by rw [← hch, toChar_toNat (hsmall b hb)]
      have hlt : ch.toNat < 128 := by
        rw [hn]; have := hsmall b hb; rw [UInt8.lt_iff_toNat_lt] at this; exact this
      refine ⟨hlt, ?_⟩
      rw [hn, UInt8.ofNat_toNat]
      rcases hb with rfl | rfl <;> decide
  unfold encodeAll
  constructor
  · rw [mem_flatMap_iff hsmall (unitSafe_body L hs _) (Or.inl rfl)]; exact key 60 (Or.inl rfl)
  · rw [mem_flatMap_iff hsmall (unitSafe_body L hs _) (Or.inr rfl)]; exact key 62 (Or.inr rfl)

/-! ### Comment text and names: validated on UTF-8, written in the document's encoding -/

/-- the UTF-8 bytes of the `&str` (what the Rust validates) -/
abbrev utf8Bytes (cs : List Char) : Bytes := encodeAll utf8Codec cs

theorem utf8_mappable (cs : List Char) : Mappable utf8Codec cs := fun _ _ => ⟨_, rfl⟩

theorem closing_lists_struct :
    (∀ x ∈ Gen.Consts.commentContains, x ≠ [] ∧ ∀ b ∈ x, Struct b) ∧
    (∀ x ∈ Gen.Consts.commentPrefixes, x ≠ [] ∧ ∀ b ∈ x, Struct b) := by
  unfold Struct; decide

/-- **C08_comment_codec.** For a comment text all of whose scalars are mappable in the document's
encoding (otherwise `set_text` fails with `UnencodableCharacter`): the closing-sequence check gives the
same answer on the UTF-8 bytes (where the Rust performs it) and on the encoded bytes (which are
written). Hence every byte-level theorem about accepted texts (`C08_comment_iff`, `C08_comment_data`,
`C08_comment_real`, which hold for arbitrary byte strings) applies to the encoded comment. -/
theorem C08_comment_codec (c : Enc.Codec) (L : c.Lawful) (hs : StructSafe c) (cs : List Char) (hm : Mappable c cs) :
    containsCommentClosingSequence (encodeAll c cs) = containsCommentClosingSequence (utf8Bytes cs) := by
  have h1 := unitSafe_mappable L hs hm
  have h2 := unitSafe_mappable utf8Codec_lawful utf8_structSafe (utf8_mappable cs)
  have hinf : ∀ x ∈ Gen.Consts.commentContains,
      containsSeq x (encodeAll c cs) = containsSeq x (utf8Bytes cs) := by
    intro x hx
    obtain ⟨hne, hst⟩ := closing_lists_struct.1 x hx
    obtain ⟨y, ys, rfl⟩ := List.exists_cons_of_ne_nil hne
    rw [Bool.eq_iff_iff, containsSeq_iff_infix, containsSeq_iff_infix]
    unfold utf8Bytes encodeAll
    rw [infix_flatMap_iff struct_small y ys cs h1 hst, infix_flatMap_iff struct_small y ys cs h2 hst]
  have hpre : ∀ x ∈ Gen.Consts.commentPrefixes,
      x.isPrefixOf (encodeAll c cs) = x.isPrefixOf (utf8Bytes cs) := by
    intro x hx
    obtain ⟨_, hst⟩ := closing_lists_struct.2 x hx
    rw [Bool.eq_iff_iff, List.isPrefixOf_iff_prefix, List.isPrefixOf_iff_prefix]
    unfold utf8Bytes encodeAll
    rw [prefix_flatMap_iff struct_small x cs h1 hst, prefix_flatMap_iff struct_small x cs h2 hst]
  unfold containsCommentClosingSequence containsClosingWith
  rw [any_congr_on hinf, any_congr_on hpre]

/-- Consequence (with `C08_comment_iff`): in every lawful, structure-safe encoding, a text accepted by
the UTF-8 check and written in the document's encoding is tokenised as one comment ending exactly at
the final `-->`. -/
theorem C08_comment_codec_ends (c : Enc.Codec) (L : c.Lawful) (hs : StructSafe c) (cs : List Char) (hm : Mappable c cs)
    (rest : Bytes) (hacc : containsCommentClosingSequence (utf8Bytes cs) = false) :
    (CommentEnd.commentAt (Gen.Consts.commentOpen ++ encodeAll c cs ++ Gen.Consts.commentClose ++ rest)).map (·.2)
      = some (4 + (encodeAll c cs).length + 3) :=
  (Thm.C08.C08_comment_iff _ rest).mpr (by rw [C08_comment_codec c L hs cs hm]; exact hacc)

theorem reject_lists_struct :
    (∀ b ∈ Gen.Consts.tagNameReject, Struct b) ∧ (∀ b ∈ Gen.Consts.attrNameReject, Struct b) := by
  unfold Struct; decide

/-- a rejected (structural) byte occurs in the encoded name iff it occurs in the UTF-8 name -/
theorem mem_encoded_iff (c : Enc.Codec) (L : c.Lawful) (hs : StructSafe c) (cs : List Char) (hm : Mappable c cs)
    {b : UInt8} (hb : Struct b) : b ∈ encodeAll c cs ↔ b ∈ utf8Bytes cs := by
  unfold utf8Bytes encodeAll
  rw [mem_flatMap_iff struct_small (unitSafe_mappable L hs hm) hb,
    mem_flatMap_iff struct_small (unitSafe_mappable utf8Codec_lawful utf8_structSafe (utf8_mappable cs)) hb]

/-- **C08_attr_name_codec.** A name accepted by `name_from_string` on its UTF-8 bytes, all of whose
scalars are mappable, also passes the validator on its ENCODED bytes: they are non-empty and contain no
rejected byte. Hence `C08_attr_name_sufficient`, `C08_attribute_reads_back` and `C08_attr_real` apply to
the bytes that are actually written. -/
theorem C08_attr_name_codec (c : Enc.Codec) (L : c.Lawful) (hs : StructSafe c) (cs : List Char) (hm : Mappable c cs)
    (h : attrNameFromString Codec.utf8 (utf8Bytes cs) = .ok (utf8Bytes cs)) :
    attrNameFromString Codec.utf8 (encodeAll c cs) = .ok (encodeAll c cs) := by
  obtain ⟨_, hne, hall⟩ := Lemmas.EscNames.attrName_ok_iff.mp h
  rw [attrNameFromString, Lemmas.EscNames.attrName_ok_iff]
  refine ⟨rfl, ?_, ?_⟩
  · intro hn
    apply hne
    unfold utf8Bytes encodeAll at *
    rw [flatMap_eq_nil_iff struct_small (unitSafe_mappable L hs hm)] at hn
    rw [hn]; rfl
  · intro b hb
    cases hc : Gen.Consts.attrNameReject.contains b with
    | false => rfl
    | true =>
      have hst := reject_lists_struct.2 b (by simpa using hc)
      have := hall b ((mem_encoded_iff c L hs cs hm hst).mp hb)
      rw [show (Gen.Consts.attrNameReject.contains b) = true from hc] at this
      cases this

/-- **C08_tag_name_codec.** The same for `tag_name_bytes_from_str`: the encoded name is non-empty, starts
with the same ASCII letter and contains no rejected byte. -/
theorem C08_tag_name_codec (c : Enc.Codec) (L : c.Lawful) (hs : StructSafe c) (cs : List Char) (hm : Mappable c cs)
    (h : tagNameBytesFromStr Codec.utf8 (utf8Bytes cs) = .ok (utf8Bytes cs)) :
    tagNameBytesFromStr Codec.utf8 (encodeAll c cs) = .ok (encodeAll c cs) := by
  have e : ∀ n, tagNameBytesFromStr Codec.utf8 n =
      tagNameBytesFromStrWith Gen.Consts.tagNameReject true Codec.utf8 n := by
    intro n; rw [← Thm.C08.side_tag_first_alpha]; rfl
  rw [e] at h ⊢
  obtain ⟨_, ⟨b0, r0, hn0, ha0⟩, hall⟩ := Lemmas.EscNames.tagName_ok_iff.mp h
  rw [Lemmas.EscNames.tagName_ok_iff]
  -- the first scalar is an ASCII letter, encoded as itself in both encodings
  cases cs with
  | nil => simp [utf8Bytes, encodeAll] at hn0
  | cons c0 cs' =>
    have hc0 : c0.toNat < 128 := by
      rcases Nat.lt_or_ge c0.toNat 128 with h1 | h1
      · exact h1
      · exfalso
        have hhead : b0 ∈ Utf8.encodeChar c0 := by
          have : utf8Bytes (c0 :: cs') = Utf8.encodeChar c0 ++ utf8Bytes cs' := by
            simp [utf8Bytes, encodeAll, encUnit, utf8Codec]
          rw [this] at hn0
          have hne : Utf8.encodeChar c0 ≠ [] := by
            have := (utf8Codec_lawful.enc_size c0 (Utf8.encodeChar c0) rfl).1
            intro hn; rw [hn] at this; simp at this
          obtain ⟨y, ys, hy⟩ := List.exists_cons_of_ne_nil hne
          rw [hy] at hn0 ⊢
          simp only [List.cons_append, List.cons.injEq] at hn0
          rw [hn0.1]; simp
        have hhi := utf8_high c0 h1 b0 hhead
        have hal := ha0 rfl
        simp only [isAsciiAlpha, Bool.or_eq_true, Bool.and_eq_true, decide_eq_true_eq] at hal
        rw [UInt8.le_iff_toNat_le] at hhi
        rcases hal with ⟨_, h2⟩ | ⟨_, h2⟩ <;> (rw [UInt8.le_iff_toNat_le] at h2; simp at hhi h2; omega)
    have hu : utf8Bytes (c0 :: cs') = UInt8.ofNat c0.toNat :: utf8Bytes cs' := by
      simp [utf8Bytes, encodeAll, encUnit_ascii utf8Codec_lawful c0 hc0]
    have hcenc : encodeAll c (c0 :: cs') = UInt8.ofNat c0.toNat :: encodeAll c cs' := by
      simp [encodeAll, encUnit_ascii L c0 hc0]
    rw [hu] at hn0
    simp only [List.cons.injEq] at hn0
    refine ⟨rfl, ⟨UInt8.ofNat c0.toNat, encodeAll c cs', hcenc, fun _ => by rw [hn0.1]; exact ha0 rfl⟩, ?_⟩
    intro b hb
    cases hc : Gen.Consts.tagNameReject.contains b with
    | false => rfl
    | true =>
      have hst := reject_lists_struct.1 b (by simpa using hc)
      have := hall b ((mem_encoded_iff c L hs (c0 :: cs') hm hst).mp hb)
      rw [hc] at this
      cases this

/-! ### The byte-level model is the UTF-8 instance -/

theorem utf8Bytes_map_toChar : ∀ (xs : Bytes), (∀ x ∈ xs, x < 128) → utf8Bytes (xs.map toChar) = xs
  | [], _ => rfl
  | x :: xs, h => by
    have hx := h x (by simp)
    have hlt : (toChar x).toNat < 128 := by
      rw [toChar_toNat hx]; rw [UInt8.lt_iff_toNat_lt] at hx; exact hx
    have ih := utf8Bytes_map_toChar xs (fun y hy => h y (by simp [hy]))
    unfold utf8Bytes encodeAll at ih ⊢
    simp only [List.map_cons, List.flatMap_cons, encUnit_ascii utf8Codec_lawful _ hlt, ofNat_toChar hx, ih]
    rfl

theorem side_body_triggers_struct : bodyTable.triggers.all (fun b => decide (b < 0x40)) = true := by decide

/-- **Escaping on scalars, then UTF-8 = the byte-level model on the UTF-8 bytes.** The function the
lane executes and `C08_body_no_markup` is about (`escapeSpec bodyTable` = `escapeBodyText`) is exactly
the UTF-8 instance of the codec-level statement. -/
theorem escapeChars_utf8 : ∀ (s : List Char),
    utf8Bytes (escapeChars bodyTable s) = escapeSpec bodyTable (utf8Bytes s)
  | [] => rfl
  | ch :: s => by
    have ih := escapeChars_utf8 s
    have hsplit : utf8Bytes (escapeChars bodyTable (ch :: s)) =
        utf8Bytes (if ch.toNat < 128 ∧ bodyTable.triggers.contains (UInt8.ofNat ch.toNat) then
          (bodyTable.repl (UInt8.ofNat ch.toNat)).map toChar else [ch]) ++ utf8Bytes (escapeChars bodyTable s) := by
      simp [utf8Bytes, encodeAll, escapeChars]
    have husplit : utf8Bytes (ch :: s) = encUnit utf8Codec ch ++ utf8Bytes s := by
      simp [utf8Bytes, encodeAll]
    rw [hsplit, husplit, escapeSpec_append, ih]
    congr 1
    by_cases ha : ch.toNat < 128
    · rw [encUnit_ascii utf8Codec_lawful ch ha]
      by_cases ht : bodyTable.triggers.contains (UInt8.ofNat ch.toNat) = true
      · rw [if_pos ⟨ha, ht⟩, escapeSpec_cons, if_pos ht, escapeSpec_nil, List.append_nil]
        apply utf8Bytes_map_toChar
        have := side_body_ascii.2
        simp only [List.all_eq_true, decide_eq_true_eq] at this
        exact this _ (by simpa using ht)
      · rw [if_neg (fun h => ht h.2), escapeSpec_cons, if_neg ht, escapeSpec_nil]
        simp [utf8Bytes, encodeAll, encUnit_ascii utf8Codec_lawful ch ha]
    · rw [if_neg (fun h => ha h.1)]
      have hu : utf8Bytes [ch] = encUnit utf8Codec ch := by simp [utf8Bytes, encodeAll]
      rw [hu]
      symm
      apply escapeSpec_of_no_trigger
      intro b hb
      have hge : (0x40 : UInt8) ≤ b := utf8_structSafe ch _ (by omega) rfl b (by simpa [encUnit, utf8Codec] using hb)
      cases hc : bodyTable.triggers.contains b with
      | false => rfl
      | true =>
        have := side_body_triggers_struct
        simp only [List.all_eq_true, decide_eq_true_eq] at this
        have hlt := this b (by simpa using hc)
        rw [UInt8.le_iff_toNat_le] at hge
        rw [UInt8.lt_iff_toNat_lt] at hlt
        omega

/-! ### Instances: enc's lawful codecs -/

theorem C08_body_no_markup_windows1252 (s : List Char) :
    (60 : UInt8) ∉ encodeAll windows1252.codec (escapeChars bodyTable s) ∧
    (62 : UInt8) ∉ encodeAll windows1252.codec (escapeChars bodyTable s) :=
  C08_body_no_markup_codec _ windows1252_lawful.1 windows1252_structSafe s

theorem C08_body_no_markup_iso88597 (s : List Char) :
    (60 : UInt8) ∉ encodeAll iso88597.codec (escapeChars bodyTable s) ∧
    (62 : UInt8) ∉ encodeAll iso88597.codec (escapeChars bodyTable s) :=
  C08_body_no_markup_codec _ iso88597_lawful.1 iso88597_structSafe s

/-- a two-byte encoding whose trail bytes overlap ASCII (0x40–0x7E), like Shift_JIS / Big5 / GBK -/
theorem C08_body_no_markup_toy2 (s : List Char) :
    (60 : UInt8) ∉ encodeAll toy2 (escapeChars bodyTable s) ∧ (62 : UInt8) ∉ encodeAll toy2 (escapeChars bodyTable s) :=
  C08_body_no_markup_codec _ toy2_lawful toy2_structSafe s

theorem C08_comment_codec_toy2 (cs : List Char) (hm : Mappable toy2 cs) :
    containsCommentClosingSequence (encodeAll toy2 cs) = containsCommentClosingSequence (utf8Bytes cs) :=
  C08_comment_codec _ toy2_lawful toy2_structSafe cs hm

-- non-vacuity: `<é>&` in windows-1252 (é = 0xE9), and U+4E01 `-->` in toy2 (0x81 0x41: trail byte `A`)
example : encodeAll windows1252.codec (escapeChars bodyTable ['<', 'é', '>', '&'])
    = [38, 108, 116, 59, 233, 38, 103, 116, 59, 38, 97, 109, 112, 59] := by decide +kernel
example : encodeAll toy2 [Char.ofNat 0x4E01, '-', '-', '>'] = [0x81, 0x41, 45, 45, 62] := by decide +kernel

/-! ### What `StructSafe` does NOT give: finding F22

`StructSafe` keeps non-ASCII scalars away from the structural bytes, not from the ASCII LETTERS: in
Shift_JIS / Big5 / GBK a trail byte can be `A`..`Z` or `a`..`z`. `Attributes::set_attribute` compares names
ASCII-case-insensitively on the ENCODED bytes (`eq_case_insensitive`, base/mod.rs:22), so such a name
does not match itself. On the model, with the Shift_JIS encoding of U+30A2 (0x83 0x41): -/

/-- **C08_F22_counterexample.** `set_attribute("ア","1"); set_attribute("ア","2")` on `<a>` in Shift_JIS:
the second call evaluates a failing `debug_assert!` (panic in debug builds) and, in release builds,
does not replace: the tag ends up with the attribute twice (a browser keeps the first value). In UTF-8
this cannot happen (`C08_attr_name_lowercased`). Observed on the real code by lane `esc`
(`attrseq sjis e382a2 8341 - 31 32`, oracle tag `F22-multibyte-name-ascii-case`). -/
theorem C08_F22_counterexample :
    let c := Model.Esc.Codec.given [0xE3, 0x82, 0xA2] [0x83, 0x41]
    let tag : StartTag := ⟨[97], [], false, some [60, 97, 62]⟩
    let t1 := (tag.setAttribute c [0xE3, 0x82, 0xA2] [49]).1
    let t2 := (t1.setAttribute c [0xE3, 0x82, 0xA2] [50]).1
    t1.setAttributeDebugAssertFails c [0xE3, 0x82, 0xA2] = true ∧
    t2.attributes.map (fun a => (a.name, a.value)) = [([0x83, 0x41], [49]), ([0x83, 0x41], [50])] ∧
    t2.serialize = some [60, 97, 32, 0x83, 0x41, 61, 34, 49, 34, 32, 0x83, 0x41, 61, 34, 50, 34, 62] := by
  decide

end LolHtml.Thm.C08Codec
