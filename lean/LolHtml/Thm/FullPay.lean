/-
# Package `full` — the end-tag payloads: the glue site `rPayload` is unreachable along protocol runs

`PayInv s`: every entry of the dispatcher's end-tag handler vector has a payload (the boxed
`EndTagHandler` the glue keeps per ghost ordinal), the ghost ordinals of the entries are strictly
increasing, and none is larger than the ordinal of the current start-tag event. It is kept by the events of
the dispatcher's calling protocol (NOT by arbitrary callback sequences: two start-tag tokens for one
`handle_start_tag` would register one ordinal twice), and under it the lookup of `tokEndTag` never fails.
-/
import LolHtml.Thm.Full4
import LolHtml.Lemmas.FullSites
import LolHtml.Thm.FullIds

namespace LolHtml.Thm.Full
open LolHtml LolHtml.Model LolHtml.Model.Full LolHtml.Model.Handlers LolHtml.EditModel LolHtml.Lemmas.Full

/-- the ghost ordinals of the end-tag handler vector, in vector order -/
def ordsOf (d : Dispatcher) : List Nat := d.endTag.items.map (·.handler.ord)

structure PayInv (s : St) : Prop where
  cover : ∀ o ∈ ordsOf s.disp, ∃ p ∈ s.payloads, p.ord = o
  incr : (ordsOf s.disp).Pairwise (· < ·)
  bound : ∀ o ∈ ordsOf s.disp, o ≤ s.ord

theorem PayInv.of_frame {s s' : St} (h : PayInv s) (ho : ordsOf s'.disp = ordsOf s.disp)
    (hp : s'.payloads = s.payloads) (hord : s.ord ≤ s'.ord) : PayInv s' where
  cover := by rw [ho, hp]; exact h.cover
  incr := by rw [ho]; exact h.incr
  bound := fun o hoo => by rw [ho] at hoo; exact Nat.le_trans (h.bound o hoo) hord

/-! ### vectors -/

theorem map_set_same {α β : Type} (f : α → β) (l : List α) (i : Nat) (x y : α) (h : l[i]? = some y) (hf : f x = f y) :
    (l.set i x).map f = l.map f := by
  induction l generalizing i with
  | nil => rfl
  | cons a as ih =>
    cases i with
    | zero =>
      simp only [List.getElem?_cons_zero, Option.some.injEq] at h
      subst h
      simp [hf]
    | succ i =>
      simp only [List.getElem?_cons_succ] at h
      simp [ih i h]

theorem incUserCount_handlers {α : Type} {v v' : HandlerVec α} {l : Locator} (h : v.incUserCount l = .ok v') :
    v'.items.map (·.handler) = v.items.map (·.handler) := by
  unfold HandlerVec.incUserCount at h
  split at h
  · cases h
  · rename_i it hit
    simp only [Except.ok.injEq] at h
    subst h
    exact map_set_same _ _ _ _ it hit rfl

theorem incOptional_handlers {α : Type} {v v' : HandlerVec α} {l : Option Locator} (h : v.incOptional l = .ok v') :
    v'.items.map (·.handler) = v.items.map (·.handler) := by
  cases l with
  | none => simp only [HandlerVec.incOptional, Except.ok.injEq] at h; subst h; rfl
  | some idx => exact incUserCount_handlers h

theorem ordsOf_of_handlers {d d' : Dispatcher}
    (h : d'.endTag.items.map (·.handler) = d.endTag.items.map (·.handler)) : ordsOf d' = ordsOf d := by
  unfold ordsOf
  have := congrArg (List.map (·.ord)) h
  simp only [List.map_map] at this
  exact this

theorem stopMatchingId_endTag {d d' : Dispatcher} {m : Nat} (h : d.stopMatchingId m = .ok d') : d'.endTag = d.endTag := by
  unfold Dispatcher.stopMatchingId at h
  (repeat' split at h) <;> first | (cases h; done) | (simp only [Except.ok.injEq] at h; subst h; rfl)

theorem stopMatchingIds_endTag {d d' : Dispatcher} {ms : List Nat} (h : d.stopMatchingIds ms = .ok d') :
    d'.endTag = d.endTag := by
  induction ms generalizing d with
  | nil => simp only [Dispatcher.stopMatchingIds, Except.ok.injEq] at h; subst h; rfl
  | cons m ms ih =>
    simp only [Dispatcher.stopMatchingIds] at h
    split at h
    · cases h
    · rename_i d1 h1
      rw [ih h, stopMatchingId_endTag h1]

theorem stopMatching_ords {d d' : Dispatcher} {desc : ElementDescriptor} (h : d.stopMatching desc = .ok d') :
    ordsOf d' = ordsOf d := by
  unfold Dispatcher.stopMatching at h
  split at h
  · cases h
  · rename_i d1 h1
    split at h
    · cases h
    · rename_i et het
      have hh : et.items.map (·.handler) = d.endTag.items.map (·.handler) := by
        rw [incOptional_handlers het, stopMatchingIds_endTag h1]
      (repeat' split at h) <;>
        first
        | (cases h; done)
        | (simp only [Except.ok.injEq] at h; subst h; exact ordsOf_of_handlers hh)

theorem stopMatchingPopped_ords {d d' : Dispatcher} {its : List SelVM.StackItem} {des : List Desc}
    (h : stopMatchingPopped d its des = .ok d') : ordsOf d' = ordsOf d := by
  induction its generalizing d des with
  | nil => simp only [stopMatchingPopped, Except.ok.injEq] at h; subst h; rfl
  | cons it its ih =>
    cases des with
    | nil => simp only [stopMatchingPopped, Except.ok.injEq] at h; subst h; rfl
    | cons de des =>
      simp only [stopMatchingPopped] at h
      split at h
      · cases h
      · rename_i d1 h1
        rw [ih h, stopMatching_ords h1]

theorem startMatching_endTag {d d' : Dispatcher} {m : Nat} {wc : Bool} (h : d.startMatching m wc = .ok d') :
    d'.endTag = d.endTag := by
  unfold Dispatcher.startMatching at h
  (repeat' split at h) <;> first | (cases h; done) | (simp only [Except.ok.injEq] at h; subst h; rfl)

theorem startMatchingInfos_endTag {d d' : Dispatcher} {ms : List SelVM.MatchInfo} (h : startMatchingInfos d ms = .ok d') :
    d'.endTag = d.endTag := by
  induction ms generalizing d with
  | nil => simp only [startMatchingInfos, Except.ok.injEq] at h; subst h; rfl
  | cons m ms ih =>
    simp only [startMatchingInfos] at h
    split at h
    · cases h
    · rename_i d1 h1
      rw [ih h, startMatching_endTag h1]

/-! ### the callbacks that do not deliver a tag token -/

theorem afterVm_pay (s : St) (n : Nat) (vm' : SelVM.Vm) (infos : List SelVM.MatchInfo) :
    (s.afterVm n vm' infos).1.disp.endTag = s.disp.endTag ∧ (s.afterVm n vm' infos).1.payloads = s.payloads ∧
    (s.afterVm n vm' infos).1.ord = s.ord := by
  unfold St.afterVm
  split
  · exact ⟨rfl, rfl, rfl⟩
  · rename_i d hd
    exact ⟨startMatchingInfos_endTag hd, rfl, rfl⟩

theorem startTagCore_pay (s : St) (name : LocalName) (ns : Model.Ns) :
    (startTagCore s name ns).1.disp.endTag = s.disp.endTag ∧ (startTagCore s name ns).1.payloads = s.payloads ∧
    (startTagCore s name ns).1.ord = s.ord := by
  unfold startTagCore
  split
  · exact ⟨rfl, rfl, rfl⟩
  · split
    · exact ⟨rfl, rfl, rfl⟩
    · dsimp only
      split <;> exact afterVm_pay _ _ _ _
    · exact ⟨rfl, rfl, rfl⟩

theorem startTag_pay (s : St) (hf : s.fault = none) (name : LocalName) (ns : Model.Ns) :
    (startTag s name ns).1.disp.endTag = s.disp.endTag ∧ (startTag s name ns).1.payloads = s.payloads ∧
    (startTag s name ns).1.ord = s.ord + 1 := by
  rw [startTag_eq_core s hf]
  exact startTagCore_pay _ _ _

theorem auxInfo_pay (s : St) (info : AuxInfo) :
    (auxInfo s info).1.disp.endTag = s.disp.endTag ∧ (auxInfo s info).1.payloads = s.payloads ∧
    (auxInfo s info).1.ord = s.ord := by
  unfold auxInfo
  split
  · split
    · exact ⟨rfl, rfl, rfl⟩
    · split
      · exact ⟨rfl, rfl, rfl⟩
      · exact afterVm_pay _ _ _ _
  · exact ⟨rfl, rfl, rfl⟩

theorem startPhase_pay (s : St) (hf : s.fault = none) (name : LocalName) (ns : Model.Ns) (info : AuxInfo) :
    (startPhase s name ns info).1.disp.endTag = s.disp.endTag ∧ (startPhase s name ns info).1.payloads = s.payloads ∧
    (startPhase s name ns info).1.ord = s.ord + 1 := by
  obtain ⟨a, b, c⟩ := startTag_pay s hf name ns
  unfold startPhase
  dsimp only
  split
  · exact ⟨a, b, c⟩
  · exact ⟨a, b, c⟩
  · obtain ⟨a', b', c'⟩ := auxInfo_pay (startTag s name ns).1 info
    exact ⟨a'.trans a, b'.trans b, c'.trans c⟩

theorem endTag_pay (s : St) (name : LocalName) :
    ordsOf (endTag s name).1.disp = ordsOf s.disp ∧ (endTag s name).1.payloads = s.payloads ∧
    (endTag s name).1.ord = s.ord := by
  unfold endTag
  split
  · exact ⟨rfl, rfl, rfl⟩
  · split
    · exact ⟨rfl, rfl, rfl⟩
    · split
      · dsimp only
        split
        · exact ⟨rfl, rfl, rfl⟩
        · rename_i d hd
          exact ⟨stopMatchingPopped_ords hd, rfl, rfl⟩
      · exact ⟨rfl, rfl, rfl⟩

theorem tokOther_payloads (cfg : Cfg) (s : St) (tok : Model.Token) (hk : (CtlEv.other tok).WellKinded)
    (hf : s.fault = none) : (token cfg s tok).1.payloads = s.payloads := by
  unfold token
  simp only [hf]
  cases tok with
  | startTag => simp [CtlEv.WellKinded] at hk
  | endTag => simp [CtlEv.WellKinded] at hk
  | comment text raw src => exact (runClosures_frame _ _ _ _ _ _ _ _ _).2.1
  | doctype name publicId systemId fq raw src => exact (runClosures_frame _ _ _ _ _ _ _ _ _).2.1
  | text bytes tt last src => exact (runClosures_frame _ _ _ _ _ _ _ _ _).2.1

/-! ### the end-tag token -/

theorem drainLoop_mem {α : Type} (items : List (Item α)) (t t' : Nat) (inv : List α)
    (h : HandlerVec.drainLoop items t = .ok (t', inv)) : ∀ x ∈ inv, ∃ it ∈ items, it.handler = x := by
  induction items generalizing t t' inv with
  | nil =>
    simp only [HandlerVec.drainLoop, Except.ok.injEq, Prod.mk.injEq] at h
    intro x hx; rw [← h.2] at hx; cases hx
  | cons it rest ih =>
    simp only [HandlerVec.drainLoop] at h
    split at h
    · split at h
      · cases h
      · rename_i t1 _
        split at h
        · cases h
        · rename_i t2 inv2 h2
          simp only [Except.ok.injEq, Prod.mk.injEq] at h
          intro x hx
          rw [← h.2] at hx
          rcases List.mem_cons.1 hx with rfl | hx
          · exact ⟨it, List.mem_cons_self, rfl⟩
          · obtain ⟨it', hit', he⟩ := ih _ _ _ h2 x hx
            exact ⟨it', List.mem_cons_of_mem _ hit', he⟩
    · intro x hx
      obtain ⟨it', hit', he⟩ := ih _ _ _ h x hx
      exact ⟨it', List.mem_cons_of_mem _ hit', he⟩

theorem removeTail_spec {α : Type} {v v' : HandlerVec α} {inv : List α}
    (h : v.doForEachActiveAndRemoveTail = .ok (v', inv)) :
    ∃ k, v'.items = v.items.take k ∧ ∀ x ∈ inv, ∃ it ∈ v.items.drop k, it.handler = x := by
  unfold HandlerVec.doForEachActiveAndRemoveTail at h
  split at h
  · split at h
    · simp only [Except.ok.injEq, Prod.mk.injEq] at h
      refine ⟨v.items.length, by rw [← h.1, List.take_length], fun x hx => ?_⟩
      rw [← h.2] at hx; cases hx
    · cases h
  · rename_i first _
    split at h
    · cases h
    · rename_i t inv' hd
      split at h
      · simp only [Except.ok.injEq, Prod.mk.injEq] at h
        refine ⟨first, by rw [← h.1], fun x hx => ?_⟩
        rw [← h.2] at hx
        obtain ⟨it, hit, he⟩ := drainLoop_mem _ _ _ _ hd x hx
        exact ⟨it, List.mem_reverse.1 hit, he⟩
      · cases h

theorem runEndTagUser_frame (src : Range) (subs : List (HId × Nat)) (user : List (List EndTagOp)) (s : St) (t : EndTag) :
    (runEndTagUser src subs user s t).1.payloads = s.payloads ∧ (runEndTagUser src subs user s t).1.disp = s.disp ∧
    (runEndTagUser src subs user s t).1.ord = s.ord := by
  induction user generalizing subs s t with
  | nil => cases subs <;> exact ⟨rfl, rfl, rfl⟩
  | cons ops user ih =>
    cases subs with
    | nil => simp only [runEndTagUser]; exact ih _ _ _
    | cons sub subs =>
      simp only [runEndTagUser]
      obtain ⟨a, b, c⟩ := ih subs { s with log := ⟨.endTag sub.1 sub.2, src, seeEndTag t⟩ :: s.log } (t.applyOps ops)
      exact ⟨a, b, c⟩

theorem runEndTagHandlers_some (src : Range) (hs : List EndTagH) (s : St) (t : EndTag)
    (hcov : ∀ h ∈ hs, ∃ p ∈ s.payloads, p.ord = h.ord) :
    ∃ r, runEndTagHandlers src hs s t = some r ∧ r.1.payloads = s.payloads ∧ r.1.disp = s.disp ∧ r.1.ord = s.ord := by
  induction hs generalizing s t with
  | nil => exact ⟨(s, t), rfl, rfl, rfl, rfl⟩
  | cons h hs ih =>
    simp only [runEndTagHandlers]
    cases hf : s.payloads.find? (fun p => p.ord == h.ord) with
    | none =>
      obtain ⟨p, hp, he⟩ := hcov h List.mem_cons_self
      rw [List.find?_eq_none] at hf
      exact absurd (by simp [he]) (hf p hp)
    | some p =>
      dsimp only
      obtain ⟨a, b, c⟩ := runEndTagUser_frame src h.subs p.handler.user s
        ((match p.handler.mutations with
          | some m => { (match p.handler.modifiedName with | some n => t.setNameRaw n | none => t) with mutations := m }
          | none => (match p.handler.modifiedName with | some n => t.setNameRaw n | none => t)))
      have hfr : (runEndTagHandler src h.subs p.handler s t).1.payloads = s.payloads ∧
          (runEndTagHandler src h.subs p.handler s t).1.disp = s.disp ∧
          (runEndTagHandler src h.subs p.handler s t).1.ord = s.ord := by
        unfold runEndTagHandler
        exact runEndTagUser_frame _ _ _ _ _
      obtain ⟨r, hr, r1, r2, r3⟩ := ih (runEndTagHandler src h.subs p.handler s t).1 (runEndTagHandler src h.subs p.handler s t).2
        (by rw [hfr.1]; exact fun h' hh' => hcov h' (List.mem_cons_of_mem _ hh'))
      exact ⟨r, hr, r1.trans hfr.1, r2.trans hfr.2.1, r3.trans hfr.2.2⟩

theorem pairwise_take_drop {α : Type} {R : α → α → Prop} (l : List α) (k : Nat) (h : l.Pairwise R)
    (a b : α) (ha : a ∈ l.take k) (hb : b ∈ l.drop k) : R a b := by
  rw [← List.take_append_drop k l, List.pairwise_append] at h
  exact h.2.2 a ha b hb

/-- **the end-tag token under `PayInv`**: the payload lookup succeeds, and the invariant is kept -/
theorem tokEndTag_pay (s : St) (hp : PayInv s) (name raw : Bytes) (src : Range) :
    (tokEndTag s name raw src).2.err ≠ some (.panic rPayload) ∧
    ((tokEndTag s name raw src).2.err = none → PayInv (tokEndTag s name raw src).1) := by
  unfold tokEndTag
  split
  · refine ⟨fun hh => ?_, fun hh => (by cases hh)⟩
    simp only [Option.some.injEq, dispErr, dispMsg, rPayload, Err.panic.injEq] at hh
    revert hh; decide
  · rename_i et hs het
    obtain ⟨k, hk1, hk2⟩ := removeTail_spec het
    have hords : ∀ h ∈ hs, h.ord ∈ (ordsOf s.disp).drop k := by
      intro h hh
      obtain ⟨it, hit, he⟩ := hk2 h hh
      unfold ordsOf
      rw [← List.map_drop]
      exact List.mem_map.2 ⟨it, hit, by rw [he]⟩
    have hcov : ∀ h ∈ hs, ∃ p ∈ s.payloads, p.ord = h.ord :=
      fun h hh => hp.cover _ (List.mem_of_mem_drop (hords h hh))
    obtain ⟨r, hr, r1, r2, r3⟩ := runEndTagHandlers_some src hs { s with disp := { s.disp with endTag := et } }
      ({ name := name, raw := raw } : EndTag) hcov
    dsimp only
    rw [hr]
    dsimp only
    refine ⟨fun hh => (by cases hh), fun _ => ?_⟩
    have ho : ordsOf r.1.disp = (ordsOf s.disp).take k := by
      rw [r2]
      unfold ordsOf
      show et.items.map _ = _
      rw [hk1, List.map_take]
    refine ⟨fun o ho' => ?_, ?_, fun o ho' => ?_⟩
    · have ho2 : o ∈ (ordsOf s.disp).take k := by rw [← ho]; exact ho'
      obtain ⟨p, hpm, hpo⟩ := hp.cover o (List.mem_of_mem_take ho2)
      refine ⟨p, ?_, hpo⟩
      show p ∈ r.1.payloads.filter _
      rw [List.mem_filter, r1]
      refine ⟨hpm, ?_⟩
      simp only [Bool.not_eq_eq_eq_not, Bool.not_true, List.any_eq_false, beq_iff_eq]
      intro h hh heq
      have hlt := pairwise_take_drop _ k hp.incr o h.ord ho2 (hords h hh)
      omega
    · show (ordsOf r.1.disp).Pairwise (· < ·)
      rw [ho]
      exact hp.incr.sublist (List.take_sublist _ _)
    · have ho2 : o ∈ (ordsOf s.disp).take k := by rw [← ho]; exact ho'
      show o ≤ r.1.ord
      rw [r3]
      exact hp.bound o (List.mem_of_mem_take ho2)

/-! ### the start-tag token -/

theorem invGet_bump_ne (inv : List ((Nat × HId) × Nat)) (k k' : Nat × HId) (h : k ≠ k') :
    invGet (invBump inv k') k = invGet inv k := by
  induction inv with
  | nil =>
    have : (k' == k) = false := by rw [beq_eq_false_iff_ne]; exact Ne.symm h
    simp [invBump, invGet, List.find?, this]
  | cons e rest ih =>
    simp only [invBump]
    split
    · rename_i he
      have he' : e.1 = k' := by simpa using he
      have hek : (e.1 == k) = false := by rw [beq_eq_false_iff_ne, he']; exact Ne.symm h
      simp [invGet, List.find?, hek]
    · cases hek : (e.1 == k) with
      | true => simp [invGet, List.find?, hek]
      | false =>
        unfold invGet at ih ⊢
        simp only [List.find?, hek]
        exact ih

theorem applyOps_chc (e : Element) (ops : List ElementOp) : (e.applyOps ops).canHaveContent = e.canHaveContent := by
  unfold Element.applyOps
  induction ops generalizing e with
  | nil => rfl
  | cons op ops ih => simp only [List.foldl_cons]; rw [ih, apply_chc]

/-- the element handlers that ran leave their deferred end-tag mutations and `on_end_tag` closures in the
element: whatever the `ElemAct` of an invoked handler (computed from the invocation counters BEFORE the
event) announces is there afterwards -/
theorem runClosures_endTag_cover (scripts : HId → Scripts ElementOp) (see : Element → Seen) (src : Range) (chc : Bool) :
    ∀ (active : List HId) (s : St) (u : Element), u.canHaveContent = chc →
      (runClosures scripts kElement Who.element see Element.applyOps src active s u).2.2 = false →
      (endMut u = true → endMut (runClosures scripts kElement Who.element see Element.applyOps src active s u).2.1 = true) ∧
      (u.endTagHandlers.length ≤
        (runClosures scripts kElement Who.element see Element.applyOps src active s u).2.1.endTagHandlers.length) ∧
      ∀ h ∈ active,
        ((elemActOf chc (cyc (scripts h) (invGet s.inv (kElement, h))).1).endTagMutation = true →
          endMut (runClosures scripts kElement Who.element see Element.applyOps src active s u).2.1 = true) ∧
        (0 < (elemActOf chc (cyc (scripts h) (invGet s.inv (kElement, h))).1).onEndTag →
          0 < (runClosures scripts kElement Who.element see Element.applyOps src active s u).2.1.endTagHandlers.length) := by
  intro active
  induction active with
  | nil =>
    intro s u _ _
    exact ⟨fun h => h, Nat.le_refl _, fun h hh => by cases hh⟩
  | cons h0 hs ih =>
    intro s u hc hfail
    simp only [runClosures] at hfail ⊢
    cases hsc : (cyc (scripts h0) (invGet s.inv (kElement, h0))).2 with
    | true => simp [hsc] at hfail
    | false =>
      simp only [hsc, Bool.false_eq_true, if_false] at hfail ⊢
      obtain ⟨_, f2, f3⟩ := Full_elemAct_faithful (cyc (scripts h0) (invGet s.inv (kElement, h0))).1 u
      rw [hc] at f2 f3
      obtain ⟨i1, i2, i3⟩ := ih _ (u.applyOps (cyc (scripts h0) (invGet s.inv (kElement, h0))).1)
        (by rw [applyOps_chc]; exact hc) hfail
      refine ⟨fun hu => i1 (by rw [f2, hu]; rfl), by omega, fun h hh => ?_⟩
      by_cases hh0 : h = h0
      · subst hh0
        exact ⟨fun ha => i1 (by rw [f2, ha]; simp), fun ha => by omega⟩
      · have hm : h ∈ hs := by
          rcases List.mem_cons.1 hh with e | e
          · exact absurd e hh0
          · exact e
        have := i3 h hm
        dsimp only at this
        rw [invGet_bump_ne _ _ _ (by intro e; exact hh0 (by simpa using congrArg Prod.snd e))] at this
        exact this

theorem handleStartTag_endTag {d d' : Dispatcher} {script : ElemScript} {ord : Nat} {cur desc : Option ElementDescriptor}
    {inv : List Invocation} (h : d.handleStartTag script ord cur = .ok (d', desc, inv)) :
    d'.endTag = d.endTag ∨
    ∃ el invoked, d.element.doForEachActiveAndDeactivate = .ok (el, invoked) ∧
      d'.endTag = (d.endTag.push { ord := ord, subs := Dispatcher.endTagSubs script ord invoked } false).1 ∧
      ((invoked.any fun h => (script h ord).endTagMutation) || !(Dispatcher.endTagSubs script ord invoked).isEmpty) = true := by
  unfold Dispatcher.handleStartTag at h
  split at h
  · cases h
  · rename_i el invoked hel
    dsimp only at h
    split at h
    · split at h
      · split at h
        · rename_i hhas
          simp only [Except.ok.injEq, Prod.mk.injEq] at h
          obtain ⟨h1, _⟩ := h
          subst h1
          exact Or.inr ⟨el, invoked, hel, rfl, hhas⟩
        · simp only [Except.ok.injEq, Prod.mk.injEq] at h
          obtain ⟨h1, _⟩ := h
          subst h1
          exact Or.inl rfl
      · simp only [Except.ok.injEq, Prod.mk.injEq] at h
        obtain ⟨h1, _⟩ := h
        subst h1
        exact Or.inl rfl
    · simp only [Except.ok.injEq, Prod.mk.injEq] at h
      obtain ⟨h1, _⟩ := h
      subst h1
      exact Or.inl rfl

theorem endTagSubs_nonempty (script : ElemScript) (ord : Nat) (invoked : List HId)
    (h : (Dispatcher.endTagSubs script ord invoked).isEmpty = false) : ∃ x ∈ invoked, 0 < (script x ord).onEndTag := by
  induction invoked with
  | nil => simp [Dispatcher.endTagSubs] at h
  | cons a as ih =>
    by_cases ha : 0 < (script a ord).onEndTag
    · exact ⟨a, List.mem_cons_self, ha⟩
    · have h0 : (script a ord).onEndTag = 0 := by omega
      have : Dispatcher.endTagSubs script ord (a :: as) = Dispatcher.endTagSubs script ord as := by
        simp [Dispatcher.endTagSubs, h0]
      rw [this] at h
      obtain ⟨x, hx, hx'⟩ := ih h
      exact ⟨x, List.mem_cons_of_mem _ hx, hx'⟩

/-- **the start-tag token**: after the start phase (all ordinals in the vector are smaller than the event's)
a successful start-tag token keeps `PayInv` — a pushed end-tag handler entry gets its payload -/
theorem tokStartTag_pay (cfg : Cfg) (s : St) (hw : VecWf s.disp.element)
    (hcov : ∀ o ∈ ordsOf s.disp, ∃ p ∈ s.payloads, p.ord = o) (hincr : (ordsOf s.disp).Pairwise (· < ·))
    (hlt : ∀ o ∈ ordsOf s.disp, o < s.ord)
    (name : Bytes) (attrs : List (Bytes × Bytes × AttrOutline)) (ns : Model.Ns) (sc : Bool) (raw : Bytes)
    (src : Range) (base : Nat) (he : (tokStartTag cfg s name attrs ns sc raw src base).2.err = none) :
    PayInv (tokStartTag cfg s name attrs ns sc raw src base).1 := by
  unfold tokStartTag at he ⊢
  split
  · rename_i hb
    rw [if_pos hb] at he
    split
    · rename_i hm; simp [hm] at he
    · rename_i as hm
      simp only [hm] at he
      dsimp only at he ⊢
      generalize (if 0 < s.disp.removedContent then
        StartTag.apply { name := name, attributes := as, ns := nsEdit ns, selfClosing := sc, raw := raw } (StartTagOp.mut MutOp.remove)
        else { name := name, attributes := as, ns := nsEdit ns, selfClosing := sc, raw := raw }) = st at he ⊢
      have hcl := runClosures_endTag_cover cfg.elementScripts (seeElement ns) src s.disp.nextElementCanHaveContent
        s.disp.element.forEachActive s (Element.new st s.disp.nextElementCanHaveContent) rfl
      obtain ⟨fd, fp, _, _, fo, _⟩ := runClosures_frame cfg.elementScripts kElement Who.element (seeElement ns)
        Element.applyOps src s.disp.element.forEachActive s (Element.new st s.disp.nextElementCanHaveContent)
      generalize runClosures cfg.elementScripts kElement Who.element (seeElement ns) Element.applyOps src
          s.disp.element.forEachActive s (Element.new st s.disp.nextElementCanHaveContent) = r at he fd fp fo hcl ⊢
      split
      · rename_i hfail; simp [hfail] at he
      · rename_i hfail
        simp only [hfail] at he
        have hfail' : r.2.2 = false := by simpa using hfail
        obtain ⟨_, _, hit⟩ := hcl hfail'
        split
        · rename_i hh; simp [hh] at he
        · rename_i d desc inv hh
          rw [fd, fo] at hh
          rcases handleStartTag_endTag hh with hsame | ⟨el, invoked, hde, hpush, hhas⟩
          · -- no entry pushed
            have hlen : ¬ d.endTag.items.length > r.1.disp.endTag.items.length := by
              rw [hsame, fd]; omega
            refine ⟨fun o ho => ?_, ?_, fun o ho => ?_⟩
            · have ho' : o ∈ ordsOf s.disp := by
                have : ordsOf d = ordsOf s.disp := by unfold ordsOf; rw [hsame]
                rw [← this]; exact ho
              obtain ⟨p, hp, hpo⟩ := hcov o ho'
              refine ⟨p, ?_, hpo⟩
              show p ∈ (if d.endTag.items.length > r.1.disp.endTag.items.length then _ else r.1.payloads)
              rw [if_neg hlen, fp]; exact hp
            · show (ordsOf d).Pairwise (· < ·)
              have : ordsOf d = ordsOf s.disp := by unfold ordsOf; rw [hsame]
              rw [this]; exact hincr
            · have ho' : o ∈ ordsOf s.disp := by
                have : ordsOf d = ordsOf s.disp := by unfold ordsOf; rw [hsame]
                rw [← this]; exact ho
              show o ≤ r.1.ord
              rw [fo]; exact Nat.le_of_lt (hlt o ho')
          · -- an entry with the event's ordinal is pushed: the element carries a handler
            have hinv : invoked = s.disp.element.forEachActive := by
              rw [hw.eq_mk, LolHtml.Lemmas.Scope.deactivate_mk] at hde
              simp only [Except.ok.injEq, Prod.mk.injEq] at hde
              rw [← hde.2]
              rfl
            have hsome : r.2.1.intoEndTagHandler.isSome = true := by
              rw [intoEndTagHandler_isSome]
              cases hany : (invoked.any fun h => (elemActOf s.disp.nextElementCanHaveContent
                  (cyc (cfg.elementScripts h) (invGet s.inv (kElement, h))).1).endTagMutation) with
              | true =>
                obtain ⟨x, hx, hx'⟩ := List.any_eq_true.1 hany
                rw [(hit x (hinv ▸ hx)).1 hx']
                rfl
              | false =>
                rw [hany, Bool.false_or] at hhas
                have hne : (Dispatcher.endTagSubs (fun h _ => elemActOf s.disp.nextElementCanHaveContent
                    (cyc (cfg.elementScripts h) (invGet s.inv (kElement, h))).1) s.ord invoked).isEmpty = false := by
                  simpa using hhas
                obtain ⟨x, hx, hx'⟩ := endTagSubs_nonempty _ _ _ hne
                have := (hit x (hinv ▸ hx)).2 hx'
                simp [this]
            obtain ⟨eh, heh⟩ := Option.isSome_iff_exists.1 hsome
            have hords : ordsOf d = ordsOf s.disp ++ [s.ord] := by
              unfold ordsOf
              rw [hpush]
              simp [HandlerVec.push]
            have hlen : d.endTag.items.length > r.1.disp.endTag.items.length := by
              rw [hpush, fd]
              simp [HandlerVec.push]
            refine ⟨fun o ho => ?_, ?_, fun o ho => ?_⟩
            · show ∃ p ∈ (if d.endTag.items.length > r.1.disp.endTag.items.length then _ else r.1.payloads), p.ord = o
              rw [if_pos hlen, heh]
              dsimp only
              rw [fp, fo]
              have ho' : o ∈ ordsOf s.disp ++ [s.ord] := by rw [← hords]; exact ho
              rcases List.mem_append.1 ho' with h1 | h1
              · obtain ⟨p, hp, hpo⟩ := hcov o h1
                exact ⟨p, List.mem_append_left _ hp, hpo⟩
              · simp only [List.mem_singleton] at h1
                exact ⟨⟨s.ord, eh⟩, List.mem_append_right _ (List.mem_singleton.2 rfl), h1.symm⟩
            · show (ordsOf d).Pairwise (· < ·)
              rw [hords, List.pairwise_append]
              exact ⟨hincr, List.pairwise_singleton _ _, fun a ha b hb => by
                simp only [List.mem_singleton] at hb; subst hb; exact hlt a ha⟩
            · have ho' : o ∈ ordsOf s.disp ++ [s.ord] := by rw [← hords]; exact ho
              show o ≤ r.1.ord
              rw [fo]
              rcases List.mem_append.1 ho' with h1 | h1
              · exact Nat.le_of_lt (hlt o h1)
              · simp only [List.mem_singleton] at h1; omega
  · rename_i hb
    rw [if_neg hb] at he
    simp at he

/-! ## the run invariant with payloads -/

/-- the invariant along protocol-conforming runs, with the payload clauses -/
def J2 (cfg : Cfg) (s : St) : Prop := J cfg s ∧ PayInv s

theorem payInv_init (cfg : Cfg) : PayInv (St.init cfg) := by
  have h : (St.init cfg).disp.endTag = LolHtml.Lemmas.Scope.mk [] :=
    (LolHtml.Lemmas.Scope.fromSettings_state cfg.selRegs cfg.docRegs).endTag
  have ho : ordsOf (St.init cfg).disp = [] := by unfold ordsOf; rw [h]; rfl
  exact ⟨fun o hh => (by rw [ho] at hh; cases hh), (by rw [ho]; exact List.Pairwise.nil),
    fun o hh => (by rw [ho] at hh; cases hh)⟩

theorem J2_init (cfg : Cfg) : J2 cfg (St.init cfg) := ⟨J_init cfg, payInv_init cfg⟩

theorem rPayload_notSiteC : Chunk.R.NotSiteC rPayload := ⟨by decide, by decide, by decide, by decide⟩

theorem startPhase_fault (s : St) (ln : LocalName) (ns : Model.Ns) (info : AuxInfo) :
    (startPhase s ln ns info).1.fault = s.fault := by
  unfold startPhase
  dsimp only
  split
  · exact Chunk.R.startTag_fault _ _ _
  · exact Chunk.R.startTag_fault _ _ _
  · rw [Chunk.R.auxInfo_fault, Chunk.R.startTag_fault]

theorem startPhase_not_rPayload (s : St) (hf : s.fault = none) (ln : LocalName) (ns : Model.Ns) (info : AuxInfo) :
    (startPhase s ln ns info).2 ≠ .error (.panic rPayload) := by
  unfold startPhase
  dsimp only
  cases hst : (startTag s ln ns).2 with
  | flags f => intro hh; cases hh
  | err e =>
    intro hh
    simp only [Except.error.injEq] at hh
    subst hh
    exact Chunk.R.startTag_nb rPayload_notSiteC s ln ns (by unfold Chunk.R.NF; rw [hf]; intro h; cases h) hst
  | infoRequest => exact Chunk.R.auxInfo_nb rPayload_notSiteC _ _

theorem tokStartTag_not_rPayload (cfg : Cfg) (s : St) (name : Bytes) (attrs : List (Bytes × Bytes × AttrOutline))
    (ns : Model.Ns) (sc : Bool) (raw : Bytes) (src : Range) (base : Nat) :
    (tokStartTag cfg s name attrs ns sc raw src base).2.err ≠ some (.panic rPayload) := by
  intro h
  unfold tokStartTag at h
  split at h
  · split at h
    · simp only [Option.some.injEq, Err.panic.injEq] at h; revert h; decide
    · rename_i as hm
      dsimp only at h
      generalize (if 0 < s.disp.removedContent then
        StartTag.apply { name := name, attributes := as, ns := nsEdit ns, selfClosing := sc, raw := raw } (StartTagOp.mut MutOp.remove)
        else { name := name, attributes := as, ns := nsEdit ns, selfClosing := sc, raw := raw }) = st at h
      generalize runClosures cfg.elementScripts kElement Who.element (seeElement ns) Element.applyOps src
          s.disp.element.forEachActive s (Element.new st s.disp.nextElementCanHaveContent) = r at h
      split at h
      · simp at h
      · split at h
        · simp only [Option.some.injEq, dispErr, dispMsg, rPayload, Err.panic.injEq] at h; revert h; decide
        · simp at h
  · simp only [Option.some.injEq, Err.panic.injEq] at h; revert h; decide

/-- **`J2` is an event invariant**: a start-tag event can only fail with a handler error, at `rAttr` or at
`rMatcher`; an end-tag event cannot fail at all. -/
theorem J2_evInv (cfg : Cfg) :
    EvInv cfg (J2 cfg) (fun e => e = .panic rAttr ∨ e = .panic rMatcher) (fun _ => False) where
  fault := fun _ h => h.1.fault
  other := fun s tok b h hk => by
    obtain ⟨o1, o2⟩ := tokIf_other_no_panic cfg s h.1 tok hk b
    refine ⟨fun hn => ⟨o1 hn, ?_⟩, o2⟩
    unfold tokIf
    split
    · obtain ⟨a, _, _, d, _⟩ := tokOther_frame cfg s tok hk h.1.fault
      exact h.2.of_frame (by rw [a]) (tokOther_payloads cfg s tok hk h.1.fault) (by rw [d]; exact Nat.le_refl _)
    · exact h.2
  start := fun s ln ns info nm attrs ns' sc raw src base h => by
    obtain ⟨c1, c2⟩ := start_event_no_panic cfg (Full_idsBounded cfg) s h.1 ln ns info nm attrs ns' sc raw src base
    obtain ⟨p1, p2, p3⟩ := startPhase_pay s h.1.fault ln ns info
    have hmf : (startPhase s ln ns info).1.fault = none := by rw [startPhase_fault]; exact h.1.fault
    have hords : ordsOf (startPhase s ln ns info).1.disp = ordsOf s.disp := by unfold ordsOf; rw [p1]
    constructor
    · intro hn
      refine ⟨c1 hn, ?_⟩
      simp only [ctlStep] at hn ⊢
      cases hsp : (startPhase s ln ns info).2 with
      | error e => rw [hsp] at hn; cases hn
      | ok f =>
        rw [hsp] at hn
        dsimp only at hn ⊢
        unfold tokIf at hn ⊢
        split
        · rename_i hb1
          rw [if_pos hb1] at hn
          dsimp only at hn
          have htok : token cfg (startPhase s ln ns info).1 (.startTag nm attrs ns' sc raw src base) =
              tokStartTag cfg (startPhase s ln ns info).1 nm attrs ns' sc raw src base := by
            unfold token; simp only [hmf]
          rw [htok] at hn ⊢
          exact tokStartTag_pay cfg _ (startPhase_valid h.1.valid ln ns info).wf.element
            (by rw [hords, p2]; exact h.2.cover) (by rw [hords]; exact h.2.incr)
            (fun o ho => by rw [hords] at ho; have := h.2.bound o ho; omega) nm attrs ns' sc raw src base hn
        · exact h.2.of_frame hords p2 (by rw [p3]; omega)
    · intro e he
      have hne : e ≠ .panic rPayload := by
        intro heq
        subst heq
        simp only [ctlStep] at he
        cases hsp : (startPhase s ln ns info).2 with
        | error e' =>
          rw [hsp] at he
          simp only [Option.some.injEq] at he
          subst he
          exact startPhase_not_rPayload s h.1.fault ln ns info hsp
        | ok f =>
          rw [hsp] at he
          dsimp only at he
          unfold tokIf at he
          split at he
          · have htok : token cfg (startPhase s ln ns info).1 (.startTag nm attrs ns' sc raw src base) =
                tokStartTag cfg (startPhase s ln ns info).1 nm attrs ns' sc raw src base := by
              unfold token; simp only [hmf]
            rw [htok] at he
            exact tokStartTag_not_rPayload cfg _ nm attrs ns' sc raw src base he
          · cases he
      rcases c2 e he with h1 | (h1 | h1 | h1) | h1
      · exact Or.inl h1
      · exact Or.inr (Or.inl (Or.inl h1))
      · exact Or.inr (Or.inr h1)
      · exact absurd h1 hne
      · exact Or.inr (Or.inl (Or.inr h1))
  end_ := fun s ln nm raw src h => by
    obtain ⟨c1, c2⟩ := Full_end_no_panic cfg s h.1 ln nm raw src
    obtain ⟨p1, p2, p3⟩ := endTag_pay s ln
    have hmid : PayInv (endTag s ln).1 := h.2.of_frame p1 p2 (by omega)
    have hnf : Chunk.R.NF rPayload (endTag s ln).1 :=
      Chunk.R.endTag_nf rPayload_notSiteC s ln (by unfold Chunk.R.NF; rw [h.1.fault]; intro hh; cases hh)
    have hstep : ctlStep cfg s (.end_ ln (.endTag nm raw src)) =
        tokIf cfg (endTag s ln).2.nextEndTag (endTag s ln).1 (.endTag nm raw src) := by
      simp only [ctlStep]
    have hno : (ctlStep cfg s (.end_ ln (.endTag nm raw src))).2 ≠ some (.panic rPayload) := by
      rw [hstep]
      unfold tokIf
      split
      · dsimp only
        unfold token
        split
        · rename_i m hm
          intro hh
          simp only [Option.some.injEq, Err.panic.injEq] at hh
          subst hh
          exact hnf hm
        · exact (tokEndTag_pay _ hmid nm raw src).1
      · intro hh; cases hh
    constructor
    · intro hn
      refine ⟨(c1 hn).1, ?_⟩
      rw [hstep] at hn ⊢
      unfold tokIf at hn ⊢
      split
      · rename_i hb1
        rw [if_pos hb1] at hn
        dsimp only at hn ⊢
        have hmf : (endTag s ln).1.fault = none := by
          cases hf : (endTag s ln).1.fault with
          | none => rfl
          | some m => unfold token at hn; simp [hf] at hn
        have htok : token cfg (endTag s ln).1 (.endTag nm raw src) = tokEndTag (endTag s ln).1 nm raw src := by
          unfold token; simp only [hmf]
        rw [htok] at hn ⊢
        exact (tokEndTag_pay _ hmid nm raw src).2 hn
      · exact hmid
    · intro e he
      exact hno (by rw [he, c2 e he])

end LolHtml.Thm.Full
