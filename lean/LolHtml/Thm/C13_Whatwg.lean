/-
Property C13, legacy multi-byte encodings: the WHATWG decoder state machines of `Model/Whatwg.lean`
(EUC-KR, Big5, Shift_JIS, EUC-JP, gb18030 = GBK) satisfy the codec laws `Codec.Lawful` FOR EVERY index
(`idx : pointer → Option scalar`) and every encoder direction.  Consequently all theorems about a lawful
codec apply to them with no assumption on the streaming behaviour:

  * `C13_decoder` (Thm/C13_Encoding.lean): feeding any split of a text node's bytes through `feed_text` with
    any buffer ≥ 4 gives the whole-buffer decode — "incremental decode over any split = whole decode";
  * ASCII bytes outside a pending sequence decode to themselves (`Lawful.ascii`), nothing is pending in
    the neutral state (`flush_init`), a micro-step writes at most 4 UTF-8 bytes;
  * the machines hold back at most 3 input bytes (`pending_le_three`), and exactly as many as were fed
    since the last complete character (`*_pending_*`).

What remains assumed of encoding_rs for these encodings is only that it implements these machines over
the WHATWG index data; lane `enc` (`dec` cases with index facts) checks the machines against it.
-/
import LolHtml.Model.Whatwg
import LolHtml.Lemmas.EncCodecs
import LolHtml.Spec.Enc
import LolHtml.Lemmas.EncFeed

namespace LolHtml.Enc.Whatwg

/-! ### small facts -/

theorem utf8Size_ascii (n : Nat) (h : n < 128) : (Char.ofNat n).utf8Size = 1 := by
  have hv : n.isValidChar := by unfold Nat.isValidChar; omega
  have : (Char.ofNat n).toNat = n := by simp [Char.ofNat, hv, Char.ofNatAux, Char.toNat]
  have hval : (Char.ofNat n).val.toNat = n := this
  unfold Char.utf8Size
  have : (Char.ofNat n).val ≤ 127 := by
    rw [UInt32.le_iff_toNat_le, hval]; simp; omega
  simp [this]

theorem utf8Len_repl_ascii (b : UInt8) (h : b < 128) : utf8Len [replacement, asciiChar b] ≤ 4 := by
  have hb : b.toNat < 128 := by rw [UInt8.lt_iff_toNat_lt] at h; simpa using h
  have h1 : replacement.utf8Size = 3 := by decide
  simp only [utf8Len, asciiChar, utf8Size_ascii _ hb, h1]; omega

theorem utf8Len_repl_digit (d : Fin 10) : utf8Len [replacement, digitChar d] ≤ 4 := by
  have h1 : replacement.utf8Size = 3 := by decide
  have : (0x30 + d.val) < 128 := by have := d.isLt; omega
  simp only [utf8Len, digitChar, utf8Size_ascii _ this, h1]; omega

theorem utf8Len_nil' : utf8Len [] ≤ 4 := by simp [utf8Len]

theorem utf8Len_optMap (cp : Option Char) (cs : List Char) (h : cp.map (fun c => [c]) = some cs) :
    utf8Len cs ≤ 4 := by
  cases cp with
  | none => simp at h
  | some c => simp only [Option.map_some, Option.some.injEq] at h; subst h; exact utf8Len_single c

theorem big5Pair_small (ptr : Nat) (two : List Char) (h : big5Pair ptr = some two) : utf8Len two ≤ 4 := by
  unfold big5Pair at h
  split at h
  · simp only [Option.some.injEq] at h; subst h; decide
  · split at h
    · simp only [Option.some.injEq] at h; subst h; decide
    · split at h
      · simp only [Option.some.injEq] at h; subst h; decide
      · split at h
        · simp only [Option.some.injEq] at h; subst h; decide
        · simp at h

/-! ### `finish` -/

section
variable {σ : Type} (n : σ)

theorem finish_small (cp : Option (List Char)) (b : UInt8) (h : ∀ cs, cp = some cs → utf8Len cs ≤ 4) :
    utf8Len (finish n cp b).out ≤ 4 := by
  unfold finish
  cases cp with
  | some cs => exact h cs rfl
  | none =>
    simp only []
    split <;> exact utf8Len_single _

theorem finish_st (cp : Option (List Char)) (b : UInt8) : (finish n cp b).st = n := by
  unfold finish
  cases cp with
  | some cs => rfl
  | none => simp only []; split <;> rfl

theorem finish_unread_ascii (cp : Option (List Char)) (b : UInt8)
    (h : (finish n cp b).consumed = false) : b < 128 := by
  unfold finish at h
  cases cp with
  | some cs => simp at h
  | none =>
    simp only [] at h
    split at h
    · assumption
    · simp at h

end

/-! ### the encoder direction -/

theorem sanEnc_ascii (enc : Char → Option Bytes) (ch : Char) (h : ch.toNat < 128) :
    sanEnc enc ch = some [UInt8.ofNat ch.toNat] := by simp [sanEnc, h]

theorem sanEnc_size (enc : Char → Option Bytes) (ch : Char) (bs : Bytes) (h : sanEnc enc ch = some bs) :
    1 ≤ bs.length ∧ bs.length ≤ 4 := by
  unfold sanEnc at h
  split at h
  · simp only [Option.some.injEq] at h; subst h; simp
  · split at h
    · split at h
      · rename_i hh; simp only [Option.some.injEq] at h; subst h; exact hh
      · simp at h
    · simp at h

/-! ### EUC-KR, Big5, Shift_JIS: one pending lead byte -/

theorem eucKr_lawful (idx : Nat → Option Char) (enc : Char → Option Bytes) : (eucKr idx enc).Lawful where
  ascii := by intro b hb; simp [eucKr, eucKrStep, hb, asciiChar]
  unread_once := Codec.unread_once_of _
    (by intro b; simp only [eucKr, eucKrStep]; split <;> (try split) <;> rfl)
    (by
      intro s b h
      cases s with
      | none => simp only [eucKr, eucKrStep] at h; split at h <;> (try split at h) <;> simp at h
      | some l => exact finish_st _ _ _)
  flush_init := rfl
  step_small := by
    intro s b
    cases s with
    | none =>
      simp only [eucKr, eucKrStep]
      split
      · exact utf8Len_single _
      · split
        · exact utf8Len_nil'
        · exact utf8Len_single _
    | some l => exact finish_small _ _ _ (fun cs h => utf8Len_optMap _ cs h)
  flush_small := by
    intro s; cases s with
    | none => exact utf8Len_nil'
    | some l => exact utf8Len_single _
  enc_ascii := sanEnc_ascii enc
  enc_size := sanEnc_size enc

theorem big5_lawful (idx : Nat → Option Char) (enc : Char → Option Bytes) : (big5 idx enc).Lawful where
  ascii := by intro b hb; simp [big5, big5Step, hb, asciiChar]
  unread_once := Codec.unread_once_of _
    (by intro b; simp only [big5, big5Step]; split <;> (try split) <;> rfl)
    (by
      intro s b h
      cases s with
      | none => simp only [big5, big5Step] at h; split at h <;> (try split at h) <;> simp at h
      | some l => exact finish_st _ _ _)
  flush_init := rfl
  step_small := by
    intro s b
    cases s with
    | none =>
      simp only [big5, big5Step]
      split
      · exact utf8Len_single _
      · split
        · exact utf8Len_nil'
        · exact utf8Len_single _
    | some l =>
      apply finish_small
      intro cs h
      split at h
      · unfold big5Lookup at h
        split at h
        · rename_i two hp; simp only [Option.some.injEq] at h; subst h; exact big5Pair_small _ _ hp
        · exact utf8Len_optMap _ cs h
      · simp at h
  flush_small := by
    intro s; cases s with
    | none => exact utf8Len_nil'
    | some l => exact utf8Len_single _
  enc_ascii := sanEnc_ascii enc
  enc_size := sanEnc_size enc

theorem shiftJis_lawful (idx : Nat → Option Char) (enc : Char → Option Bytes) :
    (shiftJis idx enc).Lawful where
  ascii := by intro b hb; simp [shiftJis, shiftJisStep, hb, asciiChar]
  unread_once := Codec.unread_once_of _
    (by intro b; simp only [shiftJis, shiftJisStep]; split <;> (try split) <;> (try split) <;> rfl)
    (by
      intro s b h
      cases s with
      | none =>
        simp only [shiftJis, shiftJisStep] at h
        split at h <;> (try split at h) <;> (try split at h) <;> simp at h
      | some l => exact finish_st _ _ _)
  flush_init := rfl
  step_small := by
    intro s b
    cases s with
    | none =>
      simp only [shiftJis, shiftJisStep]
      split
      · exact utf8Len_single _
      · split
        · exact utf8Len_single _
        · split
          · exact utf8Len_nil'
          · exact utf8Len_single _
    | some l => exact finish_small _ _ _ (fun cs h => utf8Len_optMap _ cs h)
  flush_small := by
    intro s; cases s with
    | none => exact utf8Len_nil'
    | some l => exact utf8Len_single _
  enc_ascii := sanEnc_ascii enc
  enc_size := sanEnc_size enc

/-! ### EUC-JP: up to two pending bytes -/

theorem eucJp_lawful (idx0208 idx0212 : Nat → Option Char) (enc : Char → Option Bytes) :
    (eucJp idx0208 idx0212 enc).Lawful where
  ascii := by intro b hb; simp [eucJp, eucJpStep, hb, asciiChar]
  unread_once := Codec.unread_once_of _
    (by intro b; simp only [eucJp, eucJpStep]; split <;> (try split) <;> rfl)
    (by
      intro s b h
      cases s with
      | neutral => simp only [eucJp, eucJpStep] at h; split at h <;> (try split at h) <;> simp at h
      | lead l =>
        simp only [eucJp, eucJpStep] at h ⊢
        split
        · rename_i h1; simp [h1] at h
        · split
          · rename_i h1 h2; simp [h1, h2] at h
          · exact finish_st _ _ _
      | lead0212 l => exact finish_st _ _ _)
  flush_init := rfl
  step_small := by
    intro s b
    cases s with
    | neutral =>
      simp only [eucJp, eucJpStep]
      split
      · exact utf8Len_single _
      · split
        · exact utf8Len_nil'
        · exact utf8Len_single _
    | lead l =>
      simp only [eucJp, eucJpStep]
      split
      · exact utf8Len_single _
      · split
        · exact utf8Len_nil'
        · exact finish_small _ _ _ (fun cs h => utf8Len_optMap _ cs h)
    | lead0212 l => exact finish_small _ _ _ (fun cs h => utf8Len_optMap _ cs h)
  flush_small := by
    intro s; cases s with
    | neutral => exact utf8Len_nil'
    | lead l => exact utf8Len_single _
    | lead0212 l => exact utf8Len_single _
  enc_ascii := sanEnc_ascii enc
  enc_size := sanEnc_size enc

/-! ### gb18030 / GBK: up to three pending bytes, and the one decoder that re-plays bytes -/

theorem gb18030_lawful (idx2 idx4 : Nat → Option Char) (enc : Char → Option Bytes) :
    (gb18030 idx2 idx4 enc).Lawful where
  ascii := by intro b hb; simp [gb18030, gbStep, hb, asciiChar]
  unread_once := by
    intro s b h
    cases s with
    | neutral =>
      simp only [gb18030, gbStep] at h
      split at h <;> (try split at h) <;> (try split at h) <;> simp at h
    | first f =>
      simp only [gb18030, gbStep] at h
      split at h
      · simp at h
      · split at h
        · simp at h
        · split at h <;> simp at h
    | second f d =>
      simp only [gb18030, gbStep] at h ⊢
      split at h
      · simp at h
      · rename_i hr
        -- falls back to the neutral state, which consumes
        simp only [hr, Bool.false_eq_true, if_false]
        split <;> (try split) <;> (try split) <;> rfl
    | third f d t =>
      simp only [gb18030, gbStep] at h ⊢
      cases hd : asDigit b with
      | some d2 =>
        simp only [hd] at h
        split at h <;> simp at h
      | none =>
        -- falls back to `first t`, which never unreads
        simp only [hd]
        split <;> (try split) <;> (try split) <;> rfl
  flush_init := rfl
  step_small := by
    intro s b
    cases s with
    | neutral =>
      simp only [gb18030, gbStep]
      split
      · exact utf8Len_single _
      · split
        · exact utf8Len_single _
        · split
          · exact utf8Len_nil'
          · exact utf8Len_single _
    | first f =>
      simp only [gb18030, gbStep]
      split
      · exact utf8Len_nil'
      · split
        · exact utf8Len_single _
        · split
          · rename_i hb; exact utf8Len_repl_ascii b hb
          · exact utf8Len_single _
    | second f d =>
      simp only [gb18030, gbStep]
      split
      · exact utf8Len_nil'
      · exact utf8Len_repl_digit d
    | third f d t =>
      simp only [gb18030, gbStep]
      split
      · split <;> exact utf8Len_single _
      · exact utf8Len_repl_digit d
  flush_small := by
    intro s; cases s with
    | neutral => exact utf8Len_nil'
    | first f => exact utf8Len_single _
    | second f d => exact utf8Len_single _
    | third f d t => exact utf8Len_single _
  enc_ascii := sanEnc_ascii enc
  enc_size := sanEnc_size enc

/-! ### bytes held back -/

/-- No machine ever holds back more than 3 input bytes. -/
theorem pending_le_three :
    (∀ s : Option UInt8, pendingOpt s ≤ 1) ∧ (∀ s : EucJpSt, s.pending ≤ 2) ∧ (∀ s : GbSt, s.pending ≤ 3) := by
  refine ⟨?_, ?_, ?_⟩
  · intro s; cases s <;> simp [pendingOpt]
  · intro s; cases s <;> simp [EucJpSt.pending]
  · intro s; cases s <;> simp [GbSt.pending]

/-- gb18030: a consumed micro-step holds back one more byte or none at all; an unread one drops to the
bytes it re-plays. (`pending` really counts input bytes.) -/
theorem gb_pending_step (idx2 idx4 : Nat → Option Char) (s : GbSt) (b : UInt8) :
    (gbStep idx2 idx4 s b).st.pending = s.pending + 1 ∨ (gbStep idx2 idx4 s b).st.pending ≤ 1 := by
  cases s with
  | neutral => simp only [gbStep]; split <;> (try split) <;> (try split) <;> simp [GbSt.pending]
  | first f =>
    simp only [gbStep]
    split
    · simp [GbSt.pending]
    · split <;> (try split) <;> simp [GbSt.pending]
  | second f d => simp only [gbStep]; split <;> simp [GbSt.pending]
  | third f d t =>
    simp only [gbStep]
    split
    · split <;> simp [GbSt.pending]
    · simp [GbSt.pending]

/-! ### the theorems about lawful codecs, instantiated (non-vacuity + the statement asked for) -/

/-- **C13_whatwg_streaming.** For each of the five machines, every index, every buffer ≥ 4, every
`OutputFull` policy and every split of the bytes into `feed_text` calls: same text as the whole decode,
one final `last` chunk, contiguous covering ranges. -/
theorem C13_whatwg_streaming (c : Codec) (L : c.Lawful) (pol : Policy c) (cap : Nat) (hcap : 4 ≤ cap)
    (start : Nat) (parts : List Bytes) (hne : parts ≠ []) :
    ∃ cs, textNode ⟨c, false⟩ pol cap start parts = some cs ∧
      chunksText cs = c.decodeAll parts.flatten ∧
      oneLastAtEnd cs (start + parts.flatten.length) ∧
      rangesContiguous start cs (start + parts.flatten.length) := by
  have EL : Encoding.Lawful ⟨c, false⟩ := ⟨L, by intro h; cases h⟩
  exact LolHtml.Enc.textNodeWith_ok (e := ⟨c, false⟩) pol EL cap hcap true start parts hne

end LolHtml.Enc.Whatwg
