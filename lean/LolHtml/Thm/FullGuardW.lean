import LolHtml.Thm.Full10
import LolHtml.Thm.Full11
/-!
# The three lexeme guards never fire in the cleaned runs

Package full's operation-level hypotheses (`Full_scan_opsW_statement`, Thm/Full11.lean; `Full_scan_opsX_statement`,
Thm/Full12.lean) use the lexeme guard `withArgs argSite (andGuard kindGuard wmGuard)`: argument guard, kind guard,
watermark guard. Here the run-level companion is proved — in the runs of the cleaned real controller with the ghost NONE
of the three fires (`Full_clean_guardW`):

* `guardFree2_wm` — the WATERMARK guard (`remaining_content_start ≤ lexeme.raw.start`) never fires in the runs of a
  clean controller: this is the register invariant of C15 (`PInv` / `SInv`: the dispatcher's watermark is at or before
  `lexeme_start`). The dispatcher guarded by `wmGuard` is `SinkSafe` for the watermark `remaining_content_start` — the
  guard only refuses lexemes the `SinkSafe` precondition excludes — so `parse_post` applies to it and shows that its
  parse never returns `.panic wmSite` (not a `U1` site); `Parser.parse_rel`.
* `guardFree2_and` — two guards that never fire (and refuse with different panics) never fire together.
* the KIND guard: package scan's `Full_clean_kindH` (Thm/Full10.lean); the ARGUMENT guard: `guardFree2_withArgs`.

The assembly (with the hint guard of Thm/Full12.lean on top) is in Thm/Full13.lean.
-/
set_option linter.unusedSimpArgs false
set_option linter.unusedVariables false
namespace LolHtml.Thm.Full
open LolHtml LolHtml.Model LolHtml.Model.Full LolHtml.Lemmas.Full
open LolHtml.Thm.C01 (run writeAll Rewriter.new)
open LolHtml.Model.RelI LolHtml.Model.Hint

/-! ### the watermark guard never fires (any clean controller) -/

section wm
variable {γ : Type}

theorem wmGuard_fires {e : Err} (h : (wmGuard (γ := γ)).Fires e) : e = .panic wmSite := by
  rcases h with ⟨inp, lx, k, h⟩ | ⟨inp, lx, k, h⟩ <;> simp only [wmGuard] at h <;> split at h <;>
    first | (cases h; done) | (simp only [Option.some.injEq] at h; exact h.symm)

theorem wmSite_not_U1 : ¬ U1 wmSite := by unfold U1 wmSite; decide

/-- the dispatcher of a clean controller behind the watermark guard is still a safe sink for the watermark -/
theorem wm_safe {ctl : Controller γ} (hc : CtlClean ctl) (inp : Bytes) :
    SinkSafe (guardS wmGuard (dispOps ctl)) (fun d : Disp γ => d.rcs) inp U1 where
  handleTag := fun lx k h1 h2 h3 => by
    have : (guardS wmGuard (dispOps ctl)).handleTag inp lx k = (dispOps ctl).handleTag inp lx k := by
      simp only [guardS, wmGuard, if_pos h1]
    rw [this]
    exact (dispOps_safe hc).handleTag lx k h1 h2 h3
  handleNonTag := fun lx k h1 h2 h3 => by
    have : (guardS wmGuard (dispOps ctl)).handleNonTag inp lx k = (dispOps ctl).handleNonTag inp lx k := by
      simp only [guardS, wmGuard, if_pos h1]
    rw [this]
    exact (dispOps_safe hc).handleNonTag lx k h1 h2 h3
  startTagHint := (dispOps_safe (inp := inp) hc).startTagHint
  endTagHint := (dispOps_safe (inp := inp) hc).endTagHint

theorem wm_rel (ctl : Controller γ) (inp : Bytes) :
    OpsRel (guardS wmGuard (dispOps ctl)) (dispOps ctl) inp (fun a b : Disp γ => a = b) (.panic wmSite) where
  handleTag := fun lx k₁ k₂ hk => by
    subst hk
    simp only [guardS, wmGuard]
    by_cases h : k₁.rcs ≤ lx.raw.start
    · simp only [h, if_true]; exact Or.inl ⟨by first | rfl | trivial, by first | rfl | trivial⟩
    · simp only [h, if_false]; exact Or.inr (by first | rfl | trivial)
  handleNonTag := fun lx k₁ k₂ hk => by
    subst hk
    simp only [guardS, wmGuard]
    by_cases h : k₁.rcs ≤ lx.raw.start
    · simp only [h, if_true]; exact Or.inl ⟨by first | rfl | trivial, by first | rfl | trivial⟩
    · simp only [h, if_false]; exact Or.inr (by first | rfl | trivial)
  startTagHint := fun n ns k₁ k₂ hk => by subst hk; exact Or.inl ⟨rfl, rfl⟩
  endTagHint := fun n k₁ k₂ hk => by subst hk; exact Or.inl ⟨rfl, rfl⟩

/-- one parse call from the register invariant -/
theorem parse_wm {w : World γ} (hc : CtlClean w.ctl) (hw : Wf w.tbl) (ht : EmitsChecked w.tbl = true) (inp : Bytes)
    (last : Bool) (p : Parser (Disp γ)) (hp : PInv w.tbl inp.length (fun d : Disp γ => d.rcs) p) :
    Parser.parse (envS w wmGuard) inp last p = Parser.parse w.env inp last p ∧
    ∀ e, (wmGuard (γ := γ)).Fires e → (Parser.parse w.env inp last p).2 ≠ .error e := by
  have hpost := parse_post (env := envS w wmGuard) (inp := inp) (wm_safe hc inp) hw last p hp
  have hno : (Parser.parse (envS w wmGuard) inp last p).2 ≠ .error (.panic wmSite) := by
    intro he
    unfold ParsePost at hpost
    rw [he] at hpost
    exact wmSite_not_U1 hpost
  have heq : Parser.parse (envS w wmGuard) inp last p = Parser.parse w.env inp last p := by
    rcases Parser.parse_rel (tbl := w.tbl) (cfg := w.tags) (inp := inp) (wm_rel w.ctl inp) ht (by intro s hh; cases hh)
        last p p (PR_refl p) with ⟨hpr, hres⟩ | habort
    · exact Prod.ext (PR_eq' hpr) hres
    · exact absurd habort hno
  refine ⟨heq, fun e hF => ?_⟩
  rw [wmGuard_fires hF, ← heq]
  exact hno

/-- **the watermark guard never fires** in the runs of a clean controller -/
theorem guardFree2_wm {w : World γ} (hc : CtlClean w.ctl) (hw : Wf w.tbl) (ht : EmitsChecked w.tbl = true) (g : γ)
    (cfg : Settings) : GuardFree2 w wmGuard g cfg := by
  intro pre hu
  have hr := (C15.writeAll_post hc hw pre (Rewriter.new w g cfg) (Or.inr (Stream.new_SInv hw g cfg))).2
  have hs : SInv w (writeAll w (Rewriter.new w g cfg) pre).1.stream := by
    rcases hr with h | h
    · rw [hu] at h; cases h
    · exact h
  generalize (writeAll w (Rewriter.new w g cfg) pre).1 = R at hs ⊢
  obtain ⟨_, hpinv⟩ := hs
  constructor
  · intro data s1 chunk hcf
    obtain ⟨c1, c2, _, _, _⟩ := Stream.chunkFor_inr hcf
    have hlen : (if R.stream.hasBuffered then R.stream.buf.data.length else 0) ≤ chunk.length := by
      rw [c1]
      simp only [Stream.pending, List.length_append]
      split <;> omega
    exact parse_wm hc hw ht chunk false s1.parser (by rw [c2]; exact PInv_mono hpinv hlen)
  · have hp1 : PInv w.tbl (if R.stream.hasBuffered then R.stream.buf.data else []).length (fun d : Disp γ => d.rcs) R.stream.parser := by
      split <;> rename_i hb <;> simpa [hb] using hpinv
    exact parse_wm hc hw ht _ true R.stream.parser hp1

end wm

/-! ### two guards that never fire never fire together -/

section and
variable {γ : Type} {K1 K2 : SGuard (Disp γ)}

theorem andGuard_fires {e : Err} (h : (andGuard K1 K2).Fires e) : K1.Fires e ∨ K2.Fires e := by
  rcases h with ⟨inp, lx, k, h⟩ | ⟨inp, lx, k, h⟩
  · simp only [andGuard] at h
    cases h1 : K1.tag inp lx k with
    | some e' => rw [h1] at h; simp only [Option.some.injEq] at h; subst h; exact Or.inl (Or.inl ⟨inp, lx, k, h1⟩)
    | none => rw [h1] at h; exact Or.inr (Or.inl ⟨inp, lx, k, h⟩)
  · simp only [andGuard] at h
    cases h1 : K1.nonTag inp lx k with
    | some e' => rw [h1] at h; simp only [Option.some.injEq] at h; subst h; exact Or.inl (Or.inr ⟨inp, lx, k, h1⟩)
    | none => rw [h1] at h; exact Or.inr (Or.inr ⟨inp, lx, k, h⟩)

/-- both guards vs. the first only: equal, or the second fired -/
theorem and_rel1 (ops : SinkOps (Disp γ)) (inp : Bytes) :
    RelE.OpsRelE (guardS (andGuard K1 K2) ops) (guardS K1 ops) inp (fun a b => a = b) K2.Fires where
  handleTag := fun lx k₁ k₂ hk => by
    subst hk
    simp only [guardS, andGuard]
    cases h1 : K1.tag inp lx k₁ with
    | some e => exact Or.inl ⟨rfl, rfl⟩
    | none =>
      dsimp only
      cases h2 : K2.tag inp lx k₁ with
      | some e => exact Or.inr ⟨e, Or.inl ⟨inp, lx, k₁, h2⟩, rfl⟩
      | none => exact Or.inl ⟨rfl, rfl⟩
  handleNonTag := fun lx k₁ k₂ hk => by
    subst hk
    simp only [guardS, andGuard]
    cases h1 : K1.nonTag inp lx k₁ with
    | some e => exact Or.inl ⟨rfl, rfl⟩
    | none =>
      dsimp only
      cases h2 : K2.nonTag inp lx k₁ with
      | some e => exact Or.inr ⟨e, Or.inr ⟨inp, lx, k₁, h2⟩, rfl⟩
      | none => exact Or.inl ⟨rfl, rfl⟩
  startTagHint := fun n ns k₁ k₂ hk => by subst hk; exact Or.inl ⟨rfl, rfl⟩
  endTagHint := fun n k₁ k₂ hk => by subst hk; exact Or.inl ⟨rfl, rfl⟩

/-- both guards vs. the second only: equal, or the first fired -/
theorem and_rel2 (ops : SinkOps (Disp γ)) (inp : Bytes) :
    RelE.OpsRelE (guardS (andGuard K1 K2) ops) (guardS K2 ops) inp (fun a b => a = b) K1.Fires where
  handleTag := fun lx k₁ k₂ hk => by
    subst hk
    simp only [guardS, andGuard]
    cases h1 : K1.tag inp lx k₁ with
    | some e => exact Or.inr ⟨e, Or.inl ⟨inp, lx, k₁, h1⟩, rfl⟩
    | none => exact Or.inl ⟨rfl, rfl⟩
  handleNonTag := fun lx k₁ k₂ hk => by
    subst hk
    simp only [guardS, andGuard]
    cases h1 : K1.nonTag inp lx k₁ with
    | some e => exact Or.inr ⟨e, Or.inr ⟨inp, lx, k₁, h1⟩, rfl⟩
    | none => exact Or.inl ⟨rfl, rfl⟩
  startTagHint := fun n ns k₁ k₂ hk => by subst hk; exact Or.inl ⟨rfl, rfl⟩
  endTagHint := fun n k₁ k₂ hk => by subst hk; exact Or.inl ⟨rfl, rfl⟩

theorem parse_and {w : World γ} (ht : EmitsChecked w.tbl = true)
    (hp1 : ∀ e, K1.Fires e → ∃ s, e = .panic s) (hp2 : ∀ e, K2.Fires e → ∃ s, e = .panic s)
    (hdis : ∀ e, K1.Fires e → ¬ K2.Fires e) (inp : Bytes) (last : Bool) (p : Parser (Disp γ))
    (h1 : Parser.parse (envS w K1) inp last p = Parser.parse w.env inp last p ∧
      ∀ e, K1.Fires e → (Parser.parse w.env inp last p).2 ≠ .error e)
    (h2 : Parser.parse (envS w K2) inp last p = Parser.parse w.env inp last p ∧
      ∀ e, K2.Fires e → (Parser.parse w.env inp last p).2 ≠ .error e) :
    Parser.parse (envS w (andGuard K1 K2)) inp last p = Parser.parse w.env inp last p ∧
    ∀ e, (andGuard K1 K2).Fires e → (Parser.parse w.env inp last p).2 ≠ .error e := by
  have r1 := RelE.parse_relE (tbl := w.tbl) (cfg := w.tags) (inp := inp) (and_rel1 (K1 := K1) (K2 := K2) (dispOps w.ctl) inp)
    ht last p p (PR_refl p)
  have r2 := RelE.parse_relE (tbl := w.tbl) (cfg := w.tags) (inp := inp) (and_rel2 (K1 := K1) (K2 := K2) (dispOps w.ctl) inp)
    ht last p p (PR_refl p)
  have heq : Parser.parse (envS w (andGuard K1 K2)) inp last p = Parser.parse w.env inp last p := by
    rcases r1 with ⟨hpr, hres⟩ | ⟨e2, hF2, hres2⟩
    · have : Parser.parse (envS w (andGuard K1 K2)) inp last p = Parser.parse (envS w K1) inp last p := Prod.ext (PR_eq' hpr) hres
      rw [this]; exact h1.1
    · obtain ⟨s2, rfl⟩ := hp2 e2 hF2
      have hres2' : (Parser.parse (envS w (andGuard K1 K2)) inp last p).2 = .error (.panic s2) := hres2
      rcases r2 with ⟨hpr, hres⟩ | ⟨e1, hF1, hres1⟩
      · have : Parser.parse (envS w (andGuard K1 K2)) inp last p = Parser.parse (envS w K2) inp last p := Prod.ext (PR_eq' hpr) hres
        rw [this] at hres2'
        rw [h2.1] at hres2'
        exact absurd hres2' (h2.2 _ hF2)
      · obtain ⟨s1, rfl⟩ := hp1 e1 hF1
        have hres1' : (Parser.parse (envS w (andGuard K1 K2)) inp last p).2 = .error (.panic s1) := hres1
        rw [hres2'] at hres1'
        simp only [Except.error.injEq] at hres1'
        rw [← hres1'] at hF1
        exact absurd hF2 (hdis _ hF1)
  refine ⟨heq, fun e hF => ?_⟩
  rcases andGuard_fires hF with h | h
  · exact h1.2 e h
  · exact h2.2 e h

/-- **two guards that never fire (and refuse with different panics) never fire together** -/
theorem guardFree2_and {w : World γ} (ht : EmitsChecked w.tbl = true)
    (hp1 : ∀ e, K1.Fires e → ∃ s, e = .panic s) (hp2 : ∀ e, K2.Fires e → ∃ s, e = .panic s)
    (hdis : ∀ e, K1.Fires e → ¬ K2.Fires e) (g : γ) (cfg : Settings)
    (h1 : GuardFree2 w K1 g cfg) (h2 : GuardFree2 w K2 g cfg) : GuardFree2 w (andGuard K1 K2) g cfg := by
  intro pre hu
  obtain ⟨a1, a2⟩ := h1 pre hu
  obtain ⟨b1, b2⟩ := h2 pre hu
  exact ⟨fun data s1 chunk hcf => parse_and ht hp1 hp2 hdis chunk false s1.parser (a1 data s1 chunk hcf) (b1 data s1 chunk hcf),
    parse_and ht hp1 hp2 hdis _ true _ a2 b2⟩

end and

/-! ### the assembly -/

theorem kw_fires {γ : Type} {e : Err} (h : (andGuard (kindGuard (γ := γ)) wmGuard).Fires e) :
    e = .panic startSite ∨ e = .panic guardSite ∨ e = .panic wmSite := by
  rcases andGuard_fires h with h | h
  · rcases kindGuard_fires h with h | h
    · exact Or.inl h
    · exact Or.inr (Or.inl h)
  · exact Or.inr (Or.inr (wmGuard_fires h))

theorem kw_kfresh {γ : Type} (inp : Bytes) : KFresh argSite (andGuard (kindGuard (γ := γ)) wmGuard) inp := by
  have key : ∀ e, (andGuard (kindGuard (γ := γ)) wmGuard).Fires e → e ≠ .panic argSite ∧ e ≠ .panic rawSite := by
    intro e h
    rcases kw_fires h with rfl | rfl | rfl
    · exact ⟨by simp [startSite, argSite], by simp [startSite, rawSite]⟩
    · exact ⟨by simp [guardSite, argSite], by simp [guardSite, rawSite]⟩
    · exact ⟨by simp [wmSite, argSite], by simp [wmSite, rawSite]⟩
  exact ⟨fun lx k e he => key e (Or.inl ⟨inp, lx, k, he⟩), fun lx k e he => key e (Or.inr ⟨inp, lx, k, he⟩)⟩

/-- **the run-level companion of `Full_scan_opsW_statement`**: in the runs of the cleaned real controller with the
ghost, none of the three guards fires -/
theorem Full_clean_guardW (cfg : Cfg) (settings : Settings) :
    GuardFree2 (cleanWorldH cfg) (withArgs argSite (andGuard kindGuard wmGuard)) (FullSt.init cfg, none) settings := by
  have ht : ArgsTable (cleanWorldH cfg).tbl (computeCert Gen.Syntax.table) (computeRaw Gen.Syntax.table) := C15.C15_argsTable_gen
  have hemit : EmitsChecked (cleanWorldH cfg).tbl = true := C03.C03_emitsChecked_gen
  have hkw : GuardFree2 (cleanWorldH cfg) (andGuard kindGuard wmGuard) (FullSt.init cfg, none) settings :=
    guardFree2_and hemit
      (fun e h => by rcases kindGuard_fires h with rfl | rfl <;> exact ⟨_, rfl⟩)
      (fun e h => ⟨_, wmGuard_fires h⟩)
      (fun e h1 h2 => by
        rw [wmGuard_fires h2] at h1
        rcases kindGuard_fires h1 with h | h <;> simp [wmSite, startSite, guardSite] at h)
      (FullSt.init cfg, none) settings (Full_clean_kindH cfg settings)
      (guardFree2_wm (w := cleanWorldH cfg) (cleanCtlH_clean cfg) ht.wf hemit (FullSt.init cfg, none) settings)
  exact guardFree2_withArgs (Dk := fun _ => True) ht argSite_T2 argSite_ne
    (argsCtl_of_clean (w := cleanWorldH cfg) (cleanCtlH_clean cfg) argSite_T2)
    (FullSt.init cfg, none) settings trivial (fun inp => kw_kfresh inp) hkw

end LolHtml.Thm.Full
