/-
# Package `full`, part 4 — the dispatcher's lexer-mode operations follow the protocol

`Full_handleTag_lexer`, `Full_handleNonTag_lexer`: with the REAL controller, from a dispatcher state without
outstanding hint (`Idle`) whose controller state satisfies the run invariant `J` (Thm/Full3.lean), ONE
`Disp.handleTag` / `Disp.handleNonTag` on ANY lexeme makes exactly the controller calls of the event driver
(`tokIf true` for the closing chunk of an open text node, then one start / end event, resp. one token) and
therefore either ends in such a state again, or fails with a content-handler error, at a residual glue
site, or at one of the dispatcher's own slice checks (`DispOwn`, excluded by C15 for the lexemes the lexer
really produces). The site `rBase` is eliminated (`to_token` builds `src = prev_consumed + raw`).

The lifting of this operation-level invariant through `Parser.parse` / `Stream.write` is in
`Lemmas/LexOnlyE.lean` / `Thm/Full5.lean` (round 4). NOT proved: the scanner-mode (hint) operations.
Both operation theorems are instances of a version for any invariant kept by the events (`EvInv`).
-/
import LolHtml.Thm.Full3
import LolHtml.Lemmas.FullDisp
import LolHtml.Lemmas.ChunkFullPanic
import LolHtml.Thm.C11_General

namespace LolHtml.Thm.Full
open LolHtml LolHtml.Model LolHtml.Model.Full LolHtml.Model.Handlers LolHtml.EditModel LolHtml.Lemmas.Full

def rMatcher : String := "Bytes::slice out of range (attribute matcher)"

/-- what a lexer-mode dispatcher operation with the real controller may fail with -/
def Allowed (e : Err) : Prop :=
  e = .handler ∨ e = .panic rAttr ∨ e = .panic rPayload ∨ e = .panic rMatcher ∨ DispOwn e

theorem DRes.bind_ok {γ α β : Type} (r : DRes γ α) (f : Disp γ → α → DRes γ β) (a : α) (h : r.2 = .ok a) :
    DRes.bind r f = f r.1 a := by
  unfold DRes.bind; rw [h]

theorem DRes.bind_err {γ α β : Type} (r : DRes γ α) (f : Disp γ → α → DRes γ β) (e : Err) (h : r.2 = .error e) :
    DRes.bind r f = (r.1, .error e) := by
  unfold DRes.bind; rw [h]

/-! ### events, without side hypotheses on the attribute slices -/

theorem tokIf_other_no_panic (cfg : Cfg) (s : St) (hJ : J cfg s) (tok : Model.Token)
    (hk : (CtlEv.other tok).WellKinded) (b : Bool) :
    ((tokIf cfg b s tok).2 = none → J cfg (tokIf cfg b s tok).1) ∧
    (∀ e, (tokIf cfg b s tok).2 = some e → e = .handler) := by
  cases b with
  | false => exact ⟨fun _ => hJ, fun e he => by simp [tokIf] at he⟩
  | true =>
    have hframe : (tokIf cfg true s tok).1.fault = none ∧ scopeState (tokIf cfg true s tok).1 = scopeState s ∧
        (tokIf cfg true s tok).1.vm = s.vm := by
      unfold tokIf
      simp only [if_true]
      obtain ⟨a, b, c, _, e⟩ := tokOther_frame cfg s tok hk hJ.fault
      exact ⟨by rw [e]; exact hJ.fault, scopeState_congr a b c, b⟩
    constructor
    · intro _
      refine ⟨hframe.1, tokIf_valid hJ.valid _ _, by rw [hframe.2.1]; exact hJ.scope, ?_⟩
      intro vmx hvx
      rw [hframe.2.2] at hvx
      exact hJ.vm vmx hvx
    · intro e he
      unfold tokIf at he
      simp only [if_true] at he
      have hf := hJ.fault
      unfold token at he
      simp only [hf] at he
      cases tok with
      | startTag => simp [CtlEv.WellKinded] at hk
      | endTag => simp [CtlEv.WellKinded] at hk
      | comment text raw src =>
        simp only [tokComment, outOf] at he
        split at he
        · simp only [Option.some.injEq] at he; exact he.symm
        · simp at he
      | doctype name publicId systemId fq raw src =>
        simp only [tokDoctype, outOf] at he
        split at he
        · simp only [Option.some.injEq] at he; exact he.symm
        · simp at he
      | text bytes tt last src =>
        simp only [tokText, outOf] at he
        split at he
        · simp only [Option.some.injEq] at he; exact he.symm
        · simp at he

theorem startPhase_info_irrelevant (s : St) (ln : LocalName) (ns : Model.Ns) (info info' : AuxInfo)
    (h : (startTag s ln ns).2 ≠ .infoRequest) : startPhase s ln ns info = startPhase s ln ns info' := by
  unfold startPhase
  dsimp only
  cases hr : (startTag s ln ns).2 with
  | flags f => rfl
  | err e => rfl
  | infoRequest => exact absurd hr h

/-- a start-tag event from a `J` state, whatever the aux info looks like -/
theorem start_event_no_panic (cfg : Cfg) (hb : IdsBounded (theProgram cfg) cfg.sels.length) (s : St) (hJ : J cfg s)
    (ln : LocalName) (ns : Model.Ns) (info : AuxInfo)
    (nm : Bytes) (attrs : List (Bytes × Bytes × AttrOutline)) (ns' : Model.Ns) (sc : Bool) (raw : Bytes)
    (src : Range) (base : Nat) :
    ((ctlStep cfg s (.start ln ns info (.startTag nm attrs ns' sc raw src base))).2 = none →
      J cfg (ctlStep cfg s (.start ln ns info (.startTag nm attrs ns' sc raw src base))).1) ∧
    (∀ e, (ctlStep cfg s (.start ln ns info (.startTag nm attrs ns' sc raw src base))).2 = some e →
      e = .handler ∨ Residual e ∨ e = .panic rMatcher) := by
  cases hv : s.vm with
  | none =>
    obtain ⟨h1, h2⟩ := Full_start_no_panic_novm cfg s hJ hv ln ns info nm attrs ns' sc raw src base
    exact ⟨h1, fun e he => (h2 e he).elim Or.inl (fun h => Or.inr (Or.inl h))⟩
  | some vm =>
    cases ha : auxConv info with
    | some aux =>
      obtain ⟨h1, h2⟩ := Full_start_no_panic cfg s hJ hb vm hv ln ns info aux ha nm attrs ns' sc raw src base
      exact ⟨fun h => (h1 h).1, fun e he => (h2 e he).elim Or.inl (fun h => Or.inr (Or.inl h))⟩
    | none =>
      by_cases hreq : (startTag s ln ns).2 = .infoRequest
      · -- the VM asks for the attributes and they cannot be sliced
        have herr : (ctlStep cfg s (.start ln ns info (.startTag nm attrs ns' sc raw src base))).2 = some (.panic rMatcher) := by
          simp only [ctlStep, startPhase, hreq]
          have hvm' : ∃ vm1 req, (startTag s ln ns).1.vm = some vm1 ∧ (startTag s ln ns).1.pending = some req := by
            unfold startTag at hreq ⊢
            cases hf : s.fault with
            | some m => simp [hf] at hreq
            | none =>
              simp only [hf] at hreq ⊢
              unfold startTagCore at hreq ⊢
              simp only [hv] at hreq ⊢
              cases he : vm.execForStartTag (nameBytes ln) (nsConv ns) with
              | error p => simp [he] at hreq
              | ok o =>
                cases o with
                | done vm' ms =>
                  simp only [he] at hreq
                  split at hreq <;> simp at hreq
                | infoRequest vm1 req => exact ⟨vm1, req, rfl, rfl⟩
          obtain ⟨vm1, req, e1, e2⟩ := hvm'
          unfold auxInfo
          simp only [e1, e2, ha]
          rfl
        refine ⟨fun h => ?_, fun e he => ?_⟩
        · rw [herr] at h; cases h
        · rw [herr] at he
          simp only [Option.some.injEq] at he
          exact Or.inr (Or.inr he.symm)
      · have hsame : ctlStep cfg s (.start ln ns info (.startTag nm attrs ns' sc raw src base)) =
            ctlStep cfg s (.start ln ns ⟨info.input, [], info.selfClosing⟩ (.startTag nm attrs ns' sc raw src base)) := by
          simp only [ctlStep]
          rw [startPhase_info_irrelevant s ln ns info ⟨info.input, [], info.selfClosing⟩ hreq]
        rw [hsame]
        obtain ⟨h1, h2⟩ := Full_start_no_panic cfg s hJ hb vm hv ln ns ⟨info.input, [], info.selfClosing⟩
          ⟨[], info.selfClosing⟩ rfl nm attrs ns' sc raw src base
        exact ⟨fun h => (h1 h).1, fun e he => (h2 e he).elim Or.inl (fun h => Or.inr (Or.inl h))⟩

theorem tokStartTag_not_rBase (cfg : Cfg) (s : St) (name : Bytes) (attrs : List (Bytes × Bytes × AttrOutline))
    (ns : Model.Ns) (sc : Bool) (raw : Bytes) (src : Range) (base : Nat) (hbase : base ≤ src.start) :
    (tokStartTag cfg s name attrs ns sc raw src base).2.err ≠ some (.panic rBase) := by
  intro h
  unfold tokStartTag at h
  rw [if_pos hbase] at h
  split at h
  · simp only [Option.some.injEq, Err.panic.injEq] at h; revert h; decide
  · rename_i as hm
    dsimp only at h
    generalize (if 0 < s.disp.removedContent then
      StartTag.apply { name := name, attributes := as, ns := nsEdit ns, selfClosing := sc, raw := raw } (StartTagOp.mut MutOp.remove)
      else { name := name, attributes := as, ns := nsEdit ns, selfClosing := sc, raw := raw }) = st at h
    generalize runClosures cfg.elementScripts kElement Who.element (seeElement ns) Element.applyOps src
        s.disp.element.forEachActive s (Element.new st s.disp.nextElementCanHaveContent) = r at h
    split at h
    · simp at h
    · split at h
      · simp only [Option.some.injEq, dispErr, dispMsg, rBase, Err.panic.injEq] at h; revert h; decide
      · simp at h

/-! ## `Disp.handleTag` in lexer mode -/

/-- an invariant `I` of the controller state along the events of the dispatcher's calling protocol; `S` /
`A`: what a start- / end-tag event may fail with besides a content-handler error (and `rBase`, which the
token `to_token` builds cannot reach) -/
structure EvInv (cfg : Cfg) (I : St → Prop) (S A : Err → Prop) : Prop where
  fault : ∀ s, I s → s.fault = none
  other : ∀ s tok b, I s → (CtlEv.other tok).WellKinded →
    ((tokIf cfg b s tok).2 = none → I (tokIf cfg b s tok).1) ∧ (∀ e, (tokIf cfg b s tok).2 = some e → e = .handler)
  start : ∀ s ln ns info nm attrs ns' sc raw src base, I s →
    ((ctlStep cfg s (.start ln ns info (.startTag nm attrs ns' sc raw src base))).2 = none →
      I (ctlStep cfg s (.start ln ns info (.startTag nm attrs ns' sc raw src base))).1) ∧
    (∀ e, (ctlStep cfg s (.start ln ns info (.startTag nm attrs ns' sc raw src base))).2 = some e →
      e = .handler ∨ S e ∨ e = .panic rBase)
  end_ : ∀ s ln nm raw src, I s →
    ((ctlStep cfg s (.end_ ln (.endTag nm raw src))).2 = none → I (ctlStep cfg s (.end_ ln (.endTag nm raw src))).1) ∧
    (∀ e, (ctlStep cfg s (.end_ ln (.endTag nm raw src))).2 = some e → A e)

/-- what a lexer-mode dispatcher operation may fail with, given the classes of the events -/
def CG (S A : Err → Prop) (e : Err) : Prop := e = .handler ∨ S e ∨ A e ∨ DispOwn e

/-- the post-condition of a lexer-mode dispatcher operation, for an event invariant -/
def PostG {α : Type} (cfg : Cfg) (I : St → Prop) (C : Err → Prop) (r : DRes (FullSt cfg) α) : Prop :=
  (∀ a, r.2 = .ok a → Idle r.1 ∧ I r.1.ctl.1) ∧ (∀ e, r.2 = .error e → C e)

theorem postG_err {α : Type} {cfg : Cfg} {I : St → Prop} {C : Err → Prop} (d : Disp (FullSt cfg)) (e : Err) (h : C e) :
    PostG cfg I C ((d, .error e) : DRes (FullSt cfg) α) := by
  refine ⟨fun a ha => ?_, fun e' he' => ?_⟩
  · cases ha
  · simp only [Except.error.injEq] at he'
    rw [← he']; exact h

theorem residual_cg {S A : Err → Prop} {e : Err} (h : e = .handler ∨ S e ∨ e = .panic rBase)
    (hnb : e ≠ .panic rBase) : CG S A e := by
  rcases h with h | h | h
  · exact Or.inl h
  · exact Or.inr (Or.inl h)
  · exact absurd h hnb

/-- the last step of `handle_tag`: `emission_enabled`, next parser directive -/
theorem handleTag_tailG {cfg : Cfg} {I : St → Prop} {C : Err → Prop} (d : Disp (FullSt cfg)) (hi : Idle d) (hI : I d.ctl.1) :
    PostG cfg I C (({ d with emissionEnabled := (fullCtl cfg).shouldEmit d.ctl },
      .ok ({ d with emissionEnabled := (fullCtl cfg).shouldEmit d.ctl }).nextDirective) : DRes (FullSt cfg) Directive) :=
  ⟨fun _ _ => ⟨hi, hI⟩, fun e he => by cases he⟩

/-- the post-condition of a lexer-mode dispatcher operation -/
def Post {α : Type} (cfg : Cfg) (r : DRes (FullSt cfg) α) : Prop :=
  (∀ a, r.2 = .ok a → Idle r.1 ∧ J cfg r.1.ctl.1) ∧ (∀ e, r.2 = .error e → Allowed e)

theorem post_err {α : Type} {cfg : Cfg} (d : Disp (FullSt cfg)) (e : Err) (h : Allowed e) :
    Post cfg ((d, .error e) : DRes (FullSt cfg) α) := by
  refine ⟨fun a ha => ?_, fun e' he' => ?_⟩
  · cases ha
  · simp only [Except.error.injEq] at he'
    rw [← he']; exact h

theorem residual_allowed {e : Err} (h : e = .handler ∨ Residual e ∨ e = .panic rMatcher)
    (hnb : e ≠ .panic rBase) : Allowed e := by
  rcases h with h | (h | h | h) | h
  · exact Or.inl h
  · exact Or.inr (Or.inl h)
  · exact absurd h hnb
  · exact Or.inr (Or.inr (Or.inl h))
  · exact Or.inr (Or.inr (Or.inr (Or.inl h)))

/-- the last step of `handle_tag`: `emission_enabled`, next parser directive -/
theorem handleTag_tail {cfg : Cfg} (d : Disp (FullSt cfg)) (hi : Idle d) (hJ : J cfg d.ctl.1) :
    Post cfg (({ d with emissionEnabled := (fullCtl cfg).shouldEmit d.ctl },
      .ok ({ d with emissionEnabled := (fullCtl cfg).shouldEmit d.ctl }).nextDirective) : DRes (FullSt cfg) Directive) :=
  ⟨fun _ _ => ⟨hi, hJ⟩, fun e he => by cases he⟩

/-- **handleTag_lexer_gen** (`Full_handleTag_lexer` for any event invariant). With the real controller, from a dispatcher state without outstanding hint
whose controller state satisfies `J`, `handle_tag` on ANY tag lexeme either ends in such a state again or
fails with a content-handler error, at a residual glue site (`rAttr`, `rPayload`, `rMatcher`), or at one
of the dispatcher's own slice checks. Its controller calls are the closing chunk of an open text node and
exactly one start- / end-tag event of `Model/FullEvents.lean`. -/
theorem handleTag_lexer_gen (cfg : Cfg) (I : St → Prop) (S A : Err → Prop) (hE : EvInv cfg I S A)
    (d : Disp (FullSt cfg)) (hi : Idle d) (hJ : I d.ctl.1) (input : Bytes) (lx : TagLexeme) :
    PostG cfg I (CG S A) (Disp.handleTag (fullCtl cfg) input lx d) := by
  unfold Disp.handleTag
  -- 1. the closing chunk of an open text node
  obtain ⟨tokF, ⟨tt, p, htokF⟩, f1, _, f3, f4⟩ := flushPendingText_full d
  have hkF : (CtlEv.other tokF).WellKinded := by rw [htokF]; trivial
  obtain ⟨o1, o2⟩ := hE.other d.ctl.1 tokF d.textPending hJ hkF
  cases h0 : (tokIf cfg d.textPending d.ctl.1 tokF).2 with
  | some e =>
    rw [h0] at f4
    rw [DRes.bind_err _ _ e f4]
    exact postG_err _ e (Or.inl (o2 e h0))
  | none =>
    rw [h0] at f4
    rw [DRes.bind_ok _ _ () f4]
    have hJ1 : I (d.flushPendingText (fullCtl cfg)).1.ctl.1 := by rw [f1]; exact o1 h0
    have hi1 : Idle (d.flushPendingText (fullCtl cfg)).1 := f3.idle hi
    generalize (d.flushPendingText (fullCtl cfg)).1 = d1 at hJ1 hi1 ⊢
    -- 2. `adjust_capture_flags_for_tag_lexeme`
    rw [if_neg (by rw [hi1.2]; simp)]
    cases hl : LocalName.new input lx.outline.name lx.outline.nameHash with
    | none =>
      have := adjust_noname d1 hi1.1 input lx hl
      rw [DRes.bind_err _ _ _ this]
      exact postG_err _ _ (Or.inr (Or.inr (Or.inr (Or.inl rfl))))
    | some ln =>
      cases ho : lx.outline with
      | startTag name h ns as sc =>
        rw [ho] at hl
        simp only [TagOutline.name, TagOutline.nameHash] at hl
        obtain ⟨a1, a2, a3⟩ := adjust_start_full d1 hi1.1 input lx name h ns as sc ln ho hl
        have dummy : Model.Token := .startTag [] [] ns sc [] ⟨0, 0⟩ 0
        cases hrp : (startPhase d1.ctl.1 ln ns ⟨input, as, sc⟩).2 with
        | error e =>
          rw [hrp] at a3
          rw [DRes.bind_err _ _ e a3]
          obtain ⟨_, c2⟩ := hE.start d1.ctl.1 ln ns ⟨input, as, sc⟩ [] [] ns sc [] ⟨0, 0⟩ 0 hJ1
          have hce : (ctlStep cfg d1.ctl.1 (.start ln ns ⟨input, as, sc⟩ (.startTag [] [] ns sc [] ⟨0, 0⟩ 0))).2 = some e := by
            simp only [ctlStep, hrp]
          have hcls := c2 e hce
          refine postG_err _ e (residual_cg hcls ?_)
          -- the error comes out of the start phase, which has no `rBase` site
          intro heq
          subst heq
          have := startTag_hp d1.ctl.1 ln ns
          unfold startPhase at hrp
          cases hst : (startTag d1.ctl.1 ln ns).2 with
          | flags f => simp [hst] at hrp
          | err e' =>
            simp only [hst, Except.error.injEq] at hrp
            subst hrp
            unfold startTag at hst
            split at hst
            · rename_i m hm; rw [(hE.fault _ hJ1)] at hm; cases hm
            · unfold startTagCore at hst
              split at hst
              · simp at hst
              · split at hst
                · simp only [StartTagRes.err.injEq, vmErr, vmMsg, rBase, Err.panic.injEq] at hst; revert hst; decide
                · dsimp only at hst
                  split at hst
                  · simp at hst
                  · rename_i e'' he''
                    simp only [StartTagRes.err.injEq] at hst
                    subst hst
                    unfold St.afterVm at he''
                    split at he''
                    · simp only [Except.error.injEq, dispErr, dispMsg, rBase, Err.panic.injEq] at he''; revert he''; decide
                    · simp at he''
                · simp at hst
          | infoRequest =>
            simp only [hst] at hrp
            unfold auxInfo at hrp
            split at hrp
            · split at hrp
              · simp only [Except.error.injEq, rBase, Err.panic.injEq] at hrp; revert hrp; decide
              · split at hrp
                · simp only [Except.error.injEq, vmErr, vmMsg, rBase, Err.panic.injEq] at hrp; revert hrp; decide
                · unfold St.afterVm at hrp
                  split at hrp
                  · simp only [Except.error.injEq, dispErr, dispMsg, rBase, Err.panic.injEq] at hrp; revert hrp; decide
                  · simp at hrp
            · simp at hrp
        | ok f =>
          rw [hrp] at a3
          obtain ⟨a3, a4⟩ := a3
          rw [DRes.bind_ok _ _ () a3]
          have hi2 : Idle (d1.adjustFlagsForTag (fullCtl cfg) input lx).1 := a2.idle hi1
          generalize (d1.adjustFlagsForTag (fullCtl cfg) input lx).1 = d2 at a1 a4 hi2 ⊢
          obtain ⟨r1, r2, r3⟩ := resumeEmission_same d2 lx
          have hi3 : Idle (d2.resumeEmission (fullCtl cfg) lx) := r3.idle hi2
          have hc3 : (d2.resumeEmission (fullCtl cfg) lx).ctl.1 = (startPhase d1.ctl.1 ln ns ⟨input, as, sc⟩).1 := by
            rw [r1]; exact a1
          have hf3 : (d2.resumeEmission (fullCtl cfg) lx).flags = f := by rw [r2]; exact a4
          generalize d2.resumeEmission (fullCtl cfg) lx = d3 at hi3 hc3 hf3 ⊢
          obtain ⟨p1, p2⟩ := produceTag_start_full d3 input lx name h ns as sc ho
          cases hb1 : f.nextStartTag with
          | false =>
            obtain ⟨q1, q2, q3⟩ := p1 (by rw [hf3]; exact hb1)
            rw [DRes.bind_ok _ _ () q1]
            obtain ⟨c1, _⟩ := hE.start d1.ctl.1 ln ns ⟨input, as, sc⟩ [] [] ns sc [] ⟨0, 0⟩ 0 hJ1
            have hce : ctlStep cfg d1.ctl.1 (.start ln ns ⟨input, as, sc⟩ (.startTag [] [] ns sc [] ⟨0, 0⟩ 0)) =
                ((startPhase d1.ctl.1 ln ns ⟨input, as, sc⟩).1, none) := by
              simp only [ctlStep, hrp, tokIf, hb1, Bool.false_eq_true, if_false]
            have hJ3 : I (d3.produceTag (fullCtl cfg) input lx).1.ctl.1 := by
              rw [q2, hc3]
              have := c1 (by rw [hce])
              rw [hce] at this
              exact this
            exact handleTag_tailG _ (q3.idle hi3) hJ3
          | true =>
            rcases p2 (by rw [hf3]; exact hb1) with ⟨e, he, hq⟩ | ⟨n, attrs, raw, q1, q2, q3⟩
            · rw [DRes.bind_err _ _ e hq]
              exact postG_err _ e (Or.inr (Or.inr (Or.inr he)))
            · obtain ⟨c1, c2⟩ := hE.start d1.ctl.1 ln ns ⟨input, as, sc⟩ n attrs ns sc raw
                (srcOf lx.prevConsumed lx.raw) lx.prevConsumed hJ1
              have hce : ctlStep cfg d1.ctl.1 (.start ln ns ⟨input, as, sc⟩
                    (.startTag n attrs ns sc raw (srcOf lx.prevConsumed lx.raw) lx.prevConsumed)) =
                  ((token cfg d3.ctl.1 (.startTag n attrs ns sc raw (srcOf lx.prevConsumed lx.raw) lx.prevConsumed)).1,
                   (token cfg d3.ctl.1 (.startTag n attrs ns sc raw (srcOf lx.prevConsumed lx.raw) lx.prevConsumed)).2.err) := by
                simp only [ctlStep, hrp, tokIf, hb1, if_true, hc3]
              cases hte : (token cfg d3.ctl.1 (.startTag n attrs ns sc raw (srcOf lx.prevConsumed lx.raw) lx.prevConsumed)).2.err with
              | some e =>
                rw [hte] at q3
                rw [DRes.bind_err _ _ e q3]
                have hcls := c2 e (by rw [hce, hte])
                refine postG_err _ e (residual_cg hcls ?_)
                intro heq
                subst heq
                have hfault : d3.ctl.1.fault = none := by
                  rw [hc3]
                  obtain ⟨g1, _⟩ := hE.start d1.ctl.1 ln ns ⟨input, as, sc⟩ [] [] ns sc [] ⟨0, 0⟩ 0 hJ1
                  -- the start phase does not touch the fault
                  have : (startPhase d1.ctl.1 ln ns ⟨input, as, sc⟩).1.fault = d1.ctl.1.fault := by
                    unfold startPhase
                    dsimp only
                    split
                    · exact LolHtml.Model.Chunk.R.startTag_fault _ _ _
                    · exact LolHtml.Model.Chunk.R.startTag_fault _ _ _
                    · rw [LolHtml.Model.Chunk.R.auxInfo_fault, LolHtml.Model.Chunk.R.startTag_fault]
                  rw [this]; exact (hE.fault _ hJ1)
                unfold token at hte
                simp only [hfault] at hte
                exact tokStartTag_not_rBase cfg d3.ctl.1 n attrs ns sc raw _ _ (by simp [srcOf]) hte
              | none =>
                rw [hte] at q3
                rw [DRes.bind_ok _ _ () q3]
                have hJ4 : I (d3.produceTag (fullCtl cfg) input lx).1.ctl.1 := by
                  rw [q1]
                  have := c1 (by rw [hce, hte])
                  rw [hce] at this
                  exact this
                exact handleTag_tailG _ (q2.idle hi3) hJ4
      | endTag name h =>
        rw [ho] at hl
        simp only [TagOutline.name, TagOutline.nameHash] at hl
        obtain ⟨a1, a2, a3, a4⟩ := adjust_end_full d1 hi1.1 input lx name h ln ho hl
        rw [DRes.bind_ok _ _ () a3]
        have hi2 : Idle (d1.adjustFlagsForTag (fullCtl cfg) input lx).1 := a2.idle hi1
        generalize (d1.adjustFlagsForTag (fullCtl cfg) input lx).1 = d2 at a1 a4 hi2 ⊢
        obtain ⟨r1, r2, r3⟩ := resumeEmission_same d2 lx
        have hi3 : Idle (d2.resumeEmission (fullCtl cfg) lx) := r3.idle hi2
        have hc3 : (d2.resumeEmission (fullCtl cfg) lx).ctl.1 = (endTag d1.ctl.1 ln).1 := by rw [r1]; exact a1
        have hf3 : (d2.resumeEmission (fullCtl cfg) lx).flags = (endTag d1.ctl.1 ln).2 := by rw [r2]; exact a4
        generalize d2.resumeEmission (fullCtl cfg) lx = d3 at hi3 hc3 hf3 ⊢
        obtain ⟨p1, p2⟩ := produceTag_end_full d3 input lx name h ho
        cases hb1 : (endTag d1.ctl.1 ln).2.nextEndTag with
        | false =>
          obtain ⟨q1, q2, q3⟩ := p1 (by rw [hf3]; exact hb1)
          rw [DRes.bind_ok _ _ () q1]
          obtain ⟨c1, _⟩ := hE.end_ d1.ctl.1 ln [] [] ⟨0, 0⟩ hJ1
          have hce : ctlStep cfg d1.ctl.1 (.end_ ln (.endTag [] [] ⟨0, 0⟩)) = ((endTag d1.ctl.1 ln).1, none) := by
            simp only [ctlStep, tokIf, hb1, Bool.false_eq_true, if_false]
          have hJ3 : I (d3.produceTag (fullCtl cfg) input lx).1.ctl.1 := by
            rw [q2, hc3]
            have := c1 (by rw [hce])
            rw [hce] at this
            exact this
          exact handleTag_tailG _ (q3.idle hi3) hJ3
        | true =>
          rcases p2 (by rw [hf3]; exact hb1) with ⟨e, he, hq⟩ | ⟨n, raw, q1, q2, q3⟩
          · rw [DRes.bind_err _ _ e hq]
            exact postG_err _ e (Or.inr (Or.inr (Or.inr he)))
          · obtain ⟨c1, c2⟩ := hE.end_ d1.ctl.1 ln n raw (srcOf lx.prevConsumed lx.raw) hJ1
            have hce : ctlStep cfg d1.ctl.1 (.end_ ln (.endTag n raw (srcOf lx.prevConsumed lx.raw))) =
                ((token cfg d3.ctl.1 (.endTag n raw (srcOf lx.prevConsumed lx.raw))).1,
                 (token cfg d3.ctl.1 (.endTag n raw (srcOf lx.prevConsumed lx.raw))).2.err) := by
              simp only [ctlStep, tokIf, hb1, if_true, hc3]
            cases hte : (token cfg d3.ctl.1 (.endTag n raw (srcOf lx.prevConsumed lx.raw))).2.err with
            | some e =>
              rw [hte] at q3
              rw [DRes.bind_err _ _ e q3]
              have hcls := c2 e (by rw [hce, hte])
              -- the only residual site of an end-tag token is the missing payload
              exact postG_err _ e (Or.inr (Or.inr (Or.inl hcls)))
            | none =>
              rw [hte] at q3
              rw [DRes.bind_ok _ _ () q3]
              have hJ4 : I (d3.produceTag (fullCtl cfg) input lx).1.ctl.1 := by
                rw [q1]
                have := c1 (by rw [hce, hte])
                rw [hce] at this
                exact this
              exact handleTag_tailG _ (q2.idle hi3) hJ4

/-! ## `Disp.handleNonTag` and `Disp.finish` in lexer mode -/

/-- **handleNonTag_lexer_gen.** The same for `handle_non_tag_content` (text, comment, doctype, EOF
lexemes): the closing chunk of an open text node unless the lexeme is text, then at most one token. -/
theorem handleNonTag_lexer_gen (cfg : Cfg) (I : St → Prop) (S A : Err → Prop) (hE : EvInv cfg I S A)
    (d : Disp (FullSt cfg)) (hi : Idle d) (hJ : I d.ctl.1)
    (input : Bytes) (lx : NonTagLexeme) : PostG cfg I (CG S A) (Disp.handleNonTag (fullCtl cfg) input lx d) := by
  unfold Disp.handleNonTag
  -- after the optional flush we are in a `J` state again
  have hflush : (∃ e, (if lx.isText then ((d, .ok ()) : DRes (FullSt cfg) Unit) else d.flushPendingText (fullCtl cfg)).2 = .error e ∧
        e = .handler) ∨
      ((if lx.isText then ((d, .ok ()) : DRes (FullSt cfg) Unit) else d.flushPendingText (fullCtl cfg)).2 = .ok () ∧
        Idle (if lx.isText then ((d, .ok ()) : DRes (FullSt cfg) Unit) else d.flushPendingText (fullCtl cfg)).1 ∧
        I (if lx.isText then ((d, .ok ()) : DRes (FullSt cfg) Unit) else d.flushPendingText (fullCtl cfg)).1.ctl.1) := by
    split
    · exact Or.inr ⟨rfl, hi, hJ⟩
    · obtain ⟨tokF, ⟨tt, p, htokF⟩, f1, _, f3, f4⟩ := flushPendingText_full d
      have hkF : (CtlEv.other tokF).WellKinded := by rw [htokF]; trivial
      obtain ⟨o1, o2⟩ := hE.other d.ctl.1 tokF d.textPending hJ hkF
      cases h0 : (tokIf cfg d.textPending d.ctl.1 tokF).2 with
      | some e => rw [h0] at f4; exact Or.inl ⟨e, f4, o2 e h0⟩
      | none => rw [h0] at f4; exact Or.inr ⟨f4, f3.idle hi, by rw [f1]; exact o1 h0⟩
  rcases hflush with ⟨e, he, hh⟩ | ⟨hok, hi1, hJ1⟩
  · rw [DRes.bind_err _ _ e he]
    exact postG_err _ e (Or.inl hh)
  · rw [DRes.bind_ok _ _ () hok]
    generalize (if lx.isText then ((d, .ok ()) : DRes (FullSt cfg) Unit) else d.flushPendingText (fullCtl cfg)).1 = d1 at hi1 hJ1 ⊢
    rcases produceNonTag_full d1 input lx with ⟨q1, q2, q3⟩ | ⟨e, he, hq⟩ | ⟨tok, hk, q1, q2, q3⟩
    · exact ⟨fun _ _ => ⟨q3.idle hi1, by rw [q2]; exact hJ1⟩, fun e he => by rw [q1] at he; cases he⟩
    · refine ⟨fun a ha => (by rw [hq] at ha; cases ha), fun e' he' => ?_⟩
      rw [hq] at he'
      simp only [Except.error.injEq] at he'
      rw [← he']
      exact Or.inr (Or.inr (Or.inr he))
    · obtain ⟨o1, o2⟩ := hE.other d1.ctl.1 tok true hJ1 hk
      have hto : tokIf cfg true d1.ctl.1 tok = ((token cfg d1.ctl.1 tok).1, (token cfg d1.ctl.1 tok).2.err) := by
        simp [tokIf]
      cases hte : (token cfg d1.ctl.1 tok).2.err with
      | some e =>
        rw [hte] at q3
        refine ⟨fun a ha => (by rw [q3] at ha; cases ha), fun e' he' => ?_⟩
        rw [q3] at he'
        simp only [Except.error.injEq] at he'
        rw [← he']
        exact Or.inl (o2 e (by rw [hto, hte]))
      | none =>
        rw [hte] at q3
        refine ⟨fun _ _ => ⟨q2.idle hi1, ?_⟩, fun e he => by rw [q3] at he; cases he⟩
        rw [q1]
        have := o1 (by rw [hto, hte])
        rw [hto] at this
        exact this

/-- the run invariant `J` is an event invariant -/
theorem J_evInv (cfg : Cfg) (hb : IdsBounded (theProgram cfg) cfg.sels.length) :
    EvInv cfg (J cfg) (fun e => e = .panic rAttr ∨ e = .panic rPayload ∨ e = .panic rMatcher) (fun e => e = .panic rPayload) where
  fault := fun _ h => h.fault
  other := fun s tok b h hk => tokIf_other_no_panic cfg s h tok hk b
  start := fun s ln ns info nm attrs ns' sc raw src base h => by
    obtain ⟨c1, c2⟩ := start_event_no_panic cfg hb s h ln ns info nm attrs ns' sc raw src base
    refine ⟨c1, fun e he => ?_⟩
    rcases c2 e he with h | (h | h | h) | h
    · exact Or.inl h
    · exact Or.inr (Or.inl (Or.inl h))
    · exact Or.inr (Or.inr h)
    · exact Or.inr (Or.inl (Or.inr (Or.inl h)))
    · exact Or.inr (Or.inl (Or.inr (Or.inr h)))
  end_ := fun s ln nm raw src h => by
    obtain ⟨c1, c2⟩ := Full_end_no_panic cfg s h ln nm raw src
    exact ⟨fun hh => (c1 hh).1, c2⟩

theorem cg_allowed {e : Err}
    (h : CG (fun e => e = .panic rAttr ∨ e = .panic rPayload ∨ e = .panic rMatcher) (fun e => e = .panic rPayload) e) :
    Allowed e := by
  rcases h with h | (h | h | h) | h | h
  · exact Or.inl h
  · exact Or.inr (Or.inl h)
  · exact Or.inr (Or.inr (Or.inl h))
  · exact Or.inr (Or.inr (Or.inr (Or.inl h)))
  · exact Or.inr (Or.inr (Or.inl h))
  · exact Or.inr (Or.inr (Or.inr (Or.inr h)))

/-- **Full_handleTag_lexer.** With the real controller, from a dispatcher state without outstanding hint
whose controller state satisfies `J`, `handle_tag` on ANY tag lexeme either ends in such a state again or
fails with a content-handler error, at a residual glue site (`rAttr`, `rPayload`, `rMatcher`), or at one
of the dispatcher's own slice checks. Its controller calls are the closing chunk of an open text node and
exactly one start- / end-tag event of `Model/FullEvents.lean`. -/
theorem Full_handleTag_lexer (cfg : Cfg) (hb : IdsBounded (theProgram cfg) cfg.sels.length)
    (d : Disp (FullSt cfg)) (hi : Idle d) (hJ : J cfg d.ctl.1) (input : Bytes) (lx : TagLexeme) :
    Post cfg (Disp.handleTag (fullCtl cfg) input lx d) := by
  obtain ⟨a, b⟩ := handleTag_lexer_gen cfg (J cfg) _ _ (J_evInv cfg hb) d hi hJ input lx
  exact ⟨a, fun e he => cg_allowed (b e he)⟩

/-- **Full_handleNonTag_lexer.** The same for `handle_non_tag_content` (text, comment, doctype, EOF
lexemes): the closing chunk of an open text node unless the lexeme is text, then at most one token. -/
theorem Full_handleNonTag_lexer (cfg : Cfg) (hb : IdsBounded (theProgram cfg) cfg.sels.length)
    (d : Disp (FullSt cfg)) (hi : Idle d) (hJ : J cfg d.ctl.1)
    (input : Bytes) (lx : NonTagLexeme) : Post cfg (Disp.handleNonTag (fullCtl cfg) input lx d) := by
  obtain ⟨a, b⟩ := handleNonTag_lexer_gen cfg (J cfg) _ _ (J_evInv cfg hb) d hi hJ input lx
  exact ⟨a, fun e he => cg_allowed (b e he)⟩

/-- **Full_handleEnd_lexer.** `handle_end` (called by `Dispatcher::finish`) from a `J` state fails only
with a content-handler error. -/
theorem Full_handleEnd_lexer (cfg : Cfg) (g : FullSt cfg) (hJ : J cfg g.1) (e : Err)
    (he : ((fullCtl cfg).handleEnd g).2.2 = some e) : e = .handler :=
  Full_handleEnd_clean cfg g hJ.fault e he

/-! ## What is still missing for `Full_no_panic` -/

/-- the dispatcher-level invariant of lexer mode -/
def KD (cfg : Cfg) (d : Disp (FullSt cfg)) : Prop := Idle d ∧ J cfg d.ctl.1

theorem KD_new (cfg : Cfg) (enc : Nat) : KD cfg (Disp.new (fullCtl cfg) (FullSt.init cfg) enc) :=
  ⟨⟨rfl, rfl⟩, J_init cfg⟩

/-- **Full statement of the lexer-mode headline.** ROUND 4 (Thm/Full5.lean): proved up to two lexeme facts —
`Full_no_panic_lexer_allowed` (no hypothesis: only the glue sites `rAttr` / `rMatcher` remain),
`Full_no_panic_lexer_partial` (this statement from the two named hypotheses). Items 1, 3 and the `DispOwn` /
`rPayload` parts of item 2 below are done. Original text: For configurations that never leave lexer
mode (a document-level text / comment / doctype handler is registered: `Full_initial_scan`, sticky flags),
no call of the whole model returns a panic- or internal-class error.

Proved towards it: `Full_handleTag_lexer`, `Full_handleNonTag_lexer`, `Full_handleEnd_lexer`, `KD_new`
(every lexer-mode dispatcher operation keeps `KD` or fails with an `Allowed` error), and for the cleaned
controller `cleanCtl (fullCtl cfg)` C15_no_panic_full_gen (no panic at all), with `cleanCtl_sim` /
`writeAll_sim` relating the two runs up to the first panic-class callback error.

Missing, exactly:
1. a lifting of "`KD` is kept by `handleTag` / `handleNonTag` UNTIL THE FIRST ERROR" through
   `Parser.parse` and `Stream.write` in lexer mode. `Lemmas/LexOnly.lean` (`OpsLex`) and
   `Lemmas/Preserve.lean` (`OpsPreserve`) require the invariant after EVERY operation, also a failing one
   (the controller is then in the middle of an event); `Lemmas/ParseRelE.lean` has the right
   until-first-error shape but relates two runs with the invariant on the controller state only
   (`DRel D`), not on the dispatcher state (`Idle`); a unary `OpsLexE` version is ~300 lines in the
   style of LexOnly.lean.
2. `Allowed` still contains sites that only the lexeme invariants of packages inv / attrs exclude:
   `DispOwn` (C15's `SinkSafe` preconditions), `rAttr` (attribute raw range inside the tag's raw range:
   C16's `EmitRegs` / `C16_emit_tag`), `rMatcher` (C15 token-part certificate `PTok`); and `rPayload`
   (needs `Full_elemAct_faithful` composed over all invoked handlers + uniqueness of the ghost ordinals,
   which hold along `J` runs but are not part of `J` yet).
3. `IdsBounded` for every selector set (`Full_idsBounded_statement`).
4. Scanner mode: the hint operations from a `KD` state and the re-lexed tag (C06_relex_same_tag /
   C06_relex_end_tag give the KIND of the next tag lexeme at stream level — exactly what the protocol
   needs; the pending-request state between `handle_start_tag` and its answer needs a `J`-variant). -/
def Full_no_panic_lexer_statement : Prop :=
  ∀ (cfg : Cfg) (settings : Settings) (chunks : List Bytes),
    (∃ d ∈ cfg.docs, d.doctype.isSome = true ∨ d.comments.isSome = true ∨ d.text.isSome = true) →
    ∀ x ∈ (C01.run (genWorld cfg) (C01.Rewriter.new (genWorld cfg) (FullSt.init cfg) settings) chunks).2,
      Model.CallOK (fun _ => False) x

/-! ## Transport: the cleaned controller -/

/-- **Full_clean_no_panic.** With the cleaned real controller (panic- / internal-class callback errors
turned into handler errors, `Lemmas/ChunkResumeAll.lean`) the whole model never returns a panic- or
internal-class error: every configuration, settings record and chunking (`C15_no_panic_full_gen`). -/
theorem Full_clean_no_panic (cfg : Cfg) (settings : Settings) (chunks : List Bytes) :
    ∀ x ∈ (C01.run (Chunk.R.World.withCtl (genWorld cfg) (Chunk.R.cleanCtl (fullCtl cfg)))
        (C01.Rewriter.new (Chunk.R.World.withCtl (genWorld cfg) (Chunk.R.cleanCtl (fullCtl cfg))) (FullSt.init cfg) settings) chunks).2,
      Model.CallOK (fun _ => False) x :=
  C15.C15_no_panic_full_gen (Chunk.R.World.withCtl (genWorld cfg) (Chunk.R.cleanCtl (fullCtl cfg))) rfl
    (Chunk.R.cleanCtl_clean (fullCtl cfg)) (FullSt.init cfg) settings chunks

/-- **Full_writes_agree_or_panic.** The writes of the whole model with the real controller are, call by
call, the writes with the cleaned controller (which never panic: `Full_clean_no_panic`) — or the first
difference is a call of the real-controller run that returns a panic- / internal-class error other than the
guard's (`GP`; an internal-class error shows as the handler error `ActionError::Internal` becomes in release
builds, `parseErr`). So `Full_no_panic` for `write*` is EQUIVALENT to: no `write` returns a `GP` error; parser,
dispatcher and stream contribute no panic site of their own with the real controller. -/
theorem Full_writes_agree_or_panic (cfg : Cfg) (settings : Settings) (chunks : List Bytes) :
    ((C01.writeAll (genWorld cfg) (C01.Rewriter.new (genWorld cfg) (FullSt.init cfg) settings) chunks).2 =
      (C01.writeAll (Chunk.R.World.withCtl (genWorld cfg) (Chunk.R.cleanCtl (fullCtl cfg)))
        (C01.Rewriter.new (Chunk.R.World.withCtl (genWorld cfg) (Chunk.R.cleanCtl (fullCtl cfg))) (FullSt.init cfg) settings) chunks).2) ∨
    ∃ e, Chunk.R.GP e ∧ CallRes.err (RelE.parseErr e) ∈
      (C01.writeAll (genWorld cfg) (C01.Rewriter.new (genWorld cfg) (FullSt.init cfg) settings) chunks).2 := by
  have hsim := Chunk.R.cleanCtl_sim (Chunk.R.fullCtl_panicLaws cfg)
  have hnew := Chunk.R.new_eq (w := genWorld cfg) hsim (FullSt.init cfg) (Chunk.R.init_fullD cfg) settings
  have := Chunk.R.writeAll_sim (w := genWorld cfg) hsim C03.C03_emitsChecked_gen chunks
    (C01.Rewriter.new (genWorld cfg) (FullSt.init cfg) settings) (Or.inr (Chunk.R.init_fullD cfg))
  rcases this with ⟨he, _⟩ | ⟨_, e, hG, hmem⟩
  · left
    rw [← hnew, he]
  · exact Or.inr ⟨e, hG, hmem⟩


/-- the whole model with the cleaned real controller -/
def cleanWorld (cfg : Cfg) : World (FullSt cfg) := Chunk.R.World.withCtl (genWorld cfg) (Chunk.R.cleanCtl (fullCtl cfg))

/-- **C11_bailout_general_cleaned.** `C11_bailout_general` (exact sink log at a failing `write`, for
controllers that mutate, remove content and fail) for the cleaned real controller: every configuration,
settings record, chunking. By `Full_writes_agree_or_panic` it describes the real controller's run as long
as no callback returns a panic-class error. -/
theorem C11_bailout_general_cleaned (cfg : Cfg) (settings : Settings) (chunks : List Bytes) (data : Bytes) (e : Err)
    (hok : ∀ x ∈ (C01.writeAll (cleanWorld cfg) (C01.Rewriter.new (cleanWorld cfg) (FullSt.init cfg) settings) chunks).2,
      x = CallRes.ok)
    (herr : ((C01.writeAll (cleanWorld cfg) (C01.Rewriter.new (cleanWorld cfg) (FullSt.init cfg) settings) chunks).1.write
          (cleanWorld cfg) data).2 = .err e) :
    C11G.BailLog (cleanWorld cfg)
      (C01.writeAll (cleanWorld cfg) (C01.Rewriter.new (cleanWorld cfg) (FullSt.init cfg) settings) chunks).1.stream
      ((C01.writeAll (cleanWorld cfg) (C01.Rewriter.new (cleanWorld cfg) (FullSt.init cfg) settings) chunks).1.write
        (cleanWorld cfg) data).1.stream
      ((C01.writeAll (cleanWorld cfg) (C01.Rewriter.new (cleanWorld cfg) (FullSt.init cfg) settings) chunks).1.stream.pending ++ data) e ∧
    ((C01.writeAll (cleanWorld cfg) (C01.Rewriter.new (cleanWorld cfg) (FullSt.init cfg) settings) chunks).1.write
      (cleanWorld cfg) data).1.poisoned = true :=
  C11G.C11_bailout_general (cleanWorld cfg) C15.C15_gen C15.C15_cert_gen
    (Chunk.R.cleanCtl_clean (fullCtl cfg)) (FullSt.init cfg) settings chunks data e hok herr

end LolHtml.Thm.Full
