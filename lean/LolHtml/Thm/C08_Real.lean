/-
Property C08 on the REAL lexer model: `Model.SM`'s lexer run on the table generated from the Rust DSL
(`Gen.Syntax.table`), with a sink that records every lexeme (all capture flags on).

* `C08_attr_real`, `C08_tagname_real` — through package attrs' `C16_outline_recorded_html`: what
  `Spec.Attrs` reads is what the lexer emits; `Lemmas/EscRealTag.lean` shows what `Spec.Attrs` reads on
  the serialised form of an accepted tag name / attribute name / escaped value.
-/
import LolHtml.Thm.C08_Escape
import LolHtml.Thm.C16_Attrs
import LolHtml.Lemmas.EscRealTag
import LolHtml.Lemmas.EscRealText
import LolHtml.Lemmas.EscRealCommentMain

namespace LolHtml.Thm.C08Real
open LolHtml LolHtml.Model LolHtml.Model.Esc LolHtml.Spec.Esc LolHtml.Spec.Attrs
open LolHtml.Lemmas.Esc LolHtml.Lemmas.EscNames LolHtml.Lemmas.EscRealTag
open LolHtml.Thm.C16 (AtTagStart Lexeme recOps)

theorem side_start_tag_serialise :
    Gen.Consts.startTagOpen = [60] ∧ Gen.Consts.startTagClose = [62] ∧ Gen.Consts.attrSep = [32] := by decide

theorem slice_mid {α} (a x b : List α) : slice (a ++ x ++ b) a.length (a.length + x.length) = x := by
  unfold slice
  rw [List.append_assoc, List.take_append, List.drop_append]
  simp

theorem nameByte_of_not_delim {b : UInt8} (h : b ∉ tagNameDelims) : NameByte b := by
  simp only [tagNameDelims, List.mem_cons, List.not_mem_nil, or_false, not_or] at h
  obtain ⟨h9, h10, h12, h13, h32, h47, h62⟩ := h
  refine ⟨?_, by simpa using h47, by simpa using h62⟩
  simp [isWs, h9, h10, h12, h13, h32]

theorem attrNameByte_of_not_delim {b : UInt8} (h : b ∉ attrNameDelims) : AttrNameByte b := by
  simp only [attrNameDelims, List.mem_cons, List.not_mem_nil, or_false, not_or] at h
  obtain ⟨h9, h10, h12, h13, h32, h47, h62, h61⟩ := h
  refine ⟨⟨?_, by simpa using h47, by simpa using h62⟩, by simpa using h61⟩
  simp [isWs, h9, h10, h12, h13, h32]

/-- hypotheses on the machine: a lexer in the data state at position `i`, at a lexeme boundary, whose
tree-builder simulator is in HTML content, not strict, with no pending feedback directive (e.g. the
lexer of a fresh parser, or after any tag of `C16_outline_recorded_html` in HTML content) -/
structure CleanData (m : M (List Lexeme)) (i : Nat) : Prop where
  at_ : AtTagStart Gen.Syntax.table m i
  strict : m.x.sim.strict = false
  ns : m.x.sim.currentNs = .html
  fd : ∀ l, m.r = .lexer l → l.fd = .none

/-- **C08_tagname_real.** For every tag name `tn` accepted by `set_tag_name` (UTF-8 document), every
prefix `pre` and every `rest`: the real lexer, started in the data state at `<`, on
`pre ++ "<" ++ tn ++ ">" ++ rest` records exactly one lexeme — a start tag covering exactly
`<tn>`, whose name range holds exactly the bytes `tn`, without attributes, not self-closing — and is
then at the byte after `>`, at a lexeme boundary, in a text state: it continues on `rest`. -/
theorem C08_tagname_real (cfg : TagCfg) (pre tn rest : Bytes) (m : M (List Lexeme))
    (hm : CleanData m pre.length) (htn : tagNameBytesFromStr Codec.utf8 tn = .ok tn) :
    let inp := pre ++ [60] ++ tn ++ [62] ++ rest
    let stop := pre.length + 1 + tn.length + 1
    ∃ k, k < 2 * (stop - pre.length) ∧ ∃ m' : M (List Lexeme),
      (∀ fuel, runLoop ⟨Gen.Syntax.table, cfg, recOps⟩ inp (k + 1 + fuel) m
          = runLoop ⟨Gen.Syntax.table, cfg, recOps⟩ inp fuel m') ∧
      (∃ h ns, m'.x.sink = m.x.sink ++ [.tag ⟨m.x.prevConsumed, ⟨pre.length, stop⟩,
          .startTag ⟨pre.length + 1, pre.length + 1 + tn.length⟩ h ns [] false⟩]) ∧
      slice inp (pre.length + 1) (pre.length + 1 + tn.length) = tn ∧
      m'.c.nextPos = stop ∧ m'.c.entered = false ∧
      (m'.c.state = Gen.Syntax.table.textState m'.c.lastTextType ∨ m'.c.state = Gen.Syntax.table.dataState) ∧
      (∃ l, m'.r = .lexer l ∧ l.lexemeStart = stop ∧ l.curTag = none) := by
  intro inp stop
  obtain ⟨_, hne, ⟨c, hhead, halpha⟩, hdel⟩ := Thm.C08.C08_tag_name_structural tn tn htn
  obtain ⟨c', tl, htl⟩ := List.exists_cons_of_ne_nil hne
  have hc : c' = c := by rw [htl] at hhead; simpa using hhead
  subst hc
  have hname : ∀ b ∈ tn, NameByte b := fun b hb => nameByte_of_not_delim (fun hd => hdel b hd hb)
  have hspec := startTagAt_bare pre tn rest c' tl htl halpha hname
  obtain ⟨k, hk, m', hrun, hsink, hpos, hent, hst, hl⟩ :=
    Thm.C16.C16_outline_recorded_html Gen.Syntax.table cfg Thm.C16.tagStates_gen inp pre.length m hm.at_ _ hspec
      hm.strict hm.ns hm.fd
  refine ⟨k, hk, m', hrun, ⟨_, _, hsink⟩, ?_, hpos, hent, hst, hl⟩
  have : inp = (pre ++ [60]) ++ tn ++ ([62] ++ rest) := by simp [inp, List.append_assoc]
  rw [this]
  have := slice_mid (pre ++ [60]) tn ([62] ++ rest)
  simpa using this

/-- **C08_attr_real.** For every accepted tag name `tn`, every attribute name `n` accepted by
`set_attribute` and EVERY value `v` (UTF-8 document): let `ser` be the model serialiser's output for
the start tag `tn` with the one attribute `(n, v)` (`<tn n="escaped v">`). On `pre ++ ser ++ rest` the
real lexer, started in the data state at `<`, records exactly one lexeme: a start tag covering exactly
`ser`, with exactly one attribute whose name range holds exactly `n` and whose value range holds
exactly the escaped value; it is then right after `ser`, at a lexeme boundary, in a text state. The
value can therefore neither end the attribute, nor add another one, nor end the tag. -/
theorem C08_attr_real (cfg : TagCfg) (pre tn n v rest : Bytes) (m : M (List Lexeme))
    (hm : CleanData m pre.length) (htn : tagNameBytesFromStr Codec.utf8 tn = .ok tn)
    (hn : attrNameFromString Codec.utf8 n = .ok n) :
    ∃ ser, StartTag.serialize ⟨tn, [⟨n, v, none⟩], false, none⟩ = some ser ∧
    let inp := pre ++ ser ++ rest
    let stop := pre.length + ser.length
    let nameR : Range := ⟨pre.length + tn.length + 2, pre.length + tn.length + 2 + n.length⟩
    let valR : Range := ⟨pre.length + tn.length + n.length + 4,
      pre.length + tn.length + n.length + 4 + (escapeSpec attrTable v).length⟩
    ∃ k, k < 2 * ser.length ∧ ∃ m' : M (List Lexeme),
      (∀ fuel, runLoop ⟨Gen.Syntax.table, cfg, recOps⟩ inp (k + 1 + fuel) m
          = runLoop ⟨Gen.Syntax.table, cfg, recOps⟩ inp fuel m') ∧
      (∃ h ns rawR, m'.x.sink = m.x.sink ++ [.tag ⟨m.x.prevConsumed, ⟨pre.length, stop⟩,
          .startTag ⟨pre.length + 1, pre.length + 1 + tn.length⟩ h ns [⟨nameR, valR, rawR⟩] false⟩]) ∧
      slice inp (pre.length + 1) (pre.length + 1 + tn.length) = tn ∧
      slice inp nameR.start nameR.end = n ∧
      slice inp valR.start valR.end = escapeSpec attrTable v ∧
      m'.c.nextPos = stop ∧ m'.c.entered = false ∧
      (m'.c.state = Gen.Syntax.table.textState m'.c.lastTextType ∨ m'.c.state = Gen.Syntax.table.dataState) ∧
      (∃ l, m'.r = .lexer l ∧ l.lexemeStart = stop ∧ l.curTag = none) := by
  let e := escapeSpec attrTable v
  have hser : StartTag.serialize ⟨tn, [⟨n, v, none⟩], false, none⟩
      = some ([60] ++ tn ++ [32] ++ n ++ [61, 34] ++ e ++ [34, 62]) := by
    simp [StartTag.serialize, serializeAttributes, Attribute.serialize, (Thm.C08.C08_escape_loops_total v).2,
      Thm.C08.side_attr_serialise.1, Thm.C08.side_attr_serialise.2, side_start_tag_serialise.1,
      side_start_tag_serialise.2.1, side_start_tag_serialise.2.2, e]
  refine ⟨_, hser, ?_⟩
  intro inp stop nameR valR
  obtain ⟨_, hne, ⟨c, hhead, halpha⟩, hdel⟩ := Thm.C08.C08_tag_name_structural tn tn htn
  obtain ⟨c', tl, htl⟩ := List.exists_cons_of_ne_nil hne
  have hc : c' = c := by rw [htl] at hhead; simpa using hhead
  subst hc
  have hname : ∀ b ∈ tn, NameByte b := fun b hb => nameByte_of_not_delim (fun hd => hdel b hd hb)
  obtain ⟨_, hnne, hndel⟩ := Thm.C08.C08_attr_name_structural n n hn
  have hattr : ∀ b ∈ n, AttrNameByte b := fun b hb => attrNameByte_of_not_delim (fun hd => hndel b hd hb)
  have hq : ∀ b ∈ e, (b == 34) = false := by
    intro b hb
    simp only [beq_eq_false_iff_ne, ne_eq]
    intro h34; subst h34
    exact not_mem_escapeSpec Thm.C08.side_attr_avoids_quote v hb
  have hinp : inp = pre ++ [60] ++ tn ++ [32] ++ n ++ [61, 34] ++ e ++ [34, 62] ++ rest := by
    simp [inp, List.append_assoc]
  have hspec := startTagAt_one_attr pre tn n e rest c' tl htl halpha hname hnne hattr hq
  rw [← hinp] at hspec
  obtain ⟨k, hk, m', hrun, hsink, hpos, hent, hst, hl⟩ :=
    Thm.C16.C16_outline_recorded_html Gen.Syntax.table cfg Thm.C16.tagStates_gen inp pre.length m hm.at_ _ hspec
      hm.strict hm.ns hm.fd
  have hlen : ([60] ++ tn ++ [32] ++ n ++ [61, 34] ++ e ++ [34, 62]).length = tn.length + n.length + e.length + 6 := by
    simp; omega
  have hstop : stop = pre.length + tn.length + n.length + e.length + 6 := by
    simp only [stop, hlen]; omega
  refine ⟨k, by simp only [hlen]; simp only at hk; omega, m', hrun,
    ⟨NameHash.ofBytes (slice inp (pre.length + 1) (pre.length + 1 + tn.length)), m'.x.sim.currentNs,
      ⟨pre.length + tn.length + 2, pre.length + tn.length + n.length + e.length + 5⟩, ?_⟩, ?_, ?_, ?_, ?_, hent, hst, ?_⟩
  · rw [hsink, hstop]
  · have : inp = (pre ++ [60]) ++ tn ++ ([32] ++ n ++ [61, 34] ++ e ++ [34, 62] ++ rest) := by
      rw [hinp]; simp [List.append_assoc]
    rw [this]
    have := slice_mid (pre ++ [60]) tn ([32] ++ n ++ [61, 34] ++ e ++ [34, 62] ++ rest)
    simpa using this
  · have : inp = (pre ++ [60] ++ tn ++ [32]) ++ n ++ ([61, 34] ++ e ++ [34, 62] ++ rest) := by
      rw [hinp]; simp [List.append_assoc]
    rw [this]
    have := slice_mid (pre ++ [60] ++ tn ++ [32]) n ([61, 34] ++ e ++ [34, 62] ++ rest)
    simp only [List.length_append, List.length_cons, List.length_nil] at this
    simp only [nameR]
    rw [show pre.length + tn.length + 2 = pre.length + 0 + 1 + tn.length + (0 + 1) by omega]
    exact this
  · have : inp = (pre ++ [60] ++ tn ++ [32] ++ n ++ [61, 34]) ++ e ++ ([34, 62] ++ rest) := by
      rw [hinp]; simp [List.append_assoc]
    rw [this]
    have := slice_mid (pre ++ [60] ++ tn ++ [32] ++ n ++ [61, 34]) e ([34, 62] ++ rest)
    simp only [List.length_append, List.length_cons, List.length_nil] at this
    simp only [valR]
    rw [show pre.length + tn.length + n.length + 4 = pre.length + 0 + 1 + tn.length + (0 + 1) + n.length + (0 + 1 + 1) by omega]
    exact this
  · rw [hpos, hstop]
  · obtain ⟨l, h1, h2, h3⟩ := hl
    exact ⟨l, h1, by rw [h2, hstop], h3⟩

/-- **C08_text_real.** For every string `s`, with `out = escapeBodyText s` non-empty, every prefix and
every `rest` that is empty or starts with `<`: the real lexer in the data state at the start of `out`
(at a lexeme boundary), on `pre ++ out ++ rest`, behaves — for every amount of fuel ≥ 1, i.e. from its
very next state-function call on — exactly like the machine that has ALREADY handed ONE text lexeme
covering exactly the bytes of `out` to the sink and stands in the clean data state (no pending text) at
the first byte of `rest`. Inserted text is one text lexeme; it opens no tag; what follows is lexed as
if the text were not there. (For `s = []` nothing is written and there is nothing to prove.) -/
theorem C08_text_real (cfg : TagCfg) (pre s out rest : Bytes) (m : M (List Lexeme)) (l : LexRegs)
    (h : escapeBodyText s = some out) (hne : out ≠ []) (hrest : rest = [] ∨ ∃ r, rest = 60 :: r)
    (hstate : m.c.state = Gen.Syntax.table.dataState) (hpos : m.c.nextPos = pre.length)
    (hl : m.r = .lexer l) (hls : l.lexemeStart = pre.length) (fuel : Nat) :
    let inp := pre ++ out ++ rest
    let stop := pre.length + out.length
    let m0 : M (List Lexeme) :=
      ⟨{ m.c with nextPos := stop }, .lexer { l with lexemeStart := stop },
       { m.x with sink := m.x.sink ++ [.nonTag ⟨m.x.prevConsumed, ⟨pre.length, stop⟩, some (.text m.c.lastTextType)⟩] }⟩
    runLoop ⟨Gen.Syntax.table, cfg, recOps⟩ inp (fuel + 1) m
      = runLoop ⟨Gen.Syntax.table, cfg, recOps⟩ inp (fuel + 1) m0 := by
  intro inp stop m0
  have hlt : (60 : UInt8) ∉ out := (Thm.C08.C08_body_no_markup s out h).1
  obtain ⟨c, r, x⟩ := m
  obtain ⟨np, il, st, en, ca, lsh, cq, ltt⟩ := c
  simp only at hstate hpos hl
  rw [Model.TagStates.data_of_ok Thm.C16.tagStates_gen] at hstate
  subst hstate hpos hl
  have key : stateFn ⟨Gen.Syntax.table, cfg, recOps⟩ inp ⟨⟨pre.length, il, 2, en, ca, lsh, cq, ltt⟩, .lexer l, x⟩
      = stateFn ⟨Gen.Syntax.table, cfg, recOps⟩ inp m0 := by
    rcases hrest with hr | ⟨r, hr⟩
    · have := LolHtml.Lemmas.EscRealText.step2_text_end (cfg := cfg) Thm.C16.tagStates_gen (inp := inp) (p := pre.length)
        (il := il) (en := en) (ca := ca) (lsh := lsh) (cq := cq) (ltt := ltt) (x := x) (l := l) pre out
        (by simp [inp, hr]) rfl hlt hne hls
      exact this
    · have := LolHtml.Lemmas.EscRealText.step2_text_lt (cfg := cfg) Thm.C16.tagStates_gen (inp := inp) (p := pre.length)
        (il := il) (en := en) (ca := ca) (lsh := lsh) (cq := cq) (ltt := ltt) (x := x) (l := l) pre out r
        (by simp [inp, hr]) rfl hlt hne hls
      exact this
  simp only [runLoop, key]

/-! ## Comments on the real table -/

open LolHtml.Model.CommentStates LolHtml.Lemmas.EscComment in
/-- **Side-condition on the current code**: the markup-declaration-open state and the ten comment states
of the generated table are the ones the proofs were made for (`commentStatesWitness` names the state and
the first differing arm otherwise). -/
theorem commentStates_gen : CommentStatesOk Gen.Syntax.table = true := by decide +kernel

open LolHtml.Model.CommentStates in
theorem commentStatesWitness_gen : commentStatesWitness Gen.Syntax.table = [] := by decide +kernel

open LolHtml.Model.CommentStates LolHtml.Lemmas.EscComment LolHtml.Spec.Esc.CommentEnd in
/-- **C08_comment_real.** For every comment text `t` accepted by `Comment::set_text` (UTF-8 document),
every prefix and every `rest`: the real lexer, started in the data state at `<` (at a lexeme boundary),
on `pre ++ "<!--" ++ t ++ "-->" ++ rest` makes `k ≤ 3·|t| + 12` state-function calls after which
exactly one lexeme has been handed to the sink: a comment lexeme whose raw range is exactly
`<!--t-->` and whose text range is exactly the bytes of `t`; the machine is then in the data state at
the first byte of `rest`, at a lexeme boundary, with no current token: it continues on `rest`. -/
theorem C08_comment_real (cfg : TagCfg) (pre t rest : Bytes) (m : M (List Lexeme)) (l : LexRegs)
    (hacc : containsCommentClosingSequence t = false)
    (hstate : m.c.state = Gen.Syntax.table.dataState) (hpos : m.c.nextPos = pre.length)
    (hl : m.r = .lexer l) (hls : l.lexemeStart = pre.length) :
    let inp := pre ++ Gen.Consts.commentOpen ++ t ++ Gen.Consts.commentClose ++ rest
    let stop := pre.length + 4 + t.length + 3
    ∃ k, k ≤ 3 * t.length + 12 ∧ ∃ m' : M (List Lexeme),
      (∀ fuel, runLoop ⟨Gen.Syntax.table, cfg, recOps⟩ inp (k + fuel) m
          = runLoop ⟨Gen.Syntax.table, cfg, recOps⟩ inp fuel m') ∧
      m'.x.sink = m.x.sink ++ [.nonTag ⟨m.x.prevConsumed, ⟨pre.length, stop⟩,
          some (.comment ⟨pre.length + 4, pre.length + 4 + t.length⟩)⟩] ∧
      slice inp (pre.length + 4) (pre.length + 4 + t.length) = t ∧
      m'.c.nextPos = stop ∧ m'.c.state = Gen.Syntax.table.dataState ∧ m'.c.entered = false ∧
      m'.x.sim = m.x.sim ∧
      (∃ l', m'.r = .lexer l' ∧ l'.lexemeStart = stop ∧ l'.curNonTag = none ∧ l'.curTag = l.curTag) := by
  intro inp stop
  have hok := commentStates_gen
  obtain ⟨c, r, x⟩ := m
  obtain ⟨np, il, st, en, ca, lsh, cq, ltt⟩ := c
  simp only at hstate hpos hl
  have hdata : Gen.Syntax.table.dataState = 2 := Model.TagStates.data_of_ok Thm.C16.tagStates_gen
  rw [hdata] at hstate
  subst hstate hpos hl
  have hinp : inp = pre ++ ([60, 33, 45, 45] ++ (t ++ [45, 45] ++ ([62] ++ rest))) := by
    simp only [inp, Thm.C08.side_comment_serialise.1, Thm.C08.side_comment_serialise.2]
    simp [List.append_assoc]
  -- prologue
  obtain ⟨m1, hrun1, hat1⟩ := prologue (cfg := cfg) hok (inp := inp) il en ca lsh cq ltt l x pre.length
    (t ++ [45, 45] ++ ([62] ++ rest)) (by rw [hinp]; simp) hls
  -- the text and the two dashes
  obtain ⟨q, hq⟩ := after_of_accepted t [] .commentStart rfl
    (by simpa using accepted_of_not_closing Thm.C08.side_comment_covers hacc)
  obtain ⟨q1, q2, h1, h2, hp2, h3⟩ := close_from q
  have hafter : after .commentStart (t ++ [45, 45]) = some q2 := by
    rw [after_append, hq]; simp [after, h1, h2]
  have hd2 : inp.drop (pre.length + 4) = (t ++ [45, 45]) ++ ([62] ++ rest) := by
    rw [hinp, ← List.append_assoc, show pre.length + 4 = (pre ++ [60, 33, 45, 45]).length by simp]
    simp
  have hrb := run_bytes (cfg := cfg) hok (inp := inp) _ (pre.length + 4) (t ++ [45, 45]) .commentStart (pre.length + 4) m1
    ([62] ++ rest) hat1 hd2
  rw [hafter] at hrb
  obtain ⟨k2, m2, hk2, hrun2, hat2⟩ := hrb
  -- the closing `>`
  have hd3 : inp.drop (pre.length + 4 + (t ++ [45, 45]).length) = 62 :: [] ++ rest := by
    have e : inp = (pre ++ [60, 33, 45, 45] ++ (t ++ [45, 45])) ++ (62 :: rest) := by
      rw [hinp]; simp [List.append_assoc]
    have el : pre.length + 4 + (t ++ [45, 45]).length = (pre ++ [60, 33, 45, 45] ++ (t ++ [45, 45])).length := by
      simp; omega
    rw [e, el, List.drop_left]; rfl
  obtain ⟨hb3, _⟩ := getElem?_of_drop hd3
  have g := consume_byte (cfg := cfg) hok (inp := inp) _ q2 (pre.length + 4) _ 62 m2 hb3 hat2
  unfold Goal at g
  rw [h3] at g
  obtain ⟨k3, tps, rr, _, hk3, hrun3, hrs, hre⟩ := g
  rw [hp2] at hre
  simp only [List.length_append, List.length_cons, List.length_nil] at hre hk2
  have hkb : 3 + (k2 + k3) ≤ 3 * t.length + 12 := by omega
  have hrr : rr = ⟨pre.length + 4, pre.length + 4 + t.length⟩ := by
    obtain ⟨a, b⟩ := rr
    simp only at hrs hre
    simp only [Range.mk.injEq]
    omega
  subst hrr
  refine ⟨3 + (k2 + k3), hkb,
    em ⟨il, ca, lsh, cq, ltt, pre.length, l.curTag, l.curAttr, l.fd, x⟩ (pre.length + 4 + (t ++ [45, 45]).length) tps
      ⟨pre.length + 4, pre.length + 4 + t.length⟩, fun fuel => ?_, ?_, ?_, ?_, ?_, ?_, ?_, ?_⟩
  · rw [Nat.add_assoc, hrun1, Nat.add_assoc, hrun2, hrun3]
  · simp only [em, stop, List.length_append, List.length_cons, List.length_nil]
    rw [show pre.length + 4 + (t.length + (0 + 1 + 1)) + 1 = pre.length + 4 + t.length + 3 by omega]
  · have : inp = (pre ++ [60, 33, 45, 45]) ++ t ++ ([45, 45, 62] ++ rest) := by
      rw [hinp]; simp [List.append_assoc]
    rw [this]
    have := slice_mid (pre ++ [60, 33, 45, 45]) t ([45, 45, 62] ++ rest)
    simpa using this
  · simp only [em, stop, List.length_append, List.length_cons, List.length_nil]; omega
  · simp only [em, hdata]
  · rfl
  · rfl
  · exact ⟨_, rfl, by simp only [stop, List.length_append, List.length_cons, List.length_nil]; omega, rfl, rfl⟩

open LolHtml.Model.CommentStates LolHtml.Lemmas.EscComment LolHtml.Spec.Esc.CommentEnd in
/-- **C08_comment_real_early (necessity on the real table).** For every text `t` that `set_text`
REJECTS: on `pre ++ "<!--" ++ t ++ tail` (whatever follows, in particular `"-->" ++ rest`) the real
lexer hands a comment lexeme to the sink whose raw range ends at or before the last byte of `t`, and
returns to the data state there: had the text been accepted, the rest of `t`, the real `-->` and
everything after it would be lexed as markup. -/
theorem C08_comment_real_early (cfg : TagCfg) (pre t tail : Bytes) (m : M (List Lexeme)) (l : LexRegs)
    (hrej : containsCommentClosingSequence t = true)
    (hstate : m.c.state = Gen.Syntax.table.dataState) (hpos : m.c.nextPos = pre.length)
    (hl : m.r = .lexer l) (hls : l.lexemeStart = pre.length) :
    let inp := pre ++ Gen.Consts.commentOpen ++ t ++ tail
    ∃ k e r, e ≤ pre.length + 4 + t.length ∧ pre.length + 4 < e ∧ ∃ m' : M (List Lexeme),
      (∀ fuel, runLoop ⟨Gen.Syntax.table, cfg, recOps⟩ inp (k + fuel) m
          = runLoop ⟨Gen.Syntax.table, cfg, recOps⟩ inp fuel m') ∧
      m'.x.sink = m.x.sink ++ [.nonTag ⟨m.x.prevConsumed, ⟨pre.length, e⟩, some (.comment r)⟩] ∧
      m'.c.nextPos = e ∧ m'.c.state = Gen.Syntax.table.dataState ∧
      (∃ l', m'.r = .lexer l' ∧ l'.lexemeStart = e) := by
  intro inp
  have hok := commentStates_gen
  obtain ⟨c, r, x⟩ := m
  obtain ⟨np, il, st, en, ca, lsh, cq, ltt⟩ := c
  simp only at hstate hpos hl
  have hdata : Gen.Syntax.table.dataState = 2 := Model.TagStates.data_of_ok Thm.C16.tagStates_gen
  rw [hdata] at hstate
  subst hstate hpos hl
  -- a prefix of `t` on which the WHATWG machine has already emitted
  have key : ∃ p c, t = p ++ c ∧ after .commentStart p = none := by
    have hn := Thm.C08.side_comment_all_close
    simp only [allClose, Bool.and_eq_true, List.all_eq_true, Option.isNone_iff_eq_none] at hn
    obtain ⟨hcc, hcp⟩ := hn
    simp only [containsCommentClosingSequence, containsClosingWith, Bool.or_eq_true, List.any_eq_true] at hrej
    rcases hrej with ⟨x', hx, hxt⟩ | ⟨x', hx, hxt⟩
    · obtain ⟨a, c, hac⟩ := (containsSeq_iff_infix _ _).mp hxt
      refine ⟨a ++ x', c, hac.symm, ?_⟩
      rw [after_append]
      cases ha : after .commentStart a with
      | none => rfl
      | some q => exact hcc x' hx q (mem_allStates q)
    · obtain ⟨c, hc⟩ := List.isPrefixOf_iff_prefix.mp hxt
      exact ⟨x', c, hc.symm, hcp x' hx⟩
  obtain ⟨p, c, htpc, hnone⟩ := key
  have hinp : inp = pre ++ ([60, 33, 45, 45] ++ (p ++ (c ++ tail))) := by
    simp only [inp, Thm.C08.side_comment_serialise.1, htpc]
    simp [List.append_assoc]
  obtain ⟨m1, hrun1, hat1⟩ := prologue (cfg := cfg) hok (inp := inp) il en ca lsh cq ltt l x pre.length
    (p ++ (c ++ tail)) (by rw [hinp]; simp) hls
  have hd2 : inp.drop (pre.length + 4) = p ++ (c ++ tail) := by
    rw [hinp, ← List.append_assoc, show pre.length + 4 = (pre ++ [60, 33, 45, 45]).length by simp]
    simp
  have hrb := run_bytes (cfg := cfg) hok (inp := inp) _ (pre.length + 4) p .commentStart (pre.length + 4) m1
    (c ++ tail) hat1 hd2
  rw [hnone] at hrb
  obtain ⟨k2, j, tps, rr, _, hj, hrun2, _, _⟩ := hrb
  refine ⟨3 + k2, pre.length + 4 + j + 1, rr, ?_, by omega,
    em ⟨il, ca, lsh, cq, ltt, pre.length, l.curTag, l.curAttr, l.fd, x⟩ (pre.length + 4 + j) tps rr,
    fun fuel => ?_, rfl, rfl, ?_,
    ⟨⟨pre.length + 4 + j + 1, tps, l.curTag, none, l.curAttr, l.fd⟩, rfl, rfl⟩⟩
  · rw [htpc]; simp only [List.length_append]; omega
  · rw [Nat.add_assoc, hrun1, hrun2]
  · simp only [em, hdata]

/-! ## Non-vacuity: the hypotheses hold for the lexer of a fresh (non-strict) parser -/

/-- the lexer machine of a fresh parser -/
def fresh : M (List Lexeme) :=
  ⟨{ state := Gen.Syntax.table.dataState }, .lexer {}, { sink := [], sim := Sim.new false }⟩

theorem fresh_clean : CleanData fresh 0 :=
  ⟨⟨rfl, rfl, ⟨{}, rfl, rfl⟩, Or.inl rfl⟩, rfl, rfl, fun l h => by cases h; rfl⟩

-- `<!---!-<--><b>`: the text `-!-<` is accepted; the comment lexeme is `[0, 11)`, text `[4, 8)`
example (cfg : TagCfg) := C08_comment_real cfg [] [45, 33, 45, 60] [60, 98, 62] fresh {} (by decide) rfl rfl rfl rfl
-- `<!--a-->b-->`: rejected; the comment ends early
example (cfg : TagCfg) := C08_comment_real_early cfg [] [97, 45, 45, 62, 98] [45, 45, 62] fresh {} (by decide) rfl rfl rfl rfl
-- `<Di-v x-y="a&quot;>b"><i>`
example (cfg : TagCfg) := C08_attr_real cfg [] [68, 105, 45, 118] [120, 45, 121] [97, 34, 62, 98] [60, 105, 62] fresh
  fresh_clean (by rfl) (by rfl)
example (cfg : TagCfg) := C08_tagname_real cfg [] [68, 105, 45, 118] [120] fresh fresh_clean (by rfl)
-- `a&lt;b<i>`
example (cfg : TagCfg) := C08_text_real cfg [] [97, 60, 98] [97, 38, 108, 116, 59, 98] [60, 105, 62] fresh {}
  (by decide) (by decide) (Or.inr ⟨_, rfl⟩) rfl rfl rfl rfl 5

end LolHtml.Thm.C08Real
