import LolHtml.Thm.C06_Handover
import LolHtml.Lemmas.ObsFull
/-!
# C06 — the controller hypotheses of the independence claim hold of the real controller model

`fullCtl cfg` (Model/FullCtl.lean, `HtmlRewriteController` on its invariant states):
* `C06_fullCtl_emitDiscipline` — `EmitDiscipline (fullCtl cfg)`;
* `C06_fullCtl_passThrough` — the pass-through property for end-tag tokens nobody asked for, in every
  state without a pending fault (`fault` models the controller's internal assertions; in a fault state
  every callback answers with that panic, `C06_fullCtl_fault_not_passThrough` — so `PassThrough` as
  stated for ALL states does not hold of `fullCtl`; the independence statement must assume it for
  fault-free states only, `PassThroughOn`).
-/
namespace LolHtml.Thm.C06
open LolHtml LolHtml.Model LolHtml.Model.Full

theorem C06_fullCtl_emitDiscipline (cfg : Cfg) : EmitDiscipline (fullCtl cfg) := fullCtl_emitDiscipline cfg

theorem endTag_flags (s : St) (n : LocalName) : (Full.endTag s n).2 = (Full.endTag s n).1.flags := by
  unfold Full.endTag
  dsimp only
  (repeat' split) <;> rfl

/-- pass-through on the states satisfying `Ok` -/
def PassThroughOn {γ : Type} (H : Controller γ) (Ok : γ → Prop) : Prop :=
  ∀ g n t, Ok (H.endTag g n).1 → (H.endTag g n).2.nextEndTag = false → (∃ nm raw src, t = Token.endTag nm raw src) →
    H.token (H.endTag g n).1 t = ((H.endTag g n).1, { chunks := [t.raw] })

/-- **the real controller passes an end-tag token nobody asked for through unchanged** (no pending fault) -/
theorem C06_fullCtl_passThrough (cfg : Cfg) : PassThroughOn (fullCtl cfg) (fun g => g.1.fault = none) := by
  intro g n t hok hnet ⟨nm, raw, src, ht⟩
  subst ht
  have hfl : ((fullCtl cfg).endTag g n).2 = ((fullCtl cfg).endTag g n).1.1.flags := endTag_flags g.1 n
  rw [hfl] at hnet
  have hna : ((fullCtl cfg).endTag g n).1.1.disp.endTag.hasActive = false := hnet
  have := token_endTag_passthrough cfg ((fullCtl cfg).endTag g n).1.1 ((fullCtl cfg).endTag g n).1.2.toGood.wf hok hna nm raw src
  apply Prod.ext
  · exact Subtype.ext (congrArg Prod.fst this)
  · exact (congrArg Prod.snd this : _)

/-- in a fault state the controller does not pass tokens through: it reports the fault -/
theorem C06_fullCtl_fault_not_passThrough (cfg : Cfg) (s : St) (m : String) (hf : s.fault = some m) (t : Token) :
    (Full.token cfg s t).2.err = some (.panic m) := by
  unfold Full.token
  rw [hf]

end LolHtml.Thm.C06
