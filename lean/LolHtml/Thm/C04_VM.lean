/-
Thm.C04_VM — property C04 (selector matching = CSS semantics), the part about the program and the VM.

All statements are about the definitions the `sel` lane executes (`LolHtml.SelVM`, `LolHtml.Spec.Css`).
Helper lemmas: Lemmas/SelVM.lean, SelStack.lean, SelRefine.lean, SelCompile.lean, SelTrie.lean, SelLeaf.lean.
-/
import LolHtml.Lemmas.SelLeaf

namespace LolHtml.Thm.C04_VM
open LolHtml LolHtml.Sel LolHtml.SelVM LolHtml.Spec.Css

/-! ### fixtures for the non-vacuity examples (bytes as numerals) -/

def bDiv : Bytes := [100, 105, 118]
def bFoo : Bytes := [102, 111, 111]
def bLi : Bytes := [108, 105]
def bUl : Bytes := [117, 108]
def bClass : Bytes := [99, 108, 97, 115, 115]
def bA : Bytes := [97]
def bB : Bytes := [98]

/-- `:not(div.foo)` -/
def selNotDivFoo : SelList := [⟨[.not [[.type bDiv, .cls bFoo]]], []⟩]
/-- `<div>` -/
def docDiv : List Event := [.start ⟨bDiv, .html, [], false⟩]
/-- `ul > li.foo:nth-of-type(2n+1)`, `a .foo` -/
def selsDemo : List SelList :=
  [ [⟨[.type bUl], [(.child, [.type bLi, .cls bFoo, .nthOfType 2 1])]⟩],
    [⟨[.type bA], [(.descendant, [.cls bFoo])]⟩] ]
/-- `<ul><li class=foo><a><LI class="x foo"></ul><li></li>` -/
def docDemo : List Event :=
  [ .start ⟨bUl, .html, [], false⟩, .start ⟨bLi, .html, [⟨bClass, bFoo⟩], false⟩,
    .start ⟨bA, .html, [], false⟩, .start ⟨[76, 73], .html, [⟨bClass, [120, 32] ++ bFoo⟩], false⟩,
    .end_ bUl, .start ⟨bLi, .html, [], false⟩, .end_ bLi ]

/-! ## C04_split_eval -/

/-- For every instruction, selector state, element name and attribute set: running the tag-name
    half (`try_exec_without_attrs`) and, only when it answers `AttributesRequired`, the attribute
    half (`complete_exec_with_attrs`) gives exactly the result of `exec` — the same branch, the same
    failure, the same panic. -/
theorem C04_split_eval (i : Instruction) (st : SelectorState) (name : Bytes) (m : AttributeMatcher) :
    (do match ← i.tryExecWithoutAttrs st name with
        | .branch b => pure (some b)
        | .attributesRequired => pure (i.completeExecWithAttrs m)
        | .fail => pure none)
      = i.exec st name m :=
  Instruction.splitEval_eq_exec i st name m

/-- non-vacuity: an instruction with both halves, on an element where the split path really goes
    through `AttributesRequired` and then succeeds -/
example :
    let i : Instruction := { associatedBranch := { matchedIds := [3] },
                             localNameExprs := [⟨.localName bDiv, false⟩],
                             attributeExprs := [⟨.cls bFoo, false⟩] }
    i.tryExecWithoutAttrs ⟨1, none⟩ bDiv = .ok .attributesRequired ∧
    i.exec ⟨1, none⟩ bDiv ⟨[⟨bClass, bFoo⟩], true⟩ = .ok (some { matchedIds := [3] }) := by decide

/-! ## C04_bailout_eq -/

/-- For every VM state (any program, any stack), every execution context and every attribute set:
    running without attributes until the first instruction that needs them — in the entry points, in
    the parent's jumps or in the active hereditary jumps — and then answering the resulting request
    (complete the instruction at the bail-out address, recover from the recorded recovery point)
    ends in exactly the state and match list of running every reachable instruction with attributes;
    when no instruction needs attributes the request-free path gives the same. Panics coincide. -/
theorem C04_bailout_eq (vm : Vm) (ctx : ExecutionCtx) (aux : AuxStartTagInfo) :
    (vm.execWithoutAttrs ctx >>= StartTagOutcome.resume aux) =
      (do let ctx' ← vm.execAllWithAttrs ⟨aux.attrs, ctx.ns == .html⟩ ctx
          pure (vm.finish ctx')) :=
  Vm.execWithoutAttrs_resume vm ctx aux

/-- Consequence for the whole start-tag path of the rewrite controller (`handle_start_tag` +
    `respond_to_aux_info_request`): whichever of the five paths is taken (no request; immediate request
    in foreign content; bail-out in entry points / jumps / hereditary jumps), the result is: count the
    child, run all reachable instructions with the attributes, report the matched ids, push unless the
    element closes at once. -/
theorem C04_start_tag_single_pass (vm : Vm) (t : StartTag) :
    vm.handleStartTag t =
      (do let vm1 := { vm with stack := vm.stack.addChild t.name }
          let ctx' ← vm1.execAllWithAttrs ⟨t.attrs, t.ns == .html⟩ (startCtx t vm.enableEsiTags)
          pure (vm1.finish ctx')) :=
  Vm.handleStartTag_eq vm t

/-- non-vacuity: on `<ul><li class=foo>` the second tag bails out inside the parent's jumps -/
example :
    (do let vm := Vm.new (Ast.ofSelectors selsDemo) false
        let r ← vm.handleStartTag ⟨bUl, .html, [], false⟩
        match ← r.1.execForStartTag bLi .html with
        | .infoRequest _ (.bailoutInJumps _ b) => pure (some b.recoveryPoint)
        | _ => pure none) = .ok (some ⟨0, 1⟩) := by decide

/-! ## C04_counters -/

/-- After any tag-event history that the VM (with any program) processes without panicking, the
    selector state `build_state` computes for the next start tag — after `add_child`, as
    `exec_for_start_tag` does — has `cumulative` = 1 + the number of element children already started
    under the current parent in the induced tree, and, when typed counters are enabled, `typed` =
    1 + the number of those whose name equals the tag's name ASCII-case-insensitively. -/
theorem C04_counters (program : Program) (esi : Bool) (evs : List Event) (vm' : Vm) (hits : List (Nat × Nat))
    (hrun : (Vm.mk program (Stack.new program.enableNthOfType) esi).runAux evs 0 [] = .ok (vm', hits))
    (t : StartTag) :
    let ts : TreeState := evs.foldl (fun s e => s.step esi e) {}
    let st := (vm'.stack.addChild t.name).buildState t.name
    st.cumulative = (ts.elemFor t).childIndex ∧
      (program.enableNthOfType = true → st.typed = some (ts.elemFor t).typeIndex) := by
  intro ts st
  obtain ⟨_, _, inv⟩ := StackInv.runAux esi evs _ vm' {} 0 [] hits rfl (StackInv.init _) hrun
  have hsome := Vm.runAux_typed_isSome evs _ vm' 0 [] hits hrun
  obtain ⟨h1, h2⟩ := inv.buildState_addChild t.name
  refine ⟨h1, fun hn => ?_⟩
  apply h2
  rw [hsome]
  simp [Stack.new, hn]

/-- For programs compiled from registered selectors the "does not panic" hypothesis is always met. -/
theorem C04_counters_compiled (sels : List SelList) (esi : Bool) (evs : List Event) (t : StartTag) :
    ∃ vm' hits, (Vm.new (Ast.ofSelectors sels) esi).runAux evs 0 [] = .ok (vm', hits) ∧
      let ts : TreeState := evs.foldl (fun s e => s.step esi e) {}
      let st := (vm'.stack.addChild t.name).buildState t.name
      st.cumulative = (ts.elemFor t).childIndex ∧
        ((compile (Ast.ofSelectors sels)).enableNthOfType = true → st.typed = some (ts.elemFor t).typeIndex) := by
  obtain ⟨hroot, hentry, hnth⟩ := compile_layout (Ast.ofSelectors sels) (ofSelectors_count sels)
  obtain ⟨r, hr⟩ := SemInv.runAux_total _ _ _ hroot hentry hnth evs
    (Vm.new (Ast.ofSelectors sels) esi) {} 0 [] rfl (SemInv.init _ esi)
  exact ⟨r.1, r.2, hr, C04_counters _ esi evs r.1 r.2 hr t⟩

/-- On such histories an end tag never panics (the `open_name_counts` decrement cannot underflow)
    and closes exactly the elements the induced tree closes. -/
theorem C04_end_tag_total (program : Program) (esi : Bool) (evs : List Event) (vm' : Vm) (hits : List (Nat × Nat))
    (hrun : (Vm.mk program (Stack.new program.enableNthOfType) esi).runAux evs 0 [] = .ok (vm', hits))
    (name : Bytes) :
    ∃ vm'', vm'.handleEndTag name = .ok vm'' ∧
      vm''.stack.items.reverse.map (·.localName) =
        ((evs.foldl (fun s e => s.step esi e) ({} : TreeState)).endTag name).open.map (·.elem.tag.name) := by
  obtain ⟨_, _, inv⟩ := StackInv.runAux esi evs _ vm' {} 0 [] hits rfl (StackInv.init _) hrun
  obtain ⟨vm'', h, _, _, inv'⟩ := inv.handleEndTag name
  exact ⟨vm'', h, inv'.names⟩

/-- non-vacuity: the run of the demo document succeeds, and for a following `<li>` the counters
    are (3rd child, 2nd `li`) at the root level (the first `li`s are inside the closed `ul`). -/
example :
    ∃ vm' hits, (Vm.new (Ast.ofSelectors selsDemo) false).runAux docDemo 0 [] = .ok (vm', hits) ∧
      hits = [(0, 1), (1, 3)] ∧
      (vm'.stack.addChild bLi).buildState bLi = ⟨3, some 2⟩ := by
  refine ⟨_, _, rfl, ?_, ?_⟩ <;> decide

/-! ## C04_not_compound_counterexample (finding F3) -/

/-- `:not(div.foo)` on `<div>`: the model VM (like the implementation) reports no match because the
    compound argument is flattened to `!div && !.foo`; CSS semantics (`:not()` negates its whole
    argument) matches — with the CSS leaves and with the leaves as coded alike. -/
theorem C04_not_compound_counterexample :
    runSelectors [selNotDivFoo] false docDiv = .ok [] ∧
    Spec.Css.run cssLeaf [selNotDivFoo] false docDiv = [(0, 0)] ∧
    Spec.Css.run codeLeaf [selNotDivFoo] false docDiv = [(0, 0)] := by decide

/-- The flattening itself. -/
example : Predicate.ofCompound [.not [[.type bDiv, .cls bFoo]]] =
    { onTagNameExprs := [⟨.localName bDiv, true⟩], onAttrExprs := [⟨.cls bFoo, true⟩] } := by decide


/-! ## C04_vm_refines_css, C04_independence -/

/-- `div:not(.foo, #a) > li:first-child` -/
def selNotList : SelList :=
  [⟨[.type bDiv, .not [[.cls bFoo], [.id bA]]], [(.child, [.type bLi, .firstChild])]⟩]

/-- The full property, without restriction on `:not()`: **false** on the current tree (finding F3),
    see `C04_vm_refines_css_statement_false`. -/
def C04_vm_refines_css_statement : Prop :=
  ∀ (sels : List SelList) (esi : Bool) (evs : List Event),
    runSelectors sels esi evs = .ok (Spec.Css.run cssLeaf sels esi evs)

theorem C04_vm_refines_css_statement_false : ¬ C04_vm_refines_css_statement := by
  intro h
  have := h [selNotDivFoo] false docDiv
  rw [C04_not_compound_counterexample.1, C04_not_compound_counterexample.2.1] at this
  cases this

/-- **VM ⊑ CSS.** For every set of registered selectors whose `:not()` arguments are single plain
    simple selectors (lists of them allowed; `selsOk`), every ESI setting and every tag-event sequence:
    the model pipeline (trie with prefix sharing → compiler → stack VM with bail-outs, jumps,
    de-duplicated hereditary jumps, counters) does not panic and reports, for every start tag, exactly
    the selectors that match the element under CSS Selectors semantics on the induced tree, in
    increasing selector order. -/
theorem C04_vm_refines_css (sels : List SelList) (hok : selsOk sels = true) (esi : Bool) (evs : List Event) :
    runSelectors sels esi evs = .ok (Spec.Css.run cssLeaf sels esi evs) := by
  obtain ⟨res, hres⟩ := runSelectors_total sels esi evs
  rw [hres, runSelectors_eq_css_of_ok sels hok esi evs res hres, codeLeaf_eq_cssLeaf]

/-- The model VM never panics on a compiled program — whatever the selectors (F3 shapes included):
    no out-of-range instruction address, no missing typed counter, no `open_name_counts` underflow. -/
theorem C04_vm_never_panics (sels : List SelList) (esi : Bool) (evs : List Event) :
    ∃ res, runSelectors sels esi evs = .ok res :=
  runSelectors_total sels esi evs

/-- Without the restriction on `:not()` the VM still computes CSS matching of the *flattened*
    predicates: partial correctness against the denotation of the compiled program holds for all
    selectors (`SemInv.runAux`); what fails is only `predB (ofCompound c) = matchesCompound c`. This is the
    lemma that needs `compoundOk`: -/
theorem C04_flattening_correct_iff_simple (c : Compound) (hc : compoundOk c = true) (e : Elem) :
    predB (Predicate.ofCompound c) e = matchesCompound cssLeaf e c := by
  rw [← codeLeaf_eq_cssLeaf]; exact predB_ofCompound c hc e

/-- **Independence.** The start tags at which a selector hits do not depend on which other selectors
    are registered, nor on its registration index (selector sets within `selsOk`). -/
theorem C04_independence (sels sels' : List SelList) (hok : selsOk sels = true) (hok' : selsOk sels' = true)
    (i j : Nat) (s : SelList) (hi : sels[i]? = some s) (hj : sels'[j]? = some s) (esi : Bool) (evs : List Event) :
    (runSelectors sels esi evs).map (hitsOf i) = (runSelectors sels' esi evs).map (hitsOf j) := by
  rw [C04_vm_refines_css sels hok, C04_vm_refines_css sels' hok']
  simp only [Except.map]
  rw [spec_independence cssLeaf sels sels' i j s hi hj]

/-- non-vacuity: a selector set inside `selsOk` with a `:not()` list, prefix sharing and both
    combinators, on a document where it hits -/
example : selsOk (selNotList :: selsDemo) = true := by decide
example :
    runSelectors (selNotList :: selsDemo) false
      ([.start ⟨bDiv, .html, [⟨bClass, bB⟩], false⟩, .start ⟨bLi, .html, [], false⟩] ++ docDemo) =
      .ok [(0, 1), (1, 3), (2, 5)] := by decide

/-! ## the leaves (after `fix:` 11ef1d1 and 614f5b5 in /repo) -/

/-- `NthChild::has_index` (difference and remainder in `i64`) decides `∃ n ≥ 0, a·n + b = index`. -/
theorem C04_nth (a b : Int) (index : Nat) : hasIndex a b index = true ↔ ∃ n : Nat, a * n + b = index := by
  rw [hasIndex_eq_nthMatches, nthMatches_iff]

/-- The six attribute operator functions compute the CSS operators (`Spec.Css.opMatches`) on every
    value, operand and case mode. -/
theorem C04_attr_ops (op : AttrOp) (insensitive : Bool) (actual operand : Bytes) :
    opMatchesCode op insensitive actual operand = opMatches op insensitive actual operand :=
  opMatchesCode_eq op insensitive actual operand

end LolHtml.Thm.C04_VM
