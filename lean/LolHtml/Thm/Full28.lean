/-
# Package `full`, part 23 — `C14_ranges_real` without the internal-class alternative: the logged world

`C14_ranges_real` (Thm/Full24.lean) lives in the LOGGED world `withLog (fullCtl cfg)`; the unconditional equality
`Full_real_eq_clean` (Thm/Full26.lean) is about `fullCtl cfg`, and the log is not determined by the unlogged state. Here
Thm/Full25–26 once more for the logged controllers `withLog (fullCtlH cfg)` / `withLog (cleanCtlH cfg)`:
the invariant is `InvY` of the dispatcher with the log projected away (`InvYL`), the guards are those of the unlogged world
read through the projection (`KL`); the simulation passes through the wrapper (`CtlSim.withLog`), the unary facts
(`U_tag_Y` …) through the ghost (`Hom.hom_handleTag` …).
-/
import LolHtml.Thm.Full24
import LolHtml.Thm.Full26

set_option linter.unusedSimpArgs false
set_option linter.unusedVariables false
namespace LolHtml.Thm.Full
open LolHtml LolHtml.Model LolHtml.Model.Full LolHtml.Model.Handlers LolHtml.EditModel LolHtml.Lemmas.Full
open LolHtml.Thm.C01 (run writeAll Rewriter.new)
open LolHtml.Thm.C14R (withLog withLog_logging withLog_clean)
open LolHtml.Model.RelI LolHtml.Model.Hint

/-- the state of the logged world with the ghost -/
abbrev FullStHL (cfg : Cfg) : Type := FullStH cfg × List Model.Token

/-- `InvY`, the log projected away -/
def InvYL (cfg : Cfg) (d : Disp (FullStHL cfg)) : Prop := InvY cfg (Hom.mapD Prod.fst d)

/-- a guard read through the projection -/
def pullG {γ' γ : Type} (f : γ' → γ) (K : SGuard (Disp γ)) : SGuard (Disp γ') :=
  ⟨fun inp lx d => K.tag inp lx (Hom.mapD f d), fun inp lx d => K.nonTag inp lx (Hom.mapD f d)⟩

/-- the lexeme guard of the logged world -/
def KL (cfg : Cfg) : SGuard (Disp (FullStHL cfg)) :=
  pullG Prod.fst (withArgs argSite (andGuard (kindGuard (γ := FullSt cfg)) wmGuard))

/-- `agree_of_unaryY` through the ghost: the step is the logged one, the unary fact the unlogged one -/
theorem agree_of_unaryYL {α : Type} {cfg : Cfg} {r1 r2 : DRes (FullStHL cfg) α}
    (hstep : Chunk.R.DStep (fun g : FullStHL cfg => Chunk.R.DO cfg g.1.1)
      (fun e => Chunk.R.GP e ∧ Chunk.R.CbErr (fullCtl cfg) (Chunk.R.DO cfg) e) r1 r2)
    {r0 : DRes (FullStH cfg) α} (hm : Hom.mapR Prod.fst r1 = r0)
    (hu : UPostY cfg r0) : r1 = r2 ∧ ∀ a, r1.2 = .ok a → InvYL cfg r1.1 := by
  subst hm
  rcases hstep with ⟨he, _⟩ | ⟨e, ⟨hG, hc⟩, he⟩
  · exact ⟨he, fun a ha => hu.1 a ha⟩
  · exact (no_gp hG hc (hu.2 e he)).elim

/-- **Full_ops_agree_logged.** `Full_ops_agree` in the logged world. -/
theorem Full_ops_agree_logged (cfg : Cfg) (inp : Bytes) :
    RelQ.OpsAgree (XT (KL cfg) (dispOps (withLog (fullCtlH cfg))))
      (XT (KL cfg) (dispOps (withLog (cleanCtlH cfg)))) inp (InvYL cfg) := by
  have hsim := CtlSim.withLog (fullCtlH_sim cfg)
  have hh := withLog_hom (fullCtlH cfg)
  constructor
  · intro lx d hI
    simp only [XT, guardHints, guardS, KL, pullG]
    cases hK : (withArgs argSite (andGuard kindGuard wmGuard)).tag inp lx (Hom.mapD Prod.fst d) with
    | some e => exact ⟨rfl, fun a ha => by cases ha⟩
    | none =>
      simp only [withArgs, andGuard] at hK
      have hv : TagArgsOK inp lx := by
        cases ha : (argGuard argSite).tag inp lx with
        | some e => rw [ha] at hK; cases hK
        | none => exact argGuard_tag_none ha
      have ha : (argGuard argSite).tag inp lx = none := by
        cases ha : (argGuard argSite).tag inp lx with
        | some e => rw [ha] at hK; cases hK
        | none => rfl
      rw [ha] at hK
      dsimp only at hK
      have hkind : (kindGuard (γ := FullSt cfg)).tag inp lx (Hom.mapD Prod.fst d) = none := by
        cases hk : (kindGuard (γ := FullSt cfg)).tag inp lx (Hom.mapD Prod.fst d) with
        | some e => rw [hk] at hK; cases hK
        | none => rfl
      exact agree_of_unaryYL (Chunk.R.handleTag_step hsim inp lx d (invX_DO hI.1)) (Hom.hom_handleTag hh inp lx d)
        (U_tag_Y cfg (tag_startLex cfg) (tag_auxPend cfg) inp lx (Hom.mapD Prod.fst d) hI hv hkind)
  · intro lx d hI
    simp only [XT, guardHints, guardS, KL, pullG]
    cases hK : (withArgs argSite (andGuard kindGuard wmGuard)).nonTag inp lx (Hom.mapD Prod.fst d) with
    | some e => exact ⟨rfl, fun a ha => by cases ha⟩
    | none =>
      simp only [withArgs, andGuard] at hK
      have hv : NTLexValid inp lx := by
        cases ha : (argGuard argSite).nonTag inp lx with
        | some e => rw [ha] at hK; cases hK
        | none =>
          simp only [argGuard] at ha
          split at ha
          · assumption
          · cases ha
      have ha : (argGuard argSite).nonTag inp lx = none := by
        cases ha : (argGuard argSite).nonTag inp lx with
        | some e => rw [ha] at hK; cases hK
        | none => rfl
      rw [ha] at hK
      simp only [kindGuard, wmGuard] at hK
      have hw : (Hom.mapD (Prod.fst : FullStHL cfg → FullStH cfg) d).rcs ≤ lx.raw.start := by
        split at hK
        · assumption
        · cases hK
      exact agree_of_unaryYL (Chunk.R.handleNonTag_step hsim inp lx d (invX_DO hI.1)) (Hom.hom_handleNonTag hh inp lx d)
        (U_nonTag_Y cfg inp lx (Hom.mapD Prod.fst d) hI hv hw)
  · intro n ns d hI
    simp only [XT, guardHints, guardS]
    cases hb : (d.gotFlagsFromHint || d.pendingAux) with
    | true => simp only [if_true]; exact ⟨trivial, fun a ha => by cases ha⟩
    | false =>
      simp only [Bool.false_eq_true, if_false]
      obtain ⟨a, b, c⟩ := invX_idle_of (d := Hom.mapD Prod.fst d) hI.1 hb
      exact agree_of_unaryYL (Chunk.R.startTagHint_step hsim n ns d (invX_DO hI.1)) (Hom.hom_startTagHint hh n ns d)
        (U_startHint_Y cfg (Hom.mapD Prod.fst d) a b c n ns)
  · intro n d hI
    simp only [XT, guardHints, guardS]
    cases hb : (d.gotFlagsFromHint || d.pendingAux) with
    | true => simp only [if_true]; exact ⟨trivial, fun a ha => by cases ha⟩
    | false =>
      simp only [Bool.false_eq_true, if_false]
      obtain ⟨a, b, c⟩ := invX_idle_of (d := Hom.mapD Prod.fst d) hI.1 hb
      exact agree_of_unaryYL (Chunk.R.endTagHint_step hsim n d (invX_DO hI.1)) (Hom.hom_endTagHint hh n d)
        (U_endHint_Y cfg (Hom.mapD Prod.fst d) a b c n)

/-- **Full_parse_eq_guarded_logged.** `Full_parse_eq_guarded` in the logged world. -/
theorem Full_parse_eq_guarded_logged (cfg : Cfg) (inp : Bytes) (last : Bool) (p : Parser (Disp (FullStHL cfg)))
    (hI : InvYL cfg p.x.sink) :
    Parser.parse ⟨Gen.Syntax.table, Gen.Tags.cfg, XT (KL cfg) (dispOps (withLog (fullCtlH cfg)))⟩ inp last p =
      Parser.parse ⟨Gen.Syntax.table, Gen.Tags.cfg, XT (KL cfg) (dispOps (withLog (cleanCtlH cfg)))⟩ inp last p ∧
    ∀ n, (Parser.parse ⟨Gen.Syntax.table, Gen.Tags.cfg, XT (KL cfg) (dispOps (withLog (fullCtlH cfg)))⟩ inp last p).2 = .ok n →
      InvYL cfg (Parser.parse ⟨Gen.Syntax.table, Gen.Tags.cfg, XT (KL cfg) (dispOps (withLog (fullCtlH cfg)))⟩ inp last p).1.x.sink :=
  RelQ.parse_eq_of_agree (tbl := Gen.Syntax.table) (cfg := Gen.Tags.cfg) (Full_ops_agree_logged cfg inp)
    C03.C03_emitsChecked_gen last p hI

/-! ### guards read through a ghost: generic -/

section pull
variable {γ' γ : Type} {f : γ' → γ} {w : World γ} {c' : Controller γ'}

theorem xfires_pull {K : SGuard (Disp γ)} {e : Err} (h : XFires (pullG f K) e) : XFires K e := by
  rcases h with (⟨inp, lx, k, hk⟩ | ⟨inp, lx, k, hk⟩) | he
  · exact Or.inl (Or.inl ⟨inp, lx, _, hk⟩)
  · exact Or.inl (Or.inr ⟨inp, lx, _, hk⟩)
  · exact Or.inr he

/-- the guarded dispatcher over `c'` is, under `f`, the guarded dispatcher over `c` -/
theorem xt_hom (h : Hom.CtlHom c' w.ctl f) (K : SGuard (Disp γ)) (inp : Bytes) :
    RelE.OpsRelE (XT (pullG f K) (dispOps c')) (XT K (dispOps w.ctl)) inp (fun d' d => Hom.mapD f d' = d) (fun _ => False) where
  handleTag := fun lx k₁ k₂ hk => by
    subst hk
    simp only [XT, guardHints, guardS, pullG]
    cases K.tag inp lx (Hom.mapD f k₁) with
    | some e => exact Or.inl ⟨rfl, rfl⟩
    | none => exact (Hom.dispOps_hom h inp).handleTag lx k₁ _ rfl
  handleNonTag := fun lx k₁ k₂ hk => by
    subst hk
    simp only [XT, guardHints, guardS, pullG]
    cases K.nonTag inp lx (Hom.mapD f k₁) with
    | some e => exact Or.inl ⟨rfl, rfl⟩
    | none => exact (Hom.dispOps_hom h inp).handleNonTag lx k₁ _ rfl
  startTagHint := fun n ns k₁ k₂ hk => by
    subst hk
    by_cases hc : (k₁.gotFlagsFromHint || k₁.pendingAux) = true
    · have hc' : ((Hom.mapD f k₁).gotFlagsFromHint || (Hom.mapD f k₁).pendingAux) = true := hc
      simp only [XT, guardHints, guardS, hc, hc', if_true]; exact Or.inl ⟨by first | rfl | trivial, by first | rfl | trivial⟩
    · have hc' : ¬ ((Hom.mapD f k₁).gotFlagsFromHint || (Hom.mapD f k₁).pendingAux) = true := hc
      simp only [XT, guardHints, guardS, hc, hc', if_false, Bool.false_eq_true]
      exact (Hom.dispOps_hom h inp).startTagHint n ns k₁ _ rfl
  endTagHint := fun n k₁ k₂ hk => by
    subst hk
    by_cases hc : (k₁.gotFlagsFromHint || k₁.pendingAux) = true
    · have hc' : ((Hom.mapD f k₁).gotFlagsFromHint || (Hom.mapD f k₁).pendingAux) = true := hc
      simp only [XT, guardHints, guardS, hc, hc', if_true]; exact Or.inl ⟨by first | rfl | trivial, by first | rfl | trivial⟩
    · have hc' : ¬ ((Hom.mapD f k₁).gotFlagsFromHint || (Hom.mapD f k₁).pendingAux) = true := hc
      simp only [XT, guardHints, guardS, hc, hc', if_false, Bool.false_eq_true]
      exact (Hom.dispOps_hom h inp).endTagHint n k₁ _ rfl

/-- one parse: "the guarded parse is the plain one and returns no refusal" passes to the world over `c'` -/
theorem parse_pull (h : Hom.CtlHom c' w.ctl f) (ht : EmitsChecked w.tbl = true) (K : SGuard (Disp γ))
    (hpK : ∀ e, XFires K e → ∃ s, e = .panic s)
    (inp : Bytes) (last : Bool) (p' : Parser (Disp γ')) (p : Parser (Disp γ)) (hp : PR (Hom.HR f) p' p)
    (h2 : Parser.parse (envT w (XT K)) inp last p = Parser.parse w.env inp last p)
    (h2n : ∀ e, XFires K e → (Parser.parse w.env inp last p).2 ≠ .error e) :
    Parser.parse (envT (Hom.worldOf w c') (XT (pullG f K))) inp last p' = Parser.parse (Hom.worldOf w c').env inp last p' ∧
    ∀ e, XFires (pullG f K) e → (Parser.parse (Hom.worldOf w c').env inp last p').2 ≠ .error e := by
  obtain ⟨_, hres⟩ := Hom.parse_hr h ht inp last p' p hp
  refine ⟨?_, fun e he hh => h2n e (xfires_pull he) (by rw [← hres]; exact hh)⟩
  have r3 := RelE.parse_relE (tbl := w.tbl) (cfg := w.tags) (inp := inp) (xt_relReal (pullG f K) c' inp) ht last p' p' (PR_refl p')
  rcases r3 with ⟨hq, hr⟩ | ⟨e, hFe, hr⟩
  · exact Prod.ext (PR_eq' hq) hr
  · exfalso
    obtain ⟨s, rfl⟩ := hpK e (xfires_pull hFe)
    rcases RelE.parse_relE (tbl := w.tbl) (cfg := w.tags) (inp := inp) (xt_hom h K inp) ht last p' p hp with ⟨_, hg⟩ | ⟨_, hfalse, _⟩
    · have hr' : (Parser.parse (envT (Hom.worldOf w c') (XT (pullG f K))) inp last p').2 = .error (.panic s) := hr
      have hg' : (Parser.parse (envT (Hom.worldOf w c') (XT (pullG f K))) inp last p').2 =
          (Parser.parse (envT w (XT K)) inp last p).2 := hg
      rw [hg', h2] at hr'
      exact h2n _ (xfires_pull hFe) hr'
    · exact hfalse

theorem chunkFor_pull {s' : Stream γ'} {s : Stream γ} (hs : Hom.SRh f s' s) {data chunk : Bytes} {s1' : Stream γ'}
    (hcf : s'.chunkFor (Hom.worldOf w c') data = .inr (s1', chunk)) :
    ∃ s1, s.chunkFor w data = .inr (s1, chunk) ∧ PR (Hom.HR f) s1'.parser s1.parser := by
  obtain ⟨hp, hb, hh, hc, hn⟩ := hs
  unfold Stream.chunkFor at hcf ⊢
  rw [← hh, ← hb]
  by_cases hbb : s'.hasBuffered = true
  · simp only [hbb, if_true] at hcf ⊢
    by_cases ha : (s'.buf.append data).2 = true
    · simp only [ha, if_true, Sum.inr.injEq, Prod.mk.injEq] at hcf ⊢
      obtain ⟨rfl, rfl⟩ := hcf
      exact ⟨_, ⟨rfl, rfl⟩, hp⟩
    · simp [ha] at hcf
  · simp only [hbb, if_false, Bool.false_eq_true, Sum.inr.injEq, Prod.mk.injEq] at hcf ⊢
    obtain ⟨rfl, rfl⟩ := hcf
    exact ⟨_, ⟨rfl, rfl⟩, hp⟩

/-- the run-level companion passes to the world over `c'` -/
theorem guardFree_pull (h : Hom.CtlHom c' w.ctl f) (ht : EmitsChecked w.tbl = true) (K : SGuard (Disp γ))
    (hpK : ∀ e, XFires K e → ∃ s, e = .panic s) (g' : γ') (cfg : Settings)
    (hgf : GuardFreeT w (XT K) (XFires K) (f g') cfg) :
    GuardFreeT (Hom.worldOf w c') (XT (pullG f K)) (XFires (pullG f K)) g' cfg := by
  have hnew : Hom.RRh f (Rewriter.new (Hom.worldOf w c') g' cfg) (Rewriter.new w (f g') cfg) := by
    refine ⟨⟨?_, rfl, rfl, rfl, rfl⟩, rfl, rfl⟩
    simp only [Rewriter.new, Stream.new, Hom.worldOf, h.initialFlags g']
    refine ⟨rfl, rfl, rfl, rfl, rfl, ?_, rfl, rfl⟩
    show Hom.mapD f _ = _
    simp only [Parser.new, Disp.new, Hom.mapD, h.initialFlags g']
  intro pre hpo
  obtain ⟨⟨hs, hp, he⟩, _⟩ := Hom.writeAll_hr h ht pre hnew
  obtain ⟨A, B⟩ := hgf pre (by rw [← hp]; exact hpo)
  refine ⟨fun data s1' chunk hcf => ?_, ?_⟩
  · obtain ⟨s1, h1, h2⟩ := chunkFor_pull hs hcf
    exact parse_pull h ht K hpK chunk false _ _ h2 (A data s1 chunk h1).1 (A data s1 chunk h1).2
  · obtain ⟨hpr, hb, hh, hc, hn⟩ := hs
    rw [hh, hb]
    exact parse_pull h ht K hpK _ true _ _ hpr B.1 B.2

end pull

/-! ### the logged run level -/

/-- the logged world with the ghost, real controller -/
def genLogWorldH (cfg : Cfg) : World (FullStHL cfg) := Hom.worldOf (genWorldH cfg) (withLog (fullCtlH cfg))

/-- … cleaned controller -/
def cleanLogWorldH (cfg : Cfg) : World (FullStHL cfg) := Hom.worldOf (cleanWorldH cfg) (withLog (cleanCtlH cfg))

/-- `handle_end` in the logged world -/
theorem Full_handleEnd_eq_logged (cfg : Cfg) (d : Disp (FullStHL cfg)) (hI : InvYL cfg d) :
    (withLog (fullCtlH cfg)).handleEnd d.ctl = (withLog (cleanCtlH cfg)).handleEnd d.ctl := by
  have h : (fullCtlH cfg).handleEnd d.ctl.1 = (cleanCtlH cfg).handleEnd d.ctl.1 :=
    Full_handleEnd_eq cfg (Hom.mapD Prod.fst d) hI
  simp only [C14R.withLog, h]

theorem ops_pull_one {α : Type} {cfg : Cfg} {r1' r2' : Disp (FullStHL cfg) × Except Err α}
    {r1 r2 : Disp (FullStH cfg) × Except Err α} (he : r1' = r2' ∧ ∀ a, r1'.2 = .ok a → InvYL cfg r1'.1)
    (hm : (Hom.mapD Prod.fst r1'.1 = r1.1 ∧ r1'.2 = r1.2) ∨ ∃ eA : Err, False ∧ r1'.2 = .error eA)
    (hu : (IRel (InvY cfg) r1.1 r2.1 ∧ r1.2 = r2.2) ∨ ∃ e, NP e ∧ r1.2 = .error e) :
    (IRel (InvYL cfg) r1'.1 r2'.1 ∧ r1'.2 = r2'.2) ∨ ∃ e, NP e ∧ r1'.2 = .error e := by
  obtain ⟨he, _⟩ := he
  subst he
  rcases hm with ⟨m1, m2⟩ | ⟨_, hf, _⟩
  · rcases hu with ⟨⟨_, hI⟩, _⟩ | ⟨e, hG, hr⟩
    · exact Or.inl ⟨⟨rfl, show InvY cfg (Hom.mapD Prod.fst r1'.1) by rw [m1]; exact hI⟩, rfl⟩
    · exact Or.inr ⟨e, hG, by rw [m2]; exact hr⟩
  · exact hf.elim

/-- `CtlRelT` in the logged world -/
theorem Full_relT_logged (cfg : Cfg) :
    CtlRelT (genLogWorldH cfg) (withLog (cleanCtlH cfg)) (XT (KL cfg)) (InvYL cfg) NP := by
  obtain ⟨_, hL⟩ := Full_scan_opsX cfg
  have hh : Hom.CtlHom (withLog (fullCtlH cfg)) (genWorldH cfg).ctl Prod.fst := withLog_hom (fullCtlH cfg)
  have hK := fun inp => xt_hom (w := genWorldH cfg) hh (withArgs argSite (andGuard (kindGuard (γ := FullSt cfg)) wmGuard)) inp
  refine ⟨fun inp => ?_, (CtlSim.withLog (fullCtlH_sim cfg)).bailOut, ?_, ?_, fun _ => rfl, hL.np⟩
  · constructor
    · rintro lx d _ ⟨rfl, hI⟩
      exact ops_pull_one ((Full_ops_agree_logged cfg inp).handleTag lx d hI) ((hK inp).handleTag lx d _ rfl)
        ((hL.ops inp).handleTag lx _ _ ⟨rfl, hI⟩)
    · rintro lx d _ ⟨rfl, hI⟩
      exact ops_pull_one ((Full_ops_agree_logged cfg inp).handleNonTag lx d hI) ((hK inp).handleNonTag lx d _ rfl)
        ((hL.ops inp).handleNonTag lx _ _ ⟨rfl, hI⟩)
    · rintro n ns d _ ⟨rfl, hI⟩
      exact ops_pull_one ((Full_ops_agree_logged cfg inp).startTagHint n ns d hI) ((hK inp).startTagHint n ns d _ rfl)
        ((hL.ops inp).startTagHint n ns _ _ ⟨rfl, hI⟩)
    · rintro n d _ ⟨rfl, hI⟩
      exact ops_pull_one ((Full_ops_agree_logged cfg inp).endTagHint n d hI) ((hK inp).endTagHint n d _ rfl)
        ((hL.ops inp).endTagHint n _ _ ⟨rfl, hI⟩)
  · intro d d' inp k hfl hI
    rcases Hom.hr_flushRemaining (f := Prod.fst) inp k (rfl : Hom.HR Prod.fst d (Hom.mapD Prod.fst d)) with
      ⟨e, e1, _⟩ | ⟨a, b, e1, e2, hab⟩
    · rw [hfl] at e1; cases e1
    · rw [hfl] at e1
      cases e1
      show InvY cfg (Hom.mapD Prod.fst d')
      rw [show Hom.mapD Prod.fst d' = b from hab]
      exact hL.flush _ _ _ _ e2 hI
  · intro d hI
    exact Or.inl (Full_handleEnd_eq_logged cfg d hI)

/-- `Full_parse_eq` in the logged world -/
theorem Full_parse_eq_logged (cfg : Cfg) (inp : Bytes) (last : Bool) (p : Parser (Disp (FullStHL cfg))) (hI : InvYL cfg p.x.sink)
    (h2 : Parser.parse (envT (cleanLogWorldH cfg) (XT (KL cfg))) inp last p = Parser.parse (cleanLogWorldH cfg).env inp last p)
    (h2n : ∀ e, XFires (KL cfg) e → (Parser.parse (cleanLogWorldH cfg).env inp last p).2 ≠ .error e) :
    Parser.parse (genLogWorldH cfg).env inp last p = Parser.parse (cleanLogWorldH cfg).env inp last p ∧
    ∀ n, (Parser.parse (genLogWorldH cfg).env inp last p).2 = .ok n →
      InvYL cfg (Parser.parse (genLogWorldH cfg).env inp last p).1.x.sink := by
  obtain ⟨g1, g2⟩ := Full_parse_eq_guarded_logged cfg inp last p hI
  have g1' : Parser.parse (envT (genLogWorldH cfg) (XT (KL cfg))) inp last p =
      Parser.parse (envT (cleanLogWorldH cfg) (XT (KL cfg))) inp last p := g1
  have r3 := RelE.parse_relE (tbl := Gen.Syntax.table) (cfg := Gen.Tags.cfg) (inp := inp)
    (xt_relReal (KL cfg) (genLogWorldH cfg).ctl inp) C03.C03_emitsChecked_gen last p p (PR_refl p)
  have heq : Parser.parse (envT (genLogWorldH cfg) (XT (KL cfg))) inp last p =
      Parser.parse (genLogWorldH cfg).env inp last p := by
    rcases r3 with ⟨hp, hres⟩ | ⟨e, hF, hres⟩
    · exact Prod.ext (PR_eq' hp) hres
    · exfalso
      obtain ⟨s, rfl⟩ := xfires_panic (xfires_pull hF)
      have hres' : (Parser.parse (envT (genLogWorldH cfg) (XT (KL cfg))) inp last p).2 = .error (.panic s) := hres
      rw [g1', h2] at hres'
      exact h2n _ hF hres'
  rw [← heq]
  exact ⟨by rw [g1', h2], g2⟩

/-- the complete logged runs with the ghost are the same run -/
theorem Full_real_eq_clean_HL (cfg : Cfg) (settings : Settings) (chunks : List Bytes) :
    run (genLogWorldH cfg) (Rewriter.new (genLogWorldH cfg) ((FullSt.init cfg, none), []) settings) chunks =
      run (cleanLogWorldH cfg) (Rewriter.new (cleanLogWorldH cfg) ((FullSt.init cfg, none), []) settings) chunks := by
  obtain ⟨hI, _⟩ := Full_scan_opsX cfg
  have hgf : GuardFreeT (cleanLogWorldH cfg) (XT (KL cfg)) (XFires (KL cfg)) ((FullSt.init cfg, none), []) settings :=
    guardFree_pull (w := cleanWorldH cfg) (f := Prod.fst) (withLog_hom (cleanCtlH cfg)) C03.C03_emitsChecked_gen
      (withArgs argSite (andGuard (kindGuard (γ := FullSt cfg)) wmGuard)) (fun e he => xfires_panic he)
      ((FullSt.init cfg, none), []) settings (Full_clean_guardX' cfg settings)
  exact run_eqT (w := genLogWorldH cfg) (c2 := withLog (cleanCtlH cfg)) (Full_relT_logged cfg)
    (fun inp last p hp h2 h2n => Full_parse_eq_logged cfg inp last p hp h2 h2n)
    (fun d hd => Full_handleEnd_eq_logged cfg d hd) ((FullSt.init cfg, none), []) settings (hI settings.encoding)
    hgf chunks

/-- the log passes through the ghost `hintCtl` -/
theorem withLog_hom_lift {γ' γ : Type} {c' : Controller γ'} {c : Controller γ} {f : γ' → γ} (h : Hom.CtlHom c' c f) :
    Hom.CtlHom (withLog c') (withLog c) (fun g => (f g.1, g.2)) where
  initialFlags := fun g => h.initialFlags g.1
  startTag := fun g n ns => ⟨by simp only [C14R.withLog, (h.startTag g.1 n ns).1], (h.startTag g.1 n ns).2⟩
  auxInfo := fun g i => ⟨by simp only [C14R.withLog, (h.auxInfo g.1 i).1], (h.auxInfo g.1 i).2⟩
  endTag := fun g n => ⟨by simp only [C14R.withLog, (h.endTag g.1 n).1], (h.endTag g.1 n).2⟩
  token := fun g t => ⟨by simp only [C14R.withLog, (h.token g.1 t).1], (h.token g.1 t).2⟩
  shouldEmit := fun g => h.shouldEmit g.1
  handleEnd := fun g => ⟨by simp only [C14R.withLog, (h.handleEnd g.1).1], (h.handleEnd g.1).2⟩
  bailOut := fun g e => ⟨by simp only [C14R.withLog, (h.bailOut g.1 e).1], (h.bailOut g.1 e).2⟩

/-- **C14_ranges_real_all.** For every configuration of the REAL controller (handlers rewrite tokens, remove element content,
fail), every settings record and every history `write* ; end` (any chunking, failing calls included): the source ranges
of the tokens handed to the controller, in the order they were handed over, are well-formed, ordered and pairwise
disjoint. No alternative, no hypothesis about the run. -/
theorem C14_ranges_real_all (cfg : Cfg) (settings : Settings) (chunks : List Bytes) :
    Ordered (run (logWorld cfg) (Rewriter.new (logWorld cfg) (FullSt.init cfg, []) settings) chunks).1.stream.disp.ctl.2 := by
  have hh : Hom.CtlHom (withLog (fullCtlH cfg)) (logWorld cfg).ctl (fun g : FullStHL cfg => (g.1.1, g.2)) :=
    withLog_hom_lift (hintCtl_hom (fullCtl cfg))
  have r1 := Hom.run_hr (w := logWorld cfg) (c' := withLog (fullCtlH cfg)) (f := fun g : FullStHL cfg => (g.1.1, g.2))
    hh C03.C03_emitsChecked_gen ((FullSt.init cfg, none), []) settings chunks
  have hd : Hom.mapD (fun g : FullStHL cfg => (g.1.1, g.2))
      (run (genLogWorldH cfg) (Rewriter.new (genLogWorldH cfg) ((FullSt.init cfg, none), []) settings) chunks).1.stream.disp =
      (run (logWorld cfg) (Rewriter.new (logWorld cfg) (FullSt.init cfg, []) settings) chunks).1.stream.disp := r1.1.disp
  rw [← hd, Full_real_eq_clean_HL]
  exact C14R.C14_ranges_all_controllers (cleanLogWorldH cfg) (·.2) (withLog_logging _)
    (withLog_clean _ (cleanCtlH_clean cfg)) C15.C15_gen C03.C03_emitsChecked_gen
    ((FullSt.init cfg, none), []) rfl settings chunks

/-- non-vacuity: the run of `C14_ranges_real`'s example (six tokens across two writes and `end`) -/
example : ((run (logWorld obsCfg) (Rewriter.new (logWorld obsCfg) (FullSt.init obsCfg, []) {}) sampleChunks).1.stream.disp.ctl.2.map
    fun t => (t.src.start, t.src.end)) = [(0, 9), (9, 10), (10, 10), (10, 16), (16, 17), (17, 17)] := by decide +kernel

end LolHtml.Thm.Full
