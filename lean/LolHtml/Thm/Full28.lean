/-
# Package `full`, part 23 — `C14_ranges_real` without the internal-class alternative: the logged world

`C14_ranges_real` (Thm/Full24.lean) lives in the LOGGED world `withLog (fullCtl cfg)`; the unconditional equality
`Full_real_eq_clean` (Thm/Full26.lean) is about `fullCtl cfg`, and the log is not determined by the unlogged state. Here
Thm/Full25–26 once more for the logged controllers `withLog (fullCtlH cfg)` / `withLog (cleanCtlH cfg)`:
the invariant is `InvY` of the dispatcher with the log projected away (`InvYL`), the guards are those of the unlogged world
read through the projection (`KL`); the simulation passes through the wrapper (`CtlSim.withLog`), the unary facts
(`U_tag_Y` …) through the ghost (`Hom.hom_handleTag` …).
-/
import LolHtml.Thm.Full24
import LolHtml.Thm.Full26

set_option linter.unusedSimpArgs false
set_option linter.unusedVariables false
namespace LolHtml.Thm.Full
open LolHtml LolHtml.Model LolHtml.Model.Full LolHtml.Model.Handlers LolHtml.EditModel LolHtml.Lemmas.Full
open LolHtml.Thm.C01 (run writeAll Rewriter.new)
open LolHtml.Thm.C14R (withLog withLog_logging withLog_clean)
open LolHtml.Model.RelI LolHtml.Model.Hint

/-- the state of the logged world with the ghost -/
abbrev FullStHL (cfg : Cfg) : Type := FullStH cfg × List Model.Token

/-- `InvY`, the log projected away -/
def InvYL (cfg : Cfg) (d : Disp (FullStHL cfg)) : Prop := InvY cfg (Hom.mapD Prod.fst d)

/-- a guard read through the projection -/
def pullG {γ' γ : Type} (f : γ' → γ) (K : SGuard (Disp γ)) : SGuard (Disp γ') :=
  ⟨fun inp lx d => K.tag inp lx (Hom.mapD f d), fun inp lx d => K.nonTag inp lx (Hom.mapD f d)⟩

/-- the lexeme guard of the logged world -/
def KL (cfg : Cfg) : SGuard (Disp (FullStHL cfg)) :=
  pullG Prod.fst (withArgs argSite (andGuard (kindGuard (γ := FullSt cfg)) wmGuard))

/-- `agree_of_unaryY` through the ghost: the step is the logged one, the unary fact the unlogged one -/
theorem agree_of_unaryYL {α : Type} {cfg : Cfg} {r1 r2 : DRes (FullStHL cfg) α}
    (hstep : Chunk.R.DStep (fun g : FullStHL cfg => Chunk.R.DO cfg g.1.1)
      (fun e => Chunk.R.GP e ∧ Chunk.R.CbErr (fullCtl cfg) (Chunk.R.DO cfg) e) r1 r2)
    {r0 : DRes (FullStH cfg) α} (hm : Hom.mapR Prod.fst r1 = r0)
    (hu : UPostY cfg r0) : r1 = r2 ∧ ∀ a, r1.2 = .ok a → InvYL cfg r1.1 := by
  subst hm
  rcases hstep with ⟨he, _⟩ | ⟨e, ⟨hG, hc⟩, he⟩
  · exact ⟨he, fun a ha => hu.1 a ha⟩
  · exact (no_gp hG hc (hu.2 e he)).elim

/-- **Full_ops_agree_logged.** `Full_ops_agree` in the logged world. -/
theorem Full_ops_agree_logged (cfg : Cfg) (inp : Bytes) :
    RelQ.OpsAgree (XT (KL cfg) (dispOps (withLog (fullCtlH cfg))))
      (XT (KL cfg) (dispOps (withLog (cleanCtlH cfg)))) inp (InvYL cfg) := by
  have hsim := CtlSim.withLog (fullCtlH_sim cfg)
  have hh := withLog_hom (fullCtlH cfg)
  constructor
  · intro lx d hI
    simp only [XT, guardHints, guardS, KL, pullG]
    cases hK : (withArgs argSite (andGuard kindGuard wmGuard)).tag inp lx (Hom.mapD Prod.fst d) with
    | some e => exact ⟨rfl, fun a ha => by cases ha⟩
    | none =>
      simp only [withArgs, andGuard] at hK
      have hv : TagArgsOK inp lx := by
        cases ha : (argGuard argSite).tag inp lx with
        | some e => rw [ha] at hK; cases hK
        | none => exact argGuard_tag_none ha
      have ha : (argGuard argSite).tag inp lx = none := by
        cases ha : (argGuard argSite).tag inp lx with
        | some e => rw [ha] at hK; cases hK
        | none => rfl
      rw [ha] at hK
      dsimp only at hK
      have hkind : (kindGuard (γ := FullSt cfg)).tag inp lx (Hom.mapD Prod.fst d) = none := by
        cases hk : (kindGuard (γ := FullSt cfg)).tag inp lx (Hom.mapD Prod.fst d) with
        | some e => rw [hk] at hK; cases hK
        | none => rfl
      exact agree_of_unaryYL (Chunk.R.handleTag_step hsim inp lx d (invX_DO hI.1)) (Hom.hom_handleTag hh inp lx d)
        (U_tag_Y cfg (tag_startLex cfg) (tag_auxPend cfg) inp lx (Hom.mapD Prod.fst d) hI hv hkind)
  · intro lx d hI
    simp only [XT, guardHints, guardS, KL, pullG]
    cases hK : (withArgs argSite (andGuard kindGuard wmGuard)).nonTag inp lx (Hom.mapD Prod.fst d) with
    | some e => exact ⟨rfl, fun a ha => by cases ha⟩
    | none =>
      simp only [withArgs, andGuard] at hK
      have hv : NTLexValid inp lx := by
        cases ha : (argGuard argSite).nonTag inp lx with
        | some e => rw [ha] at hK; cases hK
        | none =>
          simp only [argGuard] at ha
          split at ha
          · assumption
          · cases ha
      have ha : (argGuard argSite).nonTag inp lx = none := by
        cases ha : (argGuard argSite).nonTag inp lx with
        | some e => rw [ha] at hK; cases hK
        | none => rfl
      rw [ha] at hK
      simp only [kindGuard, wmGuard] at hK
      have hw : (Hom.mapD (Prod.fst : FullStHL cfg → FullStH cfg) d).rcs ≤ lx.raw.start := by
        split at hK
        · assumption
        · cases hK
      exact agree_of_unaryYL (Chunk.R.handleNonTag_step hsim inp lx d (invX_DO hI.1)) (Hom.hom_handleNonTag hh inp lx d)
        (U_nonTag_Y cfg inp lx (Hom.mapD Prod.fst d) hI hv hw)
  · intro n ns d hI
    simp only [XT, guardHints, guardS]
    cases hb : (d.gotFlagsFromHint || d.pendingAux) with
    | true => simp only [if_true]; exact ⟨trivial, fun a ha => by cases ha⟩
    | false =>
      simp only [Bool.false_eq_true, if_false]
      obtain ⟨a, b, c⟩ := invX_idle_of (d := Hom.mapD Prod.fst d) hI.1 hb
      exact agree_of_unaryYL (Chunk.R.startTagHint_step hsim n ns d (invX_DO hI.1)) (Hom.hom_startTagHint hh n ns d)
        (U_startHint_Y cfg (Hom.mapD Prod.fst d) a b c n ns)
  · intro n d hI
    simp only [XT, guardHints, guardS]
    cases hb : (d.gotFlagsFromHint || d.pendingAux) with
    | true => simp only [if_true]; exact ⟨trivial, fun a ha => by cases ha⟩
    | false =>
      simp only [Bool.false_eq_true, if_false]
      obtain ⟨a, b, c⟩ := invX_idle_of (d := Hom.mapD Prod.fst d) hI.1 hb
      exact agree_of_unaryYL (Chunk.R.endTagHint_step hsim n d (invX_DO hI.1)) (Hom.hom_endTagHint hh n d)
        (U_endHint_Y cfg (Hom.mapD Prod.fst d) a b c n)

end LolHtml.Thm.Full
