/-
# Package `full`, part 18 — `C15_linear_parse` for the REAL controller, unconditionally

`C15_linear_parse` needs `CtlClean` (no callback returns a panic- / internal-class error), which the real controller
does not satisfy (`Full_ctlClean_unattainable`). But the real controller is FOLLOWED by its cleaned version until its
first panic- / internal-class error (`cleanCtl_sim`), and a parse that aborts stops working: under `OpsRelE` the first
parse performs at most as many state-function invocations as the second one (`RelE.parseSteps_relE`,
Lemmas/StepsRelE.lean). So the bound of the cleaned controller is a bound for the real one — no alternative, no
hypothesis about the run; the controller state only has to be one without a recorded fault of the guard's / the
dispatcher's own sites (`DO`, closed under the callbacks; the initial state is one).
-/
import LolHtml.Thm.Full16
import LolHtml.Thm.C15_Linear
import LolHtml.Lemmas.StepsRelE

namespace LolHtml.Thm.Full
open LolHtml LolHtml.Model LolHtml.Model.Full LolHtml.Lemmas.Full
open LolHtml.Thm.C01 (run writeAll Rewriter.new)

/-- `parseSteps` of a controller is at most that of a controller that follows it (any world, any class) -/
theorem parseSteps_le_of_sim {γ : Type} {w : World γ} {c2 : Controller γ} {D : γ → Prop} {G : Err → Prop}
    (h : Chunk.R.CtlSim w.ctl c2 D G) (ht : EmitsChecked w.tbl = true) (inp : Bytes) (last : Bool)
    (p : Parser (Disp γ)) (hd : D p.x.sink.ctl) :
    Parser.parseSteps w.env inp last p ≤ Parser.parseSteps (Chunk.R.World.withCtl w c2).env inp last p :=
  RelE.parseSteps_relE (tbl := w.tbl) (cfg := w.tags) (inp := inp) (Chunk.R.dispOps_relE h inp) ht last p p
    ⟨rfl, rfl, rfl, rfl, rfl, ⟨rfl, hd⟩, rfl, rfl⟩

/-- **C15_linear_parse_real.** One whole `Parser::parse` call over the dispatcher with the REAL controller — every
configuration, every slice, `last` or not, every parser state satisfying the invariants of `C15_linear_parse` whose
controller state is in `DO` — performs at most `32·(n+1)` state-function invocations, all lexer ⇄ scanner switches
included. -/
theorem C15_linear_parse_real (cfg : Cfg) (inp : Bytes) (last : Bool) (p : Parser (Disp (FullSt cfg)))
    (hd : Chunk.R.DO cfg p.x.sink.ctl)
    (hp : PInv Gen.Syntax.table inp.length (fun d : Disp (FullSt cfg) => d.rcs) p)
    (htp : PTok Gen.Syntax.table (computeCert Gen.Syntax.table) p)
    (hph : PHead Gen.Syntax.table (headLabels Gen.Syntax.table) inp p) :
    Parser.parseSteps (genWorld cfg).env inp last p ≤ 32 * (inp.length + 1) :=
  Nat.le_trans
    (parseSteps_le_of_sim (w := genWorld cfg) (Chunk.R.cleanCtl_sim (Chunk.R.fullCtl_panicLaws_DO cfg))
      C03.C03_emitsChecked_gen inp last p hd)
    (C15.C15_linear_parse (cleanWorld cfg) C15.C15_wfLinear_gen (Chunk.R.cleanCtl_clean (fullCtl cfg)) inp last p hp htp hph)

/-- the first `parse` of every run: a fresh rewriter satisfies the hypotheses, whatever the slice -/
theorem C15_linear_parse_real_new (cfg : Cfg) (settings : Settings) (inp : Bytes) (last : Bool) :
    Parser.parseSteps (genWorld cfg).env inp last (Stream.new (genWorld cfg) (FullSt.init cfg) settings).parser
      ≤ 32 * (inp.length + 1) := by
  obtain ⟨h1, h2, h3⟩ := C15.new_parser_invs (genWorld cfg) C15.C15_wfLinear_gen (FullSt.init cfg) settings inp
  exact C15_linear_parse_real cfg inp last _ (Chunk.R.init_DO cfg) h1 h2 h3

/-- a fresh stream is the same in both worlds -/
theorem cleanWorld_new' (cfg : Cfg) (settings : Settings) :
    Stream.new (genWorld cfg) (FullSt.init cfg) settings = Stream.new (cleanWorld cfg) (FullSt.init cfg) settings :=
  congrArg Rewriter.stream (Chunk.R.new_eq (w := genWorld cfg) (Chunk.R.fullCtl_sim_prov cfg) (FullSt.init cfg)
    (Chunk.R.init_DO cfg) settings)

/-! ### across writes -/

section
variable {γ : Type} {w : World γ} {c2 : Controller γ} {D : γ → Prop} {G : Err → Prop}

/-- one `write` of a controller works at most as much as the same `write` of a controller that follows it -/
theorem writeSteps_le_of_sim (h : Chunk.R.CtlSim w.ctl c2 D G) (ht : EmitsChecked w.tbl = true) (s : Stream γ) (data : Bytes)
    (hd : D s.disp.ctl) : s.writeSteps w data ≤ s.writeSteps (Chunk.R.World.withCtl w c2) data := by
  unfold Stream.writeSteps
  rw [← Chunk.R.chunkFor_eq h]
  cases hcf : s.chunkFor w data with
  | inl s' => exact Nat.le_refl _
  | inr sc =>
    obtain ⟨s1, chunk⟩ := sc
    obtain ⟨c1, c2', c3, c4, c5⟩ := Stream.chunkFor_inr hcf
    exact parseSteps_le_of_sim h ht chunk false s1.parser (by rw [c2']; exact hd)

end

/-- **C15_work_linear_when_drained_real.** `C15_work_linear_when_drained` for the REAL controller: every configuration,
every settings record, every history of writes of the real run that leaves at most `K` bytes retained after each
successful write: the total number of state-function invocations of the history (it stops at the first failing write, as
the rewriter does) is at most `32·(|input| + (K+1)·#writes)`. No alternative: as long as the writes succeed the real run
is the cleaned run (`write_sim`), and the failing write works no more than the cleaned one. -/
theorem C15_work_linear_when_drained_real (cfg : Cfg) (settings : Settings) (K : Nat) (chunks : List Bytes)
    (hd : C15.Drained (genWorld cfg) K (Stream.new (genWorld cfg) (FullSt.init cfg) settings) chunks) :
    Stream.totalSteps (genWorld cfg) (Stream.new (genWorld cfg) (FullSt.init cfg) settings) chunks
      ≤ 32 * (chunks.flatten.length + (K + 1) * chunks.length) := by
  obtain ⟨h1, h2, h3, h4⟩ := C15.WfLinear.parts C15.C15_wfLinear_gen
  have hw := WfTable.wf h1
  have hc := Chunk.R.cleanCtl_clean (fullCtl cfg)
  have hsim := Chunk.R.cleanCtl_sim (Chunk.R.fullCtl_panicLaws_DO cfg)
  have key : ∀ (chunks : List Bytes) (s : Stream (FullSt cfg)), Chunk.R.DO cfg s.disp.ctl →
      SInv2 (cleanWorld cfg) (computeCert Gen.Syntax.table) s → SHead (cleanWorld cfg) (headLabels Gen.Syntax.table) s →
      C15.Drained (genWorld cfg) K s chunks →
      Stream.totalSteps (genWorld cfg) s chunks ≤ 32 * (s.pending.length + chunks.flatten.length + (K + 1) * chunks.length) := by
    intro chunks
    induction chunks with
    | nil => intro s _ _ _ _; simp [Stream.totalSteps]
    | cons c cs ih =>
      intro s hD hs hh hd
      have h0 := writeSteps_le_of_sim (w := genWorld cfg) hsim C03.C03_emitsChecked_gen s c hD
      have h1' := Stream.writeSteps_le (w := cleanWorld cfg) hc hw h2 h3 h4 s c hs hh
      have h1 : s.writeSteps (genWorld cfg) c ≤ 32 * (s.pending.length + c.length + 1) := Nat.le_trans h0 h1'
      simp only [Stream.totalSteps, List.flatten_cons, List.length_append, List.length_cons]
      cases hres : (s.write (genWorld cfg) c).2 with
      | error e =>
        dsimp only
        have : 32 * (s.pending.length + c.length + 1) ≤
            32 * (s.pending.length + (c.length + cs.flatten.length) + (K + 1) * (cs.length + 1)) := by
          apply Nat.mul_le_mul_left
          have : 1 ≤ (K + 1) * (cs.length + 1) := Nat.mul_pos (by omega) (by omega)
          omega
        omega
      | ok u =>
        dsimp only
        obtain ⟨d1, d2⟩ := hd hres
        rcases Chunk.R.write_sim (w := genWorld cfg) hsim C03.C03_emitsChecked_gen s c hD with ⟨he, hD'⟩ | ⟨e, _, he⟩
        · have he' : s.write (genWorld cfg) c = s.write (cleanWorld cfg) c := he
          have hres' : (s.write (cleanWorld cfg) c).2 = .ok () := by rw [← he']; exact hres
          have hs' := (Stream.write_post2 (w := cleanWorld cfg) hc hw h2 s c hs).2 hres'
          have hh' := Stream.write_head (w := cleanWorld cfg) hc hw h2 h4 s c hs hh hres'
          rw [← he'] at hs' hh'
          have h2' := ih (s.write (genWorld cfg) c).1 (hD' hres) hs' hh' d2
          have : 32 * (s.pending.length + c.length + 1) +
              32 * ((s.write (genWorld cfg) c).1.pending.length + cs.flatten.length + (K + 1) * cs.length) ≤
              32 * (s.pending.length + (c.length + cs.flatten.length) + (K + 1) * (cs.length + 1)) := by
            rw [← Nat.mul_add]
            apply Nat.mul_le_mul_left
            rw [Nat.mul_add]
            omega
          omega
        · rw [he] at hres; cases hres
  have hnew : Stream.new (genWorld cfg) (FullSt.init cfg) settings = Stream.new (cleanWorld cfg) (FullSt.init cfg) settings := by
    have := cleanWorld_new' cfg settings
    exact this
  have := key chunks (Stream.new (genWorld cfg) (FullSt.init cfg) settings) (Chunk.R.init_DO cfg)
    (by rw [hnew]; exact Stream.new_SInv2 (w := cleanWorld cfg) (cert := computeCert Gen.Syntax.table) hw h2 (FullSt.init cfg) settings)
    (by rw [hnew]; exact fun data => PHead_new _ _ _ _ _) hd
  have hp : (Stream.new (genWorld cfg) (FullSt.init cfg) settings).pending.length = 0 := by simp [Stream.new, Stream.pending]
  rw [hp] at this
  simpa using this

/-- non-vacuity: the real controller with an element closure on `div` and a text handler, `<div a=b>x</div>y` as the
last slice: the parse switches between tag scanner and lexer and really works -/
example : Parser.parseSteps (genWorld obsCfg).env sampleChunks.flatten true
    (Stream.new (genWorld obsCfg) (FullSt.init obsCfg) {}).parser = 17 := by decide +kernel

/-- non-vacuity of `C15_work_linear_when_drained_real`: the two writes of the sample leave at most one byte retained (the
`<` at the end of the first chunk), and the history costs 18 invocations -/
example : C15.Drained (genWorld obsCfg) 1 (Stream.new (genWorld obsCfg) (FullSt.init obsCfg) {}) sampleChunks := by
  simp only [C15.Drained, sampleChunks]
  decide +kernel
example : Stream.totalSteps (genWorld obsCfg) (Stream.new (genWorld obsCfg) (FullSt.init obsCfg) {}) sampleChunks = 18 := by
  decide +kernel

end LolHtml.Thm.Full
