/-
# Package `full`, part 3 — the real controller refines package scope's controller and package selvm's VM

`Model/FullEvents.lean` drives the real controller model over tag / token events the way the
dispatcher does in lexer mode (`ctlStep`). This file shows, for such protocol-conforming event
sequences:

* `Full_refines_scope_start / _start_novm / _end / _other` — every event is ONE `Controller.step` of
  package scope's model (Model/Controller.lean) on the projection `scopeState` (same dispatcher; the
  VM's stack items zipped with the controller-owned descriptors = scope's abstract stack), for the
  event made of the lower-cased name, the VM's `with_content` and the VM's match set; and the VM part of
  the event is `SelVM.Vm.handleStartTag` / `Vm.handleEndTag` (what C04's theorems are about).
* `Full_event_C05` — hence C05 transfers: the invocations of the event are the ones package scope's
  specification promises (`Spec.Scope.expected`: handler order, scoping, end-tag handlers), and scope's
  invariant (refcounts, end-tag handler relation) is maintained.
* `Full_start_no_panic`, `Full_end_no_panic`, `Full_other_no_panic`, `Full_no_panic_protocol` — along
  protocol-conforming event sequences the VM's, the dispatcher's and the glue's synchronisation
  panic branches are NOT reachable; what remains are content-handler errors and four explicitly listed
  residual sites of the glue (`Residual`).

Exclusions, precisely: (1) the events are the calls `Disp.handleTag` / `Disp.handleNonTag` make in lexer
mode; that the scanner's hints followed by the re-lexed tag amount to the same calls is C06's relex
agreement, not re-proved here (`Full_ctlClean_unattainable` shows the order of calls matters).
(2) `IdsBounded`: every match id in the compiled program is a selector index — a decidable
side-condition on the configuration (`idsBoundedB`), true by construction of `Ast::add_selector`; not
proved for all selector sets. (3) Invocations are compared up to the ghost ordinals.
-/
import LolHtml.Model.FullCtl
import LolHtml.Lemmas.FullScopeStep
import LolHtml.Lemmas.ScopeTrace
import LolHtml.Lemmas.SelTrie
import LolHtml.Thm.Full2

namespace LolHtml.Thm.Full
open LolHtml LolHtml.Model LolHtml.Model.Full LolHtml.Model.Handlers LolHtml.EditModel LolHtml.Lemmas.Full
open LolHtml.Spec.Scope (expected openStep WfEvent OpenElem)
open LolHtml.Lemmas.Scope (Inv step_refines inv_init)

/-! ## Simulation (re-exported with the invariants carried by the state type) -/

/-- **Full_refines_scope_start.** A start-tag event of the real controller (a VM exists) that ends without
error is: `SelVM.Vm.handleStartTag` on (name, namespace, the attributes handed over) — then
`start_matching` for every reported match — and it is ONE `Controller.step` of package scope's model at
ordinal `ord + 1` for the event (lower-cased name, directive with the VM's `with_content`, self-closing
flag, the VM's match set). -/
theorem Full_refines_scope_start (cfg : Cfg) (g : FullSt cfg) (vm : SelVM.Vm) (hf : g.1.fault = none)
    (hv : g.1.vm = some vm) (name : LocalName) (ns : Model.Ns) (info : AuxInfo) (aux : SelVM.AuxStartTagInfo)
    (ha : auxConv info = some aux) (nm : Bytes) (attrs : List (Bytes × Bytes × AttrOutline)) (ns' : Model.Ns)
    (sc : Bool) (raw : Bytes) (src : Range) (base : Nat)
    (hok : (ctlStep cfg g.1 (.start name ns info (.startTag nm attrs ns' sc raw src base))).2 = none) :
    ∃ vm' ms d script invs, vm.handleStartTag (selTag name ns aux) = .ok (vm', ms) ∧
      startMatchingInfos g.1.disp ms = .ok d ∧
      Controller.step script (scopeState g.1) (g.1.ord + 1) (scopeEvStart vm (selTag name ns aux) ms) =
        .ok (scopeState (ctlStep cfg g.1 (.start name ns info (.startTag nm attrs ns' sc raw src base))).1, invs) :=
  start_refines cfg g.1 vm hf hv g.2.sync g.2.wf name ns info aux ha nm attrs ns' sc raw src base hok

/-- **Full_refines_scope_end.** An end-tag event that ends without error and without fault is
`SelVM.Vm.execForEndTag` + `stop_matching` for the drained elements and ONE `Controller.step` for
`.endTag (lower-cased name)`. (`PreOk`: the `open_name_counts` pre-check agrees with the stack — package
selvm's `StackInv`, see `preOk_of_stackInv`.) -/
theorem Full_refines_scope_end (cfg : Cfg) (g : FullSt cfg) (hf : g.1.fault = none)
    (hpre : ∀ vm, g.1.vm = some vm → PreOk vm.stack) (name : LocalName) (nm raw : Bytes) (src : Range) (ord : Nat)
    (hok : (ctlStep cfg g.1 (.end_ name (.endTag nm raw src))).2 = none)
    (hnf : (ctlStep cfg g.1 (.end_ name (.endTag nm raw src))).1.fault = none) :
    ∃ script invs, Controller.step script (scopeState g.1) ord (.endTag (asciiLowerBytes (nameBytes name))) =
        .ok (scopeState (ctlStep cfg g.1 (.end_ name (.endTag nm raw src))).1, invs) :=
  end_refines cfg g.1 hf g.2.sync g.2.wf hpre name nm raw src ord hok hnf

/-- **Full_refines_scope_other.** Text / comment / doctype tokens are `Controller.step` on `.text` /
`.comment` / `.doctype`: they change neither the dispatcher nor the stack. -/
theorem Full_refines_scope_other (cfg : Cfg) (g : FullSt cfg) (hf : g.1.fault = none) (tok : Model.Token)
    (hk : (CtlEv.other tok).WellKinded) (script : ElemScript) (ord : Nat) :
    ∃ invs, Controller.step script (scopeState g.1) ord (scopeEvOther tok) =
        .ok (scopeState (ctlStep cfg g.1 (.other tok)).1, invs) :=
  other_refines cfg g.1 hf tok hk script ord

/-- the initial state projects onto package scope's initial state -/
theorem scopeState_init (cfg : Cfg) : scopeState (St.init cfg) = Controller.State.init cfg.selRegs cfg.docRegs := by
  unfold scopeState Controller.State.init Controller.Controller.fromSettings toScope St.init
  simp only [Cfg.selRegs, List.isEmpty_map]
  cases h : cfg.sels.isEmpty <;> simp [scopeStack, SelVM.Vm.new, SelVM.Stack.new]

/-! ## C05 for the events of the whole controller -/

/-- **Full_event_C05.** If package scope's invariant holds of the projection and an event of the real
controller is simulated by `Controller.step` (the `Full_refines_scope_*` theorems), then the handler
invocations of the event are exactly those package scope's specification promises for the open elements
`sp` (`Spec.Scope.expected`: which handlers, in which order — C05_order, C05_scope_*, C05_end_tag_*),
and the invariant holds again for `openStep`. -/
theorem Full_event_C05 (cfg : Cfg) (s s' : St) (sp : List OpenElem)
    (hinv : Inv cfg.selRegs cfg.docRegs sp (scopeState s)) (script : ElemScript) (ord : Nat)
    (sev : Controller.Event) (invs : List Invocation) (hwf : WfEvent cfg.selRegs.length sev)
    (hstep : Controller.step script (scopeState s) ord sev = .ok (scopeState s', invs)) :
    invs = expected cfg.selRegs cfg.docRegs sp ord sev ∧
    Inv cfg.selRegs cfg.docRegs (openStep script cfg.selRegs sp ord sev) (scopeState s') := by
  obtain ⟨s2, h2, inv2⟩ := step_refines script cfg.selRegs cfg.docRegs sp (scopeState s) ord sev hinv hwf
  rw [hstep] at h2
  simp only [Except.ok.injEq, Prod.mk.injEq] at h2
  rw [h2.1, h2.2]
  exact ⟨rfl, inv2⟩

/-! ## No panic along protocol-conforming event sequences -/

/-- every match id in the program is a selector index (`Ast::add_selector` inserts `match_id`s
`0 … n-1`; the compiler copies them) — decidable side-condition on the configuration -/
def IdsBounded (prog : SelVM.Program) (n : Nat) : Prop :=
  ∀ i ∈ prog.instructions, ∀ m ∈ i.associatedBranch.matchedIds, m < n

def idsBoundedB (prog : SelVM.Program) (n : Nat) : Bool :=
  prog.instructions.all fun i => i.associatedBranch.matchedIds.all fun m => decide (m < n)

theorem idsBounded_of_B (prog : SelVM.Program) (n : Nat) (h : idsBoundedB prog n = true) : IdsBounded prog n := by
  intro i hi m hm
  simp only [idsBoundedB, List.all_eq_true, decide_eq_true_eq] at h
  exact h i hi m hm

/-- the program `SelectorMatchingVm::new` compiles for the configuration -/
def theProgram (cfg : Cfg) : SelVM.Program := SelVM.compile (SelVM.Ast.ofSelectors (cfg.sels.map (·.1)))

/-- the invariant along protocol-conforming runs: no fault; the typing invariant; package scope's
invariant on the projection; package selvm's invariant on the VM -/
structure J (cfg : Cfg) (s : St) : Prop where
  fault : s.fault = none
  valid : Valid cfg s
  scope : ∃ sp, Inv cfg.selRegs cfg.docRegs sp (scopeState s)
  vm : ∀ vm, s.vm = some vm → vm.program = theProgram cfg ∧ ∃ ts, SelVM.SemInv vm ts (theProgram cfg).enableNthOfType

theorem J_init (cfg : Cfg) : J cfg (St.init cfg) where
  fault := rfl
  valid := ⟨init_good cfg, init_sync cfg⟩
  scope := ⟨[], by rw [scopeState_init]; exact inv_init _ _⟩
  vm := by
    intro vm hv
    unfold St.init at hv
    simp only at hv
    split at hv
    · cases hv
    · simp only [Option.some.injEq] at hv
      subst hv
      exact ⟨rfl, {}, SelVM.SemInv.init _ _⟩

/-! ### the VM never panics and reports selector indices only -/

theorem exec_some_branch (i : SelVM.Instruction) (st : SelVM.SelectorState) (n : Bytes) (m : Sel.AttributeMatcher)
    (b : SelVM.ExecutionBranch) (h : i.exec st n m = .ok (some b)) : b = i.associatedBranch := by
  unfold SelVM.Instruction.exec at h
  simp only [bind, Except.bind, pure, Except.pure] at h
  split at h
  · cases h
  · split at h
    · split at h
      · simp only [Except.ok.injEq, Option.some.injEq] at h; exact h.symm
      · simp at h
    · simp at h

theorem vm_total (cfg : Cfg) (vm : SelVM.Vm) (ts : Spec.Css.TreeState) (hp : vm.program = theProgram cfg)
    (inv : SelVM.SemInv vm ts (theProgram cfg).enableNthOfType) (t : Sel.StartTag) :
    ∃ r, vm.handleStartTag t = .ok r := by
  obtain ⟨hroot, hentry, hnth⟩ := SelVM.compile_layout (SelVM.Ast.ofSelectors (cfg.sels.map (·.1)))
    (SelVM.ofSelectors_count _)
  exact SelVM.SemInv.handleStartTag_total _ _ _ hroot hentry hnth inv hp t

theorem vm_ids_bounded (cfg : Cfg) (vm vm' : SelVM.Vm) (ts : Spec.Css.TreeState) (nth : Bool)
    (hp : vm.program = theProgram cfg) (hb : IdsBounded (theProgram cfg) cfg.sels.length)
    (inv : SelVM.SemInv vm ts nth) (t : Sel.StartTag) (ms : List SelVM.MatchInfo)
    (h : vm.handleStartTag t = .ok (vm', ms)) : ∀ i ∈ ms.map (·.matchId), i < cfg.sels.length := by
  intro i hi
  obtain ⟨hiff, _⟩ := inv.handleStartTag h
  obtain ⟨a, b, hact, hib⟩ := (hiff i).mp hi
  obtain ⟨⟨instr, hinstr, hexec⟩, _⟩ := hact
  have := exec_some_branch _ _ _ _ _ hexec
  rw [this] at hib
  rw [hp] at hinstr
  exact hb instr (List.mem_of_getElem? hinstr) i hib

theorem preOk_of_stackInv {st : SelVM.Stack} {ts : Spec.Css.TreeState} (inv : SelVM.StackInv st ts) : PreOk st := by
  intro name hany it hit
  have h0 : SelVM.cget st.openNameCounts (asciiLowerBytes name) = 0 := by
    have hk := SelVM.any_key_iff inv.countsOk (asciiLowerBytes name)
    by_cases hc : 1 ≤ SelVM.cget st.openNameCounts (asciiLowerBytes name)
    · have := hk.mpr hc; rw [hany] at this; cases this
    · omega
  rw [inv.counts] at h0
  unfold SelVM.nameKeyCount at h0
  rw [List.countP_eq_zero] at h0
  have := h0 it hit
  simp only [beq_iff_eq] at this
  cases hl : Sel.localNameEq it.localName name with
  | false => rfl
  | true => exact absurd ((SelVM.localNameEq_iff _ _).mp hl) this

/-! ### residual sites, typing invariant along events -/

def rAttr : String := "Bytes::slice out of range (attribute raw)"
def rBase : String := "token source range before the slice base"
def rPayload : String := "end-tag handler payload missing"

/-- the panic branches of the GLUE that are not excluded here: slices of the token out of range (C15's
lexeme invariant) and a missing end-tag payload (needs uniqueness of the ghost ordinals) -/
def Residual (e : Err) : Prop := e = .panic rAttr ∨ e = .panic rBase ∨ e = .panic rPayload

theorem startPhase_valid {cfg : Cfg} {s : St} (h : Valid cfg s) (name : LocalName) (ns : Model.Ns) (info : AuxInfo) :
    Valid cfg (startPhase s name ns info).1 := by
  have h1 : Valid cfg (startTag s name ns).1 := ⟨startTag_good h.toGood name ns, startTag_sync h.sync name ns⟩
  unfold startPhase
  dsimp only
  split
  · exact h1
  · exact h1
  · exact ⟨auxInfo_good h1.toGood info, auxInfo_sync h1.sync info⟩

theorem tokIf_valid {cfg : Cfg} {s : St} (h : Valid cfg s) (b : Bool) (tok : Model.Token) :
    Valid cfg (tokIf cfg b s tok).1 := by
  unfold tokIf
  split
  · exact ⟨token_good h.toGood tok, token_sync h.sync tok⟩
  · exact h

theorem ctlStep_valid {cfg : Cfg} {s : St} (h : Valid cfg s) (ev : CtlEv) : Valid cfg (ctlStep cfg s ev).1 := by
  cases ev with
  | start name ns info tok =>
    simp only [ctlStep]
    have h1 := startPhase_valid h name ns info
    split
    · exact h1
    · exact tokIf_valid h1 _ _
  | end_ name tok =>
    simp only [ctlStep]
    exact tokIf_valid ⟨endTag_good h.toGood name, endTag_sync h.sync name⟩ _ _
  | other tok =>
    simp only [ctlStep]
    exact tokIf_valid h _ _

theorem disp_handleStartTag_ok {d : Dispatcher} (hw : DispWf d) (script : ElemScript) (ord : Nat)
    (cur : Option ElementDescriptor) : ∃ r, d.handleStartTag script ord cur = .ok r := by
  obtain ⟨⟨el, invoked⟩, hel⟩ := deactivate_ok hw.element
  unfold Dispatcher.handleStartTag
  rw [hel]
  dsimp only
  split
  · split
    · split <;> exact ⟨_, rfl⟩
    · exact ⟨_, rfl⟩
  · exact ⟨_, rfl⟩

theorem tokStartTag_class (cfg : Cfg) (s : St) (hw : DispWf s.disp) (name : Bytes)
    (attrs : List (Bytes × Bytes × AttrOutline)) (ns : Model.Ns) (sc : Bool) (raw : Bytes) (src : Range) (base : Nat)
    (e : Err) (h : (tokStartTag cfg s name attrs ns sc raw src base).2.err = some e) : e = .handler ∨ Residual e := by
  unfold tokStartTag at h
  split at h
  · split at h
    · simp only [Option.some.injEq] at h; exact Or.inr (Or.inl h.symm)
    · rename_i as hm
      dsimp only at h
      generalize (if 0 < s.disp.removedContent then
        StartTag.apply { name := name, attributes := as, ns := nsEdit ns, selfClosing := sc, raw := raw } (StartTagOp.mut MutOp.remove)
        else { name := name, attributes := as, ns := nsEdit ns, selfClosing := sc, raw := raw }) = st at h
      obtain ⟨fd, _⟩ := runClosures_frame cfg.elementScripts kElement Who.element (seeElement ns) Element.applyOps src
          s.disp.element.forEachActive s (Element.new st s.disp.nextElementCanHaveContent)
      generalize runClosures cfg.elementScripts kElement Who.element (seeElement ns) Element.applyOps src
          s.disp.element.forEachActive s (Element.new st s.disp.nextElementCanHaveContent) = r at h fd
      split at h
      · simp only [Option.some.injEq] at h; exact Or.inl h.symm
      · split at h
        · rename_i p hh
          have hwr : DispWf r.1.disp := by rw [fd]; exact hw
          obtain ⟨r', hr'⟩ := disp_handleStartTag_ok hwr (fun h _ =>
            elemActOf s.disp.nextElementCanHaveContent (cyc (cfg.elementScripts h) (invGet s.inv (kElement, h))).1)
            r.1.ord r.1.currentElementData
          rw [hr'] at hh; cases hh
        · simp at h
  · simp only [Option.some.injEq] at h; exact Or.inr (Or.inr (Or.inl h.symm))

theorem tokEndTag_class (s : St) (hw : DispWf s.disp) (name raw : Bytes) (src : Range) (e : Err)
    (h : (tokEndTag s name raw src).2.err = some e) : e = .panic rPayload := by
  unfold tokEndTag at h
  obtain ⟨r, hr⟩ := removeTail_ok hw.endTag
  rw [hr] at h
  dsimp only at h
  split at h
  · simp only [Option.some.injEq] at h; exact h.symm
  · simp at h

/-! ### the events -/

theorem tokIf_start_class (cfg : Cfg) (s1 : St) (hf : s1.fault = none) (hw : DispWf s1.disp) (b : Bool)
    (nm : Bytes) (attrs : List (Bytes × Bytes × AttrOutline)) (ns' : Model.Ns) (sc : Bool) (raw : Bytes)
    (src : Range) (base : Nat) (e : Err)
    (h : (tokIf cfg b s1 (.startTag nm attrs ns' sc raw src base)).2 = some e) : e = .handler ∨ Residual e := by
  unfold tokIf at h
  split at h
  · have htok : token cfg s1 (.startTag nm attrs ns' sc raw src base) = tokStartTag cfg s1 nm attrs ns' sc raw src base := by
      unfold token; simp [hf]
    rw [htok] at h
    exact tokStartTag_class cfg s1 hw _ _ _ _ _ _ _ e h
  · simp at h

theorem tokIf_start_frame (cfg : Cfg) (s1 : St) (hf : s1.fault = none) (b : Bool)
    (nm : Bytes) (attrs : List (Bytes × Bytes × AttrOutline)) (ns' : Model.Ns) (sc : Bool) (raw : Bytes)
    (src : Range) (base : Nat) (h : (tokIf cfg b s1 (.startTag nm attrs ns' sc raw src base)).2 = none) :
    (tokIf cfg b s1 (.startTag nm attrs ns' sc raw src base)).1.fault = none ∧
    (tokIf cfg b s1 (.startTag nm attrs ns' sc raw src base)).1.vm = s1.vm := by
  unfold tokIf at h ⊢
  split
  · rename_i hb
    simp only [hb, if_true] at h
    have htok : token cfg s1 (.startTag nm attrs ns' sc raw src base) = tokStartTag cfg s1 nm attrs ns' sc raw src base := by
      unfold token; simp [hf]
    rw [htok] at h ⊢
    obtain ⟨_, _, _, _, _, e2, _, _, e5⟩ := tokStartTag_ok cfg s1 nm attrs ns' sc raw src base h
    exact ⟨by rw [e5]; exact hf, e2⟩
  · exact ⟨hf, rfl⟩

/-- **Full_start_no_panic.** A start-tag event from a state satisfying `J` (a VM exists, the attributes
handed over are sliceable): either it ends without error in a state satisfying `J` again, or it fails
with a content-handler error or at a residual glue site — never in the VM, never in the dispatcher's
locator / match-id / refcount branches. -/
theorem Full_start_no_panic (cfg : Cfg) (s : St) (hJ : J cfg s)
    (hb : IdsBounded (theProgram cfg) cfg.sels.length) (vm : SelVM.Vm) (hv : s.vm = some vm)
    (name : LocalName) (ns : Model.Ns) (info : AuxInfo) (aux : SelVM.AuxStartTagInfo) (ha : auxConv info = some aux)
    (nm : Bytes) (attrs : List (Bytes × Bytes × AttrOutline)) (ns' : Model.Ns) (sc : Bool) (raw : Bytes)
    (src : Range) (base : Nat) :
    ((ctlStep cfg s (.start name ns info (.startTag nm attrs ns' sc raw src base))).2 = none →
      J cfg (ctlStep cfg s (.start name ns info (.startTag nm attrs ns' sc raw src base))).1 ∧
      ∃ vm' ms, vm.handleStartTag (selTag name ns aux) = .ok (vm', ms) ∧
        (ctlStep cfg s (.start name ns info (.startTag nm attrs ns' sc raw src base))).1.vm = some vm') ∧
    (∀ e, (ctlStep cfg s (.start name ns info (.startTag nm attrs ns' sc raw src base))).2 = some e →
      e = .handler ∨ Residual e) := by
  obtain ⟨hprog, ts, hsem⟩ := hJ.vm vm hv
  obtain ⟨sp, hinv⟩ := hJ.scope
  obtain ⟨⟨vm', ms⟩, hh⟩ := vm_total cfg vm ts hprog hsem (selTag name ns aux)
  have hids := vm_ids_bounded cfg vm vm' ts _ hprog hb hsem _ ms hh
  have hwf : WfEvent cfg.selRegs.length (scopeEvStart vm (selTag name ns aux) ms) := by
    simp only [scopeEvStart, WfEvent, Cfg.selRegs, List.length_map]
    exact hids
  -- package scope's step succeeds, so `start_matching` does
  obtain ⟨matched, hms, heq⟩ := toScope_handleStartTag s vm vm' hv hJ.valid.sync (selTag name ns aux) ms hh (s.ord + 1)
  have hmatched : ms.map (·.matchId) = matched := by rw [hms]; simp [Function.comp_def]
  have hsm : ∃ d, startMatchingInfos s.disp ms = .ok d := by
    obtain ⟨s2, h2, _⟩ := step_refines (fun _ _ => ⟨0, false, false⟩) cfg.selRegs cfg.docRegs sp (scopeState s)
      (s.ord + 1) (scopeEvStart vm (selTag name ns aux) ms) hinv hwf
    cases hm : startMatchingInfos s.disp ms with
    | ok d => exact ⟨d, rfl⟩
    | error p =>
      exfalso
      simp only [Controller.step, scopeEvStart, scopeState, hmatched] at h2
      rw [heq, hm] at h2
      simp [Except.map] at h2
  obtain ⟨d, hm⟩ := hsm
  have spec := startPhase_spec s vm hJ.fault hv name ns info aux ha
  rw [hh] at spec
  simp only [hm] at spec
  have hs1f : (afterStart s vm vm' d).fault = none := hJ.fault
  have hs1w : DispWf (afterStart s vm vm' d).disp := (startMatchingInfos_good ms hm hJ.valid.wf).1
  have hstep : ctlStep cfg s (.start name ns info (.startTag nm attrs ns' sc raw src base)) =
      tokIf cfg (convFlags d.getTokenCaptureFlags).nextStartTag (afterStart s vm vm' d)
        (.startTag nm attrs ns' sc raw src base) := by
    simp only [ctlStep, spec]
  constructor
  · intro hok
    have hok' := hok
    rw [hstep] at hok'
    obtain ⟨hfault, hvm⟩ := tokIf_start_frame cfg _ hs1f _ nm attrs ns' sc raw src base hok'
    refine ⟨⟨by rw [hstep]; exact hfault, ctlStep_valid hJ.valid _, ?_, ?_⟩, vm', ms, hh, by rw [hstep, hvm]; rfl⟩
    · obtain ⟨vm2, ms2, d2, script, invs, hh2, _, hsim⟩ := start_refines cfg s vm hJ.fault hv hJ.valid.sync hJ.valid.wf
        name ns info aux ha nm attrs ns' sc raw src base hok
      rw [hh] at hh2
      simp only [Except.ok.injEq, Prod.mk.injEq] at hh2
      rw [← hh2.2] at hsim
      exact ⟨_, (Full_event_C05 cfg s _ sp hinv script _ _ invs hwf hsim).2⟩
    · intro vmx hvx
      rw [hstep, hvm] at hvx
      simp only [afterStart, Option.some.injEq] at hvx
      subst hvx
      obtain ⟨_, _, hp', _, hsem'⟩ := hsem.handleStartTag hh
      exact ⟨hp'.trans hprog, _, hsem'⟩
  · intro e he
    rw [hstep] at he
    exact tokIf_start_class cfg _ hs1f hs1w _ nm attrs ns' sc raw src base e he

/-- **Full_start_no_panic_novm.** The same without selectors (no VM). -/
theorem Full_start_no_panic_novm (cfg : Cfg) (s : St) (hJ : J cfg s) (hv : s.vm = none)
    (name : LocalName) (ns : Model.Ns) (info : AuxInfo)
    (nm : Bytes) (attrs : List (Bytes × Bytes × AttrOutline)) (ns' : Model.Ns) (sc : Bool) (raw : Bytes)
    (src : Range) (base : Nat) :
    ((ctlStep cfg s (.start name ns info (.startTag nm attrs ns' sc raw src base))).2 = none →
      J cfg (ctlStep cfg s (.start name ns info (.startTag nm attrs ns' sc raw src base))).1) ∧
    (∀ e, (ctlStep cfg s (.start name ns info (.startTag nm attrs ns' sc raw src base))).2 = some e →
      e = .handler ∨ Residual e) := by
  obtain ⟨sp, hinv⟩ := hJ.scope
  have hstep : ctlStep cfg s (.start name ns info (.startTag nm attrs ns' sc raw src base)) =
      tokIf cfg s.flags.nextStartTag { s with ord := s.ord + 1 } (.startTag nm attrs ns' sc raw src base) := by
    simp only [ctlStep, startPhase_novm s hJ.fault hv]
  have hs1f : ({ s with ord := s.ord + 1 } : St).fault = none := hJ.fault
  constructor
  · intro hok
    have hok' := hok
    rw [hstep] at hok'
    obtain ⟨hfault, hvm⟩ := tokIf_start_frame cfg _ hs1f _ nm attrs ns' sc raw src base hok'
    refine ⟨by rw [hstep]; exact hfault, ctlStep_valid hJ.valid _, ?_, ?_⟩
    · obtain ⟨script, invs, hsim⟩ := start_refines_novm cfg s hJ.fault hv hJ.valid.sync hJ.valid.wf name ns info
        nm attrs ns' sc raw src base (.startTag [] .push false []) ⟨_, _, _, _, rfl⟩ hok
      exact ⟨_, (Full_event_C05 cfg s _ sp hinv script _ _ invs (by simp [WfEvent]) hsim).2⟩
    · intro vmx hvx
      rw [hstep, hvm] at hvx
      simp only at hvx
      rw [hv] at hvx; cases hvx
  · intro e he
    rw [hstep] at he
    exact tokIf_start_class cfg _ hs1f hJ.valid.wf _ nm attrs ns' sc raw src base e he

/-- **Full_end_no_panic.** An end-tag event from a state satisfying `J`: either it ends without error in a
state satisfying `J` again (in particular NO fault was recorded: `pop_up_to`'s count bookkeeping, every
`dec_user_count`, the end-tag handler locators and `matched_elements_with_removed_content -= 1` were
all in range), or it fails at the residual "payload missing" site (`rPayload`). -/
theorem Full_end_no_panic (cfg : Cfg) (s : St) (hJ : J cfg s) (name : LocalName) (nm raw : Bytes) (src : Range) :
    ((ctlStep cfg s (.end_ name (.endTag nm raw src))).2 = none →
      J cfg (ctlStep cfg s (.end_ name (.endTag nm raw src))).1 ∧
      ∀ vm, s.vm = some vm → ∃ vm', vm.handleEndTag (nameBytes name) = .ok vm' ∧
        (ctlStep cfg s (.end_ name (.endTag nm raw src))).1.vm = some vm') ∧
    (∀ e, (ctlStep cfg s (.end_ name (.endTag nm raw src))).2 = some e → e = .panic rPayload) := by
  obtain ⟨sp, hinv⟩ := hJ.scope
  have hpre : ∀ vm, s.vm = some vm → PreOk vm.stack := by
    intro vm hv
    obtain ⟨_, ts, hsem⟩ := hJ.vm vm hv
    exact preOk_of_stackInv hsem.stack
  -- the controller part succeeds without fault
  obtain ⟨s2, h2, _⟩ := step_refines (fun _ _ => ⟨0, false, false⟩) cfg.selRegs cfg.docRegs sp (scopeState s) s.ord
    (.endTag (asciiLowerBytes (nameBytes name))) hinv (by simp [WfEvent])
  have hctl : ∃ s1, endTag s name = (s1, s1.flags) ∧ s1.fault = none ∧ DispWf s1.disp ∧
      (∀ vmx, s1.vm = some vmx → vmx.program = theProgram cfg ∧ ∃ ts, SelVM.SemInv vmx ts (theProgram cfg).enableNthOfType) ∧
      (∀ vm, s.vm = some vm → ∃ vm', vm.handleEndTag (nameBytes name) = .ok vm' ∧ s1.vm = some vm') := by
    unfold endTag
    cases hv : s.vm with
    | none =>
      exact ⟨s, by simp, hJ.fault, hJ.valid.wf, (fun vmx hx => by rw [hv] at hx; cases hx), (fun vm h => by cases h)⟩
    | some vm =>
      obtain ⟨hprog, ts, hsem⟩ := hJ.vm vm hv
      obtain ⟨vm1, he1, hp1, _, hsem1⟩ := hsem.handleEndTag (nameBytes name)
      have hex : ∃ popped, vm.execForEndTag (nameBytes name) = .ok (vm1, popped) := by
        unfold SelVM.Vm.handleEndTag at he1
        simp only [bind, Except.bind, pure, Except.pure] at he1
        split at he1
        · cases he1
        · rename_i r hr
          simp only [Except.ok.injEq] at he1
          exact ⟨r.2, by rw [hr, ← he1]⟩
      obtain ⟨popped, he⟩ := hex
      obtain ⟨hle, heq⟩ := toScope_handleEndTag s vm vm1 hv hJ.valid.sync (hpre vm hv) (nameBytes name) popped he
      simp only [he, hle, if_true]
      cases hsm : stopMatchingPopped s.disp popped (s.descs.drop (s.descs.length - popped.length)) with
      | error p =>
        exfalso
        simp only [Controller.step, scopeState] at h2
        rw [heq, hsm] at h2
        simp [Except.map] at h2
      | ok d =>
        refine ⟨_, rfl, hJ.fault, (stopMatchingPopped_good _ _ hsm hJ.valid.wf).1, ?_, ?_⟩
        · intro vmx hx
          simp only [Option.some.injEq] at hx
          subst hx
          exact ⟨hp1.trans hprog, _, hsem1⟩
        · intro vm0 h0
          simp only [Option.some.injEq] at h0
          subst h0
          exact ⟨vm1, he1, rfl⟩
  obtain ⟨s1, he1, hf1, hw1, hvm1, hvmrun⟩ := hctl
  have hstep : ctlStep cfg s (.end_ name (.endTag nm raw src)) = tokIf cfg s1.flags.nextEndTag s1 (.endTag nm raw src) := by
    simp only [ctlStep, he1]
  have htok : token cfg s1 (.endTag nm raw src) = tokEndTag s1 nm raw src := by
    unfold token; simp [hf1]
  constructor
  · intro hok
    have hframe : (tokIf cfg s1.flags.nextEndTag s1 (.endTag nm raw src)).1.fault = none ∧
        (tokIf cfg s1.flags.nextEndTag s1 (.endTag nm raw src)).1.vm = s1.vm := by
      rw [hstep] at hok
      unfold tokIf at hok ⊢
      split
      · rename_i hb
        simp only [hb, if_true] at hok
        rw [htok] at hok ⊢
        obtain ⟨_, _, _, _, e2, _, _, e5⟩ := tokEndTag_ok s1 nm raw src hok
        exact ⟨by rw [e5]; exact hf1, e2⟩
      · exact ⟨hf1, rfl⟩
    have hnf : (ctlStep cfg s (.end_ name (.endTag nm raw src))).1.fault = none := by rw [hstep]; exact hframe.1
    refine ⟨⟨hnf, ctlStep_valid hJ.valid _, ?_, ?_⟩, ?_⟩
    · obtain ⟨script, invs, hsim⟩ := end_refines cfg s hJ.fault hJ.valid.sync hJ.valid.wf hpre name nm raw src s.ord hok hnf
      exact ⟨_, (Full_event_C05 cfg s _ sp hinv script _ _ invs (by simp [WfEvent]) hsim).2⟩
    · intro vmx hvx
      rw [hstep, hframe.2] at hvx
      exact hvm1 vmx hvx
    · intro vm0 h0
      obtain ⟨vm', a, b⟩ := hvmrun vm0 h0
      exact ⟨vm', a, by rw [hstep, hframe.2]; exact b⟩
  · intro e he
    rw [hstep] at he
    unfold tokIf at he
    split at he
    · rw [htok] at he
      exact tokEndTag_class s1 hw1 _ _ _ e he
    · simp at he

/-- **Full_other_no_panic.** A text / comment / doctype token from a state satisfying `J`: `J` again, or a
content-handler error. -/
theorem Full_other_no_panic (cfg : Cfg) (s : St) (hJ : J cfg s) (tok : Model.Token) (hk : (CtlEv.other tok).WellKinded) :
    ((ctlStep cfg s (.other tok)).2 = none → J cfg (ctlStep cfg s (.other tok)).1) ∧
    (∀ e, (ctlStep cfg s (.other tok)).2 = some e → e = .handler) := by
  have hframe : (ctlStep cfg s (.other tok)).1.fault = none ∧ scopeState (ctlStep cfg s (.other tok)).1 = scopeState s ∧
      (ctlStep cfg s (.other tok)).1.vm = s.vm := by
    simp only [ctlStep]
    unfold tokIf
    split
    · obtain ⟨a, b, c, _, e⟩ := tokOther_frame cfg s tok hk hJ.fault
      exact ⟨by rw [e]; exact hJ.fault, scopeState_congr a b c, b⟩
    · exact ⟨hJ.fault, rfl, rfl⟩
  constructor
  · intro _
    refine ⟨hframe.1, ctlStep_valid hJ.valid _, by rw [hframe.2.1]; exact hJ.scope, ?_⟩
    intro vmx hvx
    rw [hframe.2.2] at hvx
    exact hJ.vm vmx hvx
  · intro e he
    simp only [ctlStep] at he
    unfold tokIf at he
    split at he
    · simp only at he
      have hf := hJ.fault
      unfold token at he
      simp only [hf] at he
      cases tok with
      | startTag => simp [CtlEv.WellKinded] at hk
      | endTag => simp [CtlEv.WellKinded] at hk
      | comment text raw src =>
        simp only [tokComment, outOf] at he
        split at he
        · simp only [Option.some.injEq] at he; exact he.symm
        · simp at he
      | doctype name publicId systemId fq raw src =>
        simp only [tokDoctype, outOf] at he
        split at he
        · simp only [Option.some.injEq] at he; exact he.symm
        · simp at he
      | text bytes tt last src =>
        simp only [tokText, outOf] at he
        split at he
        · simp only [Option.some.injEq] at he; exact he.symm
        · simp at he
    · simp at he

/-! ### whole event sequences -/

/-- the event is well-kinded and the attributes handed over with a start tag are sliceable -/
def EvOk : CtlEv → Prop
  | .start n ns info tok => (∃ aux, auxConv info = some aux) ∧ (CtlEv.start n ns info tok).WellKinded
  | e => e.WellKinded

theorem ctlStep_no_panic (cfg : Cfg) (hb : IdsBounded (theProgram cfg) cfg.sels.length) (s : St) (hJ : J cfg s)
    (ev : CtlEv) (hev : EvOk ev) :
    ((ctlStep cfg s ev).2 = none → J cfg (ctlStep cfg s ev).1) ∧
    (∀ e, (ctlStep cfg s ev).2 = some e → e = .handler ∨ Residual e) := by
  cases ev with
  | start name ns info tok =>
    obtain ⟨⟨aux, ha⟩, hk⟩ := hev
    cases tok with
    | startTag nm attrs ns' sc raw src base =>
      cases hv : s.vm with
      | none => exact Full_start_no_panic_novm cfg s hJ hv name ns info nm attrs ns' sc raw src base
      | some vm =>
        obtain ⟨h1, h2⟩ := Full_start_no_panic cfg s hJ hb vm hv name ns info aux ha nm attrs ns' sc raw src base
        exact ⟨fun h => (h1 h).1, h2⟩
    | endTag => simp [CtlEv.WellKinded] at hk
    | comment => simp [CtlEv.WellKinded] at hk
    | doctype => simp [CtlEv.WellKinded] at hk
    | text => simp [CtlEv.WellKinded] at hk
  | end_ name tok =>
    cases tok with
    | endTag nm raw src =>
      obtain ⟨h1, h2⟩ := Full_end_no_panic cfg s hJ name nm raw src
      exact ⟨fun h => (h1 h).1, fun e he => Or.inr (Or.inr (Or.inr (h2 e he)))⟩
    | startTag => simp [EvOk, CtlEv.WellKinded] at hev
    | comment => simp [EvOk, CtlEv.WellKinded] at hev
    | doctype => simp [EvOk, CtlEv.WellKinded] at hev
    | text => simp [EvOk, CtlEv.WellKinded] at hev
  | other tok =>
    obtain ⟨h1, h2⟩ := Full_other_no_panic cfg s hJ tok hev
    exact ⟨h1, fun e he => Or.inl (h2 e he)⟩

theorem ctlSteps_no_panic (cfg : Cfg) (hb : IdsBounded (theProgram cfg) cfg.sels.length) (evs : List CtlEv) :
    ∀ (s : St), J cfg s → (∀ e ∈ evs, EvOk e) →
    ((ctlSteps cfg s evs).2 = none → J cfg (ctlSteps cfg s evs).1) ∧
    (∀ e, (ctlSteps cfg s evs).2 = some e → e = .handler ∨ Residual e) := by
  induction evs with
  | nil => intro s hJ _; exact ⟨fun _ => hJ, fun e he => by simp [ctlSteps] at he⟩
  | cons ev evs ih =>
    intro s hJ hev
    obtain ⟨h1, h2⟩ := ctlStep_no_panic cfg hb s hJ ev (hev ev (by simp))
    simp only [ctlSteps]
    cases hr : (ctlStep cfg s ev).2 with
    | some err =>
      simp only
      exact ⟨fun h => by simp at h, fun e he => by simp only [Option.some.injEq] at he; rw [← he]; exact h2 err hr⟩
    | none =>
      simp only
      exact ih _ (h1 hr) (fun e he => hev e (by simp [he]))

/-- **Full_no_panic_protocol.** From the initial state of ANY configuration (mutating and failing
scripts included) whose compiled program only carries selector indices as match ids, along ANY sequence
of tag / token events delivered the way the dispatcher delivers them (`ctlSteps`): the run either
completes — and then no fault was recorded and package scope's and package selvm's invariants hold —
or stops with a content-handler error or at one of the three residual glue sites (`Residual`). No VM
panic (`typedCounterMissing`, `instrIndex`, `openNameCountUnderflow`), no dispatcher panic
(`badLocator`, `badMatchId`, `itemUnderflow`, `totalUnderflow`, `tailNotDrained`, `removedUnderflow`),
no stack / descriptor desynchronisation, no "vm req without vm". -/
theorem Full_no_panic_protocol (cfg : Cfg) (hb : IdsBounded (theProgram cfg) cfg.sels.length)
    (evs : List CtlEv) (hev : ∀ e ∈ evs, EvOk e) :
    ((ctlSteps cfg (St.init cfg) evs).2 = none → J cfg (ctlSteps cfg (St.init cfg) evs).1) ∧
    (∀ e, (ctlSteps cfg (St.init cfg) evs).2 = some e → e = .handler ∨ Residual e) :=
  ctlSteps_no_panic cfg hb evs _ (J_init cfg) hev


/-! ### the VM along a run: package selvm's `Vm.step` (C04) -/

/-- the tag event package selvm sees -/
def selEvOf : CtlEv → Option Sel.Event
  | .start name ns info _ => (auxConv info).map fun aux => .start (selTag name ns aux)
  | .end_ name _ => some (.end_ (nameBytes name))
  | .other _ => none

/-- package selvm's VM over a tag-event sequence (`Vm.step`, the function `Vm.runAux` /
`runSelectors` iterate) -/
def vmRun (vm : SelVM.Vm) : List Sel.Event → Except SelVM.Panic SelVM.Vm
  | [] => .ok vm
  | e :: es =>
    match vm.step e with
    | .ok r => vmRun r.1 es
    | .error p => .error p

/-- **Full_vm_run.** Along a protocol-conforming event sequence that ends without error, the VM inside the
real controller goes through exactly the states of package selvm's `Vm.step` on the extracted tag events
(names as handed over, the VM's namespace, the attributes handed over). C04's theorems
(`C04_vm_refines_css`, `C04_vm_never_panics`, `C04_independence`, …) are about this iteration. -/
theorem Full_vm_run (cfg : Cfg) (hb : IdsBounded (theProgram cfg) cfg.sels.length) (evs : List CtlEv) :
    ∀ (s : St) (vm : SelVM.Vm), J cfg s → s.vm = some vm → (∀ e ∈ evs, EvOk e) →
      (ctlSteps cfg s evs).2 = none →
      ∃ vm', vmRun vm (evs.filterMap selEvOf) = .ok vm' ∧ (ctlSteps cfg s evs).1.vm = some vm' := by
  induction evs with
  | nil => intro s vm _ hv _ _; exact ⟨vm, rfl, hv⟩
  | cons ev evs ih =>
    intro s vm hJ hv hev hok
    have hev0 := hev ev (by simp)
    simp only [ctlSteps] at hok ⊢
    cases hr : (ctlStep cfg s ev).2 with
    | some err => simp [hr] at hok
    | none =>
      simp only [hr] at hok ⊢
      obtain ⟨hJ1, _⟩ := ctlStep_no_panic cfg hb s hJ ev hev0
      have hJ' := hJ1 hr
      have hrest := fun vm1 (h1 : (ctlStep cfg s ev).1.vm = some vm1) =>
        ih (ctlStep cfg s ev).1 vm1 hJ' h1 (fun e he => hev e (by simp [he])) hok
      cases ev with
      | start name ns info tok =>
        obtain ⟨⟨aux, ha⟩, hk⟩ := hev0
        cases tok with
        | startTag nm attrs ns' sc raw src base =>
          obtain ⟨h1, _⟩ := Full_start_no_panic cfg s hJ hb vm hv name ns info aux ha nm attrs ns' sc raw src base
          obtain ⟨_, vm1, ms, hh, hvm1⟩ := h1 hr
          obtain ⟨vm', hrun, hfin⟩ := hrest vm1 hvm1
          refine ⟨vm', ?_, hfin⟩
          simp only [List.filterMap_cons, selEvOf, ha, Option.map_some, vmRun, SelVM.Vm.step, hh]
          exact hrun
        | endTag => simp [CtlEv.WellKinded] at hk
        | comment => simp [CtlEv.WellKinded] at hk
        | doctype => simp [CtlEv.WellKinded] at hk
        | text => simp [CtlEv.WellKinded] at hk
      | end_ name tok =>
        cases tok with
        | endTag nm raw src =>
          obtain ⟨h1, _⟩ := Full_end_no_panic cfg s hJ name nm raw src
          obtain ⟨_, hvmrun⟩ := h1 hr
          obtain ⟨vm1, hh, hvm1⟩ := hvmrun vm hv
          obtain ⟨vm', hrun, hfin⟩ := hrest vm1 hvm1
          refine ⟨vm', ?_, hfin⟩
          simp only [List.filterMap_cons, selEvOf, vmRun, SelVM.Vm.step, hh, bind, Except.bind, pure, Except.pure]
          exact hrun
        | startTag => simp [EvOk, CtlEv.WellKinded] at hev0
        | comment => simp [EvOk, CtlEv.WellKinded] at hev0
        | doctype => simp [EvOk, CtlEv.WellKinded] at hev0
        | text => simp [EvOk, CtlEv.WellKinded] at hev0
      | other tok =>
        have hvm1 : (ctlStep cfg s (.other tok)).1.vm = some vm := by
          simp only [ctlStep]
          unfold tokIf
          split
          · obtain ⟨_, b, _⟩ := tokOther_frame cfg s tok hev0 hJ.fault
            rw [b]; exact hv
          · exact hv
        obtain ⟨vm', hrun, hfin⟩ := hrest vm hvm1
        exact ⟨vm', by rw [List.filterMap_cons_none (by rfl)]; exact hrun, hfin⟩

/-- **Full statement** (NOT proved): `IdsBounded` for every selector set. `Ast::add_selector` only inserts the
registration index, and the compiler copies node ids into instructions; the proof is an induction over
`insertPath` and `compileNode` that was not done. It is a decidable side-condition (`idsBoundedB`). -/
def Full_idsBounded_statement : Prop :=
  ∀ cfg : Cfg, IdsBounded (theProgram cfg) cfg.sels.length

/-- **Full statement** (NOT proved): the calls the core dispatcher makes on the controller during a run of
the whole model are a protocol-conforming event sequence, also in tag-scanner mode (hint, then the
re-lexed tag) — this is C06's relex agreement for BOTH start- and end-tag hints plus a trace argument
through `Parser.parse`. With it `Full_no_panic_protocol` gives `Full_no_panic_statement` up to the
residual sites. -/
def Full_protocol_statement : Prop :=
  ∀ (cfg : Cfg) (settings : Settings) (chunks : List Bytes),
    ∃ evs : List CtlEv, (∀ e ∈ evs, e.WellKinded) ∧
      ((C01.run (fullWorld Gen.Syntax.table Gen.Tags.cfg cfg)
          (C01.Rewriter.new (fullWorld Gen.Syntax.table Gen.Tags.cfg cfg) (FullSt.init cfg) settings) chunks).1.stream.disp.ctl.1.disp =
        (ctlSteps cfg (St.init cfg) evs).1.disp)

/-! ### instances -/

example : idsBoundedB (theProgram obsCfg) obsCfg.sels.length = true := by decide
example : idsBoundedB (theProgram auxCfg) auxCfg.sels.length = true := by decide
example : idsBoundedB (theProgram hazardCfg) hazardCfg.sels.length = true := by decide

/-- non-vacuity: `<div a=b>` (selector `[a]`: the InfoRequest path; `set_attribute` + `after`) … `</div>`
as three protocol events end without error -/
def sampleEvs : List CtlEv :=
  [.start (.bytes [100, 105, 118]) .html ⟨[60,100,105,118,32,97,61,98,62], [⟨⟨5,6⟩, ⟨7,8⟩, ⟨5,8⟩⟩], false⟩
      (.startTag [100,105,118] [([97], [98], ⟨⟨5,6⟩, ⟨7,8⟩, ⟨5,8⟩⟩)] .html false [60,100,105,118,32,97,61,98,62] ⟨0,9⟩ 0),
   .other (.text [120] .data false ⟨9,10⟩),
   .end_ (.bytes [100, 105, 118]) (.endTag [100,105,118] [60,47,100,105,118,62] ⟨10,16⟩)]

example : (ctlSteps auxCfg (St.init auxCfg) sampleEvs).2 = none := by decide +kernel
example : ((ctlSteps auxCfg (St.init auxCfg) sampleEvs).1.log.map (·.who)) = [.element 0] := by decide +kernel

end LolHtml.Thm.Full
