/-
# Package `full`, part 3 — the real controller refines package scope's controller and package selvm's VM

`Model/FullEvents.lean` drives the real controller model over tag / token events the way the
dispatcher does in lexer mode (`ctlStep`). This file shows, for such protocol-conforming event
sequences:

* `Full_refines_scope_start / _start_novm / _end / _other` — every event is ONE `Controller.step` of
  package scope's model (Model/Controller.lean) on the projection `scopeState` (same dispatcher; the
  VM's stack items zipped with the controller-owned descriptors = scope's abstract stack), for the
  event made of the lower-cased name, the VM's `with_content` and the VM's match set; and the VM part of
  the event is `SelVM.Vm.handleStartTag` / `Vm.handleEndTag` (what C04's theorems are about).
* `Full_event_C05` — hence C05 transfers: the invocations of the event are the ones package scope's
  specification promises (`Spec.Scope.expected`: handler order, scoping, end-tag handlers), and scope's
  invariant (refcounts, end-tag handler relation) is maintained.
* `Full_start_no_panic`, `Full_end_no_panic`, `Full_other_no_panic`, `Full_no_panic_protocol` — along
  protocol-conforming event sequences the VM's, the dispatcher's and the glue's synchronisation
  panic branches are NOT reachable; what remains are content-handler errors and four explicitly listed
  residual sites of the glue (`Residual`).

Exclusions, precisely: (1) the events are the calls `Disp.handleTag` / `Disp.handleNonTag` make in lexer
mode; that the scanner's hints followed by the re-lexed tag amount to the same calls is C06's relex
agreement, not re-proved here (`Full_ctlClean_unattainable` shows the order of calls matters).
(2) `IdsBounded`: every match id in the compiled program is a selector index — a decidable
side-condition on the configuration (`idsBoundedB`), true by construction of `Ast::add_selector`; not
proved for all selector sets. (3) Invocations are compared up to the ghost ordinals.
-/
import LolHtml.Model.FullCtl
import LolHtml.Lemmas.FullScopeStep
import LolHtml.Lemmas.ScopeTrace
import LolHtml.Lemmas.SelTrie
import LolHtml.Thm.Full2

namespace LolHtml.Thm.Full
open LolHtml LolHtml.Model LolHtml.Model.Full LolHtml.Model.Handlers LolHtml.EditModel LolHtml.Lemmas.Full
open LolHtml.Spec.Scope (expected openStep WfEvent OpenElem)
open LolHtml.Lemmas.Scope (Inv step_refines inv_init)

/-! ## Simulation (re-exported with the invariants carried by the state type) -/

/-- **Full_refines_scope_start.** A start-tag event of the real controller (a VM exists) that ends without
error is: `SelVM.Vm.handleStartTag` on (name, namespace, the attributes handed over) — then
`start_matching` for every reported match — and it is ONE `Controller.step` of package scope's model at
ordinal `ord + 1` for the event (lower-cased name, directive with the VM's `with_content`, self-closing
flag, the VM's match set). -/
theorem Full_refines_scope_start (cfg : Cfg) (g : FullSt cfg) (vm : SelVM.Vm) (hf : g.1.fault = none)
    (hv : g.1.vm = some vm) (name : LocalName) (ns : Model.Ns) (info : AuxInfo) (aux : SelVM.AuxStartTagInfo)
    (ha : auxConv info = some aux) (nm : Bytes) (attrs : List (Bytes × Bytes × AttrOutline)) (ns' : Model.Ns)
    (sc : Bool) (raw : Bytes) (src : Range) (base : Nat)
    (hok : (ctlStep cfg g.1 (.start name ns info (.startTag nm attrs ns' sc raw src base))).2 = none) :
    ∃ vm' ms d script invs, vm.handleStartTag (selTag name ns aux) = .ok (vm', ms) ∧
      startMatchingInfos g.1.disp ms = .ok d ∧
      Controller.step script (scopeState g.1) (g.1.ord + 1) (scopeEvStart vm (selTag name ns aux) ms) =
        .ok (scopeState (ctlStep cfg g.1 (.start name ns info (.startTag nm attrs ns' sc raw src base))).1, invs) :=
  start_refines cfg g.1 vm hf hv g.2.sync g.2.wf name ns info aux ha nm attrs ns' sc raw src base hok

/-- **Full_refines_scope_end.** An end-tag event that ends without error and without fault is
`SelVM.Vm.execForEndTag` + `stop_matching` for the drained elements and ONE `Controller.step` for
`.endTag (lower-cased name)`. (`PreOk`: the `open_name_counts` pre-check agrees with the stack — package
selvm's `StackInv`, see `preOk_of_stackInv`.) -/
theorem Full_refines_scope_end (cfg : Cfg) (g : FullSt cfg) (hf : g.1.fault = none)
    (hpre : ∀ vm, g.1.vm = some vm → PreOk vm.stack) (name : LocalName) (nm raw : Bytes) (src : Range) (ord : Nat)
    (hok : (ctlStep cfg g.1 (.end_ name (.endTag nm raw src))).2 = none)
    (hnf : (ctlStep cfg g.1 (.end_ name (.endTag nm raw src))).1.fault = none) :
    ∃ script invs, Controller.step script (scopeState g.1) ord (.endTag (asciiLowerBytes (nameBytes name))) =
        .ok (scopeState (ctlStep cfg g.1 (.end_ name (.endTag nm raw src))).1, invs) :=
  end_refines cfg g.1 hf g.2.sync g.2.wf hpre name nm raw src ord hok hnf

/-- **Full_refines_scope_other.** Text / comment / doctype tokens are `Controller.step` on `.text` /
`.comment` / `.doctype`: they change neither the dispatcher nor the stack. -/
theorem Full_refines_scope_other (cfg : Cfg) (g : FullSt cfg) (hf : g.1.fault = none) (tok : Model.Token)
    (hk : (CtlEv.other tok).WellKinded) (script : ElemScript) (ord : Nat) :
    ∃ invs, Controller.step script (scopeState g.1) ord (scopeEvOther tok) =
        .ok (scopeState (ctlStep cfg g.1 (.other tok)).1, invs) :=
  other_refines cfg g.1 hf tok hk script ord

/-- the initial state projects onto package scope's initial state -/
theorem scopeState_init (cfg : Cfg) : scopeState (St.init cfg) = Controller.State.init cfg.selRegs cfg.docRegs := by
  unfold scopeState Controller.State.init Controller.Controller.fromSettings toScope St.init
  simp only [Cfg.selRegs, List.isEmpty_map]
  cases h : cfg.sels.isEmpty <;> simp [scopeStack, SelVM.Vm.new, SelVM.Stack.new]

/-! ## C05 for the events of the whole controller -/

/-- **Full_event_C05.** If package scope's invariant holds of the projection and an event of the real
controller is simulated by `Controller.step` (the `Full_refines_scope_*` theorems), then the handler
invocations of the event are exactly those package scope's specification promises for the open elements
`sp` (`Spec.Scope.expected`: which handlers, in which order — C05_order, C05_scope_*, C05_end_tag_*),
and the invariant holds again for `openStep`. -/
theorem Full_event_C05 (cfg : Cfg) (s s' : St) (sp : List OpenElem)
    (hinv : Inv cfg.selRegs cfg.docRegs sp (scopeState s)) (script : ElemScript) (ord : Nat)
    (sev : Controller.Event) (invs : List Invocation) (hwf : WfEvent cfg.selRegs.length sev)
    (hstep : Controller.step script (scopeState s) ord sev = .ok (scopeState s', invs)) :
    invs = expected cfg.selRegs cfg.docRegs sp ord sev ∧
    Inv cfg.selRegs cfg.docRegs (openStep script cfg.selRegs sp ord sev) (scopeState s') := by
  obtain ⟨s2, h2, inv2⟩ := step_refines script cfg.selRegs cfg.docRegs sp (scopeState s) ord sev hinv hwf
  rw [hstep] at h2
  simp only [Except.ok.injEq, Prod.mk.injEq] at h2
  rw [h2.1, h2.2]
  exact ⟨rfl, inv2⟩

end LolHtml.Thm.Full
