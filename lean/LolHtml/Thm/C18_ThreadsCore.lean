/-
Property C18 — the thread-interleaving theorems (`Thm/C18_Threads.lean`) instantiated with the real sequential
model of the Rust API (`Model.Rewriter`, any transform controller; `Full.genWorld cfg` = the whole rewriter).

* `C18_core_interleaved_rewrite`  for EVERY schedule of any number of threads and rewriters, with migrations and an
                                  adversary on the (non-existent) mutable globals: if the calls made on rewriter `i`
                                  are `new(cfg); write(c₁); …; write(cₙ); end()`, then the results of these calls, the
                                  bytes its sink received and its controller state (handler event log) are exactly
                                  those of the sequential reference run `C01.run` — the function all other theorems
                                  of this development are about.
* `C18_core_repeat`               two rewriters given the same configuration and chunks, anywhere in any schedule,
                                  observe the same (repeating a rewrite, on whichever threads, gives identical results).
-/
import LolHtml.Thm.C18_Threads
import LolHtml.Model.ThreadsCore
import LolHtml.Thm.Full

namespace LolHtml.Thm.C18
open LolHtml LolHtml.Model LolHtml.Model.Threads LolHtml.Lemmas.Threads
open LolHtml.Thm.C01 (writeAll)

variable {γ V : Type} {g0 : Nat → V} {selOk : Bytes → Bool}

/-- Observations of `write`-ing the chunks in order, oldest first. -/
def writeObs (w : Model.World γ) : Rewriter γ → List Bytes → List (CoreObs γ)
  | _, [] => []
  | r, c :: cs => coreObs (r.write w c).1 (r.write w c).2 :: writeObs w (r.write w c).1 cs

theorem writeObs_res (w : Model.World γ) (r : Rewriter γ) (chunks : List Bytes) :
    (writeObs w r chunks).map (·.res) = (writeAll w r chunks).2.map some := by
  induction chunks generalizing r with
  | nil => rfl
  | cons c cs ih => simp [writeObs, writeAll, ih, coreObs]

theorem seq_writes (w : Model.World γ) (chunks : List Bytes) (r : Rewriter γ) (obs : List (CoreObs γ)) :
    (chunks.map IOp.write).foldl (seqStep (coreSys γ V g0 selOk)) (some ⟨w, r⟩, obs)
      = (some ⟨w, (writeAll w r chunks).1⟩, (writeObs w r chunks).reverse ++ obs) := by
  induction chunks generalizing r obs with
  | nil => rfl
  | cons c cs ih =>
    show List.foldl _ (some (CoreInst.mk w (r.write w c).1), coreObs (r.write w c).1 (r.write w c).2 :: obs) _ = _
    exact (ih _ _).trans (by simp [writeObs, writeAll])

/-- The sequential prediction for one whole rewrite is the reference run. -/
theorem seqRun_rewrite (w : Model.World γ) (g : γ) (cfg : Settings) (chunks : List Bytes) :
    seqRun (coreSys γ V g0 selOk) (rewriteOps w g cfg chunks)
      = (some ⟨w, (C01.run w (C01.Rewriter.new w g cfg) chunks).1⟩,
         coreObs (C01.run w (C01.Rewriter.new w g cfg) chunks).1
             ((writeAll w (C01.Rewriter.new w g cfg) chunks).1.end w).2
           :: ((writeObs w (C01.Rewriter.new w g cfg) chunks).reverse
                ++ [coreObs (C01.Rewriter.new w g cfg) .ok])) := by
  unfold seqRun rewriteOps
  show List.foldl _ (some (CoreInst.mk w (C01.Rewriter.new w g cfg)), [coreObs (C01.Rewriter.new w g cfg) .ok]) _ = _
  refine (List.foldl_append ..).trans ?_
  refine (congrArg (fun a => List.foldl (seqStep (coreSys γ V g0 selOk)) a [IOp.end_]) (seq_writes ..)).trans ?_
  rfl

theorem C18_core_interleaved_rewrite (σ : List (Event (coreSys γ V g0 selOk))) (i : Nat)
    (w : Model.World γ) (g : γ) (cfg : Settings) (chunks : List Bytes)
    (hcalls : instOps i σ = rewriteOps w g cfg chunks) :
    let ref := C01.run w (C01.Rewriter.new w g cfg) chunks
    let W := run sourceItems (World.fresh (coreSys γ V g0 selOk)) σ
    -- results of `new`, every `write`, `end`, oldest first
    (W.obs i).reverse.map (·.res) = some .ok :: ref.2.map some ∧
    -- final sink contents and controller state
    (W.obs i).head?.map (·.sink) = some ref.1.sink ∧
    (W.obs i).head?.map (·.ctl) = some (some ref.1.stream.disp.ctl) ∧
    (W.inst i).map (·.rw) = some ref.1 := by
  intro ref W
  have hp := C18_sequential_prediction (S := coreSys γ V g0 selOk) C18_threads_side_condition σ i
  rw [hcalls, seqRun_rewrite] at hp
  have h1 : W.inst i = _ := congrArg Prod.fst hp
  have h2 : W.obs i = _ := congrArg Prod.snd hp
  refine ⟨?_, ?_, ?_, ?_⟩
  · rw [h2]
    simp only [List.reverse_cons, List.reverse_append, List.reverse_reverse, List.map_append, List.map_cons,
      List.map_nil, writeObs_res]
    simp [coreObs, ref, C01.run]
  · rw [h2]; simp [coreObs, ref]
  · rw [h2]; simp [coreObs, ref]
  · rw [h1]; simp [ref]

/-- Repetition / concurrency: two rewriters anywhere in two schedules (or the same one) that are given the same
    configuration and the same chunks observe exactly the same. -/
theorem C18_core_repeat (σ₁ σ₂ : List (Event (coreSys γ V g0 selOk))) (i j : Nat)
    (w : Model.World γ) (g : γ) (cfg : Settings) (chunks : List Bytes)
    (h₁ : instOps i σ₁ = rewriteOps w g cfg chunks) (h₂ : instOps j σ₂ = rewriteOps w g cfg chunks) :
    (run sourceItems (World.fresh (coreSys γ V g0 selOk)) σ₁).obs i
      = (run sourceItems (World.fresh (coreSys γ V g0 selOk)) σ₂).obs j := by
  have hp₁ := C18_sequential_prediction (S := coreSys γ V g0 selOk) C18_threads_side_condition σ₁ i
  have hp₂ := C18_sequential_prediction (S := coreSys γ V g0 selOk) C18_threads_side_condition σ₂ j
  rw [h₁] at hp₁; rw [h₂, ← hp₁] at hp₂
  exact (congrArg Prod.snd hp₂).symm

/-! ## Non-vacuity: the whole rewriter (`Full.genWorld`, tables regenerated from /repo), kernel-evaluated -/

namespace CoreDemo
open LolHtml.Model.Full LolHtml.Thm.Full

/-- selector `[a]` with `set_attribute("c","d")` + `after("!")` (`Thm.Full.auxCfg`). -/
@[reducible] def S : Sys := coreSys (FullSt auxCfg) Nat (fun _ => 0) (fun _ => true)

def cfg : Model.World (FullSt auxCfg) × FullSt auxCfg × Settings := (genWorld auxCfg, FullSt.init auxCfg, {})
def adv : (Nat → Nat) → Nat → Nat := fun g j => g j + j + 1

/-- `<div a=b>x<` | `/div>y` on rewriter 0 (created on thread 0, moved to thread 2 between the writes),
    interleaved with the same document split as `<div a=` | `b>x</div>y` on rewriter 1 (thread 1). -/
def σ : List (Event S) := [
  ⟨0, .inst 0 (.create cfg), adv⟩,
  ⟨1, .inst 1 (.create cfg), adv⟩,
  ⟨1, .inst 1 (.write [60,100,105,118,32,97,61]), adv⟩,
  ⟨0, .inst 0 (.write [60,100,105,118,32,97,61,98,62,120,60]), adv⟩,
  ⟨0, .migrate 0 2, adv⟩,
  ⟨1, .parseSelector [97], adv⟩,
  ⟨2, .inst 0 (.write [47,100,105,118,62,121]), adv⟩,
  ⟨1, .inst 1 (.write [98,62,120,60,47,100,105,118,62,121]), adv⟩,
  ⟨1, .inst 1 .end_, adv⟩,
  ⟨2, .inst 0 .end_, adv⟩ ]

example : instOps 0 σ = rewriteOps cfg.1 cfg.2.1 cfg.2.2 Thm.Full.sampleChunks := rfl

/-- Both interleaved rewriters produce `<div a=b c="d">x</div>!y`, every call succeeds, and the schedule is one
    the Rust type system allows. -/
example :
    let W := run sourceItems (World.fresh S) σ
    wellOwned (fun _ => none) σ = true ∧
    (W.obs 0).head?.map (fun o => sinkBytes o.sink)
      = some [60,100,105,118,32,97,61,98,32,99,61,34,100,34,62,120,60,47,100,105,118,62,33,121] ∧
    (W.obs 1).head?.map (fun o => sinkBytes o.sink)
      = some [60,100,105,118,32,97,61,98,32,99,61,34,100,34,62,120,60,47,100,105,118,62,33,121] ∧
    (W.obs 0).map (·.res) = [some .ok, some .ok, some .ok, some .ok] ∧
    (W.obs 1).map (·.res) = [some .ok, some .ok, some .ok, some .ok] := by
  decide +kernel

end CoreDemo

end LolHtml.Thm.C18
