import LolHtml.Thm.FullGuardW
import LolHtml.Thm.Full12
import LolHtml.Lemmas.RunRelT
/-!
# The lifting for guarded hints (`run_relX`) and the composition of the run-level companions (`GuardFreeX`)

Package full's operation-level statement `Full_scan_opsX_statement Inv` (Thm/Full12.lean) wraps both dispatchers in
`guardHints (guardS (withArgs argSite (andGuard kindGuard wmGuard)) ·)`: the lexeme guard (arguments, kind, watermark) and
the hint guard (no tag hint while a tag hint is outstanding).

* `run_relX` — the lifting `run_relG` for that wrapper (`RelI.run_relT`, generic in the wrapper).
* `GuardFreeX` — the run-level companion: in the runs over the cleaned controller none of the guards fires.
  `guardFreeX_of`: it follows from `GuardFree2 … K` (lexeme guard, PROVED for the cleaned real controller with the ghost:
  `Full_clean_guardW`) and `HintFree` (hint guard alone).
* `Full_no_panic_partial4_cond : Full_scan_opsX_statement Inv → Full_clean_hintFree_statement → Full_no_panic_statement`;
  the second hypothesis is proved in Thm/Full13.lean (`Full_clean_hintFree`), which has the final `Full_no_panic_partial4`.
-/
set_option linter.unusedSimpArgs false
set_option linter.unusedVariables false
namespace LolHtml.Thm.Full
open LolHtml LolHtml.Model LolHtml.Model.Full LolHtml.Lemmas.Full
open LolHtml.Thm.C01 (run writeAll Rewriter.new)
open LolHtml.Model.RelI LolHtml.Model.Hint

section lift
variable {γ : Type}

/-- the wrapper of `Full_scan_opsX_statement` -/
def XT (K : SGuard (Disp γ)) (ops : SinkOps (Disp γ)) : SinkOps (Disp γ) := guardHints (guardS K ops)

/-- its refusals -/
def XFires (K : SGuard (Disp γ)) (e : Err) : Prop := K.Fires e ∨ e = .panic hintSite

def HFires (e : Err) : Prop := e = .panic hintSite

/-- wrapped vs. plain: equal, or a refusal -/
theorem guardHints_relReal (ops : SinkOps (Disp γ)) (inp : Bytes) :
    RelE.OpsRelE (guardHints ops) ops inp (fun a b => a = b) HFires where
  handleTag := fun lx k₁ k₂ hk => by subst hk; exact Or.inl ⟨rfl, rfl⟩
  handleNonTag := fun lx k₁ k₂ hk => by subst hk; exact Or.inl ⟨rfl, rfl⟩
  startTagHint := fun n ns k₁ k₂ hk => by
    subst hk
    simp only [guardHints]
    by_cases hc : (k₁.gotFlagsFromHint || k₁.pendingAux) = true
    · simp only [hc, if_true]; exact Or.inr ⟨_, rfl, rfl⟩
    · simp only [hc, if_false, Bool.false_eq_true]; exact Or.inl ⟨by first | rfl | trivial, by first | rfl | trivial⟩
  endTagHint := fun n k₁ k₂ hk => by
    subst hk
    simp only [guardHints]
    by_cases hc : (k₁.gotFlagsFromHint || k₁.pendingAux) = true
    · simp only [hc, if_true]; exact Or.inr ⟨_, rfl, rfl⟩
    · simp only [hc, if_false, Bool.false_eq_true]; exact Or.inl ⟨by first | rfl | trivial, by first | rfl | trivial⟩

/-- both guards vs. the lexeme guard only: equal, or the hint guard fired -/
theorem xt_rel1 (K : SGuard (Disp γ)) (ops : SinkOps (Disp γ)) (inp : Bytes) :
    RelE.OpsRelE (XT K ops) (guardS K ops) inp (fun a b => a = b) HFires := guardHints_relReal (guardS K ops) inp

/-- both guards vs. the hint guard only: equal, or the lexeme guard fired -/
theorem xt_rel2 (K : SGuard (Disp γ)) (ops : SinkOps (Disp γ)) (inp : Bytes) :
    RelE.OpsRelE (XT K ops) (guardHints ops) inp (fun a b => a = b) K.Fires where
  handleTag := fun lx k₁ k₂ hk => by
    subst hk
    simp only [XT, guardHints, guardS]
    cases hg : K.tag inp lx k₁ with
    | some e => exact Or.inr ⟨e, Or.inl ⟨inp, lx, k₁, hg⟩, rfl⟩
    | none => exact Or.inl ⟨rfl, rfl⟩
  handleNonTag := fun lx k₁ k₂ hk => by
    subst hk
    simp only [XT, guardHints, guardS]
    cases hg : K.nonTag inp lx k₁ with
    | some e => exact Or.inr ⟨e, Or.inr ⟨inp, lx, k₁, hg⟩, rfl⟩
    | none => exact Or.inl ⟨rfl, rfl⟩
  startTagHint := fun n ns k₁ k₂ hk => by subst hk; exact Or.inl ⟨rfl, rfl⟩
  endTagHint := fun n k₁ k₂ hk => by subst hk; exact Or.inl ⟨rfl, rfl⟩

/-- both guards vs. none -/
theorem xt_relReal (K : SGuard (Disp γ)) (ctl : Controller γ) (inp : Bytes) :
    RelE.OpsRelE (XT K (dispOps ctl)) (dispOps ctl) inp (fun a b => a = b) (XFires K) where
  handleTag := fun lx k₁ k₂ hk => by
    rcases (xt_rel2 K (dispOps ctl) inp).handleTag lx k₁ k₂ hk with h | ⟨e, hF, he⟩
    · subst hk; exact Or.inl h
    · exact Or.inr ⟨e, Or.inl hF, he⟩
  handleNonTag := fun lx k₁ k₂ hk => by
    rcases (xt_rel2 K (dispOps ctl) inp).handleNonTag lx k₁ k₂ hk with h | ⟨e, hF, he⟩
    · subst hk; exact Or.inl h
    · exact Or.inr ⟨e, Or.inl hF, he⟩
  startTagHint := fun n ns k₁ k₂ hk => by
    rcases (xt_rel1 K (dispOps ctl) inp).startTagHint n ns k₁ k₂ hk with h | ⟨e, hF, he⟩
    · subst hk; exact Or.inl h
    · exact Or.inr ⟨e, Or.inr hF, he⟩
  endTagHint := fun n k₁ k₂ hk => by
    rcases (xt_rel1 K (dispOps ctl) inp).endTagHint n k₁ k₂ hk with h | ⟨e, hF, he⟩
    · subst hk; exact Or.inl h
    · exact Or.inr ⟨e, Or.inr hF, he⟩

theorem CtlRelX.toT {w : World γ} {c2 : Controller γ} {K : SGuard (Disp γ)} {Inv : Disp γ → Prop} {G : Err → Prop}
    (h : CtlRelX w c2 K Inv G) : CtlRelT w c2 (XT K) Inv G :=
  ⟨h.ops, h.bail, h.flush, h.handleEnd, h.initial, h.np⟩

/-- **run-level companion of `CtlRelX`**: in the runs of `w`, after every usable prefix, the parse over the dispatcher
wrapped in both guards is the plain parse, and returns no refusal -/
def GuardFreeX (w : World γ) (K : SGuard (Disp γ)) (g : γ) (cfg : Settings) : Prop := GuardFreeT w (XT K) (XFires K) g cfg

/-- the hint guard alone -/
def HintFree (w : World γ) (g : γ) (cfg : Settings) : Prop := GuardFreeT w guardHints HFires g cfg

/-- **`run_relG` for guarded hints** -/
theorem run_relX {w : World γ} {c2 : Controller γ} {K : SGuard (Disp γ)} {Inv : Disp γ → Prop} {G : Err → Prop}
    (h : CtlRelX w c2 K Inv G) (ht : EmitsChecked w.tbl = true) (hpan : ∀ e, K.Fires e → ∃ s, e = .panic s)
    (g : γ) (cfg : Settings) (hI : Inv (Disp.new w.ctl g cfg.encoding))
    (hgf : GuardFreeX (Chunk.R.World.withCtl w c2) K g cfg) (cs : List Bytes) :
    ∀ x ∈ (run w (Rewriter.new w g cfg) cs).2,
      LexE.CallE G (run (Chunk.R.World.withCtl w c2) (Rewriter.new (Chunk.R.World.withCtl w c2) g cfg) cs).2 x :=
  run_relT h.toT (fun inp => xt_relReal K w.ctl inp) ht
    (fun e hF => hF.elim (hpan e) (fun h => ⟨_, h⟩)) g cfg hI hgf cs

/-- one parse call: the two guards that never fire never fire together -/
theorem parse_xt {w : World γ} {K : SGuard (Disp γ)} (ht : EmitsChecked w.tbl = true)
    (hpK : ∀ e, K.Fires e → ∃ s, e = .panic s) (hdis : ¬ K.Fires (.panic hintSite)) (inp : Bytes) (last : Bool)
    (p : Parser (Disp γ))
    (h1 : Parser.parse (envS w K) inp last p = Parser.parse w.env inp last p ∧
      ∀ e, K.Fires e → (Parser.parse w.env inp last p).2 ≠ .error e)
    (h2 : Parser.parse (envT w guardHints) inp last p = Parser.parse w.env inp last p ∧
      ∀ e, HFires e → (Parser.parse w.env inp last p).2 ≠ .error e) :
    Parser.parse (envT w (XT K)) inp last p = Parser.parse w.env inp last p ∧
    ∀ e, XFires K e → (Parser.parse w.env inp last p).2 ≠ .error e := by
  have r1 := RelE.parse_relE (tbl := w.tbl) (cfg := w.tags) (inp := inp) (xt_rel1 K (dispOps w.ctl) inp) ht last p p (PR_refl p)
  have r2 := RelE.parse_relE (tbl := w.tbl) (cfg := w.tags) (inp := inp) (xt_rel2 K (dispOps w.ctl) inp) ht last p p (PR_refl p)
  have heq : Parser.parse (envT w (XT K)) inp last p = Parser.parse w.env inp last p := by
    rcases r1 with ⟨hpr, hres⟩ | ⟨eh, hFh, hresh⟩
    · have : Parser.parse (envT w (XT K)) inp last p = Parser.parse (envS w K) inp last p := Prod.ext (PR_eq' hpr) hres
      rw [this]; exact h1.1
    · cases hFh
      have hresh' : (Parser.parse (envT w (XT K)) inp last p).2 = .error (.panic hintSite) := hresh
      rcases r2 with ⟨hpr, hres⟩ | ⟨e1, hF1, hres1⟩
      · have : Parser.parse (envT w (XT K)) inp last p = Parser.parse (envT w guardHints) inp last p := Prod.ext (PR_eq' hpr) hres
        rw [this, h2.1] at hresh'
        exact absurd hresh' (h2.2 _ rfl)
      · obtain ⟨s1, rfl⟩ := hpK e1 hF1
        have hres1' : (Parser.parse (envT w (XT K)) inp last p).2 = .error (.panic s1) := hres1
        rw [hresh'] at hres1'
        simp only [Except.error.injEq] at hres1'
        rw [← hres1'] at hF1
        exact absurd hF1 hdis
  refine ⟨heq, fun e hF => ?_⟩
  rcases hF with h | h
  · exact h1.2 e h
  · exact h2.2 e h

/-- **composition**: the lexeme guard never fires, the hint guard never fires ⟹ `GuardFreeX` -/
theorem guardFreeX_of {w : World γ} {K : SGuard (Disp γ)} (ht : EmitsChecked w.tbl = true)
    (hpK : ∀ e, K.Fires e → ∃ s, e = .panic s) (hdis : ¬ K.Fires (.panic hintSite)) (g : γ) (cfg : Settings)
    (h1 : GuardFree2 w K g cfg) (h2 : HintFree w g cfg) : GuardFreeX w K g cfg := by
  intro pre hu
  obtain ⟨a1, a2⟩ := h1 pre hu
  obtain ⟨b1, b2⟩ := h2 pre hu
  exact ⟨fun data s1 chunk hcf => parse_xt ht hpK hdis chunk false s1.parser (a1 data s1 chunk hcf) (b1 data s1 chunk hcf),
    parse_xt ht hpK hdis _ true _ a2 b2⟩

end lift

/-! ### the assembly -/

theorem argsKW_fires {γ : Type} {e : Err} (hF : (withArgs argSite (andGuard (kindGuard (γ := γ)) wmGuard)).Fires e) :
    e = .panic argSite ∨ e = .panic rawSite ∨ e = .panic startSite ∨ e = .panic guardSite ∨ e = .panic wmSite := by
  rcases withArgs_fires hF with h | h | h
  · exact Or.inl h
  · exact Or.inr (Or.inl h)
  · exact Or.inr (Or.inr (kw_fires h))

/-- **the remaining run-level statement**: in the runs of the cleaned real controller with the ghost no tag hint is
issued while a tag hint is outstanding (after a hint answered `lex`, or with an aux-info request pending, the parser's
next sink call is `handle_tag`: the lexer, loaded from the bookmark, re-lexes the tag) -/
def Full_clean_hintFree_statement : Prop :=
  ∀ cfg settings, HintFree (cleanWorldH cfg) (FullSt.init cfg, none) settings

/-- the run-level companion of `Full_scan_opsX_statement`, from the hint half -/
theorem Full_clean_guardX (h : Full_clean_hintFree_statement) (cfg : Cfg) (settings : Settings) :
    GuardFreeX (cleanWorldH cfg) (withArgs argSite (andGuard kindGuard wmGuard)) (FullSt.init cfg, none) settings :=
  guardFreeX_of (w := cleanWorldH cfg) C03.C03_emitsChecked_gen
    (fun e hF => by rcases argsKW_fires hF with rfl | rfl | rfl | rfl | rfl <;> exact ⟨_, rfl⟩)
    (fun hF => by
      rcases argsKW_fires hF with h | h | h | h | h <;>
        simp [hintSite, argSite, rawSite, startSite, guardSite, wmSite] at h)
    (FullSt.init cfg, none) settings (Full_clean_guardW cfg settings) (h cfg settings)

/-- **Full_no_panic_partial4_cond.** `Full_no_panic_statement` — every configuration, tag-scanner mode included — from
package full's operation-level statement with guarded hints and the run-level statement about the hint guard. Everything
else is discharged: the ghost is free (`run_hint`), the lifting (`run_relX`), the argument / kind / watermark guards never
fire in the cleaned run (`Full_clean_guardW`), the cleaned run never panics (`C15_no_panic_full_gen`). -/
theorem Full_no_panic_partial4_cond (Inv : ∀ cfg, Disp (FullStH cfg) → Prop) (h1 : Full_scan_opsX_statement Inv)
    (h2 : Full_clean_hintFree_statement) : Full_no_panic_statement := by
  intro cfg settings chunks x hx
  obtain ⟨hI, hL⟩ := h1 cfg
  have hx' : x ∈ (run (genWorldH cfg) (Rewriter.new (genWorldH cfg) (FullSt.init cfg, none) settings) chunks).2 := by
    have := run_hint (genWorld cfg) C03.C03_emitsChecked_gen (FullSt.init cfg) none settings chunks
    unfold genWorldH
    rw [this]
    exact hx
  have hpan : ∀ e, (withArgs argSite (andGuard (kindGuard (γ := FullSt cfg)) wmGuard)).Fires e → ∃ s, e = .panic s := by
    intro e hF
    rcases argsKW_fires hF with rfl | rfl | rfl | rfl | rfl <;> exact ⟨_, rfl⟩
  have hemit : EmitsChecked (genWorldH cfg).tbl = true := C03.C03_emitsChecked_gen
  rcases run_relX hL hemit hpan (FullSt.init cfg, none) settings (hI settings.encoding) (Full_clean_guardX h2 cfg settings) chunks x hx'
    with k | k | ⟨e', ⟨e, hG, hee⟩, hxe⟩
  · exact C15.C15_no_panic_full_gen (cleanWorldH cfg) rfl (cleanCtlH_clean cfg) (FullSt.init cfg, none) settings chunks x k
  · rw [k]; trivial
  · rw [hxe]
    rcases hee with rfl | rfl
    · exact hG
    · rw [hG.parseErr]; exact hG

end LolHtml.Thm.Full
