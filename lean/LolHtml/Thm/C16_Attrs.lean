import LolHtml.Lemmas.TagEmit
import LolHtml.Lemmas.TagBreak
import LolHtml.Lemmas.Preserve
import LolHtml.Model.AttrsApi
import LolHtml.Gen.Syntax
import LolHtml.Gen.Tags
/-!
# C16 — the element / attribute read API reflects the start tag exactly

* `C16_outline` — for EVERY input byte string and every position `i` where `Spec.Attrs` (an independent
  reading of the bytes after the WHATWG tokenizer) finds a finished start tag `[i, j)`: the lexer, run
  on the table generated from the Rust, started in the data state at `i`, performs `k + 1 ≤ 2·(j − i)`
  state-function calls; the first `k` signal nothing and leave sink and simulator untouched; the last
  one is `emit_tag` on a current-tag token whose name range, name hash, attribute outlines (in order,
  duplicates kept, valueless ⇒ empty value at the end of the name) and self-closing flag are exactly
  the spec's, with `lexeme_start = i` and `pos + 1 = j`, followed by the transition to the text state.
* `C16_emit_tag` — what `emit_tag` then does: either the tree-builder simulator refuses the tag (strict
  mode ambiguity, debug assertions) and the sink is not called, or the sink's `handle_tag` is called
  once with the lexeme `raw = [i, j)`, outline = the token stamped with the simulator's namespace.
* `C16_outline_recorded` — both combined for a sink that records lexemes and keeps the lexer on.
* `C16_lookup*`, `C16_context*` — the read API on the token (`Model.AttrsApi`); F9 proved as a counterexample
  (F8 — lookups validated with the setter's reject list — was repaired: `C16_lookup` now holds for every query).

All `C16_outline*` theorems hold for every table satisfying the decidable side-condition
`TagStatesOk` (`Lemmas/TagStates.lean`), which is evaluated on `Gen.Syntax.table` here.
-/
namespace LolHtml.Thm.C16
open LolHtml LolHtml.Model LolHtml.Model.TagStates LolHtml.Spec.Attrs

/-- **Side-condition on the current code**: the tag / attribute states of the generated table are the
ones the proofs were made for. If this fails after a change to `syntax/tag/*.rs`,
`#eval tagStatesWitness Gen.Syntax.table` names the state and the first input class (`2·byte`, `+1` when the byte is
the closing quote, 512 / 513 = end of input on a last / non-last slice) that resolves to a different arm, or 1000
(enter actions / memchr needle) / 3000 (sequence arms) / 2000 (missing state, byte classes). The comparison is by
RESOLUTION (`Lemmas/ArmResolve.lean`): reordering arms with disjoint patterns does not affect it. -/
theorem tagStates_gen : TagStatesOk Gen.Syntax.table = true := by decide +kernel

theorem tagStatesWitness_gen : tagStatesWitness Gen.Syntax.table = [] := by decide +kernel

/-! Regression examples for the side-condition itself (tag_name_state = state 31, arms for whitespace, `>`, `/`, eof, `_`;
the mutations find the arms by pattern, so the examples do not depend on the order the Rust lists them in):
a harmless reordering is accepted; a reordering that changes which arm a byte selects (`/` after the catch-all) and an
exchange of two arms' actions are rejected, and the witness names the state and the input class (94 = 2·47: the byte `/`). -/
example : TagStatesOk (Gen.Syntax.table.modArms 31 (swapArms (.byte 62) (.byte 47))) = true := by decide +kernel
example : tagStatesWitness (Gen.Syntax.table.modArms 31 (swapArms (.byte 47) .any)) = [("tag_name_state", 94)] := by decide +kernel
example : tagStatesWitness (Gen.Syntax.table.modArms 31 (swapBodies (.byte 47) .eof)) = [("tag_name_state", 94)] := by decide +kernel
/-- the byte classes are compared as sets of bytes -/
example : TagStatesOk { Gen.Syntax.table with whitespace := [12, 9, 13, 10, 32], alpha := [(65, 90), (97, 109), (110, 122)] } = true := by
  decide +kernel
example : tagStatesWitness { Gen.Syntax.table with whitespace := [12, 9, 13, 10] } = [("whitespace class", 2000)] := by decide +kernel

/-- the `>` arm of before_attribute_value_state ends in `--> dyn next_text_parsing_state`, or (finding F1 of
C03, before its repair) in `--> data_state`; the proofs accept both -/
theorem trans36_cases (t : Table) : trans36 t = .gotoDyn ∨ trans36 t = .goto t.dataState := by
  unfold trans36
  split
  · exact Or.inl rfl
  · exact Or.inr rfl

variable {κ : Type}

/-- A lexer machine in the data state at position `i`, at a lexeme boundary (no pending text), with
a closing-quote register holding a quote (its initial value is `"`; it is only ever set to `"` or `'`). -/
structure AtTagStart (tbl : Table) (m : M κ) (i : Nat) : Prop where
  state : m.c.state = tbl.dataState
  pos : m.c.nextPos = i
  lexer : ∃ l, m.r = .lexer l ∧ l.lexemeStart = i
  quote : m.c.closingQuote = 34 ∨ m.c.closingQuote = 39

/-- the registers `emit_tag` runs on at the end of the tag `t` of `inp` that started at `m` -/
structure EmitRegs (inp : Bytes) (m : M κ) (i : Nat) (t : Tag) (cJ : Common) (lJ : LexRegs) : Prop where
  /-- `pos() + 1`, the end of the lexeme's raw range, is the position after `>` -/
  nextPos : cJ.nextPos = t.stop
  /-- the lexeme starts at `<` -/
  lexemeStart : lJ.lexemeStart = i
  /-- the current tag token is exactly the spec's reading; the hash is the hash of the name bytes -/
  curTag : lJ.curTag = some (.startTag t.name (NameHash.ofBytes (slice inp t.name.start t.name.end)) .html t.attrs t.selfClosing)
  isLast : cJ.isLast = m.c.isLast
  cdataAllowed : cJ.cdataAllowed = m.c.cdataAllowed
  lastStartTagNameHash : cJ.lastStartTagNameHash = m.c.lastStartTagNameHash
  lastTextType : cJ.lastTextType = m.c.lastTextType
  fd : ∀ l, m.r = .lexer l → lJ.fd = l.fd ∧ lJ.curNonTag = l.curNonTag

/-- **C16_outline (finished tag, within one chunk).** -/
theorem C16_outline (env : Env κ) (hok : TagStatesOk env.tbl = true) (inp : Bytes) (i : Nat) (m : M κ)
    (hm : AtTagStart env.tbl m i) (t : Tag) (hspec : startTagAt inp i = some (.finished t)) :
    ∃ k cJ lJ tr, k < 2 * (t.stop - i) ∧ EmitRegs inp m i t cJ lJ ∧ (tr = .gotoDyn ∨ tr = trans36 env.tbl) ∧
      ∀ fuel, runLoop env inp (k + 1 + fuel) m = cont env inp fuel (finish env tr (lexEmitTag env inp cJ lJ m.x)) := by
  obtain ⟨hs, hp, ⟨l, hl, hls⟩, hq⟩ := hm
  obtain ⟨c, r, x⟩ := m
  obtain ⟨np, il, st, en, ca, lsh, cq, ltt⟩ := c
  obtain ⟨ls, tps, ct, cnt, cattr, fd⟩ := l
  simp only at hs hp hl hls hq
  rw [data_of_ok hok] at hs
  subst st np r ls
  let F : Frame κ := ⟨il, ca, lsh, ltt, i, cnt, fd, x⟩
  obtain ⟨k, cJ, lJ, tr, hF, htr, hk, hrun⟩ :=
    run_startTag hok F i rfl en cq hq tps ct cattr (.inl t) (startTagRun_of_finished hspec)
  refine ⟨k, cJ, lJ, tr, hk, ⟨hF.nextPos, hF.ls, hF.curTag, hF.isLast, hF.cdata, hF.lsh, hF.ltt, ?_⟩, htr, hrun⟩
  intro l' hl'
  simp only [Regs.lexer.injEq] at hl'
  subst hl'
  exact ⟨hF.fd, hF.cnt⟩

/-- **C16_outline (unfinished tag).** If the spec says the bytes end inside the tag, the lexer makes `k`
silent calls (sink and simulator untouched) and the next call is the end-of-input step of a tag state
(`eofStep`: on the last chunk `emit_raw_without_token_and_eof`, i.e. the raw bytes `[i, |inp|)` without a
token and the EOF lexeme, both through `handle_non_tag_content`; otherwise `break_on_end_of_input`,
which keeps everything from `i` on for the next chunk). `emit_tag` is not reached: no tag lexeme. -/
theorem C16_outline_unfinished (env : Env κ) (hok : TagStatesOk env.tbl = true) (inp : Bytes) (i : Nat) (m : M κ)
    (hm : AtTagStart env.tbl m i) (hspec : startTagAt inp i = some .unfinished) :
    ∃ k cE lE, cE.nextPos = inp.length + 1 ∧ cE.isLast = m.c.isLast ∧ lE.lexemeStart = i ∧
      ∀ fuel, runLoop env inp (k + 1 + fuel) m = cont env inp fuel (eofStep env inp cE lE m.x) := by
  obtain ⟨hs, hp, ⟨l, hl, hls⟩, hq⟩ := hm
  obtain ⟨c, r, x⟩ := m
  obtain ⟨np, il, st, en, ca, lsh, cq, ltt⟩ := c
  obtain ⟨ls, tps, ct, cnt, cattr, fd⟩ := l
  simp only at hs hp hl hls hq
  rw [data_of_ok hok] at hs
  subst st np r ls
  let F : Frame κ := ⟨il, ca, lsh, ltt, i, cnt, fd, x⟩
  obtain ⟨mid, hmidspec⟩ := startTagRun_of_unfinished hspec
  obtain ⟨k, m', hmid, hrun⟩ := run_startTag hok F i rfl en cq hq tps ct cattr (.inr mid) hmidspec
  obtain ⟨cE, lE, hstep, e1, e2, e6⟩ := mid_endStep hok F _ _ mid m' hmid
  refine ⟨k, cE, lE, e1, e2, e6, fun fuel => ?_⟩
  rw [show k + 1 + fuel = k + (fuel + 1) by omega, hrun (fuel + 1), runLoop_succ, hstep]

/-- **C16_outline_break.** The first half of "a tag across a chunk boundary": when the slice is not the last
one and ends inside the tag, the run ends with `endOfInput i` — exactly the bytes before `<` are consumed, the tag is kept
for the next slice (which therefore starts at `<`) —, sink and simulator untouched, `lexeme_start = 0`, the cursor at
`|inp| − i`, and the token-part start, the tag token's name / attribute outlines and the open attribute re-based
by `i` (`Align`). -/
theorem C16_outline_break (env : Env κ) (hok : TagStatesOk env.tbl = true) (inp : Bytes) (i : Nat) (m : M κ)
    (hm : AtTagStart env.tbl m i) (hlast : m.c.isLast = false) (hspec : startTagAt inp i = some .unfinished) :
    ∃ (k : Nat) (cE : Common) (lE : LexRegs), lE.lexemeStart = i ∧ cE.isLast = false ∧
      ∀ fuel, runLoop env inp (k + 1 + fuel) m =
        (⟨{ cE with nextPos := inp.length - i },
          .lexer { lE with tokenPartStart := alignNat lE.tokenPartStart i,
                           curTag := lE.curTag.map (·.align i),
                           curNonTag := lE.curNonTag.map (·.align i),
                           curAttr := lE.curAttr.map (·.align i),
                           lexemeStart := 0 }, m.x⟩,
         .endOfInput i) := by
  obtain ⟨k, cE, lE, e1, e2, e3, hrun⟩ := C16_outline_unfinished env hok inp i m hm hspec
  have hil : cE.isLast = false := by rw [e2, hlast]
  have hi : i + 2 ≤ inp.length := by
    unfold startTagAt at hspec
    split at hspec
    · rename_i hd
      have := congrArg List.length hd
      simp only [List.length_drop, List.length_cons] at this
      omega
    · simp at hspec
  refine ⟨k, cE, lE, e3, hil, fun fuel => ?_⟩
  rw [hrun fuel, eofStep_break env inp cE lE m.x hil (by omega), e3, e1]
  simp only [cont]
  congr 3

/-- **C16_outline_across_break.** A tag that straddles two input slices. The slice `inp` is not the last one and
ends inside the tag starting at `i`; `more` is what arrives next, and `Spec.Attrs`, reading `inp ++ more`, finds the
tag finished (`t`). Then: the run on `inp` ends with `endOfInput i` (the bytes before `<` are consumed, the parser
context is untouched), so the next slice is `inp.drop i ++ more`; and from the machine that run leaves behind, with the
`is_last` flag of the next slice, the run reaches `emit_tag` after `k + 1 ≤ 2·(t.stop − |inp|)` calls with
`lexeme_start = 0`, `pos + 1 = t.stop − i` and the spec's outline re-based by `i` (`Align`): name range, hash of the name
bytes, attribute outlines in order, self-closing flag. With `C14_offset` (`prevConsumed` grew by `i`) the lexeme denotes the
same document range `[prevConsumed + i, prevConsumed + t.stop)` and the same attribute locations as in one slice. -/
theorem C16_outline_across_break (env : Env κ) (hok : TagStatesOk env.tbl = true) (inp more : Bytes) (i : Nat) (m : M κ)
    (hm : AtTagStart env.tbl m i) (hlast : m.c.isLast = false) (hspec1 : startTagAt inp i = some .unfinished)
    (t : Tag) (hspec : startTagAt (inp ++ more) i = some (.finished t)) (il2 : Bool) :
    ∃ k1 m1, (∀ fuel, runLoop env inp (k1 + 1 + fuel) m = (m1, .endOfInput i)) ∧ m1.x = m.x ∧
      ∃ (k : Nat) (cJ : Common) (lJ : LexRegs) (tr : Model.Trans), k < 2 * (t.stop - inp.length) ∧
        cJ.nextPos = t.stop - i ∧ cJ.isLast = il2 ∧ lJ.lexemeStart = 0 ∧
        lJ.curTag = some (.startTag (t.name.align i) (NameHash.ofBytes (slice (inp ++ more) t.name.start t.name.end)) .html
          (t.attrs.map (·.align i)) t.selfClosing) ∧
        (tr = .gotoDyn ∨ tr = trans36 env.tbl) ∧
        ∀ fuel, runLoop env (inp.drop i ++ more) (k + 1 + fuel) { m1 with c := { m1.c with isLast := il2 } } =
          cont env (inp.drop i ++ more) fuel (finish env tr (lexEmitTag env (inp.drop i ++ more) cJ lJ m.x)) := by
  obtain ⟨hs, hp, ⟨l, hl, hls⟩, hq⟩ := hm
  obtain ⟨c, r, x⟩ := m
  obtain ⟨np, il, st, en, ca, lsh, cq, ltt⟩ := c
  obtain ⟨ls, tps, ct, cnt, cattr, fd⟩ := l
  simp only at hs hp hl hls hq hlast
  rw [data_of_ok hok] at hs
  subst st np r ls il
  let F : Frame κ := ⟨false, ca, lsh, ltt, i, cnt, fd, x⟩
  obtain ⟨mid, hmidspec⟩ := startTagRun_of_unfinished hspec1
  obtain ⟨k1, mA, hrun1, hx, k, cJ, lJ, tr, hF, htr, hk, hrun2⟩ :=
    run_across_break hok F i rfl rfl en cq hq tps ct cattr more mid hmidspec t hspec il2
  have hi : i + 2 ≤ inp.length := by
    unfold startTagAt at hspec1
    split at hspec1
    · rename_i hd
      have := congrArg List.length hd
      simp only [List.length_drop, List.length_cons] at this
      omega
    · simp at hspec1
  obtain ⟨_, _, _, w4, _, _⟩ := startTagAt_wf _ _ _ hspec
  refine ⟨k1, mA, hrun1, hx, k, cJ, lJ, tr, ?_, ?_, hF.isLast, hF.ls, hF.curTag, htr, hrun2⟩
  · have : (t.align i).stop = t.stop - i := alignNat_ge (by omega)
    rw [this] at hk
    omega
  · rw [hF.nextPos]; exact alignNat_ge (by omega)

/-- the end-of-input step never calls `handle_tag`: whatever the sink, its state afterwards is the old
one, or the old one after `handle_non_tag_content` of the raw bytes and then possibly of the EOF lexeme -/
theorem eofStep_sink (env : Env κ) (inp : Bytes) (c : Common) (l : LexRegs) (x : Ctx κ) :
    (eofStep env inp c l x).1.x.sink = x.sink ∨
    (∃ lx, (eofStep env inp c l x).1.x.sink = (env.ops.handleNonTag inp lx x.sink).1) ∨
    (∃ lx lx', (eofStep env inp c l x).1.x.sink =
        (env.ops.handleNonTag inp lx' (env.ops.handleNonTag inp lx x.sink).1).1) := by
  have h1 : ∀ (c : Common) (l : LexRegs) (x : Ctx κ) (o : Option NonTagOutline) (e : Nat),
      (lexEmitNonTag env inp c l x o e).1.x.sink = (env.ops.handleNonTag inp ⟨x.prevConsumed, ⟨l.lexemeStart, e⟩, o⟩ x.sink).1 := by
    intro c l x o e
    unfold lexEmitNonTag
    dsimp only
    split <;> rfl
  have h2 : (andThen (lexEmitNonTag env inp c l x none c.pos) (lexEmitEof env inp)).1.x.sink =
        (env.ops.handleNonTag inp ⟨x.prevConsumed, ⟨l.lexemeStart, c.pos⟩, none⟩ x.sink).1 ∨
      ∃ lx', (andThen (lexEmitNonTag env inp c l x none c.pos) (lexEmitEof env inp)).1.x.sink =
        (env.ops.handleNonTag inp lx' (env.ops.handleNonTag inp ⟨x.prevConsumed, ⟨l.lexemeStart, c.pos⟩, none⟩ x.sink).1).1 := by
    unfold andThen
    split
    · exact Or.inl (h1 _ _ _ _ _)
    · right
      unfold lexEmitEof
      split
      · rw [h1, h1]; exact ⟨_, rfl⟩
      · rename_i hr
        exfalso
        revert hr
        unfold lexEmitNonTag
        dsimp only
        split <;> simp
  unfold eofStep
  split
  · split
    · rcases h2 with h | ⟨lx', h⟩
      · exact Or.inr (Or.inl ⟨_, h⟩)
      · exact Or.inr (Or.inr ⟨_, _, h⟩)
    · rw [breakOnEndOfInput_sink]
      rcases h2 with h | ⟨lx', h⟩
      · exact Or.inr (Or.inl ⟨_, h⟩)
      · exact Or.inr (Or.inr ⟨_, _, h⟩)
  · left
    rw [breakOnEndOfInput_sink]

/-- **C16_emit_tag.** `emit_tag` on the registers of `C16_outline`: the sink is either not called at
all (the simulator refused the tag) or `handle_tag` is called with the lexeme `[i, j)` carrying the
spec's outline and the simulator's namespace. -/
theorem C16_emit_tag (env : Env κ) (inp : Bytes) (m : M κ) (i : Nat) (t : Tag) (cJ : Common) (lJ : LexRegs)
    (h : EmitRegs inp m i t cJ lJ) (hpos : 0 < t.stop) :
    (∃ e m', lexEmitTag env inp cJ lJ m.x = (m', some (.err e)) ∧ m'.x.sink = m.x.sink) ∨
    (∃ c' sim', c'.nextPos = t.stop ∧ c'.isLast = m.c.isLast ∧
        c'.lastStartTagNameHash = NameHash.ofBytes (slice inp t.name.start t.name.end) ∧
        lexEmitTag env inp cJ lJ m.x =
          lexEmitTagLexeme env inp c' { lJ with curTag := none, fd := .none } m.x sim'
            (.startTag t.name (NameHash.ofBytes (slice inp t.name.start t.name.end)) sim'.currentNs t.attrs t.selfClosing)
            t.stop) := by
  rcases lexEmitTag_startTag env inp cJ lJ m.x h.curTag with h1 | ⟨c', sim', a1, a2, _, _, _, a6, heq⟩
  · exact Or.inl h1
  · refine Or.inr ⟨c', sim', by rw [a1, h.nextPos], by rw [a2, h.isLast], a6, ?_⟩
    rw [heq]
    have : cJ.pos + 1 = t.stop := by unfold Common.pos; rw [h.nextPos]; omega
    rw [this]

/-! ### A sink that records the lexemes and keeps the lexer on ("all flags on") -/

inductive Lexeme
  | tag (lx : TagLexeme)
  | nonTag (lx : NonTagLexeme)
  deriving DecidableEq, Repr

def recOps : SinkOps (List Lexeme) :=
  { handleTag := fun _ lx k => (k ++ [.tag lx], .ok .lex)
    handleNonTag := fun _ lx k => (k ++ [.nonTag lx], .ok ())
    startTagHint := fun _ _ k => (k, .ok .lex)
    endTagHint := fun _ k => (k, .ok .lex) }

/-- **C16_outline_recorded.** With the recording sink: after `k + 1 ≤ 2·(j − i)` state-function calls
either the simulator has refused the tag (error, nothing recorded), or exactly one lexeme has been
recorded — the tag lexeme `[i, j)` with the spec's name range, hash of the name bytes, attribute
outlines and self-closing flag, stamped with the simulator's namespace — and the machine is at `j`,
at a lexeme boundary, in a text state. -/
theorem C16_outline_recorded (tbl : Table) (cfg : TagCfg) (hok : TagStatesOk tbl = true) (inp : Bytes) (i : Nat)
    (m : M (List Lexeme)) (hm : AtTagStart tbl m i) (t : Tag) (hspec : startTagAt inp i = some (.finished t)) :
    ∃ k, k < 2 * (t.stop - i) ∧
      ((∃ e, ∀ fuel, (runLoop ⟨tbl, cfg, recOps⟩ inp (k + 1 + fuel) m).2 = .err e ∧
          (runLoop ⟨tbl, cfg, recOps⟩ inp (k + 1 + fuel) m).1.x.sink = m.x.sink) ∨
       (∃ m' : M (List Lexeme), (∀ fuel, runLoop ⟨tbl, cfg, recOps⟩ inp (k + 1 + fuel) m = runLoop ⟨tbl, cfg, recOps⟩ inp fuel m') ∧
          m'.x.sink = m.x.sink ++ [.tag ⟨m.x.prevConsumed, ⟨i, t.stop⟩,
            .startTag t.name (NameHash.ofBytes (slice inp t.name.start t.name.end)) m'.x.sim.currentNs t.attrs t.selfClosing⟩] ∧
          m'.c.nextPos = t.stop ∧ m'.c.entered = false ∧
          (m'.c.state = tbl.textState m'.c.lastTextType ∨ m'.c.state = tbl.dataState) ∧
          (∃ l, m'.r = .lexer l ∧ l.lexemeStart = t.stop ∧ l.curTag = none))) := by
  obtain ⟨k, cJ, lJ, tr, hk, hregs, htr, hrun⟩ := C16_outline ⟨tbl, cfg, recOps⟩ hok inp i m hm t hspec
  refine ⟨k, hk, ?_⟩
  rcases C16_emit_tag ⟨tbl, cfg, recOps⟩ inp m i t cJ lJ hregs (by omega) with ⟨e, m', heq, hsink⟩ | ⟨c', sim', a1, _, _, heq⟩
  · left
    refine ⟨e, fun fuel => ?_⟩
    rw [hrun fuel, heq]
    exact ⟨rfl, hsink⟩
  · right
    generalize hr : lexEmitTagLexeme ⟨tbl, cfg, recOps⟩ inp c' { lJ with curTag := none, fd := .none } m.x sim'
        (.startTag t.name (NameHash.ofBytes (slice inp t.name.start t.name.end)) sim'.currentNs t.attrs t.selfClosing) t.stop
        = r at heq
    have hr2 : r.2 = none := by rw [← hr]; simp [lexEmitTagLexeme, recOps]
    have hrc : r.1.c = c' := by rw [← hr]; simp [lexEmitTagLexeme, recOps]
    have hrsim : r.1.x.sim = sim' := by rw [← hr]; simp [lexEmitTagLexeme, recOps]
    have hrsink : r.1.x.sink = m.x.sink ++ [.tag ⟨m.x.prevConsumed, ⟨i, t.stop⟩,
        .startTag t.name (NameHash.ofBytes (slice inp t.name.start t.name.end)) sim'.currentNs t.attrs t.selfClosing⟩] := by
      rw [← hr]; simp [lexEmitTagLexeme, recOps, hregs.lexemeStart]
    have hrl : ∃ l, r.1.r = .lexer l ∧ l.lexemeStart = t.stop ∧ l.curTag = none := by
      rw [← hr]; exact ⟨_, rfl, rfl, rfl⟩
    obtain ⟨rm, rs⟩ := r
    simp only at hr2 hrc hrsim hrsink hrl
    subst hr2
    have htr' : tr = .gotoDyn ∨ tr = .goto tbl.dataState := by
      rcases htr with h | h
      · exact Or.inl h
      · rw [h]; exact trans36_cases tbl
    rcases htr' with rfl | rfl
    · refine ⟨(applyTrans ⟨tbl, cfg, recOps⟩ .gotoDyn rm).1, fun fuel => ?_, ?_⟩
      · rw [hrun fuel, heq]; rfl
      · simp [applyTrans, hrc, hrsim, hrsink, a1, hrl]
    · refine ⟨(applyTrans ⟨tbl, cfg, recOps⟩ (.goto tbl.dataState) rm).1, fun fuel => ?_, ?_⟩
      · rw [hrun fuel, heq]; rfl
      · simp [applyTrans, hrc, hrsim, hrsink, a1, hrl]

/-- In HTML content with the ambiguity guard off and no feedback directive pending, the simulator never
refuses a start tag: with the recording sink `emit_tag` does not signal. -/
theorem lexEmitTag_rec_html (tbl : Table) (cfg : TagCfg) (inp : Bytes) (c : Common) (l : LexRegs) (x : Ctx (List Lexeme))
    {n : Range} {h : Nat} {ns0 : Ns} {as : List AttrOutline} {sc : Bool}
    (hct : l.curTag = some (.startTag n h ns0 as sc)) (hs : x.sim.strict = false) (hn : x.sim.currentNs = .html)
    (hfd : l.fd = .none) : (lexEmitTag ⟨tbl, cfg, recOps⟩ inp c l x).2 = none := by
  unfold lexEmitTag
  rw [hct]
  simp only [hfd, lexGetFeedback, Sim.feedbackForStartTag, hs, Bool.false_eq_true, if_false, hn]
  by_cases h1 : h = cfg.svg
  · simp [h1, Except.map, Sim.enterNs, lexHandleFeedback, lexStampTag, lexEmitTagLexeme, recOps]
  · by_cases h2 : h = cfg.math
    · subst h2
      simp [h1, Except.map, Sim.enterNs, lexHandleFeedback, lexStampTag, lexEmitTagLexeme, recOps]
    · have htta : (∃ t, textTypeAdjustment cfg h = .switchTextType t) ∨ textTypeAdjustment cfg h = .none := by
        unfold textTypeAdjustment
        (repeat' split) <;> first | exact Or.inl ⟨_, rfl⟩ | exact Or.inr rfl
      rcases htta with ⟨t, ht⟩ | ht <;>
        simp [h1, h2, ht, Except.map, lexHandleFeedback, lexStampTag, lexEmitTagLexeme, recOps]

/-- **C16_outline_recorded_html.** From a machine whose simulator is in HTML content with the ambiguity guard off
and no feedback directive pending (e.g. the lexer of a fresh non-strict parser): the tag lexeme IS recorded — the
"simulator refused" alternative of `C16_outline_recorded` cannot occur. -/
theorem C16_outline_recorded_html (tbl : Table) (cfg : TagCfg) (hok : TagStatesOk tbl = true) (inp : Bytes) (i : Nat)
    (m : M (List Lexeme)) (hm : AtTagStart tbl m i) (t : Tag) (hspec : startTagAt inp i = some (.finished t))
    (hs : m.x.sim.strict = false) (hn : m.x.sim.currentNs = .html) (hfd : ∀ l, m.r = .lexer l → l.fd = .none) :
    ∃ k, k < 2 * (t.stop - i) ∧
      ∃ m' : M (List Lexeme), (∀ fuel, runLoop ⟨tbl, cfg, recOps⟩ inp (k + 1 + fuel) m = runLoop ⟨tbl, cfg, recOps⟩ inp fuel m') ∧
        m'.x.sink = m.x.sink ++ [.tag ⟨m.x.prevConsumed, ⟨i, t.stop⟩,
          .startTag t.name (NameHash.ofBytes (slice inp t.name.start t.name.end)) m'.x.sim.currentNs t.attrs t.selfClosing⟩] ∧
        m'.c.nextPos = t.stop ∧ m'.c.entered = false ∧
        (m'.c.state = tbl.textState m'.c.lastTextType ∨ m'.c.state = tbl.dataState) ∧
        (∃ l, m'.r = .lexer l ∧ l.lexemeStart = t.stop ∧ l.curTag = none) := by
  -- the same `k` and registers as in `C16_outline`; `emit_tag` on them does not signal
  obtain ⟨k, cJ, lJ, tr, hk, hregs, htr, hrun⟩ := C16_outline ⟨tbl, cfg, recOps⟩ hok inp i m hm t hspec
  obtain ⟨l0, hl0, _⟩ := hm.lexer
  have hfdJ : lJ.fd = .none := by rw [(hregs.fd l0 hl0).1]; exact hfd l0 hl0
  have hnone := lexEmitTag_rec_html tbl cfg inp cJ lJ m.x hregs.curTag hs hn hfdJ
  rcases C16_emit_tag ⟨tbl, cfg, recOps⟩ inp m i t cJ lJ hregs (by omega) with ⟨e, m', heq, _⟩ | ⟨c', sim', a1, _, _, heq⟩
  · rw [heq] at hnone; simp at hnone
  · refine ⟨k, hk, ?_⟩
    generalize hr : lexEmitTagLexeme ⟨tbl, cfg, recOps⟩ inp c' { lJ with curTag := none, fd := .none } m.x sim'
        (.startTag t.name (NameHash.ofBytes (slice inp t.name.start t.name.end)) sim'.currentNs t.attrs t.selfClosing) t.stop
        = r at heq
    have hr2 : r.2 = none := by rw [← hr]; simp [lexEmitTagLexeme, recOps]
    have hrc : r.1.c = c' := by rw [← hr]; simp [lexEmitTagLexeme, recOps]
    have hrsim : r.1.x.sim = sim' := by rw [← hr]; simp [lexEmitTagLexeme, recOps]
    have hrsink : r.1.x.sink = m.x.sink ++ [.tag ⟨m.x.prevConsumed, ⟨i, t.stop⟩,
        .startTag t.name (NameHash.ofBytes (slice inp t.name.start t.name.end)) sim'.currentNs t.attrs t.selfClosing⟩] := by
      rw [← hr]; simp [lexEmitTagLexeme, recOps, hregs.lexemeStart]
    have hrl : ∃ l, r.1.r = .lexer l ∧ l.lexemeStart = t.stop ∧ l.curTag = none := by
      rw [← hr]; exact ⟨_, rfl, rfl, rfl⟩
    obtain ⟨rm, rs⟩ := r
    simp only at hr2 hrc hrsim hrsink hrl
    subst hr2
    have htr' : tr = .gotoDyn ∨ tr = .goto tbl.dataState := by
      rcases htr with h | h
      · exact Or.inl h
      · rw [h]; exact trans36_cases tbl
    rcases htr' with rfl | rfl
    · refine ⟨(applyTrans ⟨tbl, cfg, recOps⟩ .gotoDyn rm).1, fun fuel => ?_, ?_⟩
      · rw [hrun fuel, heq]; rfl
      · simp [applyTrans, hrc, hrsim, hrsink, a1, hrl]
    · refine ⟨(applyTrans ⟨tbl, cfg, recOps⟩ (.goto tbl.dataState) rm).1, fun fuel => ?_, ?_⟩
      · rw [hrun fuel, heq]; rfl
      · simp [applyTrans, hrc, hrsim, hrsink, a1, hrl]

/-- **C16_outline_unfinished_recorded.** With the recording sink: if the spec says the tag is unfinished,
the run to the end of the input records no tag lexeme — at most the raw remainder `[i, |inp|)` without a
token and the EOF lexeme (last chunk), or nothing at all (more input may come). -/
theorem C16_outline_unfinished_recorded (tbl : Table) (cfg : TagCfg) (hok : TagStatesOk tbl = true) (inp : Bytes) (i : Nat)
    (m : M (List Lexeme)) (hm : AtTagStart tbl m i) (hspec : startTagAt inp i = some .unfinished) :
    ∃ k, ∀ fuel, ∃ extra : List NonTagLexeme,
      (runLoop ⟨tbl, cfg, recOps⟩ inp (k + 1 + fuel) m).1.x.sink = m.x.sink ++ extra.map .nonTag ∧
      (m.c.isLast = false → extra = []) := by
  obtain ⟨k, cE, lE, e1, e2, e3, hrun⟩ := C16_outline_unfinished ⟨tbl, cfg, recOps⟩ hok inp i m hm hspec
  refine ⟨k, fun fuel => ?_⟩
  rw [hrun fuel]
  have hsig : ∀ r : M (List Lexeme) × Option Signal, r.2.isSome = true →
      (cont ⟨tbl, cfg, recOps⟩ inp fuel r).1 = r.1 := by
    intro r hr
    unfold cont
    cases h : r.2 with
    | none => simp [h] at hr
    | some s => rfl
  -- the end-of-input step always signals (error, directive or end of input)
  have hbrk : ∀ m0 : M (List Lexeme), (breakOnEndOfInput inp m0).2.isSome = true := by
    intro m0
    unfold breakOnEndOfInput
    dsimp only
    (repeat' split) <;> rfl
  have hsome : (eofStep ⟨tbl, cfg, recOps⟩ inp cE lE m.x).2.isSome = true := by
    unfold eofStep
    split
    · split
      · rfl
      · exact hbrk _
    · exact hbrk _
  rw [hsig _ hsome]
  by_cases hl : m.c.isLast = true
  · rcases eofStep_sink ⟨tbl, cfg, recOps⟩ inp cE lE m.x with h | ⟨lx, h⟩ | ⟨lx, lx', h⟩
    · exact ⟨[], by simp [h], fun _ => rfl⟩
    · exact ⟨[lx], by rw [h]; simp [recOps], fun hc => by simp [hl] at hc⟩
    · exact ⟨[lx, lx'], by rw [h]; simp [recOps], fun hc => by simp [hl] at hc⟩
  · refine ⟨[], ?_, fun _ => rfl⟩
    have : cE.isLast = false := by rw [e2]; simpa using hl
    unfold eofStep
    rw [if_neg (by simp [this])]
    rw [breakOnEndOfInput_sink]
    simp

/-- C16_outline on the table generated from the current Rust sources. -/
theorem C16_outline_gen (cfg : TagCfg) (ops : SinkOps κ) (inp : Bytes) (i : Nat) (m : M κ)
    (hm : AtTagStart Gen.Syntax.table m i) (t : Tag) (hspec : startTagAt inp i = some (.finished t)) :
    ∃ k cJ lJ tr, k < 2 * (t.stop - i) ∧ EmitRegs inp m i t cJ lJ ∧ (tr = .gotoDyn ∨ tr = .goto 2) ∧
      ∀ fuel, runLoop ⟨Gen.Syntax.table, cfg, ops⟩ inp (k + 1 + fuel) m =
        cont ⟨Gen.Syntax.table, cfg, ops⟩ inp fuel (finish ⟨Gen.Syntax.table, cfg, ops⟩ tr (lexEmitTag ⟨Gen.Syntax.table, cfg, ops⟩ inp cJ lJ m.x)) := by
  obtain ⟨k, cJ, lJ, tr, h1, h2, h3, h4⟩ := C16_outline ⟨Gen.Syntax.table, cfg, ops⟩ tagStates_gen inp i m hm t hspec
  refine ⟨k, cJ, lJ, tr, h1, h2, ?_, h4⟩
  rcases h3 with h | h
  · exact Or.inl h
  · rw [h]; exact trans36_cases Gen.Syntax.table

/-! ### Non-vacuity: a concrete run on the generated table -/

/-- the lexer of a fresh parser (non-strict simulator, HTML namespace) -/
def m0 : M (List Lexeme) := ⟨{ state := 2 }, .lexer {}, { sink := [], sim := Sim.new false }⟩

/-- `<a b=c d="e f" g/>` -/
def sample : Bytes := [60,97,32,98,61,99,32,100,61,34,101,32,102,34,32,103,47,62]

example : AtTagStart Gen.Syntax.table m0 0 := ⟨rfl, rfl, ⟨_, rfl, rfl⟩, Or.inl rfl⟩

example : startTagAt sample 0 = some (.finished ⟨⟨1,2⟩,
    [⟨⟨3,4⟩,⟨5,6⟩,⟨3,6⟩⟩, ⟨⟨7,8⟩,⟨10,13⟩,⟨7,14⟩⟩, ⟨⟨15,16⟩,⟨16,16⟩,⟨15,16⟩⟩], true, 18⟩) := by decide +kernel

/-- the run of the model on the sample: exactly the lexeme the theorem predicts, then end of input -/
example : (runLoop ⟨Gen.Syntax.table, Gen.Tags.cfg, recOps⟩ sample 40 m0).1.x.sink =
    [.tag ⟨0, ⟨0, 18⟩, .startTag ⟨1,2⟩ (NameHash.ofBytes [97]) .html
      [⟨⟨3,4⟩,⟨5,6⟩,⟨3,6⟩⟩, ⟨⟨7,8⟩,⟨10,13⟩,⟨7,14⟩⟩, ⟨⟨15,16⟩,⟨16,16⟩,⟨15,16⟩⟩] true⟩] := by decide +kernel

/-- `<a b='c` never finishes: nothing but the raw remainder and EOF is recorded on the last chunk -/
example : startTagAt [60,97,32,98,61,39,99] 0 = some .unfinished := by decide +kernel
example : (runLoop ⟨Gen.Syntax.table, Gen.Tags.cfg, recOps⟩ [60,97,32,98,61,39,99] 40
      ⟨{ state := 2, isLast := true }, .lexer {}, { sink := [], sim := Sim.new false }⟩).1.x.sink =
    [.nonTag ⟨0, ⟨0, 7⟩, none⟩, .nonTag ⟨0, ⟨7, 7⟩, some .eof⟩] := by decide +kernel

/-- across a break: `xy<a b='c` then ` d'>`, the tag starting at 2 (the text `xy` already handed over) -/
def brk1 : Bytes := [120,121,60,97,32,98,61,39,99]
def brk2 : Bytes := [32,100,39,62]
def mBrk : M (List Lexeme) := ⟨{ state := 2, nextPos := 2 }, .lexer { lexemeStart := 2 }, { sink := [], sim := Sim.new false }⟩

example : AtTagStart Gen.Syntax.table mBrk 2 := ⟨rfl, rfl, ⟨_, rfl, rfl⟩, Or.inl rfl⟩
example : startTagAt brk1 2 = some .unfinished := by decide +kernel
example : startTagAt (brk1 ++ brk2) 2 = some (.finished ⟨⟨3,4⟩, [⟨⟨5,6⟩,⟨8,11⟩,⟨5,12⟩⟩], false, 13⟩) := by decide +kernel
/-- first slice: nothing emitted, 2 bytes consumed … -/
example : (runLoop ⟨Gen.Syntax.table, Gen.Tags.cfg, recOps⟩ brk1 40 mBrk).2 = .endOfInput 2 ∧
    (runLoop ⟨Gen.Syntax.table, Gen.Tags.cfg, recOps⟩ brk1 40 mBrk).1.x.sink = [] := by decide +kernel
/-- … second slice `<a b='c d'>`: the spec's outline re-based by 2 -/
example : (runLoop ⟨Gen.Syntax.table, Gen.Tags.cfg, recOps⟩ (brk1.drop 2 ++ brk2) 40
      (runLoop ⟨Gen.Syntax.table, Gen.Tags.cfg, recOps⟩ brk1 40 mBrk).1).1.x.sink =
    [.tag ⟨0, ⟨0, 11⟩, .startTag ⟨1,2⟩ (NameHash.ofBytes [97]) .html [⟨⟨3,4⟩,⟨6,9⟩,⟨3,10⟩⟩] false⟩] := by decide +kernel

/-! ## C16_lookup — `get_attribute` / `has_attribute` / `attributes()` / `tag_name()` on the token -/

open LolHtml.Model.AttrsApi

/-- the validator of the SETTER (`Attribute::name_from_string`): names that `set_attribute` accepts. Lookups and
`remove_attribute` do NOT go through it (`Attribute::lookup_name`). -/
def NameAccepted (q : Bytes) : Prop := nameFromString (asciiLowerBytes q) ≠ none

theorem nameAccepted_iff (q : Bytes) :
    NameAccepted q ↔ q ≠ [] ∧ ∀ b ∈ q, asciiLower b ∉ Gen.Consts.attrNameReject := by
  unfold NameAccepted nameFromString
  cases q with
  | nil => simp [asciiLowerBytes]
  | cons c cs =>
    simp only [asciiLowerBytes, List.map_cons, List.isEmpty_cons, Bool.false_eq_true, if_false, ne_eq,
      reduceCtorEq, not_false_eq_true, true_and]
    split
    · rename_i h
      simp only [List.any_eq_true, List.contains_iff_mem] at h
      obtain ⟨x, hx, hr⟩ := h
      simp only [not_true_eq_false, false_iff]
      intro hall
      rcases List.mem_cons.mp hx with rfl | hx'
      · exact hall c (List.mem_cons_self) hr
      · obtain ⟨y, hy, rfl⟩ := List.mem_map.mp hx'
        exact hall y (List.mem_cons_of_mem _ hy) hr
    · rename_i h
      simp only [List.any_eq_true, List.contains_iff_mem, not_exists, not_and] at h
      simp only [reduceCtorEq, not_false_eq_true, true_iff]
      intro b hb
      rcases List.mem_cons.mp hb with rfl | hb'
      · exact h _ (List.mem_cons_self)
      · exact h _ (List.mem_cons_of_mem _ (List.mem_map.mpr ⟨b, hb', rfl⟩))


/-- **C16_lookup** (full strength). For EVERY query, `get_attribute` returns the value of the FIRST attribute whose
name equals the query ASCII-case-insensitively (`none` if there is none) and `has_attribute` says whether there is one. -/
theorem C16_lookup (attrs : AttrList) (q : Bytes) :
    getAttribute attrs q = (attrs.find? fun a => eqIgnoreAsciiCase a.1 q).map (·.2.1) ∧
    hasAttribute attrs q = attrs.any fun a => eqIgnoreAsciiCase a.1 q := by
  have hm : mapAttribute attrs q = attrs.find? fun a => eqIgnoreAsciiCase a.1 q := rfl
  unfold getAttribute hasAttribute
  rw [hm]
  refine ⟨rfl, ?_⟩
  clear hm
  induction attrs with
  | nil => rfl
  | cons a as ih =>
    simp only [List.find?_cons, List.any_cons]
    cases eqIgnoreAsciiCase a.1 q <;> simp_all

/-- duplicates: the first one wins, whatever follows -/
theorem C16_lookup_first_duplicate (pre post : AttrList) (a : Bytes × Bytes × AttrOutline) (q : Bytes)
    (hpre : ∀ x ∈ pre, eqIgnoreAsciiCase x.1 q = false) (ha : eqIgnoreAsciiCase a.1 q = true) :
    getAttribute (pre ++ a :: post) q = some a.2.1 := by
  rw [(C16_lookup _ q).1]
  induction pre with
  | nil => simp [ha]
  | cons x xs ih =>
    have hx := hpre x (List.mem_cons_self)
    simp only [List.cons_append, List.find?_cons, hx]
    exact ih fun y hy => hpre y (List.mem_cons_of_mem _ hy)

/-- `attributes()` lists every attribute of the token, in order, duplicates kept, with its exact
value bytes; `tag_name()` is the lower-cased name -/
theorem C16_attributes (attrs : AttrList) :
    attributes attrs = attrs.map (fun a => (asciiLowerBytes a.1, a.2.1)) ∧
    (attributes attrs).length = attrs.length ∧ attributesPreserveCase attrs = attrs.map (fun a => (a.1, a.2.1)) :=
  ⟨rfl, by simp [attributes], rfl⟩

theorem C16_tag_name (name : Bytes) : AttrsApi.tagName name = name.map asciiLower := rfl

/-- the statement of C16's lookup clause: for EVERY query, the lookup finds the first attribute whose name matches
case-insensitively. (Refuted before the repair of F8 — `<a =b>`, query `=b` —; true now.) -/
def C16_lookup_statement : Prop :=
  ∀ (attrs : AttrList) (q : Bytes), getAttribute attrs q = (attrs.find? fun a => eqIgnoreAsciiCase a.1 q).map (·.2.1)

theorem C16_lookup_full : C16_lookup_statement := fun attrs q => (C16_lookup attrs q).1

/-- the former F8 witness: the token of `<a =b>` lists the attribute named `=b`, and `get_attribute("=b")` finds it -/
example : getAttribute [([61, 98], [], ⟨⟨3, 5⟩, ⟨5, 5⟩, ⟨3, 5⟩⟩)] [61, 98] = some [] := by decide
example : hasAttribute [([61, 98], [], ⟨⟨3, 5⟩, ⟨5, 5⟩, ⟨3, 5⟩⟩)] [61, 66] = true := by decide

/-- and that token is what the lexer really produces for `<a =b>` -/
example : (runLoop ⟨Gen.Syntax.table, Gen.Tags.cfg, recOps⟩ [60,97,32,61,98,62] 40 m0).1.x.sink =
    [.tag ⟨0, ⟨0, 6⟩, .startTag ⟨1,2⟩ (NameHash.ofBytes [97]) .html [⟨⟨3,5⟩,⟨5,5⟩,⟨3,5⟩⟩] false⟩] := by decide +kernel

example : NameAccepted [72, 82, 69, 70] := by unfold NameAccepted; decide     -- "HREF"
example : ¬NameAccepted [61, 98] := by unfold NameAccepted; decide            -- "=b": `set_attribute` still refuses it

/-! ## C16_reads_after_edits — reads after `set_attribute` / `remove_attribute` / `set_tag_name` -/

theorem lower_idem (bs : Bytes) : asciiLowerBytes (asciiLowerBytes bs) = asciiLowerBytes bs := by
  have h1 : ∀ b : UInt8, asciiLower (asciiLower b) = asciiLower b := by
    intro b
    unfold asciiLower
    by_cases h : (65 ≤ b && b ≤ 90) = true
    · simp only [h, if_true]
      have : (65 ≤ b + 32 && b + 32 ≤ 90) = false := by
        simp only [Bool.and_eq_true, decide_eq_true_eq, UInt8.le_iff_toNat_le] at h
        simp only [Bool.and_eq_false_iff, decide_eq_false_iff_not, UInt8.le_iff_toNat_le, UInt8.toNat_add]
        right
        have := h.1; have := h.2
        simp only [UInt8.toNat_ofNat] at *
        omega
      simp [this]
    · simp [h]
  simp [asciiLowerBytes, h1]

theorem eqCI_iff (a l : Bytes) : eqCaseInsensitive a l = true ↔ asciiLowerBytes a = l := by
  unfold eqCaseInsensitive; simp

theorem nameFromStringE_ok {n l : Bytes} (h : nameFromStringE n = .ok l) : l = n := by
  unfold nameFromStringE at h
  split at h
  · simp at h
  · split at h
    · simp at h
    · simpa using h.symm

/-- **Materialising the list changes no read**: before any edit the reads on the editable element are the reads
on the token (`C16_lookup`, `C16_attributes`). -/
theorem C16_reads_materialise (attrs : AttrList) (q : Bytes) :
    getAttributeE (materialise attrs) q = getAttribute attrs q ∧
    hasAttributeE (materialise attrs) q = hasAttribute attrs q ∧
    attributesE (materialise attrs) = attributes attrs ∧
    (∀ base, (materialise attrs).map (attrLocationsE base) = attrs.map (attrLocations base)) := by
  have hm : (mapAttributeE (materialise attrs) q).map (·.2.1) = (mapAttribute attrs q).map (·.2.1) := by
    unfold mapAttributeE mapAttribute
    induction attrs with
    | nil => rfl
    | cons a as ih =>
      simp only [materialise, List.map_cons, List.find?_cons]
      cases eqCaseInsensitive a.1 (lookupName q) with
      | true => rfl
      | false => exact ih
  refine ⟨hm, ?_, ?_, ?_⟩
  · unfold hasAttributeE hasAttribute
    have := congrArg (fun o : Option Bytes => (o.map fun _ => true).getD false) hm
    simpa [Option.map_map] using this
  · simp [attributesE, attributes, materialise]
  · intro base; simp [materialise, attrLocationsE]

theorem setFirst_some {l v : Bytes} {items items' : EAttrList} (h : setFirst l v items = some items') :
    ∃ pre a post, items = pre ++ a :: post ∧ (∀ b ∈ pre, eqCaseInsensitive b.1 l = false) ∧
      eqCaseInsensitive a.1 l = true ∧ items' = pre ++ (a.1, v, none) :: post := by
  induction items generalizing items' with
  | nil => simp [setFirst] at h
  | cons a rest ih =>
    unfold setFirst at h
    by_cases hc : eqCaseInsensitive a.1 l = true
    · simp only [hc, if_true, Option.some.injEq] at h
      exact ⟨[], a, rest, rfl, by simp, hc, h.symm⟩
    · simp only [hc, Bool.false_eq_true, if_false, Option.map_eq_some_iff] at h
      obtain ⟨r', hr', rfl⟩ := h
      obtain ⟨pre, a0, post, h1, h2, h3, h4⟩ := ih hr'
      refine ⟨a :: pre, a0, post, by rw [h1]; rfl, ?_, h3, by rw [h4]; rfl⟩
      intro b hb
      rcases List.mem_cons.mp hb with rfl | hb
      · simpa using hc
      · exact h2 b hb

theorem setFirst_none {l v : Bytes} {items : EAttrList} (h : setFirst l v items = none) :
    ∀ b ∈ items, eqCaseInsensitive b.1 l = false := by
  induction items with
  | nil => simp
  | cons a rest ih =>
    unfold setFirst at h
    by_cases hc : eqCaseInsensitive a.1 l = true
    · simp [hc] at h
    · simp only [hc, Bool.false_eq_true, if_false, Option.map_eq_none_iff] at h
      intro b hb
      rcases List.mem_cons.mp hb with rfl | hb
      · simpa using hc
      · exact ih h b hb

theorem find_skip {α : Type} (p : α → Bool) (pre : List α) (rest : List α) (h : ∀ b ∈ pre, p b = false) :
    (pre ++ rest).find? p = rest.find? p := by
  induction pre with
  | nil => rfl
  | cons x xs ih =>
    simp only [List.cons_append, List.find?_cons, h x List.mem_cons_self]
    exact ih fun b hb => h b (List.mem_cons_of_mem _ hb)

/-- the reads of one query, in terms of the lower-cased name -/
theorem reads_of (items : EAttrList) (q : Bytes) :
    getAttributeE items q = (items.find? fun a => eqCaseInsensitive a.1 (asciiLowerBytes q)).map (·.2.1) ∧
    hasAttributeE items q = (items.find? fun a => eqCaseInsensitive a.1 (asciiLowerBytes q)).isSome := by
  refine ⟨rfl, ?_⟩
  change ((List.find? (fun a => eqCaseInsensitive a.1 (asciiLowerBytes q)) items).map fun _ => true).getD false = _
  cases List.find? (fun a => eqCaseInsensitive a.1 (asciiLowerBytes q)) items <;> rfl

/-- **C16_reads_after_set.** After an accepted `set_attribute(x, v)`:
* `get_attribute(x) = Some(v)`, `has_attribute(x)`;
* every query naming another attribute (ASCII-case-insensitively) reads what it read before;
* the list: if an attribute named `x` existed, the FIRST one has the value `v` and has lost its source location — its
  name (with its case), its position and everything else in the list are unchanged; otherwise `lower(x)="v"` has been
  appended at the end. -/
theorem C16_reads_after_set (items items' : EAttrList) (x v : Bytes) (h : setAttribute items x v = .ok items') :
    getAttributeE items' x = some v ∧ hasAttributeE items' x = true ∧
    (∀ y, asciiLowerBytes y ≠ asciiLowerBytes x →
      getAttributeE items' y = getAttributeE items y ∧ hasAttributeE items' y = hasAttributeE items y) ∧
    ((∃ pre a post, items = pre ++ a :: post ∧ (∀ b ∈ pre, asciiLowerBytes b.1 ≠ asciiLowerBytes x) ∧
        asciiLowerBytes a.1 = asciiLowerBytes x ∧ items' = pre ++ (a.1, v, none) :: post) ∨
     ((∀ b ∈ items, asciiLowerBytes b.1 ≠ asciiLowerBytes x) ∧ items' = items ++ [(asciiLowerBytes x, v, none)])) := by
  unfold setAttribute at h
  cases hn : nameFromStringE (asciiLowerBytes x) with
  | error e => rw [hn] at h; simp at h
  | ok lname =>
    have hl := nameFromStringE_ok hn
    subst hl
    rw [hn] at h
    simp only at h
    have hne : ∀ (b : Bytes × Bytes × Option AttrOutline),
        eqCaseInsensitive b.1 (asciiLowerBytes x) = false ↔ asciiLowerBytes b.1 ≠ asciiLowerBytes x := by
      intro b
      rw [← Bool.not_eq_true, eqCI_iff]
    -- the shape of the new list
    have shape : (∃ pre a post, items = pre ++ a :: post ∧ (∀ b ∈ pre, eqCaseInsensitive b.1 (asciiLowerBytes x) = false) ∧
          eqCaseInsensitive a.1 (asciiLowerBytes x) = true ∧ items' = pre ++ (a.1, v, none) :: post) ∨
        ((∀ b ∈ items, eqCaseInsensitive b.1 (asciiLowerBytes x) = false) ∧ items' = items ++ [(asciiLowerBytes x, v, none)]) := by
      cases hs : setFirst (asciiLowerBytes x) v items with
      | some r =>
        rw [hs] at h
        simp only [Except.ok.injEq] at h
        subst h
        exact Or.inl (setFirst_some hs)
      | none =>
        rw [hs] at h
        simp only [Except.ok.injEq] at h
        exact Or.inr ⟨setFirst_none hs, h.symm⟩
    have hx := reads_of items' x
    have other : ∀ y, asciiLowerBytes y ≠ asciiLowerBytes x →
        (items'.find? fun a => eqCaseInsensitive a.1 (asciiLowerBytes y)).map (·.2.1) =
          (items.find? fun a => eqCaseInsensitive a.1 (asciiLowerBytes y)).map (·.2.1) ∧
        (items'.find? fun a => eqCaseInsensitive a.1 (asciiLowerBytes y)).isSome =
          (items.find? fun a => eqCaseInsensitive a.1 (asciiLowerBytes y)).isSome := by
      intro y hy
      rcases shape with ⟨pre, a, post, h1, h2, h3, h4⟩ | ⟨h1, h2⟩
      · have ha : eqCaseInsensitive a.1 (asciiLowerBytes y) = false := by
          rw [← Bool.not_eq_true, eqCI_iff, (eqCI_iff _ _).mp h3]
          exact fun hh => hy hh.symm
        rw [h1, h4]
        simp only [List.find?_append, List.find?_cons, ha]
        exact ⟨by first | rfl | trivial, by first | rfl | trivial⟩
      · have hnew : eqCaseInsensitive (asciiLowerBytes x) (asciiLowerBytes y) = false := by
          rw [← Bool.not_eq_true, eqCI_iff, lower_idem]
          exact fun hh => hy hh.symm
        rw [h2]
        simp only [List.find?_append, List.find?_cons, hnew, List.find?_nil, Option.or_none]
        exact ⟨by first | rfl | trivial, by first | rfl | trivial⟩
    refine ⟨?_, ?_, ?_, ?_⟩
    · rw [hx.1]
      rcases shape with ⟨pre, a, post, h1, h2, h3, h4⟩ | ⟨h1, h2⟩
      · rw [h4, find_skip _ pre _ h2]
        simp only [List.find?_cons, h3]
        rfl
      · rw [h2, find_skip _ items _ h1]
        simp [eqCaseInsensitive, lower_idem]
    · rw [hx.2]
      rcases shape with ⟨pre, a, post, h1, h2, h3, h4⟩ | ⟨h1, h2⟩
      · rw [h4, find_skip _ pre _ h2]
        simp only [List.find?_cons, h3]
        rfl
      · rw [h2, find_skip _ items _ h1]
        simp [eqCaseInsensitive, lower_idem]
    · intro y hy
      obtain ⟨a1, a2⟩ := reads_of items' y
      obtain ⟨b1, b2⟩ := reads_of items y
      rw [a1, a2, b1, b2]
      exact other y hy
    · rcases shape with ⟨pre, a, post, h1, h2, h3, h4⟩ | ⟨h1, h2⟩
      · exact Or.inl ⟨pre, a, post, h1, fun b hb => (hne b).mp (h2 b hb), (eqCI_iff _ _).mp h3, h4⟩
      · exact Or.inr ⟨fun b hb => (hne b).mp (h1 b hb), h2⟩

/-- **C16_reads_after_remove.** After `remove_attribute(x)`, for EVERY name `x` (no validation: `lookup_name`): the list
is the old list without EVERY attribute named `x` (ASCII-case-insensitively), order kept; `has_attribute(x)` is false,
`get_attribute(x)` is `None`; every other query reads what it read before; the flag the element uses to mark the tag
as modified says whether something was removed. -/
theorem C16_reads_after_remove (items : EAttrList) (x : Bytes) :
    (removeAttribute items x).1 = items.filter (fun a => asciiLowerBytes a.1 != asciiLowerBytes x) ∧
    getAttributeE (removeAttribute items x).1 x = none ∧ hasAttributeE (removeAttribute items x).1 x = false ∧
    (∀ y, asciiLowerBytes y ≠ asciiLowerBytes x →
      getAttributeE (removeAttribute items x).1 y = getAttributeE items y ∧
      hasAttributeE (removeAttribute items x).1 y = hasAttributeE items y) ∧
    ((removeAttribute items x).2 = hasAttributeE items x) := by
  have hfind : ∀ (items : EAttrList) (y : Bytes), (List.find? (fun a => eqCaseInsensitive a.1 (asciiLowerBytes y))
        (items.filter (fun a => asciiLowerBytes a.1 != asciiLowerBytes x))) =
      if asciiLowerBytes y = asciiLowerBytes x then none
      else items.find? (fun a => eqCaseInsensitive a.1 (asciiLowerBytes y)) := by
    intro items y
    induction items with
    | nil => simp
    | cons a as ih =>
      simp only [List.filter_cons]
      by_cases ha : asciiLowerBytes a.1 = asciiLowerBytes x
      · simp only [ha, bne_self_eq_false, Bool.false_eq_true, if_false, List.find?_cons]
        rw [ih]
        by_cases hy : asciiLowerBytes y = asciiLowerBytes x
        · simp [hy]
        · have : eqCaseInsensitive a.1 (asciiLowerBytes y) = false := by
            rw [← Bool.not_eq_true, eqCI_iff, ha]; exact fun hh => hy hh.symm
          simp [hy, this]
      · have hb : (asciiLowerBytes a.1 != asciiLowerBytes x) = true := by simpa using ha
        simp only [hb, if_true, List.find?_cons]
        rw [ih]
        by_cases hy : asciiLowerBytes y = asciiLowerBytes x
        · have : eqCaseInsensitive a.1 (asciiLowerBytes x) = false := by
            rw [← Bool.not_eq_true, eqCI_iff]; exact ha
          rw [hy]
          simp [this]
        · simp only [hy, if_false]
  have hflag : ∀ (items : EAttrList),
      (items.length != (items.filter (fun a => !eqCaseInsensitive a.1 (asciiLowerBytes x))).length) =
        (items.find? (fun a => eqCaseInsensitive a.1 (asciiLowerBytes x))).isSome := by
    intro items
    induction items with
    | nil => rfl
    | cons a as ih =>
      simp only [List.filter_cons, List.find?_cons]
      by_cases ha : eqCaseInsensitive a.1 (asciiLowerBytes x) = true
      · simp only [ha, Bool.not_true, Bool.false_eq_true, if_false, Option.isSome_some]
        have := List.length_filter_le (fun a => !eqCaseInsensitive a.1 (asciiLowerBytes x)) as
        simp only [List.length_cons, bne_iff_ne, ne_eq]
        omega
      · have ha' : eqCaseInsensitive a.1 (asciiLowerBytes x) = false := by simpa using ha
        simp only [ha', Bool.not_false, if_true, List.length_cons]
        rw [← ih]
        by_cases hlen : as.length = (List.filter (fun a => !eqCaseInsensitive a.1 (asciiLowerBytes x)) as).length
        · simp [hlen]
        · simp [hlen]
  have hrm : (removeAttribute items x).1 = items.filter (fun a => asciiLowerBytes a.1 != asciiLowerBytes x) := by
    unfold removeAttribute lookupName
    simp only
    congr 1
  refine ⟨hrm, ?_, ?_, ?_, ?_⟩
  · rw [(reads_of _ x).1, hrm, hfind]; simp
  · rw [(reads_of _ x).2, hrm, hfind]; simp
  · intro y hy
    obtain ⟨a1, a2⟩ := reads_of (removeAttribute items x).1 y
    obtain ⟨b1, b2⟩ := reads_of items y
    rw [a1, a2, b1, b2, hrm, hfind, if_neg hy]
    exact ⟨by first | rfl | trivial, by first | rfl | trivial⟩
  · rw [(reads_of items x).2, ← hflag]
    rfl

/-- the statement for `remove_attribute`: afterwards no listed attribute has that name. (Refuted before the repair of
F8 — `<a =b>`, `remove_attribute("=b")` —; true now.) -/
def C16_remove_statement : Prop :=
  ∀ (items : EAttrList) (x : Bytes), ∀ a ∈ (removeAttribute items x).1, asciiLowerBytes a.1 ≠ asciiLowerBytes x

theorem C16_remove_full : C16_remove_statement := by
  intro items x a ha
  rw [(C16_reads_after_remove items x).1, List.mem_filter] at ha
  simpa using ha.2

/-- the former F8 witness: `remove_attribute("=b")` on `<a =b>` removes the attribute -/
example : (removeAttribute [([61, 98], [], none)] [61, 98]).1 = [] := by decide

/-- **C16_reads_after_rename.** An accepted `set_tag_name(n)` stores `n` as given: `tag_name()` is its lower-casing,
`tag_name_preserve_case()` is `n`; the attributes are untouched. -/
theorem C16_reads_after_rename (t : ETag) (n nm : Bytes) (h : tagNameFromStr n = .ok nm) :
    (t.apply (.rename n)).2 = .ok ∧ AttrsApi.tagName (t.apply (.rename n)).1.name = asciiLowerBytes n ∧
    (t.apply (.rename n)).1.name = n ∧ (t.apply (.rename n)).1.items = t.items := by
  have hnm : nm = n := by
    unfold tagNameFromStr at h
    split at h
    · simp at h
    · split at h
      · simp at h
      · split at h
        · simp at h
        · simpa using h.symm
  subst hnm
  simp only [ETag.apply, h]
  refine ⟨?_, ?_, ?_, ?_⟩ <;> first | rfl | trivial

/-- an edit that reports an error changes nothing -/
theorem C16_rejected_edit_noop (t : ETag) (e : Edit) (h : (t.apply e).2 ≠ .ok) : (t.apply e).1 = t := by
  cases e with
  | set n v =>
    simp only [ETag.apply] at h ⊢
    split <;> simp_all
  | remove n => simp [ETag.apply] at h
  | rename n =>
    simp only [ETag.apply] at h ⊢
    split <;> simp_all

/-- **C16_reads_after_edits.** The three clauses together, on the element as a handler edits it (`ETag.apply`):
reads after `set_attribute` / `remove_attribute` / `set_tag_name` on the same token reflect exactly those edits. -/
theorem C16_reads_after_edits (t : ETag) :
    (∀ x v, (t.apply (.set x v)).2 = .ok →
      getAttributeE (t.apply (.set x v)).1.items x = some v ∧
      (∀ y, asciiLowerBytes y ≠ asciiLowerBytes x →
        getAttributeE (t.apply (.set x v)).1.items y = getAttributeE t.items y) ∧
      (t.apply (.set x v)).1.name = t.name ∧
      ((t.apply (.set x v)).1.items.map (·.1) = t.items.map (·.1) ∨
       (t.apply (.set x v)).1.items = t.items ++ [(asciiLowerBytes x, v, none)])) ∧
    (∀ x,
      hasAttributeE (t.apply (.remove x)).1.items x = false ∧
      (∀ y, asciiLowerBytes y ≠ asciiLowerBytes x →
        getAttributeE (t.apply (.remove x)).1.items y = getAttributeE t.items y) ∧
      (t.apply (.remove x)).1.name = t.name ∧
      (t.apply (.remove x)).1.items = t.items.filter (fun a => asciiLowerBytes a.1 != asciiLowerBytes x)) ∧
    (∀ n, (t.apply (.rename n)).2 = .ok →
      AttrsApi.tagName (t.apply (.rename n)).1.name = asciiLowerBytes n ∧ (t.apply (.rename n)).1.items = t.items) := by
  refine ⟨?_, ?_, ?_⟩
  · intro x v hok
    cases hs : setAttribute t.items x v with
    | error e => simp [ETag.apply, hs] at hok
    | ok items' =>
      obtain ⟨a, _, c, d⟩ := C16_reads_after_set t.items items' x v hs
      simp only [ETag.apply, hs]
      refine ⟨a, fun y hy => (c y hy).1, by first | rfl | trivial, ?_⟩
      rcases d with ⟨pre, a0, post, h1, _, _, h4⟩ | ⟨_, h2⟩
      · left; rw [h1, h4]; simp
      · right; exact h2
  · intro x
    obtain ⟨a, _, c, d, _⟩ := C16_reads_after_remove t.items x
    simp only [ETag.apply]
    exact ⟨c, fun y hy => (d y hy).1, by first | rfl | trivial, a⟩
  · intro n hok
    cases hs : tagNameFromStr n with
    | error e => simp [ETag.apply, hs] at hok
    | ok nm =>
      obtain ⟨_, b, _, d⟩ := C16_reads_after_rename t n nm hs
      exact ⟨b, d⟩

/-- the coordinator's seeded defect, as an instance: on an attribute-less tag, `set x` then `remove X` leaves nothing -/
example : (ETag.applyAll ⟨[97], materialise []⟩ [.set [120] [49], .remove [88]]).1.items = [] := by decide
example : (ETag.applyAll ⟨[97], materialise []⟩ [.remove [88], .set [120] [49], .rename [68, 73, 86]]).1 =
    ⟨[68, 73, 86], [([120], [49], none)]⟩ := by decide
/-- duplicates: `set` touches the first, `remove` takes all -/
example : (ETag.applyAll ⟨[97], [([88], [49], none), ([120], [50], none)]⟩ [.set [120] [51]]).1.items =
    [([88], [51], none), ([120], [50], none)] := by decide
example : (ETag.applyAll ⟨[97], [([88], [49], none), ([98], [], none), ([120], [50], none)]⟩ [.remove [120]]).1.items =
    [([98], [], none)] := by decide

/-! ## C16_context — `can_have_content`, `namespace_uri` -/

/-- side-condition on the generated tag lists: the fast-path list of `is_void_element` (Div, A, Span,
Li) is disjoint from the void list, so the fast path changes nothing -/
theorem voidLists_gen : Gen.Tags.cfg.nonVoidFast.all (fun h => !Gen.Tags.cfg.void.contains h) = true := by decide +kernel

/-- the 17 void elements of the standard: the elements its tree builder inserts and immediately pops -/
def stdVoid : List Nat :=
  [[97,114,101,97], [98,97,115,101], [98,97,115,101,102,111,110,116], [98,103,115,111,117,110,100],
   [98,114], [99,111,108], [101,109,98,101,100], [104,114], [105,109,103], [105,110,112,117,116],
   [107,101,121,103,101,110], [108,105,110,107], [109,101,116,97], [112,97,114,97,109],
   [115,111,117,114,99,101], [116,114,97,99,107], [119,98,114]].map NameHash.ofBytes

/-- the void list of the code contains exactly the hashes of area base basefont bgsound br col embed hr img input
keygen link meta param source track wbr — as a SET: the order in which the Rust lists them does not matter -/
theorem voidList_gen : Gen.Tags.cfg.void.all (fun h => stdVoid.contains h) = true ∧
    stdVoid.all (fun h => Gen.Tags.cfg.void.contains h) = true := by decide +kernel

/-- **C16_context (content).** In the HTML namespace an element can have content iff its name is not in
the void list (names without a hash never are); in SVG / MathML iff the tag is not self-closing. -/
theorem C16_context (cfg : TagCfg) (hfast : cfg.nonVoidFast.all (fun h => !cfg.void.contains h) = true)
    (name : LocalName) (ns : Ns) (sc : Bool) :
    canHaveContent cfg name ns sc =
      match ns, name with
      | .html, .hash h => !cfg.void.contains h
      | .html, .bytes _ => true
      | _, _ => !sc := by
  unfold canHaveContent
  cases ns <;> cases name <;> simp [isVoidElement]
  rename_i h
  intro hv
  simp only [List.all_eq_true, Bool.not_eq_true'] at hfast
  have := hfast h hv
  simpa using this

theorem C16_context_gen (name : LocalName) (ns : Ns) (sc : Bool) :
    canHaveContent Gen.Tags.cfg name ns sc =
      match ns, name with
      | .html, .hash h => !Gen.Tags.cfg.void.contains h
      | .html, .bytes _ => true
      | _, _ => !sc :=
  C16_context Gen.Tags.cfg voidLists_gen name ns sc

/-- The namespace the standard's tree construction gives an element whose start tag is seen while the
adjusted current node is in namespace `ns0` ("in body" for HTML: `svg` / `math` start their namespace;
"in foreign content": a breakout tag is an HTML element, anything else — integration points such as
`desc` included — is an element of `ns0`). -/
def expectedNs (cfg : TagCfg) (ns0 : Ns) (h : Nat) : Ns :=
  match ns0 with
  | .html => if h == cfg.svg then .svg else if h == cfg.math then .mathml else .html
  | ns0 => if cfg.foreignExit.contains h then .html else ns0

/-- namespaces of the recorded tag lexemes -/
def tagNamespaces (log : List Lexeme) : List Ns :=
  log.filterMap fun
    | .tag ⟨_, _, .startTag _ _ ns _ _⟩ => some ns
    | _ => none

/-- the full-strength statement of the namespace clause for `<svg><NAME>`: the second element is
reported in the namespace the standard gives it -/
def C16_namespace_statement : Prop :=
  ∀ name : Bytes, name.all isAsciiAlpha = true → name ≠ [] →
    tagNamespaces (runLoop ⟨Gen.Syntax.table, Gen.Tags.cfg, recOps⟩ ([60,115,118,103,62,60] ++ name ++ [62]) 200 m0).1.x.sink
      = [.svg, expectedNs Gen.Tags.cfg .svg (NameHash.ofBytes name)]

/-- **F9** (`<svg><desc>`): `emit_tag` stamps the lexeme with the simulator's namespace AFTER the tag's
own feedback has been applied (proved in general as part of `C16_outline_recorded`: the namespace of
the lexeme is `m'.x.sim.currentNs`), so the integration point `desc` is reported as XHTML; the standard
(and html5ever) make it an SVG element. -/
theorem C16_namespace_counterexample : ¬C16_namespace_statement := by
  intro h
  have := h [100, 101, 115, 99] (by decide) (by decide)
  revert this
  decide +kernel

/-- what the code reports for `<svg><desc>` and for `<svg><g>` -/
example : tagNamespaces (runLoop ⟨Gen.Syntax.table, Gen.Tags.cfg, recOps⟩ [60,115,118,103,62,60,100,101,115,99,62] 200 m0).1.x.sink
    = [.svg, .html] := by decide +kernel
example : tagNamespaces (runLoop ⟨Gen.Syntax.table, Gen.Tags.cfg, recOps⟩ [60,115,118,103,62,60,103,62] 200 m0).1.x.sink
    = [.svg, .svg] := by decide +kernel

end LolHtml.Thm.C16
