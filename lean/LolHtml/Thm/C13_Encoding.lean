/-
Property C13 — character-encoding fidelity.

Vocabulary (all executable definitions; the lane `enc` runs exactly these):
  * `Codec` / `Codec.Lawful` / `Encoding.Lawful`   Model/Codec.lean, Spec/Enc.lean — the assumed interface
  * `Codec.decodeAll c bytes`                      whole-buffer decode with U+FFFD replacement (the spec)
  * `Policy c`                                     where the decoder reports `OutputFull` (any behaviour)
  * `textNode e pol cap start parts`               `feed_text` on each piece, then `flush_pending`
  * `chunksText`, `oneLastAtEnd`, `rangesContiguous`, `rangesOrdered`        Spec/Enc.lean
-/
import LolHtml.Lemmas.EncFeed
import LolHtml.Lemmas.EncUtf8
import LolHtml.Lemmas.EncEncoder
import LolHtml.Lemmas.EncResync
import LolHtml.Lemmas.EncScan
import LolHtml.Lemmas.EncMeta

namespace LolHtml.Enc

/-! ## C13_decoder -/

/-- **C13_decoder.** For every lawful encoding, every buffer length `cap ≥ 4`, every `OutputFull`
behaviour `pol` of the decoder, every source offset and every split of a text node's bytes into
consecutive `feed_text` calls (each span starting where the previous one ended; empty pieces included)
followed by `flush_pending`:
the model never runs out of fuel; the concatenation of the strings the handlers read is the
whole-buffer decode of the concatenated bytes; exactly one chunk is `last_in_text_node`, it is the
final one and its range ends at the end of the node; chunk source ranges are contiguous and cover
exactly `[start, start+len)`. -/
theorem C13_decoder (e : Encoding) (EL : e.Lawful) (pol : Policy e.codec) (cap : Nat) (hcap : 4 ≤ cap)
    (start : Nat) (parts : List Bytes) (hne : parts ≠ []) :
    ∃ cs, textNode e pol cap start parts = some cs ∧
      chunksText cs = e.codec.decodeAll parts.flatten ∧
      oneLastAtEnd cs (start + parts.flatten.length) ∧
      rangesContiguous start cs (start + parts.flatten.length) :=
  textNodeWith_ok pol EL cap hcap true start parts hne

/-- The C13/C14 statement about ranges on its own: whatever a text node delivers, its chunk ranges are
contiguous and cover `[start, start+len)` (true since /repo commit 94474aa; before it the bytes a
multi-byte character left in the streaming decoder at the end of a `feed_text` belonged to no chunk). -/
def C13_ranges_statement : Prop :=
  ∀ (e : Encoding), e.Lawful → ∀ (pol : Policy e.codec) (cap : Nat), 4 ≤ cap →
    ∀ (start : Nat) (parts : List Bytes), parts ≠ [] →
      ∀ cs, textNode e pol cap start parts = some cs →
        rangesContiguous start cs (start + parts.flatten.length)

theorem C13_ranges : C13_ranges_statement := by
  intro e EL pol cap hcap start parts hne cs h
  obtain ⟨cs', h', _, _, r⟩ := C13_decoder e EL pol cap hcap start parts hne
  rw [h] at h'
  cases h'
  exact r

/-- in particular they are ordered and pairwise non-overlapping -/
theorem C13_ranges_ordered (e : Encoding) (EL : e.Lawful) (pol : Policy e.codec) (cap : Nat)
    (hcap : 4 ≤ cap) (start : Nat) (parts : List Bytes) (hne : parts ≠ []) (cs : List Chunk)
    (h : textNode e pol cap start parts = some cs) :
    rangesOrdered start cs (start + parts.flatten.length) :=
  rangesContiguous_ordered (C13_ranges e EL pol cap hcap start parts hne cs h)

/-- The former counterexample, now covered: UTF-8, `€` = E2 82 AC fed as `[E2]`, `[82 AC]` (a write
boundary inside the character): the chunk `"€"` has source range `0..3`. -/
example : textNode utf8 (Policy.greedy _) 1024 0 [[0xE2], [0x82, 0xAC]]
    = some [⟨[Char.ofNat 0x20AC], false, 0, 3⟩, ⟨[], true, 3, 3⟩] := by decide +kernel

/-- When the same decoder call also wrote something, the held-back bytes are inside that chunk's range:
`a E2 | 82 AC` → `"a"` at 5..7, `"€"` at 7..9 (contiguous; the cut between chunks is the write boundary). -/
example : textNode utf8 (Policy.greedy _) 1024 5 [[0x61, 0xE2], [0x82, 0xAC]]
    = some [⟨[Char.ofNat 0x61], false, 5, 7⟩, ⟨[Char.ofNat 0x20AC], false, 7, 9⟩, ⟨[], true, 9, 9⟩] := by
  decide +kernel

/-- Non-vacuity: the hypotheses hold for UTF-8, windows-1252 and the toy two-byte code, with both
extreme policies and a 4-byte buffer, on an input with a split multi-byte character, a malformed
byte and a truncated tail. -/
example : ∃ cs, textNode utf8 (Policy.lazy _) 4 7 [[0x61, 0xE2], [], [0x82, 0xAC, 0xFF, 0xC3]] = some cs ∧
    chunksText cs = utf8Codec.decodeAll [0x61, 0xE2, 0x82, 0xAC, 0xFF, 0xC3] ∧
    oneLastAtEnd cs (7 + 6) ∧ rangesContiguous 7 cs (7 + 6) :=
  C13_decoder utf8 utf8_lawful (Policy.lazy _) 4 (by omega) 7 _ (by simp)

example : utf8Codec.decodeAll [0x61, 0xE2, 0x82, 0xAC, 0xFF, 0xC3]
    = [Char.ofNat 0x61, Char.ofNat 0x20AC, Char.ofNat 0xFFFD, Char.ofNat 0xFFFD] := by decide +kernel

example : ∃ cs, textNode toy2Enc (Policy.greedy _) 5 0 [[0x81], [0x41, 0x9F]] = some cs ∧
    chunksText cs = toy2.decodeAll [0x81, 0x41, 0x9F] ∧ oneLastAtEnd cs 3 ∧ rangesContiguous 0 cs 3 :=
  C13_decoder toy2Enc toy2Enc_lawful (Policy.greedy _) 5 (by omega) 0 _ (by simp)

example : windows1252.Lawful := windows1252_lawful

/-! ## C13_fastpath -/

/-- **C13_fastpath.** The UTF-8/ASCII fast path (`split_utf8_start`) is observationally equivalent to
the slow path: with the fast path switched off the handlers read the same concatenated text (and the
same `last` structure); both equal the whole-buffer decode. -/
theorem C13_fastpath (e : Encoding) (EL : e.Lawful) (pol pol' : Policy e.codec) (cap : Nat)
    (hcap : 4 ≤ cap) (start : Nat) (parts : List Bytes) (hne : parts ≠ []) :
    ∃ cs cs', textNodeWith true e pol cap start parts = some cs ∧
      textNodeWith false e pol' cap start parts = some cs' ∧
      chunksText cs = chunksText cs' ∧
      oneLastAtEnd cs (start + parts.flatten.length) ∧
      oneLastAtEnd cs' (start + parts.flatten.length) := by
  obtain ⟨cs, h1, t1, l1, _⟩ := textNodeWith_ok pol EL cap hcap true start parts hne
  obtain ⟨cs', h2, t2, l2, _⟩ := textNodeWith_ok pol' EL cap hcap false start parts hne
  exact ⟨cs, cs', h1, h2, t1.trans t2.symm, l1, l2⟩

/-- Per call: from the same decoder state, one `feed_text` call with and without the fast path
delivers text that differs only in how it is cut: text delivered ++ text still owed is the same. -/
theorem C13_fastpath_call (e : Encoding) (EL : e.Lawful) (pol : Policy e.codec) (cap : Nat)
    (hcap : 4 ≤ cap) (td : TD e.codec) (start : Nat) (raw more : Bytes) (hup : td.unrep start ≤ start) :
    ∃ td1 cs1 td2 cs2,
      feedTextWith true e pol cap td start raw false = some (td1, cs1) ∧
      feedTextWith false e pol cap td start raw false = some (td2, cs2) ∧
      chunksText cs1 ++ e.codec.tail td1.cur more = chunksText cs2 ++ e.codec.tail td2.cur more := by
  obtain ⟨td1, cs1, h1, ok1⟩ := feedTextWith_ok pol EL cap hcap true td start raw false more (by simp) hup
  obtain ⟨td2, cs2, h2, ok2⟩ := feedTextWith_ok pol EL cap hcap false td start raw false more (by simp) hup
  refine ⟨td1, cs1, td2, cs2, h1, h2, ?_⟩
  have a := ok1.text
  have b := ok2.text
  simp only [Bool.false_eq_true, if_false] at a b
  rw [← a, ← b]

/-- the fast path is really taken in the example (one chunk for the ASCII prefix, no decoder call) -/
example : (feedTextWith true windows1252 (Policy.greedy _) 1024 (TD.new _) 0 [0x61, 0x62] true).map (·.2)
    = some [⟨[Char.ofNat 0x61, Char.ofNat 0x62], true, 0, 2⟩] := by decide +kernel

/-! ## C13_encoder -/

/-- **C13_encoder.** For every lawful codec, whatever the stack/heap buffer sizes (≥ 14 bytes: room for
one NCR `&#1114111;` plus one 4-byte sequence), whichever buffer is in use on entry, and wherever the
encoder chooses to report `OutputFull`: `TextEncoder::encode` terminates, drops nothing (none of its early
`return`s loses content), never calls the output handler with an empty slice, and the concatenation of
what it hands to the output handler is exactly `encodeAll` = each scalar value's bytes in the document
encoding, or `&#N;` when it is unmappable — never bytes of another encoding. -/
theorem C13_encoder (c : Codec) (L : c.Lawful) (pol : EncPolicy) (cfg : BufCfg) (hcfg : cfg.Ok)
    (heap : Bool) (content : List Char) :
    ∃ heap' calls, encode c pol cfg heap content = some ⟨heap', calls, []⟩ ∧
      calls.flatten = encodeAll c content ∧ ∀ x ∈ calls, x ≠ [] :=
  encodeLoop_ok L pol cfg hcfg (content.length + 1) heap content (by omega)

/-- in particular the output does not depend on buffer sizes, buffer state or `OutputFull` policy -/
theorem C13_encoder_independent (c : Codec) (L : c.Lawful) (pol pol' : EncPolicy) (cfg cfg' : BufCfg)
    (hcfg : cfg.Ok) (hcfg' : cfg'.Ok) (heap heap' : Bool) (content : List Char) :
    ∃ o o', encode c pol cfg heap content = some o ∧ encode c pol' cfg' heap' content = some o' ∧
      o.calls.flatten = o'.calls.flatten := by
  obtain ⟨h1, c1, e1, f1, _⟩ := C13_encoder c L pol cfg hcfg heap content
  obtain ⟨h2, c2, e2, f2, _⟩ := C13_encoder c L pol' cfg' hcfg' heap' content
  exact ⟨_, _, e1, e2, by simp [f1, f2]⟩

/-- Non-vacuity: windows-1252, "é€Ж<" with the laziest encoder and a 14-byte buffer: `Ж` is unmappable
and becomes `&#1046;`. -/
example : ∃ heap' calls,
    encode (singleByte windows1252Table) EncPolicy.lazy ⟨14, 14, 3⟩ false
      [Char.ofNat 0xE9, Char.ofNat 0x20AC, Char.ofNat 0x416, Char.ofNat 0x3C] = some ⟨heap', calls, []⟩ ∧
    calls.flatten = encodeAll (singleByte windows1252Table)
      [Char.ofNat 0xE9, Char.ofNat 0x20AC, Char.ofNat 0x416, Char.ofNat 0x3C] ∧ ∀ x ∈ calls, x ≠ [] :=
  C13_encoder _ (singleByte_lawful _) _ _ ⟨by decide, by decide⟩ _ _

example : encodeAll (singleByte windows1252Table)
    [Char.ofNat 0xE9, Char.ofNat 0x20AC, Char.ofNat 0x416, Char.ofNat 0x3C]
    = [0xE9, 0x80, 38, 35, 49, 48, 52, 54, 59, 0x3C] := by decide +kernel

/-! ## C13_resync -/

/-- **C13_resync (safety part).** For every sequence of `write_utf8_chunk` calls (any bytes, any split,
starting with any buffered state): the model never runs out of fuel, every fragment handed to `flush` is
non-empty well-formed UTF-8, and the fragments tile a prefix of the bytes written so far — if all writes
succeeded the only bytes not flushed are the ones still buffered; if a write failed nothing beyond a
prefix of the input was emitted.  So malformed input is never emitted, not even in part. -/
theorem C13_resync_safe (st : Resync) (parts : List Bytes) (r : WriteRes)
    (h : writeAll st parts = some r) :
    (∀ f ∈ r.flushed, f ≠ [] ∧ (Utf8.scan f).fin = .done) ∧
    match r.res with
    | .ok st' => st.buf ++ parts.flatten = r.flushed.flatten ++ st'.buf
    | .error _ => ∃ rest, st.buf ++ parts.flatten = r.flushed.flatten ++ rest :=
  writeAll_safe parts st r h

/-- **C13_resync (rejection).** If every write of a sequence succeeded and nothing is left buffered
(`discard_incomplete` would return `false`), then the bytes written were well-formed UTF-8 and were
flushed completely.  Contrapositive: malformed input is always rejected — by an `Err` from some write or
by the pending-tail check — and by `C13_resync_safe` none of its malformed part was emitted. -/
theorem C13_resync_rejects (parts : List Bytes) (r : WriteRes) (st' : Resync)
    (h : writeAll Resync.new parts = some r) (hok : r.res = .ok st') (hbuf : st'.buf = []) :
    (Utf8.scan parts.flatten).fin = .done ∧ r.flushed.flatten = parts.flatten := by
  obtain ⟨h1, h2⟩ := C13_resync_safe Resync.new parts r h
  simp only [hok, hbuf, Resync.new, List.nil_append, List.append_nil] at h2
  rw [h2]
  exact ⟨Utf8.scan_flatten_done _ (fun f hf => (h1 f hf).2), rfl⟩

theorem C13_resync_total (st : Resync) (content : Bytes) :
    (writeUtf8Chunk st content).isSome = true := writeUtf8Chunk_total st content

/-- The liveness half of C13_resync as a statement: any split of well-formed UTF-8 is accepted and
reassembled, with nothing left buffered.  NOT PROVED here (it needs the structure lemma "a prefix of
well-formed UTF-8 scans to `done`/`incomplete` with a tail of at most 3 bytes"); it is exercised by
the lane (`resync` cases, every split incl. one byte at a time) and the examples below. -/
def C13_resync_reassembles_statement : Prop :=
  ∀ (s : List Char) (parts : List Bytes), parts.flatten = Utf8.encode s →
    ∃ fl, writeAll Resync.new parts = some ⟨fl, .ok Resync.new⟩ ∧ fl.flatten = Utf8.encode s

/-- **C13_resync_reassembles_partial.** The proved part of the liveness statement: every split whose
pieces are themselves well-formed (cuts on character boundaries, empty pieces allowed) is accepted, passed
through piece by piece, and leaves nothing buffered.  Missing for the full statement: cuts *inside* a
character (the buffered branch of `utf8_bytes_to_slice`). -/
theorem C13_resync_reassembles_partial (parts : List Bytes)
    (h : ∀ p ∈ parts, (Utf8.scan p).fin = .done) :
    writeAll Resync.new parts = some ⟨parts.filter (fun p => !p.isEmpty), .ok Resync.new⟩ :=
  writeAll_valid_parts parts h

/-- `"€🐈"` one byte at a time; and E2 82 | 41 rejected with nothing emitted. -/
example : (writeAll Resync.new [[0xE2], [0x82], [0xAC], [0xF0], [0x9F], [0x90], [0x88]]).map (·.flushed)
    = some [[0xE2, 0x82, 0xAC], [0xF0, 0x9F, 0x90, 0x88]] := by decide +kernel

example : (writeAll Resync.new [[0x61, 0xE2, 0x82], [0x41]]).map (fun r => (r.flushed, r.res.toBool))
    = some ([[0x61]], false) := by decide +kernel

/-! ## C13_meta -/

open MetaCharset in
/-- **C13_meta.** For every initial encoding, every token sequence and both values of
`adjust_charset_on_meta_tag`, the dispatcher's observable behaviour equals the closed-form
specification `spec`: the sink is told the initial encoding first; everything up to and including the
first `<meta>` that declares a usable (ASCII-compatible) charset is handled in the initial encoding; if
that charset differs, `set_encoding` is called right after that tag's token and everything later is
handled in it; no later declaration has any effect. -/
theorem C13_meta {α : Type} [DecidableEq α] (adjust : Bool) (e0 : α) (toks : List (Tok α)) :
    run adjust e0 toks = spec adjust e0 toks :=
  run_eq_spec adjust e0 toks

open MetaCharset in
/-- Consequences: at most one change after the initial notification, and the sink is always notified
before any token is handled in a new encoding. -/
theorem C13_meta_once {α : Type} [DecidableEq α] (adjust : Bool) (e0 : α) (toks : List (Tok α)) :
    ((run adjust e0 toks).filter isSet).length ≤ 2 ∧ consistent e0 (run adjust e0 toks) := by
  rw [C13_meta]
  cases adjust with
  | true =>
    have := specFrom_sets e0 toks 0
    refine ⟨?_, specFrom_consistent e0 toks 0⟩
    simp only [spec, if_true, List.filter_cons, isSet, List.length_cons]
    omega
  | false =>
    refine ⟨?_, allIn_consistent e0 toks 0⟩
    simp [spec, List.filter_cons, isSet, allIn_noSet]

open MetaCharset in
/-- Non-vacuity: two declarations, only the first counts; the `<meta>` itself is still in the old
encoding. -/
example : run true 0 [Tok.text, Tok.metaTag none, Tok.metaTag (some 1), Tok.tag, Tok.metaTag (some 2), Tok.text]
    = [Ev.setEncoding 0, Ev.token 0 0, Ev.token 1 0, Ev.token 2 0, Ev.setEncoding 1, Ev.token 3 1,
       Ev.token 4 1, Ev.token 5 1] := by decide

end LolHtml.Enc
