/-
Property C13 — character-encoding fidelity.

Vocabulary (all executable definitions; the lane `enc` runs exactly these):
  * `Codec` / `Codec.Lawful` / `Encoding.Lawful`   Model/Codec.lean, Spec/Enc.lean — the assumed interface
  * `Codec.decodeAll c bytes`                      whole-buffer decode with U+FFFD replacement (the spec)
  * `Policy c`                                     where the decoder reports `OutputFull` (any behaviour)
  * `textNode e pol cap start parts`               `feed_text` on each piece, then `flush_pending`
  * `chunksText`, `oneLastAtEnd`, `rangesOrdered`, `rangesContiguous`        Spec/Enc.lean
-/
import LolHtml.Lemmas.EncFeed
import LolHtml.Lemmas.EncUtf8

namespace LolHtml.Enc

/-! ## C13_decoder -/

/-- **C13_decoder.** For every lawful encoding, every buffer length `cap ≥ 4`, every `OutputFull`
behaviour `pol` of the decoder, every source offset and every split of a text node's bytes into
`feed_text` calls (empty pieces included) followed by `flush_pending`:
the model never runs out of fuel; the concatenation of the strings the handlers read is the
whole-buffer decode of the concatenated bytes; exactly one chunk is `last_in_text_node`, it is the
final one and its range ends at the end of the node; chunk source ranges are well-formed, in order,
non-overlapping and inside `[start, start+len]`. -/
theorem C13_decoder (e : Encoding) (EL : e.Lawful) (pol : Policy e.codec) (cap : Nat) (hcap : 4 ≤ cap)
    (start : Nat) (parts : List Bytes) (hne : parts ≠ []) :
    ∃ cs, textNode e pol cap start parts = some cs ∧
      chunksText cs = e.codec.decodeAll parts.flatten ∧
      oneLastAtEnd cs (start + parts.flatten.length) ∧
      rangesOrdered start cs (start + parts.flatten.length) :=
  textNodeWith_ok pol EL cap hcap true start parts hne

/-- The full wish of C13/C14 about ranges — contiguous and covering `[start, start+len)` — as a
statement.  It is FALSE for the code as it is (see `C13_ranges_counterexample`); `C13_decoder` proves
the part that holds (`rangesOrdered`). -/
def C13_ranges_statement : Prop :=
  ∀ (e : Encoding), e.Lawful → ∀ (pol : Policy e.codec) (cap : Nat), 4 ≤ cap →
    ∀ (start : Nat) (parts : List Bytes), parts ≠ [] →
      ∀ cs, textNode e pol cap start parts = some cs →
        rangesContiguous start cs (start + parts.flatten.length)

/-- Witness: UTF-8, `€` = E2 82 AC fed as `[E2]`, `[82 AC]` (a write boundary inside the character).
The handler sees `"€"` with source range `1..3`: byte 0 belongs to no chunk. -/
theorem C13_ranges_counterexample :
    textNode utf8 (Policy.greedy _) 1024 0 [[0xE2], [0x82, 0xAC]]
      = some [⟨[Char.ofNat 0x20AC], false, 1, 3⟩, ⟨[], true, 3, 3⟩]
    ∧ ¬ rangesContiguous 0 [⟨[Char.ofNat 0x20AC], false, 1, 3⟩, ⟨[], true, 3, 3⟩] 3 := by
  constructor
  · decide +kernel
  · simp [rangesContiguous]

theorem C13_ranges_statement_false : ¬ C13_ranges_statement := by
  intro h
  have := h utf8 utf8_lawful (Policy.greedy _) 1024 (by omega) 0 [[0xE2], [0x82, 0xAC]] (by simp)
    _ C13_ranges_counterexample.1
  exact C13_ranges_counterexample.2 this

/-- Non-vacuity: the hypotheses hold for UTF-8, windows-1252 and the toy two-byte code, with both
extreme policies and a 4-byte buffer, on an input with a split multi-byte character, a malformed
byte and a truncated tail. -/
example : ∃ cs, textNode utf8 (Policy.lazy _) 4 7 [[0x61, 0xE2], [], [0x82, 0xAC, 0xFF, 0xC3]] = some cs ∧
    chunksText cs = utf8Codec.decodeAll [0x61, 0xE2, 0x82, 0xAC, 0xFF, 0xC3] ∧
    oneLastAtEnd cs (7 + 6) ∧ rangesOrdered 7 cs (7 + 6) :=
  C13_decoder utf8 utf8_lawful (Policy.lazy _) 4 (by omega) 7 _ (by simp)

example : utf8Codec.decodeAll [0x61, 0xE2, 0x82, 0xAC, 0xFF, 0xC3]
    = [Char.ofNat 0x61, Char.ofNat 0x20AC, Char.ofNat 0xFFFD, Char.ofNat 0xFFFD] := by decide +kernel

example : ∃ cs, textNode toy2Enc (Policy.greedy _) 5 0 [[0x81], [0x41, 0x9F]] = some cs ∧
    chunksText cs = toy2.decodeAll [0x81, 0x41, 0x9F] ∧ oneLastAtEnd cs 3 ∧ rangesOrdered 0 cs 3 :=
  C13_decoder toy2Enc toy2Enc_lawful (Policy.greedy _) 5 (by omega) 0 _ (by simp)

example : windows1252.Lawful := windows1252_lawful

/-! ## C13_fastpath -/

/-- **C13_fastpath.** The UTF-8/ASCII fast path (`split_utf8_start`) is observationally equivalent to
the slow path: with the fast path switched off the handlers read the same concatenated text (and the
same `last` structure); both equal the whole-buffer decode. -/
theorem C13_fastpath (e : Encoding) (EL : e.Lawful) (pol pol' : Policy e.codec) (cap : Nat)
    (hcap : 4 ≤ cap) (start : Nat) (parts : List Bytes) (hne : parts ≠ []) :
    ∃ cs cs', textNodeWith true e pol cap start parts = some cs ∧
      textNodeWith false e pol' cap start parts = some cs' ∧
      chunksText cs = chunksText cs' ∧
      oneLastAtEnd cs (start + parts.flatten.length) ∧
      oneLastAtEnd cs' (start + parts.flatten.length) := by
  obtain ⟨cs, h1, t1, l1, _⟩ := textNodeWith_ok pol EL cap hcap true start parts hne
  obtain ⟨cs', h2, t2, l2, _⟩ := textNodeWith_ok pol' EL cap hcap false start parts hne
  exact ⟨cs, cs', h1, h2, t1.trans t2.symm, l1, l2⟩

/-- Per call: from the same decoder state, one `feed_text` call with and without the fast path
delivers text that differs only in how it is cut: text delivered ++ text still owed is the same. -/
theorem C13_fastpath_call (e : Encoding) (EL : e.Lawful) (pol : Policy e.codec) (cap : Nat)
    (hcap : 4 ≤ cap) (td : TD e.codec) (start : Nat) (raw more : Bytes) :
    ∃ td1 cs1 td2 cs2,
      feedTextWith true e pol cap td start raw false = some (td1, cs1) ∧
      feedTextWith false e pol cap td start raw false = some (td2, cs2) ∧
      chunksText cs1 ++ e.codec.tail td1.cur more = chunksText cs2 ++ e.codec.tail td2.cur more := by
  obtain ⟨td1, cs1, h1, ok1⟩ := feedTextWith_ok pol EL cap hcap true td start raw false more (by simp)
  obtain ⟨td2, cs2, h2, ok2⟩ := feedTextWith_ok pol EL cap hcap false td start raw false more (by simp)
  refine ⟨td1, cs1, td2, cs2, h1, h2, ?_⟩
  have a := ok1.text
  have b := ok2.text
  simp only [Bool.false_eq_true, if_false] at a b
  rw [← a, ← b]

/-- the fast path is really taken in the example (one chunk for the ASCII prefix, no decoder call) -/
example : (feedTextWith true windows1252 (Policy.greedy _) 1024 (TD.new _) 0 [0x61, 0x62] true).map (·.2)
    = some [⟨[Char.ofNat 0x61, Char.ofNat 0x62], true, 0, 2⟩] := by decide +kernel

end LolHtml.Enc
