/-
# Package `full`, part 22 — corollaries of the unconditional `Full_real_eq_clean`

* `Full_real_eq_clean_writes'` / `Full_real_eq_clean_end'` — `write*` over the real controller IS `write*` over the cleaned one,
  and so is the `end` of the state reached (call by call; no alternative).
* `C11_bailout_general_real_all`, `C11_bailout_general_end_real_all` — `C11_bailout_general` / `C11_bailout_general_end` for the
  REAL controller, EVERY error (the handler error included), no hypothesis about the run.
-/
import LolHtml.Thm.Full26

namespace LolHtml.Thm.Full
open LolHtml LolHtml.Model LolHtml.Model.Full LolHtml.Lemmas.Full
open LolHtml.Thm.C01 (run writeAll Rewriter.new)
open LolHtml.Model.RelI LolHtml.Model.Hint

/-- `write*` with the ghost: the same run -/
theorem Full_real_eq_clean_writes_H (cfg : Cfg) (settings : Settings) (chunks : List Bytes) :
    writeAll (genWorldH cfg) (Rewriter.new (genWorldH cfg) (FullSt.init cfg, none) settings) chunks =
      writeAll (cleanWorldH cfg) (Rewriter.new (cleanWorldH cfg) (FullSt.init cfg, none) settings) chunks := by
  obtain ⟨hI, hL⟩ := Full_scan_opsX cfg
  exact (writeAll_eqT (w := genWorldH cfg) (c2 := cleanCtlH cfg) hL.toT
    (fun inp last p hp h2 h2n => Full_parse_eq cfg inp last p hp h2 h2n)
    (fun d hd => Full_handleEnd_eq cfg d hd) (FullSt.init cfg, none) settings (hI settings.encoding)
    (Full_clean_guardX' cfg settings) chunks).1

/-- **Full_real_eq_clean_writes'.** `write*` over the real controller IS `write*` over the cleaned controller: same rewriter
state, same call results. Unconditional (`Full_real_eq_clean_writes` of Thm/Full16.lean without its alternative). -/
theorem Full_real_eq_clean_writes' (cfg : Cfg) (settings : Settings) (chunks : List Bytes) :
    writeAll (genWorld cfg) (Rewriter.new (genWorld cfg) (FullSt.init cfg) settings) chunks =
      writeAll (cleanWorld cfg) (Rewriter.new (cleanWorld cfg) (FullSt.init cfg) settings) chunks := by
  have hH := Full_real_eq_clean_writes_H cfg settings chunks
  have hn1 : Hom.RRh Prod.fst (Rewriter.new (genWorldH cfg) (FullSt.init cfg, none) settings)
      (Rewriter.new (genWorld cfg) (FullSt.init cfg) settings) :=
    ⟨⟨⟨rfl, rfl, rfl, rfl, rfl, rfl, rfl, rfl⟩, rfl, rfl, rfl, rfl⟩, rfl, rfl⟩
  have hn2 : Hom.RRh Prod.fst (Rewriter.new (cleanWorldH cfg) (FullSt.init cfg, none) settings)
      (Rewriter.new (cleanWorld cfg) (FullSt.init cfg) settings) :=
    ⟨⟨⟨rfl, rfl, rfl, rfl, rfl, rfl, rfl, rfl⟩, rfl, rfl, rfl, rfl⟩, rfl, rfl⟩
  obtain ⟨a1, a2⟩ := Hom.writeAll_hr (w := genWorld cfg) (c' := fullCtlH cfg) (f := Prod.fst) (hintCtl_hom (fullCtl cfg))
    C03.C03_emitsChecked_gen chunks hn1
  obtain ⟨b1, b2⟩ := Hom.writeAll_hr (w := cleanWorld cfg) (c' := cleanCtlH cfg) (f := Prod.fst)
    (hintCtl_hom (Chunk.R.cleanCtl (fullCtl cfg))) C03.C03_emitsChecked_gen chunks hn2
  have a1' : Hom.RRh Prod.fst (writeAll (genWorldH cfg) (Rewriter.new (genWorldH cfg) (FullSt.init cfg, none) settings) chunks).1
      (writeAll (genWorld cfg) (Rewriter.new (genWorld cfg) (FullSt.init cfg) settings) chunks).1 := a1
  have b1' : Hom.RRh Prod.fst (writeAll (cleanWorldH cfg) (Rewriter.new (cleanWorldH cfg) (FullSt.init cfg, none) settings) chunks).1
      (writeAll (cleanWorld cfg) (Rewriter.new (cleanWorld cfg) (FullSt.init cfg) settings) chunks).1 := b1
  have a2' : (writeAll (genWorldH cfg) (Rewriter.new (genWorldH cfg) (FullSt.init cfg, none) settings) chunks).2 =
      (writeAll (genWorld cfg) (Rewriter.new (genWorld cfg) (FullSt.init cfg) settings) chunks).2 := a2
  have b2' : (writeAll (cleanWorldH cfg) (Rewriter.new (cleanWorldH cfg) (FullSt.init cfg, none) settings) chunks).2 =
      (writeAll (cleanWorld cfg) (Rewriter.new (cleanWorld cfg) (FullSt.init cfg) settings) chunks).2 := b2
  rw [← hH] at b1' b2'
  exact Prod.ext (Hom.RRh_fun a1' b1') (by rw [← a2', ← b2'])

/-- **Full_real_eq_clean_end'.** … and the `end` of the state reached by `write*` is the cleaned controller's `end` -/
theorem Full_real_eq_clean_end' (cfg : Cfg) (settings : Settings) (chunks : List Bytes) :
    (writeAll (genWorld cfg) (Rewriter.new (genWorld cfg) (FullSt.init cfg) settings) chunks).1.end (genWorld cfg) =
      (writeAll (genWorld cfg) (Rewriter.new (genWorld cfg) (FullSt.init cfg) settings) chunks).1.end (cleanWorld cfg) := by
  have hr := Full_real_eq_clean cfg settings chunks
  have hw := Full_real_eq_clean_writes' cfg settings chunks
  simp only [run] at hr
  rw [← hw] at hr
  simp only [Prod.mk.injEq] at hr
  obtain ⟨h1, h2⟩ := hr
  have h2' := List.append_cancel_left h2
  simp only [List.cons.injEq, and_true] at h2'
  exact Prod.ext h1 h2'

/-- **C11_bailout_general_real_all.** `C11_bailout_general` — the exact sink log at a failing `write` after successful ones —
for the REAL controller, EVERY error `e` (the handler error included), every configuration, settings record, chunking. -/
theorem C11_bailout_general_real_all (cfg : Cfg) (settings : Settings) (chunks : List Bytes) (data : Bytes) (e : Err)
    (hok : ∀ x ∈ (writeAll (genWorld cfg) (Rewriter.new (genWorld cfg) (FullSt.init cfg) settings) chunks).2, x = CallRes.ok)
    (herr : ((writeAll (genWorld cfg) (Rewriter.new (genWorld cfg) (FullSt.init cfg) settings) chunks).1.write
          (genWorld cfg) data).2 = .err e) :
    C11G.BailLog (cleanWorld cfg)
      (writeAll (genWorld cfg) (Rewriter.new (genWorld cfg) (FullSt.init cfg) settings) chunks).1.stream
      ((writeAll (genWorld cfg) (Rewriter.new (genWorld cfg) (FullSt.init cfg) settings) chunks).1.write
        (genWorld cfg) data).1.stream
      ((writeAll (genWorld cfg) (Rewriter.new (genWorld cfg) (FullSt.init cfg) settings) chunks).1.stream.pending ++ data) e ∧
    ((writeAll (genWorld cfg) (Rewriter.new (genWorld cfg) (FullSt.init cfg) settings) chunks).1.write
      (genWorld cfg) data).1.poisoned = true := by
  have E1 := Full_real_eq_clean_writes' cfg settings chunks
  have a1 := Chunk.R.writeAll_append (w := genWorld cfg) (Rewriter.new (genWorld cfg) (FullSt.init cfg) settings) chunks [data]
  have a2 := Chunk.R.writeAll_append (w := cleanWorld cfg) (Rewriter.new (cleanWorld cfg) (FullSt.init cfg) settings) chunks [data]
  have E2 := Full_real_eq_clean_writes' cfg settings (chunks ++ [data])
  rw [a1, a2, ← E1] at E2
  simp only [writeAll, Prod.mk.injEq] at E2
  obtain ⟨e1, e2⟩ := E2
  have e2' : ((writeAll (genWorld cfg) (Rewriter.new (genWorld cfg) (FullSt.init cfg) settings) chunks).1.write (genWorld cfg) data).2 =
      ((writeAll (genWorld cfg) (Rewriter.new (genWorld cfg) (FullSt.init cfg) settings) chunks).1.write (cleanWorld cfg) data).2 := by
    have := List.append_cancel_left e2
    simpa using this
  have hw : (writeAll (genWorld cfg) (Rewriter.new (genWorld cfg) (FullSt.init cfg) settings) chunks).1.write (genWorld cfg) data =
      (writeAll (genWorld cfg) (Rewriter.new (genWorld cfg) (FullSt.init cfg) settings) chunks).1.write (cleanWorld cfg) data :=
    Prod.ext e1 e2'
  have := C11_bailout_general_cleaned cfg settings chunks data e (by rw [← E1]; exact hok) (by rw [← E1, ← hw]; exact herr)
  rw [← E1, ← hw] at this
  exact this

/-- **C11_bailout_general_end_real_all.** `C11_bailout_general_end` — all writes succeeded, `end()` fails with `e` — for the
REAL controller, every error, no hypothesis about the run. -/
theorem C11_bailout_general_end_real_all (cfg : Cfg) (settings : Settings) (chunks : List Bytes) (e : Err)
    (hok : ∀ x ∈ (writeAll (genWorld cfg) (Rewriter.new (genWorld cfg) (FullSt.init cfg) settings) chunks).2, x = CallRes.ok)
    (herr : ((writeAll (genWorld cfg) (Rewriter.new (genWorld cfg) (FullSt.init cfg) settings) chunks).1.end (genWorld cfg)).2 = .err e) :
    (C11G.BailLog (cleanWorld cfg) (writeAll (genWorld cfg) (Rewriter.new (genWorld cfg) (FullSt.init cfg) settings) chunks).1.stream
        ((writeAll (genWorld cfg) (Rewriter.new (genWorld cfg) (FullSt.init cfg) settings) chunks).1.end (genWorld cfg)).1.stream
        (writeAll (genWorld cfg) (Rewriter.new (genWorld cfg) (FullSt.init cfg) settings) chunks).1.stream.pending e ∨
     C11G.EndHandlerFail (cleanWorld cfg) (writeAll (genWorld cfg) (Rewriter.new (genWorld cfg) (FullSt.init cfg) settings) chunks).1.stream
        ((writeAll (genWorld cfg) (Rewriter.new (genWorld cfg) (FullSt.init cfg) settings) chunks).1.end (genWorld cfg)).1.stream e) ∧
    ((writeAll (genWorld cfg) (Rewriter.new (genWorld cfg) (FullSt.init cfg) settings) chunks).1.end (genWorld cfg)).1.poisoned = true := by
  have E1 := Full_real_eq_clean_writes' cfg settings chunks
  have E2 := Full_real_eq_clean_end' cfg settings chunks
  have := C11G.C11_bailout_general_end (cleanWorld cfg) C15.C15_gen C15.C15_cert_gen
    (Chunk.R.cleanCtl_clean (fullCtl cfg)) (FullSt.init cfg) settings chunks e (by rw [← E1]; exact hok)
    (by rw [← E1, ← E2]; exact herr)
  rw [← E1, ← E2] at this
  exact this

/-- non-vacuity: the handler error at `end` (`endFailCfg`: a document-end closure fails after two successful writes) and at a
`write` (`failCfg`: a text handler fails at its second invocation, in the second write) — the cases the conditional versions
could not reach -/
example : (∀ x ∈ (writeAll (genWorld endFailCfg) (Rewriter.new (genWorld endFailCfg) (FullSt.init endFailCfg) {}) sampleChunks).2,
      x = CallRes.ok) ∧
    ((writeAll (genWorld endFailCfg) (Rewriter.new (genWorld endFailCfg) (FullSt.init endFailCfg) {}) sampleChunks).1.end
      (genWorld endFailCfg)).2 = .err .handler := by decide +kernel
example : (writeAll (genWorld failCfg) (Rewriter.new (genWorld failCfg) (FullSt.init failCfg) { bailOnHandler := true }) sampleChunks).2
    = [.ok, .err .handler] := by decide +kernel

end LolHtml.Thm.Full
