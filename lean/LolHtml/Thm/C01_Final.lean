import LolHtml.Thm.C01_Total
import LolHtml.Thm.C15_Full
/-!
# C01, capstone: pass-through identity with no hypothesis about the run

`C01_passthrough_total` (package inv) left one run hypothesis: no call panics at a `U2` site (the
scanner ⇄ lexer agreement). `C15_no_panic_full` (package scan) proves exactly that from the decidable
table side-condition `RelexSide`. Together: for every table passing the side-conditions — in particular
the table regenerated from the Rust on every run —, every tag configuration, every never-failing
observing controller (arbitrary capture-flag decisions, i.e. arbitrary scanner/lexer switching),
non-strict mode, every list of writes whose total length is within the memory limit:
every `write` and the `end` return `ok`, and the sink receives exactly the bytes written.
-/
namespace LolHtml.Thm.C01
open LolHtml LolHtml.Model

variable {γ : Type}

theorem C01_passthrough_final (w : World γ) (L : Labels) (TT : TLabels) (P : PLabels) (S : SLabels)
    (hwf : WfTable w.tbl = true) (hcert : checkCert w.tbl (computeCert w.tbl) = true)
    (hside : RelexSide w.tbl L TT P S)
    (hobs : ObservingAll w.ctl) (hn : NeverFails w.ctl)
    (g : γ) (cfg : Settings) (hstrict : cfg.strict = false) (chunks : List Bytes)
    (hmem : chunks.flatten.length ≤ cfg.maxMem) :
    (∀ x ∈ (run w (Rewriter.new w g cfg) chunks).2, x = CallRes.ok) ∧
    sinkBytes (run w (Rewriter.new w g cfg) chunks).1.sink = chunks.flatten := by
  apply C01_passthrough_total w hwf hcert hobs hn g cfg hstrict chunks hmem
  intro x hx st hst hxe
  subst hxe
  exact LolHtml.Thm.C15.C15_agreement w L TT P S hside hn.clean g cfg chunks _ hx hst

/-- at the code's current table, for any constant capture flags (pure tag scanning, full lexing and
everything in between) -/
theorem C01_passthrough_final_gen (f : Nat) (cfg : Settings) (hstrict : cfg.strict = false) (chunks : List Bytes)
    (hmem : chunks.flatten.length ≤ cfg.maxMem) :
    (∀ x ∈ (run (genWorld f) (Rewriter.new (genWorld f) () cfg) chunks).2, x = CallRes.ok) ∧
    sinkBytes (run (genWorld f) (Rewriter.new (genWorld f) () cfg) chunks).1.sink = chunks.flatten :=
  C01_passthrough_final (genWorld f) _ _ _ _ LolHtml.Thm.C15.C15_gen LolHtml.Thm.C15.C15_cert_gen
    LolHtml.Thm.C15.C15_relexSide_gen (constCtl_observing f) (constCtl_neverFails f) () cfg hstrict chunks hmem

end LolHtml.Thm.C01
