/-
Property C18 — thread interleavings (model: `Model/Threads.lean`).

For EVERY schedule (unbounded list of `(thread, op, adversary)` events), under the decidable side-condition
`noSharedMutable` on the regenerated list of global items (`C18_threads_side_condition`, by `decide` on
`Gen.Globals`: it stops compiling when a `static mut`, a `Mutex`/`Atomic`/`OnceLock`/`Lazy` static, a
`lazy_static!` or a second `thread_local!` is added to either crate):

* `C18_interleaving_projection`   what instance `i` is, who owns it and everything its calls let the caller observe
                                  are the same as after running only the events that concern `i`, from a fresh world.
* `C18_sequential_prediction`     … and equal the plain sequential fold of the library's step function over the
                                  calls made on `i`: no threads, no migrations, no adversary, initial globals
                                  (the right-hand side lane `thr` compares real interleavings with).
* `C18_schedule_independent`      two schedules making the same calls on `i` give the same observations on `i`,
                                  whichever threads make them, however they are interleaved with anything else.
* `C18_last_error_thread_local`   `LAST_ERROR` of thread `t` and the results of its `take_last_error` /
                                  `selector_parse` calls depend only on `t`'s own calls and the calls on the
                                  instances `t` uses; `C18_last_error_own_calls`: only on `t`'s own calls when no
                                  other thread touches those instances; `C18_last_error_frame`: a call by another
                                  thread neither shows nor clears it.
* `C18_projection_fails_with_shared_counter`, `C18_migration_fails_with_thread_local_cache`
                                  the theorems are FALSE for an item list with one `interior` static, resp. one
                                  `thread_local!` other than `LAST_ERROR` (the side-condition is not vacuous).
-/
import LolHtml.Lemmas.Threads

namespace LolHtml.Thm.C18
open LolHtml.Model.Threads LolHtml.Lemmas.Threads
open LolHtml.Model.CApi (Tid ErrMsg)

/-- The regenerated globals list of /repo has no mutable shared item: only immutable tables and the C API's
    thread-local `LAST_ERROR`. -/
theorem C18_threads_side_condition : noSharedMutable sourceItems = true := by decide

/-- Non-vacuity: the list is the three items the translator found. -/
example : sourceItems.map classify = [.immutable, .immutable, .lastError] := by decide

/-- Everything about instance `i`: its state, its owner, the observations of its calls (newest first). -/
def instView {S : Sys} (w : World S) (i : Nat) : Option S.St × Option Tid × List S.Obs :=
  (w.inst i, w.owner i, w.obs i)

/-- Everything thread-level about thread `t`: its `LAST_ERROR` and the results of its instance-free calls. -/
def threadView {S : Sys} (w : World S) (t : Tid) : Option ErrMsg × List (TObs S.Obs) :=
  (w.lastErr t, w.tobs t)

/-- The projection property, as a statement about an item list and a system. -/
def ProjectionHolds (items : List Item) (S : Sys) : Prop :=
  ∀ (σ : List (Event S)) (i : Nat),
    instView (run items (World.fresh S) σ) i
      = instView (run items (World.fresh S) (σ.filter (Event.touches i))) i

/-- Thread/schedule independence, as a statement about an item list and a system. -/
def ScheduleIndependent (items : List Item) (S : Sys) : Prop :=
  ∀ (σ₁ σ₂ : List (Event S)) (i : Nat), instOps i σ₁ = instOps i σ₂ →
    (run items (World.fresh S) σ₁).inst i = (run items (World.fresh S) σ₂).inst i ∧
    (run items (World.fresh S) σ₁).obs i = (run items (World.fresh S) σ₂).obs i

variable {S : Sys} {items : List Item}

theorem C18_interleaving_projection (h : noSharedMutable items = true) : ProjectionHolds items S := by
  intro σ i
  have := run_agree (S := S) (SI := fun j => j = i) (ST := fun _ => False) h (Event.touches i) σ
    (fun e _ j hj hji => by subst hji; simp [Event.touches, hj])
    (fun _ _ hf => hf.elim) (fun _ _ hf => hf.elim) _ _ (Agree.refl (World.fresh S))
  simp only [instView, this.inst i rfl, this.owner i rfl, this.obs i rfl]

theorem C18_sequential_prediction (h : noSharedMutable items = true) (σ : List (Event S)) (i : Nat) :
    ((run items (World.fresh S) σ).inst i, (run items (World.fresh S) σ).obs i) = seqRun S (instOps i σ) :=
  run_inst_obs h i σ (World.fresh S)

theorem C18_schedule_independent (h : noSharedMutable items = true) : ScheduleIndependent items S := by
  intro σ₁ σ₂ i heq
  have h₁ := C18_sequential_prediction (S := S) h σ₁ i
  have h₂ := C18_sequential_prediction (S := S) h σ₂ i
  rw [heq, ← h₂] at h₁
  exact ⟨congrArg Prod.fst h₁, congrArg Prod.snd h₁⟩

/-- Same per-instance sub-schedules (threads and migrations included) ⇒ same instance, owner, observations,
    for every instance at once. -/
theorem C18_schedule_independent_all (h : noSharedMutable items = true) (σ₁ σ₂ : List (Event S))
    (heq : ∀ i, σ₁.filter (Event.touches i) = σ₂.filter (Event.touches i)) (i : Nat) :
    instView (run items (World.fresh S) σ₁) i = instView (run items (World.fresh S) σ₂) i := by
  rw [C18_interleaving_projection h σ₁ i, C18_interleaving_projection h σ₂ i, heq i]

/-- The sub-schedule thread `t`'s `LAST_ERROR` can depend on: `t`'s own calls and the calls on instances `t` uses. -/
def relevantTo {S : Sys} (t : Tid) (σ : List (Event S)) (e : Event S) : Bool :=
  e.tid == t || (match e.instOf with | some i => usedBy t σ i | none => false)

theorem C18_last_error_thread_local (h : noSharedMutable items = true) (σ : List (Event S)) (t : Tid) :
    threadView (run items (World.fresh S) σ) t
      = threadView (run items (World.fresh S) (σ.filter (relevantTo t σ))) t := by
  have := run_agree (S := S) (SI := fun i => usedBy t σ i = true) (ST := fun t' => t' = t) h
    (relevantTo t σ) σ
    (fun e _ i hi hu => by simp [relevantTo, hi, hu])
    (fun e _ ht => by simp [relevantTo, ht])
    (fun e he ht i hi => by
      simp only [usedBy, List.any_eq_true]
      exact ⟨e, he, by simp [ht, Event.touches, hi]⟩)
    _ _ (Agree.refl (World.fresh S))
  simp only [threadView, this.lastErr t rfl, this.tobs t rfl]

/-- If the instances thread `t` uses are used by no other thread, `t`'s `LAST_ERROR` history is a function of
    `t`'s own calls alone: all other threads can be deleted from the schedule. -/
theorem C18_last_error_own_calls (h : noSharedMutable items = true) (σ : List (Event S)) (t : Tid)
    (hpriv : ∀ e ∈ σ, ∀ i, e.instOf = some i → usedBy t σ i = true → e.tid = t) :
    threadView (run items (World.fresh S) σ) t
      = threadView (run items (World.fresh S) (σ.filter fun e => e.tid == t)) t := by
  have := run_agree (S := S) (SI := fun i => usedBy t σ i = true) (ST := fun t' => t' = t) h
    (fun e => e.tid == t) σ
    (fun e he i hi hu => by simp [hpriv e he i hi hu])
    (fun e _ ht => by simp [ht])
    (fun e he ht i hi => by
      simp only [usedBy, List.any_eq_true]
      exact ⟨e, he, by simp [ht, Event.touches, hi]⟩)
    _ _ (Agree.refl (World.fresh S))
  simp only [threadView, this.lastErr t rfl, this.tobs t rfl]

/-- One call by another thread, in any world and for ANY item list (no side-condition needed: the slot is
    per-thread by construction of `thread_local!`), neither shows nor clears `t`'s `LAST_ERROR`. -/
theorem C18_last_error_frame (w : World S) (e : Event S) (t : Tid) (hne : e.tid ≠ t) :
    threadView (exec items w e) t = threadView w t := by
  have := exec_skip (items := items) (SI := fun _ => False) (ST := fun t' => t' = t) w w e (Agree.refl w)
    (fun _ _ hf => hf) (fun heq => hne heq)
  simp only [threadView, this.lastErr t rfl, this.tobs t rfl]

/-! ## At the item list regenerated from /repo (no hypothesis left: the side-condition is `decide`d) -/

theorem C18_interleaving_projection_source : ProjectionHolds sourceItems S :=
  C18_interleaving_projection C18_threads_side_condition

theorem C18_schedule_independent_source : ScheduleIndependent sourceItems S :=
  C18_schedule_independent C18_threads_side_condition

theorem C18_last_error_thread_local_source (σ : List (Event S)) (t : Tid) :
    threadView (run sourceItems (World.fresh S) σ) t
      = threadView (run sourceItems (World.fresh S) (σ.filter (relevantTo t σ))) t :=
  C18_last_error_thread_local C18_threads_side_condition σ t

/-! ## Non-vacuity on a concrete system -/

namespace Demo

/-- A small rewriter: the state is the number of bytes written so far; a call observes `(total, ok)`;
    `write`/`end` on a missing instance fail and record an error. -/
@[reducible] def sys : Sys where
  V := Nat
  St := Nat
  Call := IOp Nat Bytes
  isCreate := IOp.isCreate
  Obs := Nat × Bool
  g0 := fun _ => 7
  step := fun g st o =>
    match st, o with
    | _, .create c => (some (c + g 0), (c + g 0, true), none)
    | some n, .write b => (some (n + b.length), (n + b.length, true), none)
    | some n, .end_ => (none, (n, true), none)
    | some n, .free => (none, (n, true), none)
    | none, _ => (none, (0, false), some .stopped)
  parseSel := fun _ s => if s.isEmpty then ((0, false), some (.rust [0x65])) else ((s.length, true), none)

def idAdv : (Nat → Nat) → Nat → Nat := fun g => g
def scramble : (Nat → Nat) → Nat → Nat := fun g j => g j * 31 + j + 1

/-- Two instances, three threads; instance 0 is created on thread 0, migrated to thread 2 between writes;
    thread 1 fails on instance 1 after freeing it, thread 2 fails a selector parse; the adversary scrambles
    whatever it may after every call. -/
def σ : List (Event sys) := [
  ⟨0, .inst 0 (.create 1), scramble⟩,
  ⟨1, .inst 1 (.create 100), scramble⟩,
  ⟨0, .inst 0 (.write [1, 2, 3]), scramble⟩,
  ⟨1, .inst 1 .free, scramble⟩,
  ⟨0, .migrate 0 2, scramble⟩,
  ⟨2, .parseSelector [], scramble⟩,
  ⟨1, .inst 1 (.write [9]), scramble⟩,
  ⟨2, .inst 0 (.write [4, 5]), scramble⟩,
  ⟨0, .takeLastError, scramble⟩,
  ⟨1, .takeLastError, scramble⟩,
  ⟨2, .inst 0 .end_, scramble⟩,
  ⟨2, .takeLastError, scramble⟩,
  ⟨1, .takeLastError, scramble⟩ ]

/-- The interleaved run, instance by instance and thread by thread (newest first). -/
example :
    let w := run sourceItems (World.fresh sys) σ
    wellOwned (fun _ => none) σ = true ∧
    w.obs 0 = [(13, true), (13, true), (11, true), (8, true)] ∧ w.owner 0 = some 2 ∧
    w.obs 1 = [(0, false), (107, true), (107, true)] ∧
    w.tobs 0 = [.taken none] ∧
    w.tobs 1 = [.taken none, .taken (some .stopped)] ∧
    w.tobs 2 = [.taken (some (.rust [0x65])), .parsed (0, false)] ∧
    (seqRun sys (instOps 0 σ)).2 = w.obs 0 ∧
    (σ.filter (Event.touches 0)).length = 5 ∧ (σ.filter (relevantTo 1 σ)).length = 5 := by
  decide

end Demo

/-! ## The side-condition is necessary -/

namespace Counter

/-- A library whose calls read a global counter. -/
@[reducible] def sys : Sys where
  V := Nat
  St := Unit
  Call := IOp Unit Unit
  isCreate := IOp.isCreate
  Obs := Nat
  g0 := fun _ => 0
  step := fun g _ _ => (some (), g 0, none)
  parseSel := fun g _ => (g 0, none)

/-- … which every call bumps. -/
def bump : (Nat → Nat) → Nat → Nat := fun g j => g j + 1

/-- `static COUNTER: AtomicUsize` in the core crate. -/
def sharedCounter : List Item := [⟨"interior", "COUNTER", false⟩]
/-- `thread_local! { static CACHE: RefCell<_> }` in the core crate. -/
def tlsCache : List Item := [⟨"thread_local", "CACHE", false⟩]

def σ : List (Event sys) := [⟨0, .inst 1 (.create ()), bump⟩, ⟨1, .inst 0 (.create ()), bump⟩]

/-- Same calls on instance 0, but the second one after a migration to a thread whose cache is cold. -/
def σstay : List (Event sys) := [⟨0, .inst 0 (.create ()), bump⟩, ⟨0, .inst 0 (.write ()), bump⟩]
def σmove : List (Event sys) :=
  [⟨0, .inst 0 (.create ()), bump⟩, ⟨0, .migrate 0 1, bump⟩, ⟨1, .inst 0 (.write ()), bump⟩]

end Counter

/-- With one mutable shared static the side-condition fails and so does the projection theorem: instance 0
    observes how many calls other instances made before. -/
theorem C18_projection_fails_with_shared_counter :
    noSharedMutable Counter.sharedCounter = false ∧ ¬ ProjectionHolds Counter.sharedCounter Counter.sys := by
  refine ⟨by decide, fun hp => ?_⟩
  have := congrArg (fun v => v.2.2) (hp Counter.σ 0)
  revert this
  decide

/-- With a `thread_local!` other than `LAST_ERROR` moving a `Send` rewriter to another thread changes what it
    observes: schedule independence fails. -/
theorem C18_migration_fails_with_thread_local_cache :
    noSharedMutable Counter.tlsCache = false ∧ ¬ ScheduleIndependent Counter.tlsCache Counter.sys := by
  refine ⟨by decide, fun hp => ?_⟩
  have := (hp Counter.σstay Counter.σmove 0 (by decide)).2
  revert this
  decide

end LolHtml.Thm.C18
