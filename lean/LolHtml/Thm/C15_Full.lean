import LolHtml.Thm.C15_Core
import LolHtml.Thm.C06_Relex
import LolHtml.Thm.C06_Scan
import LolHtml.Thm.C09_Bound
import LolHtml.Lemmas.RelexParse
/-!
# C15 — the two sites left open by `C15_no_panic` (`U2`) are unreachable: `C15_no_panic_full`

`C15_no_panic` (package inv) leaves two sites, both reachable only if the lexer restarted by the tag
scanner produced a first tag of another kind than the scanner saw:

* `"Tag should be a start tag at this point"` (dispatcher: a pending aux-info request answered by an
  end tag);
* `"RequestLexeme callback: unexpected tag type / empty ns stack"` (`lexHandleFeedback`).

Proved here, for every table satisfying the decidable side-conditions of the scanner ⇄ lexer hand-over
(`RelexSide`: `HeadOk`, `RelexOk`, `TextTypeOk`, `PhaseOk` for some labellings — checked on the
regenerated table by `decide +kernel`, `C15_relexSide_gen`):

* the global invariant (`PX0`, `Lemmas/RelexParse.lean`) through `Parser.parseLoop`, `Stream.write`,
  `Stream.end`, the rewriter and `run`: *a pending aux-info request or an unhandled `RequestLexeme`
  ⇒ the lexer is inside the re-lexing run of the hinted tag* — in the head (`HeadStart`, inside one
  `parse`: the head and its terminator are in the chunk the scanner saw) or between
  `finish_tag_name` and `emit_tag` (`LexX … inTag`, across chunk breaks): the tag token has the
  hinted kind, the simulator is in the state in which the request was made; together with the
  dispatcher's `got_flags_from_hint` bookkeeping (`Disp.Good`, `dispOps_xlaws`);
* `C15_no_panic_full`: no call of `write* ; end` returns a panic / internal-class error at all.

The lexer's `is_appropriate_end_tag` assertion ("End tag should exist at this point"), the one escape
of `C06_relex_same_tag`, is not a `U2` site: it is excluded by inv's token certificate
(`checkCert`, a hypothesis of `C15_no_panic`), generically for every table passing it.

`Parser.parseLoop` maps `Err.internal` to a handler error (release build); `C15_signals_full` states
the result at the level of one run of the parsing loop, where the internal error is still visible.
-/
namespace LolHtml.Thm.C15
open LolHtml LolHtml.Model LolHtml.Thm.C01
open LolHtml.Lemmas.Sim (Inv)

variable {γ : Type}

/-- **Full statement** (no exception, no side-condition beyond those of `C15_no_panic`); proved below
under the additional decidable table side-condition `RelexSide` (`C15_no_panic_full`), which holds of
the code's table (`C15_no_panic_full_gen`). -/
def C15_no_panic_full_statement : Prop :=
  ∀ {γ : Type} (w : World γ), WfTable w.tbl = true → checkCert w.tbl (computeCert w.tbl) = true → CtlClean w.ctl →
    ∀ (g : γ) (cfg : Settings) (chunks : List Bytes),
      ∀ x ∈ (run w (Rewriter.new w g cfg) chunks).2, Model.CallOK (fun _ => False) x

/-- `C15_no_panic` + "no call fails at a `U2` site" = the full statement. -/
theorem C15_no_panic_full_of_agreement (w : World γ) (hwf : WfTable w.tbl = true)
    (hcert : checkCert w.tbl (computeCert w.tbl) = true) (hc : CtlClean w.ctl) (g : γ) (cfg : Settings)
    (chunks : List Bytes)
    (hagree : ∀ x ∈ (run w (Rewriter.new w g cfg) chunks).2, ∀ s, U2 s → x ≠ .err (.panic s) ∧ x ≠ .err (.internal s)) :
    ∀ x ∈ (run w (Rewriter.new w g cfg) chunks).2, Model.CallOK (fun _ => False) x := by
  intro x hx
  have h1 := C15_no_panic w hwf hcert hc g cfg chunks x hx
  have h2 := hagree x hx
  cases x with
  | ok => trivial
  | panicUseAfterError => trivial
  | err e =>
    cases e with
    | panic s => exact (h2 s h1).1 rfl
    | internal s => exact (h2 s h1).2 rfl
    | _ => trivial

/-! ### the two sites, locally -/

/-- **site 2, local.** With a callback kind that fits the token's kind, on the simulator state in
which the request was made (foreign content for start-tag callbacks; an integration point below the
current HTML namespace for `annotation-xml` end tags), `handle_tree_builder_feedback` does not report
the callback assertion. -/
theorem C15_callback_site_local (inp : Bytes) (c : Common) (sim : Sim) (k : RLKind) (tok : TagOutline) (hi : Inv sim)
    (hstart : k ≠ .annotationXmlEnd → tok.isStart = true ∧ sim.currentNs ≠ .html)
    (hend : k = .annotationXmlEnd → tok.isStart = false ∧ ∃ top rest, sim.nsStack = sim.currentNs :: top :: rest) :
    lexHandleFeedback inp c sim (.requestLexeme k) tok ≠
      .error (.panic "RequestLexeme callback: unexpected tag type / empty ns stack") := by
  intro h
  have := (lexHandleFeedback_X inp c sim (.requestLexeme k) tok hi
    (fun k' hk' => by simp only [Feedback.requestLexeme.injEq] at hk'; subst hk'; exact ⟨hstart, hend⟩)).1 _ h
  exact this (Or.inl (Or.inr rfl))

/-- **site 1, local.** `handle_tag` reports "Tag should be a start tag at this point" (or the callback
assertion) only on an END-tag lexeme while an aux-info request is pending. -/
theorem C15_start_tag_site_local {ctl : Controller γ} (hc : CtlClean ctl) (inp : Bytes) (lx : TagLexeme) (d : Disp γ)
    (e : Err) (he : (Disp.handleTag ctl inp lx d).2 = .error e) (hu : U2err e) :
    d.pendingAux = true ∧ lx.outline.isStart = false :=
  handleTag_err hc lx d e he hu

/-! ### the invariant through the transform stream -/

/-- the two dispatcher flags as the abstract sink flags of `XLaws` -/
abbrev PendD : Disp γ → Bool := fun d => d.pendingAux

/-- stream invariant between `write` calls: the parser invariant over the held bytes followed by
whatever comes next -/
def SXInv (w : World γ) (L : Labels) (TT : TLabels) (P : PLabels) (S : SLabels) (s : Stream γ) : Prop :=
  ∀ data, PX0 w.env L TT P S PendD Disp.Good true (s.pending ++ data) s.parser

section
variable {w : World γ} {L : Labels} {TT : TLabels} {P : PLabels} {S : SLabels}

theorem PX0_setSink {inp : Bytes} {p : Parser (Disp γ)} (d : Disp γ)
    (h : PX0 w.env L TT P S PendD Disp.Good true inp p) (hpa : d.pendingAux = p.x.sink.pendingAux)
    (hgf : d.gotFlagsFromHint = p.x.sink.gotFlagsFromHint) :
    PX0 w.env L TT P S PendD Disp.Good true inp { p with x := { p.x with sink := d } } := by
  have hgood : Disp.Good p.x.sink → Disp.Good d := by
    intro hg hh
    rw [hpa]
    exact hg (by rw [← hgf]; exact hh)
  cases hd : p.directive with
  | scan =>
    simp only [PX0, hd] at h ⊢
    obtain ⟨hsa, hg, hi⟩ := h
    refine ⟨⟨⟨hsa.head.scan, hsa.head.stale, hsa.head.head⟩, ⟨hsa.lab.scan, hsa.lab.tt, hsa.lab.endc, ?_⟩,
      fun q ph v a1 a2 a3 a4 a5 => ⟨(hsa.sem q ph v a1 a2 a3 a4 a5).path, (hsa.sem q ph v a1 a2 a3 a4 a5).sem⟩⟩,
      hgood hg, hi⟩
    show d.pendingAux = false
    rw [hpa]
    exact hsa.lab.pend
  | lex =>
    simp only [PX0, hd] at h ⊢
    obtain ⟨⟨c0, l0, x0, hm, hcore⟩, hidle⟩ := h
    simp only [M.mk.injEq, Regs.lexer.injEq] at hm
    obtain ⟨rfl, rfl, rfl⟩ := hm
    exact ⟨⟨_, _, _, rfl, hcore.sink d hgood hpa⟩, hidle⟩

theorem flushRemaining_flags {d d' : Disp γ} {inp : Bytes} {k : Nat} (h : d.flushRemaining inp k = .ok d') :
    d'.pendingAux = d.pendingAux ∧ d'.gotFlagsFromHint = d.gotFlagsFromHint := by
  unfold Disp.flushRemaining at h
  split at h
  · split at h
    · cases h
    · simp only [Except.ok.injEq] at h
      subst h
      split <;> exact ⟨rfl, rfl⟩
  · simp only [Except.ok.injEq] at h
    subst h
    exact ⟨rfl, rfl⟩

theorem keepTail_noU2 (s : Stream γ) (data chunk : Bytes) (consumed : Nat) (e : Err)
    (h : (s.keepTail w data chunk consumed).2 = .error e) : ¬ U2err e := by
  unfold Stream.keepTail at h
  by_cases hlt : consumed < chunk.length
  · simp only [hlt, if_true] at h
    by_cases hb : s.hasBuffered = true
    · simp only [hb, if_true] at h
      cases hsh : s.buf.shift consumed with
      | some b => rw [hsh] at h; cases h
      | none => rw [hsh] at h; simp only [Except.error.injEq] at h; subst h; simp [U2err, U2]
    · have hb' : s.hasBuffered = false := by simpa using hb
      simp only [hb', Bool.false_eq_true, if_false] at h
      by_cases hi : (s.buf.initWith (data.drop consumed)).2 = true
      · simp only [hi, if_true] at h; cases h
      · simp only [hi, Bool.false_eq_true, if_false, Except.error.injEq] at h; subst h; simp [U2err]
  · simp only [hlt, if_false] at h; cases h

theorem finish_noU2 (hc : CtlClean w.ctl) (d : Disp γ) (inp : Bytes) (e : Err)
    (h : (d.finish w.ctl inp).2 = .error e) : ¬ U2err e := by
  unfold Disp.finish at h
  cases hfl : d.flushRemaining inp inp.length with
  | error e' =>
    rw [hfl] at h
    simp only [DRes.ofExcept, DRes.bind, Except.error.injEq] at h
    subst h
    unfold Disp.flushRemaining at hfl
    (repeat' split at hfl) <;> first | (cases hfl; done) | (simp only [Except.error.injEq] at hfl; subst hfl; simp [U2err, U2])
  | ok d' =>
    rw [hfl] at h
    simp only [DRes.ofExcept, DRes.bind] at h
    split at h
    · rename_i e' herr
      simp only [Except.error.injEq] at h
      subst h
      exact not_U2err_of_clean (hc.handleEnd _ _ herr)
    · cases h

theorem Stream.new_SX (hside : RelexSide w.tbl L TT P S) (g : γ) (cfg : Settings) :
    SXInv w L TT P S (Stream.new w g cfg) := by
  intro data
  simp only [Stream.new]
  by_cases hinit : (w.ctl.initialFlags g).isEmpty = true
  · simp only [hinit, if_true, PX0, Parser.new]
    refine ⟨⟨HInv.of_none rfl rfl rfl, ⟨rfl, ?_, fun _ => rfl, rfl⟩, HSem_of_none rfl⟩, fun _ => rfl,
      LolHtml.Lemmas.Sim.inv_new _⟩
    exact tt_flows (TextTypeOk_text hside.tt .data) (x := TextType.data) (fun tt h => by simpa using h)
  · simp only [hinit, Bool.false_eq_true, if_false, PX0, Parser.new]
    exact ⟨⟨_, _, _, rfl, fun _ => rfl, LolHtml.Lemmas.Sim.inv_new _, Or.inl ⟨rfl, rfl⟩⟩, rfl, rfl, rfl⟩

/-- **`TransformStream::write`** keeps the invariant and reports no `U2` error -/
theorem Stream.write_X (hc : CtlClean w.ctl) (hside : RelexSide w.tbl L TT P S) (s : Stream γ) (data : Bytes)
    (hs : SXInv w L TT P S s) :
    (∀ e, (s.write w data).2 = .error e → ¬ U2err e) ∧
    ((s.write w data).2 = .ok () → SXInv w L TT P S (s.write w data).1) := by
  unfold Stream.write
  cases hcf : s.chunkFor w data with
  | inl s' =>
    refine ⟨fun e h => ?_, fun h => by cases h⟩
    simp only [Except.error.injEq] at h
    subst h
    simp [U2err]
  | inr sc =>
    obtain ⟨s1, chunk⟩ := sc
    obtain ⟨c1, c2, c3, c4, c5⟩ := Stream.chunkFor_inr hcf
    dsimp only
    subst c1
    have hp1 : PX0 w.env L TT P S PendD Disp.Good true (s.pending ++ data) s1.parser := by rw [c2]; exact hs data
    obtain ⟨q1, q2⟩ := parse_X (env := w.env) (inp := s.pending ++ data) (dispOps_xlaws hc) hside false s1.parser hp1
    cases hpr : (s1.parser.parse w.env (s.pending ++ data) false).2 with
    | error e =>
      dsimp only
      refine ⟨fun e' h => ?_, fun h => by cases h⟩
      simp only [Except.error.injEq] at h
      subst h
      exact q1 e hpr
    | ok consumed =>
      dsimp only
      have hnext := q2 consumed hpr rfl
      cases hfl : Disp.flushRemaining (Stream.disp { s1 with parser := (s1.parser.parse w.env (s.pending ++ data) false).1 })
          (s.pending ++ data) consumed with
      | error e =>
        dsimp only
        refine ⟨fun e' h => ?_, fun h => by cases h⟩
        simp only [Except.error.injEq] at h
        subst h
        unfold Disp.flushRemaining at hfl
        (repeat' split at hfl) <;> first | (cases hfl; done) | (simp only [Except.error.injEq] at hfl; subst hfl; simp [U2err, U2])
      | ok d =>
        dsimp only
        refine ⟨fun e h => keepTail_noU2 _ _ _ _ e h, fun hres => ?_⟩
        obtain ⟨k1, k2⟩ := LolHtml.Thm.C09.keepTail_pending (w := w)
          (s := Stream.setDisp { s1 with parser := (s1.parser.parse w.env (s.pending ++ data) false).1 } d)
          (data := data) (chunk := s.pending ++ data) (consumed := consumed)
          (by intro hb; exact c5 (by simpa [Stream.setDisp, c3] using hb))
          (by intro hb
              have : s.hasBuffered = false := by simpa [Stream.setDisp, c3] using hb
              simp [Stream.pending, this])
          hres
        obtain ⟨f1, f2⟩ := flushRemaining_flags hfl
        intro data'
        rw [k1, k2]
        exact PX0_setSink d (hnext data') f1 f2

/-- **`TransformStream::end`** reports no `U2` error -/
theorem Stream.end_X (hc : CtlClean w.ctl) (hside : RelexSide w.tbl L TT P S) (s : Stream γ)
    (hs : SXInv w L TT P S s) : ∀ e, (s.end w).2 = .error e → ¬ U2err e := by
  intro e he
  unfold Stream.end at he
  have hp1 : PX0 w.env L TT P S PendD Disp.Good true (if s.hasBuffered then s.buf.data else []) s.parser := by
    have := hs []
    simpa [Stream.pending] using this
  obtain ⟨q1, _⟩ := parse_X (env := w.env) (dispOps_xlaws hc) hside true s.parser hp1
  dsimp only at he
  cases hpr : (s.parser.parse w.env (if s.hasBuffered then s.buf.data else []) true).2 with
  | error e' =>
    rw [hpr] at he
    dsimp only at he
    simp only [Except.error.injEq] at he
    subst he
    exact q1 e' hpr
  | ok consumed =>
    rw [hpr] at he
    dsimp only at he
    exact finish_noU2 hc _ _ e he

/-- invariant of the public object -/
def RXInv (w : World γ) (L : Labels) (TT : TLabels) (P : PLabels) (S : SLabels) (r : Rewriter γ) : Prop :=
  r.poisoned = true ∨ SXInv w L TT P S r.stream

theorem Rewriter.write_X (hc : CtlClean w.ctl) (hside : RelexSide w.tbl L TT P S) (r : Rewriter γ) (data : Bytes)
    (hr : RXInv w L TT P S r) :
    (∀ e, (r.write w data).2 = .err e → ¬ U2err e) ∧ RXInv w L TT P S (r.write w data).1 := by
  unfold Rewriter.write
  by_cases hp : r.poisoned = true
  · simp only [hp, if_true]
    exact ⟨fun e h => (by cases h), Or.inl hp⟩
  · have hs : SXInv w L TT P S r.stream := by rcases hr with h | h; exact absurd h hp; exact h
    simp only [hp, Bool.false_eq_true, if_false]
    obtain ⟨h1, h2⟩ := Stream.write_X hc hside r.stream data hs
    cases hres : (r.stream.write w data).2 with
    | ok u => exact ⟨fun e h => (by cases h), Or.inr (h2 hres)⟩
    | error e =>
      refine ⟨fun e' h => ?_, Or.inl rfl⟩
      simp only [CallRes.err.injEq] at h
      subst h
      exact h1 e hres

theorem Rewriter.end_X (hc : CtlClean w.ctl) (hside : RelexSide w.tbl L TT P S) (r : Rewriter γ)
    (hr : RXInv w L TT P S r) : ∀ e, (r.end w).2 = .err e → ¬ U2err e := by
  unfold Rewriter.end
  by_cases hp : r.poisoned = true
  · simp only [hp, if_true]
    intro e h; cases h
  · have hs : SXInv w L TT P S r.stream := by rcases hr with h | h; exact absurd h hp; exact h
    simp only [hp, Bool.false_eq_true, if_false]
    have h1 := Stream.end_X hc hside r.stream hs
    cases hres : (r.stream.end w).2 with
    | ok u => intro e h; cases h
    | error e =>
      intro e' h
      simp only [CallRes.err.injEq] at h
      subst h
      exact h1 e hres

theorem writeAll_X (hc : CtlClean w.ctl) (hside : RelexSide w.tbl L TT P S) (chunks : List Bytes) (r : Rewriter γ)
    (hr : RXInv w L TT P S r) :
    (∀ e, .err e ∈ (writeAll w r chunks).2 → ¬ U2err e) ∧ RXInv w L TT P S (writeAll w r chunks).1 := by
  induction chunks generalizing r with
  | nil => exact ⟨fun e hx => (by cases hx), hr⟩
  | cons c cs ih =>
    simp only [writeAll]
    obtain ⟨h1, h2⟩ := Rewriter.write_X hc hside r c hr
    obtain ⟨h3, h4⟩ := ih _ h2
    refine ⟨fun e hx => ?_, h4⟩
    simp only [List.mem_cons] at hx
    rcases hx with hx | hx
    · exact h1 e hx.symm
    · exact h3 e hx

end

/-! ### the theorem -/

/-- **no call fails at a `U2` site**: for every table satisfying the hand-over side-conditions, every
tag configuration, every controller that never returns a panic/internal-class error itself, every
settings record, every list of writes followed by `end`. -/
theorem C15_agreement (w : World γ) (L : Labels) (TT : TLabels) (P : PLabels) (S : SLabels)
    (hside : RelexSide w.tbl L TT P S) (hc : CtlClean w.ctl) (g : γ) (cfg : Settings) (chunks : List Bytes) :
    ∀ e, .err e ∈ (run w (Rewriter.new w g cfg) chunks).2 → ¬ U2err e := by
  have h0 : RXInv w L TT P S (Rewriter.new w g cfg) := Or.inr (Stream.new_SX hside g cfg)
  obtain ⟨h1, h2⟩ := writeAll_X hc hside chunks _ h0
  intro e hx
  simp only [run, List.mem_append, List.mem_singleton] at hx
  rcases hx with hx | hx
  · exact h1 e hx
  · exact Rewriter.end_X hc hside _ h2 e hx.symm

/-- **C15_no_panic_full.** For every tokenizer table satisfying `WfTable`, the token-part certificate
check and the scanner ⇄ lexer hand-over side-conditions `RelexSide` (all decidable, all re-checked on
the regenerated table), every tag configuration, every controller that never returns a
panic/internal-class error itself, every settings record and every list of writes followed by `end`:
**no** call returns `.err (.panic s)` or `.err (.internal s)`, for any `s`. -/
theorem C15_no_panic_full (w : World γ) (L : Labels) (TT : TLabels) (P : PLabels) (S : SLabels)
    (hwf : WfTable w.tbl = true) (hcert : checkCert w.tbl (computeCert w.tbl) = true)
    (hside : RelexSide w.tbl L TT P S) (hc : CtlClean w.ctl) (g : γ) (cfg : Settings) (chunks : List Bytes) :
    ∀ x ∈ (run w (Rewriter.new w g cfg) chunks).2, Model.CallOK (fun _ => False) x := by
  apply C15_no_panic_full_of_agreement w hwf hcert hc g cfg chunks
  intro x hx s hs
  constructor
  · intro h
    subst h
    exact C15_agreement w L TT P S hside hc g cfg chunks _ hx hs
  · intro h
    subst h
    exact C15_agreement w L TT P S hside hc g cfg chunks _ hx hs

/-- **C15_signals_full.** At the level of one run of the parsing loop, where `ActionError::Internal`
is still visible (`Parser.parseLoop` maps it to a handler error, as the release build does): from the
parser invariant — also right after a scanner → lexer hand-over (`PX1`) — the loop never ends with
`"Tag should be a start tag at this point"` nor with the `RequestLexeme` callback assertion. -/
theorem C15_signals_full (w : World γ) (L : Labels) (TT : TLabels) (P : PLabels) (S : SLabels)
    (hside : RelexSide w.tbl L TT P S) (hc : CtlClean w.ctl) (inp : Bytes) (last : Bool) (p : Parser (Disp γ))
    (hp : PX1 w.env L TT P S PendD Disp.Good true inp p) (e : Err)
    (he : (runLoop w.env inp (defaultFuel inp) (p.machine last)).2 = .err e) :
    e ≠ .internal "Tag should be a start tag at this point" ∧
    e ≠ .panic "RequestLexeme callback: unexpected tag type / empty ns stack" := by
  have := run_X (env := w.env) (dispOps_xlaws hc) hside last p hp e he
  constructor
  · intro h; subst h; exact this (Or.inl rfl)
  · intro h; subst h; exact this (Or.inr rfl)

/-! ### the code's current table -/

/-- **C15_relexSide_gen.** The hand-over side-conditions, evaluated by the kernel on the regenerated
table (the four checks are `C06_headOk_gen`, `C06_relexOk_gen`, `C06_textTypeOk_gen`, `C06_phaseSide_gen`). -/
theorem C15_relexSide_gen :
    RelexSide Gen.Syntax.table C06.genHeadLabels C06.genTextLabels C06.genPhaseLabels C06.genShadows :=
  ⟨C06.C06_headOk_gen, C06.C06_relexOk_gen, C06.C06_textTypeOk_gen, C06.C06_phaseSide_gen⟩

/-- **C15_no_panic_full_gen.** The full statement at the code's current table: every tag
configuration, clean controller, settings record, chunking. -/
theorem C15_no_panic_full_gen (w : World γ) (htbl : w.tbl = Gen.Syntax.table) (hc : CtlClean w.ctl)
    (g : γ) (cfg : Settings) (chunks : List Bytes) :
    ∀ x ∈ (run w (Rewriter.new w g cfg) chunks).2, Model.CallOK (fun _ => False) x :=
  C15_no_panic_full w _ _ _ _ (by rw [htbl]; exact C15_gen) (by rw [htbl]; exact C15_cert_gen)
    (by rw [htbl]; exact C15_relexSide_gen) hc g cfg chunks

end LolHtml.Thm.C15
