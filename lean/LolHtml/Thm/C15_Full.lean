import LolHtml.Thm.C15_Core
import LolHtml.Thm.C06_Relex
/-!
# C15 — the two sites left open by `C15_no_panic` (`U2`)

`C15_no_panic` (package inv) leaves two sites, both reachable only if the lexer restarted by the tag
scanner produced a first tag of another kind than the scanner saw:

* `"Tag should be a start tag at this point"` (dispatcher: a pending aux-info request answered by an
  end tag);
* `"RequestLexeme callback: unexpected tag type / empty ns stack"` (`lexHandleFeedback`).

Proved here: the two LOCAL halves — `C15_start_tag_site_local`: the dispatcher never reports the first
on a start-tag lexeme; `C15_callback_site_local`: `handle_tree_builder_feedback` never reports the
second when the callback kind fits the token's kind and the simulator is in the state in which
`get_feedback_for_{start,end}_tag` returned the request.
`C06_relex_same_tag` (Thm/C06_Relex.lean) proves that the restarted lexer's tag token has the kind,
hash and name the scanner saw, that the simulator is untouched in between, and that a pending
aux-info request belongs to a start tag / an unhandled request was computed for this very tag.

NOT proved: the global invariant gluing these through `Parser.parseLoop` / `Stream.write` across chunk
boundaries ("`pending_aux` or an unhandled `RequestLexeme` ⇒ the lexer is inside the re-lexing run of
that tag"). `C15_no_panic_full_statement` stays a `Prop`; `C15_no_panic_full_of_agreement` derives it
from `C15_no_panic` and that invariant's consequence.
-/
namespace LolHtml.Thm.C15
open LolHtml LolHtml.Model LolHtml.Thm.C01
open LolHtml.Lemmas.Sim (Inv callback_start_good callback_end_good)

variable {γ : Type}

/-- **Full statement** (no exception), not proved. -/
def C15_no_panic_full_statement : Prop :=
  ∀ {γ : Type} (w : World γ), WfTable w.tbl = true → checkCert w.tbl (computeCert w.tbl) = true → CtlClean w.ctl →
    ∀ (g : γ) (cfg : Settings) (chunks : List Bytes),
      ∀ x ∈ (run w (Rewriter.new w g cfg) chunks).2, Model.CallOK (fun _ => False) x

/-- `C15_no_panic` + "no call fails at a `U2` site" = the full statement. -/
theorem C15_no_panic_full_of_agreement (w : World γ) (hwf : WfTable w.tbl = true)
    (hcert : checkCert w.tbl (computeCert w.tbl) = true) (hc : CtlClean w.ctl) (g : γ) (cfg : Settings)
    (chunks : List Bytes)
    (hagree : ∀ x ∈ (run w (Rewriter.new w g cfg) chunks).2, ∀ s, U2 s → x ≠ .err (.panic s) ∧ x ≠ .err (.internal s)) :
    ∀ x ∈ (run w (Rewriter.new w g cfg) chunks).2, Model.CallOK (fun _ => False) x := by
  intro x hx
  have h1 := C15_no_panic w hwf hcert hc g cfg chunks x hx
  have h2 := hagree x hx
  cases x with
  | ok => trivial
  | panicUseAfterError => trivial
  | err e =>
    cases e with
    | panic s => exact (h2 s h1).1 rfl
    | internal s => exact (h2 s h1).2 rfl
    | _ => trivial

/-! ### site 2: the `RequestLexeme` callback -/

theorem tagViewFor_isStart {k : RLKind} {inp : Bytes} {tok : TagOutline} {v : TagView}
    (h : tagViewFor k inp tok = some v) : v.isStart = tok.isStart := by
  cases k <;> cases tok <;> simp only [tagViewFor] at h
  all_goals first
    | (simp only [Option.some.injEq] at h; subst h; rfl)
    | (simp only [Option.map_eq_some_iff] at h; obtain ⟨_, _, rfl⟩ := h; rfl)
    | skip
  · -- annotationXmlStart on a start tag
    split at h
    · simp at h
    · split at h
      · simp only [Option.map_eq_some_iff] at h; obtain ⟨_, _, rfl⟩ := h; rfl
      · simp only [Option.some.injEq] at h; subst h; rfl

/-- **site 2, local.** With a callback kind that fits the token's kind, on the simulator state in
which the request was made (foreign content for start-tag callbacks; an integration point below the
current HTML namespace for `annotation-xml` end tags), `handle_tree_builder_feedback` does not report
the callback assertion. -/
theorem C15_callback_site_local (inp : Bytes) (c : Common) (sim : Sim) (k : RLKind) (tok : TagOutline) (hi : Inv sim)
    (hstart : k ≠ .annotationXmlEnd → tok.isStart = true ∧ sim.currentNs ≠ .html)
    (hend : k = .annotationXmlEnd → tok.isStart = false ∧ ∃ top rest, sim.nsStack = sim.currentNs :: top :: rest) :
    lexHandleFeedback inp c sim (.requestLexeme k) tok ≠
      .error (.panic "RequestLexeme callback: unexpected tag type / empty ns stack") := by
  unfold lexHandleFeedback
  dsimp only
  cases hv : tagViewFor k inp tok with
  | none => simp
  | some v =>
    have hvs := tagViewFor_isStart hv
    dsimp only
    have hcb : ∃ s' fb, sim.runCallback k v = some (s', fb) := by
      by_cases hk : k = .annotationXmlEnd
      · subst hk
        obtain ⟨h1, top, rest, h2⟩ := hend rfl
        obtain ⟨s', fb, h3, _⟩ := callback_end_good sim hi top rest h2 v (by rw [hvs]; exact h1)
        exact ⟨s', fb, h3⟩
      · obtain ⟨h1, h2⟩ := hstart hk
        obtain ⟨s', fb, h3, _⟩ := callback_start_good sim hi h2 k hk v (by rw [hvs]; exact h1)
        exact ⟨s', fb, h3⟩
    obtain ⟨s', fb, hcb⟩ := hcb
    rw [hcb]
    dsimp only
    cases fb <;> simp

/-! ### site 1: a pending aux-info request answered by a start tag -/

theorem tokenProduced_clean {ctl : Controller γ} (hc : CtlClean ctl) (d : Disp γ) (t : Token) (e : Err)
    (h : (Disp.tokenProduced ctl d t).2 = .error e) : e.Clean := by
  unfold Disp.tokenProduced at h
  dsimp only at h
  split at h
  · rename_i e' he
    simp only [Except.error.injEq] at h
    subst h
    exact hc.token _ _ _ he
  · simp at h

/-- **site 1, local.** On a START-tag lexeme `handle_tag` never reports an internal error (for a
controller that does not itself return one): `"Tag should be a start tag at this point"` needs an
end-tag lexeme while an aux-info request is pending. -/
theorem C15_start_tag_site_local {ctl : Controller γ} (hc : CtlClean ctl) (inp : Bytes) (lx : TagLexeme) (d : Disp γ)
    (hstart : lx.outline.isStart = true) (s : String) :
    (Disp.handleTag ctl inp lx d).2 ≠ .error (.internal s) := by
  have hclean : ∀ e : Err, e.Clean → e ≠ .internal s := by
    intro e he h; subst h; exact he
  have hbind : ∀ {α β : Type} (r : DRes γ α) (f : Disp γ → α → DRes γ β),
      r.2 ≠ .error (.internal s) → (∀ d a, (f d a).2 ≠ .error (.internal s)) → (DRes.bind r f).2 ≠ .error (.internal s) := by
    intro α β r f h1 h2
    unfold DRes.bind
    split
    · rename_i e he
      intro hh
      exact h1 (by rw [he]; simpa using hh)
    · exact h2 _ _
  have hflush : ∀ d : Disp γ, (d.flushPendingText ctl).2 ≠ .error (.internal s) := by
    intro d
    unfold Disp.flushPendingText
    split
    · intro h; exact hclean _ (tokenProduced_clean hc _ _ _ h) rfl
    · simp
  have haux : ∀ (d : Disp γ) (info : AuxInfo), (d.answerAux ctl info).2 ≠ .error (.internal s) := by
    intro d info
    unfold Disp.answerAux
    dsimp only
    split
    · simp
    · rename_i e he
      intro h
      simp only [Except.error.injEq] at h
      exact hclean _ (hc.auxInfo _ _ _ he) h
  have hemit : ∀ (d : Disp γ) (raw : Range) (tok : Token), (d.emitToken ctl inp raw tok).2 ≠ .error (.internal s) := by
    intro d raw tok
    unfold Disp.emitToken
    apply hbind
    · unfold DRes.ofExcept Disp.emitChunkBefore
      cases checkedSlice inp ⟨d.rcs, raw.start⟩ <;> simp
    · intro d1 _
      apply hbind
      · intro h; exact hclean _ (tokenProduced_clean hc _ _ _ h) rfl
      · intro d2 _; simp
  unfold Disp.handleTag
  apply hbind _ _ (hflush d)
  intro d1 _
  apply hbind
  · split
    · simp
    · unfold Disp.adjustFlagsForTag
      cases ho : lx.outline with
      | endTag n h => rw [ho] at hstart; simp [TagOutline.isStart] at hstart
      | startTag n h ns as sc =>
        by_cases hp : d1.pendingAux = true
        · simp only [hp, if_true]
          exact haux _ _
        · simp only [hp, Bool.false_eq_true, if_false]
          cases hln : LocalName.new inp n h with
          | none => simp
          | some ln =>
            dsimp only
            cases hr : (ctl.startTag d1.ctl ln ns).2 with
            | flags f => simp
            | infoRequest => exact haux _ _
            | err e =>
              intro hh
              simp only [Except.error.injEq] at hh
              exact hclean _ (hc.startTag _ _ _ _ hr) hh
  · intro d2 _
    apply hbind
    · unfold Disp.produceTag
      split
      · simp
      · split
        · simp
        · exact hemit _ _ _
    · intro d3 _; simp

end LolHtml.Thm.C15
