import LolHtml.Thm.Full5
import LolHtml.Thm.C15_Args
/-!
# Package `full`, part 6 — the two glue sites are unreachable: `Full_no_panic_lexer` with no hypothesis left

`Full_no_panic_lexer_allowed` (Thm/Full5.lean) leaves two panic sites of the real controller: `rAttr` (an attribute's
raw range outside the tag lexeme's raw range) and `rMatcher` (an attribute name / value range outside the input). Both
are facts about the ARGUMENTS the lexer hands to `handle_tag`; `C15_parse_args_valid` (Thm/C15_Args.lean, package inv)
shows that the lexer only hands over lexemes with `TagArgsOK`, whatever the sink answers. Here the two are connected:

* `fullCtl_argsCtl` — the dispatcher over the real controller never reports one of the argument guard's two errors
  itself (they are slice checks of the DISPATCHER; a callback of the controller never returns them from a state
  without such a fault, `cbErr_not_own`; the cleaned dispatcher does not fail at them on a valid lexeme, C15);
* `handleTag_valid_noGlue`, `handleNonTag_noGlue` — on a VALID lexeme, from a `KD2` state, `handle_tag` /
  `handle_non_tag_content` over the real controller do not fail at a glue site (`auxConv_some`, `tokStartTag_no_rAttr`);
* `fullCtl_lexEV` + `LexE.run_lexEA` (Lemmas/LexOnlyEArgs.lean): every run IS the run of the cleaned controller until
  a callback fails with a handler error — `Full_rAttr`, `Full_rMatcher`, `Full_no_panic_lexer`.
-/
set_option linter.unusedSimpArgs false
set_option linter.unusedVariables false
namespace LolHtml.Thm.Full
open LolHtml LolHtml.Model LolHtml.Model.Full LolHtml.Model.Handlers LolHtml.EditModel LolHtml.Lemmas.Full
open LolHtml.Thm.C01 (run writeAll Rewriter.new)

/-- the token-part guard site used for the real controller: the dispatcher's `to_token` slice check -/
def argSite : String := "Bytes::slice out of range in to_token"

theorem argSite_T2 : T2 argSite := by unfold T2 argSite; simp
theorem argSite_ne : argSite ≠ rawSite := by decide
theorem argSite_own : DispOwn (.panic argSite) := Or.inr (Or.inl rfl)
theorem rawSite_own : DispOwn (.panic rawSite) := Or.inl rfl

/-- the dispatcher invariant for freshness: the controller state is in `DO` (no fault at one of the dispatcher's own
sites, nor at pkg-scan's guard site) -/
def DkFull (cfg : Cfg) (d : Disp (FullSt cfg)) : Prop := Chunk.R.DO cfg d.ctl

/-- a result of the real dispatcher that is the result of the cleaned one, or an error returned by a callback: not
one of the dispatcher's own errors, as far as the cleaned dispatcher does not return it -/
theorem fresh_of_rel {cfg : Cfg} {α : Type} {r₁ r₂ : DRes (FullSt cfg) α} {e : Err} (hown : DispOwn e)
    (h : (Chunk.R.DRel (Chunk.R.DO cfg) r₁.1 r₂.1 ∧ r₁.2 = r₂.2) ∨
      ∃ eA, (Chunk.R.GP eA ∧ Chunk.R.CbErr (fullCtl cfg) (Chunk.R.DO cfg) eA) ∧ r₁.2 = .error eA)
    (h2 : r₂.2 ≠ .error e) :
    r₁.2 ≠ .error e ∧ (∀ a, r₁.2 = .ok a → Chunk.R.DO cfg r₁.1.ctl) := by
  rcases h with ⟨⟨_, hD⟩, hres⟩ | ⟨eA, ⟨_, hc⟩, hres⟩
  · exact ⟨by rw [hres]; exact h2, fun _ _ => hD⟩
  · refine ⟨fun hh => ?_, fun a ha => by rw [hres] at ha; cases ha⟩
    rw [hres] at hh
    simp only [Except.error.injEq] at hh
    subst hh
    exact Chunk.R.cbErr_not_own cfg _ hc hown

theorem errNot_T2_ne {e : Err} {s : String} (hs : T2 s) (h : ErrNot T2 e) : e ≠ .panic s := by
  intro hh; subst hh; exact h hs

/-- **The dispatcher over the real controller is fresh for the argument guard.** -/
theorem fullCtl_argsCtl (cfg : Cfg) : ArgsCtl (genWorld cfg) argSite (DkFull cfg) where
  fresh := fun inp => by
    have hrel := Chunk.R.dispOps_relE (Chunk.R.fullCtl_sim_prov cfg) inp
    have hcl := Chunk.R.cleanCtl_clean (fullCtl cfg)
    have hs2 : SinkSafe2 (dispOps (Chunk.R.cleanCtl (fullCtl cfg))) inp := dispOps_safe2 hcl
    constructor
    · intro lx k hD hv
      have h := hrel.handleTag lx k k ⟨rfl, hD⟩
      have n1 : (Disp.handleTag (Chunk.R.cleanCtl (fullCtl cfg)) inp lx k).2 ≠ .error (.panic argSite) := fun hh =>
        errNot_T2_ne argSite_T2 (hs2.handleTag lx k hv.1.1 hv.1.2 _ hh) rfl
      have n2 : (Disp.handleTag (Chunk.R.cleanCtl (fullCtl cfg)) inp lx k).2 ≠ .error (.panic rawSite) := fun hh =>
        errNot_T2_ne rawSite_T2 (hs2.handleTag lx k hv.1.1 hv.1.2 _ hh) rfl
      exact ⟨(fresh_of_rel argSite_own h n1).1, (fresh_of_rel rawSite_own h n2).1, (fresh_of_rel argSite_own h n1).2⟩
    · intro lx k hD hv
      have h := hrel.handleNonTag lx k k ⟨rfl, hD⟩
      have n1 : (Disp.handleNonTag (Chunk.R.cleanCtl (fullCtl cfg)) inp lx k).2 ≠ .error (.panic argSite) := fun hh =>
        errNot_T2_ne argSite_T2 (hs2.handleNonTag lx k hv.1 hv.2 _ hh) rfl
      have n2 : (Disp.handleNonTag (Chunk.R.cleanCtl (fullCtl cfg)) inp lx k).2 ≠ .error (.panic rawSite) := fun hh =>
        errNot_T2_ne rawSite_T2 (hs2.handleNonTag lx k hv.1 hv.2 _ hh) rfl
      exact ⟨(fresh_of_rel argSite_own h n1).1, (fresh_of_rel rawSite_own h n2).1, (fresh_of_rel argSite_own h n1).2⟩
    · intro n ns k hD
      have h := hrel.startTagHint n ns k k ⟨rfl, hD⟩
      have n1 : (Disp.startTagHint (Chunk.R.cleanCtl (fullCtl cfg)) n ns k).2 ≠ .error (.panic argSite) := fun hh =>
        errNot_T2_ne argSite_T2 (hs2.startTagHint n ns k _ hh) rfl
      have n2 : (Disp.startTagHint (Chunk.R.cleanCtl (fullCtl cfg)) n ns k).2 ≠ .error (.panic rawSite) := fun hh =>
        errNot_T2_ne rawSite_T2 (hs2.startTagHint n ns k _ hh) rfl
      exact ⟨(fresh_of_rel argSite_own h n1).1, (fresh_of_rel rawSite_own h n2).1, (fresh_of_rel argSite_own h n1).2⟩
    · intro n k hD
      have h := hrel.endTagHint n k k ⟨rfl, hD⟩
      have n1 : (Disp.endTagHint (Chunk.R.cleanCtl (fullCtl cfg)) n k).2 ≠ .error (.panic argSite) := fun hh =>
        errNot_T2_ne argSite_T2 (hs2.endTagHint n k _ hh) rfl
      have n2 : (Disp.endTagHint (Chunk.R.cleanCtl (fullCtl cfg)) n k).2 ≠ .error (.panic rawSite) := fun hh =>
        errNot_T2_ne rawSite_T2 (hs2.endTagHint n k _ hh) rfl
      exact ⟨(fresh_of_rel argSite_own h n1).1, (fresh_of_rel rawSite_own h n2).1, (fresh_of_rel argSite_own h n1).2⟩
  flush := fun d d' inp k hf hd => by
    unfold DkFull at *
    rw [Chunk.R.flushRemaining_ctl hf]
    exact hd

/-! ## the two glue sites need an invalid lexeme -/

/-- a start-tag event whose aux info and token are what a VALID lexeme yields -/
def ValidEv (info : AuxInfo) (tok : Model.Token) : Prop :=
  AttrsInInput info.input info.attrs ∧
  match tok with
  | .startTag _ attrs _ _ raw src base =>
      ∃ rawR, src = srcOf base rawR ∧ raw.length = rawR.end - rawR.start ∧ AttrsRawIn rawR (attrs.map (·.2.2))
  | _ => True

theorem tokStartTag_not_rMatcher (cfg : Cfg) (s : St) (name : Bytes) (attrs : List (Bytes × Bytes × AttrOutline))
    (ns : Model.Ns) (sc : Bool) (raw : Bytes) (src : Range) (base : Nat) :
    (tokStartTag cfg s name attrs ns sc raw src base).2.err ≠ some (.panic rMatcher) := by
  intro h
  unfold tokStartTag at h
  split at h
  · split at h
    · simp only [Option.some.injEq, Err.panic.injEq] at h; revert h; decide
    · rename_i as hm
      dsimp only at h
      generalize (if 0 < s.disp.removedContent then
        StartTag.apply { name := name, attributes := as, ns := nsEdit ns, selfClosing := sc, raw := raw } (StartTagOp.mut MutOp.remove)
        else { name := name, attributes := as, ns := nsEdit ns, selfClosing := sc, raw := raw }) = st at h
      generalize runClosures cfg.elementScripts kElement Who.element (seeElement ns) Element.applyOps src
          s.disp.element.forEachActive s (Element.new st s.disp.nextElementCanHaveContent) = r at h
      split at h
      · simp at h
      · split at h
        · simp only [Option.some.injEq, dispErr, dispMsg, rMatcher, Err.panic.injEq] at h; revert h; decide
        · simp at h
  · simp only [Option.some.injEq, Err.panic.injEq] at h; revert h; decide

theorem afterVm_not (s : St) (n : Nat) (vm' : SelVM.Vm) (infos : List SelVM.MatchInfo) {b : String} (hb : dispMsg ≠ b) :
    (s.afterVm n vm' infos).2 ≠ .error (.panic b) := by
  unfold St.afterVm
  split
  · intro hh
    simp only [Except.error.injEq, dispErr, Err.panic.injEq] at hh
    exact hb hh
  · intro hh; cases hh

theorem startTag_not (s : St) (name : LocalName) (ns : Model.Ns) (hf : s.fault = none) {b : String}
    (h1 : vmMsg ≠ b) (h2 : dispMsg ≠ b) : (startTag s name ns).2 ≠ .err (.panic b) := by
  unfold startTag
  rw [hf]
  dsimp only
  unfold startTagCore
  split
  · intro hh; cases hh
  · split
    · intro hh
      simp only [StartTagRes.err.injEq, vmErr, Err.panic.injEq] at hh
      exact h1 hh
    · simp only
      split
      · intro hh; cases hh
      · rename_i e he
        intro hh
        simp only [StartTagRes.err.injEq] at hh
        subst hh
        exact afterVm_not _ _ _ _ h2 he
    · intro hh; cases hh

/-- the start phase of a start-tag event whose aux info can be converted fails at neither glue site -/
theorem startPhase_noGlue (s : St) (hf : s.fault = none) (ln : LocalName) (ns : Model.Ns) (info : AuxInfo)
    (hi : (auxConv info).isSome = true) :
    (startPhase s ln ns info).2 ≠ .error (.panic rAttr) ∧ (startPhase s ln ns info).2 ≠ .error (.panic rMatcher) := by
  have key : ∀ b : String, vmMsg ≠ b → dispMsg ≠ b → (startPhase s ln ns info).2 ≠ .error (.panic b) := by
    intro b h1 h2
    unfold startPhase
    dsimp only
    cases hst : (startTag s ln ns).2 with
    | flags f => intro hh; cases hh
    | err e =>
      intro hh
      simp only [Except.error.injEq] at hh
      subst hh
      exact startTag_not s ln ns hf h1 h2 hst
    | infoRequest =>
      dsimp only
      unfold auxInfo
      split
      · split
        · rename_i hn; rw [hn] at hi; cases hi
        · split
          · intro hh
            simp only [Except.error.injEq, vmErr, Err.panic.injEq] at hh
            exact h1 hh
          · exact afterVm_not _ _ _ _ h2
      · intro hh; cases hh
  exact ⟨key rAttr (by decide) (by decide), key rMatcher (by decide) (by decide)⟩

/-- **a start-tag event with valid aux info and token does not fail at a glue site** -/
theorem start_event_valid (cfg : Cfg) (s : St) (hf : s.fault = none) (ln : LocalName) (ns : Model.Ns) (info : AuxInfo)
    (nm : Bytes) (attrs : List (Bytes × Bytes × AttrOutline)) (ns' : Model.Ns) (sc : Bool) (raw : Bytes) (src : Range)
    (base : Nat) (hv : ValidEv info (.startTag nm attrs ns' sc raw src base)) (e : Err)
    (he : (ctlStep cfg s (.start ln ns info (.startTag nm attrs ns' sc raw src base))).2 = some e) :
    e ≠ .panic rAttr ∧ e ≠ .panic rMatcher := by
  obtain ⟨hv1, rawR, hsrc, hlen, hraw⟩ := hv
  have hconv := auxConv_some info.input info.attrs info.selfClosing hv1
  obtain ⟨n1, n2⟩ := startPhase_noGlue s hf ln ns info (by cases info; exact hconv)
  simp only [ctlStep] at he
  cases hsp : (startPhase s ln ns info).2 with
  | error e' =>
    rw [hsp] at he
    simp only [Option.some.injEq] at he
    subst he
    exact ⟨fun hh => n1 (by rw [hsp, hh]), fun hh => n2 (by rw [hsp, hh])⟩
  | ok f =>
    rw [hsp] at he
    dsimp only at he
    unfold tokIf at he
    split at he
    · have hmf : (startPhase s ln ns info).1.fault = none := by rw [startPhase_fault]; exact hf
      have htok : token cfg (startPhase s ln ns info).1 (.startTag nm attrs ns' sc raw src base) =
          tokStartTag cfg (startPhase s ln ns info).1 nm attrs ns' sc raw src base := by
        unfold token; simp only [hmf]
      dsimp only at he
      rw [htok] at he
      refine ⟨fun hh => ?_, fun hh => ?_⟩
      · subst hh
        rw [hsrc] at he
        exact tokStartTag_no_rAttr cfg _ nm attrs ns' sc raw rawR base hlen hraw he
      · subst hh
        exact tokStartTag_not_rMatcher cfg _ nm attrs ns' sc raw src base he
    · cases he

/-! ## the lexer-mode dispatcher operations, for valid lexemes -/

/-- `EvInv` with the start-tag clause asked only for events satisfying `V` -/
structure EvInvV (cfg : Cfg) (I : St → Prop) (S A : Err → Prop) (V : AuxInfo → Model.Token → Prop) : Prop where
  fault : ∀ s, I s → s.fault = none
  other : ∀ s tok b, I s → (CtlEv.other tok).WellKinded →
    ((tokIf cfg b s tok).2 = none → I (tokIf cfg b s tok).1) ∧ (∀ e, (tokIf cfg b s tok).2 = some e → e = .handler)
  start : ∀ s ln ns info nm attrs ns' sc raw src base, I s → V info (.startTag nm attrs ns' sc raw src base) →
    ((ctlStep cfg s (.start ln ns info (.startTag nm attrs ns' sc raw src base))).2 = none →
      I (ctlStep cfg s (.start ln ns info (.startTag nm attrs ns' sc raw src base))).1) ∧
    (∀ e, (ctlStep cfg s (.start ln ns info (.startTag nm attrs ns' sc raw src base))).2 = some e →
      e = .handler ∨ S e ∨ e = .panic rBase)
  end_ : ∀ s ln nm raw src, I s →
    ((ctlStep cfg s (.end_ ln (.endTag nm raw src))).2 = none → I (ctlStep cfg s (.end_ ln (.endTag nm raw src))).1) ∧
    (∀ e, (ctlStep cfg s (.end_ ln (.endTag nm raw src))).2 = some e → A e)

/-- the events a start-tag lexeme gives rise to satisfy `V` -/
def LexV (V : AuxInfo → Model.Token → Prop) (input : Bytes) (lx : TagLexeme) : Prop :=
  ∀ name h ns as sc, lx.outline = .startTag name h ns as sc →
    V ⟨input, as, sc⟩ (.startTag [] [] ns sc [] ⟨0, 0⟩ 0) ∧
    ∀ n attrs raw, attrsOf input as = some attrs → checkedSlice input lx.raw = some raw →
      V ⟨input, as, sc⟩ (.startTag n attrs ns sc raw (srcOf lx.prevConsumed lx.raw) lx.prevConsumed)

/-- `produceTag_start_full`, remembering where the token's attributes and raw bytes come from -/
theorem produceTag_start_fullV {cfg : Cfg} (d : Disp (FullSt cfg)) (input : Bytes) (lx : TagLexeme)
    (name : Range) (h : Nat) (ns : Model.Ns) (as : List AttrOutline) (sc : Bool)
    (ho : lx.outline = .startTag name h ns as sc) :
    (d.flags.nextStartTag = false →
      (d.produceTag (fullCtl cfg) input lx).2 = .ok () ∧ (d.produceTag (fullCtl cfg) input lx).1.ctl = d.ctl ∧
      SameBut d (d.produceTag (fullCtl cfg) input lx).1) ∧
    (d.flags.nextStartTag = true →
      (∃ e, DispOwn e ∧ (d.produceTag (fullCtl cfg) input lx).2 = .error e) ∨
      (∃ n attrs raw, attrsOf input as = some attrs ∧ checkedSlice input lx.raw = some raw ∧
        (d.produceTag (fullCtl cfg) input lx).1.ctl.1 =
          (token cfg d.ctl.1 (.startTag n attrs ns sc raw (srcOf lx.prevConsumed lx.raw) lx.prevConsumed)).1 ∧
        SameBut d (d.produceTag (fullCtl cfg) input lx).1 ∧
        (d.produceTag (fullCtl cfg) input lx).2 =
          (match (token cfg d.ctl.1 (.startTag n attrs ns sc raw (srcOf lx.prevConsumed lx.raw) lx.prevConsumed)).2.err with
           | some e => .error e
           | none => .ok ()))) := by
  refine ⟨(produceTag_start_full d input lx name h ns as sc ho).1, ?_⟩
  intro hf
  unfold Disp.produceTag tagToToken
  simp only [ho, hf, if_true]
  cases h1 : checkedSlice input name with
  | none => exact Or.inl ⟨_, Or.inr (Or.inl rfl), rfl⟩
  | some n =>
    cases h2 : attrsOf input as with
    | none => exact Or.inl ⟨_, Or.inr (Or.inl rfl), rfl⟩
    | some attrs =>
      cases h3 : checkedSlice input lx.raw with
      | none => exact Or.inl ⟨_, Or.inr (Or.inl rfl), rfl⟩
      | some raw =>
        simp only
        rcases emitToken_full (cfg := cfg) { d with flags := { d.flags with nextStartTag := false } } input lx.raw
          (.startTag n attrs ns sc raw (srcOf lx.prevConsumed lx.raw) lx.prevConsumed) with ⟨e, he, h4, _⟩ | ⟨h4, h5, h6⟩
        · exact Or.inl ⟨e, he, h4⟩
        · exact Or.inr ⟨n, attrs, raw, rfl, rfl, h4, ⟨h5.pa, h5.gf⟩, h6⟩

/-- **`handleTag_lexer_gen` for lexemes whose events satisfy `V`** (the proof of Thm/Full4.lean, with the start-tag
clause of the event invariant used only for such events) -/
theorem handleTag_lexer_genV (cfg : Cfg) (I : St → Prop) (S A : Err → Prop) (V : AuxInfo → Model.Token → Prop)
    (hE : EvInvV cfg I S A V)
    (d : Disp (FullSt cfg)) (hi : Idle d) (hJ : I d.ctl.1) (input : Bytes) (lx : TagLexeme) (hV : LexV V input lx) :
    PostG cfg I (CG S A) (Disp.handleTag (fullCtl cfg) input lx d) := by
  unfold Disp.handleTag
  -- 1. the closing chunk of an open text node
  obtain ⟨tokF, ⟨tt, p, htokF⟩, f1, _, f3, f4⟩ := flushPendingText_full d
  have hkF : (CtlEv.other tokF).WellKinded := by rw [htokF]; trivial
  obtain ⟨o1, o2⟩ := hE.other d.ctl.1 tokF d.textPending hJ hkF
  cases h0 : (tokIf cfg d.textPending d.ctl.1 tokF).2 with
  | some e =>
    rw [h0] at f4
    rw [DRes.bind_err _ _ e f4]
    exact postG_err _ e (Or.inl (o2 e h0))
  | none =>
    rw [h0] at f4
    rw [DRes.bind_ok _ _ () f4]
    have hJ1 : I (d.flushPendingText (fullCtl cfg)).1.ctl.1 := by rw [f1]; exact o1 h0
    have hi1 : Idle (d.flushPendingText (fullCtl cfg)).1 := f3.idle hi
    generalize (d.flushPendingText (fullCtl cfg)).1 = d1 at hJ1 hi1 ⊢
    -- 2. `adjust_capture_flags_for_tag_lexeme`
    rw [if_neg (by rw [hi1.2]; simp)]
    cases hl : LocalName.new input lx.outline.name lx.outline.nameHash with
    | none =>
      have := adjust_noname d1 hi1.1 input lx hl
      rw [DRes.bind_err _ _ _ this]
      exact postG_err _ _ (Or.inr (Or.inr (Or.inr (Or.inl rfl))))
    | some ln =>
      cases ho : lx.outline with
      | startTag name h ns as sc =>
        rw [ho] at hl
        simp only [TagOutline.name, TagOutline.nameHash] at hl
        obtain ⟨a1, a2, a3⟩ := adjust_start_full d1 hi1.1 input lx name h ns as sc ln ho hl
        have dummy : Model.Token := .startTag [] [] ns sc [] ⟨0, 0⟩ 0
        cases hrp : (startPhase d1.ctl.1 ln ns ⟨input, as, sc⟩).2 with
        | error e =>
          rw [hrp] at a3
          rw [DRes.bind_err _ _ e a3]
          obtain ⟨_, c2⟩ := hE.start d1.ctl.1 ln ns ⟨input, as, sc⟩ [] [] ns sc [] ⟨0, 0⟩ 0 hJ1 (hV name h ns as sc ho).1
          have hce : (ctlStep cfg d1.ctl.1 (.start ln ns ⟨input, as, sc⟩ (.startTag [] [] ns sc [] ⟨0, 0⟩ 0))).2 = some e := by
            simp only [ctlStep, hrp]
          have hcls := c2 e hce
          refine postG_err _ e (residual_cg hcls ?_)
          -- the error comes out of the start phase, which has no `rBase` site
          intro heq
          subst heq
          have := startTag_hp d1.ctl.1 ln ns
          unfold startPhase at hrp
          cases hst : (startTag d1.ctl.1 ln ns).2 with
          | flags f => simp [hst] at hrp
          | err e' =>
            simp only [hst, Except.error.injEq] at hrp
            subst hrp
            unfold startTag at hst
            split at hst
            · rename_i m hm; rw [(hE.fault _ hJ1)] at hm; cases hm
            · unfold startTagCore at hst
              split at hst
              · simp at hst
              · split at hst
                · simp only [StartTagRes.err.injEq, vmErr, vmMsg, rBase, Err.panic.injEq] at hst; revert hst; decide
                · dsimp only at hst
                  split at hst
                  · simp at hst
                  · rename_i e'' he''
                    simp only [StartTagRes.err.injEq] at hst
                    subst hst
                    unfold St.afterVm at he''
                    split at he''
                    · simp only [Except.error.injEq, dispErr, dispMsg, rBase, Err.panic.injEq] at he''; revert he''; decide
                    · simp at he''
                · simp at hst
          | infoRequest =>
            simp only [hst] at hrp
            unfold auxInfo at hrp
            split at hrp
            · split at hrp
              · simp only [Except.error.injEq, rBase, Err.panic.injEq] at hrp; revert hrp; decide
              · split at hrp
                · simp only [Except.error.injEq, vmErr, vmMsg, rBase, Err.panic.injEq] at hrp; revert hrp; decide
                · unfold St.afterVm at hrp
                  split at hrp
                  · simp only [Except.error.injEq, dispErr, dispMsg, rBase, Err.panic.injEq] at hrp; revert hrp; decide
                  · simp at hrp
            · simp at hrp
        | ok f =>
          rw [hrp] at a3
          obtain ⟨a3, a4⟩ := a3
          rw [DRes.bind_ok _ _ () a3]
          have hi2 : Idle (d1.adjustFlagsForTag (fullCtl cfg) input lx).1 := a2.idle hi1
          generalize (d1.adjustFlagsForTag (fullCtl cfg) input lx).1 = d2 at a1 a4 hi2 ⊢
          obtain ⟨r1, r2, r3⟩ := resumeEmission_same d2 lx
          have hi3 : Idle (d2.resumeEmission (fullCtl cfg) lx) := r3.idle hi2
          have hc3 : (d2.resumeEmission (fullCtl cfg) lx).ctl.1 = (startPhase d1.ctl.1 ln ns ⟨input, as, sc⟩).1 := by
            rw [r1]; exact a1
          have hf3 : (d2.resumeEmission (fullCtl cfg) lx).flags = f := by rw [r2]; exact a4
          generalize d2.resumeEmission (fullCtl cfg) lx = d3 at hi3 hc3 hf3 ⊢
          obtain ⟨p1, p2⟩ := produceTag_start_fullV d3 input lx name h ns as sc ho
          cases hb1 : f.nextStartTag with
          | false =>
            obtain ⟨q1, q2, q3⟩ := p1 (by rw [hf3]; exact hb1)
            rw [DRes.bind_ok _ _ () q1]
            obtain ⟨c1, _⟩ := hE.start d1.ctl.1 ln ns ⟨input, as, sc⟩ [] [] ns sc [] ⟨0, 0⟩ 0 hJ1 (hV name h ns as sc ho).1
            have hce : ctlStep cfg d1.ctl.1 (.start ln ns ⟨input, as, sc⟩ (.startTag [] [] ns sc [] ⟨0, 0⟩ 0)) =
                ((startPhase d1.ctl.1 ln ns ⟨input, as, sc⟩).1, none) := by
              simp only [ctlStep, hrp, tokIf, hb1, Bool.false_eq_true, if_false]
            have hJ3 : I (d3.produceTag (fullCtl cfg) input lx).1.ctl.1 := by
              rw [q2, hc3]
              have := c1 (by rw [hce])
              rw [hce] at this
              exact this
            exact handleTag_tailG _ (q3.idle hi3) hJ3
          | true =>
            rcases p2 (by rw [hf3]; exact hb1) with ⟨e, he, hq⟩ | ⟨n, attrs, raw, qa, qr, q1, q2, q3⟩
            · rw [DRes.bind_err _ _ e hq]
              exact postG_err _ e (Or.inr (Or.inr (Or.inr he)))
            · obtain ⟨c1, c2⟩ := hE.start d1.ctl.1 ln ns ⟨input, as, sc⟩ n attrs ns sc raw
                (srcOf lx.prevConsumed lx.raw) lx.prevConsumed hJ1 ((hV name h ns as sc ho).2 n attrs raw qa qr)
              have hce : ctlStep cfg d1.ctl.1 (.start ln ns ⟨input, as, sc⟩
                    (.startTag n attrs ns sc raw (srcOf lx.prevConsumed lx.raw) lx.prevConsumed)) =
                  ((token cfg d3.ctl.1 (.startTag n attrs ns sc raw (srcOf lx.prevConsumed lx.raw) lx.prevConsumed)).1,
                   (token cfg d3.ctl.1 (.startTag n attrs ns sc raw (srcOf lx.prevConsumed lx.raw) lx.prevConsumed)).2.err) := by
                simp only [ctlStep, hrp, tokIf, hb1, if_true, hc3]
              cases hte : (token cfg d3.ctl.1 (.startTag n attrs ns sc raw (srcOf lx.prevConsumed lx.raw) lx.prevConsumed)).2.err with
              | some e =>
                rw [hte] at q3
                rw [DRes.bind_err _ _ e q3]
                have hcls := c2 e (by rw [hce, hte])
                refine postG_err _ e (residual_cg hcls ?_)
                intro heq
                subst heq
                have hfault : d3.ctl.1.fault = none := by
                  rw [hc3]
                  obtain ⟨g1, _⟩ := hE.start d1.ctl.1 ln ns ⟨input, as, sc⟩ [] [] ns sc [] ⟨0, 0⟩ 0 hJ1 (hV name h ns as sc ho).1
                  -- the start phase does not touch the fault
                  have : (startPhase d1.ctl.1 ln ns ⟨input, as, sc⟩).1.fault = d1.ctl.1.fault := by
                    unfold startPhase
                    dsimp only
                    split
                    · exact LolHtml.Model.Chunk.R.startTag_fault _ _ _
                    · exact LolHtml.Model.Chunk.R.startTag_fault _ _ _
                    · rw [LolHtml.Model.Chunk.R.auxInfo_fault, LolHtml.Model.Chunk.R.startTag_fault]
                  rw [this]; exact (hE.fault _ hJ1)
                unfold token at hte
                simp only [hfault] at hte
                exact tokStartTag_not_rBase cfg d3.ctl.1 n attrs ns sc raw _ _ (by simp [srcOf]) hte
              | none =>
                rw [hte] at q3
                rw [DRes.bind_ok _ _ () q3]
                have hJ4 : I (d3.produceTag (fullCtl cfg) input lx).1.ctl.1 := by
                  rw [q1]
                  have := c1 (by rw [hce, hte])
                  rw [hce] at this
                  exact this
                exact handleTag_tailG _ (q2.idle hi3) hJ4
      | endTag name h =>
        rw [ho] at hl
        simp only [TagOutline.name, TagOutline.nameHash] at hl
        obtain ⟨a1, a2, a3, a4⟩ := adjust_end_full d1 hi1.1 input lx name h ln ho hl
        rw [DRes.bind_ok _ _ () a3]
        have hi2 : Idle (d1.adjustFlagsForTag (fullCtl cfg) input lx).1 := a2.idle hi1
        generalize (d1.adjustFlagsForTag (fullCtl cfg) input lx).1 = d2 at a1 a4 hi2 ⊢
        obtain ⟨r1, r2, r3⟩ := resumeEmission_same d2 lx
        have hi3 : Idle (d2.resumeEmission (fullCtl cfg) lx) := r3.idle hi2
        have hc3 : (d2.resumeEmission (fullCtl cfg) lx).ctl.1 = (endTag d1.ctl.1 ln).1 := by rw [r1]; exact a1
        have hf3 : (d2.resumeEmission (fullCtl cfg) lx).flags = (endTag d1.ctl.1 ln).2 := by rw [r2]; exact a4
        generalize d2.resumeEmission (fullCtl cfg) lx = d3 at hi3 hc3 hf3 ⊢
        obtain ⟨p1, p2⟩ := produceTag_end_full d3 input lx name h ho
        cases hb1 : (endTag d1.ctl.1 ln).2.nextEndTag with
        | false =>
          obtain ⟨q1, q2, q3⟩ := p1 (by rw [hf3]; exact hb1)
          rw [DRes.bind_ok _ _ () q1]
          obtain ⟨c1, _⟩ := hE.end_ d1.ctl.1 ln [] [] ⟨0, 0⟩ hJ1
          have hce : ctlStep cfg d1.ctl.1 (.end_ ln (.endTag [] [] ⟨0, 0⟩)) = ((endTag d1.ctl.1 ln).1, none) := by
            simp only [ctlStep, tokIf, hb1, Bool.false_eq_true, if_false]
          have hJ3 : I (d3.produceTag (fullCtl cfg) input lx).1.ctl.1 := by
            rw [q2, hc3]
            have := c1 (by rw [hce])
            rw [hce] at this
            exact this
          exact handleTag_tailG _ (q3.idle hi3) hJ3
        | true =>
          rcases p2 (by rw [hf3]; exact hb1) with ⟨e, he, hq⟩ | ⟨n, raw, q1, q2, q3⟩
          · rw [DRes.bind_err _ _ e hq]
            exact postG_err _ e (Or.inr (Or.inr (Or.inr he)))
          · obtain ⟨c1, c2⟩ := hE.end_ d1.ctl.1 ln n raw (srcOf lx.prevConsumed lx.raw) hJ1
            have hce : ctlStep cfg d1.ctl.1 (.end_ ln (.endTag n raw (srcOf lx.prevConsumed lx.raw))) =
                ((token cfg d3.ctl.1 (.endTag n raw (srcOf lx.prevConsumed lx.raw))).1,
                 (token cfg d3.ctl.1 (.endTag n raw (srcOf lx.prevConsumed lx.raw))).2.err) := by
              simp only [ctlStep, tokIf, hb1, if_true, hc3]
            cases hte : (token cfg d3.ctl.1 (.endTag n raw (srcOf lx.prevConsumed lx.raw))).2.err with
            | some e =>
              rw [hte] at q3
              rw [DRes.bind_err _ _ e q3]
              have hcls := c2 e (by rw [hce, hte])
              -- the only residual site of an end-tag token is the missing payload
              exact postG_err _ e (Or.inr (Or.inr (Or.inl hcls)))
            | none =>
              rw [hte] at q3
              rw [DRes.bind_ok _ _ () q3]
              have hJ4 : I (d3.produceTag (fullCtl cfg) input lx).1.ctl.1 := by
                rw [q1]
                have := c1 (by rw [hce, hte])
                rw [hce] at this
                exact this
              exact handleTag_tailG _ (q2.idle hi3) hJ4

/-! ## `Disp.handleNonTag` and `Disp.finish` in lexer mode -/

/-- `handleNonTag_lexer_gen`, with the error class it actually establishes: a handler error or one of the
dispatcher's own slice checks (only the `other` clause of the event invariant is used) -/
theorem handleNonTag_lexer_other (cfg : Cfg) (I : St → Prop)
    (hO : ∀ s tok b, I s → (CtlEv.other tok).WellKinded →
      ((tokIf cfg b s tok).2 = none → I (tokIf cfg b s tok).1) ∧ (∀ e, (tokIf cfg b s tok).2 = some e → e = .handler))
    (d : Disp (FullSt cfg)) (hi : Idle d) (hJ : I d.ctl.1)
    (input : Bytes) (lx : NonTagLexeme) : PostG cfg I (fun e => e = .handler ∨ DispOwn e) (Disp.handleNonTag (fullCtl cfg) input lx d) := by
  unfold Disp.handleNonTag
  -- after the optional flush we are in a `J` state again
  have hflush : (∃ e, (if lx.isText then ((d, .ok ()) : DRes (FullSt cfg) Unit) else d.flushPendingText (fullCtl cfg)).2 = .error e ∧
        e = .handler) ∨
      ((if lx.isText then ((d, .ok ()) : DRes (FullSt cfg) Unit) else d.flushPendingText (fullCtl cfg)).2 = .ok () ∧
        Idle (if lx.isText then ((d, .ok ()) : DRes (FullSt cfg) Unit) else d.flushPendingText (fullCtl cfg)).1 ∧
        I (if lx.isText then ((d, .ok ()) : DRes (FullSt cfg) Unit) else d.flushPendingText (fullCtl cfg)).1.ctl.1) := by
    split
    · exact Or.inr ⟨rfl, hi, hJ⟩
    · obtain ⟨tokF, ⟨tt, p, htokF⟩, f1, _, f3, f4⟩ := flushPendingText_full d
      have hkF : (CtlEv.other tokF).WellKinded := by rw [htokF]; trivial
      obtain ⟨o1, o2⟩ := hO d.ctl.1 tokF d.textPending hJ hkF
      cases h0 : (tokIf cfg d.textPending d.ctl.1 tokF).2 with
      | some e => rw [h0] at f4; exact Or.inl ⟨e, f4, o2 e h0⟩
      | none => rw [h0] at f4; exact Or.inr ⟨f4, f3.idle hi, by rw [f1]; exact o1 h0⟩
  rcases hflush with ⟨e, he, hh⟩ | ⟨hok, hi1, hJ1⟩
  · rw [DRes.bind_err _ _ e he]
    exact postG_err _ e (Or.inl hh)
  · rw [DRes.bind_ok _ _ () hok]
    generalize (if lx.isText then ((d, .ok ()) : DRes (FullSt cfg) Unit) else d.flushPendingText (fullCtl cfg)).1 = d1 at hi1 hJ1 ⊢
    rcases produceNonTag_full d1 input lx with ⟨q1, q2, q3⟩ | ⟨e, he, hq⟩ | ⟨tok, hk, q1, q2, q3⟩
    · exact ⟨fun _ _ => ⟨q3.idle hi1, by rw [q2]; exact hJ1⟩, fun e he => by rw [q1] at he; cases he⟩
    · refine ⟨fun a ha => (by rw [hq] at ha; cases ha), fun e' he' => ?_⟩
      rw [hq] at he'
      simp only [Except.error.injEq] at he'
      rw [← he']
      exact Or.inr he
    · obtain ⟨o1, o2⟩ := hO d1.ctl.1 tok true hJ1 hk
      have hto : tokIf cfg true d1.ctl.1 tok = ((token cfg d1.ctl.1 tok).1, (token cfg d1.ctl.1 tok).2.err) := by
        simp [tokIf]
      cases hte : (token cfg d1.ctl.1 tok).2.err with
      | some e =>
        rw [hte] at q3
        refine ⟨fun a ha => (by rw [q3] at ha; cases ha), fun e' he' => ?_⟩
        rw [q3] at he'
        simp only [Except.error.injEq] at he'
        rw [← he']
        exact Or.inl (o2 e (by rw [hto, hte]))
      | none =>
        rw [hte] at q3
        refine ⟨fun _ _ => ⟨q2.idle hi1, ?_⟩, fun e he => by rw [q3] at he; cases he⟩
        rw [q1]
        have := o1 (by rw [hto, hte])
        rw [hto] at this
        exact this

/-! ## the lifting -/

theorem J2_evInvV (cfg : Cfg) : EvInvV cfg (J2 cfg) (fun _ => False) (fun _ => False) ValidEv where
  fault := (J2_evInv cfg).fault
  other := (J2_evInv cfg).other
  end_ := (J2_evInv cfg).end_
  start := fun s ln ns info nm attrs ns' sc raw src base h hv => by
    obtain ⟨c1, c2⟩ := (J2_evInv cfg).start s ln ns info nm attrs ns' sc raw src base h
    refine ⟨c1, fun e he => ?_⟩
    obtain ⟨n1, n2⟩ := start_event_valid cfg s ((J2_evInv cfg).fault s h) ln ns info nm attrs ns' sc raw src base hv e he
    rcases c2 e he with hh | (hh | hh) | hh
    · exact Or.inl hh
    · exact absurd hh n1
    · exact absurd hh n2
    · exact Or.inr (Or.inr hh)

theorem checkedSlice_len {inp raw : Bytes} {r : Range} (h : checkedSlice inp r = some raw) :
    raw.length = r.end - r.start := by
  unfold checkedSlice at h
  split at h
  · rename_i hc
    simp only [Option.some.injEq] at h
    subst h
    exact Chunk.slice_length inp hc.2
  · cases h

/-- **a lexeme with `TagArgsOK` gives rise to valid start-tag events only** -/
theorem lexV_of_argsOK {inp : Bytes} {lx : TagLexeme} (hv : TagArgsOK inp lx) : LexV ValidEv inp lx := by
  intro name h ns as sc ho
  obtain ⟨⟨hraw, htv⟩, hro⟩ := hv
  rw [ho] at htv
  unfold AttrsRawOK at hro
  rw [ho] at hro
  dsimp only at hro
  have hin : AttrsInInput inp as := fun a ha => htv.2 a ha
  refine ⟨⟨hin, ⟨0, 0⟩, rfl, rfl, fun a ha => by cases ha⟩, fun n attrs raw ha hr => ⟨hin, lx.raw, rfl, checkedSlice_len hr, ?_⟩⟩
  obtain ⟨l, hl, hm⟩ := attrsOf_some inp as hin
  rw [ha] at hl
  simp only [Option.some.injEq] at hl
  subst hl
  rw [hm]
  exact fun a ha => hro a ha

/-- a panic-class error returned by a callback of the real controller is neither a handler error nor one of the
dispatcher's own errors -/
theorem no_gp {cfg : Cfg} {e : Err} (hG : Chunk.R.GP e) (hc : Chunk.R.CbErr (fullCtl cfg) (Chunk.R.DO cfg) e)
    (h : e = .handler ∨ DispOwn e) : False := by
  rcases h with h | h
  · subst h
    rcases hG with ⟨m, hm, _⟩ | ⟨s, hs⟩
    · cases hm
    · cases hs
  · exact Chunk.R.cbErr_not_own cfg e hc h

/-- **On valid lexemes the dispatcher over the real controller IS the dispatcher over the cleaned controller**
(lexer mode, from a `KD2` state), unless a callback returns a handler error — which both report. -/
theorem fullCtl_lexEV (cfg : Cfg) (hlex : LexCfg cfg) :
    LexE.CtlLexEV (genWorld cfg) (Chunk.R.cleanCtl (fullCtl cfg)) (KD2 cfg) (fun _ => False) where
  ops := fun inp => by
    have hsim := Chunk.R.fullCtl_sim_prov cfg
    constructor
    · intro lx d hd hv
      have hpost := handleTag_lexer_genV cfg (J2 cfg) _ _ ValidEv (J2_evInvV cfg) d hd.1 hd.2 inp lx (lexV_of_argsOK hv)
      rcases Chunk.R.handleTag_step hsim inp lx d (kd_DO hd) with ⟨he, _⟩ | ⟨e, ⟨hG, hc⟩, he⟩
      · refine Or.inl ⟨he, fun a ha => ?_⟩
        obtain ⟨hi', hJ'⟩ := hpost.1 a ha
        refine ⟨⟨hi', hJ'⟩, ?_⟩
        exact LexE.handleTag_dir (fullCtl_stickySync cfg) d lx hd.1.1 hd.1.2 a ha (J_sticky cfg hlex _ hJ'.1)
      · exfalso
        rcases hpost.2 e he with h | h | h | h
        · exact no_gp hG hc (Or.inl h)
        · exact h
        · exact h
        · exact no_gp hG hc (Or.inr h)
    · intro lx d hd _
      have hpost := handleNonTag_lexer_other cfg (J2 cfg) (J2_evInv cfg).other d hd.1 hd.2 inp lx
      rcases Chunk.R.handleNonTag_step hsim inp lx d (kd_DO hd) with ⟨he, _⟩ | ⟨e, ⟨hG, hc⟩, he⟩
      · exact Or.inl ⟨he, fun ha => hpost.1 () ha⟩
      · exact (no_gp hG hc (hpost.2 e he)).elim
  bail := rfl
  flush := (fullCtl_lexE cfg hlex).flush
  handleEnd := fun d hd => by
    have hsim := Chunk.R.fullCtl_sim_prov cfg
    rcases hsim.handleEnd d.ctl (kd_DO hd) with ⟨he, _⟩ | ⟨e, ⟨hG, _⟩, he⟩
    · exact Or.inl he
    · have := Full_handleEnd_lexer cfg d.ctl hd.2.1 e he
      subst this
      rcases hG with ⟨m, hm, _⟩ | ⟨s, hs⟩
      · cases hm
      · cases hs
  initial := fun _ => rfl

/-- **Full_no_panic_lexer.** Lexer-mode configurations (a document-level text / comment / doctype handler is
registered), every settings record, input and chunking: every call of the whole rewriter model with the REAL
controller returns ok, a handler / memory / ambiguity error, or the documented panic of a call after an error.
No panic- or internal-class error, at any site: the run IS the run of the cleaned controller
(`Full_clean_no_panic`, C15) until a callback returns a handler error — on the lexemes the parser hands over
(`C15_parse_args_valid`) the two glue sites `rAttr` / `rMatcher` cannot fail. No hypothesis is left. -/
theorem Full_no_panic_lexer : Full_no_panic_lexer_statement := by
  intro cfg settings chunks hlex x hx
  have hlex' : LexCfg cfg := hlex
  have hL := fullCtl_lexEV cfg hlex'
  have ht : ArgsTable (genWorld cfg).tbl (computeCert Gen.Syntax.table) (computeRaw Gen.Syntax.table) := C15.C15_argsTable_gen
  have hst : ((genWorld cfg).ctl.initialFlags (FullSt.init cfg)).Sticky = true := by
    show (St.init cfg).flags.Sticky = true
    rw [flags_sticky]
    exact J_sticky cfg hlex' _ (J_init cfg)
  obtain ⟨hnew, hr⟩ := LexE.new_lexEA (Dk := DkFull cfg) hL ht (FullSt.init cfg) settings hst (KD2_new cfg settings.encoding)
    (Chunk.R.init_DO cfg)
  rcases LexE.run_lexEA hL ht argSite_T2 argSite_ne (fullCtl_argsCtl cfg) chunks _ hr x hx with k | k | ⟨e', ⟨e, hG, _⟩, _⟩
  · rw [hnew] at k
    exact Full_clean_no_panic cfg settings chunks x k
  · rw [k]; trivial
  · exact hG.elim

/-- **Full_rAttr.** In lexer-mode runs no call fails at `rAttr`. -/
theorem Full_rAttr : Full_rAttr_statement := by
  intro cfg settings chunks hlex hx
  exact Full_no_panic_lexer cfg settings chunks hlex _ hx

/-- **Full_rMatcher.** … and none at `rMatcher`. -/
theorem Full_rMatcher : Full_rMatcher_statement := by
  intro cfg settings chunks hlex hx
  exact Full_no_panic_lexer cfg settings chunks hlex _ hx

/-! ### non-vacuity: the lexer-mode configuration with an attribute selector, mutations and an end-tag handler -/

example : ∀ x ∈ (run (genWorld lexAuxCfg) (Rewriter.new (genWorld lexAuxCfg) (FullSt.init lexAuxCfg) {}) sampleChunks).2,
    Model.CallOK (fun _ => False) x :=
  Full_no_panic_lexer lexAuxCfg {} sampleChunks ⟨_, List.mem_cons_self, Or.inr (Or.inl rfl)⟩

end LolHtml.Thm.Full
