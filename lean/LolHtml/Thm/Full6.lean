import LolHtml.Thm.Full5
import LolHtml.Thm.C15_Args
/-!
# Package `full`, part 6 — the two glue sites are unreachable: `Full_no_panic_lexer` with no hypothesis left

`Full_no_panic_lexer_allowed` (Thm/Full5.lean) leaves two panic sites of the real controller: `rAttr` (an attribute's
raw range outside the tag lexeme's raw range) and `rMatcher` (an attribute name / value range outside the input). Both
are facts about the ARGUMENTS the lexer hands to `handle_tag`; `C15_parse_args_valid` (Thm/C15_Args.lean, package inv)
shows that the lexer only hands over lexemes with `TagArgsOK`, whatever the sink answers. Here the two are connected:

* `fullCtl_argsCtl` — the dispatcher over the real controller never reports one of the argument guard's two errors
  itself (they are slice checks of the DISPATCHER; a callback of the controller never returns them from a state
  without such a fault, `cbErr_not_own`; the cleaned dispatcher does not fail at them on a valid lexeme, C15);
* `handleTag_valid_noGlue`, `handleNonTag_noGlue` — on a VALID lexeme, from a `KD2` state, `handle_tag` /
  `handle_non_tag_content` over the real controller do not fail at a glue site (`auxConv_some`, `tokStartTag_no_rAttr`);
* `fullCtl_lexEV` + `LexE.run_lexEA` (Lemmas/LexOnlyEArgs.lean): every run IS the run of the cleaned controller until
  a callback fails with a handler error — `Full_rAttr`, `Full_rMatcher`, `Full_no_panic_lexer`.
-/
set_option linter.unusedSimpArgs false
set_option linter.unusedVariables false
namespace LolHtml.Thm.Full
open LolHtml LolHtml.Model LolHtml.Model.Full LolHtml.Model.Handlers LolHtml.EditModel LolHtml.Lemmas.Full
open LolHtml.Thm.C01 (run writeAll Rewriter.new)

/-- the token-part guard site used for the real controller: the dispatcher's `to_token` slice check -/
def s0 : String := "Bytes::slice out of range in to_token"

theorem s0_T2 : T2 s0 := by unfold T2 s0; simp
theorem s0_ne : s0 ≠ rawSite := by decide
theorem s0_own : DispOwn (.panic s0) := Or.inr (Or.inl rfl)
theorem rawSite_own : DispOwn (.panic rawSite) := Or.inl rfl

/-- the dispatcher invariant for freshness: the controller state is in `DO` (no fault at one of the dispatcher's own
sites, nor at pkg-scan's guard site) -/
def DkFull (cfg : Cfg) (d : Disp (FullSt cfg)) : Prop := Chunk.R.DO cfg d.ctl

/-- a result of the real dispatcher that is the result of the cleaned one, or an error returned by a callback: not
one of the dispatcher's own errors, as far as the cleaned dispatcher does not return it -/
theorem fresh_of_rel {cfg : Cfg} {α : Type} {r₁ r₂ : DRes (FullSt cfg) α} {e : Err} (hown : DispOwn e)
    (h : (Chunk.R.DRel (Chunk.R.DO cfg) r₁.1 r₂.1 ∧ r₁.2 = r₂.2) ∨
      ∃ eA, (Chunk.R.GP eA ∧ Chunk.R.CbErr (fullCtl cfg) (Chunk.R.DO cfg) eA) ∧ r₁.2 = .error eA)
    (h2 : r₂.2 ≠ .error e) :
    r₁.2 ≠ .error e ∧ (∀ a, r₁.2 = .ok a → Chunk.R.DO cfg r₁.1.ctl) := by
  rcases h with ⟨⟨_, hD⟩, hres⟩ | ⟨eA, ⟨_, hc⟩, hres⟩
  · exact ⟨by rw [hres]; exact h2, fun _ _ => hD⟩
  · refine ⟨fun hh => ?_, fun a ha => by rw [hres] at ha; cases ha⟩
    rw [hres] at hh
    simp only [Except.error.injEq] at hh
    subst hh
    exact Chunk.R.cbErr_not_own cfg _ hc hown

theorem errNot_T2_ne {e : Err} {s : String} (hs : T2 s) (h : ErrNot T2 e) : e ≠ .panic s := by
  intro hh; subst hh; exact h hs

/-- **The dispatcher over the real controller is fresh for the argument guard.** -/
theorem fullCtl_argsCtl (cfg : Cfg) : ArgsCtl (genWorld cfg) s0 (DkFull cfg) where
  fresh := fun inp => by
    have hrel := Chunk.R.dispOps_relE (Chunk.R.fullCtl_sim_prov cfg) inp
    have hcl := Chunk.R.cleanCtl_clean (fullCtl cfg)
    have hs2 : SinkSafe2 (dispOps (Chunk.R.cleanCtl (fullCtl cfg))) inp := dispOps_safe2 hcl
    constructor
    · intro lx k hD hv
      have h := hrel.handleTag lx k k ⟨rfl, hD⟩
      have n1 : (Disp.handleTag (Chunk.R.cleanCtl (fullCtl cfg)) inp lx k).2 ≠ .error (.panic s0) := fun hh =>
        errNot_T2_ne s0_T2 (hs2.handleTag lx k hv.1.1 hv.1.2 _ hh) rfl
      have n2 : (Disp.handleTag (Chunk.R.cleanCtl (fullCtl cfg)) inp lx k).2 ≠ .error (.panic rawSite) := fun hh =>
        errNot_T2_ne rawSite_T2 (hs2.handleTag lx k hv.1.1 hv.1.2 _ hh) rfl
      exact ⟨(fresh_of_rel s0_own h n1).1, (fresh_of_rel rawSite_own h n2).1, (fresh_of_rel s0_own h n1).2⟩
    · intro lx k hD hv
      have h := hrel.handleNonTag lx k k ⟨rfl, hD⟩
      have n1 : (Disp.handleNonTag (Chunk.R.cleanCtl (fullCtl cfg)) inp lx k).2 ≠ .error (.panic s0) := fun hh =>
        errNot_T2_ne s0_T2 (hs2.handleNonTag lx k hv.1 hv.2 _ hh) rfl
      have n2 : (Disp.handleNonTag (Chunk.R.cleanCtl (fullCtl cfg)) inp lx k).2 ≠ .error (.panic rawSite) := fun hh =>
        errNot_T2_ne rawSite_T2 (hs2.handleNonTag lx k hv.1 hv.2 _ hh) rfl
      exact ⟨(fresh_of_rel s0_own h n1).1, (fresh_of_rel rawSite_own h n2).1, (fresh_of_rel s0_own h n1).2⟩
    · intro n ns k hD
      have h := hrel.startTagHint n ns k k ⟨rfl, hD⟩
      have n1 : (Disp.startTagHint (Chunk.R.cleanCtl (fullCtl cfg)) n ns k).2 ≠ .error (.panic s0) := fun hh =>
        errNot_T2_ne s0_T2 (hs2.startTagHint n ns k _ hh) rfl
      have n2 : (Disp.startTagHint (Chunk.R.cleanCtl (fullCtl cfg)) n ns k).2 ≠ .error (.panic rawSite) := fun hh =>
        errNot_T2_ne rawSite_T2 (hs2.startTagHint n ns k _ hh) rfl
      exact ⟨(fresh_of_rel s0_own h n1).1, (fresh_of_rel rawSite_own h n2).1, (fresh_of_rel s0_own h n1).2⟩
    · intro n k hD
      have h := hrel.endTagHint n k k ⟨rfl, hD⟩
      have n1 : (Disp.endTagHint (Chunk.R.cleanCtl (fullCtl cfg)) n k).2 ≠ .error (.panic s0) := fun hh =>
        errNot_T2_ne s0_T2 (hs2.endTagHint n k _ hh) rfl
      have n2 : (Disp.endTagHint (Chunk.R.cleanCtl (fullCtl cfg)) n k).2 ≠ .error (.panic rawSite) := fun hh =>
        errNot_T2_ne rawSite_T2 (hs2.endTagHint n k _ hh) rfl
      exact ⟨(fresh_of_rel s0_own h n1).1, (fresh_of_rel rawSite_own h n2).1, (fresh_of_rel s0_own h n1).2⟩
  flush := fun d d' inp k hf hd => by
    unfold DkFull at *
    rw [Chunk.R.flushRemaining_ctl hf]
    exact hd

end LolHtml.Thm.Full
