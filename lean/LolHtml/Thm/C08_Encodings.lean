/-
Property C08 for ALL 36 encodings lol-html accepts (`AsciiCompatibleEncoding`), with the only assumption
"encoding_rs implements these tables / machines":

* the 28 single-byte encodings and x-user-defined: the tables extracted from the pinned encoding_rs
  (`Gen.Encodings`), for which package enc proves the codec laws (`C13_tables`, `C13_x_user_defined`);
* UTF-8 (`utf8Codec`);
* EUC-KR, Big5, Shift_JIS, EUC-JP, GBK, gb18030: package enc's WHATWG decoder machines
  (`Model/Whatwg.lean`, lawful for every index) with the WHATWG ENCODER algorithms of
  `Model/WhatwgEnc.lean`, for every index.

The codec-generic theorems of `Thm/C08_Codec.lean` are restated for a set `S` of structural bytes
(`SafeFor S c`: no non-ASCII scalar is encoded with a byte of `S`) and bundled as `C08Holds`. The set
used is `HtmlStruct` = every byte below 0x40 that is not a digit: C0 controls, space,
`! " # $ % & ' ( ) * + , - . /` and `: ; < = > ?` — it contains every byte the tokenizer treats
specially (whitespace `! " & ' - / < = >`) and excludes gb18030's four-byte digits 0x30–0x39. For each
multi-byte encoder the exact lower bound of the bytes of a non-ASCII scalar is proved:
EUC-KR ≥ 0x41, Big5 ≥ 0x40, Shift_JIS ≥ 0x40, GBK ≥ 0x40, EUC-JP ≥ 0x5C, gb18030 ≥ 0x30 (and no byte in
0x3A–0x3F). What is NOT excluded, in all of them except EUC-JP, are ASCII LETTERS as trail bytes
(0x41–0x5A, 0x61–0x7A): finding F22 (`C08_F22_counterexample`) is the documented exception — it concerns
ASCII case folding of names on encoded bytes, not the structure of the markup.
-/
import LolHtml.Thm.C08_Codec
import LolHtml.Thm.C13_Tables
import LolHtml.Thm.C13_Whatwg
import LolHtml.Model.WhatwgEnc

namespace LolHtml.Thm.C08Encodings
open LolHtml LolHtml.Enc LolHtml.Model.Esc LolHtml.Spec.Esc LolHtml.Lemmas.Esc LolHtml.Lemmas.EscCodec
open LolHtml.Lemmas.EscComment LolHtml.Thm.C08Codec LolHtml.Enc.Whatwg

/-! ## The structural byte set and the law, parametrised -/

/-- below 0x40 and not an ASCII digit -/
def HtmlStruct (b : UInt8) : Prop := b < 0x30 ∨ (0x3A ≤ b ∧ b < 0x40)

instance : DecidablePred HtmlStruct := fun b => by unfold HtmlStruct; infer_instance

/-- no non-ASCII scalar is encoded with a byte of `S` -/
def SafeFor (S : UInt8 → Prop) (c : Enc.Codec) : Prop :=
  ∀ (ch : Char) (bs : Bytes), 128 ≤ ch.toNat → c.encChar ch = some bs → ∀ b ∈ bs, ¬ S b

/-- what the theorems need of `S`: ASCII only, and it contains `<`, `>`, the bytes of the comment-closing
sequences and the bytes of both reject lists (all as extracted from the Rust) -/
structure Covers (S : UInt8 → Prop) : Prop where
  small : ∀ b, S b → b < 128
  lt : S 60
  gt : S 62
  contains : ∀ x ∈ Gen.Consts.commentContains, x ≠ [] ∧ ∀ b ∈ x, S b
  prefixes : ∀ x ∈ Gen.Consts.commentPrefixes, x ≠ [] ∧ ∀ b ∈ x, S b
  tagReject : ∀ b ∈ Gen.Consts.tagNameReject, S b
  attrReject : ∀ b ∈ Gen.Consts.attrNameReject, S b

theorem htmlStruct_covers : Covers HtmlStruct where
  small := by
    intro b h
    unfold HtmlStruct at h
    rw [UInt8.lt_iff_toNat_lt]
    rcases h with h | ⟨_, h⟩ <;> (rw [UInt8.lt_iff_toNat_lt] at h; simp at h ⊢; omega)
  lt := by decide
  gt := by decide
  contains := by decide
  prefixes := by decide
  tagReject := by decide
  attrReject := by decide

theorem htmlStruct_lt_0x40 {b : UInt8} (h : HtmlStruct b) : b < 0x40 := by
  unfold HtmlStruct at h
  rw [UInt8.lt_iff_toNat_lt]
  rcases h with h | ⟨_, h⟩ <;> (rw [UInt8.lt_iff_toNat_lt] at h; simp at h ⊢; omega)

/-- `StructSafe` (no byte below 0x40) is the stronger law -/
theorem safeFor_of_structSafe {c : Enc.Codec} (h : StructSafe c) : SafeFor HtmlStruct c := by
  intro ch bs h1 h2 b hb hS
  have := h ch bs h1 h2 b hb
  have hlt := htmlStruct_lt_0x40 hS
  rw [UInt8.le_iff_toNat_le] at this
  rw [UInt8.lt_iff_toNat_lt] at hlt
  omega

theorem utf8_safeFor {S : UInt8 → Prop} (hS : ∀ b, S b → b < 128) : SafeFor S utf8Codec := by
  intro ch bs h hbs b hb hSb
  simp only [utf8Codec, Option.some.injEq] at hbs
  subst hbs
  have h1 := utf8_high ch h b hb
  have h2 := hS b hSb
  rw [UInt8.le_iff_toNat_le] at h1
  rw [UInt8.lt_iff_toNat_lt] at h2
  simp at h1 h2; omega

theorem unitSafe_of_safeFor {S : UInt8 → Prop} {c : Enc.Codec} (L : c.Lawful) (hs : SafeFor S c) {cs : List Char}
    (hm : Mappable c cs) : UnitSafeOn (encUnit c) S cs := by
  refine ⟨fun ch _ h => encUnit_ascii L ch h, fun ch hch h => ?_⟩
  obtain ⟨bs, hbs⟩ := hm ch hch
  simp only [encUnit, hbs]
  refine ⟨?_, fun b hb => hs ch bs h hbs b hb⟩
  intro hn; have := (L.enc_size ch bs hbs).1; rw [hn] at this; simp at this

/-! ## The C08 statements for one codec -/

/-- C08 for the encoding `c`: what is WRITTEN in `c` cannot change the markup structure. -/
structure C08Holds (c : Enc.Codec) : Prop where
  /-- text content: escape on the scalars, encode (unmappable → `&#N;`): no `<`, no `>` byte -/
  body : ∀ s : List Char, (60 : UInt8) ∉ encodeAll c (escapeChars bodyTable s) ∧
    (62 : UInt8) ∉ encodeAll c (escapeChars bodyTable s)
  /-- comment text: the check on the UTF-8 bytes decides the same on the encoded bytes -/
  comment : ∀ cs : List Char, Mappable c cs →
    containsCommentClosingSequence (encodeAll c cs) = containsCommentClosingSequence (utf8Bytes cs)
  /-- so an accepted, encoded comment is one comment ending exactly at the final `-->` -/
  commentEnds : ∀ (cs : List Char) (rest : Bytes), Mappable c cs →
    containsCommentClosingSequence (utf8Bytes cs) = false →
    (CommentEnd.commentAt (Gen.Consts.commentOpen ++ encodeAll c cs ++ Gen.Consts.commentClose ++ rest)).map (·.2)
      = some (4 + (encodeAll c cs).length + 3)
  /-- an attribute name accepted on its UTF-8 bytes passes the validator on its encoded bytes -/
  attrName : ∀ cs : List Char, Mappable c cs →
    attrNameFromString Codec.utf8 (utf8Bytes cs) = .ok (utf8Bytes cs) →
    attrNameFromString Codec.utf8 (encodeAll c cs) = .ok (encodeAll c cs)
  /-- a tag name accepted on its UTF-8 bytes passes the validator on its encoded bytes -/
  tagName : ∀ cs : List Char, Mappable c cs →
    tagNameBytesFromStr Codec.utf8 (utf8Bytes cs) = .ok (utf8Bytes cs) →
    tagNameBytesFromStr Codec.utf8 (encodeAll c cs) = .ok (encodeAll c cs)

section generic
variable {S : UInt8 → Prop} (hS : Covers S) {c : Enc.Codec} (L : c.Lawful) (hs : SafeFor S c)
include hS L hs

theorem body_gen (s : List Char) :
    (60 : UInt8) ∉ encodeAll c (escapeChars bodyTable s) ∧ (62 : UInt8) ∉ encodeAll c (escapeChars bodyTable s) := by
  -- `StructSafe`-free re-run of `C08_body_no_markup_codec`: only `<` and `>` matter
  have hsmall : ∀ b : UInt8, (b = 60 ∨ b = 62) → b < 128 := by rintro b (rfl | rfl) <;> decide
  have hunit : UnitSafeOn (encUnit c) (fun b => b = 60 ∨ b = 62) (escapeChars bodyTable s) := by
    refine ⟨fun ch _ h => encUnit_ascii L ch h, fun ch _ h => ?_⟩
    unfold encUnit
    cases hb : c.encChar ch with
    | some bs =>
      simp only
      refine ⟨?_, fun b hbm => ?_⟩
      · intro hn; have := (L.enc_size ch bs hb).1; rw [hn] at this; simp at this
      · have := hs ch bs h hb b hbm
        rintro (rfl | rfl)
        · exact this hS.lt
        · exact this hS.gt
    | none =>
      simp only
      refine ⟨by simp [ncr], fun b hbm => ?_⟩
      simp only [ncr, List.cons_append, List.nil_append, List.mem_cons, List.mem_append, List.not_mem_nil, or_false] at hbm
      rcases hbm with rfl | rfl | hd | rfl
      · decide
      · decide
      · have := dec7_digits _ b hd
        rintro (rfl | rfl) <;> simp at this
      · decide
  -- the scalars `<` `>` do not occur in the escaped string (UTF-8 instance of the same fact)
  have hu := C08_body_no_markup_codec utf8Codec utf8Codec_lawful utf8_structSafe s
  have hunit8 := unitSafe_body utf8Codec_lawful utf8_structSafe (escapeChars bodyTable s)
  unfold encodeAll at hu ⊢
  rw [mem_flatMap_iff hsmall hunit8 (Or.inl rfl), mem_flatMap_iff hsmall hunit8 (Or.inr rfl)] at hu
  rw [mem_flatMap_iff hsmall hunit (Or.inl rfl), mem_flatMap_iff hsmall hunit (Or.inr rfl)]
  exact hu

theorem comment_gen (cs : List Char) (hm : Mappable c cs) :
    containsCommentClosingSequence (encodeAll c cs) = containsCommentClosingSequence (utf8Bytes cs) := by
  have h1 := unitSafe_of_safeFor L hs hm
  have h2 := unitSafe_of_safeFor utf8Codec_lawful (utf8_safeFor hS.small) (utf8_mappable cs)
  have hinf : ∀ x ∈ Gen.Consts.commentContains,
      containsSeq x (encodeAll c cs) = containsSeq x (utf8Bytes cs) := by
    intro x hx
    obtain ⟨hne, hst⟩ := hS.contains x hx
    obtain ⟨y, ys, rfl⟩ := List.exists_cons_of_ne_nil hne
    rw [Bool.eq_iff_iff, containsSeq_iff_infix, containsSeq_iff_infix]
    unfold utf8Bytes encodeAll
    rw [infix_flatMap_iff hS.small y ys cs h1 hst, infix_flatMap_iff hS.small y ys cs h2 hst]
  have hpre : ∀ x ∈ Gen.Consts.commentPrefixes,
      x.isPrefixOf (encodeAll c cs) = x.isPrefixOf (utf8Bytes cs) := by
    intro x hx
    obtain ⟨_, hst⟩ := hS.prefixes x hx
    rw [Bool.eq_iff_iff, List.isPrefixOf_iff_prefix, List.isPrefixOf_iff_prefix]
    unfold utf8Bytes encodeAll
    rw [prefix_flatMap_iff hS.small x cs h1 hst, prefix_flatMap_iff hS.small x cs h2 hst]
  unfold containsCommentClosingSequence containsClosingWith
  rw [any_congr_on hinf, any_congr_on hpre]

theorem mem_encoded_gen (cs : List Char) (hm : Mappable c cs) {b : UInt8} (hb : S b) :
    b ∈ encodeAll c cs ↔ b ∈ utf8Bytes cs := by
  unfold utf8Bytes encodeAll
  rw [mem_flatMap_iff hS.small (unitSafe_of_safeFor L hs hm) hb,
    mem_flatMap_iff hS.small (unitSafe_of_safeFor utf8Codec_lawful (utf8_safeFor hS.small) (utf8_mappable cs)) hb]

theorem attrName_gen (cs : List Char) (hm : Mappable c cs)
    (h : attrNameFromString Codec.utf8 (utf8Bytes cs) = .ok (utf8Bytes cs)) :
    attrNameFromString Codec.utf8 (encodeAll c cs) = .ok (encodeAll c cs) := by
  obtain ⟨_, hne, hall⟩ := Lemmas.EscNames.attrName_ok_iff.mp h
  rw [attrNameFromString, Lemmas.EscNames.attrName_ok_iff]
  refine ⟨rfl, ?_, ?_⟩
  · intro hn
    apply hne
    unfold utf8Bytes encodeAll at *
    rw [flatMap_eq_nil_iff hS.small (unitSafe_of_safeFor L hs hm)] at hn
    rw [hn]; rfl
  · intro b hb
    cases hc : Gen.Consts.attrNameReject.contains b with
    | false => rfl
    | true =>
      have hst := hS.attrReject b (by simpa using hc)
      have := hall b ((mem_encoded_gen hS L hs cs hm hst).mp hb)
      rw [show (Gen.Consts.attrNameReject.contains b) = true from hc] at this
      cases this

theorem tagName_gen (cs : List Char) (hm : Mappable c cs)
    (h : tagNameBytesFromStr Codec.utf8 (utf8Bytes cs) = .ok (utf8Bytes cs)) :
    tagNameBytesFromStr Codec.utf8 (encodeAll c cs) = .ok (encodeAll c cs) := by
  have e : ∀ n, tagNameBytesFromStr Codec.utf8 n =
      tagNameBytesFromStrWith Gen.Consts.tagNameReject true Codec.utf8 n := by
    intro n; rw [← Thm.C08.side_tag_first_alpha]; rfl
  rw [e] at h ⊢
  obtain ⟨_, ⟨b0, r0, hn0, ha0⟩, hall⟩ := Lemmas.EscNames.tagName_ok_iff.mp h
  rw [Lemmas.EscNames.tagName_ok_iff]
  cases cs with
  | nil => simp [utf8Bytes, encodeAll] at hn0
  | cons c0 cs' =>
    have hc0 : c0.toNat < 128 := by
      rcases Nat.lt_or_ge c0.toNat 128 with h1 | h1
      · exact h1
      · exfalso
        have hhead : b0 ∈ Utf8.encodeChar c0 := by
          have : utf8Bytes (c0 :: cs') = Utf8.encodeChar c0 ++ utf8Bytes cs' := by
            simp [utf8Bytes, encodeAll, encUnit, utf8Codec]
          rw [this] at hn0
          have hne : Utf8.encodeChar c0 ≠ [] := by
            have := (utf8Codec_lawful.enc_size c0 (Utf8.encodeChar c0) rfl).1
            intro hn; rw [hn] at this; simp at this
          obtain ⟨y, ys, hy⟩ := List.exists_cons_of_ne_nil hne
          rw [hy] at hn0 ⊢
          simp only [List.cons_append, List.cons.injEq] at hn0
          rw [hn0.1]; simp
        have hhi := utf8_high c0 h1 b0 hhead
        have hal := ha0 rfl
        simp only [isAsciiAlpha, Bool.or_eq_true, Bool.and_eq_true, decide_eq_true_eq] at hal
        rw [UInt8.le_iff_toNat_le] at hhi
        rcases hal with ⟨_, h2⟩ | ⟨_, h2⟩ <;> (rw [UInt8.le_iff_toNat_le] at h2; simp at hhi h2; omega)
    have hu : utf8Bytes (c0 :: cs') = UInt8.ofNat c0.toNat :: utf8Bytes cs' := by
      simp [utf8Bytes, encodeAll, encUnit_ascii utf8Codec_lawful c0 hc0]
    have hcenc : encodeAll c (c0 :: cs') = UInt8.ofNat c0.toNat :: encodeAll c cs' := by
      simp [encodeAll, encUnit_ascii L c0 hc0]
    rw [hu] at hn0
    simp only [List.cons.injEq] at hn0
    refine ⟨rfl, ⟨UInt8.ofNat c0.toNat, encodeAll c cs', hcenc, fun _ => by rw [hn0.1]; exact ha0 rfl⟩, ?_⟩
    intro b hb
    cases hc : Gen.Consts.tagNameReject.contains b with
    | false => rfl
    | true =>
      have hst := hS.tagReject b (by simpa using hc)
      have := hall b ((mem_encoded_gen hS L hs (c0 :: cs') hm hst).mp hb)
      rw [hc] at this
      cases this

/-- **Generic**: a lawful codec that keeps non-ASCII scalars away from a covering set satisfies C08. -/
theorem c08Holds_of : C08Holds c where
  body := body_gen hS L hs
  comment := comment_gen hS L hs
  commentEnds := fun cs rest hm hacc =>
    (Thm.C08.C08_comment_iff _ rest).mpr (by rw [comment_gen hS L hs cs hm]; exact hacc)
  attrName := attrName_gen hS L hs
  tagName := tagName_gen hS L hs

end generic

/-! ## Single-byte encodings, x-user-defined, UTF-8 -/

/-- **All 28 single-byte encodings of the pinned encoding_rs**, over the generated list of their tables. -/
theorem C08_single_byte_encodings : ∀ p ∈ Gen.Encodings.singleByteTables, C08Holds (singleByte p.2) := by
  intro p hp
  have g := LolHtml.Enc.Tables.C13_tables p hp
  exact c08Holds_of htmlStruct_covers g.lawful (safeFor_of_structSafe g.structSafe)

theorem C08_x_user_defined : C08Holds (singleByte Gen.Encodings.t_x_user_defined) :=
  c08Holds_of htmlStruct_covers LolHtml.Enc.Tables.C13_x_user_defined.lawful
    (safeFor_of_structSafe LolHtml.Enc.Tables.C13_x_user_defined.structSafe)

theorem C08_utf8 : C08Holds utf8Codec :=
  c08Holds_of htmlStruct_covers utf8Codec_lawful (utf8_safeFor htmlStruct_covers.small)

/-! ## The six legacy multi-byte encodings: WHATWG decoder machine + WHATWG encoder, every index -/

theorem byte_toNat {n : Nat} (h : n < 256) : (byte n).toNat = n := by
  simp [byte, UInt8.toNat_ofNat']; omega

theorem sanEnc_some {enc : Char → Option Bytes} {ch : Char} {bs : Bytes} (h : 128 ≤ ch.toNat)
    (he : sanEnc enc ch = some bs) : enc ch = some bs := by
  unfold sanEnc at he
  rw [if_neg (by omega)] at he
  split at he
  · rename_i bs' hb
    split at he
    · simp only [Option.some.injEq] at he; rw [hb, he]
    · cases he
  · cases he

/-- every byte an encoder produces for a non-ASCII scalar is at least `lo` -/
def BytesGe (lo : Nat) (enc : Char → Option Bytes) : Prop :=
  ∀ (ch : Char) (bs : Bytes), enc ch = some bs → ∀ b ∈ bs, lo ≤ b.toNat

/-- **EUC-KR**: lead 0x81–0xFE, trail 0x41–0xFE: every byte ≥ 0x41 (trail bytes include the ASCII letters). -/
theorem eucKrEnc_ge (ptr : Char → Option Nat) : BytesGe 0x41 (eucKrEnc ptr) := by
  intro ch bs h b hb
  unfold eucKrEnc at h
  split at h
  · split at h
    · simp only [Option.some.injEq] at h; subst h
      simp only [List.mem_cons, List.not_mem_nil, or_false] at hb
      rcases hb with rfl | rfl <;> (rw [byte_toNat (by omega)]; omega)
    · cases h
  · cases h

/-- **Big5**: lead 0x81–0xFE, trail 0x40–0x7E / 0xA1–0xFE: every byte ≥ 0x40. -/
theorem big5Enc_ge (ptr : Char → Option Nat) : BytesGe 0x40 (big5Enc ptr) := by
  intro ch bs h b hb
  unfold big5Enc at h
  split at h
  · split at h
    · simp only [Option.some.injEq] at h; subst h
      simp only [List.mem_cons, List.not_mem_nil, or_false] at hb
      rcases hb with rfl | rfl
      · rw [byte_toNat (by omega)]; omega
      · split <;> (rw [byte_toNat (by omega)]; omega)
    · cases h
  · cases h

theorem sjisPair_ge {p : Nat} (hp : p < 188 * 60) : ∀ b ∈ sjisPair p, 0x40 ≤ b.toNat := by
  intro b hb
  simp only [sjisPair, List.mem_cons, List.not_mem_nil, or_false] at hb
  rcases hb with rfl | rfl <;> (split <;> (rw [byte_toNat (by omega)]; omega))

/-- **Shift_JIS**: single bytes 0x5C, 0x7E, 0x80, 0xA1–0xDF; lead 0x81–0x9F / 0xE0–0xFC, trail 0x40–0x7E /
0x80–0xFC: every byte ≥ 0x40. -/
theorem shiftJisEnc_ge (ptr : Char → Option Nat) : BytesGe 0x40 (shiftJisEnc ptr) := by
  intro ch bs h b hb
  unfold shiftJisEnc at h
  simp only at h
  split at h
  · simp only [Option.some.injEq] at h; subst h; simp at hb; subst hb; decide
  split at h
  · simp only [Option.some.injEq] at h; subst h; simp at hb; subst hb; decide
  split at h
  · simp only [Option.some.injEq] at h; subst h; simp at hb; subst hb; decide
  split at h
  · simp only [Option.some.injEq] at h; subst h
    simp only [List.mem_cons, List.not_mem_nil, or_false] at hb
    subst hb; rw [byte_toNat (by omega)]; omega
  split at h
  · split at h
    · rename_i hp
      simp only [Option.some.injEq] at h; subst h
      exact sjisPair_ge hp b hb
    · cases h
  · cases h

/-- **EUC-JP**: single bytes 0x5C (U+00A5) and 0x7E (U+203E), otherwise 0x8E / 0xA1–0xFE: every byte ≥ 0x5C
(no trail byte is an ASCII letter, digit or structural byte). -/
theorem eucJpEnc_ge (ptr : Char → Option Nat) : BytesGe 0x5C (eucJpEnc ptr) := by
  intro ch bs h b hb
  unfold eucJpEnc at h
  simp only at h
  split at h
  · simp only [Option.some.injEq] at h; subst h; simp at hb; subst hb; decide
  split at h
  · simp only [Option.some.injEq] at h; subst h; simp at hb; subst hb; decide
  split at h
  · simp only [Option.some.injEq] at h; subst h
    simp only [List.mem_cons, List.not_mem_nil, or_false] at hb
    rcases hb with rfl | rfl
    · decide
    · rw [byte_toNat (by omega)]; omega
  split at h
  · split at h
    · simp only [Option.some.injEq] at h; subst h
      simp only [List.mem_cons, List.not_mem_nil, or_false] at hb
      rcases hb with rfl | rfl <;> (rw [byte_toNat (by omega)]; omega)
    · cases h
  · cases h

theorem gbPair_ge {p : Nat} (hp : p < 190 * 126) : ∀ b ∈ gbPair p, 0x40 ≤ b.toNat := by
  intro b hb
  simp only [gbPair, List.mem_cons, List.not_mem_nil, or_false] at hb
  rcases hb with rfl | rfl
  · rw [byte_toNat (by omega)]; omega
  · split <;> (rw [byte_toNat (by omega)]; omega)

/-- **GBK**: 0x80 for U+20AC, lead 0x81–0xFE, trail 0x40–0x7E / 0x80–0xFE, no four-byte form: every byte ≥ 0x40. -/
theorem gbkEnc_ge (ptr2 ptr4 : Char → Option Nat) : BytesGe 0x40 (gbEnc true ptr2 ptr4) := by
  intro ch bs h b hb
  unfold gbEnc at h
  simp only [Bool.true_and, decide_eq_true_eq, if_true] at h
  split at h
  · cases h
  split at h
  · simp only [Option.some.injEq] at h; subst h; simp at hb; subst hb; decide
  split at h
  · split at h
    · rename_i hp
      simp only [Option.some.injEq] at h; subst h
      exact gbPair_ge hp b hb
    · cases h
  · cases h

/-- **gb18030**: two-byte form as GBK (≥ 0x40); four-byte form `0x81–0xFE, 0x30–0x39, 0x81–0xFE, 0x30–0x39`:
every byte is ≥ 0x40 or an ASCII digit — never a byte of `HtmlStruct`. -/
theorem gb18030Enc_safe (ptr2 ptr4 : Char → Option Nat) (ch : Char) (bs : Bytes)
    (h : gbEnc false ptr2 ptr4 ch = some bs) : ∀ b ∈ bs, 0x40 ≤ b.toNat ∨ (0x30 ≤ b.toNat ∧ b.toNat ≤ 0x39) := by
  intro b hb
  unfold gbEnc at h
  simp only [Bool.false_and, Bool.false_eq_true, if_false] at h
  split at h
  · cases h
  split at h
  · split at h
    · rename_i hp
      simp only [Option.some.injEq] at h; subst h
      exact Or.inl (gbPair_ge hp b hb)
    · cases h
  · split at h
    · split at h
      · simp only [Option.some.injEq] at h; subst h
        simp only [gbQuad, List.mem_cons, List.not_mem_nil, or_false] at hb
        rcases hb with rfl | rfl | rfl | rfl <;> (rw [byte_toNat (by omega)]; omega)
      · cases h
    · cases h

theorem not_htmlStruct {b : UInt8} (h : 0x40 ≤ b.toNat ∨ (0x30 ≤ b.toNat ∧ b.toNat ≤ 0x39)) : ¬ HtmlStruct b := by
  unfold HtmlStruct
  simp only [UInt8.lt_iff_toNat_lt, UInt8.le_iff_toNat_le]
  simp
  omega

theorem safeFor_of_ge {lo : Nat} (hlo : 0x40 ≤ lo) {enc : Char → Option Bytes} (h : BytesGe lo enc)
    {c : Enc.Codec} (hc : c.encChar = sanEnc enc) : SafeFor HtmlStruct c := by
  intro ch bs h1 h2 b hb
  rw [hc] at h2
  have := h ch bs (sanEnc_some h1 h2) b hb
  exact not_htmlStruct (Or.inl (by omega))

theorem C08_euc_kr (idx : Nat → Option Char) (ptr : Char → Option Nat) : C08Holds (eucKr idx (eucKrEnc ptr)) :=
  c08Holds_of htmlStruct_covers (eucKr_lawful idx _) (safeFor_of_ge (by decide) (eucKrEnc_ge ptr) rfl)

theorem C08_big5 (idx : Nat → Option Char) (ptr : Char → Option Nat) : C08Holds (big5 idx (big5Enc ptr)) :=
  c08Holds_of htmlStruct_covers (big5_lawful idx _) (safeFor_of_ge (by decide) (big5Enc_ge ptr) rfl)

theorem C08_shift_jis (idx : Nat → Option Char) (ptr : Char → Option Nat) : C08Holds (shiftJis idx (shiftJisEnc ptr)) :=
  c08Holds_of htmlStruct_covers (shiftJis_lawful idx _) (safeFor_of_ge (by decide) (shiftJisEnc_ge ptr) rfl)

theorem C08_euc_jp (idx0208 idx0212 : Nat → Option Char) (ptr : Char → Option Nat) :
    C08Holds (eucJp idx0208 idx0212 (eucJpEnc ptr)) :=
  c08Holds_of htmlStruct_covers (eucJp_lawful idx0208 idx0212 _) (safeFor_of_ge (by decide) (eucJpEnc_ge ptr) rfl)

theorem C08_gbk (idx2 idx4 : Nat → Option Char) (ptr2 ptr4 : Char → Option Nat) :
    C08Holds (gb18030 idx2 idx4 (gbEnc true ptr2 ptr4)) :=
  c08Holds_of htmlStruct_covers (gb18030_lawful idx2 idx4 _) (safeFor_of_ge (by decide) (gbkEnc_ge ptr2 ptr4) rfl)

theorem C08_gb18030 (idx2 idx4 : Nat → Option Char) (ptr2 ptr4 : Char → Option Nat) :
    C08Holds (gb18030 idx2 idx4 (gbEnc false ptr2 ptr4)) :=
  c08Holds_of htmlStruct_covers (gb18030_lawful idx2 idx4 _) (by
    intro ch bs h1 h2 b hb
    exact not_htmlStruct (gb18030Enc_safe ptr2 ptr4 ch bs (sanEnc_some h1 h2) b hb))

/-- `StructSafe` (the 0x40 law of `Thm/C08_Codec.lean`) itself holds for five of the six, and FAILS for
gb18030: with a ranges pointer 0 the four-byte form is `81 30 81 30`. -/
theorem gb18030_not_structSafe :
    ¬ StructSafe (gb18030 (fun _ => none) (fun _ => none) (gbEnc false (fun _ => none) (fun _ => some 0))) := by
  intro h
  have := h (Char.ofNat 0x80) [0x81, 0x30, 0x81, 0x30] (by decide) (by decide) 0x30 (by simp)
  exact absurd this (by decide)

/-- F22 is not excluded by any of this: a trail byte can be an ASCII letter (EUC-KR pointer 0 → `81 41`,
Shift_JIS pointer 1 → `81 41`, Big5 pointer 1 → `81 41`, GBK pointer 1 → `81 41`). -/
example : eucKrEnc (fun _ => some 0) 'x' = some [0x81, 0x41] ∧ shiftJisEnc (fun _ => some 1) (Char.ofNat 0x3000) = some [0x81, 0x41] ∧
    big5Enc (fun _ => some 1) 'x' = some [0x81, 0x41] ∧ gbEnc true (fun _ => some 1) (fun _ => none) 'x' = some [0x81, 0x41] := by
  decide

/-- **Coverage**: every name in lol-html's `ASCII_COMPATIBLE_ENCODINGS` (as extracted from the Rust) is the
name of one of the 28 single-byte tables or one of the eight encodings handled above; there are 36. -/
theorem encodings_covered :
    Gen.Encodings.asciiCompatible.length = 36 ∧
    Gen.Encodings.asciiCompatible.all (fun n =>
      (Gen.Encodings.singleByteTables.map (·.1)).contains n ||
      ["x-user-defined", "UTF-8", "EUC-KR", "Big5", "Shift_JIS", "EUC-JP", "GBK", "gb18030"].contains n) = true := by
  decide +kernel

end LolHtml.Thm.C08Encodings
