import LolHtml.Lemmas.SimTrace
import LolHtml.Thm.C03_Sim
import LolHtml.Gen.Syntax
import LolHtml.Gen.Tags
/-!
# C03 — the simulator inside the lexer is `Sim.run` over the emitted tag lexemes

Connects `Model/TreeSimRun.lean` (`Sim.stepTag`, `Sim.run`: the objects of `C03_sim_invariants`,
`C03_foreign_grammar`, `C03_foreign_doc`) to the parser model `Model/SM.lean`: in a pure-lexer run
the state of `ParserContext::tree_builder_simulator` after each emitted tag lexeme is the state
`Sim.run` reaches on the events read off the emitted lexemes (name hash, start/end, and the
`TagView` — name, attributes, self-closing flag — that the `RequestLexeme` callbacks read), and the
namespace `lexStampTag` writes into a start-tag lexeme is the namespace of that state.

"Pure-lexer run" = the sink answers `Lex` to every tag lexeme (all capture flags on), so the parser
never switches to the tag scanner. The sink is abstract: any sink from which the list of tag lexemes
it was given can be read back (`TraceOps`); `logOps` is the simplest one.
-/
namespace LolHtml.Thm.C03
open LolHtml LolHtml.Model
open LolHtml.Lemmas.Island (lastState)

variable {κ : Type}

/-- the sink that only records the tag lexemes (with the input slice their ranges refer to) -/
def logOps : SinkOps (List (Bytes × TagLexeme)) :=
  { handleTag := fun inp lx k => (k ++ [(inp, lx)], .ok .lex)
    handleNonTag := fun _ _ k => (k, .ok ())
    startTagHint := fun _ _ k => (k, .ok .lex)
    endTagHint := fun _ k => (k, .ok .lex) }

theorem logOps_trace (inp : Bytes) : TraceOps logOps id inp where
  tag_log := fun _ _ => rfl
  tag_lex := by intro lx k d h; injection h with h; exact h.symm
  nontag_log := fun _ _ => rfl

/-- a sequence of `Parser::parse` calls (one per `write`, the last one with `last = true` for `end`);
the inputs are arbitrary, as the transform stream decides what each call sees -/
def parseAll (env : Env κ) : Parser κ → List (Bytes × Bool) → Parser κ × List (Except Err Nat)
  | p, [] => (p, [])
  | p, (inp, last) :: rest =>
    let r := Parser.parse env inp last p
    let r' := parseAll env r.1 rest
    (r'.1, r.2 :: r'.2)

/-- no call died in one of the three debug assertions of `handle_tree_builder_feedback` -/
def NoFeedbackPanic (rs : List (Except Err Nat)) : Prop :=
  ∀ res ∈ rs, ∀ s ∈ hfPanics, res ≠ .error (.panic s)

theorem parseAll_trace (tbl : Table) (cfg : TagCfg) (ops : SinkOps κ) (logOf : κ → List (Bytes × TagLexeme))
    (hops : ∀ inp, TraceOps ops logOf inp) (ht : EmitsChecked tbl = true) (s0 : Sim)
    (calls : List (Bytes × Bool)) (p : Parser κ) (hd : p.directive = .lex) (hfd : p.lexR.fd = .none)
    (htr : Tr cfg s0 (logOf p.x.sink) p.x.sim)
    (hnp : NoFeedbackPanic (parseAll ⟨tbl, cfg, ops⟩ p calls).2) :
    Tr cfg s0 (logOf (parseAll ⟨tbl, cfg, ops⟩ p calls).1.x.sink) (parseAll ⟨tbl, cfg, ops⟩ p calls).1.x.sim := by
  induction calls generalizing p with
  | nil => exact htr
  | cons c rest ih =>
    obtain ⟨inp, last⟩ := c
    simp only [parseAll] at hnp ⊢
    rcases parse_trace (env := ⟨tbl, cfg, ops⟩) (hops inp) ht last p hd hfd htr with ⟨s, hs, he⟩ | ⟨h1, h2, h3⟩
    · exact absurd he (hnp _ (by simp) s hs)
    · exact ih _ h1 h2 h3 (fun res hr => hnp res (by simp [hr]))

/-- **C03_parser_sim_trace** (any lexer-mode logging sink). For every table whose sink-calling
actions are `?`-checked, every tag configuration and every sequence of `parse` calls from a fresh
parser in lexer mode: the events of the emitted tag lexemes drive `Sim.run` from `Sim.new strict`
without error; the simulator state the parser ends with is the last state of that run; and every
emitted start-tag lexeme carries the namespace of the run's state right after its own event. -/
theorem C03_parser_sim_trace_generic (tbl : Table) (cfg : TagCfg) (ops : SinkOps κ)
    (logOf : κ → List (Bytes × TagLexeme)) (hops : ∀ inp, TraceOps ops logOf inp)
    (ht : EmitsChecked tbl = true) (strict : Bool) (k0 : κ) (hk0 : logOf k0 = [])
    (calls : List (Bytes × Bool))
    (hnp : NoFeedbackPanic (parseAll ⟨tbl, cfg, ops⟩ (Parser.new tbl k0 .lex strict) calls).2) :
    let p := (parseAll ⟨tbl, cfg, ops⟩ (Parser.new tbl k0 .lex strict) calls).1
    let log := logOf p.x.sink
    ∃ tr, Sim.run cfg (Sim.new strict) (log.map tagEventOf) = (tr, none) ∧
      lastState (Sim.new strict) tr = p.x.sim ∧ tr.length = log.length ∧
      ∀ q ∈ log.zip tr, ∀ ns, nsOf q.1.2.outline = some ns → q.2.1.currentNs = ns := by
  have h0 : Tr cfg (Sim.new strict) (logOf (Parser.new tbl k0 .lex strict).x.sink)
      (Parser.new tbl k0 .lex strict).x.sim := by
    show Tr cfg (Sim.new strict) (logOf k0) (Sim.new strict)
    rw [hk0]; exact Tr.nil
  exact (parseAll_trace tbl cfg ops logOf hops ht (Sim.new strict) calls _ rfl rfl h0 hnp).run

/-- **C03_parser_sim_trace**: the instance for the plain logging sink. -/
theorem C03_parser_sim_trace (tbl : Table) (cfg : TagCfg) (ht : EmitsChecked tbl = true) (strict : Bool)
    (calls : List (Bytes × Bool))
    (hnp : NoFeedbackPanic (parseAll ⟨tbl, cfg, logOps⟩ (Parser.new tbl [] .lex strict) calls).2) :
    let p := (parseAll ⟨tbl, cfg, logOps⟩ (Parser.new tbl [] .lex strict) calls).1
    ∃ tr, Sim.run cfg (Sim.new strict) (p.x.sink.map tagEventOf) = (tr, none) ∧
      lastState (Sim.new strict) tr = p.x.sim ∧ tr.length = p.x.sink.length ∧
      ∀ q ∈ p.x.sink.zip tr, ∀ ns, nsOf q.1.2.outline = some ns → q.2.1.currentNs = ns :=
  C03_parser_sim_trace_generic tbl cfg logOps id logOps_trace ht strict [] rfl calls hnp

/-- **What the lexer reports on documents of the claimed domain.** If the tag events of the lexemes
a non-strict pure-lexer run emitted are the flattening of a `Spec.Island` document (HTML tag soup
without `<svg>`/`<math>` start tags, interleaved with well-formed islands), then every start-tag
lexeme was stamped (`lexStampTag`) with the namespace the grammar expects after that tag, and the
parser's simulator is back in its initial state. -/
theorem C03_lexer_stamps_expected (tbl : Table) (cfg : TagCfg) (ht : EmitsChecked tbl = true)
    (hsm : cfg.svg ≠ cfg.math) (calls : List (Bytes × Bool))
    (hnp : NoFeedbackPanic (parseAll ⟨tbl, cfg, logOps⟩ (Parser.new tbl [] .lex false) calls).2)
    (d : List Spec.Island.DocItem) (hok : ∀ x ∈ d, x.Ok cfg)
    (hdoc : (parseAll ⟨tbl, cfg, logOps⟩ (Parser.new tbl [] .lex false) calls).1.x.sink.map tagEventOf =
      (Spec.Island.docFlat d).map (·.1)) :
    let p := (parseAll ⟨tbl, cfg, logOps⟩ (Parser.new tbl [] .lex false) calls).1
    (∀ q ∈ p.x.sink.zip ((Spec.Island.docFlat d).map (·.2)), ∀ ns,
        nsOf q.1.2.outline = some ns → ns = q.2) ∧
    p.x.sim = Sim.new false := by
  intro p
  obtain ⟨tr, hrun, hlast, hlen, hz⟩ := C03_parser_sim_trace tbl cfg ht false calls hnp
  have hdocthm := C03_foreign_doc cfg hsm d hok
  simp only at hdocthm
  rw [← hdoc] at hdocthm
  obtain ⟨-, hns, hfin⟩ := hdocthm
  unfold nsTrace at hns
  rw [hrun] at hns hfin
  simp only at hns hfin
  refine ⟨?_, by rw [← hlast]; exact hfin⟩
  intro q hq ns hqn
  rw [← hns, List.zip_map_right] at hq
  obtain ⟨q', hq', rfl⟩ := List.mem_map.mp hq
  exact (hz q' hq' ns hqn).symm

def isOk : Except Err Nat → Bool
  | .ok _ => true
  | .error _ => false

theorem noPanic_of_ok {rs : List (Except Err Nat)} (h : rs.all isOk = true) : NoFeedbackPanic rs := by
  intro res hres s _ he
  rw [List.all_eq_true] at h
  have := h res hres
  rw [he] at this
  cases this

/-- `<svg><desc><b></b></desc><title></title></svg><p>` -/
def exampleInput : Bytes :=
  [60, 115, 118, 103, 62, 60, 100, 101, 115, 99, 62, 60, 98, 62, 60, 47, 98, 62, 60, 47, 100, 101, 115, 99, 62, 60,
   116, 105, 116, 108, 101, 62, 60, 47, 116, 105, 116, 108, 101, 62, 60, 47, 115, 118, 103, 62, 60, 112, 62]

/-- Non-vacuity on the generated table: the run `write(exampleInput); end` in lexer mode succeeds,
emits 9 tag lexemes, and their stamps are svg, html (`desc`), html (`b`), html (`title`), html (`p`). -/
example :
    let r := parseAll ⟨Gen.Syntax.table, Gen.Tags.cfg, logOps⟩ (Parser.new Gen.Syntax.table [] .lex false)
      [(exampleInput, false), ([], true)]
    r.2.all isOk = true ∧
    r.1.x.sink.map (fun q => nsOf q.2.outline) =
      [some .svg, some .html, some .html, none, none, some .html, none, none, some .html] := by
  decide +kernel

/-- side condition on the generated table -/
theorem C03_trace_emitsChecked_gen : EmitsChecked Gen.Syntax.table = true := by decide +kernel

end LolHtml.Thm.C03
