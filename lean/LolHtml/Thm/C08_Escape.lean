/-
Property C08 — inserted text, attribute values, comment text and names cannot change the markup
structure; inputs that cannot be represented safely are rejected and leave the token unchanged.

All theorems are about the functions of `Model/Esc.lean` instantiated with the constants that
translate/consts2lean.py extracts from the Rust source on every run (`LolHtml.Gen.Consts`): the
general lemmas (`Lemmas/Esc*.lean`) are parametrised by the lists and need decidable
side-conditions, which are evaluated here on `Gen.Consts` by `decide` (section "side-conditions").
A change of a literal in the Rust that matters breaks one of these.
-/
import LolHtml.Lemmas.EscComment
import LolHtml.Lemmas.EscNames
import LolHtml.Lemmas.EscUnescape

namespace LolHtml.Thm.C08
open LolHtml LolHtml.Model.Esc LolHtml.Spec.Esc LolHtml.Spec.Esc.CommentEnd
open LolHtml.Lemmas.Esc LolHtml.Lemmas.EscComment LolHtml.Lemmas.EscNames LolHtml.Lemmas.EscUnescape

/-! ## Side-conditions on the constants extracted from the Rust (re-evaluated on every run) -/

theorem side_body_repl_nonempty : replNonempty bodyTable = true := by decide
theorem side_body_avoids_lt : avoids bodyTable 60 = true := by decide
theorem side_body_avoids_gt : avoids bodyTable 62 = true := by decide
theorem side_body_self_delimiting : selfDelimiting bodyTable 38 = true := by decide
theorem side_body_prefix_free : prefixFree bodyTable = true := by decide
theorem side_attr_repl_nonempty : replNonempty attrTable = true := by decide
theorem side_attr_avoids_quote : avoids attrTable 34 = true := by decide
theorem side_attr_prefix_free : prefixFree attrTable = true := by decide
theorem side_attr_entities_clean : entitiesClean attrTable = true := by decide
theorem side_attr_serialise : Gen.Consts.attrOpen = [61, 34] ∧ Gen.Consts.attrClose = [34] := by decide
theorem side_comment_covers : coversRef Gen.Consts.commentContains Gen.Consts.commentPrefixes = true := by decide
theorem side_comment_all_close : allClose Gen.Consts.commentContains Gen.Consts.commentPrefixes = true := by decide
theorem side_comment_serialise :
    Gen.Consts.commentOpen = [60, 33, 45, 45] ∧ Gen.Consts.commentClose = [45, 45, 62] := by decide
theorem side_tag_delims_rejected : delimsRejected tagNameDelims Gen.Consts.tagNameReject = true := by decide
theorem side_tag_rejected_are_delims : rejectedAreDelims tagNameDelims Gen.Consts.tagNameReject = true := by decide
theorem side_tag_first_alpha : Gen.Consts.tagNameFirstAsciiAlpha = true := by decide
theorem side_attr_delims_rejected : delimsRejected attrNameDelims Gen.Consts.attrNameReject = true := by decide
theorem side_attr_rejected_are_delims : rejectedAreDelims attrNameDelims Gen.Consts.attrNameReject = true := by decide

/-- The entities the body-text escaper can produce: `&amp;` `&lt;` `&gt;`. -/
theorem side_body_entities :
    EscTable.entities bodyTable =
      [([38, 97, 109, 112, 59], 38), ([38, 108, 116, 59], 60), ([38, 103, 116, 59], 62)] := by decide

/-- The entity the attribute-value escaper can produce: `&quot;`. -/
theorem side_attr_entities :
    EscTable.entities attrTable = [([38, 113, 117, 111, 116, 59], 34)] := by decide

/-! ## The escaping loops -/

/-- The transcribed loops of `escape_body_text` / `escape_double_quotes_only` never take a failing
branch (`split_at_checked`, indexing) nor run out of fuel, and write exactly `escapeSpec`. -/
theorem C08_escape_loops_total (s : Bytes) :
    escapeBodyText s = some (escapeSpec bodyTable s) ∧
    escapeDoubleQuotesOnly s = some (escapeSpec attrTable s) :=
  ⟨escapeWith_eq_spec _ _, escapeWith_eq_spec _ _⟩

/-- No chunk handed to the output handler is empty (`debug_assert!(!chunk.is_empty())`,
streaming_sink.rs:104/109). -/
theorem C08_escape_chunks_nonempty (s : Bytes) :
    (∃ chunks, escapeBodyTextChunks s = .ok chunks ∧ ∀ c ∈ chunks, c ≠ []) ∧
    (∃ chunks, escapeDoubleQuotesOnlyChunks s = .ok chunks ∧ ∀ c ∈ chunks, c ≠ []) := by
  constructor
  · obtain ⟨chunks, h1, _, h3⟩ := escapeLoop_spec bodyTable (s.length + 1) s [] (by omega)
    exact ⟨chunks, by simpa [escapeBodyTextChunks, escapeChunksWith] using h1,
      h3 (repl_ne_nil_of_replNonempty side_body_repl_nonempty)⟩
  · obtain ⟨chunks, h1, _, h3⟩ := escapeLoop_spec attrTable (s.length + 1) s [] (by omega)
    exact ⟨chunks, by simpa [escapeDoubleQuotesOnlyChunks, escapeChunksWith] using h1,
      h3 (repl_ne_nil_of_replNonempty side_attr_repl_nonempty)⟩

example : escapeBodyTextChunks [97, 60, 98, 38] = .ok [[97], [38, 108, 116, 59], [98], [38, 97, 109, 112, 59]] := by
  rfl

/-! ## C08_body_no_markup -/

/-- For every byte string `s`, the text written for `ContentType::Text` content
(a) contains no `<` and no `>` byte;
(b) every `&` byte in it is the first byte of one of the three entities, spelled out in full there;
(c) decoding those three entities gives back `s`. -/
theorem C08_body_no_markup (s out : Bytes) (h : escapeBodyText s = some out) :
    (60 : UInt8) ∉ out ∧ (62 : UInt8) ∉ out ∧
    (∀ a c, out = a ++ 38 :: c → ∃ e ∈ EscTable.entities bodyTable, e.1 <+: 38 :: c) ∧
    unescapeWith (EscTable.entities bodyTable) out = s := by
  rw [(C08_escape_loops_total s).1] at h
  cases h
  exact ⟨not_mem_escapeSpec side_body_avoids_lt s, not_mem_escapeSpec side_body_avoids_gt s,
    amp_starts_entity side_body_self_delimiting s,
    unescape_escapeSpec side_body_self_delimiting side_body_prefix_free s⟩

/-- Consequence for the tokenizer's data state: the inserted text is one run of character tokens
that ends exactly where the following markup begins. -/
theorem C08_body_text_run (s out rest : Bytes) (h : escapeBodyText s = some out) :
    dataRun (out ++ 60 :: rest) = (out, 60 :: rest) := by
  have hlt := (C08_body_no_markup s out h).1
  have hp : ∀ x ∈ out, (x != 60) = true := by
    intro x hx; simp only [bne_iff_ne, ne_eq]; intro hx'; subst hx'; exact hlt hx
  obtain ⟨t1, t2⟩ := takeWhile_stop (p := fun x => x != 60) (d := 60) hp (by simp) rest
  simp only [dataRun, t1, t2]

example : escapeBodyText [60, 47, 97, 62, 38, 108, 116, 59] ≠ none ∧
    unescapeWith (EscTable.entities bodyTable)
      [38, 108, 116, 59, 47, 97, 38, 103, 116, 59, 38, 97, 109, 112, 59, 108, 116, 59]
      = [60, 47, 97, 62, 38, 108, 116, 59] := by decide

/-! ## C08_attr_value -/

/-- For every byte string `v`, the serialised attribute value contains no `"` byte; hence the
double-quoted attribute value state reads back exactly the written bytes. -/
theorem C08_attr_value_no_quote (v out : Bytes) (h : escapeDoubleQuotesOnly v = some out) :
    (34 : UInt8) ∉ out := by
  rw [(C08_escape_loops_total v).2] at h
  cases h
  exact not_mem_escapeSpec side_attr_avoids_quote v

/-- `&` is deliberately not escaped in attribute values ("The value may have HTML/XML entities",
element.rs:214), so decoding `&quot;` gives back `v` only up to the `&quot;` that `v` already
contained. Universally: escaping is invisible to the decoder — the parser sees in the written value
exactly the entities that the caller put into `v`, plus `v`'s own `"` bytes. -/
theorem C08_attr_value_transparent (v out : Bytes) (h : escapeDoubleQuotesOnly v = some out) :
    unescapeWith (EscTable.entities attrTable) out = unescapeWith (EscTable.entities attrTable) v := by
  rw [(C08_escape_loops_total v).2] at h
  cases h
  exact unescape_escapeSpec_transparent side_attr_entities_clean side_attr_prefix_free v

/-- `unescape ∘ escape = id` on every value that does not already contain the text `&quot;`. -/
theorem C08_attr_value (v out : Bytes) (h : escapeDoubleQuotesOnly v = some out)
    (hv : ¬ [38, 113, 117, 111, 116, 59] <:+: v) :
    (34 : UInt8) ∉ out ∧ unescapeWith (EscTable.entities attrTable) out = v := by
  refine ⟨C08_attr_value_no_quote v out h, ?_⟩
  rw [C08_attr_value_transparent v out h]
  apply unescape_of_no_entity
  intro e he
  rw [side_attr_entities] at he
  simp only [List.mem_singleton] at he
  subst he
  exact hv

/-- The hypothesis of `C08_attr_value` cannot be dropped: the value `&quot;` is written unchanged and
is read back by an entity-decoding parser as `"`. (Documented behaviour, not a structural break.) -/
theorem C08_attr_value_roundtrip_counterexample :
    escapeDoubleQuotesOnly [38, 113, 117, 111, 116, 59] = some [38, 113, 117, 111, 116, 59] ∧
    unescapeWith (EscTable.entities attrTable) [38, 113, 117, 111, 116, 59] = [34] := by decide

example : escapeDoubleQuotesOnly [97, 34, 38, 34] = some [97, 38, 113, 117, 111, 116, 59, 38, 38, 113, 117, 111, 116, 59] ∧
    unescapeWith (EscTable.entities attrTable) [97, 38, 113, 117, 111, 116, 59, 38, 38, 113, 117, 111, 116, 59]
      = [97, 34, 38, 34] := by decide

/-! ## C08_comment -/

/-- Acceptance as coded (comment.rs:50): `set_text` succeeds in a UTF-8 document iff the text
contains neither `-->` nor `--!>` and starts with neither `>` nor `->`. -/
theorem C08_comment_accept_iff (c : Comment) (t : Bytes) :
    (c.setText Codec.utf8 t).2 = .ok () ↔
      ¬ ([45, 45, 62] <:+: t ∨ [45, 45, 33, 62] <:+: t ∨ [62] <+: t ∨ [45, 62] <+: t) := by
  have hiff : containsCommentClosingSequence t = true ↔
      ([45, 45, 62] <:+: t ∨ [45, 45, 33, 62] <:+: t ∨ [62] <+: t ∨ [45, 62] <+: t) := by
    simp only [containsCommentClosingSequence, containsClosingWith, Gen.Consts.commentContains,
      Gen.Consts.commentPrefixes, List.any_cons, List.any_nil, Bool.or_false, Bool.or_eq_true,
      containsSeq_iff_infix, List.isPrefixOf_iff_prefix, or_assoc]
  rw [← hiff]
  simp only [Comment.setText, Comment.setTextWith]
  cases hc : containsClosingWith Gen.Consts.commentContains Gen.Consts.commentPrefixes t with
  | true => simp [containsCommentClosingSequence, hc]
  | false => simp [containsCommentClosingSequence, hc, ownedFromStrWithoutReplacements_utf8]

/-- Necessary and sufficient: for every text `t` and every following input `rest`, the WHATWG
comment states, started after the `<!--` of `<!--` ++ t ++ `-->` ++ rest, end the comment exactly
at the final `-->` iff `t` is accepted; a rejected text ends it at or before its own last byte. -/
theorem C08_comment_iff (t rest : Bytes) :
    (commentAt (Gen.Consts.commentOpen ++ t ++ Gen.Consts.commentClose ++ rest)).map (·.2)
        = some (4 + t.length + 3)
      ↔ containsCommentClosingSequence t = false := by
  have hshape : commentAt (Gen.Consts.commentOpen ++ t ++ Gen.Consts.commentClose ++ rest) =
      (afterOpen (t ++ [45, 45, 62] ++ rest)).map fun (d, n) => (d, n + 4) := by
    rw [side_comment_serialise.1, side_comment_serialise.2]
    simp [commentAt]
  have hpos : (commentAt (Gen.Consts.commentOpen ++ t ++ Gen.Consts.commentClose ++ rest)).map (·.2) =
      (endPos .commentStart (t ++ [45, 45, 62] ++ rest)).map (· + 4) := by
    rw [hshape, ← run_snd .commentStart [] (t ++ [45, 45, 62] ++ rest), afterOpen]
    cases run .commentStart [] (t ++ [45, 45, 62] ++ rest) <;> rfl
  rw [hpos]
  constructor
  · intro h
    cases hc : containsCommentClosingSequence t with
    | false => rfl
    | true =>
      exfalso
      obtain ⟨k, hk, hr⟩ := endPos_of_closing side_comment_all_close hc
      rw [List.append_assoc, hr] at h
      simp only [Option.map_some, Option.some.injEq] at h
      omega
  · intro h
    rw [endPos_of_accepted (accepted_of_not_closing side_comment_covers h)]
    simp only [Option.map_some, Option.some.injEq]; omega

/-- Sufficiency with the token's data: for an accepted text the comment token emitted at the final
`-->` carries exactly the inserted text (a WHATWG tokenizer records U+0000 as U+FFFD, `nulMap`). -/
theorem C08_comment_data (t rest : Bytes) (h : containsCommentClosingSequence t = false) :
    commentAt (Gen.Consts.commentOpen ++ t ++ Gen.Consts.commentClose ++ rest)
      = some (nulMap t, 4 + t.length + 3) := by
  rw [side_comment_serialise.1, side_comment_serialise.2]
  have := run_of_accepted (accepted_of_not_closing side_comment_covers h) rest
  simp only [List.cons_append, List.nil_append, commentAt, afterOpen, List.append_assoc] at this ⊢
  rw [this]
  simp only [Option.map_some, Option.some.injEq, Prod.mk.injEq, true_and]
  omega

/-- The same at the level of the setter and the serialiser: after a successful `set_text` in a UTF-8
document, the serialised comment, followed by anything, is tokenised as one comment spanning exactly
the serialised bytes. -/
theorem C08_comment (c c' : Comment) (t rest : Bytes)
    (h : c.setText Codec.utf8 t = (c', .ok ())) :
    (commentAt (c'.serialize ++ rest)).map (·.2) = some c'.serialize.length := by
  have hacc : containsCommentClosingSequence t = false := by
    cases hc : containsCommentClosingSequence t with
    | false => rfl
    | true =>
      simp [Comment.setText, Comment.setTextWith, containsCommentClosingSequence] at h hc
      simp [hc] at h
  have hc' : c' = { c with text := t, raw := none } := by
    simp only [Comment.setText, Comment.setTextWith] at h
    rw [show containsClosingWith Gen.Consts.commentContains Gen.Consts.commentPrefixes t = false from hacc] at h
    simp only [ownedFromStrWithoutReplacements_utf8, Bool.false_eq_true, if_false, Prod.mk.injEq, and_true] at h
    exact h.symm
  have := (C08_comment_iff t rest).mpr hacc
  subst hc'
  simp only [Comment.serialize]
  rw [this]
  simp [side_comment_serialise.1, side_comment_serialise.2]
  omega

/-- Each rejected shape, on its own, would end the comment early (the comment would end inside or
right after the shape, and the real `-->` plus whatever follows would leak as markup). -/
theorem C08_comment_witnesses (rest : Bytes) :
    (commentAt ([60, 33, 45, 45] ++ [45, 45, 62] ++ [45, 45, 62] ++ rest)).map (·.2) = some 7 ∧
    (commentAt ([60, 33, 45, 45] ++ [45, 45, 33, 62] ++ [45, 45, 62] ++ rest)).map (·.2) = some 8 ∧
    (commentAt ([60, 33, 45, 45] ++ [62] ++ [45, 45, 62] ++ rest)).map (·.2) = some 5 ∧
    (commentAt ([60, 33, 45, 45] ++ [45, 62] ++ [45, 45, 62] ++ rest)).map (·.2) = some 6 := by
  refine ⟨?_, ?_, ?_, ?_⟩ <;> rfl

example : (Comment.setText Codec.utf8 ⟨[120], some [60, 33, 45, 45, 120, 45, 45, 62]⟩ [45, 45, 33, 45, 60, 33, 45]).2 = .ok () := by
  rfl

example : commentAt ([60, 33, 45, 45] ++ [45, 45, 33, 45, 60, 33, 45] ++ [45, 45, 62] ++ [60, 98, 62])
    = some ([45, 45, 33, 45, 60, 33, 45], 14) := by decide

/-! ## C08_names -/

/-- Accepted tag names (UTF-8 document) are non-empty, start with an ASCII letter and contain none of
the bytes that end a tag name (whitespace, `/`, `>`). -/
theorem C08_tag_name_structural (n o : Bytes) (h : tagNameBytesFromStr Codec.utf8 n = .ok o) :
    o = n ∧ n ≠ [] ∧ (∃ ch, n.head? = some ch ∧ isAsciiAlpha ch = true) ∧
      ∀ b ∈ tagNameDelims, b ∉ n := by
  have h' : tagNameBytesFromStrWith Gen.Consts.tagNameReject true Codec.utf8 n = .ok o := by
    rw [← side_tag_first_alpha]; exact h
  obtain ⟨ho, ⟨ch, r, hn, ha⟩, hall⟩ := tagName_ok_iff.mp h'
  refine ⟨ho, by rw [hn]; simp, ⟨ch, by rw [hn]; rfl, ha rfl⟩, ?_⟩
  intro b hb hbn
  have hs := side_tag_delims_rejected
  simp only [delimsRejected, List.all_eq_true] at hs
  have := hs b hb
  rw [hall b hbn] at this; cases this

/-- Necessary and sufficient: for every byte string `n`, every delimiter `d` that can follow a tag
name in the serialised tag (` `, `/`, `>` …) and every `rest`: the WHATWG tag-open/tag-name states
read back exactly `n` as the name, stopping at `d`, iff `set_tag_name` accepts `n`. -/
theorem C08_tag_name_iff (n : Bytes) (d : UInt8) (hd : d ∈ tagNameDelims) (rest : Bytes) :
    tagNameSpan (n ++ d :: rest) = some (n, d :: rest) ↔ tagNameBytesFromStr Codec.utf8 n = .ok n := by
  have e : tagNameBytesFromStr Codec.utf8 n =
      tagNameBytesFromStrWith Gen.Consts.tagNameReject true Codec.utf8 n := by
    rw [← side_tag_first_alpha]; rfl
  rw [e]
  constructor
  · intro h; exact tagName_ok_of_span side_tag_rejected_are_delims h hd
  · intro h; exact tagNameSpan_of_ok side_tag_delims_rejected h hd rest

/-- Each rejected byte splits the name: a name containing it is cut short by the tag name state,
whatever follows. -/
theorem C08_tag_name_reject_necessary (n : Bytes) (b : UInt8) (hb : b ∈ n)
    (hr : b ∈ Gen.Consts.tagNameReject) (rest sp r : Bytes)
    (h : tagNameSpan (n ++ rest) = some (sp, r)) : sp.length < n.length :=
  tagNameSpan_short side_tag_rejected_are_delims hb (by simpa using hr) rest h

/-- A name that does not start with an ASCII letter (or is empty) does not open a tag at all. -/
theorem C08_tag_name_first_necessary (n rest : Bytes)
    (h : ∀ ch, n.head? = some ch → isAsciiAlpha ch = false) :
    tagNameSpan (n ++ 62 :: rest) = none := by
  cases n with
  | nil => rfl
  | cons ch r => simp [tagNameSpan, h ch rfl]

example : tagNameBytesFromStr Codec.utf8 [68, 105, 45, 0, 34] = .ok [68, 105, 45, 0, 34] := by rfl
example : tagNameSpan ([97, 32, 98] ++ [62]) = some ([97], [32, 98, 62]) := by decide

/-- Accepted attribute names (UTF-8 document) are non-empty and contain none of the bytes that end an
attribute name (whitespace, `/`, `>`, `=`). -/
theorem C08_attr_name_structural (n o : Bytes) (h : attrNameFromString Codec.utf8 n = .ok o) :
    o = n ∧ n ≠ [] ∧ ∀ b ∈ attrNameDelims, b ∉ n := by
  obtain ⟨ho, hne, hall⟩ := attrName_ok_iff.mp h
  refine ⟨ho, hne, ?_⟩
  intro b hb hbn
  have hs := side_attr_delims_rejected
  simp only [delimsRejected, List.all_eq_true] at hs
  have := hs b hb
  rw [hall b hbn] at this; cases this

/-- Sufficient: an accepted name followed by any attribute-name delimiter (`=` in the serialised
form) is read back exactly by the before-attribute-name / attribute-name states. -/
theorem C08_attr_name_sufficient (n o : Bytes) (h : attrNameFromString Codec.utf8 n = .ok o)
    (d : UInt8) (hd : d ∈ attrNameDelims) (rest : Bytes) :
    attrNameSpan (o ++ d :: rest) = some (o, d :: rest) :=
  attrNameSpan_of_ok side_attr_delims_rejected h hd rest

/-- Necessary, except for a leading `=`: if the attribute-name states read back exactly `n` and `n`
does not start with `=`, then `n` is accepted. (`=a` would be read back as the name `=a` — a parse
error, unexpected-equals-sign-before-attribute-name, but not a split; lol-html rejects it anyway.) -/
theorem C08_attr_name_necessary (n : Bytes) (d : UInt8) (rest : Bytes)
    (h : attrNameSpan (n ++ d :: rest) = some (n, d :: rest)) (h61 : n.head? ≠ some 61) :
    attrNameFromString Codec.utf8 n = .ok n :=
  attrName_ok_of_span side_attr_rejected_are_delims h h61

/-- Witness for every rejected byte `b`: the name `a b c` is not read back as one name. -/
theorem C08_attr_name_witnesses (b : UInt8) (hb : b ∈ Gen.Consts.attrNameReject) (rest : Bytes) :
    attrNameSpan ([97, b, 99] ++ 61 :: rest) ≠ some ([97, b, 99], 61 :: rest) := by
  intro h
  have := C08_attr_name_necessary [97, b, 99] 61 rest h (by simp)
  obtain ⟨_, _, hall⟩ := attrName_ok_iff.mp this
  have := hall b (by simp)
  rw [show Gen.Consts.attrNameReject.contains b = true by simpa using hb] at this
  cases this

example : attrNameSpan ([61, 97] ++ 61 :: [34, 118, 34]) = some ([61, 97], [61, 34, 118, 34]) := by decide

/-- The whole attribute: for an accepted name and ANY value bytes, the serialised attribute
`name="escaped value"` followed by anything is read back (before-attribute-name → attribute name →
before-attribute-value → attribute-value-double-quoted → after-attribute-value-quoted) as exactly one
attribute with that name and the escaped value, and the rest of the input is untouched. -/
theorem C08_attribute_reads_back (n o v : Bytes) (h : attrNameFromString Codec.utf8 n = .ok o)
    (rest : Bytes) :
    ∃ ser, (Attribute.serialize ⟨o, v, none⟩) = some ser ∧
      attrScanDq (ser ++ rest) = some (o, escapeSpec attrTable v, rest) := by
  refine ⟨o ++ [61, 34] ++ escapeSpec attrTable v ++ [34], ?_, ?_⟩
  · simp [Attribute.serialize, (C08_escape_loops_total v).2, side_attr_serialise.1, side_attr_serialise.2]
  · exact attrScanDq_of_ok side_attr_delims_rejected h (not_mem_escapeSpec side_attr_avoids_quote v) rest

example : Attribute.serialize ⟨[97], [34, 62, 60, 120, 32, 121, 61, 34], none⟩
    = some [97, 61, 34, 38, 113, 117, 111, 116, 59, 62, 60, 120, 32, 121, 61, 38, 113, 117, 111, 116, 59, 34] := by
  decide

/-- `set_attribute` lower-cases the name before validating it (attributes.rs:231); in a UTF-8
document the validated name — the second argument of every `eq_case_insensitive` call — therefore
has no byte in `A`..`Z`, which is what that function's `debug_assert!` (base/mod.rs:23) requires.
(Not so in encodings whose multi-byte sequences use trail bytes in that range: docs/pkg-esc.md,
finding 2.) -/
theorem C08_attr_name_lowercased (n o : Bytes)
    (h : attrNameFromString Codec.utf8 (asciiLowerBytes n) = .ok o) :
    ∀ b ∈ o, ¬ (65 ≤ b ∧ b ≤ 90) := by
  obtain ⟨ho, _, _⟩ := attrName_ok_iff.mp h
  rw [ho]
  intro b hb
  simp only [asciiLowerBytes, List.mem_map] at hb
  obtain ⟨x, _, hx⟩ := hb
  rw [← hx]
  unfold asciiLower
  split
  · rename_i hc
    simp only [Bool.and_eq_true, decide_eq_true_eq] at hc
    intro hcon
    have h1 := UInt8.le_iff_toNat_le.mp hc.1
    have h2 := UInt8.le_iff_toNat_le.mp hc.2
    have h3 := UInt8.le_iff_toNat_le.mp hcon.2
    have h4 : (x + 32).toNat = x.toNat + 32 := by
      rw [UInt8.toNat_add]; simp at h1 h2 ⊢; omega
    simp at h1 h2 h3; omega
  · rename_i hc
    simp only [Bool.and_eq_true, decide_eq_true_eq] at hc
    exact hc

/-! ## The setters use exactly these validators -/

/-- `set_attribute` succeeds iff the lower-cased name passes `name_from_string`; then exactly one
attribute — the first one whose name matches case-insensitively, else a new last one — carries the
value, has lost its raw source bytes (so it is re-serialised as `name="escaped value"`), and its name
is the validated name or the matching source name; the tag is marked modified. -/
theorem C08_set_attribute_ok (tag : StartTag) (n v : Bytes)
    (h : (tag.setAttribute Codec.utf8 n v).2 = .ok ()) :
    ∃ o, attrNameFromString Codec.utf8 (asciiLowerBytes n) = .ok o ∧
      (tag.setAttribute Codec.utf8 n v).1 =
        { tag with attributes := setAttributeItems Codec.utf8 o v tag.attributes, raw := none } ∧
      ∃ a ∈ setAttributeItems Codec.utf8 o v tag.attributes,
        a.value = v ∧ a.raw = none ∧ (a.name = o ∨ eqCaseInsensitive a.name o = true) := by
  simp only [StartTag.setAttribute, StartTag.setAttributeWith] at h ⊢
  split at h
  · cases h
  · rename_i o ho
    refine ⟨o, ho, rfl, ?_⟩
    generalize tag.attributes = l
    induction l with
    | nil =>
      exact ⟨{ name := o, value := ownedFromStr Codec.utf8 v, raw := none },
        by simp [setAttributeItems], rfl, rfl, Or.inl rfl⟩
    | cons a rest ih =>
      simp only [setAttributeItems]
      split
      · rename_i heq
        exact ⟨a.setValue Codec.utf8 v, by simp, rfl, rfl, Or.inr heq⟩
      · obtain ⟨a', ha', hv', hr', hn'⟩ := ih
        exact ⟨a', by simp [ha'], hv', hr', hn'⟩

/-- `set_tag_name` succeeds iff the name passes `tag_name_bytes_from_str`; then the start tag (and,
for an element that can have content, its end tag) carry exactly the validated name and are
re-serialised. -/
theorem C08_set_tag_name_ok (el : Element) (n : Bytes)
    (h : (el.setTagName Codec.utf8 n).2 = .ok ()) :
    tagNameBytesFromStr Codec.utf8 n = .ok n ∧
      (el.setTagName Codec.utf8 n).1.startTag = { el.startTag with name := n, raw := none } ∧
      (el.canHaveContent = true → ∀ e : EndTag,
        ((el.setTagName Codec.utf8 n).1.applyToEndTag e).serialize
          = Gen.Consts.endTagOpen ++ n ++ Gen.Consts.endTagClose) := by
  simp only [Element.setTagName, Element.setTagNameWith] at h ⊢
  split at h
  · cases h
  · rename_i o ho
    have ho' : o = n := by
      have := (tagName_ok_iff.mp (show tagNameBytesFromStrWith Gen.Consts.tagNameReject
        Gen.Consts.tagNameFirstAsciiAlpha Codec.utf8 n = .ok o from ho)).1
      exact this
    subst ho'
    refine ⟨ho, rfl, ?_⟩
    intro hc e
    simp [Element.applyToEndTag, hc, EndTag.serialize]

/-! ## C08_reject_unchanged -/

/-- A setter that returns an error leaves the token as it was (any codec, any reject lists). -/
theorem C08_reject_unchanged_comment (cd : Codec) (c : Comment) (t : Bytes) (e : CommentTextError)
    (h : (c.setText cd t).2 = .error e) : (c.setText cd t).1 = c := by
  simp only [Comment.setText, Comment.setTextWith] at h ⊢
  split
  · rfl
  · rename_i hc
    split
    · rename_i o ho
      rw [if_neg hc, ho] at h; cases h
    · rfl

theorem C08_reject_unchanged_attribute (cd : Codec) (tag : StartTag) (n v : Bytes) (e : AttributeNameError)
    (h : (tag.setAttribute cd n v).2 = .error e) : (tag.setAttribute cd n v).1 = tag := by
  simp only [StartTag.setAttribute, StartTag.setAttributeWith] at h ⊢
  split
  · rfl
  · rename_i o ho
    rw [ho] at h; cases h

theorem C08_reject_unchanged_tag_name (cd : Codec) (el : Element) (n : Bytes) (e : TagNameError)
    (h : (el.setTagName cd n).2 = .error e) : (el.setTagName cd n).1 = el := by
  simp only [Element.setTagName, Element.setTagNameWith] at h ⊢
  split
  · rfl
  · rename_i o ho
    rw [ho] at h; cases h

/-- And then the serialised output is the original source bytes of the token. -/
theorem C08_reject_unchanged_output (cd : Codec) (c : Comment) (t raw : Bytes) (e : CommentTextError)
    (hraw : c.raw = some raw) (h : (c.setText cd t).2 = .error e) :
    (c.setText cd t).1.serialize = raw := by
  rw [C08_reject_unchanged_comment cd c t e h]
  simp [Comment.serialize, hraw]

example : (Comment.setText Codec.utf8 ⟨[120], some [1]⟩ [97, 45, 45, 62]).2 = .error .commentClosingSequence := by
  rfl
example : (StartTag.setAttribute Codec.xUserDefined ⟨[97], [], false, some [1]⟩ [195, 169] [118]).2
    = .error .unencodableCharacter := by rfl

end LolHtml.Thm.C08
