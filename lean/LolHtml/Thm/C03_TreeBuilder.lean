import LolHtml.Lemmas.TbNames
import LolHtml.Lemmas.TbJoint3
import LolHtml.Lemmas.TbJoint4
/-!
# C03 — lol-html's tree-builder simulator against the WHATWG tree construction stage

`Spec.TreeBuilder` is an executable transcription of WHATWG HTML §13.2.6 reduced to the state that
determines tokenizer feedback (validated against html5ever 0.39 by lane `tb`). The theorems relate it to the
*existing* model of lol-html's simulator (`Model/TreeSim.lean`, `Model/TreeSimRun.lean`): `joint` runs both
over one token sequence, each driving its own tokenizer state, and lists for every token that gets through
the switch lol-html makes and the switch the standard makes; it ends where the strict simulator refuses a
tag.

Configuration `cfgStd`: scripting enabled (lol-html's assumption: `noscript` is a raw text element), the
current (2025) `select` parsing, the standard's text (no html5ever deviation switch).

* `C03_tb_text_feedback_partial` (a): HTML-namespace token sequences without `template` start tags: at every
  token of a run the strict simulator accepts, lol-html's tokenizer switch is the standard's. (Round 1 also
  excluded a `frameset` start tag after a `select` start tag; that restriction is gone: while the guard is in
  a select state the standard's parser is in the body phase with the frameset-ok flag off, where it ignores
  `frameset` — `Lemmas/TbBody*.lean`, `TbPhase*.lean`, `TbJoint3.lean`.)
* `C03_tb_guard_sound_partial` (b): on the same class, every text-switching start tag the strict simulator
  accepts is acted upon by the standard's tree builder (never ignored): no silent divergence.
* `C03_tb_text_feedback_exact` / `C03_tb_guard_sound_exact`: (a) and (b) for **all** HTML-namespace sequences,
  `template` start tags included, up to the first token met in a state with `ColGroupInTemplate` (parser in
  "in column group", current node not a `colgroup`) or `GuardSelectStale` (guard in a select state, parser back
  in a mode before the body) — the states right before findings F31 / F32. `C03_tb_exclusions_need_template`:
  without a `template` start tag neither predicate ever holds, so the `_partial` theorems are the exact ones
  on template-free input. Proof: a second, template-aware invariant (`Lemmas/TbT0..6.lean`, `TbJoint4.lean`).
* `C03_tb_text_feedback_statement` / `C03_tb_guard_sound_statement`: the statements for *all* HTML-namespace
  sequences; both are false, `C03_tb_col_in_template_counterexample`,
  `C03_tb_frameset_after_select_in_template_counterexample` are the witnesses (findings).
* legacy `select` parsing (pre-2025 text, what the guard was written against): three more witnesses,
  `C03_tb_legacy_*_counterexample`.
-/
namespace LolHtml.Thm.C03
open LolHtml LolHtml.Model LolHtml.Spec.TreeBuilder

/-- initial relation of the joint run -/
theorem jrel_init : JRel cfgStd (Sim.new true) State.init .data false :=
  ⟨⟨rfl, rfl, rfl⟩, ginv_init, fun _ => by simp [State.init], by simp [TkRel, State.init], by simp [Sim.new, inSelectState]⟩

theorem jrel2_init : JRel2 cfgStd (Sim.new true) State.init .data :=
  ⟨⟨rfl, rfl, rfl⟩, ginv_init, fun _ => by simp [State.init], by simp [TkRel, State.init], fun _ => phase_init,
    fun h => by simp [Sim.new, inSelectState] at h⟩

/-- **(a)** For every token sequence in the HTML namespace (no `svg` / `math` start tag) without a `template`
start tag, on which the simulator's hash tests
mean what the standard's name tests mean (`TbEv.Ok`, see `agree_named`): at every token the strict simulator
accepts, the text-type switch lol-html makes (`title`/`textarea` → RCDATA; `style` `xmp` `iframe` `noembed`
`noframes` `noscript` → RAWTEXT; `script`; `plaintext`; none otherwise) is the switch the standard's tree
builder makes, and it is the switch the standard attaches to that tag. -/
theorem C03_tb_text_feedback_partial (cfg : TagCfg) (evs : List TbEv)
    (hok : ∀ ev ∈ evs, ev.Ok cfg) (hcls : ∀ ev ∈ evs, HtmlNoTemplate ev.tok) :
    ∀ p ∈ joint cfg cfgStd (Sim.new true) State.init .data evs, p.2.1 = p.2.2 ∧ p.2.1 = expSw cfgStd p.1 :=
  joint_agree2 cfg evs _ _ _ jrel2_init hok hcls

/-- the round-1 form of (a), with the additional restriction "no `frameset` start tag after a `select` start
tag" (proved by a coarser invariant, `joint_agree`); a corollary now -/
theorem C03_tb_text_feedback_partial_r1 (cfg : TagCfg) (evs : List TbEv)
    (hok : ∀ ev ∈ evs, ev.Ok cfg) (hcls : ∀ ev ∈ evs, HtmlNoTemplate ev.tok)
    (_hfs : NoFramesetAfterSelect false (evs.map (·.tok))) :
    ∀ p ∈ joint cfg cfgStd (Sim.new true) State.init .data evs, p.2.1 = p.2.2 ∧ p.2.1 = expSw cfgStd p.1 :=
  C03_tb_text_feedback_partial cfg evs hok hcls

/-- **(b)** On the same class: a text-switching start tag that the strict simulator lets through is never
ignored or re-routed by the standard's tree builder — the standard switches the tokenizer too. Put the
other way round: wherever the standard ignores such a tag (in or after frameset), the strict run has already
stopped with the ambiguity error. -/
theorem C03_tb_guard_sound_partial (cfg : TagCfg) (evs : List TbEv)
    (hok : ∀ ev ∈ evs, ev.Ok cfg) (hcls : ∀ ev ∈ evs, HtmlNoTemplate ev.tok) :
    ∀ p ∈ joint cfg cfgStd (Sim.new true) State.init .data evs,
      ∀ n sc a, p.1 = .start n sc a → switchOf cfgStd n ≠ .none → p.2.2 = switchOf cfgStd n := by
  intro p hp n sc a hn _
  have := C03_tb_text_feedback_partial cfg evs hok hcls p hp
  rw [← this.1, this.2, hn]
  rfl

/-! ### the generated tables -/

theorem bytes_mem : ∀ n : Name, n.isOther = false → (n.bytes, n) ∈ nameTable := by
  intro n hn
  cases n <;> first | (simp [Name.isOther] at hn; done) | decide +kernel

/-- the event of a token with an enumerated tag name satisfies `TbEv.Ok` for the tables generated from the
Rust sources -/
theorem evOf_ok (t : Token) (ht : ∀ n, t.tagName? = some n → n.isOther = false) : (evOf t).Ok Gen.Tags.cfg := by
  cases t with
  | start n sc a => exact ⟨rfl, agree_named _ (bytes_mem n (ht n rfl))⟩
  | «end» n => exact ⟨rfl, agree_named _ (bytes_mem n (ht n rfl))⟩
  | _ => trivial

/-- (a) and (b) for the generated tables, over all token sequences whose tag names are among the 125 names
the standard's tree construction stage mentions -/
theorem C03_tb_text_feedback_gen (ts : List Token)
    (hnamed : ∀ t ∈ ts, ∀ n, t.tagName? = some n → n.isOther = false)
    (hcls : ∀ t ∈ ts, HtmlNoTemplate t) :
    ∀ p ∈ joint Gen.Tags.cfg cfgStd (Sim.new true) State.init .data (ts.map evOf),
      p.2.1 = p.2.2 ∧ p.2.1 = expSw cfgStd p.1 := by
  apply C03_tb_text_feedback_partial
  · intro ev hev
    obtain ⟨t, ht, rfl⟩ := List.mem_map.mp hev
    exact evOf_ok t (hnamed t ht)
  · intro ev hev
    obtain ⟨t, ht, rfl⟩ := List.mem_map.mp hev
    have := hcls t ht
    cases t <;> exact this

/-- start tag without attributes -/
def st (n : Name) : Token := .start n false {}

/-- non-vacuity: `<table><tr><td><textarea></textarea><select></select></table><title></title><frameset><noframes>`
— every switch is made by both; `<frameset>` (ignored by the standard here) puts the guard into
`InOrAfterFrameset`, `noframes` still switches on both sides. -/
example :
    (joint Gen.Tags.cfg cfgStd (Sim.new true) State.init .data
      ([st .table, st .tr, st .td, st .textarea, .end .textarea, st .select, .end .select, .end .table, st .title,
        .end .title, st .frameset, st .noframes].map evOf)).map (fun p => (p.2.1, p.2.2)) =
      [(.none, .none), (.none, .none), (.none, .none), (.rcdata, .rcdata), (.none, .none), (.none, .none),
       (.none, .none), (.none, .none), (.rcdata, .rcdata), (.none, .none), (.none, .none), (.rawtext, .rawtext)] := by
  decide +kernel

/-- non-vacuity of the round-2 widening: `<table><tr><td><select><frameset><script></script></select><textarea>`
— a `frameset` start tag while the guard is in `InSelect` (excluded in round 1): the standard ignores it
(frameset-ok flag off), the guard stays in `InSelect`, `script` and, after `</select>`, `textarea` switch on both
sides. -/
example :
    (joint Gen.Tags.cfg cfgStd (Sim.new true) State.init .data
      ([st .table, st .tr, st .td, st .select, st .frameset, st .script, .end .script, .end .select,
        st .textarea].map evOf)).map (fun p => (p.2.1, p.2.2)) =
      [(.none, .none), (.none, .none), (.none, .none), (.none, .none), (.none, .none), (.scriptData, .scriptData),
       (.none, .none), (.none, .none), (.rcdata, .rcdata)] := by
  decide +kernel

/-- non-vacuity of the refusal: `<frameset><frame><textarea>` — the strict run stops at `textarea` (two
entries only), exactly where the standard would have ignored the tag. -/
example :
    (joint Gen.Tags.cfg cfgStd (Sim.new true) State.init .data
      ([st .frameset, st .frame, st .textarea, st .b].map evOf)).length = 2 ∧
    ((run cfgStd State.init [st .frameset, st .frame, st .textarea]).map (·.sw)) = [.none, .none, .none] := by
  decide +kernel

/-! ### the full statements, and why they fail -/

/-- an `svg` or `math` start tag -/
def isForeignRoot : Token → Bool
  | .start .svg _ _ => true
  | .start .math _ _ => true
  | _ => false

/-- (a) for all HTML-namespace sequences (the claim of the property) -/
def C03_tb_text_feedback_statement : Prop :=
  ∀ (cfg : TagCfg) (evs : List TbEv), (∀ ev ∈ evs, ev.Ok cfg) →
    (∀ ev ∈ evs, isForeignRoot ev.tok = false) →
    ∀ p ∈ joint cfg cfgStd (Sim.new true) State.init .data evs, p.2.1 = p.2.2

/-- (b) for all HTML-namespace sequences -/
def C03_tb_guard_sound_statement : Prop :=
  ∀ (cfg : TagCfg) (evs : List TbEv), (∀ ev ∈ evs, ev.Ok cfg) →
    (∀ ev ∈ evs, isForeignRoot ev.tok = false) →
    ∀ p ∈ joint cfg cfgStd (Sim.new true) State.init .data evs,
      ∀ n sc a, p.1 = .start n sc a → switchOf cfgStd n ≠ .none → p.2.2 = switchOf cfgStd n

/-- the events of a sequence over enumerated names are `Ok` for the generated tables -/
theorem evs_ok (ts : List Token) (h : ∀ t ∈ ts, ∀ n, t.tagName? = some n → n.isOther = false) :
    ∀ ev ∈ ts.map evOf, ev.Ok Gen.Tags.cfg := by
  intro ev hev
  obtain ⟨t, ht, rfl⟩ := List.mem_map.mp hev
  exact evOf_ok t (h t ht)

/-- **Finding (column group inside a template).** `<template><col><textarea>`: in the "in column group"
insertion mode with a `template` as current node (§13.2.6.4.12 "anything else": "if the current node is not
a colgroup element, then this is a parse error; ignore the token") the standard ignores *every*
text-switching start tag; the guard knows only select and frameset, the strict simulator accepts the tag and
switches to RCDATA: `<template><col><textarea><script>…` is script for the standard and text for lol-html. -/
theorem C03_tb_col_in_template_counterexample :
    (joint Gen.Tags.cfg cfgStd (Sim.new true) State.init .data ([st .template, st .col, st .textarea].map evOf)).map
      (fun p => (p.2.1, p.2.2)) = [(.none, .none), (.none, .none), (.rcdata, .none)] := by
  decide +kernel

/-- **Finding (frameset after a select inside a template).** `<template><select></template><frameset><script>`:
the guard is in `InSelect` (the `select` was popped with the template, unseen), ignores the `frameset` start
tag and exempts `script`; the standard is "in frameset" and ignores `<script>`. -/
theorem C03_tb_frameset_after_select_in_template_counterexample :
    (joint Gen.Tags.cfg cfgStd (Sim.new true) State.init .data
      ([st .template, st .select, .end .template, st .frameset, st .script].map evOf)).map
      (fun p => (p.2.1, p.2.2)) = [(.none, .none), (.none, .none), (.none, .none), (.none, .none), (.scriptData, .none)] := by
  decide +kernel

theorem C03_tb_text_feedback_statement_false : ¬ C03_tb_text_feedback_statement := by
  intro h
  have := h Gen.Tags.cfg ([st .template, st .col, st .textarea].map evOf)
    (evs_ok _ (by decide)) (by decide) (st .textarea, .rcdata, .none) (by decide +kernel)
  cases this

theorem C03_tb_guard_sound_statement_false : ¬ C03_tb_guard_sound_statement := by
  intro h
  have := h Gen.Tags.cfg ([st .template, st .col, st .textarea].map evOf)
    (evs_ok _ (by decide)) (by decide) (st .textarea, .rcdata, .none) (by decide +kernel) .textarea false {} rfl (by decide)
  cases this

/-! ### the exact form: all HTML-namespace sequences, up to the two finding shapes -/

theorem jrel3_init : JRel3 cfgStd (Sim.new true) State.init .data false := jrel2_init.to3

/-- **(a), exact.** For **every** token sequence in the HTML namespace (no `svg` / `math` start tag; `template`
start tags allowed) with `TbEv.Ok`: at every token of the strict run, up to the first token that is met in a
state where

* `ColGroupInTemplate`: the standard's parser is in "in column group" and the current node is not a `colgroup`, or
* `GuardSelectStale`: the guard is in a select state while the standard's parser is in a mode before the body,

the switch lol-html makes is the switch the standard's tree builder makes, and it is the switch the standard
attaches to the tag. (`jointX` = `joint` that also ends at such a token.) The two predicates are decidable
functions of the pair (parser state, guard state); they are the states right before findings F31 and F32, and
they cannot arise without a `template` start tag (`C03_tb_exclusions_need_template`). -/
theorem C03_tb_text_feedback_exact (cfg : TagCfg) (evs : List TbEv)
    (hok : ∀ ev ∈ evs, ev.Ok cfg) (hcls : ∀ ev ∈ evs, HtmlNs ev.tok) :
    ∀ p ∈ jointX cfg cfgStd (Sim.new true) State.init .data evs, p.2.1 = p.2.2 ∧ p.2.1 = expSw cfgStd p.1 :=
  joint_agree3 cfg evs _ _ _ _ jrel3_init hok hcls

/-- **(b), exact.** On the same runs: a text-switching start tag the strict simulator accepts is acted upon by
the standard's tree builder. -/
theorem C03_tb_guard_sound_exact (cfg : TagCfg) (evs : List TbEv)
    (hok : ∀ ev ∈ evs, ev.Ok cfg) (hcls : ∀ ev ∈ evs, HtmlNs ev.tok) :
    ∀ p ∈ jointX cfg cfgStd (Sim.new true) State.init .data evs,
      ∀ n sc a, p.1 = .start n sc a → switchOf cfgStd n ≠ .none → p.2.2 = switchOf cfgStd n := by
  intro p hp n sc a hn _
  have := C03_tb_text_feedback_exact cfg evs hok hcls p hp
  rw [← this.1, this.2, hn]
  rfl

/-- Without a `template` start tag neither predicate ever holds: the run with the two extra stops is the plain
run. (`C03_tb_text_feedback_partial` is the exact theorem read through this equation.) -/
theorem C03_tb_exclusions_need_template (cfg : TagCfg) (evs : List TbEv)
    (hok : ∀ ev ∈ evs, ev.Ok cfg) (hcls : ∀ ev ∈ evs, HtmlNoTemplate ev.tok) :
    jointX cfg cfgStd (Sim.new true) State.init .data evs = joint cfg cfgStd (Sim.new true) State.init .data evs :=
  jointX_eq_joint cfg evs _ _ _ jrel2_init hok hcls

/-- (a) exact, for the generated tables and the 125 enumerated names -/
theorem C03_tb_text_feedback_exact_gen (ts : List Token)
    (hnamed : ∀ t ∈ ts, ∀ n, t.tagName? = some n → n.isOther = false) (hcls : ∀ t ∈ ts, HtmlNs t) :
    ∀ p ∈ jointX Gen.Tags.cfg cfgStd (Sim.new true) State.init .data (ts.map evOf),
      p.2.1 = p.2.2 ∧ p.2.1 = expSw cfgStd p.1 := by
  apply C03_tb_text_feedback_exact
  · exact evs_ok ts hnamed
  · intro ev hev
    obtain ⟨t, ht, rfl⟩ := List.mem_map.mp hev
    have := hcls t ht
    cases t <;> exact this

/-- non-vacuity with templates: `<template><td><textarea></textarea></template><select><template><style>` —
neither predicate ever holds; the run goes through nested template insertion modes and agrees on all 8
tokens up to where the strict simulator refuses `style` (guard in `InTemplateInSelect`). -/
example :
    (jointX Gen.Tags.cfg cfgStd (Sim.new true) State.init .data
      ([st .template, st .td, st .textarea, .end .textarea, .end .template, st .select, st .template,
        st .style].map evOf)).map (fun p => (p.2.1, p.2.2)) =
      [(.none, .none), (.none, .none), (.rcdata, .rcdata), (.none, .none), (.none, .none), (.none, .none),
       (.none, .none)] := by
  decide +kernel

/-- necessity of `ColGroupInTemplate`: on `<template><col><textarea>` (F31) the exact run ends before the
`textarea` — the state after `<col>` has the predicate — and that is the token on which the plain run
disagrees (`C03_tb_col_in_template_counterexample`). -/
example :
    (jointX Gen.Tags.cfg cfgStd (Sim.new true) State.init .data ([st .template, st .col, st .textarea].map evOf)).length = 2 ∧
    ColGroupInTemplate (run cfgStd State.init [st .template, st .col]).getLast!.st = true := by
  decide +kernel

/-- necessity of `GuardSelectStale`: on `<template><select></template><frameset><script>` (F32) the exact run
ends before the `frameset` — after `</template>` the guard is still in `InSelect` while the parser is back in
"in head" — and the plain run disagrees two tokens later
(`C03_tb_frameset_after_select_in_template_counterexample`). -/
example :
    (jointX Gen.Tags.cfg cfgStd (Sim.new true) State.init .data
      ([st .template, st .select, .end .template, st .frameset, st .script].map evOf)).length = 3 ∧
    GuardSelectStale (run cfgStd State.init [st .template, st .select, .end .template]).getLast!.st .inSelect = true := by
  decide +kernel

/-! ### the pre-2025 `select` parsing ("in select", "in select in table") -/

/-- the standard as it was when the ambiguity guard was written -/
def cfgLegacy : Cfg := { legacySelect := true }

/-- **Finding (legacy select, table).** `<table><td><select><td><select><xmp>`: the second `<td>` pops the
`select` ("in select in table"), unseen by the guard; the second `<select>` opens a new one while the guard
takes it for the exit from `InSelect`; `<xmp>` is ignored by the standard and switches lol-html to RAWTEXT. -/
theorem C03_tb_legacy_select_in_table_counterexample :
    (joint Gen.Tags.cfg cfgLegacy (Sim.new true) State.init .data
      ([st .table, st .td, st .select, st .td, st .select, st .xmp].map evOf)).map (fun p => (p.2.1, p.2.2)) =
      [(.none, .none), (.none, .none), (.none, .none), (.none, .none), (.none, .none), (.rawtext, .none)] := by
  decide +kernel

/-- **Finding (legacy select, template).** `<template><select></template><select><xmp>`: same mechanism
without a table. -/
theorem C03_tb_legacy_select_after_template_counterexample :
    (joint Gen.Tags.cfg cfgLegacy (Sim.new true) State.init .data
      ([st .template, st .select, .end .template, st .select, st .xmp].map evOf)).map (fun p => (p.2.1, p.2.2)) =
      [(.none, .none), (.none, .none), (.none, .none), (.none, .none), (.rawtext, .none)] := by
  decide +kernel

/-- **Finding (legacy select, frameset shadow).** `<body><frameset><select><noframes>`: the `frameset` start
tag is ignored by the standard (frameset-ok is "not ok") but makes the guard `InOrAfterFrameset` for good,
where `noframes` is exempt; the `select` is then not tracked, and `<noframes>` inside it is ignored by the
standard and switches lol-html to RAWTEXT. -/
theorem C03_tb_legacy_frameset_shadows_select_counterexample :
    (joint Gen.Tags.cfg cfgLegacy (Sim.new true) State.init .data
      ([st .body, st .frameset, st .select, st .noframes].map evOf)).map (fun p => (p.2.1, p.2.2)) =
      [(.none, .none), (.none, .none), (.none, .none), (.rawtext, .none)] := by
  decide +kernel

def isTemplateStart : Token → Bool
  | .start .template _ _ => true
  | _ => false

/-- (a) on the class of `C03_tb_text_feedback_partial`, for the pre-2025 `select` text -/
def C03_tb_text_feedback_legacy_statement : Prop :=
  ∀ (cfg : TagCfg) (evs : List TbEv), (∀ ev ∈ evs, ev.Ok cfg) → (∀ ev ∈ evs, isForeignRoot ev.tok = false) →
    (∀ ev ∈ evs, isTemplateStart ev.tok = false) → NoFramesetAfterSelect false (evs.map (·.tok)) →
    ∀ p ∈ joint cfg cfgLegacy (Sim.new true) State.init .data evs, p.2.1 = p.2.2

/-- … which is false: with the old text the guard's `select` tracking is unsound already without templates and
framesets (`<table><td><select><td><select><xmp>`). The guard matches *neither* version of the standard
exactly; on template-free input it is sound for the current one (`C03_tb_text_feedback_partial`). -/
theorem C03_tb_text_feedback_legacy_statement_false : ¬ C03_tb_text_feedback_legacy_statement := by
  intro h
  have := h Gen.Tags.cfg ([st .table, st .td, st .select, st .td, st .select, st .xmp].map evOf)
    (evs_ok _ (by decide)) (by decide) (by decide) (by simp [NoFramesetAfterSelect, evOf, st])
    (st .xmp, .rawtext, .none) (by decide +kernel)
  cases this

/-- The class on which the legacy text is conjectured to agree with the strict simulator (not proved; lane `tbs`:
no divergence on such cases): no `template`, no `frameset`, and none of the table-structure start tags that
make "in select in table" pop a `select` unseen. -/
def C03_tb_text_feedback_legacy_conjecture : Prop :=
  ∀ (cfg : TagCfg) (evs : List TbEv), (∀ ev ∈ evs, ev.Ok cfg) → (∀ ev ∈ evs, isForeignRoot ev.tok = false) →
    (∀ ev ∈ evs, ∀ n sc a, ev.tok = .start n sc a →
      n.isIn [.template, .frameset, .table, .caption, .tbody, .tfoot, .thead, .tr, .td, .th] = false) →
    ∀ p ∈ joint cfg cfgLegacy (Sim.new true) State.init .data evs, p.2.1 = p.2.2

/-- … while with the current `select` parsing the same inputs agree. -/
example :
    (joint Gen.Tags.cfg cfgStd (Sim.new true) State.init .data
      ([st .table, st .td, st .select, st .td, st .select, st .xmp].map evOf)).map (fun p => (p.2.1, p.2.2)) =
      [(.none, .none), (.none, .none), (.none, .none), (.none, .none), (.none, .none), (.rawtext, .rawtext)] := by
  decide +kernel

end LolHtml.Thm.C03
