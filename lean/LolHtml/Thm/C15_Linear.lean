import LolHtml.Lemmas.LinStream
import LolHtml.Thm.C15_Core
/-!
# C15 — linear work: one whole `Parser::parse` call, and what it means across writes

`C15_linear_run` (Thm/C15_Core.lean) bounds one run of the parsing loop. Here:

* **`C15_linear_statement_refuted`** — the statement as first written (`C15_linear_statement`: for *every*
  table with `WfTable`, one `parse` call is `≤ 32·(n+1)`) is **false**: a nine-state table passing
  `WfTable` *and* the token-part certificate on which one `parse` call of `<`ⁿ`>` is quadratic (the
  lexer, restarted by the scanner, emits its tag two bytes later, and the scanner rescans the rest).
* **`C15_linear_parse`** — with two more decidable side-conditions, both true of the current table,
  `EmitTagGt` (every arm that runs `emit_tag` is a `b'>'` arm: the lexer can only hand back to the
  scanner right after a `>`) and `UnmarkOnLeave` (C09: between `tag_start` and its cursor the scanner has
  only seen `<`[`/`]name, which contains no `>`), one whole `parse` call — all lexer ⇄ scanner switches
  included — performs at most `32·(n+1)` state-function invocations. Proof: potential argument
  (`Lemmas/LinParse.lean`): lexer runs tile the slice, scanner runs tile the slice, ≤ 2n+2 runs, each run
  costs `8·(bytes passed) + 8`.
* **`C15_work_linear_when_drained`** — across writes the parser is handed `retained ++ data`; if every
  write leaves at most `K` retained bytes, the total work of a history is
  `≤ 32·(|retained₀| + |input| + (K+1)·#writes)`.
* **`C15_work_quadratic_witness`** (model side of finding F29) — on the current table: `<` followed by 100
  `a`, written byte by byte: the bytes handed to `Parser::parse` add up to 5151 `> 2·101 + 4096` (quadratic
  in the input length); the state-function invocations stay at 202 — the state machine resumes at its
  cursor, the quadratic cost is the repeated hand-over / copy of the retained bytes.
-/
namespace LolHtml.Thm.C15
open LolHtml LolHtml.Model LolHtml.Thm.C01

variable {γ : Type}

/-! ### side-conditions on the current table -/

theorem C15_emitTagGt_gen : EmitTagGt Gen.Syntax.table = true := by decide +kernel
theorem C15_emitTagGt_gen_witness : EmitTagGtWitness Gen.Syntax.table = [] := by decide +kernel

/-- all table side-conditions of the linear-work theorems -/
def WfLinear (t : Table) : Bool :=
  WfTable t && checkCert t (computeCert t) && EmitTagGt t && UnmarkOnLeave t

theorem C15_wfLinear_gen : WfLinear Gen.Syntax.table = true := by
  unfold WfLinear
  rw [C15_gen, C15_cert_gen, C15_emitTagGt_gen, LolHtml.Thm.C09.C09_unmarkOnLeave_gen]
  rfl

theorem WfLinear.parts {t : Table} (h : WfLinear t = true) :
    WfTable t = true ∧ checkCert t (computeCert t) = true ∧ EmitTagGt t = true ∧ HeadOk t (headLabels t) = true := by
  unfold WfLinear at h
  simp only [Bool.and_eq_true] at h
  exact ⟨h.1.1.1, h.1.1.2, h.1.2, h.2⟩

/-! ### one whole `parse` call -/

/-- **C15_linear_parse.** For every table passing `WfLinear`, every tag configuration, every controller
that does not itself return a panic-class error, every slice and every parser state satisfying the
invariants (`PInv`, `PTok`, and the scanner's head invariant `PHead` of C09): one `Parser.parse` call —
all directive switches included — performs at most `32·(n+1)` state-function invocations. -/
theorem C15_linear_parse (w : World γ) (hwf : WfLinear w.tbl = true) (hc : CtlClean w.ctl) (inp : Bytes)
    (last : Bool) (p : Parser (Disp γ)) (hp : PInv w.tbl inp.length (fun d : Disp γ => d.rcs) p)
    (htp : PTok w.tbl (computeCert w.tbl) p) (hph : PHead w.tbl (headLabels w.tbl) inp p) :
    Parser.parseSteps w.env inp last p ≤ 32 * (inp.length + 1) := by
  obtain ⟨h1, h2, h3, h4⟩ := WfLinear.parts hwf
  exact parseSteps_le (env := w.env) h2 (dispOps_safe hc) (dispOps_safe2 hc) (WfTable.wf h1) h3 h4 last p hp htp hph

/-- a freshly created parser satisfies the three invariants, whatever the slice -/
theorem new_parser_invs (w : World γ) (hwf : WfLinear w.tbl = true) (g : γ) (cfg : Settings) (inp : Bytes) :
    PInv w.tbl inp.length (fun d : Disp γ => d.rcs) (Stream.new w g cfg).parser ∧
    PTok w.tbl (computeCert w.tbl) (Stream.new w g cfg).parser ∧
    PHead w.tbl (headLabels w.tbl) inp (Stream.new w g cfg).parser := by
  obtain ⟨h1, h2, _, _⟩ := WfLinear.parts hwf
  refine ⟨?_, ?_, PHead_new _ _ _ _ _⟩
  · exact PInv_new w.tbl (WfTable.wf h1) _ _ _ _ rfl
  · exact PTok_new _ _ h2 _ _ _

/-! ### the bare statement is false -/

/-- a table passing `WfTable` (and the certificate) on which the lexer hands back two bytes after `<`
while the scanner walks on to the next `>`, seven state functions per byte -/
def cxStates : List StateDef := [
  { name := "data", enter := [], memchr := none, arms := [
      ⟨.byte 60, .seq ⟨[⟨.emitText, true⟩, ⟨.markTagStart, false⟩], some (.goto 1)⟩⟩,
      ⟨.eoc, .seq ⟨[⟨.emitText, true⟩], none⟩⟩,
      ⟨.eof, .seq ⟨[⟨.emitTextAndEof, true⟩], none⟩⟩,
      ⟨.any, .seq ⟨[], none⟩⟩ ] },
  { name := "open", enter := [], memchr := none, arms := [
      ⟨.eof, .seq ⟨[⟨.emitTextAndEof, true⟩], none⟩⟩,
      ⟨.any, .seq ⟨[⟨.createStartTag, false⟩, ⟨.emitTag, true⟩], some (.goto 2)⟩⟩ ] },
  { name := "name", enter := [], memchr := none, arms := [
      ⟨.byte 62, .seq ⟨[⟨.createStartTag, false⟩, ⟨.finishTagName, true⟩], some (.goto 0)⟩⟩,
      ⟨.eof, .seq ⟨[⟨.emitTextAndEof, true⟩], none⟩⟩,
      ⟨.any, .seq ⟨[], some (.reconsume 3)⟩⟩ ] },
  { name := "c3", enter := [], memchr := none, arms := [⟨.eof, .seq ⟨[⟨.emitTextAndEof, true⟩], none⟩⟩, ⟨.any, .seq ⟨[], some (.reconsume 4)⟩⟩] },
  { name := "c4", enter := [], memchr := none, arms := [⟨.eof, .seq ⟨[⟨.emitTextAndEof, true⟩], none⟩⟩, ⟨.any, .seq ⟨[], some (.reconsume 5)⟩⟩] },
  { name := "c5", enter := [], memchr := none, arms := [⟨.eof, .seq ⟨[⟨.emitTextAndEof, true⟩], none⟩⟩, ⟨.any, .seq ⟨[], some (.reconsume 6)⟩⟩] },
  { name := "c6", enter := [], memchr := none, arms := [⟨.eof, .seq ⟨[⟨.emitTextAndEof, true⟩], none⟩⟩, ⟨.any, .seq ⟨[], some (.reconsume 7)⟩⟩] },
  { name := "c7", enter := [], memchr := none, arms := [⟨.eof, .seq ⟨[⟨.emitTextAndEof, true⟩], none⟩⟩, ⟨.any, .seq ⟨[], some (.reconsume 8)⟩⟩] },
  { name := "c8", enter := [], memchr := none, arms := [⟨.eof, .seq ⟨[⟨.emitTextAndEof, true⟩], none⟩⟩, ⟨.any, .seq ⟨[], some (.goto 2)⟩⟩] } ]

def cxTable : Table :=
  { states := cxStates
    whitespace := [32]
    alpha := [(97, 122)]
    dataState := 0
    plaintextState := 0
    rcdataState := 0
    rawtextState := 0
    scriptDataState := 0
    cdataSectionState := 0 }

/-- wants the start tag token at every hint, nothing else: lexer for one tag, then scanner again -/
def cxCtl : Controller Unit :=
  { initialFlags := fun _ => Flags.ofNat 0
    startTag := fun _ _ _ => ((), .flags (Flags.ofNat 4))
    auxInfo := fun _ _ => ((), .ok (Flags.ofNat 0))
    endTag := fun _ _ => ((), Flags.ofNat 0)
    token := fun _ t => ((), { chunks := [t.raw] })
    shouldEmit := fun _ => true
    handleEnd := fun _ => ((), [], none)
    bailOut := fun _ _ => ((), []) }

def cxWorld : World Unit := ⟨cxTable, Gen.Tags.cfg, cxCtl⟩

theorem cxCtl_clean : CtlClean cxCtl where
  token := by intro g t e h; simp [cxCtl] at h
  startTag := by intro g n ns e h; simp [cxCtl] at h
  auxInfo := by intro g i e h; simp [cxCtl] at h
  handleEnd := by intro g e h; simp [cxCtl] at h

set_option maxRecDepth 100000 in
theorem cx_wf : WfTable cxTable = true ∧ checkCert cxTable (computeCert cxTable) = true ∧
    EmitTagGt cxTable = false := by decide +kernel

set_option maxRecDepth 100000 in
/-- 24 `<` and a `>`: 986 state-function invocations, more than `32·(25+1) = 832` -/
theorem cx_steps : 32 * ((List.replicate 24 (60 : UInt8) ++ [62]).length + 1) <
    Parser.parseSteps cxWorld.env (List.replicate 24 60 ++ [62]) false (Stream.new cxWorld () {}).parser := by
  decide +kernel

/-- **C15_linear_statement_refuted.** `WfTable` alone does not make one `parse` call linear. -/
theorem C15_linear_statement_refuted : ¬ C15_linear_statement := by
  intro h
  have := h cxWorld cx_wf.1 cxCtl_clean (List.replicate 24 60 ++ [62]) false (Stream.new cxWorld () {}).parser
    (PInv_new cxTable (WfTable.wf cx_wf.1) _ _ _ _ rfl)
  exact absurd this (Nat.not_le.mpr cx_steps)

/-! ### across writes -/

/-- every successful write of the history leaves at most `K` retained bytes -/
def Drained (w : World γ) (K : Nat) : Stream γ → List Bytes → Prop
  | _, [] => True
  | s, c :: cs => (s.write w c).2 = .ok () → (s.write w c).1.pending.length ≤ K ∧ Drained w K (s.write w c).1 cs

theorem totalSteps_le {w : World γ} {cert : Cert} {L : Labels} (hc : CtlClean w.ctl) (hw : Wf w.tbl)
    (hchk : checkCert w.tbl cert = true) (hgt : EmitTagGt w.tbl = true) (hhead : HeadOk w.tbl L = true) (K : Nat)
    (chunks : List Bytes) (s : Stream γ) (hs : SInv2 w cert s) (hh : SHead w L s) (hd : Drained w K s chunks) :
    Stream.totalSteps w s chunks ≤ 32 * (s.pending.length + chunks.flatten.length + (K + 1) * chunks.length) := by
  induction chunks generalizing s with
  | nil => simp [Stream.totalSteps]
  | cons c cs ih =>
    have h1 := Stream.writeSteps_le hc hw hchk hgt hhead s c hs hh
    simp only [Stream.totalSteps, List.flatten_cons, List.length_append, List.length_cons]
    cases hres : (s.write w c).2 with
    | error e =>
      dsimp only
      have : 32 * (s.pending.length + c.length + 1) ≤
          32 * (s.pending.length + (c.length + cs.flatten.length) + (K + 1) * (cs.length + 1)) := by
        apply Nat.mul_le_mul_left
        have : 1 ≤ (K + 1) * (cs.length + 1) := Nat.mul_pos (by omega) (by omega)
        omega
      omega
    | ok u =>
      dsimp only
      obtain ⟨d1, d2⟩ := hd hres
      have hs' := (Stream.write_post2 hc hw hchk s c hs).2 hres
      have hh' := Stream.write_head hc hw hchk hhead s c hs hh hres
      have h2 := ih (s.write w c).1 hs' hh' d2
      have : 32 * (s.pending.length + c.length + 1) + 32 * ((s.write w c).1.pending.length + cs.flatten.length + (K + 1) * cs.length) ≤
          32 * (s.pending.length + (c.length + cs.flatten.length) + (K + 1) * (cs.length + 1)) := by
        rw [← Nat.mul_add]
        apply Nat.mul_le_mul_left
        rw [Nat.mul_add]
        omega
      omega

/-- **C15_work_linear_when_drained.** For every table passing `WfLinear`, every controller (`CtlClean`),
every settings record and every history of writes that leaves at most `K` bytes retained after each
write (text, complete tags, … anything but a token cut by the chunking): the total number of
state-function invocations of the history is at most `32·(|input| + (K+1)·#writes)`. -/
theorem C15_work_linear_when_drained (w : World γ) (hwf : WfLinear w.tbl = true) (hc : CtlClean w.ctl) (g : γ)
    (cfg : Settings) (K : Nat) (chunks : List Bytes) (hd : Drained w K (Stream.new w g cfg) chunks) :
    Stream.totalSteps w (Stream.new w g cfg) chunks ≤ 32 * (chunks.flatten.length + (K + 1) * chunks.length) := by
  obtain ⟨h1, h2, h3, h4⟩ := WfLinear.parts hwf
  have hw := WfTable.wf h1
  have := totalSteps_le hc hw h2 h3 h4 K chunks (Stream.new w g cfg) (Stream.new_SInv2 hw h2 g cfg)
    (fun data => PHead_new _ _ _ _ _) hd
  have hp : (Stream.new w g cfg).pending.length = 0 := by simp [Stream.new, Stream.pending]
  rw [hp] at this
  simpa using this

/-- the bytes handed to the parser by a history are the input plus what was retained before each write -/
theorem totalHanded_le {w : World γ} (K : Nat) (chunks : List Bytes) (s : Stream γ) (hd : Drained w K s chunks) :
    Stream.totalHanded w s chunks ≤ s.pending.length + chunks.flatten.length + K * chunks.length := by
  induction chunks generalizing s with
  | nil => simp [Stream.totalHanded]
  | cons c cs ih =>
    have h1 := Stream.writeHanded_le (w := w) s c
    simp only [Stream.totalHanded, List.flatten_cons, List.length_append, List.length_cons]
    cases hres : (s.write w c).2 with
    | error e => dsimp only; have : 0 ≤ K * (cs.length + 1) := Nat.zero_le _; omega
    | ok u =>
      dsimp only
      obtain ⟨d1, d2⟩ := hd hres
      have h2 := ih (s.write w c).1 d2
      rw [Nat.mul_add]
      omega

/-! ### the quadratic case (finding F29) -/

/-- `<` and 100 `a`, one byte per write -/
def longNameBytewise : List Bytes := [60] :: List.replicate 100 [97]

set_option maxRecDepth 100000 in
/-- **C15_work_quadratic_witness.** On the current table, pure tag scanning (no handler at all) and
full lexing alike: the tag name is cut by every write, so the whole head `<aaa…` is retained and handed
to the parser again at the next write: `1 + 2 + … + 101 = 5151` bytes handed for 101 bytes of input,
`> 2·len + 4096` — the quantity lane `patho` measures on the real code. The state machine itself does
NOT redo the work (it resumes at its cursor: 202 state-function invocations in total): the quadratic
cost is in handing over / copying the retained bytes (`Arena::append`, `shift`), not in tokenizing. -/
theorem C15_work_quadratic_witness :
    Stream.totalHanded (genWorld 0) (Stream.new (genWorld 0) () {}) longNameBytewise = 5151 ∧
    2 * longNameBytewise.flatten.length + 4096 < Stream.totalHanded (genWorld 0) (Stream.new (genWorld 0) () {}) longNameBytewise ∧
    Stream.totalHanded (genWorld 31) (Stream.new (genWorld 31) () {}) longNameBytewise = 5151 ∧
    Stream.totalSteps (genWorld 0) (Stream.new (genWorld 0) () {}) longNameBytewise = 202 ∧
    Stream.totalSteps (genWorld 31) (Stream.new (genWorld 31) () {}) longNameBytewise = 202 := by
  decide +kernel

/-- the drained hypothesis fails there: after the last write 101 bytes are retained -/
example : ((Stream.new (genWorld 0) () {}).write (genWorld 0) [60, 97, 97]).1.pending.length = 3 := by decide +kernel

/-- and it holds, with `K = 0`, for complete tags and text: `<a>` | `xy` | `</a>` -/
example : Stream.totalSteps (genWorld 31) (Stream.new (genWorld 31) () {}) [[60,97,62],[120,121],[60,47,97,62]] = 10 := by
  decide +kernel

end LolHtml.Thm.C15
