import LolHtml.Lemmas.ChunkParse2
import LolHtml.Thm.C01
/-!
# C02 — chunk-boundary invariance, and the schedule-independence half of C09

STATUS: **partial**. The full statements are kept below as `def … _statement : Prop`. What is proved
(for every tokenizer table, every tag configuration, both action sets, every sink) is the machinery of
the resumption argument up to and including the arm bodies of the DSL and both forms of
`break_on_end_of_input`; the last assembly steps (`runSeqArms` → `dispatch` → `stateFn` → `runLoop` →
`Parser.parse` → `TransformStream`) are stated (`C02_step_statement`, `C02_resumption_statement`) but not
proved. See docs/pkg-chunk.md.

The comparison is between a *split* run, which sees the input slice `inpS`, and a *whole* run, which
sees `inpW = pre ++ inpS ++ post` (`Frame inpS inpW δ`, `δ = pre.length`). The machines are related by
`MRel δ d skip ab sm` / `BRel` (Lemmas/ChunkRel.lean, Lemmas/ChunkStep.lean): every *live* position
register of the whole machine is the split register plus `δ`; registers that may hold stale positions
are tracked by the validity flags `ab`, which a dataflow analysis of the table computes and the decidable
side-condition `WfChunk` checks (no action reads a register that is not known to be live; `eoc` arms
contain exactly `emit_text?`; states with an `eoc` arm only stay in place or start by emitting text; enter
actions neither emit nor read the input; actions that may diverge are written with `?`; …).
-/
namespace LolHtml.Thm.C02
open LolHtml LolHtml.Model LolHtml.Model.Chunk

/-! ## The side-condition holds for the table generated from the Rust sources -/

set_option maxRecDepth 100000 in
/-- `WfChunk` re-checked on the current code on every run. -/
theorem C02_wf_gen : WfChunk Gen.Syntax.table = true := by decide +kernel

/-- diagnostics (`#eval` this when `C02_wf_gen` fails): the offending states -/
def C02_wf_gen_witness : List String := WfChunkWitness Gen.Syntax.table

/-- non-vacuity of the check: a table whose `eoc` arm does more than `emit_text?` is rejected, and so is
one that emits a tag whose name range was taken from a `token_part_start` that was never set. -/
def badTable1 : Table :=
  { states := [⟨"s", [], none, [⟨.eoc, .seq ⟨[⟨.emitText, true⟩, ⟨.markTagStart, false⟩], none⟩⟩, ⟨.any, .seq ⟨[], none⟩⟩]⟩]
    whitespace := [], alpha := [], dataState := 0, plaintextState := 0, rcdataState := 0, rawtextState := 0
    scriptDataState := 0, cdataSectionState := 0 }

def badTable2 : Table :=
  { states := [⟨"s", [], none, [⟨.any, .seq ⟨[⟨.createStartTag, false⟩, ⟨.finishTagName, true⟩, ⟨.emitTag, true⟩], none⟩⟩, ⟨.eof, .seq ⟨[], none⟩⟩]⟩]
    whitespace := [], alpha := [], dataState := 0, plaintextState := 0, rcdataState := 0, rawtextState := 0
    scriptDataState := 0, cdataSectionState := 0 }

example : WfChunk badTable1 = false := by decide +kernel
example : WfChunk badTable2 = false := by decide +kernel

/-! ## What is proved

All of the following hold for every table, tag configuration, sink type `κ` and sink operations
satisfying `OpsSim` (corresponding lexemes in related sink states give equal results and related sink
states; a text lexeme may be delivered in two pieces). `SPanic` / the `must`-panic escape: the split run
hit one of the model's explicit panic branches (a slice out of range, …); those runs are excluded by the
hypothesis of the top-level statement. -/

variable {κ : Type} {env : Env κ} {inpS inpW : Bytes} {δ : Nat} {K : Nat → κ → κ → Prop} {Loc : κ → Nat → Nat → TextType → Prop}

/-- **Actions.** One action of either machine maps related machines to related machines, with the
validity flags transformed by `absAct`; the lexemes / hints handed to the sink correspond; the signals
are equal (bookmark positions shifted by `δ`). A text debt `d` is repaid by `emit_text`. -/
theorem C02_action_partial (F : Frame inpS inpW δ) (hops : OpsSim env.ops inpS inpW δ K Loc) (a : ActName) {d : Nat}
    {ab ab' : Ab} (habs : absAct a ab = some ab') {ms mw : M κ} (h : MRel δ d 0 ab .none ms mw)
    (hK : K d ms.x.sink mw.x.sink) (hloc : 0 < d → Loc ms.x.sink ms.x.prevConsumed (lexStart ms.r) ms.c.lastTextType)
    (hd : d = 0 ∨ a = .emitText ∨ a = .emitTextAndEof)
    (hin : readsInp a = true → (ms.c.nextPos ≤ inpS.length ∨ Closed inpS inpW δ)) :
    ActSim δ K ab' (qRequired a) (act env a inpS ms) (act env a inpW mw) :=
  act_sim F hops a habs h hK hloc hd hin

/-- **Arm bodies** (action list, `if cond`, transition): related results; after a transition the
machines are related with the entry flags of the target state, otherwise the cursor, state and
`entered` bit are untouched. -/
theorem C02_body_partial (F : Frame inpS inpW δ) (hops : OpsSim env.ops inpS inpW δ K Loc) (fs : FlagMap) (st : StateId)
    (loops : Bool) (b : Body) {d : Nat} {ab : Ab} (hok : bodyOk env.tbl fs st ab loops b = true)
    {ms mw : M κ}
    (h : MRel δ d 0 ab .none ms mw) (hK : K d ms.x.sink mw.x.sink) (hloc : 0 < d → Loc ms.x.sink ms.x.prevConsumed (lexStart ms.r) ms.c.lastTextType)
    (hd : d = 0 ∨ ∃ s, b = .seq s ∧ StartsWithText s.calls)
    (hin : BodyIn inpS inpW δ ms.c.nextPos b) :
    BodySim δ K fs st loops ms.c (runBody env inpS b ms) (runBody env inpW b mw) :=
  runBody_sim F hops fs st loops b hok h hK hloc hd hin

/-- **Look-ahead horizon** (`ch_sequence_arm_pattern!`): the verdict is the same in both runs, unless the
split input ends first, in which case the split run needs more input. -/
theorem C02_lookahead_horizon (F : Frame inpS inpW δ) (il ic : Bool) (hil : il = true → Closed inpS inpW δ)
    (nps : Nat) (es : List UInt8) (dep : Nat) (hdep : 1 ≤ dep) :
    (matchSeqFrom inpW il ic (nps + δ) dep es = matchSeqFrom inpS il ic nps dep es ∧
      (matchSeqFrom inpS il ic nps dep es = .matched → es ≠ [] → nps + dep - 1 + es.length ≤ inpS.length)) ∨
    (matchSeqFrom inpS il ic nps dep es = .needMore ∧ ¬ Closed inpS inpW δ ∧ il = false) :=
  matchSeq_sim F il ic hil nps es dep hdep

/-- **The split run breaks alone** (`break_on_end_of_input` + `Align`): the re-based split machine is
related, in the frame `δ + consumed`, to the whole machine that has not consumed anything in this step
(`mw0`); the whole cursor is `skip` bytes behind (memchr states). -/
theorem C02_break_split_partial {d : Nat} {ab : Ab} {sm : SeqMode} {ms mw mw0 : M κ} (h : MRel δ d 0 ab sm ms mw)
    (hP : ab.P = true) (hl : ms.c.isLast = false) (hSn : ab.Sn = true → ab.St = true) (hsm : sm ≠ .stale)
    (npw0 : Nat) (hnp : npw0 ≤ ms.c.nextPos - 1 + δ)
    (hc0 : mw0.c = { mw.c with nextPos := npw0 }) (hx0 : mw0.x = mw.x) (hr0 : (leaveSeq mw0).r = (leaveSeq mw).r)
    (sm' : SeqMode) (hout : sm' = .stale ∨ (sm' = .none ∧ chSeqOf ms.r = none ∧ chSeqOf mw0.r = none)) :
    SPanic (breakOnEndOfInput inpS ms).2 ∨
    ∃ c, (breakOnEndOfInput inpS ms).2 = some (.endOfInput c) ∧
      BreakRel (δ + c) d (ms.c.nextPos - 1 + δ - npw0) ab.boundary sm' (breakOnEndOfInput inpS ms).1 mw0 ∧
      (breakOnEndOfInput inpS ms).1.x = ms.x ∧ (breakOnEndOfInput inpS ms).1.c.state = ms.c.state ∧
      (breakOnEndOfInput inpS ms).1.c.entered = ms.c.entered ∧ c + 1 ≤ ms.c.nextPos :=
  break_split h hP hl hSn hsm npw0 hnp hc0 hx0 hr0 sm' hout

/-- **Both runs break at the common end of their inputs**: the consumed byte counts differ by the frame
offset minus the text debt (`consumed_w + d = consumed_s + δ`), i.e. the *total* consumed is the same; when
not last, the two re-based machines are related in the frame `d` of the remaining text debt. -/
theorem C02_break_both_partial (F : Frame inpS inpW δ) (hcl : Closed inpS inpW δ) {d : Nat} {ab : Ab} {sm : SeqMode}
    {ms mw : M κ} (h : MRel δ d 0 ab sm ms mw) (hP : ab.P = true)
    (hSn : ms.c.isLast = false → ab.Sn = true → ab.St = true) (hsm : sm ≠ .stale)
    (hK : K d ms.x.sink mw.x.sink) :
    SPanic (breakOnEndOfInput inpS ms).2 ∨
    ∃ c c', (breakOnEndOfInput inpS ms).2 = some (.endOfInput c) ∧
      (breakOnEndOfInput inpW mw).2 = some (.endOfInput c') ∧ c' + d = c + δ ∧
      K d (breakOnEndOfInput inpS ms).1.x.sink (breakOnEndOfInput inpW mw).1.x.sink ∧
      (breakOnEndOfInput inpS ms).1.x = ms.x ∧ (breakOnEndOfInput inpW mw).1.x = mw.x ∧
      (breakOnEndOfInput inpS ms).1.c.state = ms.c.state ∧ (breakOnEndOfInput inpS ms).1.c.entered = ms.c.entered ∧
      (ms.c.isLast = false →
        BreakRel d d 0 ab.boundary (if sm = .inSeq then .stale else .none)
          (breakOnEndOfInput inpS ms).1 (breakOnEndOfInput inpW mw).1) :=
  break_both F hcl h hP hSn hsm hK

/-- **Text debt is created** (the `eoc` case): `emit_text` run by the split run alone keeps the lexer
registers related, the debt grows by the length of the text emitted early. -/
theorem C02_text_debt_partial {d np : Nat} {ab ab' : Ab} {ls lw : LexRegs} (h : LexRel δ d ab np ls lw)
    (hP : ab.P = true) (hn : ab'.noLex) :
    LexRel δ (d + (np - 1 - ls.lexemeStart)) ab' np
      (if np - 1 > ls.lexemeStart then { ls with lexemeStart := np - 1 } else ls) lw :=
  h.emitTextSplitOnly hP hn

/-- **`memchr` horizon**: scanning `xs ++ ys` after an unsuccessful scan of `xs` continues in `ys`. -/
theorem C02_memchr_horizon (nd : UInt8) (xs ys : Bytes) :
    findByte nd (xs ++ ys) = match findByte nd xs with
      | some p => some p
      | none => (findByte nd ys).map (· + xs.length) :=
  findByte_append nd xs ys

/-! ### Non-vacuity of the hypotheses

The trivial sink (every operation succeeds, the tag sink asks for the lexer) satisfies `OpsSim` for every
frame, and a freshly created parser's machine is related to itself. -/

def unitOps : SinkOps Unit :=
  { handleTag := fun _ _ _ => ((), .ok .lex), handleNonTag := fun _ _ _ => ((), .ok ())
    startTagHint := fun _ _ _ => ((), .ok .lex), endTagHint := fun _ _ => ((), .ok .lex) }

example (a b : Bytes) (n : Nat) : OpsSim unitOps a b n (fun d _ _ => d = 0) (fun _ _ _ _ => True) :=
  { tag := fun _ _ _ _ _ _ => Or.inr ⟨rfl, fun _ => rfl⟩
    nonTag := fun _ _ _ _ _ _ => Or.inr ⟨rfl, fun _ => rfl⟩
    text := fun _ _ _ d _ _ _ hd _ h0 => by omega
    textOk := fun _ _ _ _ => Or.inr rfl
    startHint := fun _ _ _ _ _ => Or.inr ⟨rfl, fun _ => rfl⟩
    endHint := fun _ _ _ _ => Or.inr ⟨rfl, fun _ => rfl⟩ }

example (tbl : Table) (last : Bool) :
    MRel 0 0 0 Ab.none .none ((Parser.new tbl () .lex false).machine last) ((Parser.new tbl () .lex false).machine last) :=
  ⟨⟨rfl, rfl, rfl, rfl, rfl, rfl, rfl, rfl⟩,
    ⟨Nat.le_refl _, rfl, (fun g => by cases g), rfl, (fun g => by cases g), trivial, trivial, trivial, (fun g => by cases g)⟩,
    rfl, rfl⟩

/-! ## What remains: the statements to reach -/

/-- **C02_step (the "step horizon" theorem).** One state-function invocation from related machines
(`BRel`): either both runs make the same step (`LockOut`: same signal — on a directive change also related
machines —, related machines and sinks, equal total consumed at a common break), or the split run breaks
(`BreakOut`) and its re-based machine is related, in the frame `δ + consumed`, to the whole machine `mw0` that
has at most run its enter actions (`stateFn mw0 = stateFn mw`). `eoi = true`: a common break of the two runs
is reported as `LockOut` (possible only if the inputs end together); `eoi = false` (not last): every break of
the split run is reported as `BreakOut`. -/
theorem C02_step {κ : Type} {env : Env κ} {inpS inpW : Bytes} {δ : Nat} {K : Nat → κ → κ → Prop} {Loc : κ → Nat → Nat → TextType → Prop}
    (F : Frame inpS inpW δ) (hops : OpsSim env.ops inpS inpW δ K Loc) {fs : FlagMap}
    (hwf : WfChunkWith env.tbl fs = true) {d skip : Nat} (eoi : Bool) {ms mw : M κ}
    (hb : BRel env.tbl fs inpW δ d skip ms mw) (hK : K d ms.x.sink mw.x.sink)
    (hloc : 0 < d → Loc ms.x.sink ms.x.prevConsumed (lexStart ms.r) ms.c.lastTextType)
    (hil : ms.c.isLast = true → Closed inpS inpW δ) (heoi : eoi = false → ms.c.isLast = false) :
    LockOut env.tbl fs inpW δ K Loc eoi (stateFn env inpS ms) (stateFn env inpW mw) ∨
    ((eoi = true → ¬ Closed inpS inpW δ) ∧ ∃ (x0 : Ctx κ) (mw0 : M κ),
      stateFn env inpW mw0 = stateFn env inpW mw ∧ K d x0.sink mw0.x.sink ∧ mw0.x.sim = x0.sim ∧
      x0.prevConsumed = mw0.x.prevConsumed + δ ∧
      BreakOut env.tbl fs env.ops Loc inpS inpW δ d x0 mw0 (stateFn env inpS ms)) :=
  stateFn_sim F hops hwf eoi hb hK hloc hil heoi

/-- outcome of a sequence of calls: the first result that is not `ok` -/
def outcome : List CallRes → CallRes
  | [] => .ok
  | .ok :: rest => outcome rest
  | r :: _ => r

/-- no call hit a model panic branch (this includes running out of the model's fuel), the memory limit is
not reached -/
def Clean (rs : List CallRes) : Prop := ∀ r ∈ rs, (∀ s, r ≠ .err (.panic s)) ∧ r ≠ .err .mem

/-- absolute form of a token: attribute outlines re-based by the slice offset -/
def normToken : Token → Token
  | .startTag n as ns sc raw src base => .startTag n (as.map fun a => (a.1, a.2.1, shA base a.2.2)) ns sc raw src 0
  | t => t

/-- what a controller may read of an `AuxStartTagInfo`: the attribute names and values, self-closing -/
def normAux (i : AuxInfo) : List (Option Bytes × Option Bytes) × Bool :=
  (i.attrs.map fun a => (checkedSlice i.input a.name, checkedSlice i.input a.value), i.selfClosing)

/-- **The class of controllers**: behaviour depends on tokens and aux-info only through their absolute
forms, and there is a relation `E` on controller states ("equal up to the fragmentation of the open text
node") that every operation respects and under which delivering a text chunk in two pieces is the same as
delivering it in one; text chunks never fail and are serialised to their own bytes. -/
structure TextBlind {γ : Type} (ctl : Controller γ) (E : γ → γ → Prop) : Prop where
  refl : ∀ g, E g g
  token_norm : ∀ g t t', normToken t = normToken t' → ctl.token g t = ctl.token g t'
  aux_norm : ∀ g i i', normAux i = normAux i' → ctl.auxInfo g i = ctl.auxInfo g i'
  start : ∀ g g' n ns, E g g' → (ctl.startTag g n ns).2 = (ctl.startTag g' n ns).2 ∧ E (ctl.startTag g n ns).1 (ctl.startTag g' n ns).1
  «end» : ∀ g g' n, E g g' → (ctl.endTag g n).2 = (ctl.endTag g' n).2 ∧ E (ctl.endTag g n).1 (ctl.endTag g' n).1
  aux : ∀ g g' i, E g g' → (ctl.auxInfo g i).2 = (ctl.auxInfo g' i).2 ∧ E (ctl.auxInfo g i).1 (ctl.auxInfo g' i).1
  emit : ∀ g g', E g g' → ctl.shouldEmit g = ctl.shouldEmit g'
  flags : ∀ g g', E g g' → ctl.initialFlags g = ctl.initialFlags g'
  tok : ∀ g g' t, E g g' → (∀ b tt l s, t ≠ .text b tt l s) →
    (ctl.token g t).2.chunks = (ctl.token g' t).2.chunks ∧ (ctl.token g t).2.err = (ctl.token g' t).2.err ∧
    (ctl.token g t).2.nextEncoding = (ctl.token g' t).2.nextEncoding ∧ E (ctl.token g t).1 (ctl.token g' t).1
  text_ok : ∀ g b tt l s, (ctl.token g (.text b tt l s)).2.err = none ∧
    (ctl.token g (.text b tt l s)).2.nextEncoding = none ∧ (ctl.token g (.text b tt l s)).2.chunks.flatten = b
  text_split : ∀ g g' b1 b2 tt l s, E g g' →
    E (ctl.token (ctl.token g (.text b1 tt false ⟨s, s + b1.length⟩)).1 (.text b2 tt l ⟨s + b1.length, s + b1.length + b2.length⟩)).1
      (ctl.token g' (.text (b1 ++ b2) tt l ⟨s, s + b1.length + b2.length⟩)).1
  text_last : ∀ g g' tt s, E g g' →
    E (ctl.token g (.text [] tt true ⟨s, s⟩)).1 (ctl.token g' (.text [] tt true ⟨s, s⟩)).1
  handleEnd : ∀ g g', E g g' → (ctl.handleEnd g).2 = (ctl.handleEnd g').2 ∧ E (ctl.handleEnd g).1 (ctl.handleEnd g').1

/-- Controllers that ignore text tokens entirely, with `E := (· = ·)`, are in the class; so is the logging
observer of lane `lex` (`Lane.Lex.ctl`) with `E` := "equal after flushing `textAcc` into the state", whose
log is the canonical merged form of the event sequence. (Instances to be proved with the theorem.) -/
def IgnoresText {γ : Type} (ctl : Controller γ) : Prop :=
  ∀ g b tt l s, ctl.token g (.text b tt l s) = (g, { chunks := if b.isEmpty then [] else [b] })

/-- **C02 (full statement).** Two chunkings of the same document, a table passing `WfChunk`, any tag
configuration, any settings, a controller in the class: if neither run hits a panic branch of the model or
the memory limit, both runs have the same outcome, the sink receives the same bytes, and the final
controller states are `E`-related (for a logging controller: the same canonical event sequence, with
absolute source ranges). -/
def C02_chunk_invariance_statement : Prop :=
  ∀ (γ : Type) (w : World γ) (E : γ → γ → Prop) (g : γ) (cfg : Settings) (cs₁ cs₂ : List Bytes),
    WfChunk w.tbl = true → TextBlind w.ctl E → cs₁.flatten = cs₂.flatten →
    let r₁ := C01.run w (C01.Rewriter.new w g cfg) cs₁
    let r₂ := C01.run w (C01.Rewriter.new w g cfg) cs₂
    Clean r₁.2 → Clean r₂.2 →
    outcome r₁.2 = outcome r₂.2 ∧
    (outcome r₁.2 = .ok → sinkBytes r₁.1.sink = sinkBytes r₂.1.sink ∧ E r₁.1.stream.disp.ctl r₂.1.stream.disp.ctl)

/-- **C09, schedule independence (full statement).** After any sequence of successful writes, the number
of bytes the sink has received is what a fresh rewriter given the same bytes in one write has emitted. -/
def C09_schedule_independent_statement : Prop :=
  ∀ (γ : Type) (w : World γ) (E : γ → γ → Prop) (g : γ) (cfg : Settings) (cs : List Bytes),
    WfChunk w.tbl = true → TextBlind w.ctl E →
    let r₁ := C01.writeAll w (C01.Rewriter.new w g cfg) cs
    let r₂ := (C01.Rewriter.new w g cfg).write w cs.flatten
    Clean r₁.2 → Clean [r₂.2] → (∀ r ∈ r₁.2, r = .ok) →
    r₂.2 = .ok ∧ (sinkBytes r₁.1.sink).length = (sinkBytes r₂.1.sink).length

/-! ## Instances of the full statements on the generated table (evidence, by evaluation)

`<div a=b>x<!--c--></div>`, all tokens captured, under three chunkings (one write; three writes; the
first two cut inside the attribute and inside the comment terminator `--`; a byte-wise prefix with an
empty write): same results, same sink bytes; and the C09 equation after the second write. -/

def doc : Bytes := C01.sampleChunks.flatten

def chunking1 : List Bytes := [doc]
def chunking2 : List Bytes := C01.sampleChunks
def chunking3 : List Bytes := [[60], [], [100, 105], doc.drop 3]

example : chunking1.flatten = chunking2.flatten ∧ chunking2.flatten = chunking3.flatten := by decide

example : outcome (C01.run (C01.genWorld 31) (C01.Rewriter.new (C01.genWorld 31) () {}) chunking1).2 = .ok ∧
    outcome (C01.run (C01.genWorld 31) (C01.Rewriter.new (C01.genWorld 31) () {}) chunking2).2 = .ok ∧
    outcome (C01.run (C01.genWorld 31) (C01.Rewriter.new (C01.genWorld 31) () {}) chunking3).2 = .ok := by
  decide +kernel

example : sinkBytes (C01.run (C01.genWorld 31) (C01.Rewriter.new (C01.genWorld 31) () {}) chunking1).1.sink
    = sinkBytes (C01.run (C01.genWorld 31) (C01.Rewriter.new (C01.genWorld 31) () {}) chunking3).1.sink := by
  decide +kernel

/-- C09 on the instance: after the writes `<`, ``, `di` the sink has received as many bytes (none: the
unfinished tag is held back) as after the single write `<di`. -/
example :
    (sinkBytes (C01.writeAll (C01.genWorld 0) (C01.Rewriter.new (C01.genWorld 0) () {}) [[60], [], [100, 105]]).1.sink).length
    = (sinkBytes ((C01.Rewriter.new (C01.genWorld 0) () {}).write (C01.genWorld 0) [60, 100, 105]).1.sink).length := by
  decide +kernel

end LolHtml.Thm.C02
