import LolHtml.Lemmas.ChunkMain
import LolHtml.Lane.Lex
/-!
# C02 — chunk-boundary invariance, and the schedule-independence half of C09

STATUS: **proved** for every tokenizer table passing the decidable side-condition `WfChunk` (the table
generated from the Rust sources passes: `C02_wf_gen`), every tag configuration, every settings record and
every controller of the class `Chunk.TextBlind` (Lemmas/ChunkDisp.lean), under the hypothesis that no run
involved returns a model panic or the memory error (`Clean`): `C02_chunk_invariance`,
`C09_schedule_independent`; the intermediate results `C02_step`, `C02_resumption`, `C02_resumption_closed`,
`C02_dispatcher`, `C02_chunk_vs_single` are of independent use. See docs/pkg-chunk.md.

The comparison is between a *split* run, which sees the input slice `inpS`, and a *whole* run, which
sees `inpW = pre ++ inpS ++ post` (`Frame inpS inpW δ`, `δ = pre.length`). The machines are related by
`MRel δ d skip ab sm` / `BRel` (Lemmas/ChunkRel.lean, Lemmas/ChunkStep.lean): every *live* position
register of the whole machine is the split register plus `δ`; registers that may hold stale positions
are tracked by the validity flags `ab`, which a dataflow analysis of the table computes and the decidable
side-condition `WfChunk` checks (no action reads a register that is not known to be live; `eoc` arms
contain exactly `emit_text?`; states with an `eoc` arm only stay in place or start by emitting text; enter
actions neither emit nor read the input; actions that may diverge are written with `?`; …).
-/
namespace LolHtml.Thm.C02
open LolHtml LolHtml.Model LolHtml.Model.Chunk

/-! ## The side-condition holds for the table generated from the Rust sources -/

set_option maxRecDepth 100000 in
/-- `WfChunk` re-checked on the current code on every run. -/
theorem C02_wf_gen : WfChunk Gen.Syntax.table = true := by decide +kernel

/-- diagnostics (`#eval` this when `C02_wf_gen` fails): the offending states -/
def C02_wf_gen_witness : List String := WfChunkWitness Gen.Syntax.table

/-- non-vacuity of the check: a table whose `eoc` arm does more than `emit_text?` is rejected, and so is
one that emits a tag whose name range was taken from a `token_part_start` that was never set. -/
def badTable1 : Table :=
  { states := [⟨"s", [], none, [⟨.eoc, .seq ⟨[⟨.emitText, true⟩, ⟨.markTagStart, false⟩], none⟩⟩, ⟨.any, .seq ⟨[], none⟩⟩]⟩]
    whitespace := [], alpha := [], dataState := 0, plaintextState := 0, rcdataState := 0, rawtextState := 0
    scriptDataState := 0, cdataSectionState := 0 }

def badTable2 : Table :=
  { states := [⟨"s", [], none, [⟨.any, .seq ⟨[⟨.createStartTag, false⟩, ⟨.finishTagName, true⟩, ⟨.emitTag, true⟩], none⟩⟩, ⟨.eof, .seq ⟨[], none⟩⟩]⟩]
    whitespace := [], alpha := [], dataState := 0, plaintextState := 0, rcdataState := 0, rawtextState := 0
    scriptDataState := 0, cdataSectionState := 0 }

example : WfChunk badTable1 = false := by decide +kernel
example : WfChunk badTable2 = false := by decide +kernel

/-! ## What is proved

All of the following hold for every table, tag configuration, sink type `κ` and sink operations
satisfying `OpsSim` (corresponding lexemes in related sink states give equal results and related sink
states; a text lexeme may be delivered in two pieces). `SPanic` / the `must`-panic escape: the split run
hit one of the model's explicit panic branches (a slice out of range, …); those runs are excluded by the
hypothesis of the top-level statement. -/

variable {κ : Type} {env : Env κ} {inpS inpW : Bytes} {δ : Nat} {K : Nat → κ → κ → Prop} {Loc : κ → Nat → Nat → TextType → Prop}

/-- **Actions.** One action of either machine maps related machines to related machines, with the
validity flags transformed by `absAct`; the lexemes / hints handed to the sink correspond; the signals
are equal (bookmark positions shifted by `δ`). A text debt `d` is repaid by `emit_text`. -/
theorem C02_action_partial (F : Frame inpS inpW δ) (hops : OpsSim env.ops inpS inpW δ K Loc) (a : ActName) {d : Nat}
    {ab ab' : Ab} (habs : absAct a ab = some ab') {ms mw : M κ} (h : MRel δ d 0 ab .none ms mw)
    (hK : K d ms.x.sink mw.x.sink) (hloc : 0 < d → Loc ms.x.sink ms.x.prevConsumed (lexStart ms.r) ms.c.lastTextType)
    (hd : d = 0 ∨ a = .emitText ∨ a = .emitTextAndEof)
    (hin : readsInp a = true → (ms.c.nextPos ≤ inpS.length ∨ Closed inpS inpW δ)) :
    ActSim δ K ab' (qRequired a) (act env a inpS ms) (act env a inpW mw) :=
  act_sim F hops a habs h hK hloc hd hin

/-- **Arm bodies** (action list, `if cond`, transition): related results; after a transition the
machines are related with the entry flags of the target state, otherwise the cursor, state and
`entered` bit are untouched. -/
theorem C02_body_partial (F : Frame inpS inpW δ) (hops : OpsSim env.ops inpS inpW δ K Loc) (fs : FlagMap) (st : StateId)
    (loops : Bool) (b : Body) {d : Nat} {ab : Ab} (hok : bodyOk env.tbl fs st ab loops b = true)
    {ms mw : M κ}
    (h : MRel δ d 0 ab .none ms mw) (hK : K d ms.x.sink mw.x.sink) (hloc : 0 < d → Loc ms.x.sink ms.x.prevConsumed (lexStart ms.r) ms.c.lastTextType)
    (hd : d = 0 ∨ ∃ s, b = .seq s ∧ StartsWithText s.calls)
    (hin : BodyIn inpS inpW δ ms.c.nextPos b) :
    BodySim δ K fs st loops ms.c (runBody env inpS b ms) (runBody env inpW b mw) :=
  runBody_sim F hops fs st loops b hok h hK hloc hd hin

/-- **Look-ahead horizon** (`ch_sequence_arm_pattern!`): the verdict is the same in both runs, unless the
split input ends first, in which case the split run needs more input. -/
theorem C02_lookahead_horizon (F : Frame inpS inpW δ) (il ic : Bool) (hil : il = true → Closed inpS inpW δ)
    (nps : Nat) (es : List UInt8) (dep : Nat) (hdep : 1 ≤ dep) :
    (matchSeqFrom inpW il ic (nps + δ) dep es = matchSeqFrom inpS il ic nps dep es ∧
      (matchSeqFrom inpS il ic nps dep es = .matched → es ≠ [] → nps + dep - 1 + es.length ≤ inpS.length)) ∨
    (matchSeqFrom inpS il ic nps dep es = .needMore ∧ ¬ Closed inpS inpW δ ∧ il = false) :=
  matchSeq_sim F il ic hil nps es dep hdep

/-- **The split run breaks alone** (`break_on_end_of_input` + `Align`): the re-based split machine is
related, in the frame `δ + consumed`, to the whole machine that has not consumed anything in this step
(`mw0`); the whole cursor is `skip` bytes behind (memchr states). -/
theorem C02_break_split_partial {d : Nat} {ab : Ab} {sm : SeqMode} {ms mw mw0 : M κ} (h : MRel δ d 0 ab sm ms mw)
    (hP : ab.P = true) (hl : ms.c.isLast = false) (hSn : ab.Sn = true → ab.St = true) (hsm : sm ≠ .stale)
    (npw0 : Nat) (hnp : npw0 ≤ ms.c.nextPos - 1 + δ)
    (hc0 : mw0.c = { mw.c with nextPos := npw0 }) (hx0 : mw0.x = mw.x) (hr0 : (leaveSeq mw0).r = (leaveSeq mw).r)
    (sm' : SeqMode) (hout : sm' = .stale ∨ (sm' = .none ∧ chSeqOf ms.r = none ∧ chSeqOf mw0.r = none)) :
    SPanic (breakOnEndOfInput inpS ms).2 ∨
    ∃ c, (breakOnEndOfInput inpS ms).2 = some (.endOfInput c) ∧
      BreakRel (δ + c) d (ms.c.nextPos - 1 + δ - npw0) ab.boundary sm' (breakOnEndOfInput inpS ms).1 mw0 ∧
      (breakOnEndOfInput inpS ms).1.x = ms.x ∧ (breakOnEndOfInput inpS ms).1.c.state = ms.c.state ∧
      (breakOnEndOfInput inpS ms).1.c.entered = ms.c.entered ∧ c + 1 ≤ ms.c.nextPos :=
  break_split h hP hl hSn hsm npw0 hnp hc0 hx0 hr0 sm' hout

/-- **Both runs break at the common end of their inputs**: the consumed byte counts differ by the frame
offset minus the text debt (`consumed_w + d = consumed_s + δ`), i.e. the *total* consumed is the same; when
not last, the two re-based machines are related in the frame `d` of the remaining text debt. -/
theorem C02_break_both_partial (F : Frame inpS inpW δ) (hcl : Closed inpS inpW δ) {d : Nat} {ab : Ab} {sm : SeqMode}
    {ms mw : M κ} (h : MRel δ d 0 ab sm ms mw) (hP : ab.P = true)
    (hSn : ms.c.isLast = false → ab.Sn = true → ab.St = true) (hsm : sm ≠ .stale)
    (hK : K d ms.x.sink mw.x.sink) :
    SPanic (breakOnEndOfInput inpS ms).2 ∨
    ∃ c c', (breakOnEndOfInput inpS ms).2 = some (.endOfInput c) ∧
      (breakOnEndOfInput inpW mw).2 = some (.endOfInput c') ∧ c' + d = c + δ ∧
      K d (breakOnEndOfInput inpS ms).1.x.sink (breakOnEndOfInput inpW mw).1.x.sink ∧
      (breakOnEndOfInput inpS ms).1.x = ms.x ∧ (breakOnEndOfInput inpW mw).1.x = mw.x ∧
      (breakOnEndOfInput inpS ms).1.c.state = ms.c.state ∧ (breakOnEndOfInput inpS ms).1.c.entered = ms.c.entered ∧
      (ms.c.isLast = false →
        BreakRel d d 0 ab.boundary (if sm = .inSeq then .stale else .none)
          (breakOnEndOfInput inpS ms).1 (breakOnEndOfInput inpW mw).1) :=
  break_both F hcl h hP hSn hsm hK

/-- **Text debt is created** (the `eoc` case): `emit_text` run by the split run alone keeps the lexer
registers related, the debt grows by the length of the text emitted early. -/
theorem C02_text_debt_partial {d np : Nat} {ab ab' : Ab} {ls lw : LexRegs} (h : LexRel δ d ab np ls lw)
    (hP : ab.P = true) (hn : ab'.noLex) :
    LexRel δ (d + (np - 1 - ls.lexemeStart)) ab' np
      (if np - 1 > ls.lexemeStart then { ls with lexemeStart := np - 1 } else ls) lw :=
  h.emitTextSplitOnly hP hn

/-- **`memchr` horizon**: scanning `xs ++ ys` after an unsuccessful scan of `xs` continues in `ys`. -/
theorem C02_memchr_horizon (nd : UInt8) (xs ys : Bytes) :
    findByte nd (xs ++ ys) = match findByte nd xs with
      | some p => some p
      | none => (findByte nd ys).map (· + xs.length) :=
  findByte_append nd xs ys

/-! ### Non-vacuity of the hypotheses

The trivial sink (every operation succeeds, the tag sink asks for the lexer) satisfies `OpsSim` for every
frame, and a freshly created parser's machine is related to itself. -/

def unitOps : SinkOps Unit :=
  { handleTag := fun _ _ _ => ((), .ok .lex), handleNonTag := fun _ _ _ => ((), .ok ())
    startTagHint := fun _ _ _ => ((), .ok .lex), endTagHint := fun _ _ => ((), .ok .lex) }

example (a b : Bytes) (n : Nat) : OpsSim unitOps a b n (fun d _ _ => d = 0) (fun _ _ _ _ => True) :=
  { tag := fun _ _ _ _ _ _ => Or.inr ⟨rfl, fun _ => rfl⟩
    nonTag := fun _ _ _ _ _ _ _ => Or.inr ⟨rfl, fun _ => rfl⟩
    text := fun _ _ _ d _ _ _ hd _ h0 => by omega
    textOk := fun _ _ _ _ _ _ _ => Or.inr rfl
    startHint := fun _ _ _ _ _ => Or.inr ⟨rfl, fun _ => rfl⟩
    endHint := fun _ _ _ _ => Or.inr ⟨rfl, fun _ => rfl⟩ }

example (tbl : Table) (last : Bool) :
    MRel 0 0 0 Ab.none .none ((Parser.new tbl () .lex false).machine last) ((Parser.new tbl () .lex false).machine last) :=
  ⟨⟨rfl, rfl, rfl, rfl, rfl, rfl, rfl, rfl⟩,
    ⟨Nat.le_refl _, rfl, (fun g => by cases g), rfl, (fun g => by cases g), trivial, trivial, trivial, (fun g => by cases g),
      (fun g => by cases g), (fun g => by cases g)⟩,
    rfl, rfl⟩

/-! ## The step theorem -/

/-- **C02_step (the "step horizon" theorem).** One state-function invocation from related machines
(`BRel`): either both runs make the same step (`LockOut`: same signal — on a directive change also related
machines —, related machines and sinks, equal total consumed at a common break), or the split run breaks
(`BreakOut`) and its re-based machine is related, in the frame `δ + consumed`, to the whole machine `mw0` that
has at most run its enter actions (`stateFn mw0 = stateFn mw`). `eoi = true`: a common break of the two runs
is reported as `LockOut` (possible only if the inputs end together); `eoi = false` (not last): every break of
the split run is reported as `BreakOut`. -/
theorem C02_step {κ : Type} {env : Env κ} {inpS inpW : Bytes} {δ : Nat} {K : Nat → κ → κ → Prop} {Loc : κ → Nat → Nat → TextType → Prop}
    (F : Frame inpS inpW δ) (hops : OpsSim env.ops inpS inpW δ K Loc) {fs : FlagMap}
    (hwf : WfChunkWith env.tbl fs = true) {d skip : Nat} (eoi : Bool) {ms mw : M κ}
    (hb : BRel env.tbl fs inpW δ d skip ms mw) (hK : K d ms.x.sink mw.x.sink)
    (hloc : 0 < d → Loc ms.x.sink ms.x.prevConsumed (lexStart ms.r) ms.c.lastTextType)
    (hil : ms.c.isLast = true → Closed inpS inpW δ) (heoi : eoi = false → ms.c.isLast = false) :
    LockOut env.tbl fs inpW δ K Loc eoi (stateFn env inpS ms) (stateFn env inpW mw) ∨
    ((eoi = true → ¬ Closed inpS inpW δ) ∧ ∃ (x0 : Ctx κ) (mw0 : M κ),
      stateFn env inpW mw0 = stateFn env inpW mw ∧ K d x0.sink mw0.x.sink ∧ mw0.x.sim = x0.sim ∧
      x0.prevConsumed = mw0.x.prevConsumed + δ ∧
      BreakOut env.tbl fs env.ops Loc inpS inpW δ d x0 mw0 (stateFn env inpS ms)) :=
  stateFn_sim F hops hwf eoi hb hK hloc hil heoi

/-! ## The parse-level resumption theorems

`PRunsM env inp last p m p' r`: the big-step (fuel-free) semantics of `Parser::parse` from parser `p` whose
active machine is `m`; `pruns_of_parseLoop`: the executable `Parser.parseLoop` computes it unless it runs out
of the model's fuel. -/

/-- **C02_resumption, inputs ending together.** Parsing the split input `inpS` and the whole input
`pre ++ inpS` from related parsers: the split parse hits a panic branch, or the whole parse has a result and
the results are related (`ResRel`: the same error, or consumed counts that differ by the frame minus the text
debt `d'` — here always `0` —, related sinks and, when not last, parsers related in the frame of what is kept). -/
theorem C02_resumption_closed {κ : Type} {env : Env κ} {inpS inpW : Bytes} {δ : Nat} {K : Nat → κ → κ → Prop}
    {Loc : κ → Nat → Nat → TextType → Prop} (F : Frame inpS inpW δ) (hcl : Closed inpS inpW δ)
    (hops : OpsSim env.ops inpS inpW δ K Loc) {fs : FlagMap} (hwf : WfChunkWith env.tbl fs = true) (last : Bool)
    {ps ps' : Parser κ} {ms : M κ} {rs : Except Err Nat} (hr : PRunsM env inpS last ps ms ps' rs) {d skip : Nat}
    {pw : Parser κ} {mw : M κ} (hp : PRelM env.tbl fs inpW δ d skip ps ms pw mw) (hl : ms.c.isLast = last)
    (hK : K d ms.x.sink mw.x.sink)
    (hloc : 0 < d → Loc ms.x.sink ms.x.prevConsumed (lexStart ms.r) ms.c.lastTextType) :
    PanicRes rs ∨ ∃ pw' rw, PRunsM env inpW last pw mw pw' rw ∧ ResRel env.tbl fs inpW δ K Loc last ps' pw' rs rw :=
  plock F hcl hops hwf last hr hp hl hK hloc

/-- **C02_resumption, one cut.** Parsing the split input `inpS` (not the last one) against the whole input
`pre ++ inpS ++ post`: a panic branch; or the same error in both runs; or the split parse returns `ok c` and
the whole parse, *inside* its `run_parsing_loop`, has reached a machine `mw1` (every result of the whole parse
from `mw1` is a result of the whole parse from `mw`) to which the split parser — as it will be resumed by the
next `parse` — is related in the frame `δ + c`; `SinkBrk`: what the split sink received in the breaking step. -/
theorem C02_resumption {κ : Type} {env : Env κ} {inpS inpW : Bytes} {δ : Nat} {K : Nat → κ → κ → Prop}
    {Loc : κ → Nat → Nat → TextType → Prop} (F : Frame inpS inpW δ)
    (hops : OpsSim env.ops inpS inpW δ K Loc) {fs : FlagMap} (hwf : WfChunkWith env.tbl fs = true)
    {ps ps' : Parser κ} {ms : M κ} {rs : Except Err Nat} (hr : PRunsM env inpS false ps ms ps' rs) {d skip : Nat}
    {pw : Parser κ} {mw : M κ} (hp : PRelM env.tbl fs inpW δ d skip ps ms pw mw) (hl : ms.c.isLast = false)
    (hK : K d ms.x.sink mw.x.sink)
    (hloc : 0 < d → Loc ms.x.sink ms.x.prevConsumed (lexStart ms.r) ms.c.lastTextType) :
    PanicRes rs ∨
    (∃ e pw', rs = .error e ∧ PRunsM env inpW false pw mw pw' (.error e)) ∨
    (∃ c, rs = .ok c ∧ ∃ (d1 d' skip' : Nat) (x0 : Ctx κ) (pwk : Parser κ) (mw1 : M κ),
      (∀ p' r, PRunsM env inpW false pwk mw1 p' r → PRunsM env inpW false pw mw p' r) ∧
      K d1 x0.sink mw1.x.sink ∧
      SinkBrk env.ops Loc inpS d1 d' x0 ps'.x.sink c (ps'.machine false).c.lastTextType ∧
      lexStart (ps'.machine false).r = 0 ∧ ps'.x.prevConsumed = x0.prevConsumed + c ∧
      PRelM env.tbl fs inpW (δ + c) d' skip' ps' (ps'.machine false) pwk mw1) :=
  popen F hops hwf hr hp hl hK hloc

/-- **The dispatcher is a sink for the resumption theorems**, for every controller of the class `TextBlind`. -/
theorem C02_dispatcher {γ : Type} {ctl : Controller γ} {E : γ → γ → Prop} {inpS inpW : Bytes} {δ : Nat}
    (F : Frame inpS inpW δ) (hcl : TextBlind ctl E) : OpsSim (dispOps ctl) inpS inpW δ (DK ctl E inpS inpW δ) DLoc :=
  dispOps_sim F hcl

/-! ## C02 and C09

`outcome rs`: the first result of a call sequence that is not `ok`. `Clean rs`: no call returned a model
panic (`Err.panic`: a Rust debug assertion / slice out of range, or the model's own fuel) or `Err.mem`.

The class of controllers is `Chunk.TextBlind ctl E` (Lemmas/ChunkDisp.lean): `E` — "equal up to the
fragmentation of the open text node" — is transitive, holds on its domain `E g g` (the theorems take `E g g`
for the initial state) and is respected by every controller operation; tokens are observed through their
absolute form (`normToken`), attribute buffers through their in-range slices; content is never removed
(`shouldEmit = true`); on the domain text chunks never fail, never switch the encoding, are serialised to
their own bytes, and delivering a text chunk in two pieces is `E`-equivalent to delivering it in one. -/

/-- **C02, any chunking against one write.** -/
theorem C02_chunk_vs_single {γ : Type} (w : World γ) (E : γ → γ → Prop) (g : γ) (cfg : Settings) (cs : List Bytes)
    (hwf : WfChunk w.tbl = true) (hcl : TextBlind w.ctl E) (hg : E g g) (hne : cs ≠ [])
    (hc : Clean (C01.run w (C01.Rewriter.new w g cfg) cs).2)
    (hcW : Clean (C01.run w (C01.Rewriter.new w g cfg) [cs.flatten]).2) :
    outcome (C01.run w (C01.Rewriter.new w g cfg) cs).2 = outcome (C01.run w (C01.Rewriter.new w g cfg) [cs.flatten]).2 ∧
    (outcome (C01.run w (C01.Rewriter.new w g cfg) cs).2 = .ok →
      sinkBytes (C01.run w (C01.Rewriter.new w g cfg) cs).1.sink =
        sinkBytes (C01.run w (C01.Rewriter.new w g cfg) [cs.flatten]).1.sink ∧
      E (C01.run w (C01.Rewriter.new w g cfg) cs).1.stream.disp.ctl
        (C01.run w (C01.Rewriter.new w g cfg) [cs.flatten]).1.stream.disp.ctl) := by
  rcases chunking_vs_single (fs := flagMap w.tbl) hcl hwf g hg cfg cs hne with h | h | h
  · exact absurd hc (not_clean_of_uncleanL h)
  · exact absurd hcW (not_clean_of_uncleanL h)
  · exact h

/-- **C02 (chunk-boundary invariance).** Two chunkings of the same document: the same outcome, and on
success the same bytes at the sink and controller states both `E`-related to that of the single-write run
(for `E := Eq`: the same final controller state). -/
theorem C02_chunk_invariance {γ : Type} (w : World γ) (E : γ → γ → Prop) (g : γ) (cfg : Settings) (cs₁ cs₂ : List Bytes)
    (hwf : WfChunk w.tbl = true) (hcl : TextBlind w.ctl E) (hg : E g g) (h1 : cs₁ ≠ []) (h2 : cs₂ ≠ [])
    (hflat : cs₁.flatten = cs₂.flatten)
    (hc1 : Clean (C01.run w (C01.Rewriter.new w g cfg) cs₁).2)
    (hc2 : Clean (C01.run w (C01.Rewriter.new w g cfg) cs₂).2)
    (hcW : Clean (C01.run w (C01.Rewriter.new w g cfg) [cs₁.flatten]).2) :
    outcome (C01.run w (C01.Rewriter.new w g cfg) cs₁).2 = outcome (C01.run w (C01.Rewriter.new w g cfg) cs₂).2 ∧
    (outcome (C01.run w (C01.Rewriter.new w g cfg) cs₁).2 = .ok →
      sinkBytes (C01.run w (C01.Rewriter.new w g cfg) cs₁).1.sink =
        sinkBytes (C01.run w (C01.Rewriter.new w g cfg) cs₂).1.sink ∧
      ∃ gW, E (C01.run w (C01.Rewriter.new w g cfg) cs₁).1.stream.disp.ctl gW ∧
        E (C01.run w (C01.Rewriter.new w g cfg) cs₂).1.stream.disp.ctl gW) := by
  obtain ⟨a1, a2⟩ := C02_chunk_vs_single w E g cfg cs₁ hwf hcl hg h1 hc1 hcW
  obtain ⟨b1, b2⟩ := C02_chunk_vs_single w E g cfg cs₂ hwf hcl hg h2 hc2 (by rw [← hflat]; exact hcW)
  rw [← hflat] at b1 b2
  refine ⟨by rw [a1, b1], fun hok => ?_⟩
  obtain ⟨a3, a4⟩ := a2 hok
  obtain ⟨b3, b4⟩ := b2 (by rw [b1, ← a1]; exact hok)
  exact ⟨by rw [a3, b3], _, a4, b4⟩

/-- **C09 (schedule independence).** After any sequence of successful writes the sink has received exactly
the bytes that a fresh rewriter given the same bytes in ONE write has emitted (and that write succeeds). -/
theorem C09_schedule_independent {γ : Type} (w : World γ) (E : γ → γ → Prop) (g : γ) (cfg : Settings) (cs : List Bytes)
    (hwf : WfChunk w.tbl = true) (hcl : TextBlind w.ctl E) (hg : E g g) (hne : cs ≠ [])
    (hall : ∀ r ∈ (C01.writeAll w (C01.Rewriter.new w g cfg) cs).2, r = .ok)
    (hcW : Clean [((C01.Rewriter.new w g cfg).write w cs.flatten).2]) :
    ((C01.Rewriter.new w g cfg).write w cs.flatten).2 = .ok ∧
    sinkBytes (C01.writeAll w (C01.Rewriter.new w g cfg) cs).1.sink =
      sinkBytes ((C01.Rewriter.new w g cfg).write w cs.flatten).1.sink := by
  rcases writes_vs_single (fs := flagMap w.tbl) hcl hwf g hg cfg cs hne hall with h | ⟨h1, h2, _⟩
  · exfalso
    obtain ⟨r1, _, _⟩ := write_res (w := w) (C01.Rewriter.new w g cfg) rfl cs.flatten
    have hcl' := hcW _ List.mem_cons_self
    rw [r1] at hcl'
    rcases h with ⟨m, hm⟩ | hm
    · exact hcl'.1 m (by
        show callRes ((Stream.new w g cfg).write w cs.flatten).2 = _
        rw [hm]; rfl)
    · exact hcl'.2 (by
        show callRes ((Stream.new w g cfg).write w cs.flatten).2 = _
        rw [hm]; rfl)
  · exact ⟨h1, h2⟩

/-! ## Controllers of the class -/

/-- a controller that observes tokens only through their absolute form, never removes content, and ignores
text chunks (passes them through) is in the class, with `E := Eq` -/
theorem textBlind_of_ignoresText {γ : Type} (ctl : Controller γ)
    (token_norm : ∀ g t t', normToken t = normToken t' → ctl.token g t = ctl.token g t')
    (aux_norm : ∀ g i i', AuxRefines i i' → EPanic (ctl.auxInfo g i).2 ∨ ctl.auxInfo g i = ctl.auxInfo g i')
    (emit : ∀ g, ctl.shouldEmit g = true)
    (text : ∀ g b tt l s, (ctl.token g (.text b tt l s)).1 = g ∧ (ctl.token g (.text b tt l s)).2.err = none ∧
      (ctl.token g (.text b tt l s)).2.nextEncoding = none ∧ (ctl.token g (.text b tt l s)).2.chunks.flatten = b) :
    TextBlind ctl Eq where
  dom := fun _ _ _ => ⟨rfl, rfl⟩
  dom_tok := fun _ _ _ => rfl
  trans := fun _ _ _ h1 h2 => h1.trans h2
  token_norm := token_norm
  aux_norm := aux_norm
  start := fun g g' n ns h => by subst h; exact ⟨rfl, rfl⟩
  endT := fun g g' n h => by subst h; exact ⟨rfl, rfl⟩
  aux := fun g g' i h => by subst h; exact ⟨rfl, rfl⟩
  emit := emit
  flags := fun g g' h => by subst h; rfl
  tok := fun g g' t h _ => by subst h; exact ⟨rfl, rfl, rfl, rfl⟩
  text_ok := fun g b tt l s _ => (text g b tt l s).2
  text_cong := fun g g' b tt l s h => by subst h; rfl
  text_split := fun g b1 b2 tt l s _ => by rw [(text _ _ _ _ _).1, (text _ _ _ _ _).1, (text _ _ _ _ _).1]
  handleEnd := fun g g' h => by subst h; exact ⟨rfl, rfl⟩

/-- the constant-flags observers of C01 (pure tag scanning for flags `0`, full lexing for flags `31`, and
everything in between) are in the class -/
theorem constCtl_textBlind (f : Nat) : TextBlind (C01.constCtl f) Eq :=
  textBlind_of_ignoresText _
    (fun g t t' h => by
      have hr : ∀ t : Token, (normToken t).raw = t.raw := fun t => by cases t <;> rfl
      have : t.raw = t'.raw := by rw [← hr t, ← hr t', h]
      simp [C01.constCtl, this])
    (fun _ _ _ _ => Or.inr rfl)
    (fun _ => rfl)
    (fun _ b _ _ _ => ⟨rfl, rfl, rfl, by simp [C01.constCtl, Token.raw]⟩)

/-- **C02 for the code's current tables**, constant capture flags `f` (the *partial* theorem of the brief: pure
scanner run `f = 0`, pure lexer run `f = 31`; arbitrary input and chunking). -/
theorem C02_chunk_invariance_partial (f : Nat) (cfg : Settings) (cs₁ cs₂ : List Bytes) (h1 : cs₁ ≠ []) (h2 : cs₂ ≠ [])
    (hflat : cs₁.flatten = cs₂.flatten)
    (hc1 : Clean (C01.run (C01.genWorld f) (C01.Rewriter.new (C01.genWorld f) () cfg) cs₁).2)
    (hc2 : Clean (C01.run (C01.genWorld f) (C01.Rewriter.new (C01.genWorld f) () cfg) cs₂).2)
    (hcW : Clean (C01.run (C01.genWorld f) (C01.Rewriter.new (C01.genWorld f) () cfg) [cs₁.flatten]).2) :
    outcome (C01.run (C01.genWorld f) (C01.Rewriter.new (C01.genWorld f) () cfg) cs₁).2 =
      outcome (C01.run (C01.genWorld f) (C01.Rewriter.new (C01.genWorld f) () cfg) cs₂).2 ∧
    (outcome (C01.run (C01.genWorld f) (C01.Rewriter.new (C01.genWorld f) () cfg) cs₁).2 = .ok →
      sinkBytes (C01.run (C01.genWorld f) (C01.Rewriter.new (C01.genWorld f) () cfg) cs₁).1.sink =
        sinkBytes (C01.run (C01.genWorld f) (C01.Rewriter.new (C01.genWorld f) () cfg) cs₂).1.sink) := by
  obtain ⟨a, b⟩ := C02_chunk_invariance (C01.genWorld f) Eq () cfg cs₁ cs₂ C02_wf_gen (constCtl_textBlind f) rfl h1 h2 hflat hc1 hc2 hcW
  exact ⟨a, fun h => (b h).1⟩

/-- **C09 for the code's current tables**, constant capture flags. -/
theorem C09_schedule_independent_partial (f : Nat) (cfg : Settings) (cs : List Bytes) (hne : cs ≠ [])
    (hall : ∀ r ∈ (C01.writeAll (C01.genWorld f) (C01.Rewriter.new (C01.genWorld f) () cfg) cs).2, r = .ok)
    (hcW : Clean [((C01.Rewriter.new (C01.genWorld f) () cfg).write (C01.genWorld f) cs.flatten).2]) :
    ((C01.Rewriter.new (C01.genWorld f) () cfg).write (C01.genWorld f) cs.flatten).2 = .ok ∧
    sinkBytes (C01.writeAll (C01.genWorld f) (C01.Rewriter.new (C01.genWorld f) () cfg) cs).1.sink =
      sinkBytes ((C01.Rewriter.new (C01.genWorld f) () cfg).write (C01.genWorld f) cs.flatten).1.sink :=
  C09_schedule_independent (C01.genWorld f) Eq () cfg cs C02_wf_gen (constCtl_textBlind f) rfl hne hall hcW

/-! ## Instances of the full statements on the generated table (evidence, by evaluation)

`<div a=b>x<!--c--></div>`, all tokens captured, under three chunkings (one write; three writes; the
first two cut inside the attribute and inside the comment terminator `--`; a byte-wise prefix with an
empty write): same results, same sink bytes; and the C09 equation after the second write. -/

def doc : Bytes := C01.sampleChunks.flatten

def chunking1 : List Bytes := [doc]
def chunking2 : List Bytes := C01.sampleChunks
def chunking3 : List Bytes := [[60], [], [100, 105], doc.drop 3]

example : chunking1.flatten = chunking2.flatten ∧ chunking2.flatten = chunking3.flatten := by decide

example : outcome (C01.run (C01.genWorld 31) (C01.Rewriter.new (C01.genWorld 31) () {}) chunking1).2 = .ok ∧
    outcome (C01.run (C01.genWorld 31) (C01.Rewriter.new (C01.genWorld 31) () {}) chunking2).2 = .ok ∧
    outcome (C01.run (C01.genWorld 31) (C01.Rewriter.new (C01.genWorld 31) () {}) chunking3).2 = .ok := by
  decide +kernel

example : sinkBytes (C01.run (C01.genWorld 31) (C01.Rewriter.new (C01.genWorld 31) () {}) chunking1).1.sink
    = sinkBytes (C01.run (C01.genWorld 31) (C01.Rewriter.new (C01.genWorld 31) () {}) chunking3).1.sink := by
  decide +kernel

/-- C09 on the instance: after the writes `<`, ``, `di` the sink has received as many bytes (none: the
unfinished tag is held back) as after the single write `<di`. -/
example :
    (sinkBytes (C01.writeAll (C01.genWorld 0) (C01.Rewriter.new (C01.genWorld 0) () {}) [[60], [], [100, 105]]).1.sink).length
    = (sinkBytes ((C01.Rewriter.new (C01.genWorld 0) () {}).write (C01.genWorld 0) [60, 100, 105]).1.sink).length := by
  decide +kernel

/-! ## Non-vacuity of the hypotheses of the final theorems -/

theorem clean_of_all_ok {rs : List CallRes} (h : ∀ r ∈ rs, r = .ok) : Clean rs := by
  intro r hr
  rw [h r hr]
  exact ⟨(fun s hh => by cases hh), (fun hh => by cases hh)⟩

/-- the three runs of `C02_chunk_invariance` on the sample document are clean (all calls succeed) -/
example : Clean (C01.run (C01.genWorld 31) (C01.Rewriter.new (C01.genWorld 31) () {}) chunking2).2 ∧
    Clean (C01.run (C01.genWorld 31) (C01.Rewriter.new (C01.genWorld 31) () {}) chunking3).2 ∧
    Clean (C01.run (C01.genWorld 31) (C01.Rewriter.new (C01.genWorld 31) () {}) [chunking2.flatten]).2 := by
  refine ⟨clean_of_all_ok ?_, clean_of_all_ok ?_, clean_of_all_ok ?_⟩ <;> decide +kernel

/-- hence, as an instance of the theorem (not by evaluation): the two chunkings give the same sink bytes -/
example : sinkBytes (C01.run (C01.genWorld 31) (C01.Rewriter.new (C01.genWorld 31) () {}) chunking2).1.sink
    = sinkBytes (C01.run (C01.genWorld 31) (C01.Rewriter.new (C01.genWorld 31) () {}) chunking3).1.sink := by
  have h := C02_chunk_invariance_partial 31 {} chunking2 chunking3 (by decide) (by decide) (by decide)
    (clean_of_all_ok (by decide +kernel)) (clean_of_all_ok (by decide +kernel)) (clean_of_all_ok (by decide +kernel))
  exact h.2 (by decide +kernel)

/-- the class is inhabited by controllers that do observe text: splitting a text chunk is visible in the
state only up to `E` (here: a counter of text *bytes*, not of text chunks) -/
def byteCounter : Controller Nat :=
  { initialFlags := fun _ => Flags.ofNat 31
    startTag := fun n _ _ => (n, .flags (Flags.ofNat 31))
    auxInfo := fun n _ => (n, .ok (Flags.ofNat 31))
    endTag := fun n _ => (n, Flags.ofNat 31)
    token := fun n t => match t with
      | .text b _ _ _ => (n + b.length, { chunks := [b] })
      | t => (n, { chunks := [t.raw] })
    shouldEmit := fun _ => true
    handleEnd := fun n => (n, [], none)
    bailOut := fun n _ => (n, []) }

theorem byteCounter_textBlind : TextBlind byteCounter Eq where
  dom := fun _ _ _ => ⟨rfl, rfl⟩
  dom_tok := fun _ _ _ => rfl
  trans := fun _ _ _ h1 h2 => h1.trans h2
  token_norm := fun g t t' h => by
    cases t <;> cases t' <;> simp only [normToken] at h <;> first | cases h | skip
    all_goals first | (injection h with h1 h2 h3 h4 h5 h6 h7; subst_vars; rfl) | rfl
  aux_norm := fun _ _ _ _ => Or.inr rfl
  start := fun g g' n ns h => by subst h; exact ⟨rfl, rfl⟩
  endT := fun g g' n h => by subst h; exact ⟨rfl, rfl⟩
  aux := fun g g' i h => by subst h; exact ⟨rfl, rfl⟩
  emit := fun _ => rfl
  flags := fun g g' h => by subst h; rfl
  tok := fun g g' t h _ => by subst h; exact ⟨rfl, rfl, rfl, rfl⟩
  text_ok := fun g b tt l s _ => ⟨rfl, rfl, by simp [byteCounter]⟩
  text_cong := fun g g' b tt l s h => by subst h; rfl
  text_split := fun g b1 b2 tt l s _ => by
    show g + b1.length + b2.length = g + (b1 ++ b2).length
    rw [List.length_append]; omega
  handleEnd := fun g g' h => by subst h; exact ⟨rfl, rfl⟩

/-! ## The logging observer of lane `lex`

`Lane.Lex.ctl` logs every event with absolute source ranges and merges the chunks of a text node into one
`X:` entry, so its log is already the canonical ("up to text-token merging") form of the controller-call
sequence. `LexE`: equal logs and scripts, failure injection off. -/

section lex
open LolHtml.Lane.Lex
/-- the logging observer's state without its count of `handle_token` calls -/
def eraseSeen (c : Ctl) : Ctl := { c with tokensSeen := 0 }

/-- "equal up to the fragmentation of the open text node" for the logging observer of lane `lex`: failure
injection off, everything equal except the number of `handle_token` calls -/
def LexE (c c' : Ctl) : Prop := c.failAt = 0 ∧ eraseSeen c = eraseSeen c'

theorem attrStr_norm (base : Nat) (a : Bytes × Bytes × AttrOutline) :
    attrStr 0 (a.1, a.2.1, shA base a.2.2) = attrStr base a := by
  obtain ⟨n, v, o⟩ := a
  have e1 : 0 + (o.name.start + base) = base + o.name.start := by omega
  have e2 : 0 + (o.value.start + base) = base + o.value.start := by omega
  simp only [attrStr, shA, shR, e1, e2]

theorem tokenStr_norm (t : Token) : tokenStr (normToken t) = tokenStr t := by
  cases t with
  | startTag n as ns sc raw src base =>
    simp only [normToken, tokenStr, List.isEmpty_map, List.map_map]
    congr
    funext a
    exact attrStr_norm base a
  | _ => rfl

theorem raw_norm (t : Token) : (normToken t).raw = t.raw := by cases t <;> rfl

theorem isText_norm (t : Token) : tokIsText (normToken t) = tokIsText t := by cases t <;> rfl

def setSeen (c : Ctl) (n : Nat) : Ctl := { c with tokensSeen := n }

theorem lexE_cases {c c' : Ctl} (h : LexE c c') : c.failAt = 0 ∧ c' = setSeen c c'.tokensSeen := by
  obtain ⟨h0, h1⟩ := h
  refine ⟨h0, ?_⟩
  obtain ⟨a1, a2, a3, a4, a5, a6, a7, a8⟩ := c
  obtain ⟨b1, b2, b3, b4, b5, b6, b7, b8⟩ := c'
  simp only [eraseSeen, Ctl.mk.injEq] at h1
  obtain ⟨e1, e2, e3, e4, e5, e6, e7, _⟩ := h1
  subst e1 e2 e3 e4 e5 e6 e7
  rfl

theorem lexE_setSeen {c : Ctl} (h : c.failAt = 0) (m : Nat) : LexE c (setSeen c m) := ⟨h, rfl⟩

theorem lexE_setSeen2 {c : Ctl} (h : c.failAt = 0) (m m' : Nat) : LexE (setSeen c m) (setSeen c m') := ⟨h, rfl⟩

theorem token_failAt (c : Ctl) (t : Token) : (Lane.Lex.ctl.token c t).1.failAt = c.failAt := by
  simp only [Lane.Lex.ctl]
  split
  · rfl
  · split
    · split <;> rfl
    · rfl

theorem lex_token_nontext (c : Ctl) (t : Token) (h : tokIsText t = false) :
    Lane.Lex.ctl.token c t =
      if ({ c with tokensSeen := c.tokensSeen + 1 } : Ctl).failAt != 0 &&
          ({ c with tokensSeen := c.tokensSeen + 1 } : Ctl).tokensSeen == ({ c with tokensSeen := c.tokensSeen + 1 } : Ctl).failAt
      then ({ c with tokensSeen := c.tokensSeen + 1 }, { chunks := [], err := some .handler })
      else ({ c with tokensSeen := c.tokensSeen + 1, log := tokenStr t :: c.log }, { chunks := [t.raw] }) := by
  cases t <;> first | rfl | cases h

/-- with failure injection off, a token is handled independently of the call count -/
theorem lex_token_seen (c : Ctl) (h : c.failAt = 0) (t : Token) (m : Nat) :
    Lane.Lex.ctl.token (setSeen c m) t = (setSeen (Lane.Lex.ctl.token c t).1 (m + 1), (Lane.Lex.ctl.token c t).2) := by
  have e1 : (c.failAt != 0) = false := by rw [h]; rfl
  cases t with
  | text b tt l s =>
    simp only [Lane.Lex.ctl, setSeen, e1, Bool.false_and, Bool.false_eq_true, if_false]
    cases l <;> rfl
  | startTag n as ns sc raw src base =>
    simp only [Lane.Lex.ctl, setSeen, e1, Bool.false_and, Bool.false_eq_true, if_false]
  | endTag n raw src =>
    simp only [Lane.Lex.ctl, setSeen, e1, Bool.false_and, Bool.false_eq_true, if_false]
  | comment x raw src =>
    simp only [Lane.Lex.ctl, setSeen, e1, Bool.false_and, Bool.false_eq_true, if_false]
  | doctype n p s fq raw src =>
    simp only [Lane.Lex.ctl, setSeen, e1, Bool.false_and, Bool.false_eq_true, if_false]

/-- **The logging observer of lane `lex` is in the class** (on the states whose failure injection is off:
`failAt = 0`; with `failAt = n > 0` the controller fails at its `n`-th `handle_token` call, and the number of
calls depends on how the text was fragmented — by design). -/
theorem lexCtl_textBlind : TextBlind Lane.Lex.ctl LexE where
  dom := fun g g' h => by
    obtain ⟨h0, h1⟩ := lexE_cases h
    refine ⟨⟨h0, rfl⟩, ?_, rfl⟩
    rw [h1]; exact h0
  dom_tok := fun g t h => ⟨by rw [← token_failAt g t]; exact h.1, rfl⟩
  trans := fun g1 g2 g3 h1 h2 => ⟨h1.1, h1.2.trans h2.2⟩
  token_norm := fun g t t' h => by
    have h1 : tokenStr t = tokenStr t' := by rw [← tokenStr_norm t, ← tokenStr_norm t', h]
    have h2 : t.raw = t'.raw := by rw [← raw_norm t, ← raw_norm t', h]
    have h3 : tokIsText t = tokIsText t' := by rw [← isText_norm t, ← isText_norm t', h]
    cases ht : tokIsText t with
    | true =>
      have ht' : tokIsText t' = true := by rw [← h3]; exact ht
      cases t <;> first | cases ht | skip
      cases t' <;> first | cases ht' | skip
      simp only [normToken] at h
      rw [h]
    | false =>
      rw [lex_token_nontext g t ht, lex_token_nontext g t' (by rw [← h3]; exact ht), h1, h2]
  aux_norm := fun g i i' h => by
    right
    simp only [Lane.Lex.ctl, h.sc, h.len]
  start := fun g g' n ns h => by
    obtain ⟨h0, h1⟩ := lexE_cases h
    rw [h1]
    have e : Lane.Lex.ctl.startTag (setSeen g g'.tokensSeen) n ns =
        (setSeen (Lane.Lex.ctl.startTag g n ns).1 g'.tokensSeen, (Lane.Lex.ctl.startTag g n ns).2) := by
      have hi : (setSeen g g'.tokensSeen).item = g.item := rfl
      simp only [Lane.Lex.ctl, hi]
      by_cases hb : g.item.2 = true
      · simp only [hb, if_true]; rfl
      · simp only [hb]; rfl
    rw [e]
    refine ⟨rfl, lexE_setSeen ?_ _⟩
    simp only [Lane.Lex.ctl]
    by_cases hb : g.item.2 = true
    · simp only [hb, if_true]; exact h0
    · simp only [hb]; exact h0
  endT := fun g g' n h => by
    obtain ⟨h0, h1⟩ := lexE_cases h
    rw [h1]
    exact ⟨rfl, lexE_setSeen (c := (Lane.Lex.ctl.endTag g n).1) h0 g'.tokensSeen⟩
  aux := fun g g' i h => by
    obtain ⟨h0, h1⟩ := lexE_cases h
    rw [h1]
    exact ⟨rfl, lexE_setSeen (c := (Lane.Lex.ctl.auxInfo g i).1) h0 g'.tokensSeen⟩
  emit := fun _ => rfl
  flags := fun g g' h => by
    obtain ⟨h0, h1⟩ := lexE_cases h
    rw [h1]; rfl
  tok := fun g g' t h ht => by
    obtain ⟨h0, h1⟩ := lexE_cases h
    rw [h1, lex_token_seen g h0]
    exact ⟨rfl, rfl, rfl, lexE_setSeen (by rw [token_failAt]; exact h0) _⟩
  text_ok := fun g b tt l s h => by
    have e1 : (g.failAt != 0) = false := by rw [h.1]; rfl
    simp only [Lane.Lex.ctl, e1, Bool.false_and, Bool.false_eq_true, if_false]
    refine ⟨trivial, trivial, ?_⟩
    cases b <;> simp
  text_cong := fun g g' b tt l s h => by
    obtain ⟨h0, h1⟩ := lexE_cases h
    rw [h1, lex_token_seen g h0]
    exact lexE_setSeen (by rw [token_failAt]; exact h0) _
  text_split := fun g b1 b2 tt l s h => by
    have e1 : (g.failAt != 0) = false := by rw [h.1]; rfl
    have h0 := h.1
    obtain ⟨a1, a2, a3, a4, a5, a6, a7, a8⟩ := g
    simp only at e1 h0
    subst h0
    cases a6 with
    | none =>
      cases l <;> exact ⟨rfl, by simp [Lane.Lex.ctl, eraseSeen]⟩
    | some acc =>
      obtain ⟨s0, e0, tt0, bs⟩ := acc
      cases l <;> exact ⟨rfl, by simp [Lane.Lex.ctl, eraseSeen, List.append_assoc]⟩
  handleEnd := fun g g' h => ⟨rfl, h⟩


/-- **C02 for the lane `lex` world** (generated tables, scripted capture flags, logging observer): two chunkings
of the same document give the same outcome, the same sink bytes and the same event log. -/
theorem C02_chunk_invariance_lex (c0 : Ctl) (h0 : c0.failAt = 0) (cfg : Settings) (cs₁ cs₂ : List Bytes)
    (h1 : cs₁ ≠ []) (h2 : cs₂ ≠ []) (hflat : cs₁.flatten = cs₂.flatten)
    (hc1 : Clean (C01.run Lane.Lex.world (C01.Rewriter.new Lane.Lex.world c0 cfg) cs₁).2)
    (hc2 : Clean (C01.run Lane.Lex.world (C01.Rewriter.new Lane.Lex.world c0 cfg) cs₂).2)
    (hcW : Clean (C01.run Lane.Lex.world (C01.Rewriter.new Lane.Lex.world c0 cfg) [cs₁.flatten]).2) :
    outcome (C01.run Lane.Lex.world (C01.Rewriter.new Lane.Lex.world c0 cfg) cs₁).2 =
      outcome (C01.run Lane.Lex.world (C01.Rewriter.new Lane.Lex.world c0 cfg) cs₂).2 ∧
    (outcome (C01.run Lane.Lex.world (C01.Rewriter.new Lane.Lex.world c0 cfg) cs₁).2 = .ok →
      sinkBytes (C01.run Lane.Lex.world (C01.Rewriter.new Lane.Lex.world c0 cfg) cs₁).1.sink =
        sinkBytes (C01.run Lane.Lex.world (C01.Rewriter.new Lane.Lex.world c0 cfg) cs₂).1.sink ∧
      (C01.run Lane.Lex.world (C01.Rewriter.new Lane.Lex.world c0 cfg) cs₁).1.stream.disp.ctl.log =
        (C01.run Lane.Lex.world (C01.Rewriter.new Lane.Lex.world c0 cfg) cs₂).1.stream.disp.ctl.log) := by
  obtain ⟨a, b⟩ := C02_chunk_invariance Lane.Lex.world LexE c0 cfg cs₁ cs₂ C02_wf_gen lexCtl_textBlind ⟨h0, rfl⟩ h1 h2 hflat
    hc1 hc2 hcW
  refine ⟨a, fun hok => ?_⟩
  obtain ⟨b1, gW, b2, b3⟩ := b hok
  refine ⟨b1, ?_⟩
  have e1 := congrArg Ctl.log b2.2
  have e2 := congrArg Ctl.log b3.2
  simp only [eraseSeen] at e1 e2
  rw [e1, e2]

end lex

end LolHtml.Thm.C02
