import LolHtml.Lemmas.TbForeign2
import LolHtml.Lemmas.TbNames
import LolHtml.Thm.C03_Sim
/-!
# C03 (c) — foreign content: the simulator's namespace stack against the standard's adjusted current node

`Spec.Island` (package simthm) is the grammar of well-nested foreign content; `C03_foreign_grammar` shows
that lol-html's simulator is in the namespace `expected` by the grammar after every tag. Here the same is
proved of the *standard*: `Spec.TreeBuilder` run over the same derivation has, after every tag, an adjusted
current node whose start-tag namespace (`State.startTagNs`: HTML for HTML elements and integration points,
else the element's namespace) is `expected` — for the sub-grammar in which

* foreign elements carry any name the rules for foreign content push as it is (`PlainF`: not a breakout tag, not
  `font`, not `annotation-xml`, not an integration point name of the namespace — `g`, `path`, `a`, `script`,
  `style`, `textarea`, MathML `title`, … and every unknown name),
* HTML elements inside integration points carry a name "in body" treats by "any other start / end tag" whatever
  the state (`Name.isOrd`: unknown names, `span sub sup var ruby`, and the foreign names used as HTML names),
* stand-alone HTML start tags inside integration points are start tags "in body" disposes of without touching the
  stack (`voidLikeNames`: the void elements, the head-only elements, the start tags "in body" ignores, `html`, `body`),
* integration points are named `desc title foreignObject` (SVG), `mi mo mn ms mtext` or
  `annotation-xml` with an HTML `encoding` (MathML), islands are rooted at `svg` / `math`.

* the island is met in the insertion mode "in body" with nothing to reconstruct (`Base`) — *not* in a table mode:
  `C03_tb_table_tag_in_ip`.

Together: on that class simulator and standard agree tag by tag (`C03_tb_foreign_partial`). The four known
deviations (F2, F11, F12, F28), three found in round 1 (F33, F34, unclosed element) and two found in round 2
(`C03_tb_table_tag_in_ip`, `C03_tb_end_tag_walks_to_foreign_ancestor`) come out of the spec as concrete
disagreeing sequences.
-/
namespace LolHtml.Thm.C03
open LolHtml LolHtml.Model LolHtml.Spec.TreeBuilder LolHtml.Spec.Island

/-- the namespaces that govern the next start tag, after every token of a run of the standard's tree builder -/
def specNsTrace (c : Cfg) (s : State) (ts : List Token) : List Ns := (run c s ts).map (·.st.startTagNs)

theorem ssteps_trace {c : Cfg} {s s' : State} {l : List (Token × Ns)} (h : SSteps c s l s') :
    specNsTrace c s (l.map (·.1)) = l.map (·.2) ∧ (∀ o ∈ run c s (l.map (·.1)), o.sw = .none ∧ o.impossible = false) := by
  induction h with
  | nil s => simp [specNsTrace, run]
  | @cons s s2 t ns l h1 h2 h3 _ ih =>
    obtain ⟨i1, i2⟩ := ih
    refine ⟨?_, ?_⟩
    · simp only [specNsTrace, List.map_cons, run] at i1 ⊢
      rw [h3]; exact congrArg _ i1
    · intro o ho
      simp only [List.map_cons, run, List.mem_cons] at ho
      rcases ho with rfl | ho
      · exact ⟨h1, h2⟩
      · exact i2 o ho

/-- **(c), the standard's side.** For a derivation of the well-nested foreign-content grammar whose names
satisfy the name-level side conditions (`FSOk`), from any tree-builder state in "in body" with nothing to
reconstruct whose current node is an HTML element or an integration point: processing the island's tags
switches the tokenizer nowhere, leaves after every tag the namespace the grammar expects, and restores the
stack of open elements. -/
theorem C03_tb_foreign_spec (c : Cfg) (nm : Bytes → Name) (atr : Spec.Island.Attrs → Spec.TreeBuilder.Attrs) (i : Island)
    (hroot : nm i.name = rootName i.ns) (hok : FSOk nm atr i.ns i.children)
    (s : State) (hb : Base s) (ht : HTop s.tree.stack) :
    specNsTrace c s (i.flat.map (fun p => tokOf nm atr p.1)) = i.flat.map (·.2) ∧
    (∀ o ∈ run c s (i.flat.map (fun p => tokOf nm atr p.1)), o.sw = .none ∧ o.impossible = false) := by
  obtain ⟨s', h, -, -⟩ := hseq_ssteps c nm atr (.island i.ns i.name i.attrs i.children .nil) ⟨hroot, hok, trivial⟩ s hb ht
  have := ssteps_trace h
  simpa [HSeq.flat, Island.flat, List.map_map, Function.comp_def] using this

/-- **(c)** Simulator and standard agree on the grammar: for tag tables with `svg ≠ math`, an island that is
well-formed both at the hash level (`Island.Ok`, what the simulator sees) and at the name level (`FSOk`, what
the standard sees), the non-strict simulator in the HTML namespace and the tree builder in "in body" under an
HTML element or integration point: after every tag of the island the simulator's `current_ns` is the
namespace of the standard's adjusted current node for start-tag purposes. -/
theorem C03_tb_foreign_partial (cfg : TagCfg) (hsm : cfg.svg ≠ cfg.math) (c : Cfg)
    (nm : Bytes → Name) (atr : Spec.Island.Attrs → Spec.TreeBuilder.Attrs) (i : Island)
    (hok : i.Ok cfg) (hroot : nm i.name = rootName i.ns) (hsok : FSOk nm atr i.ns i.children)
    (sim : Sim) (hinv : Lemmas.Sim.Inv sim) (hns : sim.strict = false) (hhtml : sim.currentNs = .html)
    (s : State) (hb : Base s) (ht : HTop s.tree.stack) :
    nsTrace cfg sim (i.flat.map (·.1)) = specNsTrace c s (i.flat.map (fun p => tokOf nm atr p.1)) := by
  rw [(C03_foreign_grammar cfg hsm i hok sim hinv hns hhtml).2.1, (C03_tb_foreign_spec c nm atr i hroot hsok s hb ht).1]

/-! ### the deviations, as sequences on which model and spec disagree -/

/-- a tag event with explicit name bytes -/
def fev (name : Bytes) (n : Name) (isStart sc : Bool) (attrs : Spec.Island.Attrs := []) (a : Spec.TreeBuilder.Attrs := {}) : TbEv :=
  ⟨if isStart then .start n sc a else .end n, NameHash.ofBytes name, ⟨isStart, name, attrs, sc⟩⟩

/-- per tag: (simulator `current_ns`, simulator CDATA flag) and (standard's start-tag namespace, standard's
"CDATA section allowed") -/
def nsJoint (cfg : TagCfg) (c : Cfg) : Sim → Bool → State → List TbEv → List ((Ns × Bool) × (Ns × Bool))
  | _, _, _, [] => []
  | sim, cd, s, ev :: evs =>
    match sim.stepTag cfg ⟨ev.hash, ev.view⟩ with
    | .error _ => []
    | .ok (sim', fb) =>
      let cd' := match fb with | .setAllowCdata b => b | _ => cd
      let o := step c s ev.tok
      ((sim'.currentNs, cd'), (o.st.startTagNs, o.st.cdataAllowed)) :: nsJoint cfg c sim' cd' o.st evs

def bSvg : Bytes := [115, 118, 103]
def bMath : Bytes := [109, 97, 116, 104]
def bDesc : Bytes := [100, 101, 115, 99]
def bTitle : Bytes := [116, 105, 116, 108, 101]
def bMi : Bytes := [109, 105]
def bMglyph : Bytes := [109, 103, 108, 121, 112, 104]
def bFrameset : Bytes := [102, 114, 97, 109, 101, 115, 101, 116]
def bX : Bytes := [120]

/-- F2 — self-closing foreign root `<svg/>`: the simulator is in SVG, the standard in HTML. -/
theorem C03_tb_F2_selfclosing_root :
    nsJoint Gen.Tags.cfg cfgStd (Sim.new false) false State.init [fev bSvg .svg true true] =
      [((.svg, true), (.html, false))] := by decide +kernel

/-- F11 — `<svg><math><mi>`: the simulator switches namespace on the inner `math` and takes `mi` for an
integration point; for the standard both are SVG elements. -/
theorem C03_tb_F11_root_inside_foreign :
    (nsJoint Gen.Tags.cfg cfgStd (Sim.new false) false State.init
      [fev bSvg .svg true false, fev bMath .math true false, fev bMi .mi true false]).map (fun p => (p.1.1, p.2.1)) =
      [(.svg, .svg), (.mathml, .svg), (.html, .svg)] := by decide +kernel

/-- F12 — `<svg><desc><title></title>`: the simulator leaves the integration point at `</title>`; the
standard has closed an HTML `title` and is still inside `desc`. -/
theorem C03_tb_F12_ip_named_end_tag :
    (nsJoint Gen.Tags.cfg cfgStd (Sim.new false) false State.init
      [fev bSvg .svg true false, fev bDesc .desc true false, fev bTitle .title true false,
       fev bTitle .title false false]).map (fun p => (p.1.1, p.2.1)) =
      [(.svg, .svg), (.html, .html), (.html, .html), (.svg, .html)] := by decide +kernel

/-- F28 — `<svg><desc>` then `<![CDATA[`: same start-tag namespace, but the standard tests the adjusted current
node itself (`desc`, an SVG element: CDATA section) while the simulator says "not allowed". -/
theorem C03_tb_F28_cdata_in_ip :
    nsJoint Gen.Tags.cfg cfgStd (Sim.new false) false State.init [fev bSvg .svg true false, fev bDesc .desc true false] =
      [((.svg, true), (.svg, true)), ((.html, false), (.html, true))] := by decide +kernel

/-- **New** — `<math><mi><mglyph>`: in a MathML text integration point the start tags `mglyph` and
`malignmark` are *not* handed to the HTML rules (§13.2.6, tree construction dispatcher): the standard inserts a
MathML element and is in foreign content; the simulator is in HTML (a following `<textarea>` switches lol-html
to RCDATA while the standard goes on parsing markup). Well-nested, inside the claimed domain. -/
theorem C03_tb_mglyph_in_text_ip :
    (nsJoint Gen.Tags.cfg cfgStd (Sim.new false) false State.init
      [fev bMath .math true false, fev bMi .mi true false, fev bMglyph .mglyph true false]).map (fun p => (p.1.1, p.2.1)) =
      [(.mathml, .mathml), (.html, .html), (.html, .mathml)] := by decide +kernel

/-- **New** — `<svg><desc><frameset>`: with frameset-ok still "ok" the standard acts on `<frameset>` even inside
the integration point: it pops everything down to `html` and switches to "in frameset"; the simulator is still
inside the island (`</desc>` takes it to SVG, where `<noframes>` does not switch and CDATA is allowed). -/
theorem C03_tb_frameset_in_ip :
    (nsJoint Gen.Tags.cfg cfgStd (Sim.new false) false State.init
      [fev bSvg .svg true false, fev bDesc .desc true false, fev bFrameset .frameset true false,
       fev bDesc .desc false false]).map (fun p => (p.1.1, p.2.1)) =
      [(.svg, .svg), (.html, .html), (.html, .html), (.svg, .html)] := by decide +kernel

/-- **New (about the grammar)** — `<svg><desc><x></desc>`: a stand-alone start tag of a non-void element is in
`Spec.Island` (`HSeq.void` does not ask for a void element); the standard ignores `</desc>` (the open `x` is
not `desc`, and `desc` is special), the simulator leaves the integration point. -/
theorem C03_tb_unclosed_element_in_ip :
    (nsJoint Gen.Tags.cfg cfgStd (Sim.new false) false State.init
      [fev bSvg .svg true false, fev bDesc .desc true false, fev bX (.other 120) true false,
       fev bDesc .desc false false]).map (fun p => (p.1.1, p.2.1)) =
      [(.svg, .svg), (.html, .html), (.html, .html), (.svg, .html)] := by decide +kernel

def bTable : Bytes := [116, 97, 98, 108, 101]
def bTd : Bytes := [116, 100]
def bA : Bytes := [97]

/-- **New (round 2)** — `<table><svg><desc><td></td></desc>`: the island sits in a table insertion mode ("in table"
here; the same in "in table body" / "in row" / "in cell", e.g. `<td><svg><foreignObject><td>`). Inside the
integration point the `td` start tag is handed to the rules of the *insertion mode* (§13.2.6: the adjusted current
node is an HTML integration point and the token is a start tag), and "in table" clears the stack back to the
table: the island is gone. The simulator is still inside `desc` and, after `</desc>`, in SVG (where CDATA
sections are allowed and `textarea` does not switch): `…</desc><![CDATA[><img src onerror=alert(1)>]]>` is text
for lol-html and an `img` element for the standard. -/
theorem C03_tb_table_tag_in_ip :
    (nsJoint Gen.Tags.cfg cfgStd (Sim.new false) false State.init
      [fev bTable .table true false, fev bSvg .svg true false, fev bDesc .desc true false, fev bTd .td true false,
       fev bTd .td false false, fev bDesc .desc false false]).map (fun p => (p.1.1, p.2.1)) =
      [(.html, .html), (.svg, .svg), (.html, .html), (.html, .html), (.html, .html), (.svg, .html)] := by decide +kernel

/-- **New (round 2)** — `<svg><a><desc><a><a></a></a>`: the second HTML `a` start tag closes the first (adoption
agency), so the last `</a>` finds the integration point `desc` as current node; an end tag there is handled by
the rules for foreign content (§13.2.6.5 "any other end tag"), which walk down the stack to the SVG `a` and pop
it together with `desc`. The simulator does not know element nesting and stays in the integration point: a
following `<textarea>` switches lol-html to RCDATA while the standard goes on parsing markup. The same with any
implicitly closed element and a like-named foreign ancestor (`<svg><x><desc><p><x><hr></x>`). -/
theorem C03_tb_end_tag_walks_to_foreign_ancestor :
    (nsJoint Gen.Tags.cfg cfgStd (Sim.new false) false State.init
      [fev bSvg .svg true false, fev bA .a true false, fev bDesc .desc true false, fev bA .a true false,
       fev bA .a true false, fev bA .a false false, fev bA .a false false]).map (fun p => (p.1.1, p.2.1)) =
      [(.svg, .svg), (.svg, .svg), (.html, .html), (.html, .html), (.html, .html), (.html, .html), (.html, .svg)] := by
  decide +kernel

/-- (c) for the whole `Spec.Island` grammar: false — the `mglyph` island is well-formed in the sense of
`Island.Ok` and simulator and standard disagree on it. -/
def C03_tb_foreign_statement : Prop :=
  ∀ (cfg : TagCfg) (nm : Bytes → Name) (atr : Spec.Island.Attrs → Spec.TreeBuilder.Attrs) (i : Island), cfg.svg ≠ cfg.math → i.Ok cfg →
    ∀ (sim : Sim) (s : State), Lemmas.Sim.Inv sim → sim.strict = false → sim.currentNs = .html → Base s → HTop s.tree.stack →
      nsTrace cfg sim (i.flat.map (·.1)) = specNsTrace cfgStd s (i.flat.map (fun p => tokOf nm atr p.1))

/-- `<math><mi><mglyph></mglyph></mi></math>` -/
def mglyphIsland : Island :=
  { ns := .mathml, name := bMath, attrs := [], children := .ip bMi [] (.elem bMglyph [] .nil .nil) .nil }

theorem mglyphIsland_ok : mglyphIsland.Ok Gen.Tags.cfg := by
  simp only [mglyphIsland, Island.Ok, FSeq.Ok, HSeq.Ok, Spec.Island.IsIP, Spec.Island.HtmlStart, Spec.Island.HtmlEnd]
  repeat' apply And.intro
  all_goals decide +kernel

/-- the tree builder after `<body>`: "in body", stack `html body` -/
def afterBodyTag : State := ((run cfgStd State.init [.start .body false {}]).getLast?.map (·.st)).getD State.init

theorem C03_tb_foreign_statement_false : ¬ C03_tb_foreign_statement := by
  intro h
  have := h Gen.Tags.cfg Name.ofBytes (fun _ => {}) mglyphIsland C03_svg_ne_math_gen mglyphIsland_ok (Sim.new false)
    afterBodyTag (Lemmas.Sim.inv_new false) rfl rfl ⟨by decide +kernel, by decide +kernel⟩
    ⟨⟨0 + 1 + 1, .html, .body, {}⟩, ⟨0, .html, .html, {}⟩, [], by decide +kernel, Or.inl rfl⟩
  revert this
  decide +kernel

/-- non-vacuity of the round-2 widening: enumerated names as foreign elements and inside the integration point:
`<svg><a><script></script></a><desc><span><meta><td></span></desc></svg>` after `<body>` -/
example :
    let i : Island := ⟨.svg, bSvg, [],
      .elem bA [] (.elem [115, 99, 114, 105, 112, 116] [] .nil .nil) <|
      .ip bDesc [] (.elem [115, 112, 97, 110] [] (.void [109, 101, 116, 97] [] false (.void bTd [] false .nil)) .nil) .nil⟩
    FSOk Name.ofBytes (fun _ => {}) .svg i.children ∧
    specNsTrace cfgStd afterBodyTag (i.flat.map (fun p => tokOf Name.ofBytes (fun _ => {}) p.1)) = i.flat.map (·.2) ∧
    nsTrace Gen.Tags.cfg (Sim.new false) (i.flat.map (·.1)) = i.flat.map (·.2) := by
  refine ⟨?_, ?_, ?_⟩
  · simp only [FSOk, HSOk]
    repeat' apply And.intro
    all_goals first
      | trivial
      | decide +kernel
      | exact Or.inl ⟨rfl, by decide +kernel⟩
  · decide +kernel
  · decide +kernel

/-- non-vacuity of `C03_tb_foreign_partial`: `<svg><g><circle/></g><desc><x></x><br></desc></svg>` after `<body>` -/
example :
    let i : Island := ⟨.svg, bSvg, [],
      .elem [103] [] (.selfClosing [99, 105, 114, 99, 108, 101] [] .nil) <|
      .ip bDesc [] (.elem bX [] .nil (.void [98, 114] [] false .nil)) .nil⟩
    specNsTrace cfgStd afterBodyTag (i.flat.map (fun p => tokOf Name.ofBytes (fun _ => {}) p.1)) = i.flat.map (·.2) ∧
    nsTrace Gen.Tags.cfg (Sim.new false) (i.flat.map (·.1)) = i.flat.map (·.2) ∧
    i.flat.map (·.2) = [.svg, .svg, .svg, .svg, .html, .html, .html, .html, .svg, .html] := by
  decide +kernel

end LolHtml.Thm.C03
