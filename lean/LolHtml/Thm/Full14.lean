/-
# Package `full`, part 14 — the post-hint protocol states: closing the named hypotheses of `Full_scan_opsX_partial`
-/
import LolHtml.Thm.Full12

namespace LolHtml.Thm.Full
open LolHtml LolHtml.Model LolHtml.Model.Full LolHtml.Model.Handlers LolHtml.EditModel LolHtml.Lemmas.Full
open LolHtml.Model.RelI LolHtml.Model.Hint

/-! ## generic: what `handle_non_tag_content` leaves alone -/

/-- the dispatcher fields the protocol states look at, and the ghost -/
def SameG {γ : Type} (d d' : Disp (γ × Option Bool)) : Prop :=
  d'.pendingAux = d.pendingAux ∧ d'.gotFlagsFromHint = d.gotFlagsFromHint ∧ d'.flags = d.flags ∧ d'.ctl.2 = d.ctl.2

theorem SameG.rfl' {γ : Type} (d : Disp (γ × Option Bool)) : SameG d d := ⟨rfl, rfl, rfl, rfl⟩
theorem SameG.trans {γ : Type} {a b c : Disp (γ × Option Bool)} (h1 : SameG a b) (h2 : SameG b c) : SameG a c :=
  ⟨h2.1.trans h1.1, h2.2.1.trans h1.2.1, h2.2.2.1.trans h1.2.2.1, h2.2.2.2.trans h1.2.2.2⟩

theorem bind_sameG {γ α β : Type} {d : Disp (γ × Option Bool)} {r : DRes (γ × Option Bool) α}
    {f : Disp (γ × Option Bool) → α → DRes (γ × Option Bool) β}
    (hr : SameG d r.1) (hf : ∀ d1 a, SameG d1 (f d1 a).1) : SameG d (DRes.bind r f).1 := by
  unfold DRes.bind
  split
  · exact hr
  · exact hr.trans (hf _ _)

section
variable {γ : Type} {c : Controller γ} {inp : Bytes}

theorem tokenProduced_sameG (d : Disp (γ × Option Bool)) (t : Model.Token) : SameG d (Disp.tokenProduced (hintCtl c) d t).1 := by
  unfold Disp.tokenProduced Disp.pushChunks Disp.noteNextEncoding
  dsimp only
  (repeat' split) <;> exact ⟨rfl, rfl, rfl, rfl⟩

theorem flushPendingText_sameG (d : Disp (γ × Option Bool)) : SameG d (d.flushPendingText (hintCtl c)).1 := by
  unfold Disp.flushPendingText
  split
  · exact tokenProduced_sameG (c := c) { d with textPending := false } _
  · exact SameG.rfl' d

theorem ofExcept_emitChunkBefore_sameG (d : Disp (γ × Option Bool)) (raw : Range) :
    SameG d (DRes.ofExcept d (d.emitChunkBefore inp raw)).1 := by
  unfold Disp.emitChunkBefore DRes.ofExcept
  split
  · exact SameG.rfl' d
  · rename_i d' h'
    split at h'
    · cases h'
    · simp only [Except.ok.injEq] at h'
      subst h'
      split <;> exact ⟨rfl, rfl, rfl, rfl⟩

theorem flushEncodingChange_sameG (d : Disp (γ × Option Bool)) : SameG d d.flushEncodingChange := by
  unfold Disp.flushEncodingChange
  (repeat' split) <;> exact ⟨rfl, rfl, rfl, rfl⟩

theorem emitToken_sameG (d : Disp (γ × Option Bool)) (raw : Range) (tok : Model.Token) :
    SameG d (d.emitToken (hintCtl c) inp raw tok).1 := by
  unfold Disp.emitToken
  refine bind_sameG (ofExcept_emitChunkBefore_sameG d raw) (fun d1 _ => ?_)
  refine bind_sameG (tokenProduced_sameG (c := c) d1 tok) (fun d2 _ => ?_)
  exact flushEncodingChange_sameG ({ d2 with rcs := raw.end })

/-- **`handle_non_tag_content` changes neither the capture flags, nor the two hint flags, nor the ghost** -/
theorem handleNonTag_sameG (d : Disp (γ × Option Bool)) (lx : NonTagLexeme) :
    SameG d (Disp.handleNonTag (hintCtl c) inp lx d).1 := by
  unfold Disp.handleNonTag
  refine bind_sameG ?_ (fun d1 _ => ?_)
  · split
    · exact SameG.rfl' d
    · exact flushPendingText_sameG d
  · unfold Disp.produceNonTag
    split
    · split
      · unfold Disp.produceText
        split
        · exact SameG.rfl' d1
        · refine bind_sameG (ofExcept_emitChunkBefore_sameG d1 lx.raw) (fun d2 _ => ?_)
          refine bind_sameG (tokenProduced_sameG (c := c) { d2 with lastTextType := _ } _) (fun d3 _ => ?_)
          exact ⟨rfl, rfl, rfl, rfl⟩
      · exact SameG.rfl' d1
    · split
      · exact SameG.rfl' d1
      · exact SameG.rfl' d1
      · exact emitToken_sameG d1 lx.raw _

end

/-! ## text / comment / doctype tokens at a fault-free controller state -/

theorem runClosures_pending_inv {τ ω : Type} (scripts : HId → Scripts ω) (kind : Nat) (hk : kind ≠ kElement) (who : HId → Who)
    (see : τ → Seen) (apply : τ → List ω → τ) (src : Range) (hs : List HId) (s : St) (u : τ) :
    (runClosures scripts kind who see apply src hs s u).1.pending = s.pending ∧
    ∀ h, invGet (runClosures scripts kind who see apply src hs s u).1.inv (kElement, h) = invGet s.inv (kElement, h) := by
  induction hs generalizing s u with
  | nil => exact ⟨rfl, fun _ => rfl⟩
  | cons h0 hs ih =>
    simp only [runClosures]
    have hb : ∀ h, invGet (invBump s.inv (kind, h0)) (kElement, h) = invGet s.inv (kElement, h) := fun h =>
      invGet_bump_ne _ _ _ (by intro e; exact hk (congrArg Prod.fst e).symm)
    split
    · exact ⟨rfl, hb⟩
    · obtain ⟨a, b⟩ := ih { s with inv := invBump s.inv (kind, h0), log := ⟨who h0, src, see u⟩ :: s.log }
        (apply u (cyc (scripts h0) (invGet s.inv (kind, h0))).1)
      exact ⟨a, fun h => (b h).trans (hb h)⟩

/-- a text / comment / doctype token changes the controller state only up to `EqT` -/
theorem tokOther_eqT (cfg : Cfg) (s : St) (tok : Model.Token) (hk : (CtlEv.other tok).WellKinded) (hf : s.fault = none) :
    EqT s (token cfg s tok).1 := by
  obtain ⟨a, b, c, d, e⟩ := tokOther_frame cfg s tok hk hf
  have hp := tokOther_payloads cfg s tok hk hf
  refine ⟨a, b, c, ?_, hp, d, e, ?_⟩ <;>
  · unfold token
    simp only [hf]
    cases tok with
    | startTag => simp [CtlEv.WellKinded] at hk
    | endTag => simp [CtlEv.WellKinded] at hk
    | comment text raw src => first | exact (runClosures_pending_inv _ _ (by decide) _ _ _ _ _ _ _).1 | exact (runClosures_pending_inv _ _ (by decide) _ _ _ _ _ _ _).2
    | doctype name publicId systemId fq raw src => first | exact (runClosures_pending_inv _ _ (by decide) _ _ _ _ _ _ _).1 | exact (runClosures_pending_inv _ _ (by decide) _ _ _ _ _ _ _).2
    | text bytes tt last src => first | exact (runClosures_pending_inv _ _ (by decide) _ _ _ _ _ _ _).1 | exact (runClosures_pending_inv _ _ (by decide) _ _ _ _ _ _ _).2

/-- … and fails only with the handler error -/
theorem tokOther_err (cfg : Cfg) (s : St) (tok : Model.Token) (hk : (CtlEv.other tok).WellKinded) (hf : s.fault = none)
    (e : Err) (he : (token cfg s tok).2.err = some e) : e = .handler := by
  unfold token at he
  simp only [hf] at he
  cases tok with
  | startTag => simp [CtlEv.WellKinded] at hk
  | endTag => simp [CtlEv.WellKinded] at hk
  | comment text raw src =>
    simp only [tokComment, outOf] at he
    split at he
    · simp only [Option.some.injEq] at he; exact he.symm
    · simp at he
  | doctype name publicId systemId fq raw src =>
    simp only [tokDoctype, outOf] at he
    split at he
    · simp only [Option.some.injEq] at he; exact he.symm
    · simp at he
  | text bytes tt last src =>
    simp only [tokText, outOf] at he
    split at he
    · simp only [Option.some.injEq] at he; exact he.symm
    · simp at he

/-- the `other` clause of an event invariant for "same state as `m` up to `EqT`" -/
theorem eqT_other (cfg : Cfg) (m : St) (hm : m.fault = none) (s : St) (tok : Model.Token) (b : Bool) (hs : EqT m s)
    (hk : (CtlEv.other tok).WellKinded) :
    ((tokIf cfg b s tok).2 = none → EqT m (tokIf cfg b s tok).1) ∧ (∀ e, (tokIf cfg b s tok).2 = some e → e = .handler) := by
  have hf : s.fault = none := by rw [hs.fault]; exact hm
  unfold tokIf
  split
  · exact ⟨fun _ => hs.trans (tokOther_eqT cfg s tok hk hf), fun e he => tokOther_err cfg s tok hk hf e he⟩
  · exact ⟨fun _ => hs, fun e he => by cases he⟩

/-- `handleNonTag_lexer_other` without the `Idle` bookkeeping -/
theorem handleNonTag_I (cfg : Cfg) (I : St → Prop)
    (hO : ∀ s tok b, I s → (CtlEv.other tok).WellKinded →
      ((tokIf cfg b s tok).2 = none → I (tokIf cfg b s tok).1) ∧ (∀ e, (tokIf cfg b s tok).2 = some e → e = .handler))
    (d : Disp (FullSt cfg)) (hJ : I d.ctl.1) (input : Bytes) (lx : NonTagLexeme) :
    (∀ a, (Disp.handleNonTag (fullCtl cfg) input lx d).2 = .ok a → I (Disp.handleNonTag (fullCtl cfg) input lx d).1.ctl.1) ∧
    (∀ e, (Disp.handleNonTag (fullCtl cfg) input lx d).2 = .error e → HO e) := by
  unfold Disp.handleNonTag
  have hflush : (∃ e, (if lx.isText then ((d, .ok ()) : DRes (FullSt cfg) Unit) else d.flushPendingText (fullCtl cfg)).2 = .error e ∧
        e = .handler) ∨
      ((if lx.isText then ((d, .ok ()) : DRes (FullSt cfg) Unit) else d.flushPendingText (fullCtl cfg)).2 = .ok () ∧
        I (if lx.isText then ((d, .ok ()) : DRes (FullSt cfg) Unit) else d.flushPendingText (fullCtl cfg)).1.ctl.1) := by
    split
    · exact Or.inr ⟨rfl, hJ⟩
    · obtain ⟨tokF, ⟨tt, p, htokF⟩, f1, _, f3, f4⟩ := flushPendingText_full d
      have hkF : (CtlEv.other tokF).WellKinded := by rw [htokF]; trivial
      obtain ⟨o1, o2⟩ := hO d.ctl.1 tokF d.textPending hJ hkF
      cases h0 : (tokIf cfg d.textPending d.ctl.1 tokF).2 with
      | some e => rw [h0] at f4; exact Or.inl ⟨e, f4, o2 e h0⟩
      | none => rw [h0] at f4; exact Or.inr ⟨f4, by rw [f1]; exact o1 h0⟩
  rcases hflush with ⟨e, he, hh⟩ | ⟨hok, hJ1⟩
  · rw [DRes.bind_err _ _ e he]
    refine ⟨fun a ha => (by cases ha), fun e' he' => ?_⟩
    simp only [Except.error.injEq] at he'
    rw [← he', hh]; exact Or.inl rfl
  · rw [DRes.bind_ok _ _ () hok]
    generalize (if lx.isText then ((d, .ok ()) : DRes (FullSt cfg) Unit) else d.flushPendingText (fullCtl cfg)).1 = d1 at hJ1 ⊢
    rcases produceNonTag_full d1 input lx with ⟨q1, q2, q3⟩ | ⟨e, he, hq⟩ | ⟨tok, hk, q1, q2, q3⟩
    · exact ⟨fun _ _ => by rw [q2]; exact hJ1, fun e he => by rw [q1] at he; cases he⟩
    · refine ⟨fun a ha => (by rw [hq] at ha; cases ha), fun e' he' => ?_⟩
      rw [hq] at he'
      simp only [Except.error.injEq] at he'
      rw [← he']
      exact Or.inr he
    · obtain ⟨o1, o2⟩ := hO d1.ctl.1 tok true hJ1 hk
      have hto : tokIf cfg true d1.ctl.1 tok = ((token cfg d1.ctl.1 tok).1, (token cfg d1.ctl.1 tok).2.err) := by
        simp [tokIf]
      cases hte : (token cfg d1.ctl.1 tok).2.err with
      | some e =>
        rw [hte] at q3
        refine ⟨fun a ha => (by rw [q3] at ha; cases ha), fun e' he' => ?_⟩
        rw [q3] at he'
        simp only [Except.error.injEq] at he'
        rw [← he']
        exact Or.inl (o2 e (by rw [hto, hte]))
      | none =>
        rw [hte] at q3
        refine ⟨fun _ _ => ?_, fun e he => by rw [q3] at he; cases he⟩
        rw [q1]
        have := o1 (by rw [hto, hte])
        rw [hto] at this
        exact this

/-- rebuild a post-hint protocol state after an operation that kept the dispatcher's hint fields, flags and ghost and
moved the controller state only up to `EqT` -/
theorem invX_eqT {cfg : Cfg} {d d' : Disp (FullStH cfg)} (h : InvX cfg d) (hb : (d.gotFlagsFromHint || d.pendingAux) = true)
    (hs : SameG d d') (he : EqT d.ctl.1.1 d'.ctl.1.1) : InvX cfg d' := by
  obtain ⟨s1, s2, s3, s4⟩ := hs
  cases h with
  | idle hp hg hJ => rw [hp, hg] at hb; cases hb
  | startLex s ln ns f hJ ha hc hf hg hp hk =>
    exact .startLex s ln ns f hJ ha (hc.trans he) (by rw [s3, hf]) (by rw [s2, hg]) (by rw [s1, hp]) (by rw [s4, hk])
  | auxPend s ln ns hJ ha hc hg hp => exact .auxPend s ln ns hJ ha (hc.trans he) (by rw [s2, hg]) (by rw [s1, hp])
  | endLex s ln hJ hc hg hp hk => exact .endLex s ln hJ (hc.trans he) (by rw [s2, hg]) (by rw [s1, hp]) (by rw [s4, hk])

/-- **(`handle_non_tag_content`, `startLex` / `auxPend` / `endLex`)**: neutral -/
theorem U_postHint_nonTag (cfg : Cfg) : X_postHint_nonTag cfg := by
  intro inp lx d hI hb _ _
  have hh := Hom.hom_handleNonTag (hintCtl_hom (fullCtl cfg)) inp lx d
  have hsg : SameG d (Disp.handleNonTag (fullCtlH cfg) inp lx d).1 := handleNonTag_sameG (c := fullCtl cfg) d lx
  have hpost := handleNonTag_I cfg (EqT d.ctl.1.1) (fun s tok b hs hk => eqT_other cfg d.ctl.1.1 (invX_fault hI) s tok b hs hk)
    (Hom.mapD Prod.fst d) (EqT.refl _) inp lx
  rw [← hh] at hpost
  exact ⟨fun a ha => invX_eqT hI hb hsg (hpost.1 a ha), hpost.2⟩

/-! ## the end-tag token up to `EqT` -/

theorem EqT.symm {a b : St} (h : EqT a b) : EqT b a :=
  ⟨h.disp.symm, h.vm.symm, h.descs.symm, h.pending.symm, h.payloads.symm, h.ord.symm, h.fault.symm, fun x => (h.inv x).symm⟩

theorem runEndTagUser_eqT (src : Range) (subs : List (HId × Nat)) (user : List (List EndTagOp)) (s : St) (t : EndTag) :
    EqT s (runEndTagUser src subs user s t).1 := by
  induction user generalizing subs s t with
  | nil => cases subs <;> exact EqT.refl s
  | cons ops user ih =>
    cases subs with
    | nil => simp only [runEndTagUser]; exact ih _ _ _
    | cons sub subs =>
      simp only [runEndTagUser]
      exact (show EqT s { s with log := ⟨.endTag sub.1 sub.2, src, seeEndTag t⟩ :: s.log } from
        ⟨rfl, rfl, rfl, rfl, rfl, rfl, rfl, fun _ => rfl⟩).trans (ih subs _ _)

theorem runEndTagHandler_eqT (src : Range) (subs : List (HId × Nat)) (h : EndTagHandler) (s : St) (t : EndTag) :
    EqT s (runEndTagHandler src subs h s t).1 := by
  unfold runEndTagHandler
  exact runEndTagUser_eqT _ _ _ _ _

theorem runEndTagHandlers_congr (src : Range) (hs : List EndTagH) (s1 s2 : St) (t : EndTag) (h : EqT s1 s2) :
    (runEndTagHandlers src hs s1 t = none ∧ runEndTagHandlers src hs s2 t = none) ∨
    ∃ r1 r2, runEndTagHandlers src hs s1 t = some r1 ∧ runEndTagHandlers src hs s2 t = some r2 ∧ EqT r1.1 r2.1 ∧ r1.2 = r2.2 := by
  induction hs generalizing s1 s2 t with
  | nil => exact Or.inr ⟨(s1, t), (s2, t), rfl, rfl, h, rfl⟩
  | cons hd hs ih =>
    simp only [runEndTagHandlers]
    rw [h.payloads]
    cases s1.payloads.find? (fun p => p.ord == hd.ord) with
    | none => exact Or.inl ⟨rfl, rfl⟩
    | some p =>
      dsimp only
      have e1 := runEndTagHandler_eqT src hd.subs p.handler s1 t
      have e2 := runEndTagHandler_eqT src hd.subs p.handler s2 t
      have et : (runEndTagHandler src hd.subs p.handler s2 t).2 = (runEndTagHandler src hd.subs p.handler s1 t).2 := by
        rw [Full_endTagHandler_faithful, Full_endTagHandler_faithful]
      rw [et]
      exact ih _ _ _ (e1.symm.trans (h.trans e2))

/-- **`tokEndTag` respects `EqT`** -/
theorem tokEndTag_congr (s1 s2 : St) (h : EqT s1 s2) (name raw : Bytes) (src : Range) :
    (tokEndTag s2 name raw src).2.err = (tokEndTag s1 name raw src).2.err ∧
    EqT (tokEndTag s1 name raw src).1 (tokEndTag s2 name raw src).1 := by
  unfold tokEndTag
  rw [h.disp]
  cases s1.disp.endTag.doForEachActiveAndRemoveTail with
  | error p => exact ⟨rfl, h⟩
  | ok r =>
    obtain ⟨et, hs⟩ := r
    dsimp only
    have h' : EqT { s1 with disp := { s1.disp with endTag := et } } { s2 with disp := { s1.disp with endTag := et } } :=
      ⟨rfl, h.vm, h.descs, h.pending, h.payloads, h.ord, h.fault, h.inv⟩
    rcases runEndTagHandlers_congr src hs _ _ ({ name := name, raw := raw } : EndTag) h' with ⟨a, b⟩ | ⟨r1, r2, a, b, c, d⟩
    · rw [a, b]; exact ⟨rfl, h'⟩
    · rw [a, b]
      dsimp only
      refine ⟨rfl, ⟨c.disp, c.vm, c.descs, c.pending, ?_, c.ord, c.fault, c.inv⟩⟩
      show r2.1.payloads.filter _ = r1.1.payloads.filter _
      rw [c.payloads]

/-- the flag `NEXT_END_TAG` of `handle_end_tag` is "the end-tag handler vector has an active entry" -/
theorem endTag_flag_active (s : St) (ln : LocalName) :
    (endTag s ln).2.nextEndTag = (endTag s ln).1.disp.endTag.hasActive := by
  rw [(Full_flags_returned s).2.2 ln]
  rfl

/-- `tokEndTag` with no active end-tag handler changes nothing but the log -/
theorem tokEndTag_inactive (s : St) (hw : VecWf s.disp.endTag) (hna : s.disp.endTag.hasActive = false)
    (name raw : Bytes) (src : Range) :
    (tokEndTag s name raw src).2.err = none ∧ EqT s (tokEndTag s name raw src).1 := by
  have huc : s.disp.endTag.userCount = 0 := by
    unfold HandlerVec.hasActive at hna
    simpa using hna
  have hnone : s.disp.endTag.items.findIdx? (fun it => decide (0 < it.userCount)) = none := by
    rw [List.findIdx?_eq_none_iff]
    intro it hit
    have hs : (s.disp.endTag.items.map (·.userCount)).sum = 0 := by rw [← hw]; exact huc
    have := LolHtml.Lemmas.Scope.all_zero_of_sum_zero _ hs it.userCount (List.mem_map.2 ⟨it, hit, rfl⟩)
    simp [this]
  have hrt : s.disp.endTag.doForEachActiveAndRemoveTail = .ok (s.disp.endTag, []) := by
    unfold HandlerVec.doForEachActiveAndRemoveTail
    rw [hnone]
    simp only [huc, if_true]
  unfold tokEndTag
  rw [hrt]
  dsimp only [runEndTagHandlers]
  refine ⟨rfl, ⟨rfl, rfl, rfl, rfl, ?_, rfl, rfl, fun _ => rfl⟩⟩
  show s.payloads.filter _ = s.payloads
  simp

/-! ## `handle_tag` from `endLex` -/

/-- the state `handle_end_tag` leaves is a `J2` state if it did not ask for the token -/
theorem endTag_J2_of_inactive (cfg : Cfg) (s : St) (hJ : J2 cfg s) (ln : LocalName)
    (hna : (endTag s ln).1.disp.endTag.hasActive = false) : J2 cfg (endTag s ln).1 := by
  have hne : (endTag s ln).2.nextEndTag = false := by rw [endTag_flag_active]; exact hna
  obtain ⟨c1, _⟩ := (J2_evInv cfg).end_ s ln [] [] ⟨0, 0⟩ hJ
  have hce : ctlStep cfg s (.end_ ln (.endTag [] [] ⟨0, 0⟩)) = ((endTag s ln).1, none) := by
    simp only [ctlStep, tokIf, hne, Bool.false_eq_true, if_false]
  have := c1 (by rw [hce])
  rw [hce] at this
  exact this

/-- post-condition of `handle_tag` over the real controller: idle again with `J2`, or a handler / `DispOwn` error -/
def PostT {cfg : Cfg} (r : DRes (FullSt cfg) Directive) : Prop :=
  (∀ a, r.2 = .ok a → Idle r.1 ∧ J2 cfg r.1.ctl.1) ∧ (∀ e, r.2 = .error e → HO e)

theorem postT_err {cfg : Cfg} (d : Disp (FullSt cfg)) (e : Err) (h : HO e) : PostT ((d, .error e) : DRes (FullSt cfg) Directive) := by
  refine ⟨fun a ha => ?_, fun e' he' => ?_⟩
  · cases ha
  · simp only [Except.error.injEq] at he'
    rw [← he']; exact h

/-- **(`handle_tag`, `endLex`)**, without the ghost: the closing chunk of an open text node, then the second half of the
end-tag event — the token iff the dispatcher's flags ask for it (they do if the controller's do) -/
theorem tag_endLex (cfg : Cfg) (d : Disp (FullSt cfg)) (s : St) (ln : LocalName) (hJ : J2 cfg s)
    (hc : EqT (endTag s ln).1 d.ctl.1) (hg : d.gotFlagsFromHint = true) (hp : d.pendingAux = false)
    (hfl : (endTag s ln).1.disp.endTag.hasActive = true → d.flags.nextEndTag = true)
    (input : Bytes) (lx : TagLexeme) (name : Range) (h : Nat) (ho : lx.outline = .endTag name h) :
    PostT (Disp.handleTag (fullCtl cfg) input lx d) := by
  have hmf : (endTag s ln).1.fault = none := endTag_fault_none cfg s hJ ln
  unfold Disp.handleTag
  obtain ⟨tokF, ⟨tt, p, htokF⟩, f1, f2, f3, f4⟩ := flushPendingText_full d
  have hkF : (CtlEv.other tokF).WellKinded := by rw [htokF]; trivial
  obtain ⟨o1, o2⟩ := eqT_other cfg (endTag s ln).1 hmf d.ctl.1 tokF d.textPending hc hkF
  cases h0 : (tokIf cfg d.textPending d.ctl.1 tokF).2 with
  | some e =>
    rw [h0] at f4
    rw [DRes.bind_err _ _ e f4]
    exact postT_err _ e (Or.inl (o2 e h0))
  | none =>
    rw [h0] at f4
    rw [DRes.bind_ok _ _ () f4]
    have hc1 : EqT (endTag s ln).1 (d.flushPendingText (fullCtl cfg)).1.ctl.1 := by rw [f1]; exact o1 h0
    have hg1 : (d.flushPendingText (fullCtl cfg)).1.gotFlagsFromHint = true := by rw [f3.gf]; exact hg
    have hp1 : (d.flushPendingText (fullCtl cfg)).1.pendingAux = false := by rw [f3.pa]; exact hp
    have hfl1 : (endTag s ln).1.disp.endTag.hasActive = true → (d.flushPendingText (fullCtl cfg)).1.flags.nextEndTag = true := by
      rw [f2]; exact hfl
    generalize (d.flushPendingText (fullCtl cfg)).1 = d1 at hc1 hg1 hp1 hfl1 ⊢
    rw [if_pos hg1]
    rw [DRes.bind_ok _ _ () rfl]
    dsimp only
    obtain ⟨r1, r2, r3⟩ := resumeEmission_same ({ d1 with gotFlagsFromHint := false } : Disp (FullSt cfg)) lx
    have hc3 : EqT (endTag s ln).1 (Disp.resumeEmission (fullCtl cfg) { d1 with gotFlagsFromHint := false } lx).ctl.1 := by
      rw [r1]; exact hc1
    have hi3 : Idle (Disp.resumeEmission (fullCtl cfg) { d1 with gotFlagsFromHint := false } lx) :=
      ⟨by rw [r3.pa]; exact hp1, by rw [r3.gf]⟩
    have hfl3 : (endTag s ln).1.disp.endTag.hasActive = true →
        (Disp.resumeEmission (fullCtl cfg) { d1 with gotFlagsFromHint := false } lx).flags.nextEndTag = true := by
      rw [r2]; exact hfl1
    generalize Disp.resumeEmission (fullCtl cfg) { d1 with gotFlagsFromHint := false } lx = d3 at hc3 hi3 hfl3 ⊢
    obtain ⟨p1, p2⟩ := produceTag_end_full d3 input lx name h ho
    cases hb1 : d3.flags.nextEndTag with
    | false =>
      obtain ⟨q1, q2, q3⟩ := p1 hb1
      rw [DRes.bind_ok _ _ () q1]
      have hna : (endTag s ln).1.disp.endTag.hasActive = false := by
        cases hact : (endTag s ln).1.disp.endTag.hasActive with
        | false => rfl
        | true => rw [hfl3 hact] at hb1; cases hb1
      have hJ3 : J2 cfg (d3.produceTag (fullCtl cfg) input lx).1.ctl.1 := by
        rw [q2]
        exact J2_congr hc3 (endTag_J2_of_inactive cfg s hJ ln hna)
      exact ⟨fun _ _ => ⟨q3.idle hi3, hJ3⟩, fun e he => by cases he⟩
    | true =>
      rcases p2 hb1 with ⟨e, he, hq⟩ | ⟨n, raw, q1, q2, q3⟩
      · rw [DRes.bind_err _ _ e hq]
        exact postT_err _ e (Or.inr he)
      · have hf3 : d3.ctl.1.fault = none := by rw [hc3.fault]; exact hmf
        have htok : ∀ m : St, m.fault = none → token cfg m (.endTag n raw (srcOf lx.prevConsumed lx.raw)) =
            tokEndTag m n raw (srcOf lx.prevConsumed lx.raw) := by
          intro m hm; unfold token; simp only [hm]
        rw [htok _ hf3] at q1 q3
        obtain ⟨ce, cs⟩ := tokEndTag_congr (endTag s ln).1 d3.ctl.1 hc3 n raw (srcOf lx.prevConsumed lx.raw)
        -- the token at the hint's state
        have hbase : (tokEndTag (endTag s ln).1 n raw (srcOf lx.prevConsumed lx.raw)).2.err = none ∧
            J2 cfg (tokEndTag (endTag s ln).1 n raw (srcOf lx.prevConsumed lx.raw)).1 := by
          cases hact : (endTag s ln).1.disp.endTag.hasActive with
          | false =>
            obtain ⟨a, b⟩ := tokEndTag_inactive (endTag s ln).1
              (endTag_good (cfg := cfg) hJ.1.valid.toGood ln).wf.endTag hact n raw (srcOf lx.prevConsumed lx.raw)
            exact ⟨a, J2_congr b (endTag_J2_of_inactive cfg s hJ ln hact)⟩
          | true =>
            have hne : (endTag s ln).2.nextEndTag = true := by rw [endTag_flag_active]; exact hact
            obtain ⟨c1, c2⟩ := (J2_evInv cfg).end_ s ln n raw (srcOf lx.prevConsumed lx.raw) hJ
            have hce : ctlStep cfg s (.end_ ln (.endTag n raw (srcOf lx.prevConsumed lx.raw))) =
                ((tokEndTag (endTag s ln).1 n raw (srcOf lx.prevConsumed lx.raw)).1,
                 (tokEndTag (endTag s ln).1 n raw (srcOf lx.prevConsumed lx.raw)).2.err) := by
              simp only [ctlStep, tokIf, hne, if_true, htok _ hmf]
            cases hte : (tokEndTag (endTag s ln).1 n raw (srcOf lx.prevConsumed lx.raw)).2.err with
            | some e => exact (c2 e (by rw [hce, hte])).elim
            | none =>
              have := c1 (by rw [hce, hte])
              rw [hce] at this
              exact ⟨rfl, this⟩
        rw [ce, hbase.1] at q3
        rw [DRes.bind_ok _ _ () q3]
        have hJ4 : J2 cfg (d3.produceTag (fullCtl cfg) input lx).1.ctl.1 := by
          rw [q1]; exact J2_congr cs hbase.2
        exact ⟨fun _ _ => ⟨q2.idle hi3, hJ4⟩, fun e he => by cases he⟩

/-! ## the invariant has to know the flags of `endLex`

FINDING: `InvX` (Thm/Full12.lean) is not inductive. Its `endLex` case does not relate the dispatcher's capture flags to the
controller's answer; from an `endLex` state whose flags lack `NEXT_END_TAG` although the controller asked for the token,
`handle_tag` succeeds without delivering it and ends in a state that is not `J2` — so `Full_scan_opsX_statement InvX` is
false, although every REACHABLE `InvX` state is fine. `InvY = InvX ∧ EndOK` adds the missing clause (stated on the
dispatcher state alone: while an end-tag hint is outstanding, an active end-tag handler vector implies `NEXT_END_TAG`). -/

def EndOK {cfg : Cfg} (d : Disp (FullStH cfg)) : Prop :=
  d.gotFlagsFromHint = true → d.ctl.2 = some false → d.ctl.1.1.disp.endTag.hasActive = true → d.flags.nextEndTag = true

def InvY (cfg : Cfg) (d : Disp (FullStH cfg)) : Prop := InvX cfg d ∧ EndOK d

def UPostY {α : Type} (cfg : Cfg) (r : DRes (FullStH cfg) α) : Prop :=
  (∀ a, r.2 = .ok a → InvY cfg r.1) ∧ (∀ e, r.2 = .error e → HO e)

theorem rel_of_unaryY {α : Type} {cfg : Cfg} {r1 r2 : DRes (FullStH cfg) α}
    (hstep : Chunk.R.DStep (fun g : FullStH cfg => Chunk.R.DO cfg g.1)
      (fun e => Chunk.R.GP e ∧ Chunk.R.CbErr (fullCtl cfg) (Chunk.R.DO cfg) e) r1 r2)
    (hu : UPostY cfg r1) (hsafe : ∀ e, r2.2 = .error e → ¬ DispOwn e) :
    (IRel (InvY cfg) r1.1 r2.1 ∧ r1.2 = r2.2) ∨ ∃ e, NP e ∧ r1.2 = .error e := by
  rcases hstep with ⟨he, _⟩ | ⟨e, ⟨hG, hc⟩, he⟩
  · cases hr : r1.2 with
    | ok a =>
      subst he
      exact Or.inl ⟨⟨rfl, hu.1 a hr⟩, hr.symm⟩
    | error e =>
      right
      refine ⟨e, ?_, rfl⟩
      rcases hu.2 e hr with h | h
      · subst h; trivial
      · subst he
        exact absurd h (hsafe e hr)
  · exact (no_gp hG hc (hu.2 e he)).elim

theorem endOK_of_gf {cfg : Cfg} {d : Disp (FullStH cfg)} (h : d.gotFlagsFromHint = false) : EndOK d := by
  intro hg; rw [h] at hg; cases hg

theorem endOK_of_ghost {cfg : Cfg} {d : Disp (FullStH cfg)} (h : d.ctl.2 = some true) : EndOK d := by
  intro _ hk; rw [h] at hk; cases hk

/-- the remaining (operation, protocol state) pairs, without the ghost -/
def Y_startLex_tag (cfg : Cfg) : Prop :=
  ∀ (d : Disp (FullSt cfg)) (s : St) (ln : LocalName) (ns : Model.Ns) (f : Model.Flags), J2 cfg s →
    (startTag s ln ns).2 = .flags f → EqT (startTag s ln ns).1 d.ctl.1 → d.flags = f → d.gotFlagsFromHint = true →
    d.pendingAux = false → ∀ (inp : Bytes) (lx : TagLexeme), TagArgsOK inp lx → lx.outline.isStart = true →
    PostT (Disp.handleTag (fullCtl cfg) inp lx d)

def Y_auxPend_tag (cfg : Cfg) : Prop :=
  ∀ (d : Disp (FullSt cfg)) (s : St) (ln : LocalName) (ns : Model.Ns), J2 cfg s →
    (startTag s ln ns).2 = .infoRequest → EqT (startTag s ln ns).1 d.ctl.1 → d.gotFlagsFromHint = false →
    d.pendingAux = true → ∀ (inp : Bytes) (lx : TagLexeme), TagArgsOK inp lx → lx.outline.isStart = true →
    PostT (Disp.handleTag (fullCtl cfg) inp lx d)

theorem upostY_of_postT {cfg : Cfg} {d : Disp (FullStH cfg)} {inp : Bytes} {lx : TagLexeme}
    (h : PostT (Disp.handleTag (fullCtl cfg) inp lx (Hom.mapD Prod.fst d))) :
    UPostY cfg (Disp.handleTag (fullCtlH cfg) inp lx d) := by
  have hh := Hom.hom_handleTag (hintCtl_hom (fullCtl cfg)) inp lx d
  rw [← hh] at h
  refine ⟨fun a ha => ?_, h.2⟩
  obtain ⟨hi, hJ⟩ := h.1 a ha
  exact ⟨.idle hi.1 hi.2 hJ, endOK_of_gf hi.2⟩

theorem isStart_cases (o : TagOutline) : (o.isStart = true ∧ ∃ n h ns as sc, o = .startTag n h ns as sc) ∨
    (o.isStart = false ∧ ∃ n h, o = .endTag n h) := by
  cases o with
  | startTag n h ns as sc => exact Or.inl ⟨rfl, n, h, ns, as, sc, rfl⟩
  | endTag n h => exact Or.inr ⟨rfl, n, h, rfl⟩

/-- **`handle_tag` from every protocol state** (given the two remaining pairs) -/
theorem U_tag_Y (cfg : Cfg) (hS : Y_startLex_tag cfg) (hA : Y_auxPend_tag cfg) (inp : Bytes) (lx : TagLexeme)
    (d : Disp (FullStH cfg)) (hI : InvY cfg d) (hv : TagArgsOK inp lx)
    (hkind : (kindGuard (γ := FullSt cfg)).tag inp lx d = none) :
    UPostY cfg (Disp.handleTag (fullCtlH cfg) inp lx d) := by
  obtain ⟨hX, hE⟩ := hI
  cases hX with
  | idle hp hg hJ =>
    have hpost := handleTag_lexer_genV cfg (J2 cfg) _ _ ValidEv (J2_evInvV cfg) (Hom.mapD Prod.fst d) ⟨hp, hg⟩ hJ inp lx
      (lexV_of_argsOK hv)
    exact upostY_of_postT ⟨hpost.1, fun e he => ho_of_cg (hpost.2 e he)⟩
  | startLex s ln ns f hJ ha hc hf hg hp hk =>
    have hst : lx.outline.isStart = true := by
      simp only [kindGuard, PendS, hg, hk, beq_self_eq_true, Bool.and_self, Bool.true_or, Bool.true_and] at hkind
      cases hs : lx.outline.isStart with
      | true => rfl
      | false => simp [hs] at hkind
    exact upostY_of_postT (hS (Hom.mapD Prod.fst d) s ln ns f hJ ha hc hf hg hp inp lx hv hst)
  | auxPend s ln ns hJ ha hc hg hp =>
    have hst : lx.outline.isStart = true := by
      simp only [kindGuard, PendS, hp, Bool.or_true, Bool.true_and] at hkind
      cases hs : lx.outline.isStart with
      | true => rfl
      | false => simp [hs] at hkind
    exact upostY_of_postT (hA (Hom.mapD Prod.fst d) s ln ns hJ ha hc hg hp inp lx hv hst)
  | endLex s ln hJ hc hg hp hk =>
    have hns : lx.outline.isStart = false := by
      cases hs : lx.outline.isStart with
      | false => rfl
      | true =>
        simp [kindGuard, PendS, PendE, hg, hk, hp, hs] at hkind
    rcases isStart_cases lx.outline with ⟨h1, _⟩ | ⟨_, n, h, ho⟩
    · rw [hns] at h1; cases h1
    · refine upostY_of_postT (tag_endLex cfg (Hom.mapD Prod.fst d) s ln hJ hc hg hp ?_ inp lx n h ho)
      intro hact
      exact hE hg hk (by rw [hc.disp]; exact hact)

/-! ## the other operations for `InvY` -/

theorem U_nonTag_Y (cfg : Cfg) (inp : Bytes) (lx : NonTagLexeme) (d : Disp (FullStH cfg)) (hI : InvY cfg d)
    (hv : NTLexValid inp lx) (hw : d.rcs ≤ lx.raw.start) : UPostY cfg (Disp.handleNonTag (fullCtlH cfg) inp lx d) := by
  obtain ⟨hX, hE⟩ := hI
  have hsg : SameG d (Disp.handleNonTag (fullCtlH cfg) inp lx d).1 := handleNonTag_sameG (c := fullCtl cfg) d lx
  have hh := Hom.hom_handleNonTag (hintCtl_hom (fullCtl cfg)) inp lx d
  have hpost := handleNonTag_I cfg (EqT d.ctl.1.1) (fun s tok b hs hk => eqT_other cfg d.ctl.1.1 (invX_fault hX) s tok b hs hk)
    (Hom.mapD Prod.fst d) (EqT.refl _) inp lx
  rw [← hh] at hpost
  have hu : UPost cfg (Disp.handleNonTag (fullCtlH cfg) inp lx d) := by
    cases hb : (d.gotFlagsFromHint || d.pendingAux) with
    | true => exact U_postHint_nonTag cfg inp lx d hX hb hv hw
    | false =>
      obtain ⟨a, b, c⟩ := invX_idle_of hX hb
      exact U_idle_nonTag cfg d a b c inp lx
  refine ⟨fun a ha => ⟨hu.1 a ha, ?_⟩, hu.2⟩
  have he : EqT d.ctl.1.1 (Disp.handleNonTag (fullCtlH cfg) inp lx d).1.ctl.1.1 := hpost.1 a ha
  obtain ⟨s1, s2, s3, s4⟩ := hsg
  intro hg hk hact
  rw [s3]
  exact hE (by rw [← s2]; exact hg) (by rw [← s4]; exact hk) (by rw [← he.disp]; exact hact)

theorem startTagHint_ghost {γ : Type} (c : Controller γ) (n : LocalName) (ns : Model.Ns) (d : Disp (γ × Option Bool)) :
    (Disp.startTagHint (hintCtl c) n ns d).1.ctl.2 = some true := by
  unfold Disp.startTagHint
  have h3 : ((hintCtl c).startTag d.ctl n ns).1.2 = some true := rfl
  generalize (hintCtl c).startTag d.ctl n ns = r at h3
  dsimp only
  split <;> exact h3

theorem U_startHint_Y (cfg : Cfg) (d : Disp (FullStH cfg)) (hp : d.pendingAux = false) (hg : d.gotFlagsFromHint = false)
    (hJ : J2 cfg d.ctl.1.1) (n : LocalName) (ns : Model.Ns) : UPostY cfg (Disp.startTagHint (fullCtlH cfg) n ns d) := by
  have hu := U_idle_startHint cfg d hp hg hJ n ns
  exact ⟨fun a ha => ⟨hu.1 a ha, endOK_of_ghost (startTagHint_ghost (fullCtl cfg) n ns d)⟩, hu.2⟩

theorem endTagHint_endOK (cfg : Cfg) (d : Disp (FullStH cfg)) (n : LocalName) (a : Directive)
    (ha : (Disp.endTagHint (fullCtlH cfg) n d).2 = .ok a) : EndOK (Disp.endTagHint (fullCtlH cfg) n d).1 := by
  unfold Disp.endTagHint at ha ⊢
  cases hfl : (d.flushPendingText (fullCtlH cfg)).2 with
  | error e => rw [DRes.bind_err _ _ e hfl] at ha; cases ha
  | ok u =>
    rw [DRes.bind_ok _ _ u hfl]
    generalize (d.flushPendingText (fullCtlH cfg)).1 = d1
    have h2 : ((fullCtlH cfg).endTag d1.ctl n).2 = (endTag d1.ctl.1.1 n).2 := rfl
    have h1 : ((fullCtlH cfg).endTag d1.ctl n).1.1.1 = (endTag d1.ctl.1.1 n).1 := rfl
    generalize (fullCtlH cfg).endTag d1.ctl n = r at h1 h2
    dsimp only
    unfold Disp.applyHintFlags
    dsimp only
    intro _ _ hact
    have hact' : r.1.1.1.disp.endTag.hasActive = true := hact
    have hr2 : r.2.nextEndTag = true := by rw [h2, endTag_flag_active, ← h1]; exact hact'
    show (if Disp.shouldStopRemoving (fullCtlH cfg) { d1 with ctl := r.1 } = true then
        ({ r.2 with nextEndTag := true } : Model.Flags) else r.2).nextEndTag = true
    split
    · rfl
    · exact hr2

theorem U_endHint_Y (cfg : Cfg) (d : Disp (FullStH cfg)) (hp : d.pendingAux = false) (hg : d.gotFlagsFromHint = false)
    (hJ : J2 cfg d.ctl.1.1) (n : LocalName) : UPostY cfg (Disp.endTagHint (fullCtlH cfg) n d) := by
  have hu := U_idle_endHint cfg d hp hg hJ n
  exact ⟨fun a ha => ⟨hu.1 a ha, endTagHint_endOK cfg d n a ha⟩, hu.2⟩

/-! ## assembly -/

/-- **Full_scan_opsX_of.** The operation-level statement with all four operations guarded, for the inductive invariant
`InvY`, from the two remaining (operation, protocol state) pairs (`handle_tag`, `startLex`) and (`handle_tag`, `auxPend`). -/
theorem Full_scan_opsX_of (hS : ∀ cfg, Y_startLex_tag cfg) (hA : ∀ cfg, Y_auxPend_tag cfg) :
    Full_scan_opsX_statement InvY := by
  intro cfg
  refine ⟨fun enc => ⟨.idle rfl rfl (J2_init cfg), endOK_of_gf rfl⟩, ?_⟩
  have hsim := fullCtlH_sim cfg
  have hcl := cleanCtlH_clean cfg
  refine { ops := fun inp => ?_, bail := ?_, flush := ?_, handleEnd := ?_, initial := fun _ => rfl, np := fun e h => NP.np h }
  · constructor
    · rintro lx d _ ⟨rfl, hI⟩
      simp only [guardHints, guardS]
      cases hK : (withArgs argSite (andGuard kindGuard wmGuard)).tag inp lx d with
      | some e => exact Or.inl ⟨⟨rfl, hI⟩, rfl⟩
      | none =>
        simp only [withArgs, andGuard] at hK
        have hv : TagArgsOK inp lx := by
          cases ha : (argGuard argSite).tag inp lx with
          | some e => rw [ha] at hK; cases hK
          | none => exact argGuard_tag_none ha
        have ha : (argGuard argSite).tag inp lx = none := by
          cases ha : (argGuard argSite).tag inp lx with
          | some e => rw [ha] at hK; cases hK
          | none => rfl
        rw [ha] at hK
        dsimp only at hK
        have hkind : (kindGuard (γ := FullSt cfg)).tag inp lx d = none := by
          cases hk : (kindGuard (γ := FullSt cfg)).tag inp lx d with
          | some e => rw [hk] at hK; cases hK
          | none => rfl
        rw [hkind] at hK
        dsimp only at hK
        have hw : d.rcs ≤ lx.raw.start := by
          simp only [wmGuard] at hK
          split at hK
          · assumption
          · cases hK
        refine rel_of_unaryY (Chunk.R.handleTag_step hsim inp lx d (invX_DO hI.1))
          (U_tag_Y cfg (hS cfg) (hA cfg) inp lx d hI hv hkind) (fun e he ho => ?_)
        exact own_not_U2 ho ((handleTag_post hcl lx d hw hv.1.1.1 hv.1.1.2).2 e he) (handleTag_not hcl lx d hv.1.1 hv.1.2 e he)
    · rintro lx d _ ⟨rfl, hI⟩
      simp only [guardHints, guardS]
      cases hK : (withArgs argSite (andGuard kindGuard wmGuard)).nonTag inp lx d with
      | some e => exact Or.inl ⟨⟨rfl, hI⟩, rfl⟩
      | none =>
        simp only [withArgs, andGuard] at hK
        have hv : NTLexValid inp lx := by
          cases ha : (argGuard argSite).nonTag inp lx with
          | some e => rw [ha] at hK; cases hK
          | none =>
            simp only [argGuard] at ha
            split at ha
            · assumption
            · cases ha
        have ha : (argGuard argSite).nonTag inp lx = none := by
          cases ha : (argGuard argSite).nonTag inp lx with
          | some e => rw [ha] at hK; cases hK
          | none => rfl
        rw [ha] at hK
        simp only [kindGuard, wmGuard] at hK
        have hw : d.rcs ≤ lx.raw.start := by
          split at hK
          · assumption
          · cases hK
        refine rel_of_unaryY (Chunk.R.handleNonTag_step hsim inp lx d (invX_DO hI.1)) (U_nonTag_Y cfg inp lx d hI hv hw)
          (fun e he ho => ?_)
        exact own_not_U2 ho ((handleNonTag_post hcl lx d hw hv.1.1 hv.1.2).2 e he) (handleNonTag_not hcl lx d hv.1 hv.2 e he)
    · rintro n ns d _ ⟨rfl, hI⟩
      simp only [guardHints, guardS]
      cases hb : (d.gotFlagsFromHint || d.pendingAux) with
      | true => simp only [if_true]; exact Or.inl ⟨⟨rfl, hI⟩, trivial⟩
      | false =>
        simp only [Bool.false_eq_true, if_false]
        obtain ⟨a, b, c⟩ := invX_idle_of hI.1 hb
        refine rel_of_unaryY (Chunk.R.startTagHint_step hsim n ns d (invX_DO hI.1)) (U_startHint_Y cfg d a b c n ns) (fun e he ho => ?_)
        exact own_not_U2 ho ((startTagHint_post hcl n ns d).2 e he) (startTagHint_not hcl n ns d e he)
    · rintro n d _ ⟨rfl, hI⟩
      simp only [guardHints, guardS]
      cases hb : (d.gotFlagsFromHint || d.pendingAux) with
      | true => simp only [if_true]; exact Or.inl ⟨⟨rfl, hI⟩, trivial⟩
      | false =>
        simp only [Bool.false_eq_true, if_false]
        obtain ⟨a, b, c⟩ := invX_idle_of hI.1 hb
        refine rel_of_unaryY (Chunk.R.endTagHint_step hsim n d (invX_DO hI.1)) (U_endHint_Y cfg d a b c n) (fun e he ho => ?_)
        exact own_not_U2 ho ((endTagHint_post hcl n d).2 e he) (endTagHint_not hcl n d e he)
  · exact hsim.bailOut
  · intro d d' inp k hf hI
    obtain ⟨s1, s2, s3⟩ := flushRemaining_same hf
    have hc := Chunk.R.flushRemaining_ctl hf
    refine ⟨invX_flush hI.1 hc s1 s2 s3, ?_⟩
    intro hg hk hact
    rw [s3]
    exact hI.2 (by rw [← s2]; exact hg) (by rw [← hc]; exact hk) (by rw [← hc]; exact hact)
  · intro d hI
    rcases hsim.handleEnd d.ctl (invX_DO hI.1) with ⟨he, _⟩ | ⟨e, ⟨hG, _⟩, he⟩
    · exact Or.inl he
    · have : e = .handler := Full_handleEnd_clean cfg d.ctl.1 (invX_fault hI.1) e he
      subst this
      rcases hG with ⟨m, hm, _⟩ | ⟨s, hs⟩
      · cases hm
      · cases hs

/-! ## the start-tag token up to `EqT` -/

theorem invGet_bump_same (inv : List ((Nat × HId) × Nat)) (k : Nat × HId) :
    invGet (invBump inv k) k = invGet inv k + 1 := by
  induction inv with
  | nil => simp [invBump, invGet, List.find?]
  | cons e rest ih =>
    simp only [invBump]
    split
    · rename_i he
      simp [invGet, List.find?, he]
    · rename_i he
      have he' : (e.1 == k) = false := by simpa using he
      unfold invGet at ih ⊢
      simp only [List.find?, he']
      exact ih

theorem runClosures_congr {τ : Type} (scripts : HId → Scripts ElementOp) (who : HId → Who) (see : τ → Seen)
    (apply : τ → List ElementOp → τ) (src : Range) (hs : List HId) (s1 s2 : St) (u : τ) (h : EqT s1 s2) :
    (runClosures scripts kElement who see apply src hs s2 u).2 = (runClosures scripts kElement who see apply src hs s1 u).2 ∧
    EqT (runClosures scripts kElement who see apply src hs s1 u).1 (runClosures scripts kElement who see apply src hs s2 u).1 := by
  induction hs generalizing s1 s2 u with
  | nil => exact ⟨rfl, h⟩
  | cons h0 hs ih =>
    simp only [runClosures]
    rw [h.inv h0]
    have h' : EqT { s1 with inv := invBump s1.inv (kElement, h0), log := ⟨who h0, src, see u⟩ :: s1.log }
        { s2 with inv := invBump s2.inv (kElement, h0), log := ⟨who h0, src, see u⟩ :: s2.log } := by
      refine ⟨h.disp, h.vm, h.descs, h.pending, h.payloads, h.ord, h.fault, fun x => ?_⟩
      show invGet (invBump s2.inv (kElement, h0)) (kElement, x) = invGet (invBump s1.inv (kElement, h0)) (kElement, x)
      by_cases hx : x = h0
      · subst hx
        rw [invGet_bump_same, invGet_bump_same, h.inv]
      · rw [invGet_bump_ne _ _ _ (by intro e; exact hx (by simpa using congrArg Prod.snd e)),
          invGet_bump_ne _ _ _ (by intro e; exact hx (by simpa using congrArg Prod.snd e))]
        exact h.inv x
    split
    · exact ⟨rfl, h'⟩
    · exact ih _ _ _ h'

theorem currentElementData_congr {s1 s2 : St} (h : EqT s1 s2) : s2.currentElementData = s1.currentElementData := by
  unfold St.currentElementData
  rw [h.vm, h.descs]

/-- **`tokStartTag` respects `EqT`** -/
theorem tokStartTag_congr (cfg : Cfg) (s1 s2 : St) (h : EqT s1 s2) (name : Bytes) (attrs : List (Bytes × Bytes × AttrOutline))
    (ns : Model.Ns) (sc : Bool) (raw : Bytes) (src : Range) (base : Nat) :
    (tokStartTag cfg s2 name attrs ns sc raw src base).2.err = (tokStartTag cfg s1 name attrs ns sc raw src base).2.err ∧
    EqT (tokStartTag cfg s1 name attrs ns sc raw src base).1 (tokStartTag cfg s2 name attrs ns sc raw src base).1 := by
  unfold tokStartTag
  rw [h.disp]
  split
  · cases attrs.mapM (attrConv raw (src.start - base)) with
    | none => exact ⟨rfl, h⟩
    | some as =>
      dsimp only
      generalize (if 0 < s1.disp.removedContent then
        StartTag.apply { name := name, attributes := as, ns := nsEdit ns, selfClosing := sc, raw := raw } (StartTagOp.mut MutOp.remove)
        else { name := name, attributes := as, ns := nsEdit ns, selfClosing := sc, raw := raw }) = st
      obtain ⟨c1, c2⟩ := runClosures_congr cfg.elementScripts Who.element (seeElement ns) Element.applyOps src
        s1.disp.element.forEachActive s1 s2 (Element.new st s1.disp.nextElementCanHaveContent) h
      rw [c1]
      have hscr : (fun (x : HId) (_ : Nat) => elemActOf s1.disp.nextElementCanHaveContent
            (cyc (cfg.elementScripts x) (invGet s2.inv (kElement, x))).1) =
          (fun (x : HId) (_ : Nat) => elemActOf s1.disp.nextElementCanHaveContent
            (cyc (cfg.elementScripts x) (invGet s1.inv (kElement, x))).1) := by
        funext x _; rw [h.inv x]
      rw [hscr]
      generalize runClosures cfg.elementScripts kElement Who.element (seeElement ns) Element.applyOps src
        s1.disp.element.forEachActive s2 (Element.new st s1.disp.nextElementCanHaveContent) = r2 at c2
      generalize runClosures cfg.elementScripts kElement Who.element (seeElement ns) Element.applyOps src
        s1.disp.element.forEachActive s1 (Element.new st s1.disp.nextElementCanHaveContent) = r1 at c2
      rw [c2.disp, c2.ord, currentElementData_congr c2, c2.descs, c2.payloads]
      split
      · exact ⟨rfl, c2⟩
      · cases r1.1.disp.handleStartTag (fun x _ => elemActOf s1.disp.nextElementCanHaveContent
            (cyc (cfg.elementScripts x) (invGet s1.inv (kElement, x))).1) r1.1.ord r1.1.currentElementData with
        | error p => exact ⟨rfl, c2⟩
        | ok t =>
          obtain ⟨d, desc, iv⟩ := t
          dsimp only
          exact ⟨rfl, ⟨rfl, c2.vm, rfl, c2.pending, rfl, rfl, c2.fault, c2.inv⟩⟩
  · exact ⟨rfl, h⟩

/-! ## `handle_tag` from `startLex` -/

/-- **(`handle_tag`, `startLex`)**: the closing chunk of an open text node, then the second half of the start-tag event —
the start-tag token iff the hint's flags ask for it -/
theorem tag_startLex (cfg : Cfg) : Y_startLex_tag cfg := by
  intro d s ln ns f hJ ha hc hf hg hp input lx hv hst
  have hstart : ∃ name h ns' as sc, lx.outline = .startTag name h ns' as sc := by
    rcases isStart_cases lx.outline with ⟨_, x⟩ | ⟨h1, _⟩
    · exact x
    · rw [hst] at h1; cases h1
  obtain ⟨name, h, ns', as, sc, ho⟩ := hstart
  have hV := lexV_of_argsOK hv name h ns' as sc ho
  have hmf : (startTag s ln ns).1.fault = none := by rw [Chunk.R.startTag_fault]; exact hJ.1.fault
  unfold Disp.handleTag
  obtain ⟨tokF, ⟨tt, p, htokF⟩, f1, f2, f3, f4⟩ := flushPendingText_full d
  have hkF : (CtlEv.other tokF).WellKinded := by rw [htokF]; trivial
  obtain ⟨o1, o2⟩ := eqT_other cfg (startTag s ln ns).1 hmf d.ctl.1 tokF d.textPending hc hkF
  cases h0 : (tokIf cfg d.textPending d.ctl.1 tokF).2 with
  | some e =>
    rw [h0] at f4
    rw [DRes.bind_err _ _ e f4]
    exact postT_err _ e (Or.inl (o2 e h0))
  | none =>
    rw [h0] at f4
    rw [DRes.bind_ok _ _ () f4]
    have hc1 : EqT (startTag s ln ns).1 (d.flushPendingText (fullCtl cfg)).1.ctl.1 := by rw [f1]; exact o1 h0
    have hg1 : (d.flushPendingText (fullCtl cfg)).1.gotFlagsFromHint = true := by rw [f3.gf]; exact hg
    have hp1 : (d.flushPendingText (fullCtl cfg)).1.pendingAux = false := by rw [f3.pa]; exact hp
    have hf1 : (d.flushPendingText (fullCtl cfg)).1.flags = f := by rw [f2]; exact hf
    generalize (d.flushPendingText (fullCtl cfg)).1 = d1 at hc1 hg1 hp1 hf1 ⊢
    rw [if_pos hg1]
    rw [DRes.bind_ok _ _ () rfl]
    dsimp only
    obtain ⟨r1, r2, r3⟩ := resumeEmission_same ({ d1 with gotFlagsFromHint := false } : Disp (FullSt cfg)) lx
    have hc3 : EqT (startTag s ln ns).1 (Disp.resumeEmission (fullCtl cfg) { d1 with gotFlagsFromHint := false } lx).ctl.1 := by
      rw [r1]; exact hc1
    have hi3 : Idle (Disp.resumeEmission (fullCtl cfg) { d1 with gotFlagsFromHint := false } lx) :=
      ⟨by rw [r3.pa]; exact hp1, by rw [r3.gf]⟩
    have hf3 : (Disp.resumeEmission (fullCtl cfg) { d1 with gotFlagsFromHint := false } lx).flags = f := by
      rw [r2]; exact hf1
    generalize Disp.resumeEmission (fullCtl cfg) { d1 with gotFlagsFromHint := false } lx = d3 at hc3 hi3 hf3 ⊢
    obtain ⟨p1, p2⟩ := produceTag_start_fullV d3 input lx name h ns' as sc ho
    have hsp : ∀ info, startPhase s ln ns info = ((startTag s ln ns).1, .ok f) := by
      intro info; simp only [startPhase, ha]
    cases hb1 : f.nextStartTag with
    | false =>
      obtain ⟨q1, q2, q3⟩ := p1 (by rw [hf3]; exact hb1)
      rw [DRes.bind_ok _ _ () q1]
      obtain ⟨c1, _⟩ := (J2_evInv cfg).start s ln ns ⟨input, as, sc⟩ [] [] ns' sc [] ⟨0, 0⟩ 0 hJ
      have hce : ctlStep cfg s (.start ln ns ⟨input, as, sc⟩ (.startTag [] [] ns' sc [] ⟨0, 0⟩ 0)) = ((startTag s ln ns).1, none) := by
        simp only [ctlStep, hsp, tokIf, hb1, Bool.false_eq_true, if_false]
      have hJm : J2 cfg (startTag s ln ns).1 := by
        have := c1 (by rw [hce])
        rw [hce] at this
        exact this
      have hJ3 : J2 cfg (d3.produceTag (fullCtl cfg) input lx).1.ctl.1 := by
        rw [q2]; exact J2_congr hc3 hJm
      exact ⟨fun _ _ => ⟨q3.idle hi3, hJ3⟩, fun e he => by cases he⟩
    | true =>
      rcases p2 (by rw [hf3]; exact hb1) with ⟨e, he, hq⟩ | ⟨n, attrs, raw, hat, hcs, q1, q2, q3⟩
      · rw [DRes.bind_err _ _ e hq]
        exact postT_err _ e (Or.inr he)
      · have hf3' : d3.ctl.1.fault = none := by rw [hc3.fault]; exact hmf
        have htok : ∀ m : St, m.fault = none →
            token cfg m (.startTag n attrs ns' sc raw (srcOf lx.prevConsumed lx.raw) lx.prevConsumed) =
            tokStartTag cfg m n attrs ns' sc raw (srcOf lx.prevConsumed lx.raw) lx.prevConsumed := by
          intro m hm; unfold token; simp only [hm]
        rw [htok _ hf3'] at q1 q3
        obtain ⟨ce, cs⟩ := tokStartTag_congr cfg (startTag s ln ns).1 d3.ctl.1 hc3 n attrs ns' sc raw
          (srcOf lx.prevConsumed lx.raw) lx.prevConsumed
        obtain ⟨c1, c2⟩ := (J2_evInvV cfg).start s ln ns ⟨input, as, sc⟩ n attrs ns' sc raw (srcOf lx.prevConsumed lx.raw)
          lx.prevConsumed hJ (hV.2 n attrs raw hat hcs)
        have hce : ctlStep cfg s (.start ln ns ⟨input, as, sc⟩
              (.startTag n attrs ns' sc raw (srcOf lx.prevConsumed lx.raw) lx.prevConsumed)) =
            ((tokStartTag cfg (startTag s ln ns).1 n attrs ns' sc raw (srcOf lx.prevConsumed lx.raw) lx.prevConsumed).1,
             (tokStartTag cfg (startTag s ln ns).1 n attrs ns' sc raw (srcOf lx.prevConsumed lx.raw) lx.prevConsumed).2.err) := by
          simp only [ctlStep, hsp, tokIf, hb1, if_true, htok _ hmf]
        cases hte : (tokStartTag cfg (startTag s ln ns).1 n attrs ns' sc raw (srcOf lx.prevConsumed lx.raw) lx.prevConsumed).2.err with
        | some e =>
          rw [ce, hte] at q3
          rw [DRes.bind_err _ _ e q3]
          rcases c2 e (by rw [hce, hte]) with hh | hh | hh
          · exact postT_err _ e (Or.inl hh)
          · exact hh.elim
          · subst hh
            exact (tokStartTag_not_rBase cfg _ n attrs ns' sc raw _ _ (by simp [srcOf]) hte).elim
        | none =>
          rw [ce, hte] at q3
          rw [DRes.bind_ok _ _ () q3]
          have hJb : J2 cfg (tokStartTag cfg (startTag s ln ns).1 n attrs ns' sc raw (srcOf lx.prevConsumed lx.raw) lx.prevConsumed).1 := by
            have := c1 (by rw [hce, hte])
            rw [hce] at this
            exact this
          have hJ4 : J2 cfg (d3.produceTag (fullCtl cfg) input lx).1.ctl.1 := by
            rw [q1]; exact J2_congr cs hJb
          exact ⟨fun _ _ => ⟨q2.idle hi3, hJ4⟩, fun e he => by cases he⟩

/-! ## `handle_tag` from `auxPend` -/

theorem afterVm_congr {s1 s2 : St} (h : EqT s1 s2) (n : Nat) (vm' : SelVM.Vm) (infos : List SelVM.MatchInfo) :
    (s2.afterVm n vm' infos).2 = (s1.afterVm n vm' infos).2 ∧ EqT (s1.afterVm n vm' infos).1 (s2.afterVm n vm' infos).1 := by
  unfold St.afterVm
  rw [h.disp]
  cases startMatchingInfos s1.disp infos with
  | error p => exact ⟨rfl, h⟩
  | ok d =>
    dsimp only
    rw [h.descs, h.ord]
    exact ⟨rfl, ⟨rfl, rfl, rfl, rfl, h.payloads, rfl, h.fault, h.inv⟩⟩

/-- **the aux-info continuation respects `EqT`** -/
theorem auxInfo_congr {s1 s2 : St} (h : EqT s1 s2) (info : AuxInfo) :
    (auxInfo s2 info).2 = (auxInfo s1 info).2 ∧ EqT (auxInfo s1 info).1 (auxInfo s2 info).1 := by
  unfold auxInfo
  rw [h.vm, h.pending]
  cases s1.vm with
  | none => exact ⟨rfl, h⟩
  | some vm =>
    cases s1.pending with
    | none => exact ⟨rfl, h⟩
    | some req =>
      dsimp only
      cases auxConv info with
      | none => exact ⟨rfl, h⟩
      | some aux =>
        dsimp only
        cases req.resume vm aux with
        | error p => exact ⟨rfl, h⟩
        | ok r => exact afterVm_congr h _ _ _

/-- `adjust_capture_flags_for_tag_lexeme` with the aux-info request pending, on a start-tag lexeme -/
theorem adjust_aux_full {cfg : Cfg} (d : Disp (FullSt cfg)) (hp : d.pendingAux = true) (input : Bytes) (lx : TagLexeme)
    (name : Range) (h : Nat) (ns : Model.Ns) (as : List AttrOutline) (sc : Bool) (ho : lx.outline = .startTag name h ns as sc) :
    (d.adjustFlagsForTag (fullCtl cfg) input lx).1.ctl.1 = (auxInfo d.ctl.1 ⟨input, as, sc⟩).1 ∧
    (d.adjustFlagsForTag (fullCtl cfg) input lx).1.pendingAux = false ∧
    (d.adjustFlagsForTag (fullCtl cfg) input lx).1.gotFlagsFromHint = d.gotFlagsFromHint ∧
    (match (auxInfo d.ctl.1 ⟨input, as, sc⟩).2 with
     | .ok f => (d.adjustFlagsForTag (fullCtl cfg) input lx).2 = .ok () ∧ (d.adjustFlagsForTag (fullCtl cfg) input lx).1.flags = f
     | .error e => (d.adjustFlagsForTag (fullCtl cfg) input lx).2 = .error e) := by
  unfold Disp.adjustFlagsForTag
  rw [if_pos hp]
  simp only [ho]
  unfold Disp.answerAux
  have a2 : ((fullCtl cfg).auxInfo d.ctl ⟨input, as, sc⟩).2 = (auxInfo d.ctl.1 ⟨input, as, sc⟩).2 := rfl
  have a1 : ((fullCtl cfg).auxInfo d.ctl ⟨input, as, sc⟩).1.1 = (auxInfo d.ctl.1 ⟨input, as, sc⟩).1 := rfl
  dsimp only
  rw [a2]
  cases hx : (auxInfo d.ctl.1 ⟨input, as, sc⟩).2 with
  | ok f => exact ⟨a1, rfl, rfl, rfl, rfl⟩
  | error e => exact ⟨a1, rfl, rfl, rfl⟩

theorem rBase_notSiteC : Chunk.R.NotSiteC rBase := ⟨by decide, by decide, by decide, by decide⟩

/-- **(`handle_tag`, `auxPend`)**: the closing chunk of an open text node, the aux-info continuation with the lexeme's
attributes, then the start-tag token iff the continuation's flags ask for it -/
theorem tag_auxPend (cfg : Cfg) : Y_auxPend_tag cfg := by
  intro d s ln ns hJ ha hc hg hp input lx hv hst
  have hstart : ∃ name h ns' as sc, lx.outline = .startTag name h ns' as sc := by
    rcases isStart_cases lx.outline with ⟨_, x⟩ | ⟨h1, _⟩
    · exact x
    · rw [hst] at h1; cases h1
  obtain ⟨name, h, ns', as, sc, ho⟩ := hstart
  have hV := lexV_of_argsOK hv name h ns' as sc ho
  have hmf : (startTag s ln ns).1.fault = none := by rw [Chunk.R.startTag_fault]; exact hJ.1.fault
  unfold Disp.handleTag
  obtain ⟨tokF, ⟨tt, p, htokF⟩, f1, f2, f3, f4⟩ := flushPendingText_full d
  have hkF : (CtlEv.other tokF).WellKinded := by rw [htokF]; trivial
  obtain ⟨o1, o2⟩ := eqT_other cfg (startTag s ln ns).1 hmf d.ctl.1 tokF d.textPending hc hkF
  cases h0 : (tokIf cfg d.textPending d.ctl.1 tokF).2 with
  | some e =>
    rw [h0] at f4
    rw [DRes.bind_err _ _ e f4]
    exact postT_err _ e (Or.inl (o2 e h0))
  | none =>
    rw [h0] at f4
    rw [DRes.bind_ok _ _ () f4]
    have hc1 : EqT (startTag s ln ns).1 (d.flushPendingText (fullCtl cfg)).1.ctl.1 := by rw [f1]; exact o1 h0
    have hg1 : (d.flushPendingText (fullCtl cfg)).1.gotFlagsFromHint = false := by rw [f3.gf]; exact hg
    have hp1 : (d.flushPendingText (fullCtl cfg)).1.pendingAux = true := by rw [f3.pa]; exact hp
    generalize (d.flushPendingText (fullCtl cfg)).1 = d1 at hc1 hg1 hp1 ⊢
    rw [if_neg (by rw [hg1]; simp)]
    obtain ⟨a1, a2, a3, a4⟩ := adjust_aux_full d1 hp1 input lx name h ns' as sc ho
    obtain ⟨x1, x2⟩ := auxInfo_congr hc1 ⟨input, as, sc⟩
    have hsp : startPhase s ln ns ⟨input, as, sc⟩ = auxInfo (startTag s ln ns).1 ⟨input, as, sc⟩ := by
      simp only [startPhase, ha]
    have hm2f : (auxInfo (startTag s ln ns).1 ⟨input, as, sc⟩).1.fault = none := by
      rw [Chunk.R.auxInfo_fault]; exact hmf
    rw [x1] at a4
    cases hax : (auxInfo (startTag s ln ns).1 ⟨input, as, sc⟩).2 with
    | error e =>
      rw [hax] at a4
      rw [DRes.bind_err _ _ e a4]
      obtain ⟨_, c2⟩ := (J2_evInvV cfg).start s ln ns ⟨input, as, sc⟩ [] [] ns' sc [] ⟨0, 0⟩ 0 hJ hV.1
      have hce : (ctlStep cfg s (.start ln ns ⟨input, as, sc⟩ (.startTag [] [] ns' sc [] ⟨0, 0⟩ 0))).2 = some e := by
        simp only [ctlStep, hsp, hax]
      rcases c2 e hce with hh | hh | hh
      · exact postT_err _ e (Or.inl hh)
      · exact hh.elim
      · subst hh
        exact (Chunk.R.auxInfo_nb rBase_notSiteC _ _ hax).elim
    | ok f' =>
      rw [hax] at a4
      obtain ⟨a4, a5⟩ := a4
      rw [DRes.bind_ok _ _ () a4]
      have hc2 : EqT (auxInfo (startTag s ln ns).1 ⟨input, as, sc⟩).1 (d1.adjustFlagsForTag (fullCtl cfg) input lx).1.ctl.1 := by
        rw [a1]; exact x2
      have hi2 : Idle (d1.adjustFlagsForTag (fullCtl cfg) input lx).1 := ⟨a2, by rw [a3]; exact hg1⟩
      generalize (d1.adjustFlagsForTag (fullCtl cfg) input lx).1 = d2 at hc2 hi2 a5 ⊢
      obtain ⟨r1, r2, r3⟩ := resumeEmission_same d2 lx
      have hc3 : EqT (auxInfo (startTag s ln ns).1 ⟨input, as, sc⟩).1 (d2.resumeEmission (fullCtl cfg) lx).ctl.1 := by
        rw [r1]; exact hc2
      have hi3 : Idle (d2.resumeEmission (fullCtl cfg) lx) := r3.idle hi2
      have hf3 : (d2.resumeEmission (fullCtl cfg) lx).flags = f' := by rw [r2]; exact a5
      generalize d2.resumeEmission (fullCtl cfg) lx = d3 at hc3 hi3 hf3 ⊢
      obtain ⟨p1, p2⟩ := produceTag_start_fullV d3 input lx name h ns' as sc ho
      cases hb1 : f'.nextStartTag with
      | false =>
        obtain ⟨q1, q2, q3⟩ := p1 (by rw [hf3]; exact hb1)
        rw [DRes.bind_ok _ _ () q1]
        obtain ⟨c1, _⟩ := (J2_evInvV cfg).start s ln ns ⟨input, as, sc⟩ [] [] ns' sc [] ⟨0, 0⟩ 0 hJ hV.1
        have hce : ctlStep cfg s (.start ln ns ⟨input, as, sc⟩ (.startTag [] [] ns' sc [] ⟨0, 0⟩ 0)) =
            ((auxInfo (startTag s ln ns).1 ⟨input, as, sc⟩).1, none) := by
          simp only [ctlStep, hsp, hax, tokIf, hb1, Bool.false_eq_true, if_false]
        have hJm : J2 cfg (auxInfo (startTag s ln ns).1 ⟨input, as, sc⟩).1 := by
          have := c1 (by rw [hce])
          rw [hce] at this
          exact this
        have hJ3 : J2 cfg (d3.produceTag (fullCtl cfg) input lx).1.ctl.1 := by
          rw [q2]; exact J2_congr hc3 hJm
        exact ⟨fun _ _ => ⟨q3.idle hi3, hJ3⟩, fun e he => by cases he⟩
      | true =>
        rcases p2 (by rw [hf3]; exact hb1) with ⟨e, he, hq⟩ | ⟨n, attrs, raw, hat, hcs, q1, q2, q3⟩
        · rw [DRes.bind_err _ _ e hq]
          exact postT_err _ e (Or.inr he)
        · have hf3' : d3.ctl.1.fault = none := by rw [hc3.fault]; exact hm2f
          have htok : ∀ m : St, m.fault = none →
              token cfg m (.startTag n attrs ns' sc raw (srcOf lx.prevConsumed lx.raw) lx.prevConsumed) =
              tokStartTag cfg m n attrs ns' sc raw (srcOf lx.prevConsumed lx.raw) lx.prevConsumed := by
            intro m hm; unfold token; simp only [hm]
          rw [htok _ hf3'] at q1 q3
          obtain ⟨ce, cs⟩ := tokStartTag_congr cfg (auxInfo (startTag s ln ns).1 ⟨input, as, sc⟩).1 d3.ctl.1 hc3 n attrs ns' sc raw
            (srcOf lx.prevConsumed lx.raw) lx.prevConsumed
          obtain ⟨c1, c2⟩ := (J2_evInvV cfg).start s ln ns ⟨input, as, sc⟩ n attrs ns' sc raw (srcOf lx.prevConsumed lx.raw)
            lx.prevConsumed hJ (hV.2 n attrs raw hat hcs)
          have hce : ctlStep cfg s (.start ln ns ⟨input, as, sc⟩
                (.startTag n attrs ns' sc raw (srcOf lx.prevConsumed lx.raw) lx.prevConsumed)) =
              ((tokStartTag cfg (auxInfo (startTag s ln ns).1 ⟨input, as, sc⟩).1 n attrs ns' sc raw (srcOf lx.prevConsumed lx.raw) lx.prevConsumed).1,
               (tokStartTag cfg (auxInfo (startTag s ln ns).1 ⟨input, as, sc⟩).1 n attrs ns' sc raw (srcOf lx.prevConsumed lx.raw) lx.prevConsumed).2.err) := by
            simp only [ctlStep, hsp, hax, tokIf, hb1, if_true, htok _ hm2f]
          cases hte : (tokStartTag cfg (auxInfo (startTag s ln ns).1 ⟨input, as, sc⟩).1 n attrs ns' sc raw (srcOf lx.prevConsumed lx.raw) lx.prevConsumed).2.err with
          | some e =>
            rw [ce, hte] at q3
            rw [DRes.bind_err _ _ e q3]
            rcases c2 e (by rw [hce, hte]) with hh | hh | hh
            · exact postT_err _ e (Or.inl hh)
            · exact hh.elim
            · subst hh
              exact (tokStartTag_not_rBase cfg _ n attrs ns' sc raw _ _ (by simp [srcOf]) hte).elim
          | none =>
            rw [ce, hte] at q3
            rw [DRes.bind_ok _ _ () q3]
            have hJb : J2 cfg (tokStartTag cfg (auxInfo (startTag s ln ns).1 ⟨input, as, sc⟩).1 n attrs ns' sc raw (srcOf lx.prevConsumed lx.raw) lx.prevConsumed).1 := by
              have := c1 (by rw [hce, hte])
              rw [hce] at this
              exact this
            have hJ4 : J2 cfg (d3.produceTag (fullCtl cfg) input lx).1.ctl.1 := by
              rw [q1]; exact J2_congr cs hJb
            exact ⟨fun _ _ => ⟨q2.idle hi3, hJ4⟩, fun e he => by cases he⟩

/-- **Full_scan_opsX.** The operation-level statement with all four operations guarded holds for the inductive invariant
`InvY` — every (operation, protocol state) pair is closed. -/
theorem Full_scan_opsX : Full_scan_opsX_statement InvY :=
  Full_scan_opsX_of tag_startLex tag_auxPend

end LolHtml.Thm.Full
