import LolHtml.Thm.C01
import LolHtml.Lemmas.SinkMono
/-!
# C11 — graceful bail-out: at any failure point no received byte is lost or duplicated

Proved for observing controllers (handlers that inspect, and may FAIL at any invocation, but do not
mutate), for every table, every capture-flag schedule, every chunking, every memory limit and
preallocation size — i.e. wherever the error strikes: inside a handler, at `Arena::append`, at
`Arena::init_with`, in the parser at `end()`.

`written` = the bytes of all `write` calls so far, including the failing one.
With the matching flag on, when the error is returned the sink holds
`written.take j ++ (bail-out handler output) ++ written.drop j`; the bail-out handlers ran exactly once.
With the flag off the sink holds the prefix `written.take j` and no bail-out handler ran.
Mutating handlers (image of rewritten tokens, removed content, partly emitted text nodes: the
property's documented exceptions) are outside this theorem; they are exercised by lanes only.
-/
namespace LolHtml.Thm.C11
open LolHtml LolHtml.Model LolHtml.Thm.C01

variable {γ : Type}

/-- invariant between successful calls, with the bail-out counter -/
def Good' (r : Rewriter γ) (written : Bytes) : Prop :=
  Good r written ∧ r.stream.bailOutRuns = 0

theorem Stream.write_ok_runs {w : World γ} (s : Stream γ) (data : Bytes) (h : (s.write w data).2 = .ok ()) :
    (s.write w data).1.bailOutRuns = s.bailOutRuns := by
  unfold Stream.write at *
  cases hcf : s.chunkFor w data with
  | inl s' => simp [hcf] at h
  | inr sc =>
    obtain ⟨s1, chunk⟩ := sc
    have hruns : s1.bailOutRuns = s.bailOutRuns := by
      unfold Stream.chunkFor at hcf
      by_cases hb : s.hasBuffered = true
      · rw [if_pos hb] at hcf
        by_cases ha : (s.buf.append data).2 = true
        · dsimp only at hcf
          rw [if_pos ha] at hcf
          simp only [Sum.inr.injEq, Prod.mk.injEq] at hcf
          rw [← hcf.1]
        · simp [ha] at hcf
      · rw [if_neg hb] at hcf
        simp only [Sum.inr.injEq, Prod.mk.injEq] at hcf
        rw [← hcf.1]
    simp only [hcf] at h ⊢
    cases hpr : (s1.parser.parse w.env chunk false).2 with
    | error e => simp [hpr] at h
    | ok consumed =>
      simp only [hpr] at h ⊢
      cases hfl : Disp.flushRemaining (Stream.disp { s1 with parser := (s1.parser.parse w.env chunk false).1 }) chunk consumed with
      | error e => simp [hfl] at h
      | ok d =>
        simp only [hfl] at h ⊢
        unfold Stream.keepTail at h ⊢
        split
        · rename_i hlt
          rw [if_pos hlt] at h
          split
          · rename_i hb
            rw [if_pos hb] at h
            split
            · simpa [Stream.setDisp] using hruns
            · rename_i hs; simp [hs] at h
          · rename_i hb
            rw [if_neg hb] at h
            dsimp only at h ⊢
            split
            · simpa [Stream.setDisp] using hruns
            · rename_i hi; rw [if_neg hi] at h; simp at h
        · simpa [Stream.setDisp] using hruns

theorem writeAll_good' {w : World γ} (hobs : Observing w.ctl) (chunks : List Bytes) (r : Rewriter γ)
    (written : Bytes) (hg : Good' r written) (hok : ∀ x ∈ (writeAll w r chunks).2, x = CallRes.ok) :
    Good' (writeAll w r chunks).1 (written ++ chunks.flatten) := by
  induction chunks generalizing r written with
  | nil => simpa [writeAll] using hg
  | cons c cs ih =>
    simp only [writeAll, List.mem_cons, forall_eq_or_imp] at hok ⊢
    have h1 := write_good hobs r written c hg.1 hok.1
    have h2 : (r.write w c).1.stream.bailOutRuns = 0 := by
      obtain ⟨⟨hp, _, _⟩, hr⟩ := hg
      have hokc := hok.1
      unfold Model.Rewriter.write at hokc ⊢
      simp only [hp, Bool.false_eq_true, if_false] at hokc ⊢
      cases hres : (r.stream.write w c).2 with
      | error e => simp [hres] at hokc
      | ok u => simp only; rw [Stream.write_ok_runs _ _ hres, hr]
    have := ih (r.write w c).1 (written ++ c) ⟨h1, h2⟩ hok.2
    simpa [List.append_assoc] using this

/-- What the sink holds when a call fails. -/
def BailedOut (cfg : Settings) (e : Err) (sink written : Bytes) (runs : Nat) : Prop :=
  ∃ pre post bo, pre ++ post = written ∧
    (if cfg.recovers e = true then sink = pre ++ bo ++ post ∧ runs = 1 else sink = pre ∧ runs = 0)

theorem writeAll_cfg {w : World γ} (cs : List Bytes) (r : Rewriter γ) : (writeAll w r cs).1.stream.cfg = r.stream.cfg := by
  induction cs generalizing r with
  | nil => rfl
  | cons c cs ih =>
    simp only [writeAll]
    rw [ih]
    unfold Model.Rewriter.write
    split
    · rfl
    · dsimp only
      split <;> simp [Stream.write_cfg]

/-- **C11_bailout_write.** All earlier writes succeeded; this `write` fails with `e`. -/
theorem C11_bailout_write (w : World γ) (hobs : Observing w.ctl) (g : γ) (cfg : Settings)
    (chunks : List Bytes) (data : Bytes) (e : Err)
    (hok : ∀ x ∈ (writeAll w (Rewriter.new w g cfg) chunks).2, x = CallRes.ok)
    (herr : ((writeAll w (Rewriter.new w g cfg) chunks).1.write w data).2 = .err e) :
    BailedOut cfg e (sinkBytes ((writeAll w (Rewriter.new w g cfg) chunks).1.write w data).1.sink)
      (chunks.flatten ++ data) ((writeAll w (Rewriter.new w g cfg) chunks).1.write w data).1.stream.bailOutRuns ∧
    ((writeAll w (Rewriter.new w g cfg) chunks).1.write w data).1.poisoned = true := by
  have hg := writeAll_good' hobs chunks (Rewriter.new w g cfg) [] ⟨new_good w g cfg, rfl⟩ hok
  obtain ⟨⟨hp, hi, he⟩, hr⟩ := hg
  have hcfg : (writeAll w (Rewriter.new w g cfg) chunks).1.stream.cfg = cfg := by
    rw [writeAll_cfg]; rfl
  generalize (writeAll w (Rewriter.new w g cfg) chunks).1 = r0 at *
  unfold Model.Rewriter.write at herr ⊢
  simp only [hp, Bool.false_eq_true, if_false] at herr ⊢
  cases hres : (r0.stream.write w data).2 with
  | ok u => simp [hres] at herr
  | error e' =>
    simp only [hres, CallRes.err.injEq] at herr ⊢
    subst herr
    obtain ⟨k, bo, hk, hout⟩ := Stream.write_err hobs r0.stream data hi e' hres
    refine ⟨?_, trivial⟩
    simp only [List.nil_append] at he
    refine ⟨r0.stream.emitted ++ (r0.stream.pending ++ data).take k, (r0.stream.pending ++ data).drop k, bo, ?_, ?_⟩
    · rw [List.append_assoc, List.take_append_drop, ← List.append_assoc, he]
    · simp only [Stream.shouldBailOutFor, hcfg] at hout
      simp only [Model.Rewriter.sink]
      split
      · rename_i hb
        rw [if_pos hb] at hout
        exact ⟨by simpa [Stream.emitted] using hout.1, by rw [hout.2, hr]⟩
      · rename_i hb
        rw [if_neg hb] at hout
        exact ⟨by simpa [Stream.emitted] using hout.1, by rw [hout.2, hr]⟩

/-- **C11_flags.** Each flag recovers only its own error kind; parsing ambiguity (and any internal
failure) is never recovered. -/
theorem C11_flags (s : Stream γ) :
    (∀ h, s.shouldBailOutFor (.ambiguity h) = false) ∧
    s.shouldBailOutFor .mem = s.cfg.bailOnMem ∧
    s.shouldBailOutFor .handler = s.cfg.bailOnHandler ∧
    (∀ m, s.shouldBailOutFor (.panic m) = false) ∧ (∀ m, s.shouldBailOutFor (.internal m) = false) := by
  refine ⟨fun _ => rfl, rfl, rfl, fun _ => rfl, fun _ => rfl⟩

/-- **C11_no_bailout_on_success.** No bail-out handler runs while calls succeed. -/
theorem C11_no_bailout_on_success (w : World γ) (hobs : Observing w.ctl) (g : γ) (cfg : Settings)
    (chunks : List Bytes) (hok : ∀ x ∈ (writeAll w (Rewriter.new w g cfg) chunks).2, x = CallRes.ok) :
    (writeAll w (Rewriter.new w g cfg) chunks).1.stream.bailOutRuns = 0 :=
  (writeAll_good' hobs chunks (Rewriter.new w g cfg) [] ⟨new_good w g cfg, rfl⟩ hok).2

/-! ### non-vacuity: a handler failing on the 2nd token, with and without the flag -/

/-- observer that fails at token number `n` (0-based) and appends `!` on bail-out -/
def failingCtl (n : Nat) : Controller Nat :=
  { initialFlags := fun _ => Flags.ofNat 31
    startTag := fun k _ _ => (k, .flags (Flags.ofNat 31))
    auxInfo := fun k _ => (k, .ok (Flags.ofNat 31))
    endTag := fun k _ => (k, Flags.ofNat 31)
    token := fun k t => (k + 1, if k == n then { chunks := [], err := some .handler } else { chunks := [t.raw] })
    shouldEmit := fun _ => true
    handleEnd := fun k => (k, [], none)
    bailOut := fun k _ => (k, [[33]]) }

theorem failingCtl_observing (n : Nat) : Observing (failingCtl n) where
  token_raw := by intro g t h; simp only [failingCtl] at h ⊢; split at h <;> simp_all
  token_err := by intro g t e h; simp only [failingCtl] at h ⊢; split at h <;> simp_all
  shouldEmit := by intro g; rfl

def failWorld (n : Nat) : World Nat := ⟨Gen.Syntax.table, Gen.Tags.cfg, failingCtl n⟩

/-- `<a>x</a>`: the text token (index 1) fails -/
def doc : Bytes := [60,97,62,120,60,47,97,62]

example : ((Rewriter.new (failWorld 1) 0 { bailOnHandler := true }).write (failWorld 1) doc).2 = .err .handler := by
  decide +kernel
example : sinkBytes ((Rewriter.new (failWorld 1) 0 { bailOnHandler := true }).write (failWorld 1) doc).1.sink
    = [60,97,62] ++ [33] ++ [120,60,47,97,62] := by decide +kernel
example : sinkBytes ((Rewriter.new (failWorld 1) 0 {}).write (failWorld 1) doc).1.sink = [60,97,62] := by
  decide +kernel

end LolHtml.Thm.C11
