import LolHtml.Thm.C11
/-!
# C12 — fail-stop and sink protocol

For EVERY controller (mutating handlers included; the only hypothesis is that content written by
end / bail-out handlers goes through the text encoder and is therefore never an empty slice), every
table, every chunking, every failure point:

* the sink log starts with the encoding notification;
* every call only appends to the log; while input is processed nothing appended is a zero-length chunk;
* the zero-length chunk appears exactly once, as the very last event of a successful `end()`;
* after a call returned an error, any further call is the documented panic and leaves the log unchanged.
-/
namespace LolHtml.Thm.C12
open LolHtml LolHtml.Model LolHtml.Thm.C01

variable {γ : Type}

/-- the log is `enc e` followed by events none of which is a zero-length chunk -/
def Clean (cfg : Settings) (log : List SinkEv) : Prop :=
  ∃ l, log = SinkEv.enc cfg.encoding :: l ∧ NoEmpty l

theorem new_clean (w : World γ) (g : γ) (cfg : Settings) : Clean cfg (Rewriter.new w g cfg).sink :=
  ⟨[], rfl, NoEmpty.nil⟩

theorem Clean.grows {cfg : Settings} {d d' : Disp γ} (h : Clean cfg d.sink) (hg : Grows d d') : Clean cfg d'.sink := by
  obtain ⟨l, hl, hn⟩ := h
  obtain ⟨l2, hl2, hn2⟩ := hg
  exact ⟨l ++ l2, by rw [hl2, hl]; rfl, hn.append hn2⟩

theorem write_clean {w : World γ} (hc : CleanEnds w.ctl) (cfg : Settings) (r : Rewriter γ) (data : Bytes)
    (h : Clean cfg r.sink) : Clean cfg (r.write w data).1.sink := by
  unfold Model.Rewriter.write
  split
  · exact h
  · dsimp only
    have := Stream.write_grows hc r.stream data
    split <;> exact Clean.grows h this

theorem writeAll_clean {w : World γ} (hc : CleanEnds w.ctl) (cfg : Settings) (chunks : List Bytes) (r : Rewriter γ)
    (h : Clean cfg r.sink) : Clean cfg (writeAll w r chunks).1.sink := by
  induction chunks generalizing r with
  | nil => exact h
  | cons c cs ih => exact ih _ (write_clean hc cfg r c h)

/-- what one `end` call does to a clean log -/
theorem end_clean {w : World γ} (hc : CleanEnds w.ctl) (cfg : Settings) (r : Rewriter γ) (h : Clean cfg r.sink) :
    ∃ l, NoEmpty l ∧ (r.end w).1.sink =
      SinkEv.enc cfg.encoding :: l ++ (if (r.end w).2 = CallRes.ok then [SinkEv.chunk []] else []) := by
  obtain ⟨l, hl, hn⟩ := h
  unfold Model.Rewriter.end
  by_cases hp : r.poisoned = true
  · rw [if_pos hp]
    exact ⟨l, hn, by simp [hl]⟩
  · rw [if_neg hp]
    have he := Stream.end_grows hc r.stream
    cases hres : (r.stream.end w).2 with
    | ok u =>
      rw [hres] at he
      obtain ⟨l2, hl2, hn2⟩ := he
      refine ⟨l ++ l2, hn.append hn2, ?_⟩
      simp only [Model.Rewriter.sink] at hl ⊢
      simp [hres, hl2, hl]
    | error e =>
      rw [hres] at he
      obtain ⟨l2, hl2, hn2⟩ := he
      refine ⟨l ++ l2, hn.append hn2, ?_⟩
      simp only [Model.Rewriter.sink] at hl ⊢
      simp [hres, hl2, hl]

/-- **C12_protocol.** The sink log of any history `write* ; end`: the encoding first; then events that
are never zero-length chunks; then the zero-length chunk — iff `end()` succeeded, and then last. -/
theorem C12_protocol (w : World γ) (hc : CleanEnds w.ctl) (g : γ) (cfg : Settings) (chunks : List Bytes) :
    ∃ l, NoEmpty l ∧
      (run w (Rewriter.new w g cfg) chunks).1.sink =
        SinkEv.enc cfg.encoding :: l ++
          (if (run w (Rewriter.new w g cfg) chunks).2.getLast? = some CallRes.ok then [SinkEv.chunk []] else []) := by
  unfold run
  have h1 := writeAll_clean hc cfg chunks (Rewriter.new w g cfg) (new_clean w g cfg)
  obtain ⟨l, hn, hl⟩ := end_clean hc cfg (writeAll w (Rewriter.new w g cfg) chunks).1 h1
  refine ⟨l, hn, ?_⟩
  simp only [List.getLast?_append, List.getLast?_singleton, Option.some_or, Option.some.injEq]
  exact hl

/-- **C12_encoding_first** (corollary): the sink is told the encoding before anything else. -/
theorem C12_encoding_first (w : World γ) (hc : CleanEnds w.ctl) (g : γ) (cfg : Settings) (chunks : List Bytes) :
    (run w (Rewriter.new w g cfg) chunks).1.sink.head? = some (SinkEv.enc cfg.encoding) := by
  obtain ⟨l, _, h⟩ := C12_protocol w hc g cfg chunks
  rw [h]; rfl

/-- **C12_fail_stop.** A poisoned rewriter (one whose `write`/`end` returned an error) answers every
further call with the documented panic and emits nothing. -/
theorem C12_fail_stop (w : World γ) (r : Rewriter γ) (hp : r.poisoned = true) (data : Bytes) :
    r.write w data = (r, .panicUseAfterError) ∧ r.end w = (r, .panicUseAfterError) := by
  simp [Model.Rewriter.write, Model.Rewriter.end, hp]

/-- an error poisons the rewriter -/
theorem C12_error_poisons (w : World γ) (r : Rewriter γ) (data : Bytes) (e : Err) :
    ((r.write w data).2 = .err e → (r.write w data).1.poisoned = true) ∧
    ((r.end w).2 = .err e → (r.end w).1.poisoned = true) := by
  constructor
  · intro h
    unfold Model.Rewriter.write at h ⊢
    split
    · rename_i hp; simp [hp] at h
    · rename_i hp
      simp only [hp, Bool.false_eq_true, if_false] at h ⊢
      split <;> simp_all
  · intro h
    unfold Model.Rewriter.end at h ⊢
    split
    · rename_i hp; simp [hp] at h
    · rename_i hp
      simp only [hp, Bool.false_eq_true, if_false] at h ⊢
      split <;> simp_all

/-- **C12_monotone.** No call ever retracts or rewrites what the sink already received. -/
theorem C12_monotone (w : World γ) (hc : CleanEnds w.ctl) (r : Rewriter γ) (data : Bytes) :
    ∃ l, (r.write w data).1.sink = r.sink ++ l := by
  unfold Model.Rewriter.write
  split
  · exact ⟨[], by simp⟩
  · dsimp only
    obtain ⟨l, hl, _⟩ := Stream.write_grows hc r.stream data
    split <;> exact ⟨l, hl⟩

/-! ### instances and non-vacuity -/

theorem constCtl_clean (f : Nat) : CleanEnds (constCtl f) where
  handleEnd := by intro g ev h; simp [constCtl] at h
  bailOut := by intro g e ev h; simp [constCtl] at h

theorem C12_protocol_gen (f : Nat) (cfg : Settings) (chunks : List Bytes) :
    ∃ l, NoEmpty l ∧
      (run (genWorld f) (Rewriter.new (genWorld f) () cfg) chunks).1.sink =
        SinkEv.enc cfg.encoding :: l ++
          (if (run (genWorld f) (Rewriter.new (genWorld f) () cfg) chunks).2.getLast? = some CallRes.ok
           then [SinkEv.chunk []] else []) :=
  C12_protocol (genWorld f) (constCtl_clean f) () cfg chunks

example : (run (genWorld 31) (Rewriter.new (genWorld 31) () {}) sampleChunks).1.sink.getLast? = some (.chunk []) := by
  decide +kernel

end LolHtml.Thm.C12
