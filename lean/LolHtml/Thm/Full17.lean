/-
# Package `full`, part 17 — complete runs: the real run `write* ; end` IS the cleaned run

Round 8 (`Thm/Full16.lean`) had `write*` only, because Lemmas/CtlSim.lean had no `end` step. Lemmas/CtlSimEnd.lean adds it
(`streamEnd_sim`, `rewriter_end_sim`, `run_sim`). `end` can part from the cleaned run at two places: a callback under the
last `parse` (reported through `parseErr`: an internal-class error shows as the handler error) and `handle_end` itself
(reported as it is). The real controller's `handle_end` returns a panic-class error (fault state) or the handler error,
never an internal-class one; and whatever it returns is the result of the call, so `Full_no_panic` excludes the whole
second place. What stays is the alternative of Round 8: a callback under a `parse` returned an internal-class error and the
call (`write` or `end`) returned the handler error.
-/
import LolHtml.Thm.Full16
import LolHtml.Lemmas.CtlSimEnd
import LolHtml.Thm.C11_General_End

namespace LolHtml.Thm.Full
open LolHtml LolHtml.Model LolHtml.Model.Full LolHtml.Lemmas.Full
open LolHtml.Thm.C01 (run writeAll Rewriter.new)

/-- a callback of the real controller returned an internal-class error, reported by a call of the complete run
(`write` or `end`) as the handler error -/
def InternalAltRun (cfg : Cfg) (settings : Settings) (chunks : List Bytes) : Prop :=
  ∃ s, Chunk.R.CbErr (fullCtl cfg) (Chunk.R.DO cfg) (.internal s) ∧
    CallRes.err .handler ∈ (run (genWorld cfg) (Rewriter.new (genWorld cfg) (FullSt.init cfg) settings) chunks).2

theorem cleanWorld_new (cfg : Cfg) (settings : Settings) :
    Rewriter.new (genWorld cfg) (FullSt.init cfg) settings = Rewriter.new (cleanWorld cfg) (FullSt.init cfg) settings :=
  Chunk.R.new_eq (w := genWorld cfg) (Chunk.R.fullCtl_sim_prov cfg) (FullSt.init cfg) (Chunk.R.init_DO cfg) settings

/-- a call of the real run does not return an error of the class `GP` -/
theorem run_no_GP (cfg : Cfg) (settings : Settings) (chunks : List Bytes) (e : Err) (hG : Chunk.R.GP e) :
    CallRes.err e ∉ (run (genWorld cfg) (Rewriter.new (genWorld cfg) (FullSt.init cfg) settings) chunks).2 := by
  intro hm
  have := Full_no_panic cfg settings chunks _ hm
  rcases hG with ⟨m, rfl, _⟩ | ⟨s, rfl⟩ <;> exact this

/-- **Full_real_eq_clean_run.** For every configuration, settings record and chunking, the COMPLETE run `write* ; end` over
the REAL controller is the run over the cleaned controller — the same final rewriter state (sink log, dispatcher,
controller state, parser, buffer) and the same call results, `end` included — unless a callback returned an
internal-class error (then a `write` or the `end` returned the handler error). -/
theorem Full_real_eq_clean_run (cfg : Cfg) (settings : Settings) (chunks : List Bytes) :
    run (genWorld cfg) (Rewriter.new (genWorld cfg) (FullSt.init cfg) settings) chunks =
      run (cleanWorld cfg) (Rewriter.new (cleanWorld cfg) (FullSt.init cfg) settings) chunks ∨
    InternalAltRun cfg settings chunks := by
  have hsim := Chunk.R.fullCtl_sim_prov cfg
  rcases Chunk.R.run_sim (w := genWorld cfg) hsim C03.C03_emitsChecked_gen chunks
      (Rewriter.new (genWorld cfg) (FullSt.init cfg) settings) (Or.inr (Chunk.R.init_DO cfg)) with he | ⟨e, ⟨hG, hc⟩, hmem⟩
  · left
    rw [he, cleanWorld_new]
    rfl
  · rcases hmem with hmem | hmem
    · rcases hG with ⟨m, rfl, hne⟩ | ⟨s, rfl⟩
      · exact absurd hmem (run_no_GP cfg settings chunks _ (Or.inl ⟨m, rfl, hne⟩))
      · exact Or.inr ⟨s, hc, hmem⟩
    · exact absurd hmem (run_no_GP cfg settings chunks e hG)

/-- the same, call by call: `write*` agree, and the `end` of the state reached agrees -/
theorem Full_real_eq_clean_run_calls (cfg : Cfg) (settings : Settings) (chunks : List Bytes) :
    (writeAll (genWorld cfg) (Rewriter.new (genWorld cfg) (FullSt.init cfg) settings) chunks =
        writeAll (cleanWorld cfg) (Rewriter.new (cleanWorld cfg) (FullSt.init cfg) settings) chunks ∧
      (writeAll (genWorld cfg) (Rewriter.new (genWorld cfg) (FullSt.init cfg) settings) chunks).1.end (genWorld cfg) =
        (writeAll (genWorld cfg) (Rewriter.new (genWorld cfg) (FullSt.init cfg) settings) chunks).1.end (cleanWorld cfg)) ∨
    InternalAltRun cfg settings chunks := by
  have hsim := Chunk.R.fullCtl_sim_prov cfg
  have hrun : ∀ x, x ∈ (writeAll (genWorld cfg) (Rewriter.new (genWorld cfg) (FullSt.init cfg) settings) chunks).2 ∨
      x = ((writeAll (genWorld cfg) (Rewriter.new (genWorld cfg) (FullSt.init cfg) settings) chunks).1.end (genWorld cfg)).2 →
      x ∈ (run (genWorld cfg) (Rewriter.new (genWorld cfg) (FullSt.init cfg) settings) chunks).2 := by
    intro x hx
    simp only [run, List.mem_append, List.mem_singleton]
    exact hx
  rcases Chunk.R.writeAll_sim (w := genWorld cfg) hsim C03.C03_emitsChecked_gen chunks
      (Rewriter.new (genWorld cfg) (FullSt.init cfg) settings) (Or.inr (Chunk.R.init_DO cfg)) with
    ⟨he, hD⟩ | ⟨_, e, ⟨hG, hc⟩, hmem⟩
  · rcases Chunk.R.rewriter_end_sim (w := genWorld cfg) hsim C03.C03_emitsChecked_gen _ hD with he2 | ⟨e, ⟨hG, hc⟩, he2⟩
    · left
      refine ⟨?_, he2⟩
      rw [he, cleanWorld_new]
      rfl
    · rcases he2 with he2 | he2
      · rcases hG with ⟨m, rfl, hne⟩ | ⟨s, rfl⟩
        · exact absurd (hrun _ (Or.inr he2.symm)) (run_no_GP cfg settings chunks _ (Or.inl ⟨m, rfl, hne⟩))
        · exact Or.inr ⟨s, hc, hrun _ (Or.inr he2.symm)⟩
      · exact absurd (hrun _ (Or.inr he2.symm)) (run_no_GP cfg settings chunks e hG)
  · rcases hG with ⟨m, rfl, hne⟩ | ⟨s, rfl⟩
    · exact absurd (hrun _ (Or.inl hmem)) (run_no_GP cfg settings chunks _ (Or.inl ⟨m, rfl, hne⟩))
    · exact Or.inr ⟨s, hc, hrun _ (Or.inl hmem)⟩

/-- … in particular: if no call of the real run returns the handler error, the two complete runs are the same -/
theorem Full_real_eq_clean_run_of_no_handler (cfg : Cfg) (settings : Settings) (chunks : List Bytes)
    (hnh : CallRes.err .handler ∉ (run (genWorld cfg) (Rewriter.new (genWorld cfg) (FullSt.init cfg) settings) chunks).2) :
    run (genWorld cfg) (Rewriter.new (genWorld cfg) (FullSt.init cfg) settings) chunks =
      run (cleanWorld cfg) (Rewriter.new (cleanWorld cfg) (FullSt.init cfg) settings) chunks := by
  rcases Full_real_eq_clean_run cfg settings chunks with h | ⟨s, _, hm⟩
  · exact h
  · exact absurd hm hnh

/-- non-vacuity: a complete real run with six closure invocations, two writes and `end`, all succeeding — the hypothesis
of `Full_real_eq_clean_run_of_no_handler` holds, and the cleaned run is this run -/
example : CallRes.err .handler ∉ (run (genWorld obsCfg) (Rewriter.new (genWorld obsCfg) (FullSt.init obsCfg) {}) sampleChunks).2 := by
  decide +kernel
example : (run (cleanWorld obsCfg) (Rewriter.new (cleanWorld obsCfg) (FullSt.init obsCfg) {}) sampleChunks).2 = [.ok, .ok, .ok] := by
  rw [← Full_real_eq_clean_run_of_no_handler obsCfg {} sampleChunks (by decide +kernel)]
  decide +kernel
/-- … and a mutating one (`set_attribute`, `after`, with an aux-info request answered by the lexer) -/
example : sinkBytes (run (cleanWorld auxCfg) (Rewriter.new (cleanWorld auxCfg) (FullSt.init auxCfg) {}) sampleChunks).1.sink
    = [60,100,105,118,32,97,61,98,32,99,61,34,100,34,62,120,60,47,100,105,118,62,33,121] := by
  rw [← Full_real_eq_clean_run_of_no_handler auxCfg {} sampleChunks (by decide +kernel)]
  decide +kernel

/-! ### the unconditional statement (G3) -/

/-- **Full statement**: the real run IS the cleaned run, every configuration, settings record, chunking. PROVED in
Thm/Full26.lean (`Full_real_eq_clean`), by a different route than the simulation of this file: the alternative of
`Full_real_eq_clean_run` is excluded by the dispatcher's protocol (`pending_element_aux_info_req` ⇒ the controller has a
pending request, part of `InvY.auxPend`), which needs the dispatcher-level invariant `InvY` and the lifting
`RelQ.parse_eq_of_agree` (Lemmas/ParseRelQ.lean) of "the operations agree on every state with the invariant; the invariant
holds again after a success" through `Parser::parse` for both directives. Here: the reduction `Full_real_eq_clean_partial`. -/
def Full_real_eq_clean_statement : Prop :=
  ∀ (cfg : Cfg) (settings : Settings) (chunks : List Bytes),
    run (genWorld cfg) (Rewriter.new (genWorld cfg) (FullSt.init cfg) settings) chunks =
      run (cleanWorld cfg) (Rewriter.new (cleanWorld cfg) (FullSt.init cfg) settings) chunks

/-- the proved part, as a reduction: it suffices to exclude the internal-class alternative -/
theorem Full_real_eq_clean_partial (h : ∀ cfg settings chunks, ¬ InternalAltRun cfg settings chunks) :
    Full_real_eq_clean_statement := fun cfg settings chunks =>
  (Full_real_eq_clean_run cfg settings chunks).resolve_right (h cfg settings chunks)

/-! ### C11 at `end` -/

/-- **C11_bailout_general_end_real.** `C11_bailout_general_end` — all writes succeeded, `end()` fails with `e`: the exact sink
log (bail-out handlers once and the retained bytes flushed unmodified, or an end handler failed after everything had been
flushed) — for the REAL controller, provided the run is not one of the internal-class alternative
(`InternalAltRun`; e.g. `e ≠ .handler`, see `C11_bailout_general_end_real'`). -/
theorem C11_bailout_general_end_real (cfg : Cfg) (settings : Settings) (chunks : List Bytes) (e : Err)
    (hni : ¬ InternalAltRun cfg settings chunks)
    (hok : ∀ x ∈ (writeAll (genWorld cfg) (Rewriter.new (genWorld cfg) (FullSt.init cfg) settings) chunks).2, x = CallRes.ok)
    (herr : ((writeAll (genWorld cfg) (Rewriter.new (genWorld cfg) (FullSt.init cfg) settings) chunks).1.end (genWorld cfg)).2 = .err e) :
    (C11G.BailLog (cleanWorld cfg) (writeAll (genWorld cfg) (Rewriter.new (genWorld cfg) (FullSt.init cfg) settings) chunks).1.stream
        ((writeAll (genWorld cfg) (Rewriter.new (genWorld cfg) (FullSt.init cfg) settings) chunks).1.end (genWorld cfg)).1.stream
        (writeAll (genWorld cfg) (Rewriter.new (genWorld cfg) (FullSt.init cfg) settings) chunks).1.stream.pending e ∨
     C11G.EndHandlerFail (cleanWorld cfg) (writeAll (genWorld cfg) (Rewriter.new (genWorld cfg) (FullSt.init cfg) settings) chunks).1.stream
        ((writeAll (genWorld cfg) (Rewriter.new (genWorld cfg) (FullSt.init cfg) settings) chunks).1.end (genWorld cfg)).1.stream e) ∧
    ((writeAll (genWorld cfg) (Rewriter.new (genWorld cfg) (FullSt.init cfg) settings) chunks).1.end (genWorld cfg)).1.poisoned = true := by
  rcases Full_real_eq_clean_run_calls cfg settings chunks with ⟨E1, E2⟩ | h
  · have := C11G.C11_bailout_general_end (cleanWorld cfg) C15.C15_gen C15.C15_cert_gen
      (Chunk.R.cleanCtl_clean (fullCtl cfg)) (FullSt.init cfg) settings chunks e (by rw [← E1]; exact hok)
      (by rw [← E1, ← E2]; exact herr)
    rw [← E1, ← E2] at this
    exact this
  · exact absurd h hni

/-- … for every error other than the handler error (e.g. a parser error at `end`), without further hypothesis -/
theorem C11_bailout_general_end_real' (cfg : Cfg) (settings : Settings) (chunks : List Bytes) (e : Err) (hne : e ≠ .handler)
    (hok : ∀ x ∈ (writeAll (genWorld cfg) (Rewriter.new (genWorld cfg) (FullSt.init cfg) settings) chunks).2, x = CallRes.ok)
    (herr : ((writeAll (genWorld cfg) (Rewriter.new (genWorld cfg) (FullSt.init cfg) settings) chunks).1.end (genWorld cfg)).2 = .err e) :
    (C11G.BailLog (cleanWorld cfg) (writeAll (genWorld cfg) (Rewriter.new (genWorld cfg) (FullSt.init cfg) settings) chunks).1.stream
        ((writeAll (genWorld cfg) (Rewriter.new (genWorld cfg) (FullSt.init cfg) settings) chunks).1.end (genWorld cfg)).1.stream
        (writeAll (genWorld cfg) (Rewriter.new (genWorld cfg) (FullSt.init cfg) settings) chunks).1.stream.pending e ∨
     C11G.EndHandlerFail (cleanWorld cfg) (writeAll (genWorld cfg) (Rewriter.new (genWorld cfg) (FullSt.init cfg) settings) chunks).1.stream
        ((writeAll (genWorld cfg) (Rewriter.new (genWorld cfg) (FullSt.init cfg) settings) chunks).1.end (genWorld cfg)).1.stream e) ∧
    ((writeAll (genWorld cfg) (Rewriter.new (genWorld cfg) (FullSt.init cfg) settings) chunks).1.end (genWorld cfg)).1.poisoned = true := by
  refine C11_bailout_general_end_real cfg settings chunks e ?_ hok herr
  rintro ⟨s, _, hm⟩
  simp only [run, List.mem_append, List.mem_singleton] at hm
  rcases hm with hm | hm
  · have := hok _ hm; cases this
  · rw [herr] at hm
    simp only [CallRes.err.injEq] at hm
    exact hne hm.symm

/-- non-vacuity of the hypotheses `hok` / `herr`: a document-end closure of the real controller fails — both writes succeed,
`end` returns the handler error (the `EndHandlerFail` case) -/
def endFailCfg : Cfg := { docs := [{ end_ := some [([], true)] }] }

example : (run (genWorld endFailCfg) (Rewriter.new (genWorld endFailCfg) (FullSt.init endFailCfg) {}) sampleChunks).2
    = [.ok, .ok, .err .handler] := by decide +kernel

end LolHtml.Thm.Full
