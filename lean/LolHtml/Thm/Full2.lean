/-
# Package `full`, part 2 — which general theorems the REAL controller meets

`fullCtl cfg` (Model/FullCtl.lean) against the hypotheses of the general stream theorems:

| hypothesis | met by `fullCtl`? | consequence |
|---|---|---|
| `CleanEnds`            | yes, every cfg (`Full_clean_ends`)          | `C12_real`, `C12_prefix_real` |
| `Observing(All)`       | yes, iff no script mutates (`Full_observing`)| `C01_real`, `C11_real`, `C06_real_output` |
| `CtlNoAmb`             | yes, every cfg (`Full_noAmb`)               | `C03_nonstrict_no_ambiguity_real`, `C03_strict_fails_only_on_guard_real` |
| (none)                 | —                                            | `C03_strict_eq_nonstrict_real` |
| `CtlClean`             | **NO, and no state invariant can repair it** (`Full_ctlClean_unattainable`) | `C14_ranges_all_controllers`, `C11_bailout_general(_end)`, `C15_no_panic(_full)`, `C15_linear_parse` do NOT instantiate |

`CtlClean` asks every callback to return only non-panic errors in EVERY state and for EVERY argument.
The real controller relies on the dispatcher's calling protocol (the end-tag token directly follows
`handle_end_tag` when NEXT_END_TAG is set, the aux-info continuation is only called after an
`InfoRequest`, …): `Full_ctlClean_unattainable` exhibits a sequence of callbacks, each legal on its
own, starting from the initial state of a one-selector configuration, that ends in the
`debug_assert!(false)` of `HandlerVec::inc_user_count` (handlers_dispatcher.rs:58-61, a stale end-tag
handler locator). Every set of states that contains the initial state and is closed under the
callbacks contains that state, so `CtlClean` fails on every such set. What the real controller
satisfies is protocol-relative: `Thm/Full3.lean`.
-/
import LolHtml.Thm.Full
import LolHtml.Thm.C03_Strict
import LolHtml.Thm.C12_Prefix

namespace LolHtml.Thm.Full
open LolHtml LolHtml.Model LolHtml.Model.Full LolHtml.Model.Handlers LolHtml.EditModel LolHtml.Lemmas.Full
open LolHtml.Thm.C01 (run writeAll Rewriter.new)

/-! ## Error taxonomy of the callbacks -/

/-- a handler error or a panic-class error of the model (never memory, never ambiguity) -/
def HP (e : Err) : Prop := e = .handler ∨ (∃ m, e = .panic m) ∨ (∃ m, e = .internal m)

theorem HP.notAmb {e : Err} (h : HP e) : NotAmb e := by
  intro k hk
  rcases h with h | ⟨m, h⟩ | ⟨m, h⟩ <;> rw [h] at hk <;> cases hk

theorem hp_panic (m : String) : HP (.panic m) := Or.inr (Or.inl ⟨m, rfl⟩)

theorem afterVm_hp (s : St) (n : Nat) (vm' : SelVM.Vm) (infos : List SelVM.MatchInfo) (e : Err)
    (h : (s.afterVm n vm' infos).2 = .error e) : HP e := by
  unfold St.afterVm at h
  split at h
  · simp only [Except.error.injEq] at h; rw [← h]; exact hp_panic _
  · simp at h

theorem startTag_hp (s : St) (n : LocalName) (ns : Model.Ns) (e : Err) (h : (startTag s n ns).2 = .err e) : HP e := by
  unfold startTag at h
  split at h
  · simp only [StartTagRes.err.injEq] at h; rw [← h]; exact hp_panic _
  · unfold startTagCore at h
    split at h
    · simp at h
    · split at h
      · simp only [StartTagRes.err.injEq] at h; rw [← h]; exact hp_panic _
      · dsimp only at h
        split at h
        · simp at h
        · rename_i e' he
          simp only [StartTagRes.err.injEq] at h; rw [← h]
          exact afterVm_hp _ _ _ _ _ he
      · simp at h

theorem auxInfo_hp (s : St) (i : AuxInfo) (e : Err) (h : (auxInfo s i).2 = .error e) : HP e := by
  unfold auxInfo at h
  split at h
  · split at h
    · simp only [Except.error.injEq] at h; rw [← h]; exact hp_panic _
    · split at h
      · simp only [Except.error.injEq] at h; rw [← h]; exact hp_panic _
      · exact afterVm_hp _ _ _ _ _ h
  · simp only [Except.error.injEq] at h; rw [← h]; exact Or.inr (Or.inr ⟨_, rfl⟩)

theorem outOf_hp (failed : Bool) (b : Bytes) (e : Err) (h : (outOf failed b).err = some e) : HP e := by
  unfold outOf at h
  split at h
  · simp only [Option.some.injEq] at h; exact Or.inl h.symm
  · simp at h

theorem tokStartTag_hp (cfg : Cfg) (s : St) (name : Bytes) (attrs : List (Bytes × Bytes × AttrOutline)) (ns : Model.Ns)
    (sc : Bool) (raw : Bytes) (src : Range) (base : Nat) (e : Err)
    (h : (tokStartTag cfg s name attrs ns sc raw src base).2.err = some e) : HP e := by
  unfold tokStartTag at h
  split at h
  · split at h
    · simp only [Option.some.injEq] at h; rw [← h]; exact hp_panic _
    · rename_i as hm
      dsimp only at h
      generalize (if 0 < s.disp.removedContent then
        StartTag.apply { name := name, attributes := as, ns := nsEdit ns, selfClosing := sc, raw := raw } (StartTagOp.mut MutOp.remove)
        else { name := name, attributes := as, ns := nsEdit ns, selfClosing := sc, raw := raw }) = st at h
      generalize runClosures cfg.elementScripts kElement Who.element (seeElement ns) Element.applyOps src
          s.disp.element.forEachActive s (Element.new st s.disp.nextElementCanHaveContent) = r at h
      split at h
      · simp only [Option.some.injEq] at h; exact Or.inl h.symm
      · split at h
        · simp only [Option.some.injEq] at h; rw [← h]; exact hp_panic _
        · simp at h
  · simp only [Option.some.injEq] at h; rw [← h]; exact hp_panic _

theorem token_hp (cfg : Cfg) (s : St) (t : Model.Token) (e : Err) (h : (token cfg s t).2.err = some e) : HP e := by
  unfold token at h
  split at h
  · simp only [Option.some.injEq] at h; rw [← h]; exact hp_panic _
  · split at h
    · exact tokStartTag_hp cfg s _ _ _ _ _ _ _ e h
    · unfold tokEndTag at h
      split at h
      · simp only [Option.some.injEq] at h; rw [← h]; exact hp_panic _
      · dsimp only at h
        split at h
        · simp only [Option.some.injEq] at h; rw [← h]; exact hp_panic _
        · simp at h
    · exact outOf_hp _ _ _ h
    · exact outOf_hp _ _ _ h
    · exact outOf_hp _ _ _ h

theorem handleEnd_hp (cfg : Cfg) (s : St) (e : Err) (h : (handleEnd cfg s).2.2 = some e) : HP e := by
  unfold handleEnd at h
  split at h
  · simp only [Option.some.injEq] at h; rw [← h]; exact hp_panic _
  · split at h
    · simp only [Option.some.injEq] at h; rw [← h]; exact hp_panic _
    · dsimp only at h
      split at h
      · simp only [Option.some.injEq] at h; exact Or.inl h.symm
      · simp at h

/-- **Full_error_taxonomy.** Whatever the configuration and the state, an error returned by a callback of
the real controller is a content-handler error or a panic-class error of the model — never a
memory-limit error (the VM's `LimitedVec` is not modelled) and never a parsing ambiguity. -/
theorem Full_error_taxonomy (cfg : Cfg) (g : FullSt cfg) :
    (∀ n ns e, ((fullCtl cfg).startTag g n ns).2 = .err e → HP e) ∧
    (∀ i e, ((fullCtl cfg).auxInfo g i).2 = .error e → HP e) ∧
    (∀ t e, ((fullCtl cfg).token g t).2.err = some e → HP e) ∧
    (∀ e, ((fullCtl cfg).handleEnd g).2.2 = some e → HP e) :=
  ⟨fun n ns e h => startTag_hp g.1 n ns e h, fun i e h => auxInfo_hp g.1 i e h,
   fun t e h => token_hp cfg g.1 t e h, fun e h => handleEnd_hp cfg g.1 e h⟩

/-- **Full_noAmb.** The real controller never returns a parsing-ambiguity error (`CtlNoAmb`). -/
theorem Full_noAmb (cfg : Cfg) : CtlNoAmb (fullCtl cfg) where
  startTag := fun g n ns e h => (startTag_hp g.1 n ns e h).notAmb
  auxInfo := fun g i e h => (auxInfo_hp g.1 i e h).notAmb
  token := fun g t e h => (token_hp cfg g.1 t e h).notAmb
  handleEnd := fun g e h => (handleEnd_hp cfg g.1 e h).notAmb

/-! ## Instantiations -/

variable (tbl : Table) (tags : TagCfg)

/-- **C03_nonstrict_no_ambiguity_real.** With the real controller (every configuration) a non-strict
stream never fails with a parsing ambiguity. -/
theorem C03_nonstrict_no_ambiguity_real (cfg : Cfg) (ht : EmitsChecked tbl = true)
    (s : Stream (FullSt cfg)) (hs : s.parser.x.sim.strict = false) (data : Bytes) (h : Nat) :
    (s.write (fullWorld tbl tags cfg) data).2 ≠ .error (.ambiguity h) ∧
    (s.end (fullWorld tbl tags cfg)).2 ≠ .error (.ambiguity h) :=
  C03.C03_nonstrict_no_ambiguity (fullWorld tbl tags cfg) (Full_noAmb cfg) ht s hs data h

/-- **C03_strict_fails_only_on_guard_real.** With the real controller (every configuration): a
parsing-ambiguity error of `write` / `end` comes from the ambiguity guard refusing a text-mode-switching
tag in select / template-in-select / frameset context, nowhere else. -/
theorem C03_strict_fails_only_on_guard_real (cfg : Cfg) (ht : EmitsChecked tbl = true)
    (hside : Lemmas.Guard.Side tags) (s : Stream (FullSt cfg)) (data : Bytes) (h : Nat) :
    ((s.write (fullWorld tbl tags cfg) data).2 = .error (.ambiguity h) →
      Model.Refusal tags (s.write (fullWorld tbl tags cfg) data).1.parser.x.sim h ∧ h ∈ tags.guardTextSwitch ∧
      (((s.write (fullWorld tbl tags cfg) data).1.parser.x.sim.guard = .inSelect ∧ h ≠ tags.gScript ∧ h ∉ tags.gSelectExit) ∨
       (∃ d, (s.write (fullWorld tbl tags cfg) data).1.parser.x.sim.guard = .inTemplateInSelect d) ∨
       ((s.write (fullWorld tbl tags cfg) data).1.parser.x.sim.guard = .inOrAfterFrameset ∧ h ≠ tags.gNoframes))) ∧
    ((s.end (fullWorld tbl tags cfg)).2 = .error (.ambiguity h) →
      Model.Refusal tags (s.end (fullWorld tbl tags cfg)).1.parser.x.sim h ∧ h ∈ tags.guardTextSwitch) :=
  C03.C03_strict_fails_only_on_guard_ctl (fullWorld tbl tags cfg) (Full_noAmb cfg) ht hside s data h

/-- **C03_strict_eq_nonstrict_real.** With the real controller (every configuration, mutating scripts
included): a strict run in which every call succeeds and the non-strict run on the same chunks give
the same results, the same sink log and the same dispatcher / controller state. -/
theorem C03_strict_eq_nonstrict_real (cfg : Cfg) (ht : EmitsChecked tbl = true) (settings : Settings)
    (hs : settings.strict = true) (chunks : List Bytes)
    (hok : ∀ x ∈ (run (fullWorld tbl tags cfg) (Rewriter.new (fullWorld tbl tags cfg) (FullSt.init cfg) settings) chunks).2,
      x = CallRes.ok) :
    (run (fullWorld tbl tags cfg) (Rewriter.new (fullWorld tbl tags cfg) (FullSt.init cfg) { settings with strict := false }) chunks).2 =
      (run (fullWorld tbl tags cfg) (Rewriter.new (fullWorld tbl tags cfg) (FullSt.init cfg) settings) chunks).2 ∧
    (run (fullWorld tbl tags cfg) (Rewriter.new (fullWorld tbl tags cfg) (FullSt.init cfg) { settings with strict := false }) chunks).1.sink =
      (run (fullWorld tbl tags cfg) (Rewriter.new (fullWorld tbl tags cfg) (FullSt.init cfg) settings) chunks).1.sink ∧
    (run (fullWorld tbl tags cfg) (Rewriter.new (fullWorld tbl tags cfg) (FullSt.init cfg) { settings with strict := false }) chunks).1.stream.disp =
      (run (fullWorld tbl tags cfg) (Rewriter.new (fullWorld tbl tags cfg) (FullSt.init cfg) settings) chunks).1.stream.disp := by
  have := C03.C03_strict_eq_nonstrict_stream (fullWorld tbl tags cfg) ht (FullSt.init cfg) settings hs chunks hok
  exact ⟨this.1, this.2.2.1, this.2.2.2⟩

/-- **C12_prefix_real.** With the real controller (every configuration) and the memory bail-out off: if a
`write` fails under a memory limit after successful writes, the same history under a limit large enough
for all the input succeeds up to there, and the sink bytes of the failed run are a prefix of the other
run's sink bytes after the same call. -/
theorem C12_prefix_real (cfg : Cfg) (s1 s2 : Settings)
    (h1 : s2.strict = s1.strict) (h2 : s2.encoding = s1.encoding) (h3 : s2.bailOnMem = s1.bailOnMem)
    (h4 : s2.bailOnHandler = s1.bailOnHandler) (hoff : s1.bailOnMem = false) (chunks : List Bytes)
    (data : Bytes) (hbig : chunks.flatten.length + data.length ≤ s2.maxMem)
    (hok : ∀ x ∈ (writeAll (fullWorld tbl tags cfg) (Rewriter.new (fullWorld tbl tags cfg) (FullSt.init cfg) s1) chunks).2,
      x = CallRes.ok) (e : Err)
    (herr : ((writeAll (fullWorld tbl tags cfg) (Rewriter.new (fullWorld tbl tags cfg) (FullSt.init cfg) s1) chunks).1.write
      (fullWorld tbl tags cfg) data).2 = .err e) :
    (∀ x ∈ (writeAll (fullWorld tbl tags cfg) (Rewriter.new (fullWorld tbl tags cfg) (FullSt.init cfg) s2) chunks).2, x = CallRes.ok) ∧
    ∃ rest, sinkBytes ((writeAll (fullWorld tbl tags cfg) (Rewriter.new (fullWorld tbl tags cfg) (FullSt.init cfg) s2) chunks).1.write
        (fullWorld tbl tags cfg) data).1.sink =
      sinkBytes ((writeAll (fullWorld tbl tags cfg) (Rewriter.new (fullWorld tbl tags cfg) (FullSt.init cfg) s1) chunks).1.write
        (fullWorld tbl tags cfg) data).1.sink ++ rest :=
  C12P.C12_prefix (fullWorld tbl tags cfg) (Full_clean_ends cfg) (FullSt.init cfg) s1 s2 h1 h2 h3 h4 hoff chunks data hbig hok e herr

/-! ## `CtlClean` cannot be repaired by a state invariant -/

/-- the callbacks as data -/
inductive Call
  | startTag (n : LocalName) (ns : Model.Ns)
  | auxInfo (i : AuxInfo)
  | endTag (n : LocalName)
  | token (t : Model.Token)
  | handleEnd

/-- apply one callback, forgetting what it returns -/
def applyCall (cfg : Cfg) (g : FullSt cfg) : Call → FullSt cfg
  | .startTag n ns => ((fullCtl cfg).startTag g n ns).1
  | .auxInfo i => ((fullCtl cfg).auxInfo g i).1
  | .endTag n => ((fullCtl cfg).endTag g n).1
  | .token t => ((fullCtl cfg).token g t).1
  | .handleEnd => ((fullCtl cfg).handleEnd g).1

def applyCalls (cfg : Cfg) (g : FullSt cfg) (cs : List Call) : FullSt cfg := cs.foldl (applyCall cfg) g

def Err.isPanic : Err → Bool
  | .panic _ => true
  | _ => false

/-- `*` with an element closure that registers an (empty) `on_end_tag` closure -/
def hazardCfg : Cfg := { sels := [([⟨[.universal], []⟩], { element := some [([.onEndTag []], false)] })] }

def tokS (n : UInt8) : Model.Token := .startTag [n] [] .html false [60, n, 62] ⟨0, 3⟩ 0
def tokE (n : UInt8) : Model.Token := .endTag [n] [60, 47, n, 62] ⟨0, 4⟩

/-- `<a>` handled; `</a>` announced to the controller but its token NOT delivered (so `a`'s end-tag
handler stays active); `<b>` handled (its end-tag handler is registered behind the active one);
`</x>` with its token (draining the vector from the first active handler on, `b`'s included); `</b>`. -/
def hazardCalls : List Call :=
  [.startTag (.bytes [97]) .html, .token (tokS 97), .endTag (.bytes [97]),
   .startTag (.bytes [98]) .html, .token (tokS 98), .endTag (.bytes [120]), .token (tokE 120),
   .endTag (.bytes [98])]

/-- **Full_ctlClean_unattainable.** Callbacks of the real controller, each with arguments the dispatcher
could pass, but in an order the dispatcher never produces, lead from the INITIAL state to a state in
which `handle_token` returns a panic-class error (the stale-locator `debug_assert!` of
`HandlerVec::inc_user_count`). -/
theorem Full_ctlClean_unattainable :
    (((fullCtl hazardCfg).token (applyCalls hazardCfg (FullSt.init hazardCfg) hazardCalls) (tokE 98)).2.err.map Err.isPanic)
      = some true := by decide +kernel

/-- consequence: no set of controller states that contains the initial state and is closed under the
callbacks makes all callback errors clean — relativising `CtlClean` to a STATE invariant cannot work;
the invariant has to constrain the order of the calls (the dispatcher's protocol). -/
theorem Full_no_state_invariant_suffices (I : FullSt hazardCfg → Prop) (h0 : I (FullSt.init hazardCfg))
    (hclosed : ∀ g c, I g → I (applyCall hazardCfg g c)) :
    ¬ (∀ g t e, I g → ((fullCtl hazardCfg).token g t).2.err = some e → e.Clean) := by
  intro hclean
  have hI : ∀ (cs : List Call) g, I g → I (applyCalls hazardCfg g cs) := by
    intro cs
    induction cs with
    | nil => intro g hg; exact hg
    | cons c cs ih => intro g hg; exact ih _ (hclosed g c hg)
  have hg := hI hazardCalls _ h0
  have hp := Full_ctlClean_unattainable
  cases he : ((fullCtl hazardCfg).token (applyCalls hazardCfg (FullSt.init hazardCfg) hazardCalls) (tokE 98)).2.err with
  | none => rw [he] at hp; simp at hp
  | some e =>
    have := hclean _ _ e hg he
    rw [he] at hp
    cases e <;> simp_all [Err.isPanic, Err.Clean]

end LolHtml.Thm.Full
