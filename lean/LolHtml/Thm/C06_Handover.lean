import LolHtml.Lemmas.ObsHandover
import LolHtml.Thm.C06_Indep
/-!
# C06 — independence across the scanner ⇄ lexer hand-overs: the per-event step, the exceptions, what is left

The plain run (`H`) may be in tag-scanner mode (its capture flags are empty); the observing run
(`withObs H o`, `o` containing a non-one-shot flag) is always in the lexer. `ObsR false` (`Lemmas/ObsIndep.lean`)
relates the two dispatchers: same `H` state, the observing controller's record of `H`'s flags, flags
`= H's ∪ o'`, same `emission_enabled`, no hint bookkeeping pending, text-node bookkeeping, and
`remaining_content_start` of the plain run not ahead of the observing run's.

Proved — one *event* of the input keeps `ObsR false` and yields corresponding results (or the observing
run panics in the dispatcher, excluded by `C15_no_panic_full`):

| plain run | observing run | theorem |
|---|---|---|
| lexer: tag lexeme | lexer: tag lexeme | `C06_event_tag_lex` (the plain run answers its own directive — `scan` when its flags became empty, then `C06_back_to_scanner`) |
| lexer: non-tag lexeme | lexer: non-tag lexeme | `C06_event_nontag_lex` |
| scanner: nothing | lexer: non-tag lexeme | `C06_event_nontag_scan` |
| scanner: start-tag hint (+ re-lexed tag lexeme if answered `lex`) | lexer: the tag lexeme | `C06_event_start_tag_scan` |
| scanner: end-tag hint (+ re-lexed tag lexeme if answered `lex`) | lexer: the tag lexeme | `C06_event_end_tag_scan` |

Hypotheses these forced on `H` (findings about the MODEL's abstract controller, not about the code):
`EmitDiscipline H` — `should_emit_content` is not changed by `handle_start_tag` / aux-info calls, and only
from false to true by `handle_end_tag` (a hint does not refresh `emission_enabled`, a tag lexeme does);
and the one case `C06_event_end_tag_scan` excludes — emission resumes at an end tag `H` did not ask for:
`handle_end_tag_hint` then forces `NEXT_END_TAG` and the end tag reaches `H.token`, `handle_tag` in lexer
mode does not (`C06_forced_end_tag`) — is harmless only for controllers that pass a token they did not
ask for through unchanged (true of `HtmlRewriteController`, not expressible for an abstract `Controller`).

The exceptions of the full claim, as model runs: `C06_F27_witness` (strict mode), `C06_memory_witness`
(the limit is mode-dependent).

NOT proved — the parser-level induction that feeds these events (section "what is left" at the end;
target: `C06_independence_statement2`).
-/
set_option linter.unusedSimpArgs false
set_option linter.unusedVariables false

namespace LolHtml.Thm.C06
open LolHtml LolHtml.Model LolHtml.Thm.C01

variable {γ : Type}

/-! ### the per-event theorems -/

section
variable {H : Controller γ} {o : Flags} {inp : Bytes}

/-- both runs in the lexer, a tag lexeme -/
theorem C06_event_tag_lex (ho : o.sticky = true) {d' : Disp (γ × Flags)} {d : Disp γ} (h : ObsR false d' d) (lx : TagLexeme) :
    TagOut false (Disp.handleTag (Model.withObs H o) inp lx d') (Disp.handleTag H inp lx d) :=
  handleTag_obs (fun hl => by cases hl) (Or.inl ho) h lx

/-- both runs in the lexer, a non-tag lexeme -/
theorem C06_event_nontag_lex {d' : Disp (γ × Flags)} {d : Disp γ} (h : ObsR false d' d) (lx : NonTagLexeme) :
    DRelO false (Disp.handleNonTag (Model.withObs H o) inp lx d') (Disp.handleNonTag H inp lx d) :=
  handleNonTag_obs h lx

/-- the plain run answered `scan`: its dispatcher is in scan mode -/
theorem C06_back_to_scanner (d : Disp γ) (lx : TagLexeme) (h : (Disp.handleTag H inp lx d).2 = .ok .scan) :
    ScanMode H (Disp.handleTag H inp lx d).1 :=
  handleTag_scanMode d lx h

/-- the plain run scans, a non-tag lexeme -/
theorem C06_event_nontag_scan {d' : Disp (γ × Flags)} {d : Disp γ} (h : ObsR false d' d) (hm : ScanMode H d) (lx : NonTagLexeme) :
    IsPanic (Disp.handleNonTag (Model.withObs H o) inp lx d').2 ∨
    ((Disp.handleNonTag (Model.withObs H o) inp lx d').2 = .ok () ∧
      ObsR false (Disp.handleNonTag (Model.withObs H o) inp lx d').1 d) :=
  nonTag_scan_obs h hm lx

/-- the plain run scans, a start tag -/
theorem C06_event_start_tag_scan (ed : EmitDiscipline H) (ho : o.sticky = true) {d' : Disp (γ × Flags)} {d : Disp γ}
    (h : ObsR false d' d) (hm : ScanMode H d) (lx : TagLexeme) {name : Range} {hsh : Nat} {ns : Ns}
    {as : List AttrOutline} {sc : Bool} (hol : lx.outline = .startTag name hsh ns as sc) {ln : LocalName}
    (hln : LocalName.new inp name hsh = some ln) :
    (∃ e, (Disp.startTagHint H ln ns d).2 = .error e ∧
      (IsPanic (Disp.handleTag (Model.withObs H o) inp lx d').2 ∨ (Disp.handleTag (Model.withObs H o) inp lx d').2 = .error e)) ∨
    ((Disp.startTagHint H ln ns d).2 = .ok .scan ∧
      (IsPanic (Disp.handleTag (Model.withObs H o) inp lx d').2 ∨
       ((Disp.handleTag (Model.withObs H o) inp lx d').2 = .ok .lex ∧
        ObsR false (Disp.handleTag (Model.withObs H o) inp lx d').1 (Disp.startTagHint H ln ns d).1 ∧
        ScanMode H (Disp.startTagHint H ln ns d).1))) ∨
    ((Disp.startTagHint H ln ns d).2 = .ok .lex ∧
      TagOut false (Disp.handleTag (Model.withObs H o) inp lx d') (Disp.handleTag H inp lx (Disp.startTagHint H ln ns d).1)) :=
  startTag_event_obs ed ho h hm lx hol hln

/-- the plain run scans, an end tag (not the forced-`NEXT_END_TAG` case) -/
theorem C06_event_end_tag_scan (ed : EmitDiscipline H) (ho : o.sticky = true) {d' : Disp (γ × Flags)} {d : Disp γ}
    (h : ObsR false d' d) (hm : ScanMode H d) (lx : TagLexeme) {name : Range} {hsh : Nat}
    (hol : lx.outline = .endTag name hsh) {ln : LocalName} (hln : LocalName.new inp name hsh = some ln) :
    ((({ d with ctl := (H.endTag d.ctl ln).1 } : Disp γ).shouldStopRemoving H = true ∧ (H.endTag d.ctl ln).2.nextEndTag = false)) ∨
    ((Disp.endTagHint H ln d).2 = .ok .scan ∧
      (IsPanic (Disp.handleTag (Model.withObs H o) inp lx d').2 ∨
       ((Disp.handleTag (Model.withObs H o) inp lx d').2 = .ok .lex ∧
        ObsR false (Disp.handleTag (Model.withObs H o) inp lx d').1 (Disp.endTagHint H ln d).1 ∧
        ScanMode H (Disp.endTagHint H ln d).1))) ∨
    ((Disp.endTagHint H ln d).2 = .ok .lex ∧
      TagOut false (Disp.handleTag (Model.withObs H o) inp lx d') (Disp.handleTag H inp lx (Disp.endTagHint H ln d).1)) :=
  endTag_event_obs ed ho h hm lx hol hln

/-- the excluded case is a real difference of the two modes: when emission is to resume at an end tag,
the hint forces `NEXT_END_TAG` — the end tag will be handed to `H.token` although `H` did not ask for it;
`handle_tag` in lexer mode (the observing run) takes `H`'s flags as they are -/
theorem C06_forced_end_tag (d : Disp γ) (ln : LocalName) (htp : d.textPending = false)
    (hstop : ({ d with ctl := (H.endTag d.ctl ln).1 } : Disp γ).shouldStopRemoving H = true) :
    (Disp.endTagHint H ln d).1.flags.nextEndTag = true ∧ (Disp.endTagHint H ln d).2 = .ok .lex := by
  unfold Disp.endTagHint
  rw [flush_idle htp, DRes.bind_ok' _ rfl]
  dsimp only
  rw [if_pos hstop]
  unfold Disp.applyHintFlags
  simp [Disp.nextDirective, Flags.isEmpty]

end

/-! ### the exceptions of the full claim, as model runs -/

/-- `<select><noscript ` -/
def f27Input : Bytes := [0x3c,0x73,0x65,0x6c,0x65,0x63,0x74,0x3e,0x3c,0x6e,0x6f,0x73,0x63,0x72,0x69,0x70,0x74,0x20]

/-- **F27 is an exception.** Strict mode, no handlers (`H` = constant empty flags: the tag scanner runs)
versus the same with a text observer: on `<select><noscript ` followed by `end`, the plain run fails
with `ParsingAmbiguity` (the scanner consults the guard at the end of the tag NAME), the observing run
succeeds (the lexer consults it at `emit_tag`, which never comes). In non-strict mode both succeed. -/
theorem C06_F27_witness :
    (run (genWorld 0) (Rewriter.new (genWorld 0) () { strict := true }) [f27Input]).2 =
      [.err (.ambiguity 675124329145), .panicUseAfterError] ∧
    (run (World.withObs (genWorld 0) (Flags.ofNat 1))
      (Rewriter.new (World.withObs (genWorld 0) (Flags.ofNat 1)) ((), Flags.ofNat 0) { strict := true }) [f27Input]).2 = [.ok, .ok] ∧
    (run (genWorld 0) (Rewriter.new (genWorld 0) () { strict := false }) [f27Input]).2 = [.ok, .ok] := by
  decide +kernel

/-- `<!--aaaaaaaa` -/
def memInput : Bytes := [0x3c,0x21,0x2d,0x2d,0x61,0x61,0x61,0x61,0x61,0x61,0x61,0x61]

/-- **the memory limit is mode-dependent.** Limit 4 bytes, one write of an unterminated comment: the tag
scanner holds nothing back (a comment is a rest state, C09), the lexer holds back the whole lexeme in
flight: the plain run succeeds, the observing run reports `MemoryLimitExceeded`. -/
theorem C06_memory_witness :
    (run (genWorld 0) (Rewriter.new (genWorld 0) () { maxMem := 4 }) [memInput]).2 = [.ok, .ok] ∧
    (run (World.withObs (genWorld 0) (Flags.ofNat 1))
      (Rewriter.new (World.withObs (genWorld 0) (Flags.ofNat 1)) ((), Flags.ofNat 0) { maxMem := 4 }) [memInput]).2 =
      [.err .mem, .panicUseAfterError] := by
  decide +kernel

/-! ### statements -/

/-- a token `H` did not ask for is passed through unchanged (what `HtmlRewriteController` does: only the
handlers active for the token's type run); needed for the forced end-tag token -/
def PassThrough (H : Controller γ) : Prop :=
  ∀ g n t, (H.endTag g n).2.nextEndTag = false → (∃ nm raw src, t = Token.endTag nm raw src) →
    H.token (H.endTag g n).1 t = ((H.endTag g n).1, { chunks := [t.raw] })

/-- **C06_independence, full statement with its exact exclusions** (not proved): every controller `H`
with `EmitDiscipline` and `PassThrough`, every sticky observer set, NON-STRICT mode (`C06_F27_witness`),
runs in which neither run reports a memory-limit error (`C06_memory_witness`): same call results, same
final state of `H`; same sink bytes if moreover `H` is observer-only (C01). -/
def C06_independence_statement2 : Prop :=
  ∀ (γ : Type) (w : World γ) (o : Flags) (g : γ) (cfg : Settings) (chunks : List Bytes),
    WfTable w.tbl = true → checkCert w.tbl (computeCert w.tbl) = true →
    (∃ L TT P S, RelexSide w.tbl L TT P S) → CtlClean w.ctl → EmitDiscipline w.ctl → PassThrough w.ctl →
    o.sticky = true → cfg.strict = false →
    let R' := run (World.withObs w o) (Rewriter.new (World.withObs w o) (g, w.ctl.initialFlags g) cfg) chunks
    let R := run w (Rewriter.new w g cfg) chunks
    CallRes.err .mem ∉ R'.2 → CallRes.err .mem ∉ R.2 →
      R'.2 = R.2 ∧ ((∀ x ∈ R.2, x = CallRes.ok) → R'.1.stream.disp.ctl.1 = R.1.stream.disp.ctl)

/-! ### what is left

**What is left** for `C06_independence_statement2`, given the per-event theorems above: the parser-level
alignment of events. For a scanner machine `ms` (plain run, sink `ds`) and a lexer machine `ml` (observing
run, sink `dl`) related as in `C06_scan_lex_simulation` (`Rel`: same cursor, text type, simulator —
scanner one tag event ahead inside a tag), with `ObsR false dl ds` and `ScanMode H ds`, one run of the
scanner's parsing loop is matched by lexer steps such that the calls made on the two sinks form one
event list of the table above: every hint `(ln, ns)` of the scanner faces a tag lexeme `lx` of the lexer
with `LocalName.new inp lx.name lx.hash = some ln` and the same namespace. With logging sinks this is
`C06_run_simulation` (kind, hash, namespace); missing are (1) the name BYTES for names without a hash
(scanner: `tag_name_start..pos`; lexer: the token's name range, possibly in a later chunk after
`adjust_for_next_input`), (2) the same with the dispatchers as sinks (the hand-over `lex` makes the plain
run's lexer re-lex the tag — `C06_relex_same_tag` / `headStart_run` — and land in the registers of the
observing lexer up to dead ones: `closing_quote`, `token_part_start`), (3) the chunk break, where the
retained tails differ (`tag_start` vs `lexeme_start`, C09). -/

end LolHtml.Thm.C06
