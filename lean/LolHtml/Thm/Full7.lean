import LolHtml.Thm.Full6
import LolHtml.Lemmas.RunRelInv
import LolHtml.Lemmas.GuardCompose
/-!
# Package `full`, part 7 — `Full_no_panic` for ALL configurations (tag-scanner mode included): the reduction

`Full_no_panic_lexer` (Thm/Full6.lean) covers the configurations in which the parser never leaves lexer mode.
In the others the tag scanner runs, hands tags over to the lexer on demand, and the controller's callbacks are
spread over TWO dispatcher operations (the hint: `handle_start_tag` / `handle_end_tag`; then the re-lexed tag lexeme:
the aux-info answer and `handle_token`). `Full_no_panic_partial` reduces `Full_no_panic_statement` to two named
hypotheses about a PLAN `P` (per configuration: a guard `Gd` in front of the dispatcher and an invariant `Inv` of
the dispatcher state):

* `Full_scan_ops_statement P` — operation level (package full's domain): from a dispatcher state with `Inv`, each of
  the FOUR operations of the guarded dispatcher over the real controller (`handle_tag`, `handle_non_tag_content`,
  `handle_start_tag_hint`, `handle_end_tag_hint`) either IS the operation over the cleaned controller and, if it
  succeeds, re-establishes `Inv` — or fails with an error that is not of panic / internal class; likewise `finish`.
  (`Inv` has to describe the states BETWEEN a hint and its re-lexed tag as well: the `J`-variant "hint answered lex,
  request pending".)
* `Full_guard_free_statement P` — run level (packages inv / scan): in every run, after every usable prefix, the
  parse call of the next `write` / `end` over the guarded dispatcher IS the call over the real one. For the ARGUMENT
  guard this is `C15_args_valid_run` + `fullCtl_argsCtl` (`Full_args_guardFree` below, no hypothesis); for the guard
  "the tag lexeme that follows a hint answered `lex` is of the hint's kind" it is package scan's re-lexing agreement
  (`C06_relex_same_tag`, `C06_relex_end_tag`), which today is proved for controllers that are clean in EVERY state
  and has to be relativised to an invariant of the sink state the way `ArgsFresh … Dk` was.

The lifting itself — until the first error, both parser directives, invariant of the whole dispatcher state, guard —
is `RelI.run_relI` (Lemmas/RunRelInv.lean) and needs nothing else: the run over the cleaned controller never panics
(`Full_clean_no_panic`, C15 + C06 for clean controllers).
-/
set_option linter.unusedSimpArgs false
set_option linter.unusedVariables false
namespace LolHtml.Thm.Full
open LolHtml LolHtml.Model LolHtml.Model.Full LolHtml.Lemmas.Full
open LolHtml.Thm.C01 (run writeAll Rewriter.new)
open LolHtml.Model.RelI

/-- not of panic / internal class -/
def NP (e : Err) : Prop := ErrOK (fun _ => False) e

theorem NP.parseErr {e : Err} (h : NP e) : RelE.parseErr e = e := by
  cases e <;> first | rfl | exact h.elim

/-- a guard and a dispatcher invariant for every configuration -/
structure ScanPlan (cfg : Cfg) where
  Gd : SGuard (Disp (FullSt cfg))
  Inv : Disp (FullSt cfg) → Prop

/-- **named hypothesis 1 (operations)**: the invariant holds initially, and from a state with the invariant every
operation of the guarded dispatcher over the real controller is the operation over the cleaned controller (and
re-establishes the invariant if it succeeds) or fails with a non-panic error -/
def Full_scan_ops_statement (P : ∀ cfg, ScanPlan cfg) : Prop :=
  ∀ cfg : Cfg, (∀ enc, (P cfg).Inv (Disp.new (fullCtl cfg) (FullSt.init cfg) enc)) ∧
    CtlRelI (genWorld cfg) (Chunk.R.cleanCtl (fullCtl cfg)) (P cfg).Gd (P cfg).Inv NP

/-- **named hypothesis 2 (runs)**: the guard never fires -/
def Full_guard_free_statement (P : ∀ cfg, ScanPlan cfg) : Prop :=
  ∀ (cfg : Cfg) (settings : Settings), GuardFree (genWorld cfg) (P cfg).Gd (FullSt.init cfg) settings

/-- **Full_no_panic_partial.** `Full_no_panic_statement` — every configuration, tag-scanner mode included — from the
two named hypotheses, for any plan. -/
theorem Full_no_panic_partial (P : ∀ cfg, ScanPlan cfg) (h1 : Full_scan_ops_statement P)
    (h2 : Full_guard_free_statement P) : Full_no_panic_statement := by
  intro cfg settings chunks x hx
  obtain ⟨hI, hL⟩ := h1 cfg
  have hx' : x ∈ (run (genWorld cfg) (Rewriter.new (genWorld cfg) (FullSt.init cfg) settings) chunks).2 := hx
  rcases run_relI hL C03.C03_emitsChecked_gen (FullSt.init cfg) settings (hI settings.encoding) (h2 cfg settings) chunks x hx'
    with k | k | ⟨e', ⟨e, hG, hee⟩, hxe⟩
  · exact Full_clean_no_panic cfg settings chunks x k
  · rw [k]; trivial
  · rw [hxe]
    rcases hee with rfl | rfl
    · exact hG
    · rw [hG.parseErr]; exact hG

/-! ### hypothesis 2 for the argument guard: proved -/

/-- the argument guard of package inv as a (state-independent) guard of this file -/
def argSGuard (cfg : Cfg) : SGuard (Disp (FullSt cfg)) :=
  { tag := fun inp lx _ => (argGuard argSite).tag inp lx, nonTag := fun inp lx _ => (argGuard argSite).nonTag inp lx }

theorem guardS_argS (cfg : Cfg) (ops : SinkOps (Disp (FullSt cfg))) : guardS (argSGuard cfg) ops = guardArgs (argGuard argSite) ops := rfl

/-- **Full_args_guardFree.** For the real controller, every configuration, settings record and run: the argument
guard never fires (scanner mode included). -/
theorem Full_args_guardFree (cfg : Cfg) (settings : Settings) :
    GuardFree (genWorld cfg) (argSGuard cfg) (FullSt.init cfg) settings := by
  intro pre hu
  have ht : ArgsTable (genWorld cfg).tbl (computeCert Gen.Syntax.table) (computeRaw Gen.Syntax.table) := C15.C15_argsTable_gen
  obtain ⟨a1, a2⟩ := args_valid_run (Dk := DkFull cfg) ht argSite_T2 argSite_ne (fullCtl_argsCtl cfg) (FullSt.init cfg) settings
    (Chunk.R.init_DO cfg) pre hu
  exact ⟨fun data s1 chunk hcf => (a1 data s1 chunk hcf).1, a2.1⟩

/-! ### with the argument part of the guard discharged -/

/-- a plan whose guard is the argument guard on top of a "kind" guard `K` -/
def argsPlan (K : ∀ cfg, SGuard (Disp (FullSt cfg))) (Inv : ∀ cfg, Disp (FullSt cfg) → Prop) (cfg : Cfg) : ScanPlan cfg :=
  ⟨withArgs argSite (K cfg), Inv cfg⟩

/-- **named hypothesis 2′ (runs)**: the kind guard alone never fires, and its errors are not the argument guard's -/
def Full_kind_guard_free_statement (K : ∀ cfg, SGuard (Disp (FullSt cfg))) : Prop :=
  ∀ (cfg : Cfg), (∀ inp, KFresh argSite (K cfg) inp) ∧
    ∀ settings : Settings, GuardFree (genWorld cfg) (K cfg) (FullSt.init cfg) settings

/-- **Full_no_panic_partial′.** The operations may assume valid lexemes (`TagArgsOK`, `NTLexValid`: the argument guard
is part of the plan's guard) — that part of "the guard never fires" is proved (`guardFree_withArgs`, package inv);
what remains at run level is the kind guard `K` alone. -/
theorem Full_no_panic_partial' (K : ∀ cfg, SGuard (Disp (FullSt cfg))) (Inv : ∀ cfg, Disp (FullSt cfg) → Prop)
    (h1 : Full_scan_ops_statement (argsPlan K Inv)) (h2 : Full_kind_guard_free_statement K) :
    Full_no_panic_statement := by
  refine Full_no_panic_partial (argsPlan K Inv) h1 ?_
  intro cfg settings
  have ht : ArgsTable (genWorld cfg).tbl (computeCert Gen.Syntax.table) (computeRaw Gen.Syntax.table) := C15.C15_argsTable_gen
  exact guardFree_withArgs (Dk := DkFull cfg) ht argSite_T2 argSite_ne (fullCtl_argsCtl cfg) (FullSt.init cfg) settings
    (Chunk.R.init_DO cfg) (h2 cfg).1 ((h2 cfg).2 settings)

end LolHtml.Thm.Full
