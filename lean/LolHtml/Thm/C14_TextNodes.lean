/-
Property C14, text nodes: the two levels of fragmentation put together.

A text node reaches the handlers in pieces for two independent reasons:
  1. LEXEME level (this package): the lexer emits one text lexeme per stretch of text it sees — at the
     latest at the end of every `write` — and the dispatcher calls `feed_text` once per lexeme, then
     `flush_pending` when something else (a tag, a comment, the end) follows. `C14_text_contiguous`
     (Thm/C14_Locations.lean) is about these pieces: consecutive lexemes of a node are adjacent, each
     range is as long as its bytes, the closing chunk sits at the end.
  2. DECODER level (package `enc`): inside `feed_text` one lexeme may be delivered as several chunks
     (output buffer full) and bytes of an incomplete character are held back until the next piece.
     `Enc.C13_ranges` is about these chunks, GIVEN that the pieces fed are laid end to end from `start`.

`C14_text_node_decoder_ranges` discharges that premise from (1): the decoder-level chunks of one text
node are contiguous and cover exactly the interval from the node's first lexeme to its closing chunk.
-/
import LolHtml.Thm.C14_Locations
import LolHtml.Thm.C13_Encoding

namespace LolHtml.Thm.C14
open LolHtml LolHtml.Model LolHtml.Thm.C01

/-- **C14_text_node_decoder_ranges.** Let `l` be the tokens handed to the controller in some history (`Good l` by
`C14_text_contiguous`), and `l[i], …, l[i+n-1]` (`n > 0`) the lexeme-level pieces of a text node that precede `l[i+n]`.
For every lawful encoding, buffer size `≥ 4` and `OutputFull` behaviour of the decoder, feeding the bytes of these
pieces to the text decoder (`feed_text` per piece, then `flush_pending`) yields chunks whose source ranges are
contiguous, start at the first piece's start and end exactly where `l[i+n]` starts; exactly one chunk — the final
one — is `last_in_text_node`; and the text read is the whole-buffer decode of the node's bytes. -/
theorem C14_text_node_decoder_ranges {l : List Token} (h : Good l) (i n : Nat) (hn : i + n < l.length) (hpos : 0 < n)
    (hopen : ∀ k (hk : k < n), OpenText (l[i + k]'(by omega)))
    (e : Enc.Encoding) (EL : e.Lawful) (pol : Enc.Policy e.codec) (cap : Nat) (hcap : 4 ≤ cap) :
    ∃ cs, Enc.textNode e pol cap (l[i]'(by omega)).src.start (((l.drop i).take n).map Token.raw) = some cs ∧
      Enc.chunksText cs = e.codec.decodeAll (((l.drop i).take n).map Token.raw).flatten ∧
      Enc.oneLastAtEnd cs (l[i + n]).src.start ∧
      Enc.rangesContiguous (l[i]'(by omega)).src.start cs (l[i + n]).src.start := by
  have hne : ((l.drop i).take n).map Token.raw ≠ [] := by
    intro hnil
    have := congrArg List.length hnil
    simp only [List.length_map, List.length_take, List.length_drop, List.length_nil] at this
    omega
  obtain ⟨cs, h1, h2, h3, h4⟩ := Enc.C13_decoder e EL pol cap hcap (l[i]'(by omega)).src.start _ hne
  have hlay := (C14_text_node_layout h i n hn hopen).1
  exact ⟨cs, h1, h2, by rw [hlay]; exact h3, by rw [hlay]; exact h4⟩

/-! ### non-vacuity: a text node cut by two `write` boundaries -/

/-- `<p>ab` · `cd` · `e</p>`: one text node `abcde`, three lexemes -/
def textChunks : List Bytes := [[60,112,62,97,98], [99,100], [101,60,47,112,62]]

example : (run ⟨Gen.Syntax.table, Gen.Tags.cfg, withLog (constCtl 31)⟩
      (Rewriter.new ⟨Gen.Syntax.table, Gen.Tags.cfg, withLog (constCtl 31)⟩ ((), []) {}) textChunks).2
    = [.ok, .ok, .ok, .ok] := by decide +kernel

/-- the tokens: `<p>`, text `ab` 3..5, text `cd` 5..7, text `e` 7..8, closing chunk 8..8, `</p>` 8..12 -/
example : ((run ⟨Gen.Syntax.table, Gen.Tags.cfg, withLog (constCtl 31)⟩
      (Rewriter.new ⟨Gen.Syntax.table, Gen.Tags.cfg, withLog (constCtl 31)⟩ ((), []) {}) textChunks).1.stream.disp.ctl.2.map
        fun t => (t.raw, t.src.start, t.src.end))
    = [([60,112,62], 0, 3), ([97,98], 3, 5), ([99,100], 5, 7), ([101], 7, 8), ([], 8, 8), ([60,47,112,62], 8, 12)] := by
  decide +kernel

/-- the theorem applied to the generated table and the observing controller -/
theorem C14_text_contiguous_gen (cfg : Settings) (chunks : List Bytes) :
    Good (run ⟨Gen.Syntax.table, Gen.Tags.cfg, withLog (constCtl 31)⟩
      (Rewriter.new ⟨Gen.Syntax.table, Gen.Tags.cfg, withLog (constCtl 31)⟩ ((), []) cfg) chunks).1.stream.disp.ctl.2 :=
  C14_text_contiguous ⟨Gen.Syntax.table, Gen.Tags.cfg, withLog (constCtl 31)⟩ (·.2) (withLog_logging _)
    emitsChecked_gen ((), []) rfl cfg chunks

/-- … and to a controller whose handler fails (no hypothesis on the controller is needed) -/
theorem C14_text_contiguous_failing (cfg : Settings) (chunks : List Bytes) :
    Good (run ⟨Gen.Syntax.table, Gen.Tags.cfg, withLog failOnComment⟩
      (Rewriter.new ⟨Gen.Syntax.table, Gen.Tags.cfg, withLog failOnComment⟩ ((), []) cfg) chunks).1.stream.disp.ctl.2 :=
  C14_text_contiguous ⟨Gen.Syntax.table, Gen.Tags.cfg, withLog failOnComment⟩ (·.2) (withLog_logging _)
    emitsChecked_gen ((), []) rfl cfg chunks

end LolHtml.Thm.C14
