/-
C10 — memory limit. Theorems about `LolHtml.Model.Memory` (the functions lane `mem` executes:
`MemSys.init`, `MemSys.run`, `MemSys.final`; `MemSys.step` is what `run` iterates).

Setting of every theorem: `s0` is the machine built by `MemSys.init M prealloc itemSize`
(one limiter with limit `M`, one arena preallocated with `prealloc` bytes, one empty `LimitedVec` of
items of `itemSize` bytes), `ops` is an ARBITRARY list of operations
(append / init_with / shift on the arena, push / drain on the vec).
Since the repair of finding F5 (/repo 6a70b0c: `Arena::new` rolls back a preallocation that does not
fit) the accounting, bound and no-panic theorems hold for EVERY `prealloc` (`C10_prealloc_dropped`);
only `C10_monotone` still needs a side condition (`C10_monotone_prealloc_counterexample`).
-/
import LolHtml.Lemmas.Memory

namespace LolHtml.Thm.C10
open LolHtml.Model.Memory

/-- The machine with a preallocation that fits. -/
def fitted (M prealloc i : Nat) : MemSys :=
  { lim := { usage := prealloc, max := M }, arena := { cap := prealloc, data := [] },
    vec := LimitedVec.new i }

/-- The machine whose preallocation was dropped. -/
def dropped (M i : Nat) : MemSys :=
  { lim := { usage := 0, max := M }, arena := { cap := 0, data := [] }, vec := LimitedVec.new i }

/-- `MemSys.init` in closed form: the constructor never fails and never panics (for a `usize`
    preallocation); a preallocation that fits the limit and `isize::MAX` is charged and reserved,
    any other is rolled back. -/
theorem init_eq (M prealloc i : Nat) (hu : prealloc ≤ usizeMax) :
    MemSys.init M prealloc i =
      .ok (if prealloc ≤ M ∧ prealloc ≤ isizeMax then fitted M prealloc i else dropped M i) := by
  have h1 : ¬ usizeMax < prealloc := by omega
  by_cases hM : M < prealloc
  · have : ¬ (prealloc ≤ M ∧ prealloc ≤ isizeMax) := by omega
    simp [MemSys.init, Arena.new, Limiter.new, Limiter.increase, Limiter.decrease, h1, hM, this,
      dropped]
  · by_cases hI : isizeMax < prealloc
    · have : ¬ (prealloc ≤ M ∧ prealloc ≤ isizeMax) := by omega
      simp [MemSys.init, Arena.new, Limiter.new, Limiter.increase, Limiter.decrease, h1, hM, hI,
        this, dropped]
    · have : prealloc ≤ M ∧ prealloc ≤ isizeMax := by omega
      simp [MemSys.init, Arena.new, Limiter.new, Limiter.increase, h1, hM, hI, this, fitted]

/-- A successful construction was given a `usize`. -/
theorem init_usize {M prealloc i : Nat} {s0 : MemSys} (hinit : MemSys.init M prealloc i = .ok s0) :
    prealloc ≤ usizeMax := by
  by_cases h : usizeMax < prealloc
  · simp [MemSys.init, Arena.new, Limiter.new, Limiter.increase, h] at hinit
  · omega

theorem init_cases {M prealloc i : Nat} {s0 : MemSys} (hinit : MemSys.init M prealloc i = .ok s0) :
    (prealloc ≤ M ∧ prealloc ≤ isizeMax ∧ s0 = fitted M prealloc i) ∨
    ((M < prealloc ∨ isizeMax < prealloc) ∧ s0 = dropped M i) := by
  rw [init_eq M prealloc i (init_usize hinit)] at hinit
  split at hinit
  · rename_i h; cases hinit; exact Or.inl ⟨h.1, h.2, rfl⟩
  · rename_i h; cases hinit; exact Or.inr ⟨by omega, rfl⟩

/-- The initial machine satisfies every invariant used below — for EVERY preallocation. -/
theorem init_good {M prealloc i : Nat} {s0 : MemSys}
    (hinit : MemSys.init M prealloc i = .ok s0) : Good M i s0 ∧ Clean s0 := by
  have hs : isizeMax = 9223372036854775807 := rfl
  rcases init_cases hinit with ⟨h1, h2, rfl⟩ | ⟨_, rfl⟩
  · refine ⟨⟨⟨?_, ?_, ?_, ?_, ?_⟩, rfl, rfl, ?_, ?_⟩, ⟨⟨?_, ?_, ?_, ?_, ?_⟩, ?_, ?_⟩⟩ <;>
      simp [fitted, MemSys.allocated, LimitedVec.new, Arena.len] <;> omega
  · refine ⟨⟨⟨?_, ?_, ?_, ?_, ?_⟩, rfl, rfl, ?_, ?_⟩, ⟨⟨?_, ?_, ?_, ?_, ?_⟩, ?_, ?_⟩⟩ <;>
      simp [dropped, MemSys.allocated, LimitedVec.new, Arena.len]

/-- **C10_constructor_total.** Construction never fails and never panics, whatever the limit and
    the preallocation (`HtmlRewriter::new` has no way to report an error). -/
theorem C10_constructor_total (M prealloc i : Nat) (hu : prealloc ≤ usizeMax) :
    ∃ s0, MemSys.init M prealloc i = .ok s0 :=
  ⟨_, init_eq M prealloc i hu⟩

/-- **C10_prealloc_dropped** (the repair of finding F5). A preallocation that does not fit the limit
    (or exceeds `isize::MAX`) leaves the accounted usage at 0 and the buffer capacity at 0: nothing
    that was not allocated stays charged. -/
theorem C10_prealloc_dropped (M prealloc i : Nat) (hu : prealloc ≤ usizeMax)
    (h : M < prealloc ∨ isizeMax < prealloc) :
    MemSys.init M prealloc i = .ok (dropped M i) ∧ (dropped M i).lim.usage = 0 ∧
    (dropped M i).arena.cap = 0 ∧ (dropped M i).allocated = 0 := by
  rw [init_eq M prealloc i hu]
  have : ¬ (prealloc ≤ M ∧ prealloc ≤ isizeMax) := by omega
  simp [this, dropped, MemSys.allocated, LimitedVec.new]

/-- … and a preallocation that fits is charged and reserved exactly. -/
theorem C10_prealloc_fitted (M prealloc i : Nat) (h1 : prealloc ≤ M) (h2 : prealloc ≤ isizeMax) :
    MemSys.init M prealloc i = .ok (fitted M prealloc i) := by
  have hs : isizeMax = 9223372036854775807 := rfl
  have hu : usizeMax = 18446744073709551615 := rfl
  rw [init_eq M prealloc i (by omega)]
  simp [h1, h2]

/-! ### C10_accounting -/

/-- **C10_accounting.** After any operation list, the accounted usage is exactly the memory held
    (arena capacity + vec capacity × item size) plus the charges of the operations that failed
    (which are never rolled back); lengths never exceed capacities. -/
theorem C10_accounting {M prealloc i : Nat} {s0 : MemSys}
    (hinit : MemSys.init M prealloc i = .ok s0)
    (ops : List Op) :
    (s0.final ops).lim.usage = (s0.final ops).allocated + failedCharges (s0.run ops) ∧
    (s0.final ops).arena.len ≤ (s0.final ops).arena.cap ∧
    (s0.final ops).vec.len ≤ (s0.final ops).vec.cap ∧
    (s0.final ops).lim.max = M ∧ (s0.final ops).vec.itemSize = i := by
  obtain ⟨g, c⟩ := init_good hinit
  have h := MemSys.run_accounting ops s0 0 g.inv (by simpa using c.exact)
  obtain ⟨gi, gm, gs, _, _⟩ := (g.run ops).2
  exact ⟨by omega, gi.alen, gi.vlen, gm, gs⟩

/-- **C10_accounting (capacities never shrink).** From any reachable state on, every later state
    has capacities at least as large. -/
theorem C10_capacities_monotone {M prealloc i : Nat} {s0 : MemSys}
    (hinit : MemSys.init M prealloc i = .ok s0)
    (ops₁ ops₂ : List Op) :
    ∀ x ∈ (s0.final ops₁).run ops₂,
      (s0.final ops₁).arena.cap ≤ x.2.arena.cap ∧ (s0.final ops₁).vec.cap ≤ x.2.vec.cap := by
  obtain ⟨g, _⟩ := init_good hinit
  exact MemSys.run_caps_mono ops₂ _ (g.run ops₁).2.inv

/-- Every byte of growth of a successful operation is charged, nothing else is charged, and a charge
    that succeeded passed the check `usage ≤ max` (one step, any reachable state). -/
theorem C10_step_charges {M prealloc i : Nat} {s0 : MemSys}
    (hinit : MemSys.init M prealloc i = .ok s0)
    (ops : List Op) (op : Op) (s' : MemSys) (h : (s0.final ops).step op = .ok s') :
    s'.lim.usage + (s0.final ops).allocated = (s0.final ops).lim.usage + s'.allocated ∧
    ((s'.lim = (s0.final ops).lim ∧ s'.allocated = (s0.final ops).allocated) ∨ s'.lim.usage ≤ M) := by
  obtain ⟨g, _⟩ := init_good hinit
  have gf := (g.run ops).2
  obtain ⟨_, m', _, _, _, ch, ck⟩ := MemSys.step_ok h gf.inv
  refine ⟨ch, ?_⟩
  rcases ck with e | e
  · exact Or.inl e
  · right; have := gf.max; omega

/-! ### C10_bound -/

/-- **C10_bound (memory held, all histories).** In every state of every run — also after failed
    operations — the memory held is within the limit: hence the retained input (`arena.len`) and the
    open-element stack (`vec.cap × itemSize`, a fortiori `vec.len × itemSize`) are within `M`. -/
theorem C10_bound_held {M prealloc i : Nat} {s0 : MemSys}
    (hinit : MemSys.init M prealloc i = .ok s0)
    (ops : List Op) :
    ∀ x ∈ s0.run ops,
      x.2.allocated ≤ M ∧ x.2.arena.len ≤ M ∧ x.2.vec.cap * i ≤ M ∧ x.2.vec.len * i ≤ M := by
  obtain ⟨g, _⟩ := init_good hinit
  intro x hx
  obtain ⟨gi, _, gs, _, gh⟩ := (g.run ops).1 x hx
  have h1 := gi.alen
  have h2 : x.2.vec.len * i ≤ x.2.vec.cap * i := Nat.mul_le_mul_right i gi.vlen
  simp only [MemSys.allocated, gs] at gh ⊢
  omega

/-- **C10_bound (accounted usage).** As long as every operation succeeded, the accounted usage
    equals the memory held and is within the limit. -/
theorem C10_bound {M prealloc i : Nat} {s0 : MemSys}
    (hinit : MemSys.init M prealloc i = .ok s0)
    (ops : List Op) (hok : s0.AllOk ops) :
    (s0.final ops).lim.usage ≤ M ∧ (s0.final ops).lim.usage = (s0.final ops).allocated ∧
    (s0.final ops).arena.len ≤ M ∧ (s0.final ops).vec.cap * i ≤ M := by
  obtain ⟨g, c⟩ := init_good hinit
  obtain ⟨⟨ci, ce, cw⟩, cm, cs⟩ := c.allOk ops hok
  have h1 := ci.alen
  rw [g.max] at cm
  rw [g.isz] at cs
  simp only [MemSys.allocated, cs] at ce
  refine ⟨by omega, by simp only [MemSys.allocated, cs]; omega, by omega, by omega⟩

/-- **C10_bound (the exceeding call fails, it does not panic).** After a run in which every operation
    succeeded, the next operation (respecting its caller contract) either succeeds with usage still
    within `M`, or returns `MemoryLimitExceeded`; it never panics — including the `checked_mul`,
    `capacity + additional` and `previous_usage + byte_count` overflow sites.
    Forced hypothesis: `M ≤ isize::MAX` and `8 × itemSize ≤ isize::MAX`, or (for any `M`, e.g. the
    default `usize::MAX`) twice the memory held plus the incoming slice fits in `usize`. -/
theorem C10_error_not_panic {M prealloc i : Nat} {s0 : MemSys}
    (hinit : MemSys.init M prealloc i = .ok s0)
    (hi : 0 < i) (ops : List Op) (hok : s0.AllOk ops) (op : Op)
    (hop : op.Contract (s0.final ops))
    (hfit : (M ≤ isizeMax ∧ 8 * i ≤ isizeMax) ∨
            2 * (s0.final ops).allocated + op.incoming + 8 * i + 128 ≤ usizeMax) :
    (∃ s', (s0.final ops).step op = .ok s' ∧ s'.lim.usage ≤ M) ∨
    (∃ c s', (s0.final ops).step op = .err c s') := by
  obtain ⟨g, c⟩ := init_good hinit
  obtain ⟨cf, cm, cs⟩ := c.allOk ops hok
  rw [g.max] at cm
  rw [g.isz] at cs
  have hnp := MemSys.step_no_panic (s := s0.final ops) (op := op) cf.inv cf.exact cf.within
    (by omega) hop (by rw [cm, cs]; exact hfit)
  cases hst : (s0.final ops).step op with
  | ok s' =>
    left
    have := (cf.step_ok hst).within
    obtain ⟨_, m', _, _, _, _, _⟩ := MemSys.step_ok hst cf.inv
    exact ⟨s', rfl, by omega⟩
  | err c' s' => right; exact ⟨c', s', rfl⟩
  | panic p => exact absurd hst (hnp p)

/-- In any history (also after failures) the only panics are caller-contract violations or
    `usize` overflows of the accounting arithmetic. -/
theorem C10_panic_sites (s : MemSys) (op : Op) (p : Panic) (h : s.step op = .panic p) :
    ¬ op.Contract s ∨ p = .usageOverflow ∨ p = .arithOverflow ∨ p = .capAssert := by
  rcases MemSys.step_panic h with ⟨k, rfl, _, hk⟩ | ⟨k, rfl, _, hk⟩ | ⟨bs, _, rfl⟩ | ⟨bs, _, rfl, _⟩ |
      ⟨bs, _, rfl, _⟩ | ⟨_, _, hp⟩
  · left; simp only [Op.Contract]; omega
  · left; simp only [Op.Contract]; omega
  · right; right; left; rfl
  · right; left; rfl
  · right; left; rfl
  · rcases hp with ⟨rfl, _⟩ | ⟨rfl, _⟩ | ⟨rfl, _⟩ <;> simp

/-! ### C10_monotone -/

/-- **C10_monotone.** A run in which every operation succeeds under `M` also succeeds under any
    `M' ≥ M`, with the same results and the same states apart from the stored limit — provided the
    preallocation is treated alike under both limits (it fits `M`, or it does not even fit `M'`).
    Without that side condition the statement is false: `C10_monotone_prealloc_counterexample`. -/
theorem C10_monotone {M M' prealloc i : Nat} {s0 : MemSys}
    (hinit : MemSys.init M prealloc i = .ok s0)
    (hM : M ≤ M') (hsame : prealloc ≤ M ∨ M' < prealloc ∨ isizeMax < prealloc)
    (ops : List Op) (hok : s0.AllOk ops) :
    ∃ s0', MemSys.init M' prealloc i = .ok s0' ∧ s0'.AllOk ops ∧
      s0'.final ops = (s0.final ops).withMax M' ∧
      s0'.run ops = (s0.run ops).map (fun x => (x.1, x.2.withMax M')) := by
  have hu := init_usize hinit
  rcases init_cases hinit with ⟨h1, h2, rfl⟩ | ⟨h1, rfl⟩
  · refine ⟨_, C10_prealloc_fitted M' prealloc i (by omega) h2, ?_⟩
    exact MemSys.allOk_mono ops (s := fitted M prealloc i) hM hok
  · refine ⟨_, (C10_prealloc_dropped M' prealloc i hu (by omega)).1, ?_⟩
    exact MemSys.allOk_mono ops (s := dropped M i) hM hok

/-- **Monotonicity fails across the preallocation size** (consequence of the F5 repair, confirmed on
    the real code by lanes `mem` and `memrw`): with `prealloc = 131`, items of 1 byte, the run
    `append 2 bytes; push` succeeds under `M = 130` (the preallocation is dropped: usage 2, then
    2 + 128 = 130) and fails under the LARGER limit `M = 131` (the preallocation is charged: 131 + 128). -/
theorem C10_monotone_prealloc_counterexample :
    ∃ s s', MemSys.init 130 131 1 = .ok s ∧ s.AllOk [.append [1, 2], .push] ∧
      MemSys.init 131 131 1 = .ok s' ∧ ¬ s'.AllOk [.append [1, 2], .push] :=
  ⟨dropped 130 1, fitted 131 131 1, by decide, by decide, by decide, by decide⟩

/-! ### C10_deterministic -/

/-- **C10_deterministic.** The per-operation results and states are a function of
    (limit, preallocation, item size, operation list): `MemSys.init` and `MemSys.run`
    are total functions with no other input (no clock, no address, no allocator answer). Trivial by
    construction of the model; stated for completeness. -/
theorem C10_deterministic (M prealloc i : Nat) (ops : List Op)
    (s0 s0' : MemSys) (h : MemSys.init M prealloc i = .ok s0)
    (h' : MemSys.init M prealloc i = .ok s0') :
    s0.run ops = s0'.run ops ∧ s0.final ops = s0'.final ops := by
  rw [h] at h'; cases h'; exact ⟨rfl, rfl⟩

/-! ### C10 for `TransformStream::write` (retained input) -/

/-- `TransformStream::new`: the initial buffer state satisfies the invariant for every preallocation. -/
theorem ts_new_inv {M prealloc : Nat} {t0 : TS} (hnew : TS.new M prealloc = .ok t0) :
    TSInv M t0 ∧ t0.hasBufferedData = false := by
  by_cases hu : usizeMax < prealloc
  · simp [TS.new, Arena.new, Limiter.new, Limiter.increase, hu] at hnew
  · by_cases hM : M < prealloc
    · simp [TS.new, Arena.new, Limiter.new, Limiter.increase, Limiter.decrease, hu, hM] at hnew
      cases hnew
      exact ⟨⟨by simp [Arena.len], by simp, by simp, rfl⟩, rfl⟩
    · by_cases hI : isizeMax < prealloc
      · simp [TS.new, Arena.new, Limiter.new, Limiter.increase, Limiter.decrease, hu, hM, hI] at hnew
        cases hnew
        exact ⟨⟨by simp [Arena.len], by simp, by simp, rfl⟩, rfl⟩
      · simp [TS.new, Arena.new, Limiter.new, Limiter.increase, hu, hM, hI] at hnew
        cases hnew
        exact ⟨⟨by simp [Arena.len], by simp, by simp; omega, rfl⟩, rfl⟩

/-- **C10_write_retention.** For every limit and every preallocation, for every sequence of writes
    `ws` that all succeed, whatever the parser answers (`consumed`, only assumed `≤` the chunk length):
    bytes in = bytes handed to the sink + bytes retained, the retained bytes are within the limit `M`,
    and so is the buffer's capacity. (`ws` is arbitrary, so this holds after each successful write.) -/
theorem C10_write_retention {M prealloc : Nat} {t0 : TS}
    (hnew : TS.new M prealloc = .ok t0)
    (consumed : Bytes → Nat) (hc : ∀ c, consumed c ≤ c.length)
    (ws : List Bytes) (t' : TS) (out : Nat)
    (hlast : (t0.run consumed ws 0).getLast? = some (.ok, t', out)) :
    t'.retained + out = (ws.map List.length).sum ∧ t'.retained ≤ M ∧ t'.buffer.cap ≤ M ∧
    t'.buffer.cap ≤ t'.lim.usage := by
  obtain ⟨hi, hb⟩ := ts_new_inv hnew
  obtain ⟨i, c, r⟩ := TS.run_last_ok hc ws t0 0 t' out hi hlast
  refine ⟨?_, r, i.held, i.charged⟩
  simpa [TS.retained, TS.pending, hb] using c

/-- One write, any state satisfying the invariant: the pending bytes afterwards are exactly the
    unconsumed tail of (pending ++ data). -/
theorem C10_write_pending {M : Nat} {t t' : TS} {data : Bytes} {consumed : Bytes → Nat}
    (hi : TSInv M t) (hc : ∀ c, consumed c ≤ c.length) (h : t.write data consumed = .ok t') :
    TSInv M t' ∧ t'.pending = (t.pending ++ data).drop (consumed (t.pending ++ data)) ∧
    t'.retained ≤ M :=
  TS.write_ok hi hc h

/-- `write` never triggers the range panic of `Arena::shift`, in any state, for any parser answer. -/
theorem C10_write_no_shift_panic (t : TS) (data : Bytes) (consumed : Bytes → Nat) :
    t.write data consumed ≠ .panic .shiftRange :=
  TS.write_no_shift_panic

/-- The instance lane `memts` executes: the tag-scanner oracle is a legal parser answer, so
    `C10_write_retention` applies to `TS.run … scanConsumed`. -/
theorem C10_write_retention_scan {M prealloc : Nat} {t0 : TS}
    (hnew : TS.new M prealloc = .ok t0)
    (ws : List Bytes) (t' : TS) (out : Nat)
    (hlast : (t0.run scanConsumed ws 0).getLast? = some (.ok, t', out)) :
    t'.retained + out = (ws.map List.length).sum ∧ t'.retained ≤ M :=
  let h := C10_write_retention hnew scanConsumed scanConsumed_le ws t' out hlast
  ⟨h.1, h.2.1⟩

/-! ### non-vacuity -/

/-- `<aa` is retained across writes (init_with, append + shift 0), released by `>`; limit 6 -/
example :
    TS.new 6 2 = .ok ⟨⟨2, 6⟩, ⟨2, []⟩, false⟩ ∧
    (⟨⟨2, 6⟩, ⟨2, []⟩, false⟩ : TS).run scanConsumed [[97, 60, 97, 97], [97, 97], [62, 97]] 0 =
      [(.ok, ⟨⟨3, 6⟩, ⟨3, [60, 97, 97]⟩, true⟩, 1),
       (.ok, ⟨⟨5, 6⟩, ⟨5, [60, 97, 97, 97, 97]⟩, true⟩, 1),
       (.err 2, ⟨⟨7, 6⟩, ⟨5, [60, 97, 97, 97, 97]⟩, true⟩, 1)] := by
  decide

example :
    (⟨⟨2, 7⟩, ⟨2, []⟩, false⟩ : TS).run scanConsumed [[97, 60, 97, 97], [97, 97], [62, 97]] 0 =
      [(.ok, ⟨⟨3, 7⟩, ⟨3, [60, 97, 97]⟩, true⟩, 1),
       (.ok, ⟨⟨5, 7⟩, ⟨5, [60, 97, 97, 97, 97]⟩, true⟩, 1),
       (.ok, ⟨⟨7, 7⟩, ⟨7, [60, 97, 97, 97, 97, 62, 97]⟩, false⟩, 8)] := by
  decide


/-- the default preallocation under a tiny limit (the former F5 witness): dropped, then the buffer
    is allocated on demand and the limit is enforced by `append` as usual -/
example :
    MemSys.init 10 1024 8 = .ok ⟨⟨0, 10⟩, ⟨0, []⟩, ⟨0, 0, 8⟩⟩ ∧
    (⟨⟨0, 10⟩, ⟨0, []⟩, ⟨0, 0, 8⟩⟩ : MemSys).run [.append [1], .append [2, 3, 4, 5, 6, 7, 8, 9, 10, 11]] =
      [(.ok, ⟨⟨1, 10⟩, ⟨1, [1]⟩, ⟨0, 0, 8⟩⟩), (.err 10, ⟨⟨11, 10⟩, ⟨1, [1]⟩, ⟨0, 0, 8⟩⟩)] := by
  decide

/-- a run with a failure in the middle: the failed charge (128) stays, later ops still run -/
example :
    MemSys.init 100 10 8 = .ok ⟨⟨10, 100⟩, ⟨10, []⟩, ⟨0, 0, 8⟩⟩ ∧
    (⟨⟨10, 100⟩, ⟨10, []⟩, ⟨0, 0, 8⟩⟩ : MemSys).run [.initWith [1, 2, 3], .push, .shift 1, .append [4]] =
      [(.ok, ⟨⟨10, 100⟩, ⟨10, [1, 2, 3]⟩, ⟨0, 0, 8⟩⟩),
       (.err 128, ⟨⟨138, 100⟩, ⟨10, [1, 2, 3]⟩, ⟨0, 0, 8⟩⟩),
       (.ok, ⟨⟨138, 100⟩, ⟨10, [2, 3]⟩, ⟨0, 0, 8⟩⟩),
       (.ok, ⟨⟨138, 100⟩, ⟨10, [2, 3, 4]⟩, ⟨0, 0, 8⟩⟩)] := by
  decide

/-- hypotheses of `C10_bound` / `C10_monotone` / `C10_error_not_panic` are satisfiable with growth of
    both buffers (arena 2 → 5 bytes, vec 0 → 16 items of 8 bytes) -/
example :
    MemSys.init 200 2 8 = .ok ⟨⟨2, 200⟩, ⟨2, []⟩, ⟨0, 0, 8⟩⟩ ∧
    (⟨⟨2, 200⟩, ⟨2, []⟩, ⟨0, 0, 8⟩⟩ : MemSys).AllOk [.initWith [1, 2, 3], .push, .append [4, 5], .shift 4] ∧
    ((⟨⟨2, 200⟩, ⟨2, []⟩, ⟨0, 0, 8⟩⟩ : MemSys).final
        [.initWith [1, 2, 3], .push, .append [4, 5], .shift 4]) =
      ⟨⟨133, 200⟩, ⟨5, [5]⟩, ⟨16, 1, 8⟩⟩ := by
  decide

/-- … and the next operation is the one that exceeds: it returns the error -/
example :
    (⟨⟨133, 200⟩, ⟨5, [5]⟩, ⟨16, 16, 8⟩⟩ : MemSys).step .push =
      .err 128 ⟨⟨261, 200⟩, ⟨5, [5]⟩, ⟨16, 16, 8⟩⟩ := by
  decide

/-- the `checked_mul` branch: a (hypothetical) item type of 2^61 bytes makes `8 × itemSize` overflow
    `usize`; the push fails without charging -/
example :
    (⟨⟨0, usizeMax⟩, ⟨0, []⟩, ⟨0, 0, 2305843009213693952⟩⟩ : MemSys).step .push =
      .err 0 ⟨⟨0, usizeMax⟩, ⟨0, []⟩, ⟨0, 0, 2305843009213693952⟩⟩ := by
  decide

end LolHtml.Thm.C10
