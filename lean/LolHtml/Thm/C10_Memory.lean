/-
C10 — memory limit. Theorems about `LolHtml.Model.Memory` (the functions lane `mem` executes:
`MemSys.init`, `MemSys.run`, `MemSys.final`; `MemSys.step` is what `run` iterates).

Setting of every theorem: `s0` is the machine built by `MemSys.init M prealloc itemSize`
(one limiter with limit `M`, one arena preallocated with `prealloc` bytes, one empty `LimitedVec` of
items of `itemSize` bytes), `ops` is an ARBITRARY list of operations
(append / init_with / shift on the arena, push / drain on the vec).
Since the repair of finding F5 (/repo 6823fd9: `Arena::new` clamps the preallocation to the limit and
rolls back a reservation that fails) every theorem holds for EVERY `prealloc`
(`C10_prealloc_clamped`, `C10_prealloc_unreservable`), including `C10_monotone`.
-/
import LolHtml.Lemmas.Memory

namespace LolHtml.Thm.C10
open LolHtml.Model.Memory

/-- The machine whose buffer starts with `size` bytes reserved and charged. -/
def fitted (M size i : Nat) : MemSys :=
  { lim := { usage := size, max := M }, arena := { cap := size, data := [] },
    vec := LimitedVec.new i }

/-- The machine whose preallocation was dropped. -/
def dropped (M i : Nat) : MemSys :=
  { lim := { usage := 0, max := M }, arena := { cap := 0, data := [] }, vec := LimitedVec.new i }

/-- `MemSys.init` in closed form: the constructor never fails and never panics (for a `usize`
    preallocation); `min prealloc M` bytes are charged and reserved, unless that exceeds `isize::MAX`
    (the reservation fails and the charge is rolled back). -/
theorem init_eq (M prealloc i : Nat) (hu : prealloc ≤ usizeMax) :
    MemSys.init M prealloc i =
      .ok (if min prealloc M ≤ isizeMax then fitted M (min prealloc M) i else dropped M i) := by
  have h1 : ¬ usizeMax < min prealloc M := by omega
  have h2 : ¬ M < min prealloc M := by omega
  by_cases hI : isizeMax < min prealloc M
  · have : ¬ min prealloc M ≤ isizeMax := by omega
    simp [MemSys.init, Arena.new, Limiter.new, Limiter.increase, Limiter.decrease, h1, h2, hI, this,
      dropped]
  · have : min prealloc M ≤ isizeMax := by omega
    simp [MemSys.init, Arena.new, Limiter.new, Limiter.increase, h1, h2, hI, this, fitted]

/-- A successful construction was given a `usize` (or a limit that is one). -/
theorem init_usize {M prealloc i : Nat} {s0 : MemSys} (hinit : MemSys.init M prealloc i = .ok s0) :
    min prealloc M ≤ usizeMax := by
  by_cases h : usizeMax < min prealloc M
  · simp [MemSys.init, Arena.new, Limiter.new, Limiter.increase, h] at hinit
  · omega

theorem init_cases {M prealloc i : Nat} {s0 : MemSys} (hinit : MemSys.init M prealloc i = .ok s0) :
    (min prealloc M ≤ isizeMax ∧ s0 = fitted M (min prealloc M) i) ∨
    (isizeMax < min prealloc M ∧ s0 = dropped M i) := by
  have h0 := init_usize hinit
  have h1 : ¬ usizeMax < min prealloc M := by omega
  have h2 : ¬ M < min prealloc M := by omega
  by_cases hI : isizeMax < min prealloc M
  · simp [MemSys.init, Arena.new, Limiter.new, Limiter.increase, Limiter.decrease, h1, h2, hI] at hinit
    cases hinit
    exact Or.inr ⟨hI, rfl⟩
  · simp [MemSys.init, Arena.new, Limiter.new, Limiter.increase, h1, h2, hI] at hinit
    cases hinit
    exact Or.inl ⟨by omega, rfl⟩

/-- The initial machine satisfies every invariant used below — for EVERY preallocation. -/
theorem init_good {M prealloc i : Nat} {s0 : MemSys}
    (hinit : MemSys.init M prealloc i = .ok s0) : Good M i s0 ∧ Clean s0 := by
  have hs : isizeMax = 9223372036854775807 := rfl
  rcases init_cases hinit with ⟨h1, rfl⟩ | ⟨_, rfl⟩
  · refine ⟨⟨⟨?_, ?_, ?_, ?_, ?_⟩, rfl, rfl, ?_, ?_⟩, ⟨⟨?_, ?_, ?_, ?_, ?_⟩, ?_, ?_⟩⟩ <;>
      simp [fitted, MemSys.allocated, LimitedVec.new, Arena.len] <;> omega
  · refine ⟨⟨⟨?_, ?_, ?_, ?_, ?_⟩, rfl, rfl, ?_, ?_⟩, ⟨⟨?_, ?_, ?_, ?_, ?_⟩, ?_, ?_⟩⟩ <;>
      simp [dropped, MemSys.allocated, LimitedVec.new, Arena.len]

/-- **C10_constructor_total.** Construction never fails and never panics, whatever the limit and
    the preallocation (`HtmlRewriter::new` has no way to report an error). -/
theorem C10_constructor_total (M prealloc i : Nat) (hu : prealloc ≤ usizeMax) :
    ∃ s0, MemSys.init M prealloc i = .ok s0 :=
  ⟨_, init_eq M prealloc i hu⟩

/-- **C10_prealloc_fitted.** A preallocation that fits the limit is charged and reserved exactly. -/
theorem C10_prealloc_fitted (M prealloc i : Nat) (h1 : prealloc ≤ M) (h2 : prealloc ≤ isizeMax) :
    MemSys.init M prealloc i = .ok (fitted M prealloc i) := by
  have hs : isizeMax = 9223372036854775807 := rfl
  have hu : usizeMax = 18446744073709551615 := rfl
  rw [init_eq M prealloc i (by omega), Nat.min_eq_left h1]
  simp [h2]

/-- **C10_prealloc_clamped** (the repair of finding F5). A preallocation larger than the limit is
    clamped to it: construction leaves `usage = arena.cap = M` — never more than the limit, and
    nothing charged that is not held. -/
theorem C10_prealloc_clamped (M prealloc i : Nat) (hu : prealloc ≤ usizeMax) (h1 : M < prealloc)
    (h2 : M ≤ isizeMax) :
    MemSys.init M prealloc i = .ok (fitted M M i) ∧ (fitted M M i).lim.usage = M ∧
    (fitted M M i).arena.cap = M ∧ (fitted M M i).allocated = M := by
  rw [init_eq M prealloc i hu, Nat.min_eq_right (Nat.le_of_lt h1)]
  simp [h2, fitted, MemSys.allocated, LimitedVec.new]

/-- **C10_prealloc_unreservable.** If the clamped preallocation exceeds `isize::MAX` the reservation
    fails and the charge is rolled back: `usage = 0`, capacity 0. -/
theorem C10_prealloc_unreservable (M prealloc i : Nat) (hu : prealloc ≤ usizeMax)
    (h : isizeMax < min prealloc M) :
    MemSys.init M prealloc i = .ok (dropped M i) ∧ (dropped M i).lim.usage = 0 ∧
    (dropped M i).arena.cap = 0 := by
  rw [init_eq M prealloc i hu]
  have : ¬ min prealloc M ≤ isizeMax := by omega
  simp [this, dropped]

/-! ### C10_accounting -/

/-- **C10_accounting.** After any operation list, the accounted usage is exactly the memory held
    (arena capacity + vec capacity × item size) plus the charges of the operations that failed
    (which are never rolled back); lengths never exceed capacities. -/
theorem C10_accounting {M prealloc i : Nat} {s0 : MemSys}
    (hinit : MemSys.init M prealloc i = .ok s0)
    (ops : List Op) :
    (s0.final ops).lim.usage = (s0.final ops).allocated + failedCharges (s0.run ops) ∧
    (s0.final ops).arena.len ≤ (s0.final ops).arena.cap ∧
    (s0.final ops).vec.len ≤ (s0.final ops).vec.cap ∧
    (s0.final ops).lim.max = M ∧ (s0.final ops).vec.itemSize = i := by
  obtain ⟨g, c⟩ := init_good hinit
  have h := MemSys.run_accounting ops s0 0 g.inv (by simpa using c.exact)
  obtain ⟨gi, gm, gs, _, _⟩ := (g.run ops).2
  exact ⟨by omega, gi.alen, gi.vlen, gm, gs⟩

/-- **C10_accounting (capacities never shrink).** From any reachable state on, every later state
    has capacities at least as large. -/
theorem C10_capacities_monotone {M prealloc i : Nat} {s0 : MemSys}
    (hinit : MemSys.init M prealloc i = .ok s0)
    (ops₁ ops₂ : List Op) :
    ∀ x ∈ (s0.final ops₁).run ops₂,
      (s0.final ops₁).arena.cap ≤ x.2.arena.cap ∧ (s0.final ops₁).vec.cap ≤ x.2.vec.cap := by
  obtain ⟨g, _⟩ := init_good hinit
  exact MemSys.run_caps_mono ops₂ _ (g.run ops₁).2.inv

/-- Every byte of growth of a successful operation is charged, nothing else is charged, and a charge
    that succeeded passed the check `usage ≤ max` (one step, any reachable state). -/
theorem C10_step_charges {M prealloc i : Nat} {s0 : MemSys}
    (hinit : MemSys.init M prealloc i = .ok s0)
    (ops : List Op) (op : Op) (s' : MemSys) (h : (s0.final ops).step op = .ok s') :
    s'.lim.usage + (s0.final ops).allocated = (s0.final ops).lim.usage + s'.allocated ∧
    ((s'.lim = (s0.final ops).lim ∧ s'.allocated = (s0.final ops).allocated) ∨ s'.lim.usage ≤ M) := by
  obtain ⟨g, _⟩ := init_good hinit
  have gf := (g.run ops).2
  obtain ⟨_, m', _, _, _, ch, ck⟩ := MemSys.step_ok h gf.inv
  refine ⟨ch, ?_⟩
  rcases ck with e | e
  · exact Or.inl e
  · right; have := gf.max; omega

/-! ### C10_bound -/

/-- **C10_bound (memory held, all histories).** In every state of every run — also after failed
    operations — the memory held is within the limit: hence the retained input (`arena.len`) and the
    open-element stack (`vec.cap × itemSize`, a fortiori `vec.len × itemSize`) are within `M`. -/
theorem C10_bound_held {M prealloc i : Nat} {s0 : MemSys}
    (hinit : MemSys.init M prealloc i = .ok s0)
    (ops : List Op) :
    ∀ x ∈ s0.run ops,
      x.2.allocated ≤ M ∧ x.2.arena.len ≤ M ∧ x.2.vec.cap * i ≤ M ∧ x.2.vec.len * i ≤ M := by
  obtain ⟨g, _⟩ := init_good hinit
  intro x hx
  obtain ⟨gi, _, gs, _, gh⟩ := (g.run ops).1 x hx
  have h1 := gi.alen
  have h2 : x.2.vec.len * i ≤ x.2.vec.cap * i := Nat.mul_le_mul_right i gi.vlen
  simp only [MemSys.allocated, gs] at gh ⊢
  omega

/-- **C10_bound (accounted usage).** As long as every operation succeeded, the accounted usage
    equals the memory held and is within the limit. -/
theorem C10_bound {M prealloc i : Nat} {s0 : MemSys}
    (hinit : MemSys.init M prealloc i = .ok s0)
    (ops : List Op) (hok : s0.AllOk ops) :
    (s0.final ops).lim.usage ≤ M ∧ (s0.final ops).lim.usage = (s0.final ops).allocated ∧
    (s0.final ops).arena.len ≤ M ∧ (s0.final ops).vec.cap * i ≤ M := by
  obtain ⟨g, c⟩ := init_good hinit
  obtain ⟨⟨ci, ce, cw⟩, cm, cs⟩ := c.allOk ops hok
  have h1 := ci.alen
  rw [g.max] at cm
  rw [g.isz] at cs
  simp only [MemSys.allocated, cs] at ce
  refine ⟨by omega, by simp only [MemSys.allocated, cs]; omega, by omega, by omega⟩

/-- **C10_bound (the exceeding call fails, it does not panic).** After a run in which every operation
    succeeded, the next operation (respecting its caller contract) either succeeds with usage still
    within `M`, or returns `MemoryLimitExceeded`; it never panics — including the `checked_mul`,
    `capacity + additional` and `previous_usage + byte_count` overflow sites.
    Forced hypothesis: `M ≤ isize::MAX` and `8 × itemSize ≤ isize::MAX`, or (for any `M`, e.g. the
    default `usize::MAX`) twice the memory held plus the incoming slice fits in `usize`. -/
theorem C10_error_not_panic {M prealloc i : Nat} {s0 : MemSys}
    (hinit : MemSys.init M prealloc i = .ok s0)
    (hi : 0 < i) (ops : List Op) (hok : s0.AllOk ops) (op : Op)
    (hop : op.Contract (s0.final ops))
    (hfit : (M ≤ isizeMax ∧ 8 * i ≤ isizeMax) ∨
            2 * (s0.final ops).allocated + op.incoming + 8 * i + 128 ≤ usizeMax) :
    (∃ s', (s0.final ops).step op = .ok s' ∧ s'.lim.usage ≤ M) ∨
    (∃ c s', (s0.final ops).step op = .err c s') := by
  obtain ⟨g, c⟩ := init_good hinit
  obtain ⟨cf, cm, cs⟩ := c.allOk ops hok
  rw [g.max] at cm
  rw [g.isz] at cs
  have hnp := MemSys.step_no_panic (s := s0.final ops) (op := op) cf.inv cf.exact cf.within
    (by omega) hop (by rw [cm, cs]; exact hfit)
  cases hst : (s0.final ops).step op with
  | ok s' =>
    left
    have := (cf.step_ok hst).within
    obtain ⟨_, m', _, _, _, _, _⟩ := MemSys.step_ok hst cf.inv
    exact ⟨s', rfl, by omega⟩
  | err c' s' => right; exact ⟨c', s', rfl⟩
  | panic p => exact absurd hst (hnp p)

/-- In any history (also after failures) the only panics are caller-contract violations or
    `usize` overflows of the accounting arithmetic. -/
theorem C10_panic_sites (s : MemSys) (op : Op) (p : Panic) (h : s.step op = .panic p) :
    ¬ op.Contract s ∨ p = .usageOverflow ∨ p = .arithOverflow ∨ p = .capAssert := by
  rcases MemSys.step_panic h with ⟨k, rfl, _, hk⟩ | ⟨k, rfl, _, hk⟩ | ⟨bs, _, rfl⟩ | ⟨bs, _, rfl, _⟩ |
      ⟨bs, _, rfl, _⟩ | ⟨_, _, hp⟩
  · left; simp only [Op.Contract]; omega
  · left; simp only [Op.Contract]; omega
  · right; right; left; rfl
  · right; left; rfl
  · right; left; rfl
  · rcases hp with ⟨rfl, _⟩ | ⟨rfl, _⟩ | ⟨rfl, _⟩ <;> simp

/-! ### C10_monotone -/

/-- The two initial machines of the same configuration under limits `M ≤ M'` are in the simulation
    relation, whatever the preallocation. -/
theorem init_sim {M M' prealloc i : Nat} {s0 s0' : MemSys}
    (hinit : MemSys.init M prealloc i = .ok s0) (hinit' : MemSys.init M' prealloc i = .ok s0')
    (hM : M ≤ M') (hU : M' ≤ usizeMax) : Sim s0 s0' := by
  have hs : isizeMax = 9223372036854775807 := rfl
  rcases init_cases hinit with ⟨h1, rfl⟩ | ⟨h1, rfl⟩ <;>
    rcases init_cases hinit' with ⟨h1', rfl⟩ | ⟨h1', rfl⟩ <;>
    constructor <;> simp only [fitted, dropped] <;> omega

/-- **C10_monotone.** For every preallocation: a run in which every operation succeeds under `M`
    also succeeds under any `M' ≥ M`, with the same results, the same buffered bytes and the same
    stack after every operation. (The accounting may differ — under the larger limit more of the
    preallocation is reserved — but the final states stay in the simulation relation `Sim`:
    headroom and affordable buffer length under `M'` are at least those under `M`.) -/
theorem C10_monotone {M M' prealloc i : Nat} {s0 : MemSys}
    (hinit : MemSys.init M prealloc i = .ok s0) (hu : prealloc ≤ usizeMax)
    (hM : M ≤ M') (hU : M' ≤ usizeMax) (ops : List Op) (hok : s0.AllOk ops) :
    ∃ s0', MemSys.init M' prealloc i = .ok s0' ∧ s0'.AllOk ops ∧
      (s0'.run ops).map view = (s0.run ops).map view ∧
      (s0'.final ops).arena.data = (s0.final ops).arena.data ∧
      (s0'.final ops).vec = (s0.final ops).vec := by
  obtain ⟨s0', hinit'⟩ := C10_constructor_total M' prealloc i hu
  obtain ⟨r1, r2, r3⟩ := MemSys.allOk_sim ops (init_sim hinit hinit' hM hU) hok
  exact ⟨s0', hinit', r1, r3, r2.data, r2.vec⟩

/-- **C10_monotone, identical states.** When the preallocation fits the smaller limit, the two runs
    go through the same states apart from the stored limit. -/
theorem C10_monotone_same_states {M M' prealloc i : Nat} {s0 : MemSys}
    (hinit : MemSys.init M prealloc i = .ok s0) (hp : prealloc ≤ M) (hp2 : prealloc ≤ isizeMax)
    (hM : M ≤ M') (ops : List Op) (hok : s0.AllOk ops) :
    ∃ s0', MemSys.init M' prealloc i = .ok s0' ∧ s0'.AllOk ops ∧
      s0'.final ops = (s0.final ops).withMax M' ∧
      s0'.run ops = (s0.run ops).map (fun x => (x.1, x.2.withMax M')) := by
  rw [C10_prealloc_fitted M prealloc i hp hp2] at hinit
  cases hinit
  refine ⟨_, C10_prealloc_fitted M' prealloc i (by omega) hp2, ?_⟩
  exact MemSys.allOk_mono ops (s := fitted M prealloc i) hM hok

/-! ### C10_deterministic -/

/-- **C10_deterministic.** The per-operation results and states are a function of
    (limit, preallocation, item size, operation list): `MemSys.init` and `MemSys.run`
    are total functions with no other input (no clock, no address, no allocator answer). Trivial by
    construction of the model; stated for completeness. -/
theorem C10_deterministic (M prealloc i : Nat) (ops : List Op)
    (s0 s0' : MemSys) (h : MemSys.init M prealloc i = .ok s0)
    (h' : MemSys.init M prealloc i = .ok s0') :
    s0.run ops = s0'.run ops ∧ s0.final ops = s0'.final ops := by
  rw [h] at h'; cases h'; exact ⟨rfl, rfl⟩

/-! ### C10 for `TransformStream::write` (retained input) -/

/-- `TransformStream::new`: the initial buffer state satisfies the invariant for every preallocation. -/
theorem ts_new_inv {M prealloc : Nat} {t0 : TS} (hnew : TS.new M prealloc = .ok t0) :
    TSInv M t0 ∧ t0.hasBufferedData = false := by
  have h2 : ¬ M < min prealloc M := by omega
  by_cases hu : usizeMax < min prealloc M
  · simp [TS.new, Arena.new, Limiter.new, Limiter.increase, hu] at hnew
  · by_cases hI : isizeMax < min prealloc M
    · simp [TS.new, Arena.new, Limiter.new, Limiter.increase, Limiter.decrease, hu, h2, hI] at hnew
      cases hnew
      exact ⟨⟨by simp [Arena.len], by simp, by simp, rfl⟩, rfl⟩
    · simp [TS.new, Arena.new, Limiter.new, Limiter.increase, hu, h2, hI] at hnew
      cases hnew
      exact ⟨⟨by simp [Arena.len], by simp, by simp; omega, rfl⟩, rfl⟩

/-- **C10_write_retention.** For every limit and every preallocation, for every sequence of writes
    `ws` that all succeed, whatever the parser answers (`consumed`, only assumed `≤` the chunk length):
    bytes in = bytes handed to the sink + bytes retained, the retained bytes are within the limit `M`,
    and so is the buffer's capacity. (`ws` is arbitrary, so this holds after each successful write.) -/
theorem C10_write_retention {M prealloc : Nat} {t0 : TS}
    (hnew : TS.new M prealloc = .ok t0)
    (consumed : Bytes → Nat) (hc : ∀ c, consumed c ≤ c.length)
    (ws : List Bytes) (t' : TS) (out : Nat)
    (hlast : (t0.run consumed ws 0).getLast? = some (.ok, t', out)) :
    t'.retained + out = (ws.map List.length).sum ∧ t'.retained ≤ M ∧ t'.buffer.cap ≤ M ∧
    t'.buffer.cap ≤ t'.lim.usage := by
  obtain ⟨hi, hb⟩ := ts_new_inv hnew
  obtain ⟨i, c, r⟩ := TS.run_last_ok hc ws t0 0 t' out hi hlast
  refine ⟨?_, r, i.held, i.charged⟩
  simpa [TS.retained, TS.pending, hb] using c

/-- One write, any state satisfying the invariant: the pending bytes afterwards are exactly the
    unconsumed tail of (pending ++ data). -/
theorem C10_write_pending {M : Nat} {t t' : TS} {data : Bytes} {consumed : Bytes → Nat}
    (hi : TSInv M t) (hc : ∀ c, consumed c ≤ c.length) (h : t.write data consumed = .ok t') :
    TSInv M t' ∧ t'.pending = (t.pending ++ data).drop (consumed (t.pending ++ data)) ∧
    t'.retained ≤ M :=
  TS.write_ok hi hc h

/-- `write` never triggers the range panic of `Arena::shift`, in any state, for any parser answer. -/
theorem C10_write_no_shift_panic (t : TS) (data : Bytes) (consumed : Bytes → Nat) :
    t.write data consumed ≠ .panic .shiftRange :=
  TS.write_no_shift_panic

/-- The instance lane `memts` executes: the tag-scanner oracle is a legal parser answer, so
    `C10_write_retention` applies to `TS.run … scanConsumed`. -/
theorem C10_write_retention_scan {M prealloc : Nat} {t0 : TS}
    (hnew : TS.new M prealloc = .ok t0)
    (ws : List Bytes) (t' : TS) (out : Nat)
    (hlast : (t0.run scanConsumed ws 0).getLast? = some (.ok, t', out)) :
    t'.retained + out = (ws.map List.length).sum ∧ t'.retained ≤ M :=
  let h := C10_write_retention hnew scanConsumed scanConsumed_le ws t' out hlast
  ⟨h.1, h.2.1⟩

/-! ### non-vacuity -/

/-- `<aa` is retained across writes (init_with, append + shift 0), released by `>`; limit 6 -/
example :
    TS.new 6 2 = .ok ⟨⟨2, 6⟩, ⟨2, []⟩, false⟩ ∧
    (⟨⟨2, 6⟩, ⟨2, []⟩, false⟩ : TS).run scanConsumed [[97, 60, 97, 97], [97, 97], [62, 97]] 0 =
      [(.ok, ⟨⟨3, 6⟩, ⟨3, [60, 97, 97]⟩, true⟩, 1),
       (.ok, ⟨⟨5, 6⟩, ⟨5, [60, 97, 97, 97, 97]⟩, true⟩, 1),
       (.err 2, ⟨⟨7, 6⟩, ⟨5, [60, 97, 97, 97, 97]⟩, true⟩, 1)] := by
  decide

example :
    (⟨⟨2, 7⟩, ⟨2, []⟩, false⟩ : TS).run scanConsumed [[97, 60, 97, 97], [97, 97], [62, 97]] 0 =
      [(.ok, ⟨⟨3, 7⟩, ⟨3, [60, 97, 97]⟩, true⟩, 1),
       (.ok, ⟨⟨5, 7⟩, ⟨5, [60, 97, 97, 97, 97]⟩, true⟩, 1),
       (.ok, ⟨⟨7, 7⟩, ⟨7, [60, 97, 97, 97, 97, 62, 97]⟩, false⟩, 8)] := by
  decide


/-- the default preallocation under a tiny limit (the former F5 witness): clamped to the limit; the
    10 preallocated bytes are usable, the 11th fails as usual -/
example :
    MemSys.init 10 1024 8 = .ok ⟨⟨10, 10⟩, ⟨10, []⟩, ⟨0, 0, 8⟩⟩ ∧
    (⟨⟨10, 10⟩, ⟨10, []⟩, ⟨0, 0, 8⟩⟩ : MemSys).run [.append [1, 2, 3, 4, 5, 6, 7, 8, 9, 10], .append [11]] =
      [(.ok, ⟨⟨10, 10⟩, ⟨10, [1, 2, 3, 4, 5, 6, 7, 8, 9, 10]⟩, ⟨0, 0, 8⟩⟩),
       (.err 1, ⟨⟨11, 10⟩, ⟨10, [1, 2, 3, 4, 5, 6, 7, 8, 9, 10]⟩, ⟨0, 0, 8⟩⟩)] := by
  decide

/-- `C10_monotone` with different initial capacities (prealloc 20: 12 reserved under M = 12, 20 under
    M' = 30): the run succeeds under both, the accounting differs, data and stack agree -/
example :
    MemSys.init 12 20 1 = .ok ⟨⟨12, 12⟩, ⟨12, []⟩, ⟨0, 0, 1⟩⟩ ∧
    MemSys.init 30 20 1 = .ok ⟨⟨20, 30⟩, ⟨20, []⟩, ⟨0, 0, 1⟩⟩ ∧
    (⟨⟨12, 12⟩, ⟨12, []⟩, ⟨0, 0, 1⟩⟩ : MemSys).AllOk [.initWith [1, 2, 3], .shift 1, .append [4]] ∧
    (⟨⟨20, 30⟩, ⟨20, []⟩, ⟨0, 0, 1⟩⟩ : MemSys).final [.initWith [1, 2, 3], .shift 1, .append [4]] =
      ⟨⟨20, 30⟩, ⟨20, [2, 3, 4]⟩, ⟨0, 0, 1⟩⟩ := by
  decide

/-- a run with a failure in the middle: the failed charge (128) stays, later ops still run -/
example :
    MemSys.init 100 10 8 = .ok ⟨⟨10, 100⟩, ⟨10, []⟩, ⟨0, 0, 8⟩⟩ ∧
    (⟨⟨10, 100⟩, ⟨10, []⟩, ⟨0, 0, 8⟩⟩ : MemSys).run [.initWith [1, 2, 3], .push, .shift 1, .append [4]] =
      [(.ok, ⟨⟨10, 100⟩, ⟨10, [1, 2, 3]⟩, ⟨0, 0, 8⟩⟩),
       (.err 128, ⟨⟨138, 100⟩, ⟨10, [1, 2, 3]⟩, ⟨0, 0, 8⟩⟩),
       (.ok, ⟨⟨138, 100⟩, ⟨10, [2, 3]⟩, ⟨0, 0, 8⟩⟩),
       (.ok, ⟨⟨138, 100⟩, ⟨10, [2, 3, 4]⟩, ⟨0, 0, 8⟩⟩)] := by
  decide

/-- hypotheses of `C10_bound` / `C10_monotone` / `C10_error_not_panic` are satisfiable with growth of
    both buffers (arena 2 → 5 bytes, vec 0 → 16 items of 8 bytes) -/
example :
    MemSys.init 200 2 8 = .ok ⟨⟨2, 200⟩, ⟨2, []⟩, ⟨0, 0, 8⟩⟩ ∧
    (⟨⟨2, 200⟩, ⟨2, []⟩, ⟨0, 0, 8⟩⟩ : MemSys).AllOk [.initWith [1, 2, 3], .push, .append [4, 5], .shift 4] ∧
    ((⟨⟨2, 200⟩, ⟨2, []⟩, ⟨0, 0, 8⟩⟩ : MemSys).final
        [.initWith [1, 2, 3], .push, .append [4, 5], .shift 4]) =
      ⟨⟨133, 200⟩, ⟨5, [5]⟩, ⟨16, 1, 8⟩⟩ := by
  decide

/-- … and the next operation is the one that exceeds: it returns the error -/
example :
    (⟨⟨133, 200⟩, ⟨5, [5]⟩, ⟨16, 16, 8⟩⟩ : MemSys).step .push =
      .err 128 ⟨⟨261, 200⟩, ⟨5, [5]⟩, ⟨16, 16, 8⟩⟩ := by
  decide

/-- the `checked_mul` branch: a (hypothetical) item type of 2^61 bytes makes `8 × itemSize` overflow
    `usize`; the push fails without charging -/
example :
    (⟨⟨0, usizeMax⟩, ⟨0, []⟩, ⟨0, 0, 2305843009213693952⟩⟩ : MemSys).step .push =
      .err 0 ⟨⟨0, usizeMax⟩, ⟨0, []⟩, ⟨0, 0, 2305843009213693952⟩⟩ := by
  decide

end LolHtml.Thm.C10
