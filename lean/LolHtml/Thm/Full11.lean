/-
# Package `full`, part 11 — the operation-level hypothesis of scanner mode (`Full_scan_opsH_statement`)

## Finding: the hypothesis as stated is FALSE, for every invariant

`CtlRelG` asks for `RelE.OpsRelE … (IRel Inv) NP`: an operation that fails IN BOTH RUNS WITH THE SAME ERROR has to
re-establish `Inv`, unless the error is of the class `NP` (no panic). But one failure of the dispatcher is neither: its
own bounds check `emit_chunk_before_lexeme` (`remaining_content_start ≤ lexeme.raw.start`). The argument guard
(`TagArgsOK`) lets a lexeme through whose raw range starts BEFORE the dispatcher's watermark — `OpsRelE` quantifies over all
lexemes, the parser's register invariant is not available per operation. `handle_tag` then fails after the controller's
tag callback and before the token callback, identically over the real and the cleaned controller, and leaves the controller
in the middle of an event. From there the hazard of Thm/Full2.lean (`Full_ctlClean_unattainable`: `</a>` announced, its token
not delivered) is three successful operations away: the real controller returns a panic where the cleaned one returns the
handler error. `Full_scan_opsH_unsat`: `¬ Full_scan_opsH_statement Inv` for EVERY `Inv` (kernel-checked run of six
operations from the fresh dispatcher of `hazardCfg`).
-/
import LolHtml.Thm.Full9

namespace LolHtml.Thm.Full
open LolHtml LolHtml.Model LolHtml.Model.Full LolHtml.Model.Handlers LolHtml.EditModel LolHtml.Lemmas.Full
open LolHtml.Model.RelI LolHtml.Model.Hint

/-! ## the counterexample -/

/-- `<a></a><b></x></b>` -/
def hzInp : Bytes := [60,97,62, 60,47,97,62, 60,98,62, 60,47,120,62, 60,47,98,62]

def hzS (n : UInt8) (raw name : Range) : TagLexeme := ⟨0, raw, .startTag name (NameHash.ofBytes [n]) .html [] false⟩
def hzE (n : UInt8) (raw name : Range) : TagLexeme := ⟨0, raw, .endTag name (NameHash.ofBytes [n])⟩

/-- `<a>`; an end tag `a` whose raw range starts at 0, BEFORE the watermark 3 the first operation leaves (valid for the
argument guard); `<b>`; `</x>`; `</b>` -/
def hzLx1 : TagLexeme := hzS 97 ⟨0, 3⟩ ⟨1, 2⟩
def hzLx2 : TagLexeme := hzE 97 ⟨0, 4⟩ ⟨1, 2⟩
def hzLx3 : TagLexeme := hzS 98 ⟨7, 10⟩ ⟨8, 9⟩
def hzLx4 : TagLexeme := hzE 120 ⟨10, 14⟩ ⟨12, 13⟩
def hzLx5 : TagLexeme := hzE 98 ⟨14, 18⟩ ⟨16, 17⟩

/-- `handle_tag` of the guarded dispatcher over the real / the cleaned controller with the ghost -/
def hzR (lx : TagLexeme) (d : Disp (FullStH hazardCfg)) : DRes (FullStH hazardCfg) Directive :=
  (guardS (withArgs argSite kindGuard) (dispOps (fullCtlH hazardCfg))).handleTag hzInp lx d
def hzC (lx : TagLexeme) (d : Disp (FullStH hazardCfg)) : DRes (FullStH hazardCfg) Directive :=
  (guardS (withArgs argSite kindGuard) (dispOps (cleanCtlH hazardCfg))).handleTag hzInp lx d

def hzD0 : Disp (FullStH hazardCfg) := Disp.new (fullCtlH hazardCfg) (FullSt.init hazardCfg, none) 0
def hzD1 := (hzR hzLx1 hzD0).1
def hzD2 := (hzR hzLx2 hzD1).1
def hzD3 := (hzR hzLx3 hzD2).1
def hzD4 := (hzR hzLx4 hzD3).1
def hzD5 := (hzR hzLx5 hzD4).1

/-- the result is an error of the class `NP` -/
def npRes {α : Type} : Except Err α → Bool
  | .error (.panic _) => false
  | .error (.internal _) => false
  | .error _ => true
  | .ok _ => false

theorem npRes_of {α : Type} {r : Except Err α} {e : Err} (h : r = .error e) (hn : NP e) : npRes r = true := by
  subst h
  cases e <;> first | rfl | exact hn.elim

def resKind : Except Err Directive → Nat
  | .ok _ => 0
  | .error (.panic _) => 1
  | .error (.internal _) => 2
  | .error _ => 3

theorem hz1 : npRes (hzR hzLx1 hzD0).2 = false := by decide +kernel
theorem hz2 : npRes (hzR hzLx2 hzD1).2 = false := by decide +kernel
theorem hz3 : npRes (hzR hzLx3 hzD2).2 = false := by decide +kernel
theorem hz4 : npRes (hzR hzLx4 hzD3).2 = false := by decide +kernel
theorem hz5 : npRes (hzR hzLx5 hzD4).2 = false := by decide +kernel
/-- the second operation fails (a panic: the dispatcher's own bounds check), the others before the last succeed -/
theorem hz_kinds : (resKind (hzR hzLx1 hzD0).2, resKind (hzR hzLx2 hzD1).2, resKind (hzR hzLx3 hzD2).2,
    resKind (hzR hzLx4 hzD3).2) = (0, 1, 0, 0) := by decide +kernel
/-- `</b>` runs into the stale locator inside `handle_end_tag`, which cannot return an error: the fault is recorded … -/
theorem hz5_fault : hzD5.ctl.1.1.fault = some dispMsg := by decide +kernel
/-- … and reported by the next operation (`<b>` again): a panic over the real controller, the handler error over the
cleaned one -/
theorem hz6_differ : (resKind (hzR hzLx3 hzD5).2, resKind (hzC hzLx3 hzD5).2) = (1, 3) := by decide +kernel
theorem hz6 : npRes (hzR hzLx3 hzD5).2 = false := by decide +kernel

/-- **Full_scan_opsH_unsat.** No invariant makes the operation-level hypothesis true. -/
theorem Full_scan_opsH_unsat (Inv : ∀ cfg, Disp (FullStH cfg) → Prop) : ¬ Full_scan_opsH_statement Inv := by
  intro h
  obtain ⟨h0, hrel⟩ := h hazardCfg
  have hops := (hrel.ops hzInp).handleTag
  have step : ∀ (lx : TagLexeme) (d : Disp (FullStH hazardCfg)), Inv hazardCfg d → npRes (hzR lx d).2 = false →
      Inv hazardCfg (hzR lx d).1 ∧ (hzR lx d).2 = (hzC lx d).2 := by
    intro lx d hd hn
    rcases hops lx d d ⟨rfl, hd⟩ with ⟨⟨_, hi⟩, he⟩ | ⟨e, hG, he⟩
    · exact ⟨hi, he⟩
    · have he' : (hzR lx d).2 = .error e := he
      have := npRes_of he' hG
      rw [hn] at this
      cases this
  have i1 := (step hzLx1 hzD0 (h0 0) hz1).1
  have i2 := (step hzLx2 hzD1 i1 hz2).1
  have i3 := (step hzLx3 hzD2 i2 hz3).1
  have i4 := (step hzLx4 hzD3 i3 hz4).1
  have i5 := (step hzLx5 hzD4 i4 hz5).1
  have e6 := (step hzLx3 hzD5 i5 hz6).2
  have := hz6_differ
  rw [e6] at this
  revert this
  generalize resKind (hzC hzLx3 hzD5).2 = k
  intro hk
  simp only [Prod.mk.injEq] at hk
  omega

/-! ## a statement that can be true

Two repairs are possible. (A) Weaken `CtlRelG.ops`: an operation that fails identically in both runs need not re-establish
the invariant (the form of `LexE.OpsLexE`, Lemmas/LexOnlyE.lean) — then `RelI.parse_relG` cannot go through
`RelE.parse_relE` any more, the two-directive chain has to be redone in that form. (B) Keep `CtlRelG` and put the
dispatcher's watermark into the guard, so that the one non-`NP` failure both runs share is refused BEFORE the
controller is called: `wmGuard`. "The watermark guard never fires" is the register invariant of package inv
(`PInv` / `SInv`: `remaining_content_start ≤ lexeme_start`), a run-level fact like the kind guard's.

With (B) every failure of a guarded operation on a valid lexeme from a protocol state is a callback error: the tag-name,
`to_token` and text-raw slices are valid (`TagArgsOK`, `NTLexValid`), `emit_chunk_before_lexeme` is in range (watermark), the
internal error "Tag should be a start tag" is the kind guard's case. -/

/-- the site of `emit_chunk_before_lexeme` -/
def wmSite : String := "emit_chunk_before_lexeme: range out of bounds"

/-- **the watermark guard**: the lexeme does not start before `remaining_content_start` -/
def wmGuard {γ : Type} : SGuard (Disp γ) :=
  { tag := fun _ lx d => if d.rcs ≤ lx.raw.start then none else some (.panic wmSite)
    nonTag := fun _ lx d => if d.rcs ≤ lx.raw.start then none else some (.panic wmSite) }

/-- first `K1`, then `K2` -/
def andGuard {κ : Type} (K1 K2 : SGuard κ) : SGuard κ :=
  { tag := fun inp lx k => match K1.tag inp lx k with | some e => some e | none => K2.tag inp lx k
    nonTag := fun inp lx k => match K1.nonTag inp lx k with | some e => some e | none => K2.nonTag inp lx k }

/-- **the repaired operation-level hypothesis** (NOT proved): as `Full_scan_opsH_statement`, with the watermark guard
added under the argument guard and next to the kind guard. -/
def Full_scan_opsW_statement (Inv : ∀ cfg, Disp (FullStH cfg) → Prop) : Prop :=
  ∀ cfg : Cfg, (∀ enc, Inv cfg (Disp.new (fullCtlH cfg) (FullSt.init cfg, none) enc)) ∧
    CtlRelG (genWorldH cfg) (cleanCtlH cfg) (withArgs argSite (andGuard kindGuard wmGuard)) (Inv cfg) NP

/-- the counterexample above is gone: the second operation is refused by the watermark guard, in the state it was called in -/
example : ((guardS (withArgs argSite (andGuard kindGuard wmGuard)) (dispOps (fullCtlH hazardCfg))).handleTag hzInp hzLx2 hzD1).2 =
    .error (.panic wmSite) := by decide +kernel

end LolHtml.Thm.Full
