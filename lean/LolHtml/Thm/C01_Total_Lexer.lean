import LolHtml.Thm.C01_Total
import LolHtml.Lemmas.LexOnlyDisp
/-!
# C01 — pass-through identity in pure lexer mode, with no run hypothesis at all

`C01_passthrough_total` carries one hypothesis about the run, `hagree` (no call fails with a panic at
a `U2` site: the scanner/lexer agreement of C06). For controllers that always keep the parser in
lexer mode the hypothesis is discharged: the tag scanner never runs, so the lexer is never restarted
from a scanner bookmark, its feedback directive stays `None`, and every tree-builder feedback is
computed from the token being emitted — the `RequestLexeme` callback always fits
(`lexGetFeedback_fits` + `C15_callback_site_local`), and no aux-info request is ever pending.

"Always in lexer mode" is `AlwaysLex ctl`: the initial flags and every per-tag answer are `Sticky`,
i.e. contain TEXT, COMMENTS or DOCTYPES. Merely *non-empty* flags do not suffice: `NEXT_START_TAG`
and `NEXT_END_TAG` are consumed by `to_token` when the tag is produced, so a controller answering
`{NEXT_START_TAG}` is handed the start tag and then the parser switches to the tag scanner (example at
the end of this file).
-/
namespace LolHtml.Thm.C01
open LolHtml LolHtml.Model

variable {γ : Type}

/-- the rewriter is poisoned (then every call answers with the documented panic) or in lexer mode -/
def RLex (r : Rewriter γ) : Prop := r.poisoned = true ∨ SLex r.stream

theorem notU2_of_noU2 {e : Err} (h : NoU2x e) : NotU2 (.err e) := by
  intro st hst he
  simp only [CallRes.err.injEq] at he
  exact h st hst he

theorem write_rlex {w : World γ} (hn : NeverFails w.ctl) (ha : AlwaysLex w.ctl) (r : Rewriter γ) (data : Bytes)
    (hr : RLex r) : NotU2 (r.write w data).2 ∧ RLex (r.write w data).1 := by
  unfold Model.Rewriter.write
  by_cases hp : r.poisoned = true
  · rw [if_pos hp]
    exact ⟨fun _ _ h => (by cases h), Or.inl hp⟩
  · rw [if_neg hp]
    have hs : SLex r.stream := hr.resolve_left hp
    obtain ⟨t1, t2⟩ := Stream.write_lexonly hn ha r.stream data hs
    dsimp only
    cases hres : (r.stream.write w data).2 with
    | ok u => exact ⟨fun _ _ h => (by cases h), Or.inr (t2 hres)⟩
    | error e => exact ⟨notU2_of_noU2 (t1 e hres), Or.inl rfl⟩

theorem writeAll_rlex {w : World γ} (hn : NeverFails w.ctl) (ha : AlwaysLex w.ctl) (chunks : List Bytes)
    (r : Rewriter γ) (hr : RLex r) :
    (∀ x ∈ (writeAll w r chunks).2, NotU2 x) ∧ RLex (writeAll w r chunks).1 := by
  induction chunks generalizing r with
  | nil => exact ⟨fun x hx => (by cases hx), hr⟩
  | cons c cs ih =>
    obtain ⟨h1, h2⟩ := write_rlex hn ha r c hr
    obtain ⟨i1, i2⟩ := ih (r.write w c).1 h2
    simp only [writeAll]
    refine ⟨fun x hx => ?_, i2⟩
    rcases List.mem_cons.mp hx with rfl | hx
    · exact h1
    · exact i1 x hx

theorem end_rlex {w : World γ} (hn : NeverFails w.ctl) (ha : AlwaysLex w.ctl) (r : Rewriter γ) (hr : RLex r) :
    NotU2 (r.end w).2 := by
  unfold Model.Rewriter.end
  by_cases hp : r.poisoned = true
  · rw [if_pos hp]
    exact fun _ _ h => by cases h
  · rw [if_neg hp]
    have hs : SLex r.stream := hr.resolve_left hp
    have t1 := Stream.end_lexonly hn ha r.stream hs
    dsimp only
    cases hres : (r.stream.end w).2 with
    | ok u => exact fun _ _ h => by cases h
    | error e => exact notU2_of_noU2 (t1 e hres)

/-- **Scanner/lexer agreement is vacuous in pure lexer mode**: no call of any run fails with a panic
at a `U2` site. No side-condition on the table is needed for this part. -/
theorem run_notU2_lexer (w : World γ) (hn : NeverFails w.ctl) (ha : AlwaysLex w.ctl) (g : γ) (cfg : Settings)
    (chunks : List Bytes) : ∀ x ∈ (run w (Rewriter.new w g cfg) chunks).2, NotU2 x := by
  have h0 : RLex (Rewriter.new w g cfg) := Or.inr (Stream.new_slex ha g cfg)
  obtain ⟨h1, h2⟩ := writeAll_rlex hn ha chunks _ h0
  intro x hx
  simp only [run, List.mem_append, List.mem_singleton] at hx
  rcases hx with hx | rfl
  · exact h1 x hx
  · exact end_rlex hn ha _ h2

/-- **C01, unconditional, pure lexer mode**: for every table passing the C15 side-conditions, every
observing controller that never fails and always keeps the parser in lexer mode, non-strict settings,
a memory limit ≥ the number of bytes written, and EVERY list of chunks: every `write` and the `end`
return `ok` and the sink receives exactly the bytes written. No hypothesis about the run is left. -/
theorem C01_passthrough_total_lexer (w : World γ) (hwf : WfTable w.tbl = true)
    (hcert : checkCert w.tbl (computeCert w.tbl) = true) (hobs : ObservingAll w.ctl) (hn : NeverFails w.ctl)
    (ha : AlwaysLex w.ctl) (g : γ) (cfg : Settings) (hstrict : cfg.strict = false) (chunks : List Bytes)
    (hmem : chunks.flatten.length ≤ cfg.maxMem) :
    (∀ x ∈ (run w (Rewriter.new w g cfg) chunks).2, x = CallRes.ok) ∧
    sinkBytes (run w (Rewriter.new w g cfg) chunks).1.sink = chunks.flatten :=
  C01_passthrough_total w hwf hcert hobs hn g cfg hstrict chunks hmem (run_notU2_lexer w hn ha g cfg chunks)

theorem constCtl_alwaysLex (f : Nat) (hf : (Flags.ofNat f).Sticky = true) : AlwaysLex (constCtl f) where
  initial := fun _ => hf
  startTag := by
    intro g n ns f' h
    simp only [constCtl, StartTagRes.flags.injEq] at h
    subst h
    exact hf
  endTag := fun _ _ => hf

/-- for the generated table and constant sticky capture flags (e.g. 31 = everything, 1 = text only) -/
theorem C01_passthrough_total_lexer_gen (f : Nat) (hf : (Flags.ofNat f).Sticky = true) (cfg : Settings)
    (hstrict : cfg.strict = false) (chunks : List Bytes) (hmem : chunks.flatten.length ≤ cfg.maxMem) :
    (∀ x ∈ (run (genWorld f) (Rewriter.new (genWorld f) () cfg) chunks).2, x = CallRes.ok) ∧
    sinkBytes (run (genWorld f) (Rewriter.new (genWorld f) () cfg) chunks).1.sink = chunks.flatten :=
  C01_passthrough_total_lexer (genWorld f) LolHtml.Thm.C15.C15_gen LolHtml.Thm.C15.C15_cert_gen
    (constCtl_observing f) (constCtl_neverFails f) (constCtl_alwaysLex f hf) () cfg hstrict chunks hmem

example : (Flags.ofNat 31).Sticky = true ∧ (Flags.ofNat 1).Sticky = true ∧ (Flags.ofNat 16).Sticky = true := by decide

/-- non-empty is not enough: flags `{NEXT_START_TAG}` (4) are non-empty, yet after `<a>` the parser is
in tag-scanner mode — `to_token` consumed the flag -/
example : (Flags.ofNat 4).isEmpty = false ∧ (Stream.new (genWorld 4) () {}).parser.directive = .lex ∧
    ((Stream.new (genWorld 4) () {}).write (genWorld 4) [60, 97, 62]).1.parser.directive = .scan := by
  decide +kernel

end LolHtml.Thm.C01
