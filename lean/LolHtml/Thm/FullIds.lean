/-
# Package `full` — `IdsBounded` for every selector set

`Full3.lean` leaves `Full_idsBounded_statement` (every match id stored in the compiled program is a
selector registration index) as a decidable side-condition. Here it is proved for all configurations:

* `IdsLt N` — every match id stored anywhere in a trie (recursively through children / descendants)
  is `< N`; `insertPath` / `Ast.addSelector` / `Ast.ofSelectors` establish it (`ofSelectors_idsLt`).
* `compileList_idOk` … — the compiler only ever writes `compilePredicate p ⟨ids, …⟩` for a node's own
  `ids` into the (initially all-`noop`) instruction vector, so the bound transfers (`compile_idsBounded`).
-/
import LolHtml.Thm.Full3

namespace LolHtml.SelVM
open LolHtml LolHtml.Sel

/-! ## the trie invariant -/

mutual
/-- every match id stored in the subtree of `n` is `< N` -/
def NodeIdsLt (N : Nat) : AstNode → Prop
  | .mk _ ch de ids => (∀ m ∈ ids, m < N) ∧ IdsLt N ch ∧ IdsLt N de
/-- every match id stored in the sibling subtrees is `< N` -/
def IdsLt (N : Nat) : List AstNode → Prop
  | [] => True
  | n :: rest => NodeIdsLt N n ∧ IdsLt N rest
end

theorem idsLt_nil (N : Nat) : IdsLt N [] := by unfold IdsLt; trivial

theorem idsLt_cons {N : Nat} {n : AstNode} {rest : List AstNode} :
    IdsLt N (n :: rest) ↔ NodeIdsLt N n ∧ IdsLt N rest := by
  constructor
  · intro h; unfold IdsLt at h; exact h
  · intro h; unfold IdsLt; exact h

theorem nodeIdsLt_mk {N : Nat} {p : Predicate} {ch de : List AstNode} {ids : List Nat} :
    NodeIdsLt N (.mk p ch de ids) ↔ (∀ m ∈ ids, m < N) ∧ IdsLt N ch ∧ IdsLt N de := by
  constructor
  · intro h; unfold NodeIdsLt at h; exact h
  · intro h; unfold NodeIdsLt; exact h

theorem idsLt_append {N : Nat} (a b : List AstNode) : IdsLt N (a ++ b) ↔ IdsLt N a ∧ IdsLt N b := by
  induction a with
  | nil => simp [idsLt_nil]
  | cons n rest ih =>
    simp only [List.cons_append, idsLt_cons, ih]
    constructor
    · rintro ⟨h1, h2, h3⟩; exact ⟨⟨h1, h2⟩, h3⟩
    · rintro ⟨⟨h1, h2⟩, h3⟩; exact ⟨h1, h2, h3⟩

theorem nodeIdsLt_new (N : Nat) (p : Predicate) : NodeIdsLt N (AstNode.new p) := by
  unfold AstNode.new
  rw [nodeIdsLt_mk]
  exact ⟨(fun m hm => by simp at hm), idsLt_nil N, idsLt_nil N⟩

mutual
theorem nodeIdsLt_mono {N M : Nat} (hNM : N ≤ M) : ∀ (n : AstNode), NodeIdsLt N n → NodeIdsLt M n
  | .mk _ ch de ids => fun h => by
    rw [nodeIdsLt_mk] at h ⊢
    exact ⟨(fun m hm => Nat.lt_of_lt_of_le (h.1 m hm) hNM), idsLt_mono hNM ch h.2.1, idsLt_mono hNM de h.2.2⟩
theorem idsLt_mono {N M : Nat} (hNM : N ≤ M) : ∀ (nodes : List AstNode), IdsLt N nodes → IdsLt M nodes
  | [] => fun _ => idsLt_nil M
  | n :: rest => fun h => by
    rw [idsLt_cons] at h ⊢
    exact ⟨nodeIdsLt_mono hNM n h.1, idsLt_mono hNM rest h.2⟩
end

theorem mem_denseInsert {m v : Nat} : ∀ {xs : List Nat}, m ∈ DenseHashSet.insert xs v → m ∈ xs ∨ m = v := by
  intro xs
  induction xs with
  | nil => intro h; simp [DenseHashSet.insert] at h; exact Or.inr h
  | cons x xs ih =>
    intro h
    unfold DenseHashSet.insert at h
    split at h
    · rcases List.mem_cons.mp h with h | h
      · exact Or.inr h
      · exact Or.inl h
    · split at h
      · exact Or.inl h
      · rcases List.mem_cons.mp h with h | h
        · exact Or.inl (List.mem_cons.mpr (Or.inl h))
        · rcases ih h with h | h
          · exact Or.inl (List.mem_cons.mpr (Or.inr h))
          · exact Or.inr h

/-- the three parts of the split `host_expressions` returns inherit the bound -/
theorem idsLt_host {N : Nat} (p : Predicate) (B : List AstNode) (hB : IdsLt N B) :
    IdsLt N (hostExpressions p B).1 ∧ NodeIdsLt N (hostExpressions p B).2.1 ∧
      IdsLt N (hostExpressions p B).2.2.1 := by
  obtain ⟨_, h2, h3⟩ := hostExpressions_spec p B
  cases hb : (hostExpressions p B).2.2.2 with
  | true =>
    obtain ⟨a, b, c⟩ := h2 hb
    rw [a, b, c]
    exact ⟨hB, nodeIdsLt_new N p, idsLt_nil N⟩
  | false =>
    have e := h3 hb
    rw [e, idsLt_append, idsLt_cons] at hB
    exact ⟨hB.1, hB.2.1, hB.2.2⟩

theorem idsLt_rebuild {N : Nat} {a b : List AstNode} {n : AstNode} (ha : IdsLt N a) (hn : NodeIdsLt N n)
    (hb : IdsLt N b) : IdsLt N (a ++ [n] ++ b) := by
  rw [idsLt_append, idsLt_append, idsLt_cons]
  exact ⟨⟨ha, hn, idsLt_nil N⟩, hb⟩

/-- `insertPath` only adds `id` -/
theorem insertPath_idsLt {N : Nat} (id : Nat) (hid : id < N) (last : Predicate) :
    ∀ (path : List (Predicate × Comb)) (B : List AstNode) (cnt : Nat), IdsLt N B →
      IdsLt N (insertPath B cnt path last id).1 := by
  intro path
  induction path with
  | nil =>
    intro B cnt hB
    obtain ⟨h1, h2, h3⟩ := idsLt_host last B hB
    unfold insertPath
    cases hn : (hostExpressions last B).2.1 with
    | mk np ch de ids =>
      simp only [hn]
      rw [hn, nodeIdsLt_mk] at h2
      refine idsLt_rebuild h1 ?_ h3
      rw [nodeIdsLt_mk]
      refine ⟨?_, h2.2.1, h2.2.2⟩
      intro m hm
      rcases mem_denseInsert hm with hm | hm
      · exact h2.1 m hm
      · rw [hm]; exact hid
  | cons x rest ih =>
    obtain ⟨p, c⟩ := x
    intro B cnt hB
    obtain ⟨h1, h2, h3⟩ := idsLt_host p B hB
    unfold insertPath
    cases hn : (hostExpressions p B).2.1 with
    | mk np ch de ids =>
      simp only [hn]
      rw [hn, nodeIdsLt_mk] at h2
      cases c with
      | child =>
        simp only
        refine idsLt_rebuild h1 ?_ h3
        rw [nodeIdsLt_mk]
        exact ⟨h2.1, ih ch _ h2.2.1, h2.2.2⟩
      | descendant =>
        simp only
        refine idsLt_rebuild h1 ?_ h3
        rw [nodeIdsLt_mk]
        exact ⟨h2.1, h2.2.1, ih de _ h2.2.2⟩

theorem addSelector_idsLt {N : Nat} (id : Nat) (hid : id < N) : ∀ (sel : SelList) (ast : Ast),
    IdsLt N ast.root → IdsLt N (ast.addSelector sel id).root := by
  intro sel
  induction sel with
  | nil => intro ast h; simpa [Ast.addSelector] using h
  | cons cx rest ih =>
    intro ast h
    unfold Ast.addSelector at ih ⊢
    simp only [List.foldl_cons]
    apply ih
    simp only
    exact insertPath_idsLt id hid _ _ _ _ h

/-- **the trie `from_settings` builds only stores registration indices** -/
theorem ofSelectors_idsLt (sels : List SelList) : IdsLt sels.length (Ast.ofSelectors sels).root := by
  unfold Ast.ofSelectors
  have : ∀ (sels : List SelList) (ast : Ast) (k : Nat), IdsLt k ast.root →
      IdsLt (k + sels.length)
        (sels.foldl (fun (acc : Ast × Nat) s => (acc.1.addSelector s acc.2, acc.2 + 1)) (ast, k)).1.root := by
    intro sels
    induction sels with
    | nil => intro ast k h; simpa using h
    | cons s rest ih =>
      intro ast k h
      simp only [List.foldl_cons, List.length_cons]
      have e : k + (rest.length + 1) = (k + 1) + rest.length := by omega
      rw [e]
      apply ih
      exact addSelector_idsLt k (Nat.lt_succ_self k) s ast (idsLt_mono (Nat.le_succ k) _ h)
  have h := this sels {} 0 (idsLt_nil 0)
  simpa using h

/-! ## the compiler copies the ids -/

def IdOk (N : Nat) (c : Compiler) : Prop :=
  ∀ i ∈ c.instructions, ∀ m ∈ i.associatedBranch.matchedIds, m < N

def NodeId (N : Nat) (n : AstNode) : Prop :=
  NodeIdsLt N n → ∀ (c : Compiler) (pos : Nat), IdOk N c → IdOk N (compileNode c n pos)

def ListId (N : Nat) (nodes : List AstNode) : Prop :=
  IdsLt N nodes → ∀ (c : Compiler) (pos : Nat), IdOk N c → IdOk N (compileList c nodes pos)

def BlockId (N : Nat) (nodes : List AstNode) : Prop :=
  IdsLt N nodes → ∀ (c : Compiler), IdOk N c → IdOk N (compileBlock c nodes).1

theorem listId_cons {N : Nat} {n : AstNode} {rest : List AstNode} (hn : NodeId N n) (hr : ListId N rest) :
    ListId N (n :: rest) := by
  intro hb c pos hc
  rw [idsLt_cons] at hb
  rw [compileList_cons]
  exact hr hb.2 _ (pos + 1) (hn hb.1 c pos hc)

theorem blockId_of_list {N : Nat} {nodes : List AstNode} (hl : ListId N nodes) : BlockId N nodes := by
  intro hb c hc
  unfold compileBlock
  by_cases he : nodes.isEmpty = true
  · simp only [he, if_true]; exact hc
  · simp only [he]
    exact hl hb _ _ hc

theorem nodeId_of_blocks {N : Nat} {p : Predicate} {ch de : List AstNode} {ids : List Nat}
    (hc : BlockId N ch) (hd : BlockId N de) : NodeId N (.mk p ch de ids) := by
  intro hb c pos hok
  rw [nodeIdsLt_mk] at hb
  rw [compileNode_eq]
  have h1 := hc hb.2.1 c hok
  have h2 := hd hb.2.2 _ h1
  intro i hi
  simp only at hi
  rcases List.mem_or_eq_of_mem_set hi with hi | hi
  · exact h2 i hi
  · subst hi
    intro m hm
    exact hb.1 m (by simpa [compilePredicate] using hm)

mutual
theorem nodeId (N : Nat) : ∀ (n : AstNode), NodeId N n
  | .mk _ ch de _ => nodeId_of_blocks (blockId_of_list (listId N ch)) (blockId_of_list (listId N de))
theorem listId (N : Nat) : ∀ (nodes : List AstNode), ListId N nodes
  | [] => fun _ c pos hc => by rw [compileList_nil]; exact hc
  | n :: rest => listId_cons (nodeId N n) (listId N rest)
end

/-- every match id in the compiled program is stored in the trie -/
theorem compile_idOk (N : Nat) (ast : Ast) (h : IdsLt N ast.root) :
    ∀ i ∈ (compile ast).instructions, ∀ m ∈ i.associatedBranch.matchedIds, m < N := by
  unfold compile Compiler.compileNodes Compiler.reserve
  simp only
  exact listId N ast.root h
    { instructions := List.replicate ast.cumulativeNodeCount Instruction.noop,
      freeSpaceStart := 0 + ast.root.length, enableNthOfType := false } 0 (by
        intro i hi m hm
        simp only [List.mem_replicate] at hi
        rw [hi.2] at hm
        simp [Instruction.noop] at hm)

end LolHtml.SelVM

namespace LolHtml.Thm.Full
open LolHtml LolHtml.Model LolHtml.Model.Full LolHtml.Model.Handlers LolHtml.EditModel LolHtml.Lemmas.Full

/-- every match id in the program compiled from `sels` is a registration index -/
theorem compile_idsBounded (sels : List Sel.SelList) :
    IdsBounded (SelVM.compile (SelVM.Ast.ofSelectors sels)) sels.length :=
  SelVM.compile_idOk sels.length _ (SelVM.ofSelectors_idsLt sels)

/-- **`Full_idsBounded_statement` holds**: `IdsBounded` is not a side-condition but a theorem. -/
theorem Full_idsBounded : Full_idsBounded_statement := by
  intro cfg
  have h := compile_idsBounded (cfg.sels.map (·.1))
  simpa [theProgram] using h

end LolHtml.Thm.Full

