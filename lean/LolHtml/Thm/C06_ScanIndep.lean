import LolHtml.Lemmas.ScanIndepLegs
import LolHtml.Lemmas.ScanLexEnd
import LolHtml.Thm.C06_Scan
import LolHtml.Thm.C06_FullCtl
/-!
# C06 — the scanner-mode half of handler independence: dispatchers as sinks, in lockstep

The plain run (`H`) is in the tag scanner, the observing run (`withObs H o`, `o` sticky) in the lexer, both
with their DISPATCHERS as sinks (item (2) of "what is left" in `Thm/C06_Handover.lean`, without hand-over).

* `C06_scan_indep_steps` — `Aligned` machines stay `Aligned` under any number of state-function calls made
  in lockstep without a signal. `Aligned` says: same `Common` registers / simulator as in
  `C06_scan_lex_simulation` (via the logging-sink machines, `Lemmas/ScanLexSim.lean`), and the two dispatchers
  are related by `ObsR false` — outside a tag; inside a tag (label `inTag`) the plain run's dispatcher is
  exactly one hint ahead (`C06_aligned_boundary`, `C06_aligned_inTag`). In particular `H` is in the same
  state in both runs at every tag boundary: `C06_scan_indep_same_state`.
  Hypotheses on `H`: `EmitDiscipline`, `StayScan` (a hint is never answered `lex`: rung R1 of the ladder) and
  `HashOnly` (`H` sees a tag name through its hash; item (1) of "what is left").
* `C06_independence_statement3_refuted` — the target `C06_independence_statement3` is FALSE as stated: on
  input `<a ` + `end` the tag scanner has already called `handle_start_tag` (the hint, at the end of the tag
  name) for a tag that the lexer never emits (end of input inside the tag): a controller that counts its
  `handle_start_tag` calls ends in a different state. This is the `inTag` case of `Aligned` at end of input —
  the one-hint-ahead is not a proof artefact. (Not a defect of the code: no handler runs at a hint; the model's
  "final state of `H`" also sees the selector-matching stack.) Corrected target: `C06_independence_statement4`.
* `C06_scan_indep_loop` — the same for a whole run of the parsing loop: both loops run to "end of input" (the
  plain run never leaves the tag scanner), the contexts are aligned at the end (`AlignedX`; the last
  state-function call, in which both machines break, is `Lemmas/ScanLexEnd.lean`).
  `C06_scan_indep_parse_partial` — the same for one `Parser::parse` call of fresh parsers (any `last`): both
  calls succeed; outside a tag `H` is in the same state and the dispatchers are `ObsR false`-related; inside a
  tag the plain run is one hint ahead. This is rung R1 at parser level.
* `C06_scan_indep_loop_resume` — across a chunk break: if both loops report the same consumed byte count (chunk ending in
  text or inside `<`[`/`]name; not after the name, in a comment / doctype / CDATA section), the machines left by
  `break_on_end_of_input` are `Aligned` again.
* `C06_scan_indep_first_write_partial` — the same at the API level for the FIRST `write` of a rewriter (`write_fresh`);
  `stayScan_of_noCapture`: controllers that never capture and never remove content satisfy `StayScan`.
* NOT proved: `Stream` / `Rewriter` level beyond the first `write`, even for R1 (a `write` parses with `last = false` and the two runs
  retain different tails — `tag_start..` vs `lexeme_start..` —, so the `end` call parses different buffers:
  item (3) does not disappear with a single `write`), rung R2 (hand-over), rung R3 — statements at the end.
-/
set_option linter.unusedSimpArgs false
set_option linter.unusedVariables false

namespace LolHtml.Thm.C06
open LolHtml LolHtml.Model LolHtml.Thm.C01

variable {γ : Type}

/-! ### lifting a step-level congruence to `runSteps` -/

theorem runSteps_congS {κ₁ κ₂ : Type} {C : Cong κ₁ κ₂} {env₁ : Env κ₁} {env₂ : Env κ₂} {inp : Bytes}
    (h : C.OkS env₁ env₂ inp) (ht : EmitsChecked env₁.tbl = true) (n : Nat) (m₁ : M κ₁) (m₂ : M κ₂) (hm : C.MR m₁ m₂)
    (m₁' : M κ₁) (h1 : runSteps env₁ inp n m₁ = some m₁') :
    ∃ m₂', runSteps env₂ inp n m₂ = some m₂' ∧ C.MR m₁' m₂' := by
  induction n generalizing m₁ m₂ with
  | zero =>
    simp only [runSteps, Option.some.injEq] at h1
    subst h1
    exact ⟨m₂, rfl, hm⟩
  | succ n ih =>
    simp only [runSteps] at h1 ⊢
    cases hs : (stateFn env₁ inp m₁).2 with
    | some sig => simp [hs] at h1
    | none =>
      simp only [hs] at h1
      rcases Cong.stateFn_congS h ht m₁ m₂ hm with hstop | ⟨hmr, hsig, _⟩
      · obtain ⟨e, he⟩ := h.stop_err _ hstop
        rw [hs] at he; cases he
      · rw [← hsig, hs]
        exact ih _ _ hmr h1

/-- `Parser::parse` when the first run of the parsing loop ends with "end of input" -/
theorem parse_eoi {κ : Type} (env : Env κ) (inp : Bytes) (last : Bool) (p : Parser κ) (k : Nat)
    (h : (runLoop env inp (defaultFuel inp) (p.machine last)).2 = .endOfInput k) :
    Parser.parse env inp last p =
      ({ p.store (runLoop env inp (defaultFuel inp) (p.machine last)).1 with
          x := { (p.store (runLoop env inp (defaultFuel inp) (p.machine last)).1).x with
            prevConsumed := (p.store (runLoop env inp (defaultFuel inp) (p.machine last)).1).x.prevConsumed + k } }, .ok k) := by
  show Parser.parseLoop env inp last ((2 * inp.length + 7) + 1) p = _
  simp only [Parser.parseLoop, h]

/-! ### alignment -/

section
variable (H : Controller γ) (o : Flags) (tbl : Table) (cfg : TagCfg) (P : PLabels)

/-- the plain run's environment -/
abbrev envPlain : Env (Disp γ) := ⟨tbl, cfg, dispOps H⟩
/-- the observing run's environment -/
abbrev envObs : Env (Disp (γ × Flags)) := ⟨tbl, cfg, dispOps (Model.withObs H o)⟩

/-- a scanner machine of the plain run and a lexer machine of the observing run, aligned: there are
logging-sink machines `msL` (scanner) and `mlL` (lexer), related by the simulation relation `RelAt` of
`C06_scan_lex_simulation`, with the same registers and simulator as `ms` resp. `ml`, such that the plain
dispatcher is the fold of `H`'s hint handlers (from `d0`) over the scanner's log, in scan mode, and the
observing dispatcher is `ObsR false`-related to the fold over the lexer's log -/
def Aligned (d0 : Disp γ) (ms : M (Disp γ)) (ml : M (Disp (γ × Flags))) : Prop :=
  ∃ msL mlL : M L, (scanCong H d0).MR ms msL ∧ (lexCong H o d0).MR ml mlL ∧ RelAt cfg P msL mlL

variable {H o tbl cfg P}

/-- **C06_scan_indep_steps.** Aligned machines stay aligned under `n` state-function calls made in lockstep
without a signal on either side, the two DISPATCHERS being the sinks. -/
theorem C06_scan_indep_steps (hside : PhaseOk tbl P = true) (ht : EmitsChecked tbl = true)
    (hs : StayScan H) (hh : HashOnly H) (ed : EmitDiscipline H) (ho : o.sticky = true) (inp : Bytes) (d0 : Disp γ)
    (n : Nat) (ms ms' : M (Disp γ)) (ml ml' : M (Disp (γ × Flags))) (hal : Aligned H o cfg P d0 ms ml)
    (h1 : runSteps (envPlain H tbl cfg) inp n ms = some ms') (h2 : runSteps (envObs H o tbl cfg) inp n ml = some ml') :
    Aligned H o cfg P d0 ms' ml' := by
  obtain ⟨msL, mlL, hS, hL, hrel⟩ := hal
  obtain ⟨msL', e1, hS'⟩ := runSteps_congS (scanS_ok (d0 := d0) (tbl := tbl) (cfg := cfg) (inp := inp) hs hh) ht n ms msL hS ms' h1
  obtain ⟨mlL', e2, hL'⟩ := runSteps_congS (lexL_ok (d0 := d0) (tbl := tbl) (cfg := cfg) (inp := inp) hs hh ed ho) ht n ml mlL hL ml' h2
  exact ⟨msL', mlL', hS', hL', C06_run_simulation tbl cfg P hside inp n msL mlL msL' mlL' hrel e1 e2⟩

/-- **at a tag boundary** (a state not labelled `inTag`) aligned machines have the same `Common` registers
and simulator, the dispatchers are related by `ObsR false`, the plain one in scan mode -/
theorem C06_aligned_boundary {d0 : Disp γ} {ms : M (Disp γ)} {ml : M (Disp (γ × Flags))} (hal : Aligned H o cfg P d0 ms ml)
    (hab : P.at ms.c.state ≠ .inTag) :
    ms.c = ml.c ∧ ms.x.sim = ml.x.sim ∧ ObsR false ml.x.sink ms.x.sink ∧ ScanMode H ms.x.sink := by
  obtain ⟨msL, mlL, ⟨a1, a2, _, a3, a4, a5⟩, ⟨b1, b2, _, b3, b4, b5⟩, hrel⟩ := hal
  unfold RelAt at hrel
  rw [← a1] at hrel
  obtain ⟨c1, c2, c3⟩ := C06_boundary_agreement cfg _ msL mlL hrel hab
  refine ⟨by rw [a1, b1, c1], by rw [a5, b5, c2], ?_, a4⟩
  rw [a3, c3]
  exact b3

/-- **inside a tag** the plain run's dispatcher is exactly one hint ahead of a dispatcher `D` to which the
observing dispatcher is `ObsR false`-related -/
theorem C06_aligned_inTag {d0 : Disp γ} {ms : M (Disp γ)} {ml : M (Disp (γ × Flags))} (hal : Aligned H o cfg P d0 ms ml)
    (hab : P.at ms.c.state = .inTag) :
    ∃ (D : Disp γ) (ev : TagEv), ObsR false ml.x.sink D ∧ ScanMode H D ∧ ms.x.sink = hintEv H D ev := by
  obtain ⟨msL, mlL, ⟨a1, a2, _, a3, a4, a5⟩, ⟨b1, b2, _, b3, b4, b5⟩, hrel⟩ := hal
  unfold RelAt at hrel
  rw [← a1, hab] at hrel
  obtain ⟨key, f, c1, _, _, _⟩ := C06_inTag_one_ahead cfg msL mlL hrel
  refine ⟨foldHints H d0 mlL.x.sink, evOf key msL.x.sim.currentNs, b3, b4, ?_⟩
  rw [a3, c1, foldHints_snoc]

/-- fresh machines (as built by `Parser.new` for the two runs) over `ObsR false`-related dispatchers are aligned -/
theorem C06_aligned_initial (hdata : P.at tbl.dataState = .outClean) (strict : Bool) {dl : Disp (γ × Flags)} {ds : Disp γ}
    (h : ObsR false dl ds) (hm : ScanMode H ds) :
    Aligned H o cfg P ds (⟨{ state := tbl.dataState }, .scanner {}, { sink := ds, sim := Sim.new strict }⟩ : M (Disp γ))
      ⟨{ state := tbl.dataState }, .lexer {}, { sink := dl, sim := Sim.new strict }⟩ :=
  ⟨⟨{ state := tbl.dataState }, .scanner {}, { sink := [], sim := Sim.new strict }⟩,
   ⟨{ state := tbl.dataState }, .lexer {}, { sink := [], sim := Sim.new strict }⟩,
   ⟨rfl, rfl, ⟨_, rfl⟩, rfl, hm, rfl⟩, ⟨rfl, rfl, ⟨_, rfl⟩, h, hm, rfl⟩, C06_initial tbl cfg P hdata strict⟩

/-- **C06_scan_indep_same_state.** From fresh machines over related dispatchers, after any number of lockstep
state-function calls without a signal, at a tag boundary: `H` is in the same state in both runs (it has
received the same events in the same order, `H` being arbitrary among the `StayScan`/`HashOnly` controllers),
and the dispatchers are again `ObsR false`-related. -/
theorem C06_scan_indep_same_state (hside : PhaseOk tbl P = true) (ht : EmitsChecked tbl = true)
    (hdata : P.at tbl.dataState = .outClean)
    (hs : StayScan H) (hh : HashOnly H) (ed : EmitDiscipline H) (ho : o.sticky = true) (inp : Bytes) (strict : Bool)
    {dl : Disp (γ × Flags)} {ds : Disp γ} (h : ObsR false dl ds) (hm : ScanMode H ds)
    (n : Nat) (ms' : M (Disp γ)) (ml' : M (Disp (γ × Flags)))
    (h1 : runSteps (envPlain H tbl cfg) inp n ⟨{ state := tbl.dataState }, .scanner {}, { sink := ds, sim := Sim.new strict }⟩ = some ms')
    (h2 : runSteps (envObs H o tbl cfg) inp n ⟨{ state := tbl.dataState }, .lexer {}, { sink := dl, sim := Sim.new strict }⟩ = some ml')
    (hab : P.at ms'.c.state ≠ .inTag) :
    ml'.x.sink.ctl.1 = ms'.x.sink.ctl ∧ ObsR false ml'.x.sink ms'.x.sink ∧ ms'.c = ml'.c := by
  have hal := C06_scan_indep_steps hside ht hs hh ed ho inp ds n _ ms' _ ml'
    (C06_aligned_initial (o := o) (cfg := cfg) hdata strict h hm) h1 h2
  obtain ⟨e1, _, e3, _⟩ := C06_aligned_boundary hal hab
  have hc : ml'.x.sink.ctl = (ms'.x.sink.ctl, ms'.x.sink.flags) := e3.ctl
  exact ⟨by rw [hc], e3, e1⟩

/-! ### the whole parsing loop, `Parser.parse` -/

/-- alignment of the contexts only (after `break_on_end_of_input` the registers of the two machines are no
longer comparable: the scanner keeps `tag_start..`, the lexer `lexeme_start..`): there are related logging-sink
machines `ms0`, `ml0` (`RelAt`), `ms0` in the table state of `ms`, whose contexts are the legs' images of the
contexts of `ms`, `ml` -/
def AlignedX (H : Controller γ) (o : Flags) (cfg : TagCfg) (P : PLabels) (d0 : Disp γ) (ms : M (Disp γ))
    (ml : M (Disp (γ × Flags))) : Prop :=
  ∃ ms0 ml0 : M L, RelAt cfg P ms0 ml0 ∧ ms.c.state = ms0.c.state ∧ (scanCong H d0).Rx ms.x ms0.x ∧ (lexCong H o d0).Rx ml.x ml0.x

theorem AlignedX.aligned {d0 : Disp γ} {ms : M (Disp γ)} {ml : M (Disp (γ × Flags))} (h : AlignedX H o cfg P d0 ms ml) :
    ∃ (ms1 : M (Disp γ)) (ml1 : M (Disp (γ × Flags))), Aligned H o cfg P d0 ms1 ml1 ∧ ms1.x = ms.x ∧ ml1.x = ml.x ∧
      ms1.c.state = ms.c.state := by
  obtain ⟨ms0, ml0, hrel, hst, hS, hL⟩ := h
  have hrel' := hrel
  unfold RelAt at hrel'
  obtain ⟨cs, s, xs, cl, l, xl, rfl, rfl, _⟩ := Rel_destruct hrel'
  exact ⟨⟨cs, .scanner s, ms.x⟩, ⟨cl, .lexer l, ml.x⟩,
    ⟨_, _, ⟨rfl, rfl, ⟨s, rfl⟩, hS⟩, ⟨rfl, rfl, ⟨l, rfl⟩, hL⟩, hrel⟩, rfl, rfl, hst.symm⟩

/-- outside a tag: the dispatchers are related, `H` is in the same state -/
theorem C06_alignedX_boundary {d0 : Disp γ} {ms : M (Disp γ)} {ml : M (Disp (γ × Flags))} (h : AlignedX H o cfg P d0 ms ml)
    (hab : P.at ms.c.state ≠ .inTag) :
    ObsR false ml.x.sink ms.x.sink ∧ ScanMode H ms.x.sink ∧ ms.x.sim = ml.x.sim ∧ ml.x.sink.ctl.1 = ms.x.sink.ctl := by
  obtain ⟨ms1, ml1, hal, e1, e2, e3⟩ := h.aligned
  obtain ⟨_, b2, b3, b4⟩ := C06_aligned_boundary hal (by rw [e3]; exact hab)
  rw [e1, e2] at b3 b2
  rw [e1] at b4
  have hc : ml.x.sink.ctl = (ms.x.sink.ctl, ms.x.sink.flags) := b3.ctl
  exact ⟨b3, b4, b2, by rw [hc]⟩

/-- inside a tag: the plain run's dispatcher is one hint ahead -/
theorem C06_alignedX_inTag {d0 : Disp γ} {ms : M (Disp γ)} {ml : M (Disp (γ × Flags))} (h : AlignedX H o cfg P d0 ms ml)
    (hab : P.at ms.c.state = .inTag) :
    ∃ (D : Disp γ) (ev : TagEv), ObsR false ml.x.sink D ∧ ScanMode H D ∧ ms.x.sink = hintEv H D ev := by
  obtain ⟨ms1, ml1, hal, e1, e2, e3⟩ := h.aligned
  obtain ⟨D, ev, b1, b2, b3⟩ := C06_aligned_inTag hal (by rw [e3]; exact hab)
  rw [e2] at b1
  rw [e1] at b3
  exact ⟨D, ev, b1, b2, b3⟩

/-- the legs and the middle simulation for one run of the two parsing loops up to "end of input" -/
theorem loop_core (hside : PhaseOk tbl P = true) (ht : EmitsChecked tbl = true)
    (hs : StayScan H) (hh : HashOnly H) (ed : EmitDiscipline H) (ho : o.sticky = true) (inp : Bytes) (d0 : Disp γ)
    (n ks kl : Nat) (ms ms' : M (Disp γ)) (ml ml' : M (Disp (γ × Flags))) (hal : Aligned H o cfg P d0 ms ml)
    (h1 : runLoop (envPlain H tbl cfg) inp n ms = (ms', .endOfInput ks))
    (h2 : runLoop (envObs H o tbl cfg) inp n ml = (ml', .endOfInput kl)) :
    ∃ msL' mlL' ms0 ml0 : M L, (scanCong H d0).MR ms' msL' ∧ (lexCong H o d0).MR ml' mlL' ∧ RelAt cfg P ms0 ml0 ∧
      (msL', some (Signal.endOfInput ks)) = breakOnEndOfInput inp ms0 ∧
      (mlL', some (Signal.endOfInput kl)) = breakOnEndOfInput inp ml0 := by
  obtain ⟨msL, mlL, hS, hL, hrel⟩ := hal
  rcases Cong.runLoop_congS (scanS_ok (d0 := d0) (tbl := tbl) (cfg := cfg) (inp := inp) hs hh) ht n ms msL hS with
    hstop | ⟨mrS, sigS, _⟩
  · exact hstop.elim
  rcases Cong.runLoop_congS (lexL_ok (d0 := d0) (tbl := tbl) (cfg := cfg) (inp := inp) hs hh ed ho) ht n ml mlL hL with
    ⟨s, hstop, _⟩ | ⟨mrL, sigL, _⟩
  · rw [h2] at hstop; cases hstop
  rw [h1] at mrS sigS
  rw [h2] at mrL sigL
  have e1 : runLoop (envS tbl cfg) inp n msL = ((runLoop (envS tbl cfg) inp n msL).1, .endOfInput ks) :=
    Prod.ext rfl sigS.symm
  have e2 : runLoop (envL tbl cfg) inp n mlL = ((runLoop (envL tbl cfg) inp n mlL).1, .endOfInput kl) :=
    Prod.ext rfl sigL.symm
  obtain ⟨ms0, ml0, r0, b1, b2⟩ := runLoop_end P hside n msL mlL _ _ hrel ks kl e1 e2
  exact ⟨_, _, ms0, ml0, mrS, mrL, r0, b1, b2⟩

/-- **C06_scan_indep_loop** (rung R1 for one run of the parsing loop). Aligned machines, both parsing loops
(the dispatchers as sinks) run until "end of input" — the plain run never leaves the tag scanner, the observing
run does not fail —: the contexts are aligned at the end (`AlignedX`): outside a tag the dispatchers are
`ObsR false`-related and `H` is in the same state (`C06_alignedX_boundary`), inside a tag the plain run is one
hint ahead (`C06_alignedX_inTag`; cf. `C06_unfinished_tag_witness`). -/
theorem C06_scan_indep_loop (hside : PhaseOk tbl P = true) (ht : EmitsChecked tbl = true)
    (hs : StayScan H) (hh : HashOnly H) (ed : EmitDiscipline H) (ho : o.sticky = true) (inp : Bytes) (d0 : Disp γ)
    (n ks kl : Nat) (ms ms' : M (Disp γ)) (ml ml' : M (Disp (γ × Flags))) (hal : Aligned H o cfg P d0 ms ml)
    (h1 : runLoop (envPlain H tbl cfg) inp n ms = (ms', .endOfInput ks))
    (h2 : runLoop (envObs H o tbl cfg) inp n ml = (ml', .endOfInput kl)) :
    AlignedX H o cfg P d0 ms' ml' ∧ (∃ s, ms'.r = .scanner s) ∧ (∃ l, ml'.r = .lexer l) := by
  obtain ⟨msL', mlL', ms0, ml0, mrS, mrL, r0, b1, b2⟩ := loop_core hside ht hs hh ed ho inp d0 n ks kl ms ms' ml ml' hal h1 h2
  have f1 : msL' = (breakOnEndOfInput inp ms0).1 := congrArg Prod.fst b1
  have f2 : mlL' = (breakOnEndOfInput inp ml0).1 := congrArg Prod.fst b2
  have x1 : msL'.x = ms0.x := by rw [f1]; exact (break_x ms0).1
  have x2 : mlL'.x = ml0.x := by rw [f2]; exact (break_x ml0).1
  have st : msL'.c.state = ms0.c.state := by rw [f1]; exact (break_x ms0).2
  have c1 : ms'.c = msL'.c := mrS.1
  exact ⟨⟨ms0, ml0, r0, by rw [c1, st], by rw [← x1]; exact mrS.2.2.2, by rw [← x2]; exact mrL.2.2.2⟩,
    mrS.2.2.1, mrL.2.2.1⟩

/-- **C06_scan_indep_loop_resume** (across a chunk break). As `C06_scan_indep_loop`; if moreover the two loops
report the SAME consumed byte count (the chunk ends in text, or inside a tag head `<`[`/`]name where
`tag_start` = `lexeme_start`; NOT after the tag name, nor inside a comment, doctype or CDATA section — those the
lexer holds back and the scanner does not), the machines left by
`break_on_end_of_input` — registers adjusted for the next input — are `Aligned` again: the next chunk
(retained tail ++ new data, the same bytes in both runs) can be parsed from them (`C06_scan_indep_steps`,
`C06_scan_indep_loop` apply again). -/
theorem C06_scan_indep_loop_resume (hside : PhaseOk tbl P = true) (ht : EmitsChecked tbl = true)
    (hs : StayScan H) (hh : HashOnly H) (ed : EmitDiscipline H) (ho : o.sticky = true) (inp : Bytes) (d0 : Disp γ)
    (n k : Nat) (ms ms' : M (Disp γ)) (ml ml' : M (Disp (γ × Flags))) (hal : Aligned H o cfg P d0 ms ml)
    (h1 : runLoop (envPlain H tbl cfg) inp n ms = (ms', .endOfInput k))
    (h2 : runLoop (envObs H o tbl cfg) inp n ml = (ml', .endOfInput k)) :
    Aligned H o cfg P d0 ms' ml' := by
  obtain ⟨msL', mlL', ms0, ml0, mrS, mrL, r0, b1, b2⟩ := loop_core hside ht hs hh ed ho inp d0 n k k ms ms' ml ml' hal h1 h2
  have f1 : msL' = (breakOnEndOfInput inp ms0).1 := congrArg Prod.fst b1
  have f2 : mlL' = (breakOnEndOfInput inp ml0).1 := congrArg Prod.fst b2
  have g1 : (breakOnEndOfInput inp ms0).2 = some (.endOfInput k) := (congrArg Prod.snd b1).symm
  have g2 : (breakOnEndOfInput inp ml0).2 = some (.endOfInput k) := (congrArg Prod.snd b2).symm
  have hr := break_rel (inp := inp) ms0 ml0 r0 k g1 g2
  rw [← f1, ← f2] at hr
  exact ⟨msL', mlL', mrS, mrL, hr⟩

/-- fresh machines with `is_last = last` -/
theorem C06_aligned_initial' (hdata : P.at tbl.dataState = .outClean) (strict last : Bool) {dl : Disp (γ × Flags)} {ds : Disp γ}
    (h : ObsR false dl ds) (hm : ScanMode H ds) :
    Aligned H o cfg P ds ((Parser.new tbl ds .scan strict).machine last) ((Parser.new tbl dl .lex strict).machine last) := by
  have hr := C06_initial tbl cfg P hdata strict
  unfold RelAt at hr
  have hr2 := Rel_common (cfg := cfg) (fun c => { c with isLast := last }) (fun _ _ _ => rfl) hr
  refine ⟨⟨{ state := tbl.dataState, isLast := last }, .scanner {}, { sink := [], sim := Sim.new strict }⟩,
    ⟨{ state := tbl.dataState, isLast := last }, .lexer {}, { sink := [], sim := Sim.new strict }⟩, ?_, ?_, ?_⟩
  · exact ⟨rfl, rfl, ⟨_, rfl⟩, rfl, hm, rfl⟩
  · exact ⟨rfl, rfl, ⟨_, rfl⟩, h, hm, rfl⟩
  · exact hr2

/-- **C06_scan_indep_parse_partial** (rung R1 for one `Parser::parse` call, any `last`). Fresh parsers of the two
runs over `ObsR false`-related dispatchers; the plain run's parsing loop ends with "end of input" without a
hand-over, the observing run's too: both `parse` calls succeed, and the contexts they leave are aligned —
outside a tag `H` is in the same state and the dispatchers are related. -/
theorem C06_scan_indep_parse_partial (hside : PhaseOk tbl P = true) (ht : EmitsChecked tbl = true)
    (hdata : P.at tbl.dataState = .outClean)
    (hs : StayScan H) (hh : HashOnly H) (ed : EmitDiscipline H) (ho : o.sticky = true) (inp : Bytes) (strict last : Bool)
    {dl : Disp (γ × Flags)} {ds : Disp γ} (h : ObsR false dl ds) (hm : ScanMode H ds) (ks kl : Nat)
    (h1 : (runLoop (envPlain H tbl cfg) inp (defaultFuel inp) ((Parser.new tbl ds .scan strict).machine last)).2 = .endOfInput ks)
    (h2 : (runLoop (envObs H o tbl cfg) inp (defaultFuel inp) ((Parser.new tbl dl .lex strict).machine last)).2 = .endOfInput kl) :
    let R := Parser.parse (envPlain H tbl cfg) inp last (Parser.new tbl ds .scan strict)
    let R' := Parser.parse (envObs H o tbl cfg) inp last (Parser.new tbl dl .lex strict)
    R.2 = .ok ks ∧ R'.2 = .ok kl ∧
    (P.at R.1.scanC.state ≠ .inTag → ObsR false R'.1.x.sink R.1.x.sink ∧ R'.1.x.sink.ctl.1 = R.1.x.sink.ctl) ∧
    (P.at R.1.scanC.state = .inTag →
      ∃ (D : Disp γ) (ev : TagEv), ObsR false R'.1.x.sink D ∧ ScanMode H D ∧ R.1.x.sink = hintEv H D ev) := by
  intro R R'
  obtain ⟨hal, ⟨s, hks⟩, ⟨l, hkl⟩⟩ := C06_scan_indep_loop hside ht hs hh ed ho inp ds (defaultFuel inp) ks kl _
    (runLoop (envPlain H tbl cfg) inp (defaultFuel inp) ((Parser.new tbl ds .scan strict).machine last)).1 _
    (runLoop (envObs H o tbl cfg) inp (defaultFuel inp) ((Parser.new tbl dl .lex strict).machine last)).1
    (C06_aligned_initial' (o := o) (cfg := cfg) hdata strict last h hm) (Prod.ext rfl h1) (Prod.ext rfl h2)
  have eR := parse_eoi (envPlain H tbl cfg) inp last (Parser.new tbl ds .scan strict) ks h1
  have eR' := parse_eoi (envObs H o tbl cfg) inp last (Parser.new tbl dl .lex strict) kl h2
  generalize (runLoop (envPlain H tbl cfg) inp (defaultFuel inp) ((Parser.new tbl ds .scan strict).machine last)).1 = ms' at hal hks eR
  generalize (runLoop (envObs H o tbl cfg) inp (defaultFuel inp) ((Parser.new tbl dl .lex strict).machine last)).1 = ml' at hal hkl eR'
  have x1 : R.1.x.sink = ms'.x.sink := by simp only [R, eR, Cong.store_x']
  have x2 : R'.1.x.sink = ml'.x.sink := by simp only [R', eR', Cong.store_x']
  have c1 : R.1.scanC.state = ms'.c.state := by
    simp only [R, eR]
    unfold Parser.store
    rw [hks]
  refine ⟨by simp only [R, eR], by simp only [R', eR'], ?_, ?_⟩
  · intro hab
    rw [c1] at hab
    obtain ⟨b1, _, _, b4⟩ := C06_alignedX_boundary hal hab
    rw [x1, x2]
    exact ⟨b1, b4⟩
  · intro hab
    rw [c1] at hab
    obtain ⟨D, ev, b1, b2, b3⟩ := C06_alignedX_inTag hal hab
    rw [x1, x2]
    exact ⟨D, ev, b1, b2, b3⟩

end

/-! ### non-vacuity: a controller that counts its `handle_start_tag` / `handle_end_tag` calls -/

/-- counts the `handle_start_tag` calls (+1) and `handle_end_tag` calls (+100), never captures anything -/
def countCtl : Controller Nat :=
  { initialFlags := fun _ => Flags.ofNat 0
    startTag := fun g _ _ => (g + 1, .flags (Flags.ofNat 0))
    auxInfo := fun g _ => (g, .ok (Flags.ofNat 0))
    endTag := fun g _ => (g + 100, Flags.ofNat 0)
    token := fun g t => (g, { chunks := [t.raw] })
    shouldEmit := fun _ => true
    handleEnd := fun g => (g, [], none)
    bailOut := fun g _ => (g, []) }

theorem countCtl_clean : CtlClean countCtl where
  token := by intro g t e h; simp [countCtl] at h
  startTag := by intro g n ns e h; simp [countCtl] at h
  auxInfo := by intro g i e h; simp [countCtl] at h
  handleEnd := by intro g e h; simp [countCtl] at h

theorem countCtl_emit : EmitDiscipline countCtl where
  start := fun _ _ _ => rfl
  aux := fun _ _ => rfl
  end_ := fun _ _ _ => rfl

theorem countCtl_hashOnly : HashOnly countCtl where
  start := fun _ _ _ => rfl
  end_ := fun _ _ => rfl

theorem countCtl_stayScan : StayScan countCtl where
  start := by
    intro d n ns hm
    refine ⟨rfl, ⟨rfl, hm.tp, ?_⟩⟩
    exact hm.emis
  end_ := by
    intro d n hm
    have hem : d.emissionEnabled = true := hm.emis
    have hstop : ∀ g, ({ d with ctl := g } : Disp Nat).shouldStopRemoving countCtl = false := by
      intro g; simp [Disp.shouldStopRemoving, hem]
    unfold Disp.endTagHint
    rw [flush_idle hm.tp, DRes.bind_ok' _ rfl]
    dsimp only
    rw [hstop]
    exact ⟨rfl, ⟨rfl, hm.tp, hem⟩⟩

/-- the two fresh dispatchers: `H = countCtl` alone, and with a text observer -/
def ds0 : Disp Nat := { ctl := 0, flags := Flags.ofNat 0 }
def dl0 : Disp (Nat × Flags) := { ctl := (0, Flags.ofNat 0), flags := (Flags.ofNat 0).join (Flags.ofNat 1) }

theorem obsR_0 : ObsR false dl0 ds0 :=
  ObsR.mk' (c' := (0, Flags.ofNat 0)) (c := 0)
    (v' := ⟨(Flags.ofNat 0).join (Flags.ofNat 1), true, false, false, false, 0, .data, 0⟩)
    (v := ⟨Flags.ofNat 0, true, false, false, false, 0, .data, 0⟩) rfl rfl rfl rfl
    ⟨rfl, ⟨Flags.ofNat 1, rfl⟩, fun hh => (by cases hh), (by decide), rfl, rfl, rfl, rfl, rfl,
      fun hh => (by cases hh), fun _ hh => (by cases hh), Nat.le_refl _⟩

theorem scanMode_0 : ScanMode countCtl ds0 := ⟨by decide, rfl, rfl⟩

/-- `<a b='c'>x</a><!--` (`sampleInput`): 15 lockstep steps, the plain run in the tag scanner (2 hints), the
observing run in the lexer (a start tag, a text, an end tag lexeme; the text goes to the observer): `countCtl`
ends in state 101 in both — by the theorem, and by evaluation. -/
example : ∃ ms' ml',
    runSteps (envPlain countCtl Gen.Syntax.table Gen.Tags.cfg) sampleInput 15
      ⟨{ state := Gen.Syntax.table.dataState }, .scanner {}, { sink := ds0, sim := Sim.new false }⟩ = some ms' ∧
    runSteps (envObs countCtl (Flags.ofNat 1) Gen.Syntax.table Gen.Tags.cfg) sampleInput 15
      ⟨{ state := Gen.Syntax.table.dataState }, .lexer {}, { sink := dl0, sim := Sim.new false }⟩ = some ml' ∧
    ml'.x.sink.ctl.1 = ms'.x.sink.ctl ∧ ms'.x.sink.ctl = 101 := by
  have h1 : ((runSteps (envPlain countCtl Gen.Syntax.table Gen.Tags.cfg) sampleInput 15
      ⟨{ state := Gen.Syntax.table.dataState }, .scanner {}, { sink := ds0, sim := Sim.new false }⟩).map
        fun m => (m.c.state, m.x.sink.ctl)) = some (41, 101) := by decide +kernel
  have h2 : ((runSteps (envObs countCtl (Flags.ofNat 1) Gen.Syntax.table Gen.Tags.cfg) sampleInput 15
      ⟨{ state := Gen.Syntax.table.dataState }, .lexer {}, { sink := dl0, sim := Sim.new false }⟩).map
        fun m => m.c.state) = some 41 := by decide +kernel
  cases e1 : runSteps (envPlain countCtl Gen.Syntax.table Gen.Tags.cfg) sampleInput 15
      ⟨{ state := Gen.Syntax.table.dataState }, .scanner {}, { sink := ds0, sim := Sim.new false }⟩ with
  | none => rw [e1] at h1; cases h1
  | some ms' =>
    cases e2 : runSteps (envObs countCtl (Flags.ofNat 1) Gen.Syntax.table Gen.Tags.cfg) sampleInput 15
        ⟨{ state := Gen.Syntax.table.dataState }, .lexer {}, { sink := dl0, sim := Sim.new false }⟩ with
    | none => rw [e2] at h2; cases h2
    | some ml' =>
      rw [e1] at h1
      simp only [Option.map_some, Option.some.injEq, Prod.mk.injEq] at h1
      have hab : genPhaseLabels.at ms'.c.state ≠ .inTag := by rw [h1.1]; decide
      obtain ⟨r1, _, _⟩ := C06_scan_indep_same_state (P := genPhaseLabels) C06_phaseSide_gen C06_emitsChecked_gen (by decide)
        countCtl_stayScan countCtl_hashOnly countCtl_emit (by decide) sampleInput false obsR_0 scanMode_0 15 ms' ml' e1 e2 hab
      exact ⟨ms', ml', rfl, rfl, r1, h1.2⟩

/-- `Parser::parse` of `<a b='c'>x</a><!--` with `last = true`: both loops end with "end of input" (18 bytes
consumed), in `comment_start_state` (42, outside a tag): by the theorem `countCtl` is in the same state (101). -/
example :
    let R := Parser.parse (envPlain countCtl Gen.Syntax.table Gen.Tags.cfg) sampleInput true (Parser.new Gen.Syntax.table ds0 .scan false)
    let R' := Parser.parse (envObs countCtl (Flags.ofNat 1) Gen.Syntax.table Gen.Tags.cfg) sampleInput true
      (Parser.new Gen.Syntax.table dl0 .lex false)
    R.2 = .ok 18 ∧ R'.2 = .ok 18 ∧ R'.1.x.sink.ctl.1 = R.1.x.sink.ctl ∧ R.1.x.sink.ctl = 101 := by
  intro R R'
  obtain ⟨r1, r2, r3, _⟩ := C06_scan_indep_parse_partial (H := countCtl) (o := Flags.ofNat 1) (P := genPhaseLabels)
    (cfg := Gen.Tags.cfg) C06_phaseSide_gen C06_emitsChecked_gen (by decide)
    countCtl_stayScan countCtl_hashOnly countCtl_emit (by decide) sampleInput false true obsR_0 scanMode_0 18 18
    (by decide +kernel) (by decide +kernel)
  have hst : R.1.scanC.state = 42 := by decide +kernel
  have hab : genPhaseLabels.at R.1.scanC.state ≠ .inTag := by rw [hst]; decide
  exact ⟨r1, r2, (r3 hab).2, by decide +kernel⟩

/-- `<a b='c'>x</a><d` -/
def splitInput : Bytes := [60,97,32,98,61,39,99,39,62,120,60,47,97,62,60,100]

/-- non-vacuity of `C06_scan_indep_loop_resume`: a chunk (not the last) ending inside a tag name: both runs hold
back `<d` (consumed 14), the machines left for the next chunk are aligned -/
example : Aligned countCtl (Flags.ofNat 1) Gen.Tags.cfg genPhaseLabels ds0
    (runLoop (envPlain countCtl Gen.Syntax.table Gen.Tags.cfg) splitInput (defaultFuel splitInput)
      ((Parser.new Gen.Syntax.table ds0 .scan false).machine false)).1
    (runLoop (envObs countCtl (Flags.ofNat 1) Gen.Syntax.table Gen.Tags.cfg) splitInput (defaultFuel splitInput)
      ((Parser.new Gen.Syntax.table dl0 .lex false).machine false)).1 :=
  C06_scan_indep_loop_resume C06_phaseSide_gen C06_emitsChecked_gen countCtl_stayScan countCtl_hashOnly countCtl_emit
    (by decide) splitInput ds0 (defaultFuel splitInput) 14 _ _ _ _
    (C06_aligned_initial' (by decide) false false obsR_0 scanMode_0)
    (Prod.ext rfl (by decide +kernel)) (Prod.ext rfl (by decide +kernel))

/-! ### `C06_independence_statement3` is false as stated -/

def countWorld : World Nat := ⟨Gen.Syntax.table, Gen.Tags.cfg, countCtl⟩

/-- `<a ` -/
def openTagInput : Bytes := [0x3c, 0x61, 0x20]

/-- `<a ` then `end`: both runs succeed; the plain run (tag scanner) has called `handle_start_tag` once — the hint
at the end of the tag name —, the observing run (lexer) never: the tag lexeme is not emitted at end of input. -/
theorem C06_unfinished_tag_witness :
    let R' := run (World.withObs countWorld (Flags.ofNat 1))
      (Rewriter.new (World.withObs countWorld (Flags.ofNat 1)) (0, countWorld.ctl.initialFlags 0) {}) [openTagInput]
    let R := run countWorld (Rewriter.new countWorld 0 {}) [openTagInput]
    R'.2 = [.ok, .ok] ∧ R.2 = [.ok, .ok] ∧ R'.1.stream.disp.ctl.1 = 0 ∧ R.1.stream.disp.ctl = 1 := by
  decide +kernel

/-- **`C06_independence_statement3` is refuted** (all its hypotheses hold of `countCtl` at the generated table) -/
theorem C06_independence_statement3_refuted : ¬ C06_independence_statement3 := by
  intro h
  have := h Nat countWorld (Flags.ofNat 1) 0 {} [openTagInput] (fun _ => True) C15.C15_gen C15.C15_cert_gen
    ⟨_, _, _, _, C15.C15_relexSide_gen⟩ countCtl_clean countCtl_emit (fun _ _ _ _ _ _ => rfl) trivial
    (fun _ _ _ _ => trivial) (fun _ _ _ => trivial) (fun _ _ _ => trivial) (fun _ _ _ => trivial) (by decide) rfl
  obtain ⟨h1, h2, h3, h4⟩ := C06_unfinished_tag_witness
  have h5 := this (by intro x hx; rw [h1] at hx; simp at hx; exact hx) (by intro x hx; rw [h2] at hx; simp at hx; exact hx)
  rw [h3, h4] at h5
  cases h5

/-! ### a sufficient condition for `StayScan`; the first `write` of a rewriter -/

/-- a controller that never captures anything (all its capture flags are empty: e.g. element handlers whose
selectors never match, or bookkeeping only) and never removes content stays in the tag scanner -/
theorem stayScan_of_noCapture {H : Controller γ}
    (hst : ∀ g n ns, ∃ g' f, H.startTag g n ns = (g', .flags f) ∧ f.isEmpty = true)
    (hen : ∀ g n, (H.endTag g n).2.isEmpty = true) (hem : ∀ g, H.shouldEmit g = true) : StayScan H where
  start := by
    intro d n ns hm
    obtain ⟨g', f, he, hf⟩ := hst d.ctl n ns
    have hee : d.emissionEnabled = true := by rw [hm.emis]; exact hem _
    unfold Disp.startTagHint
    rw [he]
    dsimp only
    unfold Disp.applyHintFlags
    simp only [Disp.nextDirective, hf, if_true]
    exact ⟨trivial, ⟨hf, hm.tp, by simp only; rw [hee]; exact (hem _).symm⟩⟩
  end_ := by
    intro d n hm
    have hee : d.emissionEnabled = true := by rw [hm.emis]; exact hem _
    have hstop : ({ d with ctl := (H.endTag d.ctl n).1 } : Disp γ).shouldStopRemoving H = false := by
      simp [Disp.shouldStopRemoving, hee]
    unfold Disp.endTagHint
    rw [flush_idle hm.tp, DRes.bind_ok' _ rfl]
    dsimp only
    rw [hstop]
    simp only [Bool.false_eq_true, if_false]
    unfold Disp.applyHintFlags
    simp only [Disp.nextDirective, hen, if_true]
    exact ⟨trivial, ⟨hen _ _, hm.tp, by simp only; rw [hee]; exact (hem _).symm⟩⟩

theorem flushRemaining_ctl' {κ : Type} {d d' : Disp κ} {inp : Bytes} {k : Nat} (h : d.flushRemaining inp k = .ok d') :
    d'.ctl = d.ctl := by
  unfold Disp.flushRemaining at h
  split at h
  · split at h
    · cases h
    · simp only [Except.ok.injEq] at h
      subst h
      split <;> rfl
  · simp only [Except.ok.injEq] at h
    subst h
    rfl

/-- a successful `write` on a stream without buffered data: the controller state and the scanner's table state are
those left by `Parser::parse` on the data -/
theorem write_fresh {κ : Type} (w : World κ) (s : Stream κ) (hb : s.hasBuffered = false) (data : Bytes)
    (hok : (s.write w data).2 = .ok ()) :
    (s.write w data).1.disp.ctl = (s.parser.parse w.env data false).1.x.sink.ctl ∧
    (s.write w data).1.parser.scanC = (s.parser.parse w.env data false).1.scanC := by
  obtain ⟨p, b, hbf, c, n⟩ := s
  simp only at hb
  subst hb
  unfold Stream.write Stream.chunkFor at hok ⊢
  simp only [Bool.false_eq_true, if_false] at hok ⊢
  cases hp : (p.parse w.env data false).2 with
  | error e => rw [hp] at hok; cases hok
  | ok consumed =>
    simp only [hp] at hok ⊢
    cases hf : (Stream.disp ⟨(p.parse w.env data false).1, b, false, c, n⟩).flushRemaining data consumed with
    | error e => simp only [hf] at hok; cases hok
    | ok d =>
      simp only [hf] at hok ⊢
      have hc := flushRemaining_ctl' hf
      unfold Stream.keepTail at hok ⊢
      simp only [Stream.setDisp, Bool.false_eq_true, if_false] at hok ⊢
      by_cases h1 : consumed < data.length
      · simp only [h1, if_true] at hok ⊢
        by_cases h2 : (b.initWith (List.drop consumed data)).2 = true
        · simp only [h2, if_true]
          exact ⟨hc, trivial⟩
        · simp only [h2, if_false] at hok
          cases hok
      · simp only [h1, if_false]
        exact ⟨hc, trivial⟩

/-- the fresh dispatchers of the two runs are related -/
theorem obsR_new (H : Controller γ) (o : Flags) (ho : o.sticky = true) (g : γ) (enc : Nat) :
    ObsR false (Disp.new (Model.withObs H o) (g, H.initialFlags g) enc) (Disp.new H g enc) :=
  ObsR.mk' (c' := (g, H.initialFlags g)) (c := g)
    (v' := ⟨(H.initialFlags g).join o, true, false, false, false, 0, .data, 0⟩)
    (v := ⟨H.initialFlags g, true, false, false, false, 0, .data, 0⟩) rfl rfl rfl rfl
    ⟨rfl, ⟨o, rfl⟩, fun hh => (by cases hh), Flags.sticky_join_right ho, rfl, rfl, rfl, rfl, rfl,
      fun hh => (by cases hh), fun _ hh => (by cases hh), Nat.le_refl _⟩

/-- **C06_scan_indep_first_write_partial** (rung R1 at the API level, first `write` only). `H` starts in the tag
scanner (no capture flags) with emission enabled; the first `write` of the plain run and of the observing run:
if the plain run's parsing loop ends with "end of input" without hand-over, the observing run's too, both
`write` calls succeed and the data does not end inside a tag (after its name), `H` is in the same state after the
call. (For the following calls the two runs hold different tails: item (3).) -/
theorem C06_scan_indep_first_write_partial (w : World γ) (o : Flags) (P : PLabels) (hside : PhaseOk w.tbl P = true)
    (ht : EmitsChecked w.tbl = true) (hdata : P.at w.tbl.dataState = .outClean)
    (hs : StayScan w.ctl) (hh : HashOnly w.ctl) (ed : EmitDiscipline w.ctl) (ho : o.sticky = true)
    (g : γ) (cfg : Settings) (data : Bytes)
    (hinit : (w.ctl.initialFlags g).isEmpty = true) (hemit : w.ctl.shouldEmit g = true) (ks kl : Nat)
    (h1 : (runLoop w.env data (defaultFuel data) ((Stream.new w g cfg).parser.machine false)).2 = .endOfInput ks)
    (h2 : (runLoop (World.withObs w o).env data (defaultFuel data)
      ((Stream.new (World.withObs w o) (g, w.ctl.initialFlags g) cfg).parser.machine false)).2 = .endOfInput kl)
    (hok : ((Stream.new w g cfg).write w data).2 = .ok ())
    (hok' : ((Stream.new (World.withObs w o) (g, w.ctl.initialFlags g) cfg).write (World.withObs w o) data).2 = .ok ())
    (hab : P.at ((Stream.new w g cfg).write w data).1.parser.scanC.state ≠ .inTag) :
    ((Stream.new (World.withObs w o) (g, w.ctl.initialFlags g) cfg).write (World.withObs w o) data).1.disp.ctl.1 =
      ((Stream.new w g cfg).write w data).1.disp.ctl := by
  have eS : (Stream.new w g cfg).parser = Parser.new w.tbl (Disp.new w.ctl g cfg.encoding) .scan cfg.strict := by
    simp [Stream.new, hinit]
  have hne : ((w.ctl.initialFlags g).join o).isEmpty = false := Flags.sticky_nonempty (Flags.sticky_join_right ho)
  have eL : (Stream.new (World.withObs w o) (g, w.ctl.initialFlags g) cfg).parser =
      Parser.new w.tbl (Disp.new (Model.withObs w.ctl o) (g, w.ctl.initialFlags g) cfg.encoding) .lex cfg.strict := by
    simp [Stream.new, World.withObs, Model.withObs, hne]
  obtain ⟨a1, a2⟩ := write_fresh w (Stream.new w g cfg) rfl data hok
  obtain ⟨b1, _⟩ := write_fresh (World.withObs w o) (Stream.new (World.withObs w o) (g, w.ctl.initialFlags g) cfg) rfl data hok'
  rw [a1, b1]
  rw [a2] at hab
  rw [eS] at h1 hab ⊢
  rw [eL] at h2 ⊢
  have hm : ScanMode w.ctl (Disp.new w.ctl g cfg.encoding) := ⟨hinit, rfl, hemit.symm⟩
  obtain ⟨_, _, r3, _⟩ := C06_scan_indep_parse_partial (H := w.ctl) (o := o) (tbl := w.tbl) (cfg := w.tags) (P := P)
    hside ht hdata hs hh ed ho data cfg.strict false (obsR_new w.ctl o ho g cfg.encoding) hm ks kl h1 h2
  exact (r3 hab).2

/-- non-vacuity: the first `write` of `<a b='c'>x</a><!--` — the plain run consumes all 18 bytes (the scanner holds
nothing back in a comment), the observing run 14 (the lexer holds back `<!--`): different tails, same state of `H` -/
example :
    ((Stream.new (World.withObs countWorld (Flags.ofNat 1)) (0, countWorld.ctl.initialFlags 0) {}).write
      (World.withObs countWorld (Flags.ofNat 1)) sampleInput).1.disp.ctl.1 =
    ((Stream.new countWorld 0 {}).write countWorld sampleInput).1.disp.ctl :=
  C06_scan_indep_first_write_partial countWorld (Flags.ofNat 1) genPhaseLabels C06_phaseSide_gen C06_emitsChecked_gen
    (by decide) countCtl_stayScan countCtl_hashOnly countCtl_emit (by decide) 0 {} sampleInput (by decide) rfl 18 14
    (by decide +kernel) (by decide +kernel) (by decide +kernel) (by decide +kernel) (by decide +kernel)

example : StayScan countCtl :=
  stayScan_of_noCapture (fun g _ _ => ⟨g + 1, Flags.ofNat 0, rfl, by decide⟩)
    (fun _ _ => (by decide : (Flags.ofNat 0).isEmpty = true)) (fun _ => rfl)

/-! ### statements -/

/-- **C06_independence, statement corrected after `C06_unfinished_tag_witness`** (not proved): as
`C06_independence_statement3`, for inputs that do not end inside a tag after its name — expressed on the
observing run, which is always in the lexer: its final table state is not labelled `inTag`. (When the input
does end there, the plain run's `H` has received one more `handle_start_tag`/`handle_end_tag` call, for a tag
that is never emitted: `C06_aligned_inTag`.) -/
def C06_independence_statement4 : Prop :=
  ∀ (γ : Type) (w : World γ) (o : Flags) (g : γ) (cfg : Settings) (chunks : List Bytes) (Ok : γ → Prop)
    (L : Labels) (TT : TLabels) (P : PLabels) (S : SLabels),
    WfTable w.tbl = true → checkCert w.tbl (computeCert w.tbl) = true →
    RelexSide w.tbl L TT P S → CtlClean w.ctl → EmitDiscipline w.ctl →
    (∀ g n t, Ok (w.ctl.endTag g n).1 → (w.ctl.endTag g n).2.nextEndTag = false →
      (∃ nm raw src, t = Token.endTag nm raw src) →
      w.ctl.token (w.ctl.endTag g n).1 t = ((w.ctl.endTag g n).1, { chunks := [t.raw] })) →
    Ok g → (∀ g n ns, Ok g → Ok (w.ctl.startTag g n ns).1) → (∀ g i, Ok g → Ok (w.ctl.auxInfo g i).1) →
    (∀ g n, Ok g → Ok (w.ctl.endTag g n).1) → (∀ g t, Ok g → Ok (w.ctl.token g t).1) →
    o.sticky = true → cfg.strict = false →
    let R' := run (World.withObs w o) (Rewriter.new (World.withObs w o) (g, w.ctl.initialFlags g) cfg) chunks
    let R := run w (Rewriter.new w g cfg) chunks
    (∀ x ∈ R'.2, x = CallRes.ok) → (∀ x ∈ R.2, x = CallRes.ok) →
    P.at R'.1.stream.parser.lexC.state ≠ .inTag →
      R'.1.stream.disp.ctl.1 = R.1.stream.disp.ctl

/-- rung R1 at the level of the parsing loop, as a closed statement: proved, `C06_scan_indep_loop_closed` -/
def C06_scan_indep_loop_statement : Prop :=
  ∀ (γ : Type) (H : Controller γ) (o : Flags) (tbl : Table) (cfg : TagCfg) (P : PLabels),
    PhaseOk tbl P = true → EmitsChecked tbl = true → P.at tbl.dataState = .outClean →
    StayScan H → HashOnly H → EmitDiscipline H → o.sticky = true →
    ∀ (inp : Bytes) (strict : Bool) (dl : Disp (γ × Flags)) (ds : Disp γ), ObsR false dl ds → ScanMode H ds →
    ∀ (n ks kl : Nat) (ms' : M (Disp γ)) (ml' : M (Disp (γ × Flags))),
      runLoop (envPlain H tbl cfg) inp n ⟨{ state := tbl.dataState, isLast := true }, .scanner {}, { sink := ds, sim := Sim.new strict }⟩ =
        (ms', .endOfInput ks) →
      runLoop (envObs H o tbl cfg) inp n ⟨{ state := tbl.dataState, isLast := true }, .lexer {}, { sink := dl, sim := Sim.new strict }⟩ =
        (ml', .endOfInput kl) →
      P.at ms'.c.state ≠ .inTag → ObsR false ml'.x.sink ms'.x.sink

theorem C06_scan_indep_loop_closed : C06_scan_indep_loop_statement := by
  intro γ H o tbl cfg P hside ht hdata hs hh ed ho inp strict dl ds h hm n ks kl ms' ml' h1 h2 hab
  have hal : Aligned H o cfg P ds
      (⟨{ state := tbl.dataState, isLast := true }, .scanner {}, { sink := ds, sim := Sim.new strict }⟩ : M (Disp γ))
      ⟨{ state := tbl.dataState, isLast := true }, .lexer {}, { sink := dl, sim := Sim.new strict }⟩ :=
    C06_aligned_initial' (o := o) (cfg := cfg) hdata strict true h hm
  exact (C06_alignedX_boundary (C06_scan_indep_loop hside ht hs hh ed ho inp ds n ks kl _ ms' _ ml' hal h1 h2).1 hab).1

/-- **rung R2** (not proved): `C06_scan_indep_steps` without `StayScan` — when `H` answers a hint with `lex`
the plain run's parser restarts its lexer at the `<` of the hinted tag (`C06_relex_same_tag`), the re-lexed tag
lexeme faces the observing run's lexeme (`C06_event_start_tag_scan`, third alternative), and from there both are
in the lexer (`obsCong`, `Lemmas/ObsParse.lean`, with `ObsR false`) until the plain run answers `scan`
(`C06_back_to_scanner`, `C06_switch_lex_to_scan`). Stated for one `Parser.parse` call on the whole input. -/
def C06_scan_indep_parse_statement : Prop :=
  ∀ (γ : Type) (H : Controller γ) (o : Flags) (tbl : Table) (cfg : TagCfg) (L : Labels) (TT : TLabels) (P : PLabels) (S : SLabels)
    (Ok : γ → Prop),
    WfTable tbl = true → RelexSide tbl L TT P S → EmitsChecked tbl = true → EmitDiscipline H → PassThroughOn H Ok →
    (∀ g n ns, Ok g → Ok (H.startTag g n ns).1) → (∀ g i, Ok g → Ok (H.auxInfo g i).1) →
    (∀ g n, Ok g → Ok (H.endTag g n).1) → (∀ g t, Ok g → Ok (H.token g t).1) →
    o.sticky = true →
    ∀ (inp : Bytes) (dl : Disp (γ × Flags)) (ds : Disp γ), ObsR false dl ds → ScanMode H ds → Ok ds.ctl →
      let R' := Parser.parse (envObs H o tbl cfg) inp true (Parser.new tbl dl .lex false)
      let R := Parser.parse (envPlain H tbl cfg) inp true (Parser.new tbl ds .scan false)
      (∃ k', R'.2 = .ok k') → (∃ k, R.2 = .ok k) → P.at R'.1.lexC.state ≠ .inTag →
        R'.1.x.sink.ctl.1 = R.1.x.sink.ctl

end LolHtml.Thm.C06
