import LolHtml.Lemmas.ScanIndepLegs
import LolHtml.Thm.C06_Scan
import LolHtml.Thm.C06_FullCtl
/-!
# C06 — the scanner-mode half of handler independence: dispatchers as sinks, in lockstep

The plain run (`H`) is in the tag scanner, the observing run (`withObs H o`, `o` sticky) in the lexer, both
with their DISPATCHERS as sinks (item (2) of "what is left" in `Thm/C06_Handover.lean`, without hand-over).

* `C06_scan_indep_steps` — `Aligned` machines stay `Aligned` under any number of state-function calls made
  in lockstep without a signal. `Aligned` says: same `Common` registers / simulator as in
  `C06_scan_lex_simulation` (via the logging-sink machines, `Lemmas/ScanLexSim.lean`), and the two dispatchers
  are related by `ObsR false` — outside a tag; inside a tag (label `inTag`) the plain run's dispatcher is
  exactly one hint ahead (`C06_aligned_boundary`, `C06_aligned_inTag`). In particular `H` is in the same
  state in both runs at every tag boundary: `C06_scan_indep_same_state`.
  Hypotheses on `H`: `EmitDiscipline`, `StayScan` (a hint is never answered `lex`: rung R1 of the ladder) and
  `HashOnly` (`H` sees a tag name through its hash; item (1) of "what is left").
* `C06_independence_statement3_refuted` — the target `C06_independence_statement3` is FALSE as stated: on
  input `<a ` + `end` the tag scanner has already called `handle_start_tag` (the hint, at the end of the tag
  name) for a tag that the lexer never emits (end of input inside the tag): a controller that counts its
  `handle_start_tag` calls ends in a different state. This is the `inTag` case of `Aligned` at end of input —
  the one-hint-ahead is not a proof artefact. (Not a defect of the code: no handler runs at a hint; the model's
  "final state of `H`" also sees the selector-matching stack.) Corrected target: `C06_independence_statement4`.
* NOT proved: the last state-function call (the one that breaks at the end of the input: `StepRel` says
  nothing about the machines when both signal), `Parser.parse` / `Stream` / `Rewriter` level, rungs R2
  (hand-over) and R3 — statements at the end.
-/
set_option linter.unusedSimpArgs false
set_option linter.unusedVariables false

namespace LolHtml.Thm.C06
open LolHtml LolHtml.Model LolHtml.Thm.C01

variable {γ : Type}

/-! ### lifting a step-level congruence to `runSteps` -/

theorem runSteps_congS {κ₁ κ₂ : Type} {C : Cong κ₁ κ₂} {env₁ : Env κ₁} {env₂ : Env κ₂} {inp : Bytes}
    (h : C.OkS env₁ env₂ inp) (ht : EmitsChecked env₁.tbl = true) (n : Nat) (m₁ : M κ₁) (m₂ : M κ₂) (hm : C.MR m₁ m₂)
    (m₁' : M κ₁) (h1 : runSteps env₁ inp n m₁ = some m₁') :
    ∃ m₂', runSteps env₂ inp n m₂ = some m₂' ∧ C.MR m₁' m₂' := by
  induction n generalizing m₁ m₂ with
  | zero =>
    simp only [runSteps, Option.some.injEq] at h1
    subst h1
    exact ⟨m₂, rfl, hm⟩
  | succ n ih =>
    simp only [runSteps] at h1 ⊢
    cases hs : (stateFn env₁ inp m₁).2 with
    | some sig => simp [hs] at h1
    | none =>
      simp only [hs] at h1
      rcases Cong.stateFn_congS h ht m₁ m₂ hm with hstop | ⟨hmr, hsig, _⟩
      · obtain ⟨e, he⟩ := h.stop_err _ hstop
        rw [hs] at he; cases he
      · rw [← hsig, hs]
        exact ih _ _ hmr h1

/-! ### alignment -/

section
variable (H : Controller γ) (o : Flags) (tbl : Table) (cfg : TagCfg) (P : PLabels)

/-- the plain run's environment -/
abbrev envPlain : Env (Disp γ) := ⟨tbl, cfg, dispOps H⟩
/-- the observing run's environment -/
abbrev envObs : Env (Disp (γ × Flags)) := ⟨tbl, cfg, dispOps (Model.withObs H o)⟩

/-- a scanner machine of the plain run and a lexer machine of the observing run, aligned: there are
logging-sink machines `msL` (scanner) and `mlL` (lexer), related by the simulation relation `RelAt` of
`C06_scan_lex_simulation`, with the same registers and simulator as `ms` resp. `ml`, such that the plain
dispatcher is the fold of `H`'s hint handlers (from `d0`) over the scanner's log, in scan mode, and the
observing dispatcher is `ObsR false`-related to the fold over the lexer's log -/
def Aligned (d0 : Disp γ) (ms : M (Disp γ)) (ml : M (Disp (γ × Flags))) : Prop :=
  ∃ msL mlL : M L, (scanCong H d0).MR ms msL ∧ (lexCong H o d0).MR ml mlL ∧ RelAt cfg P msL mlL

variable {H o tbl cfg P}

/-- **C06_scan_indep_steps.** Aligned machines stay aligned under `n` state-function calls made in lockstep
without a signal on either side, the two DISPATCHERS being the sinks. -/
theorem C06_scan_indep_steps (hside : PhaseOk tbl P = true) (ht : EmitsChecked tbl = true)
    (hs : StayScan H) (hh : HashOnly H) (ed : EmitDiscipline H) (ho : o.sticky = true) (inp : Bytes) (d0 : Disp γ)
    (n : Nat) (ms ms' : M (Disp γ)) (ml ml' : M (Disp (γ × Flags))) (hal : Aligned H o cfg P d0 ms ml)
    (h1 : runSteps (envPlain H tbl cfg) inp n ms = some ms') (h2 : runSteps (envObs H o tbl cfg) inp n ml = some ml') :
    Aligned H o cfg P d0 ms' ml' := by
  obtain ⟨msL, mlL, hS, hL, hrel⟩ := hal
  obtain ⟨msL', e1, hS'⟩ := runSteps_congS (scanS_ok (d0 := d0) (tbl := tbl) (cfg := cfg) (inp := inp) hs hh) ht n ms msL hS ms' h1
  obtain ⟨mlL', e2, hL'⟩ := runSteps_congS (lexL_ok (d0 := d0) (tbl := tbl) (cfg := cfg) (inp := inp) hs hh ed ho) ht n ml mlL hL ml' h2
  exact ⟨msL', mlL', hS', hL', C06_run_simulation tbl cfg P hside inp n msL mlL msL' mlL' hrel e1 e2⟩

/-- **at a tag boundary** (a state not labelled `inTag`) aligned machines have the same `Common` registers
and simulator, the dispatchers are related by `ObsR false`, the plain one in scan mode -/
theorem C06_aligned_boundary {d0 : Disp γ} {ms : M (Disp γ)} {ml : M (Disp (γ × Flags))} (hal : Aligned H o cfg P d0 ms ml)
    (hab : P.at ms.c.state ≠ .inTag) :
    ms.c = ml.c ∧ ms.x.sim = ml.x.sim ∧ ObsR false ml.x.sink ms.x.sink ∧ ScanMode H ms.x.sink := by
  obtain ⟨msL, mlL, ⟨a1, a2, _, a3, a4, a5⟩, ⟨b1, b2, _, b3, b4, b5⟩, hrel⟩ := hal
  unfold RelAt at hrel
  rw [← a1] at hrel
  obtain ⟨c1, c2, c3⟩ := C06_boundary_agreement cfg _ msL mlL hrel hab
  refine ⟨by rw [a1, b1, c1], by rw [a5, b5, c2], ?_, a4⟩
  rw [a3, c3]
  exact b3

/-- **inside a tag** the plain run's dispatcher is exactly one hint ahead of a dispatcher `D` to which the
observing dispatcher is `ObsR false`-related -/
theorem C06_aligned_inTag {d0 : Disp γ} {ms : M (Disp γ)} {ml : M (Disp (γ × Flags))} (hal : Aligned H o cfg P d0 ms ml)
    (hab : P.at ms.c.state = .inTag) :
    ∃ (D : Disp γ) (ev : TagEv), ObsR false ml.x.sink D ∧ ScanMode H D ∧ ms.x.sink = hintEv H D ev := by
  obtain ⟨msL, mlL, ⟨a1, a2, _, a3, a4, a5⟩, ⟨b1, b2, _, b3, b4, b5⟩, hrel⟩ := hal
  unfold RelAt at hrel
  rw [← a1, hab] at hrel
  obtain ⟨key, f, c1, _, _, _⟩ := C06_inTag_one_ahead cfg msL mlL hrel
  refine ⟨foldHints H d0 mlL.x.sink, evOf key msL.x.sim.currentNs, b3, b4, ?_⟩
  rw [a3, c1, foldHints_snoc]

/-- fresh machines (as built by `Parser.new` for the two runs) over `ObsR false`-related dispatchers are aligned -/
theorem C06_aligned_initial (hdata : P.at tbl.dataState = .outClean) (strict : Bool) {dl : Disp (γ × Flags)} {ds : Disp γ}
    (h : ObsR false dl ds) (hm : ScanMode H ds) :
    Aligned H o cfg P ds (⟨{ state := tbl.dataState }, .scanner {}, { sink := ds, sim := Sim.new strict }⟩ : M (Disp γ))
      ⟨{ state := tbl.dataState }, .lexer {}, { sink := dl, sim := Sim.new strict }⟩ :=
  ⟨⟨{ state := tbl.dataState }, .scanner {}, { sink := [], sim := Sim.new strict }⟩,
   ⟨{ state := tbl.dataState }, .lexer {}, { sink := [], sim := Sim.new strict }⟩,
   ⟨rfl, rfl, ⟨_, rfl⟩, rfl, hm, rfl⟩, ⟨rfl, rfl, ⟨_, rfl⟩, h, hm, rfl⟩, C06_initial tbl cfg P hdata strict⟩

/-- **C06_scan_indep_same_state.** From fresh machines over related dispatchers, after any number of lockstep
state-function calls without a signal, at a tag boundary: `H` is in the same state in both runs (it has
received the same events in the same order, `H` being arbitrary among the `StayScan`/`HashOnly` controllers),
and the dispatchers are again `ObsR false`-related. -/
theorem C06_scan_indep_same_state (hside : PhaseOk tbl P = true) (ht : EmitsChecked tbl = true)
    (hdata : P.at tbl.dataState = .outClean)
    (hs : StayScan H) (hh : HashOnly H) (ed : EmitDiscipline H) (ho : o.sticky = true) (inp : Bytes) (strict : Bool)
    {dl : Disp (γ × Flags)} {ds : Disp γ} (h : ObsR false dl ds) (hm : ScanMode H ds)
    (n : Nat) (ms' : M (Disp γ)) (ml' : M (Disp (γ × Flags)))
    (h1 : runSteps (envPlain H tbl cfg) inp n ⟨{ state := tbl.dataState }, .scanner {}, { sink := ds, sim := Sim.new strict }⟩ = some ms')
    (h2 : runSteps (envObs H o tbl cfg) inp n ⟨{ state := tbl.dataState }, .lexer {}, { sink := dl, sim := Sim.new strict }⟩ = some ml')
    (hab : P.at ms'.c.state ≠ .inTag) :
    ml'.x.sink.ctl.1 = ms'.x.sink.ctl ∧ ObsR false ml'.x.sink ms'.x.sink ∧ ms'.c = ml'.c := by
  have hal := C06_scan_indep_steps hside ht hs hh ed ho inp ds n _ ms' _ ml'
    (C06_aligned_initial (o := o) (cfg := cfg) hdata strict h hm) h1 h2
  obtain ⟨e1, _, e3, _⟩ := C06_aligned_boundary hal hab
  have hc : ml'.x.sink.ctl = (ms'.x.sink.ctl, ms'.x.sink.flags) := e3.ctl
  exact ⟨by rw [hc], e3, e1⟩

end

end LolHtml.Thm.C06
