import LolHtml.Lemmas.ChunkFull
import LolHtml.Thm.C02_Chunk
import LolHtml.Thm.Full
/-!
# C02 / C09 with content REMOVAL, and for the real `HtmlRewriteController`

`Thm/C02_Chunk.lean` proves chunk-boundary invariance for controllers that never remove content
(`TextBlind`: `should_emit_content()` is constantly true). This file covers removal.

## The class `TextBlindR ctl E` (Lemmas/ChunkDispR.lean)

As `TextBlind`, but `should_emit_content()` may change: `handle_start_tag`, the aux-info continuation and
non-tag tokens keep it; `handle_end_tag` may only turn it on; tag tokens change it arbitrarily; `E` respects
it. Text chunks either are serialised to their own bytes or the controller is in a state in which every text
chunk fails with a panic-class error (`TextDead`: a fault recorded by a callback that cannot fail).
`TextBlind.toR`: the old class is an instance.

## What is chunk-dependent in the dispatcher, and the checked rewriter

`handle_tag` sets `emission_enabled := should_emit_content()` *before* the lexeme is emitted. When an
end-tag HINT (tag scanner) has ended the removed element, `should_emit_content()` is true again while
`emission_enabled` is still false, and `remaining_content_start` still points into the removed content; the
dispatcher relies on the parser to deliver next, as a lexeme, that very END tag (which re-synchronises
`remaining_content_start`). A START-tag lexeme arriving in that situation would flush the removed bytes — and
whether the feedback-driven re-lexing delivers the end tag first is a fact about the parser, not about the
dispatcher. The simulation is therefore proved for the **checked rewriter** (`R.runG`, `R.writeAllG`), whose
dispatcher has two assertions the real one has not:

* `guardOps`: `handle_tag` refuses a START-tag lexeme while emission is disabled and the controller wants it
  enabled;
* `flushC`: `flush_remaining_input` checks `remaining_content_start ≤ consumed ≤ len` also when emission is
  disabled (the real one checks it only when it slices).

`ResumeAtEndTag w g cfg cs` says that on the chunking `cs` these assertions never fire: the checked rewriter
returns the same results and writes the same output as the real one. (An assertion that fires makes the
checked call return a `panic` the real controller's callbacks never return.) The theorems about the real
rewriter assume it for the runs they mention. It is decidable on concrete runs (examples at the end), and a
theorem for controllers that never return a panic-class error themselves (`Thm/C02_RemovalFinal.lean`,
`C02_resumeAtEndTag`, from pkg scan's `C06_relex_end_tag` and pkg inv's watermark invariant) and for the real
controller (`C02_resumeAtEndTag_real`, hence `C02_real_final` / `C09_real_final` without this hypothesis).
-/
namespace LolHtml.Thm.C02
open LolHtml LolHtml.Model LolHtml.Model.Chunk LolHtml.Model.Chunk.R

/-! ## The checked rewriter -/

/-- **Dispatcher simulation with removal** (guarded `handle_tag`). -/
theorem C02_dispatcher_R {γ : Type} {ctl : Controller γ} {E : γ → γ → Prop} {inpS inpW : Bytes} {δ : Nat}
    (F : Frame inpS inpW δ) (hcl : TextBlindR ctl E) :
    OpsSim (guardOps ctl) inpS inpW δ (R.DK ctl E inpS inpW δ) DLoc :=
  guardOps_sim F hcl

/-- the old class is an instance of the new one -/
theorem C02_textBlind_toR {γ : Type} {ctl : Controller γ} {E : γ → γ → Prop} (h : TextBlind ctl E) : TextBlindR ctl E :=
  R.TextBlind.toR h

/-- **C02 with removal, checked rewriter: any chunking against one write.** -/
theorem C02_chunk_vs_single_R {γ : Type} (w : World γ) (E : γ → γ → Prop) (g : γ) (cfg : Settings) (cs : List Bytes)
    (hwf : WfChunk w.tbl = true) (hcl : TextBlindR w.ctl E) (hg : E g g) (hse : w.ctl.shouldEmit g = true) (hne : cs ≠ [])
    (hc : Clean (runG w (C01.Rewriter.new w g cfg) cs).2)
    (hcW : Clean (runG w (C01.Rewriter.new w g cfg) [cs.flatten]).2) :
    outcome (runG w (C01.Rewriter.new w g cfg) cs).2 = outcome (runG w (C01.Rewriter.new w g cfg) [cs.flatten]).2 ∧
    (outcome (runG w (C01.Rewriter.new w g cfg) cs).2 = .ok →
      sinkBytes (runG w (C01.Rewriter.new w g cfg) cs).1.sink =
        sinkBytes (runG w (C01.Rewriter.new w g cfg) [cs.flatten]).1.sink ∧
      E (runG w (C01.Rewriter.new w g cfg) cs).1.stream.disp.ctl
        (runG w (C01.Rewriter.new w g cfg) [cs.flatten]).1.stream.disp.ctl) := by
  rcases R.chunking_vs_single (fs := flagMap w.tbl) hcl hwf g hg hse cfg cs hne with h | h | h
  · exact absurd hc (not_clean_of_uncleanL h)
  · exact absurd hcW (not_clean_of_uncleanL h)
  · exact h

/-- **C02 with removal, checked rewriter: two chunkings of the same document.** -/
theorem C02_chunk_invariance_R {γ : Type} (w : World γ) (E : γ → γ → Prop) (g : γ) (cfg : Settings) (cs₁ cs₂ : List Bytes)
    (hwf : WfChunk w.tbl = true) (hcl : TextBlindR w.ctl E) (hg : E g g) (hse : w.ctl.shouldEmit g = true)
    (h1 : cs₁ ≠ []) (h2 : cs₂ ≠ []) (hflat : cs₁.flatten = cs₂.flatten)
    (hc1 : Clean (runG w (C01.Rewriter.new w g cfg) cs₁).2)
    (hc2 : Clean (runG w (C01.Rewriter.new w g cfg) cs₂).2)
    (hcW : Clean (runG w (C01.Rewriter.new w g cfg) [cs₁.flatten]).2) :
    outcome (runG w (C01.Rewriter.new w g cfg) cs₁).2 = outcome (runG w (C01.Rewriter.new w g cfg) cs₂).2 ∧
    (outcome (runG w (C01.Rewriter.new w g cfg) cs₁).2 = .ok →
      sinkBytes (runG w (C01.Rewriter.new w g cfg) cs₁).1.sink =
        sinkBytes (runG w (C01.Rewriter.new w g cfg) cs₂).1.sink ∧
      ∃ gW, E (runG w (C01.Rewriter.new w g cfg) cs₁).1.stream.disp.ctl gW ∧
        E (runG w (C01.Rewriter.new w g cfg) cs₂).1.stream.disp.ctl gW) := by
  obtain ⟨a1, a2⟩ := C02_chunk_vs_single_R w E g cfg cs₁ hwf hcl hg hse h1 hc1 hcW
  obtain ⟨b1, b2⟩ := C02_chunk_vs_single_R w E g cfg cs₂ hwf hcl hg hse h2 hc2 (by rw [← hflat]; exact hcW)
  rw [← hflat] at b1 b2
  refine ⟨by rw [a1, b1], fun hok => ?_⟩
  obtain ⟨a3, a4⟩ := a2 hok
  obtain ⟨b3, b4⟩ := b2 (by rw [b1, ← a1]; exact hok)
  exact ⟨by rw [a3, b3], _, a4, b4⟩

/-- **C09 with removal, checked rewriter.** -/
theorem C09_schedule_independent_R {γ : Type} (w : World γ) (E : γ → γ → Prop) (g : γ) (cfg : Settings) (cs : List Bytes)
    (hwf : WfChunk w.tbl = true) (hcl : TextBlindR w.ctl E) (hg : E g g) (hse : w.ctl.shouldEmit g = true) (hne : cs ≠ [])
    (hall : ∀ r ∈ (writeAllG w (C01.Rewriter.new w g cfg) cs).2, r = .ok)
    (hcW : Clean [((C01.Rewriter.new w g cfg).writeG w cs.flatten).2]) :
    ((C01.Rewriter.new w g cfg).writeG w cs.flatten).2 = .ok ∧
    sinkBytes (writeAllG w (C01.Rewriter.new w g cfg) cs).1.sink =
      sinkBytes ((C01.Rewriter.new w g cfg).writeG w cs.flatten).1.sink := by
  rcases R.writes_vs_single (fs := flagMap w.tbl) hcl hwf g hg hse cfg cs hne hall with h | ⟨h1, h2, _⟩
  · exfalso
    obtain ⟨r1, _, _⟩ := R.write_res (w := w) (C01.Rewriter.new w g cfg) rfl cs.flatten
    have hcl' := hcW _ List.mem_cons_self
    rw [r1] at hcl'
    rcases h with ⟨m, hm⟩ | hm
    · exact hcl'.1 m (by
        show callRes ((Stream.new w g cfg).writeG w cs.flatten).2 = _
        rw [hm]; rfl)
    · exact hcl'.2 (by
        show callRes ((Stream.new w g cfg).writeG w cs.flatten).2 = _
        rw [hm]; rfl)
  · exact ⟨h1, h2⟩

/-! ## The real rewriter, under `ResumeAtEndTag` -/

/-- **The assertions of the checked rewriter never fire on the chunking `cs`**: with and without the final
`end`, the checked rewriter returns the same results and has written the same output as the real one. -/
def ResumeAtEndTag {γ : Type} (w : World γ) (g : γ) (cfg : Settings) (cs : List Bytes) : Prop :=
  (runG w (C01.Rewriter.new w g cfg) cs).2 = (C01.run w (C01.Rewriter.new w g cfg) cs).2 ∧
  sinkBytes (runG w (C01.Rewriter.new w g cfg) cs).1.sink = sinkBytes (C01.run w (C01.Rewriter.new w g cfg) cs).1.sink ∧
  (writeAllG w (C01.Rewriter.new w g cfg) cs).2 = (C01.writeAll w (C01.Rewriter.new w g cfg) cs).2 ∧
  sinkBytes (writeAllG w (C01.Rewriter.new w g cfg) cs).1.sink =
    sinkBytes (C01.writeAll w (C01.Rewriter.new w g cfg) cs).1.sink

instance {γ : Type} (w : World γ) (g : γ) (cfg : Settings) (cs : List Bytes) : Decidable (ResumeAtEndTag w g cfg cs) := by
  unfold ResumeAtEndTag; infer_instance

/-- **C02 with removal** (chunk-boundary invariance of the rewritten output). Two chunkings of the same
document, a controller of the class `TextBlindR` that starts with emission on: if the runs are clean (no
panic-class result, no memory-limit error) and resume emission at an end tag, the outcomes are equal and on
success the sink has received the same bytes. -/
theorem C02_chunk_invariance_removal {γ : Type} (w : World γ) (E : γ → γ → Prop) (g : γ) (cfg : Settings)
    (cs₁ cs₂ : List Bytes) (hwf : WfChunk w.tbl = true) (hcl : TextBlindR w.ctl E) (hg : E g g)
    (hse : w.ctl.shouldEmit g = true) (h1 : cs₁ ≠ []) (h2 : cs₂ ≠ []) (hflat : cs₁.flatten = cs₂.flatten)
    (hc1 : Clean (C01.run w (C01.Rewriter.new w g cfg) cs₁).2)
    (hc2 : Clean (C01.run w (C01.Rewriter.new w g cfg) cs₂).2)
    (hcW : Clean (C01.run w (C01.Rewriter.new w g cfg) [cs₁.flatten]).2)
    (hr1 : ResumeAtEndTag w g cfg cs₁) (hr2 : ResumeAtEndTag w g cfg cs₂) (hrW : ResumeAtEndTag w g cfg [cs₁.flatten]) :
    outcome (C01.run w (C01.Rewriter.new w g cfg) cs₁).2 = outcome (C01.run w (C01.Rewriter.new w g cfg) cs₂).2 ∧
    (outcome (C01.run w (C01.Rewriter.new w g cfg) cs₁).2 = .ok →
      sinkBytes (C01.run w (C01.Rewriter.new w g cfg) cs₁).1.sink =
        sinkBytes (C01.run w (C01.Rewriter.new w g cfg) cs₂).1.sink) := by
  obtain ⟨a, b⟩ := C02_chunk_invariance_R w E g cfg cs₁ cs₂ hwf hcl hg hse h1 h2 hflat
    (by rw [hr1.1]; exact hc1) (by rw [hr2.1]; exact hc2) (by rw [hrW.1]; exact hcW)
  rw [hr1.1, hr2.1, hr1.2.1, hr2.2.1] at *
  exact ⟨a, fun h => (b h).1⟩

/-- **C09 with removal** (schedule independence of the output). -/
theorem C09_schedule_independent_removal {γ : Type} (w : World γ) (E : γ → γ → Prop) (g : γ) (cfg : Settings)
    (cs : List Bytes) (hwf : WfChunk w.tbl = true) (hcl : TextBlindR w.ctl E) (hg : E g g)
    (hse : w.ctl.shouldEmit g = true) (hne : cs ≠ [])
    (hall : ∀ r ∈ (C01.writeAll w (C01.Rewriter.new w g cfg) cs).2, r = .ok)
    (hcW : Clean [((C01.Rewriter.new w g cfg).write w cs.flatten).2])
    (hr : ResumeAtEndTag w g cfg cs) (hrW : ResumeAtEndTag w g cfg [cs.flatten]) :
    ((C01.Rewriter.new w g cfg).write w cs.flatten).2 = .ok ∧
    sinkBytes (C01.writeAll w (C01.Rewriter.new w g cfg) cs).1.sink =
      sinkBytes ((C01.Rewriter.new w g cfg).write w cs.flatten).1.sink := by
  obtain ⟨_, _, w1, w2⟩ := hr
  obtain ⟨_, _, s1, s2⟩ := hrW
  have s1' : ((C01.Rewriter.new w g cfg).writeG w cs.flatten).2 = ((C01.Rewriter.new w g cfg).write w cs.flatten).2 := by
    have : [((C01.Rewriter.new w g cfg).writeG w cs.flatten).2] = [((C01.Rewriter.new w g cfg).write w cs.flatten).2] := s1
    exact List.head_eq_of_cons_eq this
  have s2' : sinkBytes ((C01.Rewriter.new w g cfg).writeG w cs.flatten).1.sink =
      sinkBytes ((C01.Rewriter.new w g cfg).write w cs.flatten).1.sink := s2
  obtain ⟨a, b⟩ := C09_schedule_independent_R w E g cfg cs hwf hcl hg hse hne (by rw [w1]; exact hall) (by rw [s1']; exact hcW)
  rw [s1'] at a
  rw [w2, s2'] at b
  exact ⟨a, b⟩

/-! ## The real `HtmlRewriteController` -/

section real
open LolHtml.Model.Full LolHtml.Thm.Full

/-- **The real controller is in the class**: any configuration without text handlers — element, comment,
doctype, end-tag and document-end handlers with arbitrary scripts (`remove`, `replace`, `set_inner_content`,
`before` / `after` / `prepend` / `append`, attribute edits, `on_end_tag`, failing handlers), any selectors. -/
theorem C02_real_class (hc : Cfg) : TextBlindR (fullCtl hc) (FullE hc) := fullCtl_textBlindR hc

/-- **C02_real.** The whole rewriter model — tokenizer tables regenerated from /repo, the real controller —
for a configuration without text handlers: two chunkings of the same document give the same outcome and on
success the same OUTPUT, for runs without panic-class results and memory-limit errors that resume emission
at an end tag. -/
theorem C02_real (hc : Cfg) (hnt : noText hc = true) (settings : Settings) (cs₁ cs₂ : List Bytes)
    (h1 : cs₁ ≠ []) (h2 : cs₂ ≠ []) (hflat : cs₁.flatten = cs₂.flatten)
    (hc1 : Clean (C01.run (genWorld hc) (C01.Rewriter.new (genWorld hc) (FullSt.init hc) settings) cs₁).2)
    (hc2 : Clean (C01.run (genWorld hc) (C01.Rewriter.new (genWorld hc) (FullSt.init hc) settings) cs₂).2)
    (hcW : Clean (C01.run (genWorld hc) (C01.Rewriter.new (genWorld hc) (FullSt.init hc) settings) [cs₁.flatten]).2)
    (hr1 : ResumeAtEndTag (genWorld hc) (FullSt.init hc) settings cs₁)
    (hr2 : ResumeAtEndTag (genWorld hc) (FullSt.init hc) settings cs₂)
    (hrW : ResumeAtEndTag (genWorld hc) (FullSt.init hc) settings [cs₁.flatten]) :
    outcome (C01.run (genWorld hc) (C01.Rewriter.new (genWorld hc) (FullSt.init hc) settings) cs₁).2 =
      outcome (C01.run (genWorld hc) (C01.Rewriter.new (genWorld hc) (FullSt.init hc) settings) cs₂).2 ∧
    (outcome (C01.run (genWorld hc) (C01.Rewriter.new (genWorld hc) (FullSt.init hc) settings) cs₁).2 = .ok →
      sinkBytes (C01.run (genWorld hc) (C01.Rewriter.new (genWorld hc) (FullSt.init hc) settings) cs₁).1.sink =
        sinkBytes (C01.run (genWorld hc) (C01.Rewriter.new (genWorld hc) (FullSt.init hc) settings) cs₂).1.sink) :=
  C02_chunk_invariance_removal (genWorld hc) (FullE hc) (FullSt.init hc) settings cs₁ cs₂ C02_wf_gen
    (fullCtl_textBlindR hc) (init_E hc hnt) (init_shouldEmit hc) h1 h2 hflat hc1 hc2 hcW hr1 hr2 hrW

/-- **C09_real.** After any successful writes the sink has exactly the bytes a fresh rewriter given the
concatenation in ONE write has emitted, and that write succeeds. -/
theorem C09_real (hc : Cfg) (hnt : noText hc = true) (settings : Settings) (cs : List Bytes) (hne : cs ≠ [])
    (hall : ∀ r ∈ (C01.writeAll (genWorld hc) (C01.Rewriter.new (genWorld hc) (FullSt.init hc) settings) cs).2, r = .ok)
    (hcW : Clean [((C01.Rewriter.new (genWorld hc) (FullSt.init hc) settings).write (genWorld hc) cs.flatten).2])
    (hr : ResumeAtEndTag (genWorld hc) (FullSt.init hc) settings cs)
    (hrW : ResumeAtEndTag (genWorld hc) (FullSt.init hc) settings [cs.flatten]) :
    ((C01.Rewriter.new (genWorld hc) (FullSt.init hc) settings).write (genWorld hc) cs.flatten).2 = .ok ∧
    sinkBytes (C01.writeAll (genWorld hc) (C01.Rewriter.new (genWorld hc) (FullSt.init hc) settings) cs).1.sink =
      sinkBytes ((C01.Rewriter.new (genWorld hc) (FullSt.init hc) settings).write (genWorld hc) cs.flatten).1.sink :=
  C09_schedule_independent_removal (genWorld hc) (FullE hc) (FullSt.init hc) settings cs C02_wf_gen
    (fullCtl_textBlindR hc) (init_E hc hnt) (init_shouldEmit hc) hne hall hcW hr hrW

/-! ## Non-vacuity (kernel-evaluated runs of the whole model) -/

/-- `<div a=b>x</div>y` -/
def rdoc : Bytes := Full.sampleChunks.flatten

/-- in one write; split inside the end tag (`<div a=b>x<`, `/div>y`); split inside the start tag, inside the
removed content and after it (`<d`, `iv a=b>`, `x`, `</div>`, `y`) -/
def rch1 : List Bytes := [rdoc]
def rch2 : List Bytes := Full.sampleChunks
def rch3 : List Bytes := [[60,100], [105,118,32,97,61,98,62], [120], [60,47,100,105,118,62], [121]]

example : rch1.flatten = rch2.flatten ∧ rch2.flatten = rch3.flatten := by decide

example : noText mutCfg = true ∧ noText auxCfg = true := by decide

/-- `el.remove()`: the hypotheses of `C02_real` hold on the three chunkings (all calls succeed; the checked
rewriter agrees with the real one) … -/
example : (C01.run (genWorld mutCfg) (C01.Rewriter.new (genWorld mutCfg) (FullSt.init mutCfg) {}) rch1).2 = [.ok, .ok] := by
  decide +kernel
example : (C01.run (genWorld mutCfg) (C01.Rewriter.new (genWorld mutCfg) (FullSt.init mutCfg) {}) rch2).2 = [.ok, .ok, .ok] := by
  decide +kernel
example : (C01.run (genWorld mutCfg) (C01.Rewriter.new (genWorld mutCfg) (FullSt.init mutCfg) {}) rch3).2 =
    [.ok, .ok, .ok, .ok, .ok, .ok] := by
  decide +kernel
example : ResumeAtEndTag (genWorld mutCfg) (FullSt.init mutCfg) {} rch1 := by decide +kernel
example : ResumeAtEndTag (genWorld mutCfg) (FullSt.init mutCfg) {} rch2 := by decide +kernel
example : ResumeAtEndTag (genWorld mutCfg) (FullSt.init mutCfg) {} rch3 := by decide +kernel

/-- … and so does its conclusion: the element and its content are removed under each of them -/
example : sinkBytes (C01.run (genWorld mutCfg) (C01.Rewriter.new (genWorld mutCfg) (FullSt.init mutCfg) {}) rch1).1.sink = [121] ∧
    sinkBytes (C01.run (genWorld mutCfg) (C01.Rewriter.new (genWorld mutCfg) (FullSt.init mutCfg) {}) rch2).1.sink = [121] ∧
    sinkBytes (C01.run (genWorld mutCfg) (C01.Rewriter.new (genWorld mutCfg) (FullSt.init mutCfg) {}) rch3).1.sink = [121] := by
  decide +kernel

/-- `set_attribute("c","d")` + `after("!")` on `[a]` (the selector needs the attributes: the aux-info
request crosses a chunk boundary in `rch3`): `<div a=b c="d">x</div>!y` under each chunking -/
example : ResumeAtEndTag (genWorld auxCfg) (FullSt.init auxCfg) {} rch2 ∧
    ResumeAtEndTag (genWorld auxCfg) (FullSt.init auxCfg) {} rch3 := by decide +kernel
example : sinkBytes (C01.run (genWorld auxCfg) (C01.Rewriter.new (genWorld auxCfg) (FullSt.init auxCfg) {}) rch2).1.sink =
      [60,100,105,118,32,97,61,98,32,99,61,34,100,34,62,120,60,47,100,105,118,62,33,121] ∧
    sinkBytes (C01.run (genWorld auxCfg) (C01.Rewriter.new (genWorld auxCfg) (FullSt.init auxCfg) {}) rch3).1.sink =
      [60,100,105,118,32,97,61,98,32,99,61,34,100,34,62,120,60,47,100,105,118,62,33,121] := by
  decide +kernel

end real

end LolHtml.Thm.C02
