/-
# Package `full`, part 12 — scanner mode, operation level: second finding, the statement with guarded hints, its cases

## Finding 2: `Full_scan_opsW_statement` (route (B) of Thm/Full11.lean) is false as well

`RelE.OpsRelE` quantifies the two HINT operations over every state with the invariant, and `SGuard` / `guardS` cannot
refuse a hint. A start-tag hint WHILE an end-tag hint is outstanding (the parser never does this: after a hint answered
`lex` its next sink call is `handle_tag`) skips the end-tag token — the hazard of `Full_ctlClean_unattainable` again, with
every operation before the last succeeding identically over the real and the cleaned controller.
`Full_scan_opsW_unsat`: `¬ Full_scan_opsW_statement Inv` for every `Inv`.
-/
import LolHtml.Thm.Full11
import LolHtml.Lemmas.HintCtl

namespace LolHtml.Thm.Full
open LolHtml LolHtml.Model LolHtml.Model.Full LolHtml.Model.Handlers LolHtml.EditModel LolHtml.Lemmas.Full
open LolHtml.Model.RelI LolHtml.Model.Hint

/-! ## the counterexample -/

abbrev hwK : SGuard (Disp (FullStH hazardCfg)) := withArgs argSite (andGuard kindGuard wmGuard)
def hwR : SinkOps (Disp (FullStH hazardCfg)) := guardS hwK (dispOps (fullCtlH hazardCfg))
def hwC : SinkOps (Disp (FullStH hazardCfg)) := guardS hwK (dispOps (cleanCtlH hazardCfg))

inductive HwOp
  | tag (lx : TagLexeme)
  | sh (n : UInt8)
  | eh (n : UInt8)

def hwName (n : UInt8) : LocalName := .hash (NameHash.ofBytes [n])

def hwRun (ops : SinkOps (Disp (FullStH hazardCfg))) (o : HwOp) (d : Disp (FullStH hazardCfg)) :
    DRes (FullStH hazardCfg) Directive :=
  match o with
  | .tag lx => ops.handleTag hzInp lx d
  | .sh n => ops.startTagHint (hwName n) .html d
  | .eh n => ops.endTagHint (hwName n) d

/-- `<a>`; end hint `a`; START hint `b` while the end hint is outstanding; `<b>`; end hint `x`; `</x>`; end hint `b` -/
def hwOps : List HwOp := [.tag hzLx1, .eh 97, .sh 98, .tag hzLx3, .eh 120, .tag hzLx4, .eh 98]

def hwStates : List HwOp → Disp (FullStH hazardCfg) → Disp (FullStH hazardCfg)
  | [], d => d
  | o :: os, d => hwStates os (hwRun hwR o d).1

/-- all seven operations succeed -/
def hwAllOk : List HwOp → Disp (FullStH hazardCfg) → Bool
  | [], _ => true
  | o :: os, d => resKind (hwRun hwR o d).2 == 0 && hwAllOk os (hwRun hwR o d).1

theorem hw_ok : hwAllOk hwOps hzD0 = true := by decide +kernel
/-- the eighth (a start hint): a panic over the real controller, the handler error over the cleaned one -/
theorem hw_differ : (resKind (hwRun hwR (.sh 99) (hwStates hwOps hzD0)).2, resKind (hwRun hwC (.sh 99) (hwStates hwOps hzD0)).2) = (1, 3) := by
  decide +kernel

theorem resKind_np {r : Except Err Directive} {e : Err} (h : r = .error e) (hn : NP e) : resKind r = 3 := by
  subst h
  cases e <;> first | rfl | exact hn.elim

/-- **Full_scan_opsW_unsat.** No invariant makes the operation-level hypothesis with the watermark guard true either. -/
theorem Full_scan_opsW_unsat (Inv : ∀ cfg, Disp (FullStH cfg) → Prop) : ¬ Full_scan_opsW_statement Inv := by
  intro h
  obtain ⟨h0, hrel⟩ := h hazardCfg
  have hops := hrel.ops hzInp
  have step : ∀ (o : HwOp) (d : Disp (FullStH hazardCfg)), Inv hazardCfg d →
      (Inv hazardCfg (hwRun hwR o d).1 ∧ (hwRun hwR o d).2 = (hwRun hwC o d).2) ∨ resKind (hwRun hwR o d).2 = 3 := by
    intro o d hd
    cases o with
    | tag lx =>
      rcases hops.handleTag lx d d ⟨rfl, hd⟩ with ⟨⟨_, hi⟩, he⟩ | ⟨e, hG, he⟩
      · exact Or.inl ⟨hi, he⟩
      · exact Or.inr (resKind_np he hG)
    | sh n =>
      rcases hops.startTagHint (hwName n) .html d d ⟨rfl, hd⟩ with ⟨⟨_, hi⟩, he⟩ | ⟨e, hG, he⟩
      · exact Or.inl ⟨hi, he⟩
      · exact Or.inr (resKind_np he hG)
    | eh n =>
      rcases hops.endTagHint (hwName n) d d ⟨rfl, hd⟩ with ⟨⟨_, hi⟩, he⟩ | ⟨e, hG, he⟩
      · exact Or.inl ⟨hi, he⟩
      · exact Or.inr (resKind_np he hG)
  have all : ∀ (os : List HwOp) (d : Disp (FullStH hazardCfg)), Inv hazardCfg d → hwAllOk os d = true →
      Inv hazardCfg (hwStates os d) := by
    intro os
    induction os with
    | nil => intro d hd _; exact hd
    | cons o os ih =>
      intro d hd hok
      simp only [hwAllOk, Bool.and_eq_true, beq_iff_eq] at hok
      rcases step o d hd with ⟨hi, _⟩ | h3
      · exact ih _ hi hok.2
      · rw [hok.1] at h3; cases h3
  have hI := all hwOps hzD0 (h0 0) hw_ok
  have hd := hw_differ
  rcases step (.sh 99) _ hI with ⟨_, he⟩ | h3
  · rw [he] at hd
    revert hd
    generalize resKind (hwRun hwC (.sh 99) (hwStates hwOps hzD0)).2 = k
    intro hk
    simp only [Prod.mk.injEq] at hk
    omega
  · have := congrArg Prod.fst hd
    simp only at this
    rw [h3] at this
    cases this

/-! ## the statement with guarded hints

The hint operations have to be guarded too: no tag hint while a tag hint is outstanding. (Run-level companion: after a
hint answered `lex` the parser's next sink call is `handle_tag` — `loadBookmark` switches to the lexer, which re-lexes the
tag.) `guardHints` wraps a sink; `CtlRelX` is `CtlRelG` over the wrapped sinks. -/

def hintSite : String := "tag hint while a tag hint is outstanding"

/-- refuse a tag hint while `got_flags_from_hint` or `pending_element_aux_info_req` -/
def guardHints {γ : Type} (ops : SinkOps (Disp γ)) : SinkOps (Disp γ) :=
  { ops with
    startTagHint := fun n ns d =>
      if d.gotFlagsFromHint || d.pendingAux then (d, .error (.panic hintSite)) else ops.startTagHint n ns d
    endTagHint := fun n d =>
      if d.gotFlagsFromHint || d.pendingAux then (d, .error (.panic hintSite)) else ops.endTagHint n d }

structure CtlRelX {γ : Type} (w : World γ) (c2 : Controller γ) (K : SGuard (Disp γ)) (Inv : Disp γ → Prop) (G : Err → Prop) : Prop where
  ops : ∀ inp, RelE.OpsRelE (guardHints (guardS K (dispOps w.ctl))) (guardHints (guardS K (dispOps c2))) inp (IRel Inv) G
  bail : w.ctl.bailOut = c2.bailOut
  flush : ∀ d d' inp k, d.flushRemaining inp k = .ok d' → Inv d → Inv d'
  handleEnd : ∀ d, Inv d → w.ctl.handleEnd d.ctl = c2.handleEnd d.ctl ∨ ∃ e, G e ∧ (w.ctl.handleEnd d.ctl).2.2 = some e
  initial : ∀ g, w.ctl.initialFlags g = c2.initialFlags g
  np : ∀ e, G e → (∀ s, e ≠ .panic s) ∧ (∀ s, e ≠ .internal s)

/-- **the operation-level statement with all four operations guarded** -/
def Full_scan_opsX_statement (Inv : ∀ cfg, Disp (FullStH cfg) → Prop) : Prop :=
  ∀ cfg : Cfg, (∀ enc, Inv cfg (Disp.new (fullCtlH cfg) (FullSt.init cfg, none) enc)) ∧
    CtlRelX (genWorldH cfg) (cleanCtlH cfg) (withArgs argSite (andGuard kindGuard wmGuard)) (Inv cfg) NP

/-! ### the invariant -/

/-- the same controller state up to the log and the invocation counters of the text / comment / doctype handlers -/
structure EqT (s s' : St) : Prop where
  disp : s'.disp = s.disp
  vm : s'.vm = s.vm
  descs : s'.descs = s.descs
  pending : s'.pending = s.pending
  payloads : s'.payloads = s.payloads
  ord : s'.ord = s.ord
  fault : s'.fault = s.fault
  inv : ∀ h, invGet s'.inv (kElement, h) = invGet s.inv (kElement, h)

theorem EqT.refl (s : St) : EqT s s := ⟨rfl, rfl, rfl, rfl, rfl, rfl, rfl, fun _ => rfl⟩

theorem EqT.trans {a b c : St} (h1 : EqT a b) (h2 : EqT b c) : EqT a c :=
  ⟨h2.disp.trans h1.disp, h2.vm.trans h1.vm, h2.descs.trans h1.descs, h2.pending.trans h1.pending,
   h2.payloads.trans h1.payloads, h2.ord.trans h1.ord, h2.fault.trans h1.fault, fun h => (h2.inv h).trans (h1.inv h)⟩

/-- the four protocol states; the post-hint states allow an open text node and text / comment / doctype tokens
delivered since the hint (`EqT`) -/
inductive InvX (cfg : Cfg) (d : Disp (FullStH cfg)) : Prop
  | idle (hp : d.pendingAux = false) (hg : d.gotFlagsFromHint = false) (hJ : J2 cfg d.ctl.1.1)
  | startLex (s : St) (ln : LocalName) (ns : Model.Ns) (f : Model.Flags) (hJ : J2 cfg s)
      (ha : (startTag s ln ns).2 = .flags f) (hc : EqT (startTag s ln ns).1 d.ctl.1.1) (hf : d.flags = f)
      (hg : d.gotFlagsFromHint = true) (hp : d.pendingAux = false) (hk : d.ctl.2 = some true)
  | auxPend (s : St) (ln : LocalName) (ns : Model.Ns) (hJ : J2 cfg s)
      (ha : (startTag s ln ns).2 = .infoRequest) (hc : EqT (startTag s ln ns).1 d.ctl.1.1)
      (hg : d.gotFlagsFromHint = false) (hp : d.pendingAux = true)
  | endLex (s : St) (ln : LocalName) (hJ : J2 cfg s) (hc : EqT (endTag s ln).1 d.ctl.1.1)
      (hg : d.gotFlagsFromHint = true) (hp : d.pendingAux = false) (hk : d.ctl.2 = some false)

theorem J2_congr {cfg : Cfg} {s s' : St} (h : EqT s s') (hJ : J2 cfg s) : J2 cfg s' := by
  obtain ⟨hJ1, hP⟩ := hJ
  refine ⟨⟨by rw [h.fault]; exact hJ1.fault, ⟨hJ1.valid.toGood.of_eq h.disp h.payloads, ?_⟩, ?_, ?_⟩, ?_⟩
  · have := hJ1.valid.sync
    unfold Sync at this ⊢
    rw [h.vm, h.descs]; exact this
  · obtain ⟨sp, hsp⟩ := hJ1.scope
    exact ⟨sp, by rw [scopeState_congr h.disp h.vm h.descs]; exact hsp⟩
  · intro vm hv; rw [h.vm] at hv; exact hJ1.vm vm hv
  · exact hP.of_frame (by rw [h.disp]) h.payloads (by rw [h.ord]; exact Nat.le_refl _)

/-! ### the controllers with the ghost -/

theorem hintCtl_sim {γ : Type} {c1 c2 : Controller γ} {D : γ → Prop} {G : Err → Prop} (h : Chunk.R.CtlSim c1 c2 D G) :
    Chunk.R.CtlSim (hintCtl c1) (hintCtl c2) (fun g => D g.1) G where
  flags := fun g hg => h.flags g.1 hg
  emit := fun g hg => h.emit g.1 hg
  startTag := fun g n ns hg => (h.startTag g.1 n ns hg).elim
    (fun ⟨he, hD⟩ => Or.inl ⟨by simp only [hintCtl, he], hD⟩) (fun ⟨e, hG, he⟩ => Or.inr ⟨e, hG, he⟩)
  auxInfo := fun g i hg => (h.auxInfo g.1 i hg).elim
    (fun ⟨he, hD⟩ => Or.inl ⟨by simp only [hintCtl, he], hD⟩) (fun ⟨e, hG, he⟩ => Or.inr ⟨e, hG, he⟩)
  endTag := fun g n hg => ⟨by simp only [hintCtl, (h.endTag g.1 n hg).1], (h.endTag g.1 n hg).2⟩
  token := fun g t hg => (h.token g.1 t hg).elim
    (fun ⟨he, hD⟩ => Or.inl ⟨by simp only [hintCtl, he], hD⟩) (fun ⟨e, hG, he⟩ => Or.inr ⟨e, hG, he⟩)
  handleEnd := fun g hg => (h.handleEnd g.1 hg).elim
    (fun ⟨he, hD⟩ => Or.inl ⟨by simp only [hintCtl, he], hD⟩) (fun ⟨e, hG, he⟩ => Or.inr ⟨e, hG, he⟩)
  bailOut := by simp only [hintCtl, h.bailOut]

/-- the real and the cleaned controller with the ghost, with the provenance of the parting error -/
theorem fullCtlH_sim (cfg : Cfg) :
    Chunk.R.CtlSim (fullCtlH cfg) (cleanCtlH cfg) (fun g => Chunk.R.DO cfg g.1)
      (fun e => Chunk.R.GP e ∧ Chunk.R.CbErr (fullCtl cfg) (Chunk.R.DO cfg) e) :=
  hintCtl_sim (Chunk.R.fullCtl_sim_prov cfg)

/-- the class of the errors of a protocol operation over the real controller -/
def HO (e : Err) : Prop := e = .handler ∨ DispOwn e

/-- post-condition of a protocol operation over the real controller with the ghost -/
def UPost {α : Type} (cfg : Cfg) (r : DRes (FullStH cfg) α) : Prop :=
  (∀ a, r.2 = .ok a → InvX cfg r.1) ∧ (∀ e, r.2 = .error e → HO e)

theorem own_not_U2 {e : Err} (ho : DispOwn e) (h1 : ErrOK U1 e) (h2 : ErrNot T2 e) : False := by
  rcases ho with h | h | h | h <;> subst h
  · exact h2 (by simp [T2])
  · exact h2 (by simp [T2])
  · simp [ErrOK, U1] at h1
  · simp [ErrOK, U1] at h1

/-- **glue**: an operation with `UPost` over the real controller that is stepwise the operation over the cleaned
controller, whose failures are not the dispatcher's own, satisfies the `OpsRelE` clause -/
theorem rel_of_unary {α : Type} {cfg : Cfg} {r1 r2 : DRes (FullStH cfg) α}
    (hstep : Chunk.R.DStep (fun g : FullStH cfg => Chunk.R.DO cfg g.1)
      (fun e => Chunk.R.GP e ∧ Chunk.R.CbErr (fullCtl cfg) (Chunk.R.DO cfg) e) r1 r2)
    (hu : UPost cfg r1) (hsafe : ∀ e, r2.2 = .error e → ¬ DispOwn e) :
    (IRel (InvX cfg) r1.1 r2.1 ∧ r1.2 = r2.2) ∨ ∃ e, NP e ∧ r1.2 = .error e := by
  rcases hstep with ⟨he, _⟩ | ⟨e, ⟨hG, hc⟩, he⟩
  · cases hr : r1.2 with
    | ok a =>
      subst he
      exact Or.inl ⟨⟨rfl, hu.1 a hr⟩, hr.symm⟩
    | error e =>
      right
      refine ⟨e, ?_, rfl⟩
      rcases hu.2 e hr with h | h
      · subst h; trivial
      · subst he
        exact absurd h (hsafe e hr)
  · exact (no_gp hG hc (hu.2 e he)).elim

theorem endTag_fault_none (cfg : Cfg) (s : St) (hJ : J2 cfg s) (ln : LocalName) : (endTag s ln).1.fault = none := by
  obtain ⟨c1, c2⟩ := (J2_evInv cfg).end_ s ln [] [] ⟨0, 0⟩ hJ
  cases hst : (ctlStep cfg s (.end_ ln (.endTag [] [] ⟨0, 0⟩))).2 with
  | some e => exact (c2 e hst).elim
  | none =>
    have hJ' := (c1 hst).1.fault
    simp only [ctlStep] at hJ'
    unfold tokIf at hJ'
    split at hJ'
    · rw [(Chunk.R.token_frame cfg _ _).2] at hJ'
      exact hJ'
    · exact hJ'

theorem invX_DO {cfg : Cfg} {d : Disp (FullStH cfg)} (h : InvX cfg d) : Chunk.R.DO cfg d.ctl.1 := by
  have hf : d.ctl.1.1.fault = none ∨ True := Or.inr trivial
  have key : ∀ s : St, s.fault = none → ∀ g : FullSt cfg, g.1.fault = s.fault → Chunk.R.DO cfg g := by
    intro s hs g hg
    refine ⟨?_, fun b _ => ?_⟩
    · show Chunk.R.NGF g.1
      unfold Chunk.R.NGF; rw [hg, hs]; intro hh; cases hh
    · show g.1.fault ≠ some b
      rw [hg, hs]; intro hh; cases hh
  cases h with
  | idle hp hg hJ => exact key _ hJ.1.fault _ rfl
  | startLex s ln ns f hJ ha hc hf' hg hp hk =>
    exact key _ (by rw [Chunk.R.startTag_fault]; exact hJ.1.fault) _ hc.fault
  | auxPend s ln ns hJ ha hc hg hp =>
    exact key _ (by rw [Chunk.R.startTag_fault]; exact hJ.1.fault) _ hc.fault
  | endLex s ln hJ hc hg hp hk =>
    exact key _ (endTag_fault_none cfg s hJ ln) _ hc.fault

/-! ## the operations from `idle` -/

theorem ho_of_cg {e : Err} (h : CG (fun _ => False) (fun _ => False) e) : HO e := by
  rcases h with h | h | h | h
  · exact Or.inl h
  · exact h.elim
  · exact h.elim
  · exact Or.inr h

/-- `handle_tag` from `idle`, any valid tag lexeme: a whole start- / end-tag event (Thm/Full6 `handleTag_lexer_genV`) -/
theorem U_idle_tag (cfg : Cfg) (d : Disp (FullStH cfg)) (hp : d.pendingAux = false) (hg : d.gotFlagsFromHint = false)
    (hJ : J2 cfg d.ctl.1.1) (inp : Bytes) (lx : TagLexeme) (hv : TagArgsOK inp lx) :
    UPost cfg (Disp.handleTag (fullCtlH cfg) inp lx d) := by
  have hh := Hom.hom_handleTag (hintCtl_hom (fullCtl cfg)) inp lx d
  have hpost := handleTag_lexer_genV cfg (J2 cfg) _ _ ValidEv (J2_evInvV cfg) (Hom.mapD Prod.fst d) ⟨hp, hg⟩ hJ inp lx
    (lexV_of_argsOK hv)
  rw [← hh] at hpost
  refine ⟨fun a ha => ?_, fun e he => ho_of_cg (hpost.2 e he)⟩
  obtain ⟨hi', hJ'⟩ := hpost.1 a ha
  exact .idle hi'.1 hi'.2 hJ'

/-- `handle_non_tag_content` from `idle` -/
theorem U_idle_nonTag (cfg : Cfg) (d : Disp (FullStH cfg)) (hp : d.pendingAux = false) (hg : d.gotFlagsFromHint = false)
    (hJ : J2 cfg d.ctl.1.1) (inp : Bytes) (lx : NonTagLexeme) :
    UPost cfg (Disp.handleNonTag (fullCtlH cfg) inp lx d) := by
  have hh := Hom.hom_handleNonTag (hintCtl_hom (fullCtl cfg)) inp lx d
  have hpost := handleNonTag_lexer_other cfg (J2 cfg) (J2_evInv cfg).other (Hom.mapD Prod.fst d) ⟨hp, hg⟩ hJ inp lx
  rw [← hh] at hpost
  refine ⟨fun a ha => ?_, fun e he => hpost.2 e he⟩
  obtain ⟨hi', hJ'⟩ := hpost.1 a ha
  exact .idle hi'.1 hi'.2 hJ'

theorem startTag_err_sites (s : St) (name : LocalName) (ns : Model.Ns) (hf : s.fault = none) (e : Err)
    (h : (startTag s name ns).2 = .err e) : e = .panic vmMsg ∨ e = .panic dispMsg := by
  unfold startTag at h
  rw [hf] at h
  dsimp only at h
  unfold startTagCore at h
  split at h
  · cases h
  · split at h
    · simp only [StartTagRes.err.injEq, vmErr] at h; exact Or.inl h.symm
    · simp only at h
      split at h
      · cases h
      · rename_i e' he'
        simp only [StartTagRes.err.injEq] at h
        subst h
        unfold St.afterVm at he'
        split at he'
        · simp only [Except.error.injEq, dispErr] at he'; exact Or.inr he'.symm
        · cases he'
    · cases h

/-- from a `J2` state `handle_start_tag` does not fail -/
theorem startTag_no_err (cfg : Cfg) (s : St) (hJ : J2 cfg s) (n : LocalName) (ns : Model.Ns) (e : Err) :
    (startTag s n ns).2 ≠ .err e := by
  intro h
  obtain ⟨_, c2⟩ := (J2_evInv cfg).start s n ns ⟨[], [], false⟩ [] [] ns false [] ⟨0, 0⟩ 0 hJ
  have hce : (ctlStep cfg s (.start n ns ⟨[], [], false⟩ (.startTag [] [] ns false [] ⟨0, 0⟩ 0))).2 = some e := by
    simp only [ctlStep, startPhase, h]
  have hcls := c2 e hce
  rcases startTag_err_sites s n ns hJ.1.fault e h with h' | h' <;> subst h' <;>
    rcases hcls with h1 | (h1 | h1) | h1 <;> first | (cases h1; done) | (simp only [Err.panic.injEq] at h1; revert h1; decide)

theorem isEmpty_nst {f : Model.Flags} (h : f.isEmpty = true) : f.nextStartTag = false ∧ f.nextEndTag = false := by
  cases f
  simp only [Model.Flags.isEmpty, Bool.and_eq_true, Bool.not_eq_true'] at h
  exact ⟨h.1.1.2, h.1.2⟩

/-- the start-tag hint from `idle`: the first half of a start-tag event — or the whole event, if no token is wanted -/
theorem U_idle_startHint (cfg : Cfg) (d : Disp (FullStH cfg)) (hp : d.pendingAux = false) (hg : d.gotFlagsFromHint = false)
    (hJ : J2 cfg d.ctl.1.1) (n : LocalName) (ns : Model.Ns) :
    UPost cfg (Disp.startTagHint (fullCtlH cfg) n ns d) := by
  unfold Disp.startTagHint
  have h2 : ((fullCtlH cfg).startTag d.ctl n ns).2 = (startTag d.ctl.1.1 n ns).2 := rfl
  have h1 : ((fullCtlH cfg).startTag d.ctl n ns).1.1.1 = (startTag d.ctl.1.1 n ns).1 := rfl
  have h3 : ((fullCtlH cfg).startTag d.ctl n ns).1.2 = some true := rfl
  generalize (fullCtlH cfg).startTag d.ctl n ns = r at h1 h2 h3
  dsimp only
  cases hr : (startTag d.ctl.1.1 n ns).2 with
  | err e => exact absurd hr (startTag_no_err cfg _ hJ n ns e)
  | infoRequest =>
    rw [h2, hr]
    refine ⟨fun a _ => ?_, fun e he => by cases he⟩
    exact .auxPend d.ctl.1.1 n ns hJ hr (by show EqT _ r.1.1.1; rw [h1]; exact EqT.refl _) rfl rfl
  | flags f =>
    rw [h2, hr]
    unfold Disp.applyHintFlags Disp.nextDirective
    dsimp only
    refine ⟨fun a _ => ?_, fun e he => by cases he⟩
    cases hfe : f.isEmpty with
    | false =>
      exact .startLex d.ctl.1.1 n ns f hJ hr (by show EqT _ r.1.1.1; rw [h1]; exact EqT.refl _) rfl rfl hp h3
    | true =>
      refine .idle hp ?_ ?_
      · rfl
      · show J2 cfg r.1.1.1
        rw [h1]
        obtain ⟨c1, _⟩ := (J2_evInv cfg).start d.ctl.1.1 n ns ⟨[], [], false⟩ [] [] ns false [] ⟨0, 0⟩ 0 hJ
        have hce : ctlStep cfg d.ctl.1.1 (.start n ns ⟨[], [], false⟩ (.startTag [] [] ns false [] ⟨0, 0⟩ 0)) =
            ((startTag d.ctl.1.1 n ns).1, none) := by
          simp only [ctlStep, startPhase, hr, tokIf, (isEmpty_nst hfe).1, Bool.false_eq_true, if_false]
        have := c1 (by rw [hce])
        rw [hce] at this
        exact this

theorem upost_err {α : Type} {cfg : Cfg} (d : Disp (FullStH cfg)) (e : Err) (h : HO e) :
    UPost cfg ((d, .error e) : DRes (FullStH cfg) α) := by
  refine ⟨fun a ha => ?_, fun e' he' => ?_⟩
  · cases ha
  · simp only [Except.error.injEq] at he'
    rw [← he']; exact h

/-- `flush_pending_captured_text` over the controller with the ghost, from a state whose controller state is `J2` -/
theorem flushH_J2 (cfg : Cfg) (d : Disp (FullStH cfg)) (hJ : J2 cfg d.ctl.1.1) :
    (∃ e, (d.flushPendingText (fullCtlH cfg)).2 = .error e ∧ e = .handler) ∨
    ((d.flushPendingText (fullCtlH cfg)).2 = .ok () ∧ J2 cfg (d.flushPendingText (fullCtlH cfg)).1.ctl.1.1 ∧
      (d.flushPendingText (fullCtlH cfg)).1.pendingAux = d.pendingAux ∧
      (d.flushPendingText (fullCtlH cfg)).1.gotFlagsFromHint = d.gotFlagsFromHint) := by
  have hh := Hom.hom_flushPendingText (hintCtl_hom (fullCtl cfg)) d
  obtain ⟨tokF, ⟨tt, p, htokF⟩, f1, _, f3, f4⟩ := flushPendingText_full (cfg := cfg) (Hom.mapD Prod.fst d)
  rw [← hh] at f1 f3 f4
  have hkF : (CtlEv.other tokF).WellKinded := by rw [htokF]; trivial
  obtain ⟨o1, o2⟩ := (J2_evInv cfg).other d.ctl.1.1 tokF d.textPending hJ hkF
  cases h0 : (tokIf cfg d.textPending d.ctl.1.1 tokF).2 with
  | some e =>
    left
    refine ⟨e, ?_, o2 e h0⟩
    have : (tokIf cfg (Hom.mapD Prod.fst d).textPending (Hom.mapD Prod.fst d).ctl.1 tokF).2 = some e := h0
    rw [this] at f4
    exact f4
  | none =>
    right
    have : (tokIf cfg (Hom.mapD Prod.fst d).textPending (Hom.mapD Prod.fst d).ctl.1 tokF).2 = none := h0
    rw [this] at f4
    refine ⟨f4, ?_, f3.pa, f3.gf⟩
    have := o1 h0
    have e1 : (d.flushPendingText (fullCtlH cfg)).1.ctl.1.1 = (tokIf cfg d.textPending d.ctl.1.1 tokF).1 := f1
    rw [e1]; exact this

/-- the end-tag hint from `idle`: the closing chunk of an open text node, then the first half of an end-tag event — or
the whole event, if no token is wanted -/
theorem U_idle_endHint (cfg : Cfg) (d : Disp (FullStH cfg)) (hp : d.pendingAux = false) (hg : d.gotFlagsFromHint = false)
    (hJ : J2 cfg d.ctl.1.1) (n : LocalName) :
    UPost cfg (Disp.endTagHint (fullCtlH cfg) n d) := by
  unfold Disp.endTagHint
  rcases flushH_J2 cfg d hJ with ⟨e, he, hh⟩ | ⟨hok, hJ1, hp1, hg1⟩
  · rw [DRes.bind_err _ _ e he]
    subst hh
    exact upost_err _ _ (Or.inl rfl)
  · rw [DRes.bind_ok _ _ () hok]
    rw [hp] at hp1
    rw [hg] at hg1
    generalize (d.flushPendingText (fullCtlH cfg)).1 = d1 at hJ1 hp1 hg1
    have h2 : ((fullCtlH cfg).endTag d1.ctl n).2 = (endTag d1.ctl.1.1 n).2 := rfl
    have h1 : ((fullCtlH cfg).endTag d1.ctl n).1.1.1 = (endTag d1.ctl.1.1 n).1 := rfl
    have h3 : ((fullCtlH cfg).endTag d1.ctl n).1.2 = some false := rfl
    generalize (fullCtlH cfg).endTag d1.ctl n = r at h1 h2 h3
    dsimp only
    unfold Disp.applyHintFlags Disp.nextDirective
    dsimp only
    refine ⟨fun a _ => ?_, fun e he => by cases he⟩
    generalize hfdef : (if Disp.shouldStopRemoving (fullCtlH cfg) { d1 with ctl := r.1 } = true then
        ({ r.2 with nextEndTag := true } : Model.Flags) else r.2) = f
    cases hfe : f.isEmpty with
    | false =>
      exact .endLex d1.ctl.1.1 n hJ1 (by show EqT _ r.1.1.1; rw [h1]; exact EqT.refl _)
        rfl hp1 h3
    | true =>
      refine .idle hp1 rfl ?_
      show J2 cfg r.1.1.1
      rw [h1]
      have hne : (endTag d1.ctl.1.1 n).2.nextEndTag = false := by
        rw [← h2]
        have := (isEmpty_nst hfe).2
        rw [← hfdef] at this
        split at this
        · cases this
        · exact this
      obtain ⟨c1, _⟩ := (J2_evInv cfg).end_ d1.ctl.1.1 n [] [] ⟨0, 0⟩ hJ1
      have hce : ctlStep cfg d1.ctl.1.1 (.end_ n (.endTag [] [] ⟨0, 0⟩)) = ((endTag d1.ctl.1.1 n).1, none) := by
        simp only [ctlStep, tokIf, hne, Bool.false_eq_true, if_false]
      have := c1 (by rw [hce])
      rw [hce] at this
      exact this

/-! ## assembly -/

/-- **named hypothesis** (operation, protocol state) = (`handle_tag`, `startLex` / `auxPend` / `endLex`): the second half of
the split event — on a valid tag lexeme of the hinted kind, at or above the watermark -/
def X_postHint_tag (cfg : Cfg) : Prop :=
  ∀ (inp : Bytes) (lx : TagLexeme) (d : Disp (FullStH cfg)), InvX cfg d → (d.gotFlagsFromHint || d.pendingAux) = true →
    TagArgsOK inp lx → d.rcs ≤ lx.raw.start → (kindGuard (γ := FullSt cfg)).tag inp lx d = none →
    UPost cfg (Disp.handleTag (fullCtlH cfg) inp lx d)

/-- **named hypothesis** (`handle_non_tag_content`, `startLex` / `auxPend` / `endLex`): neutral -/
def X_postHint_nonTag (cfg : Cfg) : Prop :=
  ∀ (inp : Bytes) (lx : NonTagLexeme) (d : Disp (FullStH cfg)), InvX cfg d → (d.gotFlagsFromHint || d.pendingAux) = true →
    NTLexValid inp lx → d.rcs ≤ lx.raw.start → UPost cfg (Disp.handleNonTag (fullCtlH cfg) inp lx d)

theorem invX_idle_of {cfg : Cfg} {d : Disp (FullStH cfg)} (h : InvX cfg d) (hn : (d.gotFlagsFromHint || d.pendingAux) = false) :
    d.pendingAux = false ∧ d.gotFlagsFromHint = false ∧ J2 cfg d.ctl.1.1 := by
  simp only [Bool.or_eq_false_iff] at hn
  cases h with
  | idle hp hg hJ => exact ⟨hp, hg, hJ⟩
  | startLex s ln ns f hJ ha hc hf hg hp hk => rw [hg] at hn; cases hn.1
  | auxPend s ln ns hJ ha hc hg hp => rw [hp] at hn; cases hn.2
  | endLex s ln hJ hc hg hp hk => rw [hg] at hn; cases hn.1

theorem invX_flush {cfg : Cfg} {d d' : Disp (FullStH cfg)} (h : InvX cfg d) (hc : d'.ctl = d.ctl)
    (hp' : d'.pendingAux = d.pendingAux) (hg' : d'.gotFlagsFromHint = d.gotFlagsFromHint) (hf' : d'.flags = d.flags) :
    InvX cfg d' := by
  cases h with
  | idle hp hg hJ => exact .idle (by rw [hp', hp]) (by rw [hg', hg]) (by rw [hc]; exact hJ)
  | startLex s ln ns f hJ ha hcc hf hg hp hk =>
    exact .startLex s ln ns f hJ ha (by rw [hc]; exact hcc) (by rw [hf', hf]) (by rw [hg', hg]) (by rw [hp', hp]) (by rw [hc]; exact hk)
  | auxPend s ln ns hJ ha hcc hg hp => exact .auxPend s ln ns hJ ha (by rw [hc]; exact hcc) (by rw [hg', hg]) (by rw [hp', hp])
  | endLex s ln hJ hcc hg hp hk =>
    exact .endLex s ln hJ (by rw [hc]; exact hcc) (by rw [hg', hg]) (by rw [hp', hp]) (by rw [hc]; exact hk)

theorem invX_fault {cfg : Cfg} {d : Disp (FullStH cfg)} (h : InvX cfg d) : d.ctl.1.1.fault = none := by
  cases h with
  | idle hp hg hJ => exact hJ.1.fault
  | startLex s ln ns f hJ ha hc hf hg hp hk => rw [hc.fault, Chunk.R.startTag_fault]; exact hJ.1.fault
  | auxPend s ln ns hJ ha hc hg hp => rw [hc.fault, Chunk.R.startTag_fault]; exact hJ.1.fault
  | endLex s ln hJ hc hg hp hk => rw [hc.fault]; exact endTag_fault_none cfg s hJ ln

/-- **Full_scan_opsX_partial.** The operation-level statement with all four operations guarded, for the closed invariant
`InvX`, from the two named hypotheses about the post-hint states. Proved here: all four operations from `idle`, the hint
operations in the post-hint states (refused), every refused lexeme, `flush_remaining_input`, `handle_end`, the initial state. -/
theorem Full_scan_opsX_partial (h1 : ∀ cfg, X_postHint_tag cfg) (h2 : ∀ cfg, X_postHint_nonTag cfg) :
    Full_scan_opsX_statement InvX := by
  intro cfg
  refine ⟨fun enc => .idle rfl rfl (J2_init cfg), ?_⟩
  have hsim := fullCtlH_sim cfg
  have hcl := cleanCtlH_clean cfg
  refine { ops := fun inp => ?_, bail := ?_, flush := ?_, handleEnd := ?_, initial := fun _ => rfl, np := fun e h => NP.np h }
  · constructor
    · -- handle_tag
      rintro lx d _ ⟨rfl, hI⟩
      simp only [guardHints, guardS]
      cases hK : (withArgs argSite (andGuard kindGuard wmGuard)).tag inp lx d with
      | some e => exact Or.inl ⟨⟨rfl, hI⟩, rfl⟩
      | none =>
        simp only [withArgs, andGuard] at hK
        have hv : TagArgsOK inp lx := by
          cases ha : (argGuard argSite).tag inp lx with
          | some e => rw [ha] at hK; cases hK
          | none => exact argGuard_tag_none ha
        have ha : (argGuard argSite).tag inp lx = none := by
          cases ha : (argGuard argSite).tag inp lx with
          | some e => rw [ha] at hK; cases hK
          | none => rfl
        rw [ha] at hK
        dsimp only at hK
        have hkind : (kindGuard (γ := FullSt cfg)).tag inp lx d = none := by
          cases hk : (kindGuard (γ := FullSt cfg)).tag inp lx d with
          | some e => rw [hk] at hK; cases hK
          | none => rfl
        rw [hkind] at hK
        dsimp only at hK
        have hw : d.rcs ≤ lx.raw.start := by
          simp only [wmGuard] at hK
          split at hK
          · assumption
          · cases hK
        have hu : UPost cfg (Disp.handleTag (fullCtlH cfg) inp lx d) := by
          cases hb : (d.gotFlagsFromHint || d.pendingAux) with
          | true => exact h1 cfg inp lx d hI hb hv hw hkind
          | false =>
            obtain ⟨a, b, c⟩ := invX_idle_of hI hb
            exact U_idle_tag cfg d a b c inp lx hv
        refine rel_of_unary (Chunk.R.handleTag_step hsim inp lx d (invX_DO hI)) hu (fun e he ho => ?_)
        exact own_not_U2 ho ((handleTag_post hcl lx d hw hv.1.1.1 hv.1.1.2).2 e he) (handleTag_not hcl lx d hv.1.1 hv.1.2 e he)
    · -- handle_non_tag_content
      rintro lx d _ ⟨rfl, hI⟩
      simp only [guardHints, guardS]
      cases hK : (withArgs argSite (andGuard kindGuard wmGuard)).nonTag inp lx d with
      | some e => exact Or.inl ⟨⟨rfl, hI⟩, rfl⟩
      | none =>
        simp only [withArgs, andGuard] at hK
        have hv : NTLexValid inp lx := by
          cases ha : (argGuard argSite).nonTag inp lx with
          | some e => rw [ha] at hK; cases hK
          | none =>
            simp only [argGuard] at ha
            split at ha
            · assumption
            · cases ha
        have ha : (argGuard argSite).nonTag inp lx = none := by
          cases ha : (argGuard argSite).nonTag inp lx with
          | some e => rw [ha] at hK; cases hK
          | none => rfl
        rw [ha] at hK
        simp only [kindGuard, wmGuard] at hK
        have hw : d.rcs ≤ lx.raw.start := by
          split at hK
          · assumption
          · cases hK
        have hu : UPost cfg (Disp.handleNonTag (fullCtlH cfg) inp lx d) := by
          cases hb : (d.gotFlagsFromHint || d.pendingAux) with
          | true => exact h2 cfg inp lx d hI hb hv hw
          | false =>
            obtain ⟨a, b, c⟩ := invX_idle_of hI hb
            exact U_idle_nonTag cfg d a b c inp lx
        refine rel_of_unary (Chunk.R.handleNonTag_step hsim inp lx d (invX_DO hI)) hu (fun e he ho => ?_)
        exact own_not_U2 ho ((handleNonTag_post hcl lx d hw hv.1.1 hv.1.2).2 e he) (handleNonTag_not hcl lx d hv.1 hv.2 e he)
    · -- start-tag hint
      rintro n ns d _ ⟨rfl, hI⟩
      simp only [guardHints, guardS]
      cases hb : (d.gotFlagsFromHint || d.pendingAux) with
      | true => simp only [if_true]; exact Or.inl ⟨⟨rfl, hI⟩, trivial⟩
      | false =>
        simp only [Bool.false_eq_true, if_false]
        obtain ⟨a, b, c⟩ := invX_idle_of hI hb
        refine rel_of_unary (Chunk.R.startTagHint_step hsim n ns d (invX_DO hI)) (U_idle_startHint cfg d a b c n ns) (fun e he ho => ?_)
        exact own_not_U2 ho ((startTagHint_post hcl n ns d).2 e he) (startTagHint_not hcl n ns d e he)
    · -- end-tag hint
      rintro n d _ ⟨rfl, hI⟩
      simp only [guardHints, guardS]
      cases hb : (d.gotFlagsFromHint || d.pendingAux) with
      | true => simp only [if_true]; exact Or.inl ⟨⟨rfl, hI⟩, trivial⟩
      | false =>
        simp only [Bool.false_eq_true, if_false]
        obtain ⟨a, b, c⟩ := invX_idle_of hI hb
        refine rel_of_unary (Chunk.R.endTagHint_step hsim n d (invX_DO hI)) (U_idle_endHint cfg d a b c n) (fun e he ho => ?_)
        exact own_not_U2 ho ((endTagHint_post hcl n d).2 e he) (endTagHint_not hcl n d e he)
  · exact hsim.bailOut
  · intro d d' inp k hf hI
    obtain ⟨s1, s2, s3⟩ := flushRemaining_same hf
    exact invX_flush hI (Chunk.R.flushRemaining_ctl hf) s1 s2 s3
  · intro d hI
    rcases hsim.handleEnd d.ctl (invX_DO hI) with ⟨he, _⟩ | ⟨e, ⟨hG, _⟩, he⟩
    · exact Or.inl he
    · have : e = .handler := Full_handleEnd_clean cfg d.ctl.1 (invX_fault hI) e he
      subst this
      rcases hG with ⟨m, hm, _⟩ | ⟨s, hs⟩
      · cases hm
      · cases hs

end LolHtml.Thm.Full
