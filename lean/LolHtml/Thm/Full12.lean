/-
# Package `full`, part 12 — scanner mode, operation level: second finding, the statement with guarded hints, its cases

## Finding 2: `Full_scan_opsW_statement` (route (B) of Thm/Full11.lean) is false as well

`RelE.OpsRelE` quantifies the two HINT operations over every state with the invariant, and `SGuard` / `guardS` cannot
refuse a hint. A start-tag hint WHILE an end-tag hint is outstanding (the parser never does this: after a hint answered
`lex` its next sink call is `handle_tag`) skips the end-tag token — the hazard of `Full_ctlClean_unattainable` again, with
every operation before the last succeeding identically over the real and the cleaned controller.
`Full_scan_opsW_unsat`: `¬ Full_scan_opsW_statement Inv` for every `Inv`.
-/
import LolHtml.Thm.Full11

namespace LolHtml.Thm.Full
open LolHtml LolHtml.Model LolHtml.Model.Full LolHtml.Model.Handlers LolHtml.EditModel LolHtml.Lemmas.Full
open LolHtml.Model.RelI LolHtml.Model.Hint

/-! ## the counterexample -/

abbrev hwK : SGuard (Disp (FullStH hazardCfg)) := withArgs argSite (andGuard kindGuard wmGuard)
def hwR : SinkOps (Disp (FullStH hazardCfg)) := guardS hwK (dispOps (fullCtlH hazardCfg))
def hwC : SinkOps (Disp (FullStH hazardCfg)) := guardS hwK (dispOps (cleanCtlH hazardCfg))

inductive HwOp
  | tag (lx : TagLexeme)
  | sh (n : UInt8)
  | eh (n : UInt8)

def hwName (n : UInt8) : LocalName := .hash (NameHash.ofBytes [n])

def hwRun (ops : SinkOps (Disp (FullStH hazardCfg))) (o : HwOp) (d : Disp (FullStH hazardCfg)) :
    DRes (FullStH hazardCfg) Directive :=
  match o with
  | .tag lx => ops.handleTag hzInp lx d
  | .sh n => ops.startTagHint (hwName n) .html d
  | .eh n => ops.endTagHint (hwName n) d

/-- `<a>`; end hint `a`; START hint `b` while the end hint is outstanding; `<b>`; end hint `x`; `</x>`; end hint `b` -/
def hwOps : List HwOp := [.tag hzLx1, .eh 97, .sh 98, .tag hzLx3, .eh 120, .tag hzLx4, .eh 98]

def hwStates : List HwOp → Disp (FullStH hazardCfg) → Disp (FullStH hazardCfg)
  | [], d => d
  | o :: os, d => hwStates os (hwRun hwR o d).1

/-- all seven operations succeed -/
def hwAllOk : List HwOp → Disp (FullStH hazardCfg) → Bool
  | [], _ => true
  | o :: os, d => resKind (hwRun hwR o d).2 == 0 && hwAllOk os (hwRun hwR o d).1

theorem hw_ok : hwAllOk hwOps hzD0 = true := by decide +kernel
/-- the eighth (a start hint): a panic over the real controller, the handler error over the cleaned one -/
theorem hw_differ : (resKind (hwRun hwR (.sh 99) (hwStates hwOps hzD0)).2, resKind (hwRun hwC (.sh 99) (hwStates hwOps hzD0)).2) = (1, 3) := by
  decide +kernel

theorem resKind_np {r : Except Err Directive} {e : Err} (h : r = .error e) (hn : NP e) : resKind r = 3 := by
  subst h
  cases e <;> first | rfl | exact hn.elim

/-- **Full_scan_opsW_unsat.** No invariant makes the operation-level hypothesis with the watermark guard true either. -/
theorem Full_scan_opsW_unsat (Inv : ∀ cfg, Disp (FullStH cfg) → Prop) : ¬ Full_scan_opsW_statement Inv := by
  intro h
  obtain ⟨h0, hrel⟩ := h hazardCfg
  have hops := hrel.ops hzInp
  have step : ∀ (o : HwOp) (d : Disp (FullStH hazardCfg)), Inv hazardCfg d →
      (Inv hazardCfg (hwRun hwR o d).1 ∧ (hwRun hwR o d).2 = (hwRun hwC o d).2) ∨ resKind (hwRun hwR o d).2 = 3 := by
    intro o d hd
    cases o with
    | tag lx =>
      rcases hops.handleTag lx d d ⟨rfl, hd⟩ with ⟨⟨_, hi⟩, he⟩ | ⟨e, hG, he⟩
      · exact Or.inl ⟨hi, he⟩
      · exact Or.inr (resKind_np he hG)
    | sh n =>
      rcases hops.startTagHint (hwName n) .html d d ⟨rfl, hd⟩ with ⟨⟨_, hi⟩, he⟩ | ⟨e, hG, he⟩
      · exact Or.inl ⟨hi, he⟩
      · exact Or.inr (resKind_np he hG)
    | eh n =>
      rcases hops.endTagHint (hwName n) d d ⟨rfl, hd⟩ with ⟨⟨_, hi⟩, he⟩ | ⟨e, hG, he⟩
      · exact Or.inl ⟨hi, he⟩
      · exact Or.inr (resKind_np he hG)
  have all : ∀ (os : List HwOp) (d : Disp (FullStH hazardCfg)), Inv hazardCfg d → hwAllOk os d = true →
      Inv hazardCfg (hwStates os d) := by
    intro os
    induction os with
    | nil => intro d hd _; exact hd
    | cons o os ih =>
      intro d hd hok
      simp only [hwAllOk, Bool.and_eq_true, beq_iff_eq] at hok
      rcases step o d hd with ⟨hi, _⟩ | h3
      · exact ih _ hi hok.2
      · rw [hok.1] at h3; cases h3
  have hI := all hwOps hzD0 (h0 0) hw_ok
  have hd := hw_differ
  rcases step (.sh 99) _ hI with ⟨_, he⟩ | h3
  · rw [he] at hd
    revert hd
    generalize resKind (hwRun hwC (.sh 99) (hwStates hwOps hzD0)).2 = k
    intro hk
    simp only [Prod.mk.injEq] at hk
    omega
  · have := congrArg Prod.fst hd
    simp only at this
    rw [h3] at this
    cases this

end LolHtml.Thm.Full
