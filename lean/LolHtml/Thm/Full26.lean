/-
# Package `full`, part 21 — the real run IS the cleaned run, unconditionally (`Full_real_eq_clean`)

From `Full_parse_eq_guarded` (Thm/Full25.lean: the guarded real parse is the guarded cleaned parse from every `InvY` state):
* the guards are removed as in `RelI.parse_relT`: in the cleaned run no guard fires (`Full_clean_guardX'`), so the guarded
  cleaned parse is the plain one and returns no refusal; the guarded real parse, being equal to it, returns no refusal
  either, hence is the plain real parse (`xt_relReal`);
* `TransformStream::write` / `end` and `HtmlRewriter::write* ; end` by induction on the history, `InvY` between successful
  calls (`run_eqT`, generic);
* the ghost is mapped away (`Hom.writeAll_hr`, `Hom.rewriter_end_hr`: the states are related, not only the results).
-/
import LolHtml.Thm.Full25
import LolHtml.Thm.Full13
import LolHtml.Thm.Full17

set_option linter.unusedSimpArgs false
set_option linter.unusedVariables false
namespace LolHtml.Model.RelI
open LolHtml LolHtml.Model
open LolHtml.Thm.C01 (writeAll run Rewriter.new)

variable {γ : Type} {w : World γ} {c2 : Controller γ} {T : SinkOps (Disp γ) → SinkOps (Disp γ)} {F : Err → Prop}
  {Inv : Disp γ → Prop} {G : Err → Prop}

local notation "w2" => Chunk.R.World.withCtl w c2

section
variable (h : CtlRelT w c2 T Inv G)
  (hparse : ∀ inp last (p : Parser (Disp γ)), Inv p.x.sink →
    Parser.parse (envT (Chunk.R.World.withCtl w c2) T) inp last p = Parser.parse (Chunk.R.World.withCtl w c2).env inp last p →
    (∀ e, F e → (Parser.parse (Chunk.R.World.withCtl w c2).env inp last p).2 ≠ .error e) →
    Parser.parse w.env inp last p = Parser.parse (Chunk.R.World.withCtl w c2).env inp last p ∧
    ∀ n, (Parser.parse w.env inp last p).2 = .ok n → Inv (Parser.parse w.env inp last p).1.x.sink)
  (hend : ∀ d, Inv d → w.ctl.handleEnd d.ctl = c2.handleEnd d.ctl)
include h hparse hend

/-- **`TransformStream::write`**, equality in every case -/
theorem write_eqT (s : Stream γ) (data : Bytes) (hd : Inv s.disp)
    (hg : ∀ s1 chunk, s.chunkFor (w2) data = .inr (s1, chunk) →
      Parser.parse (envT (w2) T) chunk false s1.parser = Parser.parse (w2).env chunk false s1.parser ∧
      ∀ e, F e → (Parser.parse (w2).env chunk false s1.parser).2 ≠ .error e) :
    s.write w data = s.write (w2) data ∧ ((s.write w data).2 = .ok () → Inv (s.write w data).1.disp) := by
  unfold Stream.write
  rw [← chunkFor_eqT h, ← keepTail_eqT h, ← bail_eqT h]
  cases hcf : s.chunkFor w data with
  | inl s' => exact ⟨rfl, fun hh => by cases hh⟩
  | inr sc =>
    obtain ⟨s1, chunk⟩ := sc
    obtain ⟨c1, c2', c3, c4, c5⟩ := Stream.chunkFor_inr hcf
    dsimp only
    have hd1 : Inv s1.parser.x.sink := by rw [c2']; exact hd
    obtain ⟨g1, g2⟩ := hg s1 chunk (by rw [← chunkFor_eqT h]; exact hcf)
    obtain ⟨he, hD⟩ := hparse chunk false s1.parser hd1 g1 g2
    have he' : s1.parser.parse w.env chunk false = s1.parser.parse (w2).env chunk false := he
    rw [← he']
    refine ⟨rfl, ?_⟩
    cases hpr : (s1.parser.parse w.env chunk false).2 with
    | error e => intro hh; cases hh
    | ok consumed =>
      dsimp only
      cases hfl : Disp.flushRemaining (Stream.disp { s1 with parser := (s1.parser.parse w.env chunk false).1 }) chunk consumed with
      | error e => intro hh; cases hh
      | ok d =>
        dsimp only
        intro hk
        rw [Chunk.R.keepTail_ok_disp hk]
        exact h.flush _ _ _ _ hfl (hD consumed hpr)

/-- **`TransformStream::end`**, equality in every case -/
theorem end_eqT (s : Stream γ) (hd : Inv s.disp)
    (hg : Parser.parse (envT (w2) T) (if s.hasBuffered then s.buf.data else []) true s.parser =
        Parser.parse (w2).env (if s.hasBuffered then s.buf.data else []) true s.parser ∧
      ∀ e, F e → (Parser.parse (w2).env (if s.hasBuffered then s.buf.data else []) true s.parser).2 ≠ .error e) :
    s.end w = s.end (w2) := by
  unfold Stream.end
  rw [← bail_eqT h]
  dsimp only
  obtain ⟨he, hD⟩ := hparse (if s.hasBuffered then s.buf.data else []) true s.parser hd hg.1 hg.2
  have he' : s.parser.parse w.env (if s.hasBuffered then s.buf.data else []) true =
      s.parser.parse (w2).env (if s.hasBuffered then s.buf.data else []) true := he
  rw [← he']
  cases hpr : (s.parser.parse w.env (if s.hasBuffered then s.buf.data else []) true).2 with
  | error e => rfl
  | ok consumed =>
    dsimp only
    unfold Disp.finish
    cases hfl : (Stream.disp { s with parser := (s.parser.parse w.env (if s.hasBuffered then s.buf.data else []) true).1 }).flushRemaining
        (if s.hasBuffered then s.buf.data else []) (if s.hasBuffered then s.buf.data else []).length with
    | error e => rfl
    | ok d =>
      simp only [DRes.ofExcept, DRes.bind]
      have heq' : w.ctl.handleEnd d.ctl = (w2).ctl.handleEnd d.ctl := hend d (h.flush _ _ _ _ hfl (hD consumed hpr))
      rw [← heq']

/-- `HtmlRewriter::write` -/
theorem rewriter_write_eqT (r : Rewriter γ) (c : Bytes) (hr : r.poisoned = true ∨ Inv r.stream.disp)
    (hg : r.poisoned = false → ∀ s1 chunk, r.stream.chunkFor (w2) c = .inr (s1, chunk) →
      Parser.parse (envT (w2) T) chunk false s1.parser = Parser.parse (w2).env chunk false s1.parser ∧
      ∀ e, F e → (Parser.parse (w2).env chunk false s1.parser).2 ≠ .error e) :
    r.write w c = r.write (w2) c ∧ ((r.write w c).1.poisoned = true ∨ Inv (r.write w c).1.stream.disp) := by
  unfold Rewriter.write
  by_cases hp : r.poisoned = true
  · rw [if_pos hp, if_pos hp]
    exact ⟨rfl, Or.inl hp⟩
  · rw [if_neg hp, if_neg hp]
    have hd : Inv r.stream.disp := hr.resolve_left hp
    obtain ⟨he, hok⟩ := write_eqT h hparse hend r.stream c hd (hg (by simpa using hp))
    rw [← he]
    refine ⟨rfl, ?_⟩
    dsimp only
    cases hres : (r.stream.write w c).2 with
    | ok u => exact Or.inr (hok hres)
    | error e => exact Or.inl rfl

/-- **`write*`**: the two runs are the same run, the guard hypothesis being about the runs over `c2` -/
theorem writeAll_eqT (g : γ) (cfg : Settings) (hI : Inv (Disp.new w.ctl g cfg.encoding)) (hgf : GuardFreeT (w2) T F g cfg)
    (cs : List Bytes) :
    writeAll w (Rewriter.new w g cfg) cs = writeAll (w2) (Rewriter.new (w2) g cfg) cs ∧
    ((writeAll w (Rewriter.new w g cfg) cs).1.poisoned = true ∨ Inv (writeAll w (Rewriter.new w g cfg) cs).1.stream.disp) := by
  have hnew : Rewriter.new w g cfg = Rewriter.new (w2) g cfg := by
    unfold Rewriter.new Stream.new Disp.new
    show _ = ({ stream := _ } : Rewriter γ)
    simp only [Chunk.R.World.withCtl]
    rw [h.initial g]
    rfl
  have key : ∀ (cs pre : List Bytes),
      (writeAll w (Rewriter.new w g cfg) pre = writeAll (w2) (Rewriter.new (w2) g cfg) pre ∧
        ((writeAll w (Rewriter.new w g cfg) pre).1.poisoned = true ∨ Inv (writeAll w (Rewriter.new w g cfg) pre).1.stream.disp)) →
      (writeAll w (Rewriter.new w g cfg) (pre ++ cs) = writeAll (w2) (Rewriter.new (w2) g cfg) (pre ++ cs) ∧
        ((writeAll w (Rewriter.new w g cfg) (pre ++ cs)).1.poisoned = true ∨
          Inv (writeAll w (Rewriter.new w g cfg) (pre ++ cs)).1.stream.disp)) := by
    intro cs
    induction cs with
    | nil => intro pre hp; simpa using hp
    | cons c cs ih =>
      intro pre ⟨he, hr⟩
      have hpc : pre ++ c :: cs = (pre ++ [c]) ++ cs := by simp
      rw [hpc]
      apply ih
      have a1 := Chunk.R.writeAll_append (w := w) (Rewriter.new w g cfg) pre [c]
      have a2 := Chunk.R.writeAll_append (w := w2) (Rewriter.new (w2) g cfg) pre [c]
      have hg0 := hgf pre
      rw [← he] at hg0 a2
      obtain ⟨hw, hr'⟩ := rewriter_write_eqT h hparse hend (writeAll w (Rewriter.new w g cfg) pre).1 c hr
        (fun hp => (hg0 hp).1 c)
      rw [a1, a2]
      simp only [writeAll]
      rw [← hw]
      exact ⟨rfl, hr'⟩
  have := key cs [] ⟨by simp only [writeAll]; rw [hnew], Or.inr (by simpa [writeAll, Rewriter.new, Stream.new, Stream.disp, Parser.new] using hI)⟩
  simpa using this

/-- **`write* ; end`**: the two runs are the same run -/
theorem run_eqT (g : γ) (cfg : Settings) (hI : Inv (Disp.new w.ctl g cfg.encoding)) (hgf : GuardFreeT (w2) T F g cfg)
    (cs : List Bytes) :
    run w (Rewriter.new w g cfg) cs = run (w2) (Rewriter.new (w2) g cfg) cs := by
  obtain ⟨he, hr⟩ := writeAll_eqT h hparse hend g cfg hI hgf cs
  have hg := (hgf cs)
  rw [← he] at hg
  simp only [run]
  rw [← he]
  have hend' : (writeAll w (Rewriter.new w g cfg) cs).1.end w = (writeAll w (Rewriter.new w g cfg) cs).1.end (w2) := by
    unfold Rewriter.end
    by_cases hp : (writeAll w (Rewriter.new w g cfg) cs).1.poisoned = true
    · rw [if_pos hp, if_pos hp]
    · rw [if_neg hp, if_neg hp]
      rw [end_eqT h hparse hend _ (hr.resolve_left hp) (hg (by simpa using hp)).2]
  rw [hend']

end
end LolHtml.Model.RelI

/-! ### the ghost is mapped away: states, not only results -/

namespace LolHtml.Model.Hom
open LolHtml LolHtml.Model
open LolHtml.Thm.C01 (writeAll run Rewriter.new)

variable {γ' γ : Type} {f : γ' → γ}

/-- the mapped rewriter is determined -/
theorem RRh_fun {r' : Rewriter γ'} {r₁ r₂ : Rewriter γ} (h₁ : RRh f r' r₁) (h₂ : RRh f r' r₂) : r₁ = r₂ := by
  obtain ⟨⟨⟨a1, b1, c1, d1, e1, x1, y1, z1⟩, sb1, sh1, sc1, sn1⟩, p1, q1⟩ := h₁
  obtain ⟨⟨⟨a2, b2, c2, d2, e2, x2, y2, z2⟩, sb2, sh2, sc2, sn2⟩, p2, q2⟩ := h₂
  obtain ⟨⟨⟨lc, lr, sc, sr, dr, ⟨sk, sm, pc⟩⟩, bf, hb, cf, nr⟩, po, en⟩ := r₁
  obtain ⟨⟨⟨lc', lr', sc', sr', dr', ⟨sk', sm', pc'⟩⟩, bf', hb', cf', nr'⟩, po', en'⟩ := r₂
  unfold HR at x1 x2
  simp only at a1 b1 c1 d1 e1 x1 y1 z1 sb1 sh1 sc1 sn1 p1 q1 a2 b2 c2 d2 e2 x2 y2 z2 sb2 sh2 sc2 sn2 p2 q2
  subst a1 b1 c1 d1 e1 x1 y1 z1 sb1 sh1 sc1 sn1 p1 q1
  subst a2 b2 c2 d2 e2 x2 y2 z2 sb2 sh2 sc2 sn2 p2 q2
  rfl

section
variable {w : World γ} {c' : Controller γ'}
variable (h : CtlHom c' w.ctl f) (ht : EmitsChecked w.tbl = true)
include h ht

local notation "w'" => worldOf w c'

/-- `HtmlRewriter::end`: the states are related too -/
theorem rewriter_end_hr' {r' : Rewriter γ'} {r : Rewriter γ} (hr : RRh f r' r) :
    RRh f (r'.end w').1 (r.end w).1 := by
  obtain ⟨hs, hp, he⟩ := hr
  unfold Rewriter.end
  rw [hp]
  by_cases hpp : r.poisoned = true
  · rw [if_pos hpp, if_pos hpp]
    exact ⟨hs, hp, he⟩
  · rw [if_neg hpp, if_neg hpp]
    obtain ⟨w1, w2⟩ := end_hr h ht hs
    dsimp only
    rw [w2]
    cases (r.stream.end w).2 with
    | ok u => exact ⟨w1, rfl, rfl⟩
    | error e => exact ⟨w1, rfl, rfl⟩

/-- complete runs: final states related, results equal -/
theorem run_hr (g' : γ') (cfg : Settings) (cs : List Bytes) :
    RRh f (run w' (Rewriter.new w' g' cfg) cs).1 (run w (Rewriter.new w (f g') cfg) cs).1 := by
  have hnew : RRh f (Rewriter.new w' g' cfg) (Rewriter.new w (f g') cfg) := by
    refine ⟨⟨?_, rfl, rfl, rfl, rfl⟩, rfl, rfl⟩
    simp only [Rewriter.new, Stream.new, worldOf, h.initialFlags g']
    refine ⟨rfl, rfl, rfl, rfl, rfl, ?_, rfl, rfl⟩
    show mapD f _ = _
    simp only [Parser.new, Disp.new, mapD, h.initialFlags g']
  obtain ⟨a1, a2⟩ := writeAll_hr h ht cs hnew
  simp only [run]
  exact rewriter_end_hr' h ht a1

end
end LolHtml.Model.Hom

namespace LolHtml.Thm.Full
open LolHtml LolHtml.Model LolHtml.Model.Full LolHtml.Model.Handlers LolHtml.EditModel LolHtml.Lemmas.Full
open LolHtml.Thm.C01 (run writeAll Rewriter.new)
open LolHtml.Model.RelI LolHtml.Model.Hint

/-- the refusals are panics -/
theorem xfires_panic {cfg : Cfg} {e : Err}
    (hF : XFires (withArgs argSite (andGuard (kindGuard (γ := FullSt cfg)) wmGuard)) e) : ∃ s, e = .panic s := by
  rcases hF with hF | hF
  · rcases argsKW_fires hF with rfl | rfl | rfl | rfl | rfl <;> exact ⟨_, rfl⟩
  · exact ⟨_, hF⟩

/-- one parse call, guards removed: if over the cleaned controller the guarded parse is the plain one and returns no
refusal, the plain REAL parse is the plain cleaned parse -/
theorem Full_parse_eq (cfg : Cfg) (inp : Bytes) (last : Bool) (p : Parser (Disp (FullStH cfg))) (hI : InvY cfg p.x.sink)
    (h2 : Parser.parse (envT (cleanWorldH cfg) (XT (withArgs argSite (andGuard kindGuard wmGuard)))) inp last p =
      Parser.parse (cleanWorldH cfg).env inp last p)
    (h2n : ∀ e, XFires (withArgs argSite (andGuard (kindGuard (γ := FullSt cfg)) wmGuard)) e →
      (Parser.parse (cleanWorldH cfg).env inp last p).2 ≠ .error e) :
    Parser.parse (genWorldH cfg).env inp last p = Parser.parse (cleanWorldH cfg).env inp last p ∧
    ∀ n, (Parser.parse (genWorldH cfg).env inp last p).2 = .ok n →
      InvY cfg (Parser.parse (genWorldH cfg).env inp last p).1.x.sink := by
  obtain ⟨g1, g2⟩ := Full_parse_eq_guarded cfg inp last p hI
  have r3 := RelE.parse_relE (tbl := Gen.Syntax.table) (cfg := Gen.Tags.cfg) (inp := inp)
    (xt_relReal (withArgs argSite (andGuard kindGuard wmGuard)) (genWorldH cfg).ctl inp) C03.C03_emitsChecked_gen last p p (PR_refl p)
  have heq : Parser.parse (envT (genWorldH cfg) (XT (withArgs argSite (andGuard kindGuard wmGuard)))) inp last p =
      Parser.parse (genWorldH cfg).env inp last p := by
    rcases r3 with ⟨hp, hres⟩ | ⟨e, hF, hres⟩
    · exact Prod.ext (PR_eq' hp) hres
    · exfalso
      obtain ⟨s, rfl⟩ := xfires_panic hF
      have hres' : (Parser.parse (envT (genWorldH cfg) (XT (withArgs argSite (andGuard kindGuard wmGuard)))) inp last p).2 =
          .error (.panic s) := hres
      rw [g1, h2] at hres'
      exact h2n _ hF hres'
  rw [← heq]
  exact ⟨by rw [g1, h2], g2⟩

/-- `handle_end` of the real controller is that of the cleaned one on every `InvY` state -/
theorem Full_handleEnd_eq (cfg : Cfg) (d : Disp (FullStH cfg)) (hI : InvY cfg d) :
    (genWorldH cfg).ctl.handleEnd d.ctl = (cleanCtlH cfg).handleEnd d.ctl := by
  rcases (fullCtlH_sim cfg).handleEnd d.ctl (invX_DO hI.1) with ⟨he, _⟩ | ⟨e, ⟨hG, _⟩, he⟩
  · exact he
  · have : e = .handler := Full_handleEnd_clean cfg d.ctl.1 (invX_fault hI.1) e he
    subst this
    rcases hG with ⟨m, hm, _⟩ | ⟨s, hs⟩
    · cases hm
    · cases hs

/-- the complete runs with the ghost are the same run -/
theorem Full_real_eq_clean_H (cfg : Cfg) (settings : Settings) (chunks : List Bytes) :
    run (genWorldH cfg) (Rewriter.new (genWorldH cfg) (FullSt.init cfg, none) settings) chunks =
      run (cleanWorldH cfg) (Rewriter.new (cleanWorldH cfg) (FullSt.init cfg, none) settings) chunks := by
  obtain ⟨hI, hL⟩ := Full_scan_opsX cfg
  exact run_eqT (w := genWorldH cfg) (c2 := cleanCtlH cfg) hL.toT
    (fun inp last p hp h2 h2n => Full_parse_eq cfg inp last p hp h2 h2n)
    (fun d hd => Full_handleEnd_eq cfg d hd) (FullSt.init cfg, none) settings (hI settings.encoding)
    (Full_clean_guardX' cfg settings) chunks

/-- **Full_real_eq_clean.** For every configuration, settings record and chunking, the complete run `write* ; end` over
the REAL controller IS the run over the cleaned controller `cleanCtl (fullCtl cfg)`: the same final rewriter state (sink
log, dispatcher, controller state, parser, buffer) and the same call results. UNCONDITIONAL — no internal-class
alternative: the protocol invariant `InvY` excludes it. -/
theorem Full_real_eq_clean : Full_real_eq_clean_statement := by
  intro cfg settings chunks
  have hH := Full_real_eq_clean_H cfg settings chunks
  have r1 := Hom.run_hr (w := genWorld cfg) (c' := fullCtlH cfg) (f := Prod.fst) (hintCtl_hom (fullCtl cfg))
    C03.C03_emitsChecked_gen (FullSt.init cfg, none) settings chunks
  have r2 := Hom.run_hr (w := cleanWorld cfg) (c' := cleanCtlH cfg) (f := Prod.fst)
    (hintCtl_hom (Chunk.R.cleanCtl (fullCtl cfg))) C03.C03_emitsChecked_gen (FullSt.init cfg, none) settings chunks
  have e1 := run_hint (genWorld cfg) C03.C03_emitsChecked_gen (FullSt.init cfg) none settings chunks
  have e2 := run_hint (cleanWorld cfg) C03.C03_emitsChecked_gen (FullSt.init cfg) none settings chunks
  have r2' : Hom.RRh Prod.fst (run (genWorldH cfg) (Rewriter.new (genWorldH cfg) (FullSt.init cfg, none) settings) chunks).1
      (run (cleanWorld cfg) (Rewriter.new (cleanWorld cfg) (FullSt.init cfg) settings) chunks).1 := by
    rw [hH]; exact r2
  refine Prod.ext (Hom.RRh_fun r1 r2') ?_
  have e1' : (run (genWorldH cfg) (Rewriter.new (genWorldH cfg) (FullSt.init cfg, none) settings) chunks).2 =
      (run (genWorld cfg) (Rewriter.new (genWorld cfg) (FullSt.init cfg) settings) chunks).2 := e1
  have e2' : (run (cleanWorldH cfg) (Rewriter.new (cleanWorldH cfg) (FullSt.init cfg, none) settings) chunks).2 =
      (run (cleanWorld cfg) (Rewriter.new (cleanWorld cfg) (FullSt.init cfg) settings) chunks).2 := e2
  rw [← e1', ← e2', hH]

end LolHtml.Thm.Full
