import LolHtml.Thm.C15_Full
import LolHtml.Lemmas.ParseRel
/-!
# C06 — the END direction of the re-lexing agreement: `C06_relex_end_tag`

`C06_relex_same_tag` / `C15_no_panic_full` use the START direction: a flag that only a start-tag hint
answered `lex` can raise (`pending_element_aux_info_req`) is still up when the restarted lexer hands
its first tag lexeme to `handle_tag`, and that lexeme is a START tag. The whole development
(`PendLaw`, `HeadDone`, `LInTag`, `XLaws`, `PX0`) is generic in the kind `K` of the raising hint; this
file instantiates it at `K = false`:

for a sink flag `PendE` that only an END-tag hint answered `lex` can raise and the next tag lexeme
lowers, the lexeme `handle_tag` receives while `PendE` is up is an END tag (and it is the re-lexed
`</name`: same name hash, `C06_relex_same_tag`).

It is exported as "the guard never fires": `guardOps ops PendE` refuses a start-tag lexeme while `PendE`
is up (error `.panic guardSite`);
* `C06_relex_end_tag_parse` — from the parser invariant, `Parser.parse` over the guarded sink IS
  `Parser.parse` over the real sink, and keeps the invariant;
* `C06_relex_end_tag` — stream level, for the dispatcher: in every run `write* ` of the rewriter (any
  table with `RelexSide` and `EmitsChecked`, any controller, any chunking), for every successful prefix
  and every next chunk, the guarded parse of that chunk equals the real one — and likewise for the final
  `end`.
The client supplies `PendE`, an invariant `Good` of the sink, and the laws `EndLaws` / `EndLawsD`.
-/
set_option linter.unusedSimpArgs false
set_option linter.unusedVariables false

namespace LolHtml.Thm.C06
open LolHtml LolHtml.Model LolHtml.Thm.C01
open LolHtml.Lemmas.Sim (Inv)

variable {κ : Type}

/-- the guarded copy of a sink: `handle_tag` refuses a START-tag lexeme while `PendE` is up -/
def guardOps (ops : SinkOps κ) (PendE : κ → Bool) : SinkOps κ :=
  { ops with
    handleTag := fun inp lx k =>
      if PendE k && lx.outline.isStart then (k, .error (.panic guardSite)) else ops.handleTag inp lx k }

/-- what the client has to know about its flag: raised only by an end-tag hint answered `lex`
(`PendLaw … false`), lowered by a tag lexeme, untouched by non-tag lexemes; an invariant `Good` of the
sink may be used; the sink itself never reports the guard's error -/
structure EndLaws (ops : SinkOps κ) (inp : Bytes) (PendE : κ → Bool) (Good : κ → Prop) : Prop where
  hint : PendLaw ops PendE false
  goodNT : ∀ lx k, Good k → Good (ops.handleNonTag inp lx k).1
  goodT : ∀ lx k, Good k → Good (ops.handleTag inp lx k).1
  goodS : ∀ n ns k, Good k → PendE k = false → Good (ops.startTagHint n ns k).1
  goodE : ∀ n k, Good k → PendE k = false → Good (ops.endTagHint n k).1
  pendNT : ∀ lx k, PendE (ops.handleNonTag inp lx k).1 = PendE k
  pendT : ∀ lx k d, Good k → (ops.handleTag inp lx k).2 = .ok d → PendE (ops.handleTag inp lx k).1 = false
  cleanNT : ∀ lx k, (ops.handleNonTag inp lx k).2 ≠ .error (.panic guardSite)
  cleanT : ∀ lx k, (ops.handleTag inp lx k).2 ≠ .error (.panic guardSite)
  cleanS : ∀ n ns k, (ops.startTagHint n ns k).2 ≠ .error (.panic guardSite)
  cleanE : ∀ n k, (ops.endTagHint n k).2 ≠ .error (.panic guardSite)

/-- the guarded sink satisfies the sink laws of the re-lexing argument at `K = false`, for the error
class "the guard fired" -/
theorem guardOps_xlaws {ops : SinkOps κ} {inp : Bytes} {PendE : κ → Bool} {Good : κ → Prop}
    (h : EndLaws ops inp PendE Good) :
    XLaws (guardOps ops PendE) inp PendE Good false (fun e => e = .panic guardSite) where
  hint := ⟨h.hint.start, h.hint.end_, fun hh => (by cases hh), h.hint.otherS⟩
  sub := fun e he => Or.inr he
  goodNT := h.goodNT
  goodT := by
    intro lx k hg _
    simp only [guardOps]
    split
    · exact hg
    · exact h.goodT lx k hg
  goodS := h.goodS
  goodE := h.goodE
  pendNT := h.pendNT
  pendT := by
    intro lx k d hg hr
    simp only [guardOps] at hr ⊢
    split at hr
    · cases hr
    · rename_i hc
      rw [if_neg hc]
      exact h.pendT lx k d hg hr
  errNT := fun lx k e he hu => h.cleanNT lx k (by subst hu; exact he)
  errT := by
    intro lx k e he hu
    simp only [guardOps] at he
    split at he
    · rename_i hc
      simp only [Bool.and_eq_true] at hc
      exact ⟨hc.1, hc.2⟩
    · exact absurd (by subst hu; exact he) (h.cleanT lx k)
  errS := fun n ns k e he hu => h.cleanS n ns k (by subst hu; exact he)
  errE := fun n k e he hu => h.cleanE n k (by subst hu; exact he)

/-! ### parser level -/

theorem PR_eq {p₁ p₂ : Parser κ} (h : PR (fun a b : κ => a = b) p₁ p₂) : p₁ = p₂ := by
  obtain ⟨a, b, c, d, e, f1, f2, f3⟩ := h
  obtain ⟨lc, lr, sc, sr, dr, ⟨sk, sm, pc⟩⟩ := p₁
  obtain ⟨lc', lr', sc', sr', dr', ⟨sk', sm', pc'⟩⟩ := p₂
  simp only at a b c d e f1 f2 f3
  subst a b c d e f1 f2 f3
  rfl

section
variable {env : Env κ} {inp : Bytes} {PendE : κ → Bool} {Good : κ → Prop}
variable {L : Labels} {TT : TLabels} {P : PLabels} {S : SLabels}

/-- the environment with the guarded sink -/
def guardEnv (env : Env κ) (PendE : κ → Bool) : Env κ := ⟨env.tbl, env.cfg, guardOps env.ops PendE⟩

/-- **C06_relex_end_tag, parser level.** From the parser invariant (at `K = false`), `Parser.parse` over
the guarded sink is `Parser.parse` over the real sink — the guard never fires: a tag lexeme handed to
`handle_tag` while `PendE` is up is an END tag — and the invariant holds again for the next call. -/
theorem C06_relex_end_tag_parse (h : EndLaws env.ops inp PendE Good) (hside : RelexSide env.tbl L TT P S)
    (ht : EmitsChecked env.tbl = true) (last : Bool) (p : Parser κ)
    (hp : PX0 (guardEnv env PendE) L TT P S PendE Good false inp p) :
    Parser.parse (guardEnv env PendE) inp last p = Parser.parse env inp last p ∧
    (∀ k, (Parser.parse env inp last p).2 = .ok k → last = false →
      ∀ data, PX0 (guardEnv env PendE) L TT P S PendE Good false (inp.drop k ++ data) (Parser.parse env inp last p).1) := by
  obtain ⟨q1, q2⟩ := parse_X (env := guardEnv env PendE) (inp := inp) (guardOps_xlaws h) hside last p hp
  have hops : OpsRel (guardOps env.ops PendE) env.ops inp (fun a b : κ => a = b) (.panic guardSite) := by
    refine ⟨fun lx k₁ k₂ hk => ?_, fun lx k₁ k₂ hk => ?_, fun n ns k₁ k₂ hk => ?_, fun n k₁ k₂ hk => ?_⟩
    · subst hk
      simp only [guardOps]
      split
      · exact Or.inr rfl
      · exact Or.inl ⟨rfl, rfl⟩
    · subst hk; exact Or.inl ⟨rfl, rfl⟩
    · subst hk; exact Or.inl ⟨rfl, rfl⟩
    · subst hk; exact Or.inl ⟨rfl, rfl⟩
  have hrel := Parser.parse_rel (tbl := env.tbl) (cfg := env.cfg) (inp := inp) hops ht (by intro s hh; cases hh) last p p
    ⟨rfl, rfl, rfl, rfl, rfl, rfl, rfl, rfl⟩
  have heq : Parser.parse (guardEnv env PendE) inp last p = Parser.parse env inp last p := by
    rcases hrel with ⟨h1, h2⟩ | habort
    · have := PR_eq h1
      exact Prod.ext this h2
    · exact absurd rfl (q1 _ habort)
  refine ⟨heq, fun k hk hl data => ?_⟩
  rw [← heq] at hk ⊢
  exact q2 k hk hl data

end


/-! ### the dispatcher never reports the guard's error itself -/

section clean
variable {γ : Type} {ctl : Controller γ} {inp : Bytes}

/-- not the guard's error -/
abbrev NG : Err → Prop := fun e => e ≠ .panic guardSite

theorem ng_of_clean {e : Err} (h : e.Clean) : NG e := by
  intro hh; subst hh; exact h

variable (hc : CtlClean ctl)
include hc

theorem tokenProduced_ng (d : Disp γ) (t : Token) : DErr NG (Disp.tokenProduced ctl d t) := by
  intro e he
  unfold Disp.tokenProduced at he
  dsimp only at he
  split at he
  · rename_i e' hh
    simp only [Except.error.injEq] at he
    subst he
    exact ng_of_clean (hc.token _ _ _ hh)
  · cases he

theorem flushPendingText_ng (d : Disp γ) : DErr NG (d.flushPendingText ctl) := by
  unfold Disp.flushPendingText
  split
  · exact tokenProduced_ng hc _ _
  · exact DErr.ok _ _

omit hc in
theorem emitChunkBefore_ng (d : Disp γ) (raw : Range) : DErr NG (DRes.ofExcept d (d.emitChunkBefore inp raw)) := by
  unfold DRes.ofExcept Disp.emitChunkBefore
  cases checkedSlice inp ⟨d.rcs, raw.start⟩ with
  | none => intro e he; simp only [Except.error.injEq] at he; subst he; simp [NG, guardSite]
  | some ch => exact DErr.ok _ _

theorem emitToken_ng (d : Disp γ) (raw : Range) (tok : Token) : DErr NG (d.emitToken ctl inp raw tok) := by
  unfold Disp.emitToken
  apply DErr.bind (emitChunkBefore_ng d raw)
  intro d1 _
  apply DErr.bind (tokenProduced_ng hc d1 tok)
  intro d2 _
  exact DErr.ok _ _

theorem produceTag_ng (d : Disp γ) (lx : TagLexeme) : DErr NG (d.produceTag ctl inp lx) := by
  unfold Disp.produceTag
  split
  · intro e he; simp only [Except.error.injEq] at he; subst he; simp [NG, guardSite]
  · split
    · exact DErr.ok _ _
    · exact emitToken_ng hc _ _ _

theorem produceNonTag_ng (d : Disp γ) (lx : NonTagLexeme) : DErr NG (d.produceNonTag ctl inp lx) := by
  unfold Disp.produceNonTag
  split
  · split
    · unfold Disp.produceText
      split
      · intro e he; simp only [Except.error.injEq] at he; subst he; simp [NG, guardSite]
      · apply DErr.bind (emitChunkBefore_ng d lx.raw)
        intro d1 _
        apply DErr.bind (tokenProduced_ng hc _ _)
        intro d2 _
        exact DErr.ok _ _
    · exact DErr.ok _ _
  · split
    · intro e he; simp only [Except.error.injEq] at he; subst he; simp [NG, guardSite]
    · exact DErr.ok _ _
    · exact emitToken_ng hc _ _ _

theorem handleNonTag_ng (lx : NonTagLexeme) (d : Disp γ) : DErr NG (Disp.handleNonTag ctl inp lx d) := by
  unfold Disp.handleNonTag
  apply DErr.bind
  · split
    · exact DErr.ok _ _
    · exact flushPendingText_ng hc d
  · intro d1 _
    exact produceNonTag_ng hc d1 lx

theorem answerAux_ng (d : Disp γ) (info : AuxInfo) : DErr NG (d.answerAux ctl info) := by
  unfold Disp.answerAux
  dsimp only
  split
  · exact DErr.ok _ _
  · rename_i e herr
    intro e' he
    simp only [Except.error.injEq] at he
    subst he
    exact ng_of_clean (hc.auxInfo _ _ _ herr)

theorem adjustFlagsForTag_ng (d : Disp γ) (lx : TagLexeme) : DErr NG (d.adjustFlagsForTag ctl inp lx) := by
  unfold Disp.adjustFlagsForTag
  split
  · split
    · exact answerAux_ng hc _ _
    · intro e he; simp only [Except.error.injEq] at he; subst he; simp [NG]
  · split
    · split
      · intro e he; simp only [Except.error.injEq] at he; subst he; simp [NG, guardSite]
      · dsimp only
        split
        · exact DErr.ok _ _
        · exact answerAux_ng hc _ _
        · rename_i e herr
          intro e' he
          simp only [Except.error.injEq] at he
          subst he
          exact ng_of_clean (hc.startTag _ _ _ _ herr)
    · split
      · intro e he; simp only [Except.error.injEq] at he; subst he; simp [NG, guardSite]
      · exact DErr.ok _ _

theorem handleTag_ng (lx : TagLexeme) (d : Disp γ) : DErr NG (Disp.handleTag ctl inp lx d) := by
  unfold Disp.handleTag
  apply DErr.bind (flushPendingText_ng hc d)
  intro d1 _
  apply DErr.bind
  · split
    · exact DErr.ok _ _
    · exact adjustFlagsForTag_ng hc _ lx
  · intro d2 _
    apply DErr.bind (produceTag_ng hc _ lx)
    intro d3 _
    exact DErr.ok _ _

theorem startTagHint_ng (name : LocalName) (ns : Ns) (d : Disp γ) : DErr NG (Disp.startTagHint ctl name ns d) := by
  unfold Disp.startTagHint
  dsimp only
  split
  · unfold Disp.applyHintFlags; exact DErr.ok _ _
  · exact DErr.ok _ _
  · rename_i e herr
    intro e' he
    simp only [Except.error.injEq] at he
    subst he
    exact ng_of_clean (hc.startTag _ _ _ _ herr)

theorem endTagHint_ng (name : LocalName) (d : Disp γ) : DErr NG (Disp.endTagHint ctl name d) := by
  unfold Disp.endTagHint
  apply DErr.bind (flushPendingText_ng hc d)
  intro d1 _
  dsimp only
  unfold Disp.applyHintFlags
  exact DErr.ok _ _


/-- for a clean controller the dispatcher never returns `.panic guardSite` -/
theorem dispOps_clean_guard :
    (∀ lx k, (Disp.handleNonTag ctl inp lx k).2 ≠ .error (.panic guardSite)) ∧
    (∀ lx k, (Disp.handleTag ctl inp lx k).2 ≠ .error (.panic guardSite)) ∧
    (∀ n ns k, (Disp.startTagHint ctl n ns k).2 ≠ .error (.panic guardSite)) ∧
    (∀ n k, (Disp.endTagHint ctl n k).2 ≠ .error (.panic guardSite)) :=
  ⟨fun lx k h => handleNonTag_ng hc lx k _ h rfl, fun lx k h => handleTag_ng hc lx k _ h rfl,
   fun n ns k h => startTagHint_ng hc n ns k _ h rfl, fun n k h => endTagHint_ng hc n k _ h rfl⟩

end clean

/-! ### stream level, for the dispatcher -/

variable {γ : Type}

/-- the laws for the dispatcher of a world, plus: the flag and the invariant do not depend on the output
bookkeeping (`flush_remaining_input`), and hold of a fresh dispatcher -/
structure EndLawsD (ctl : Controller γ) (PendE : Disp γ → Bool) (Good : Disp γ → Prop) : Prop where
  laws : ∀ inp, EndLaws (dispOps ctl) inp PendE Good
  flush : ∀ d inp k d', d.flushRemaining inp k = .ok d' → PendE d' = PendE d ∧ (Good d → Good d')
  init : ∀ g enc, PendE (Disp.new ctl g enc) = false ∧ Good (Disp.new ctl g enc)

section
variable {w : World γ} {L : Labels} {TT : TLabels} {P : PLabels} {S : SLabels}
variable {PendE : Disp γ → Bool} {Good : Disp γ → Prop}

/-- stream invariant for the END direction -/
def SXInvE (w : World γ) (L : Labels) (TT : TLabels) (P : PLabels) (S : SLabels) (PendE : Disp γ → Bool)
    (Good : Disp γ → Prop) (s : Stream γ) : Prop :=
  ∀ data, PX0 (guardEnv w.env PendE) L TT P S PendE Good false (s.pending ++ data) s.parser

theorem PX0_setSinkE {inp : Bytes} {p : Parser (Disp γ)} (d : Disp γ)
    (h : PX0 (guardEnv w.env PendE) L TT P S PendE Good false inp p) (hpe : PendE d = PendE p.x.sink)
    (hgood : Good p.x.sink → Good d) :
    PX0 (guardEnv w.env PendE) L TT P S PendE Good false inp { p with x := { p.x with sink := d } } := by
  cases hd : p.directive with
  | scan =>
    simp only [PX0, hd] at h ⊢
    obtain ⟨hsa, hg, hi⟩ := h
    refine ⟨⟨⟨hsa.head.scan, hsa.head.stale, hsa.head.head⟩, ⟨hsa.lab.scan, hsa.lab.tt, hsa.lab.endc, ?_⟩,
      fun q ph v a1 a2 a3 a4 a5 => ⟨(hsa.sem q ph v a1 a2 a3 a4 a5).path, (hsa.sem q ph v a1 a2 a3 a4 a5).sem⟩⟩,
      hgood hg, hi⟩
    show PendE d = false
    rw [hpe]
    exact hsa.lab.pend
  | lex =>
    simp only [PX0, hd] at h ⊢
    obtain ⟨⟨c0, l0, x0, hm, hcore⟩, hidle⟩ := h
    simp only [M.mk.injEq, Regs.lexer.injEq] at hm
    obtain ⟨rfl, rfl, rfl⟩ := hm
    exact ⟨⟨_, _, _, rfl, hcore.sink d hgood hpe⟩, hidle⟩

theorem Stream.new_SXE (hside : RelexSide w.tbl L TT P S) (hl : EndLawsD w.ctl PendE Good) (g : γ) (cfg : Settings) :
    SXInvE w L TT P S PendE Good (Stream.new w g cfg) := by
  intro data
  obtain ⟨i1, i2⟩ := hl.init g cfg.encoding
  simp only [Stream.new]
  by_cases hinit : (w.ctl.initialFlags g).isEmpty = true
  · simp only [hinit, if_true, PX0, Parser.new]
    refine ⟨⟨HInv.of_none rfl rfl rfl, ⟨rfl, ?_, fun _ => rfl, i1⟩, HSem_of_none rfl⟩, i2,
      LolHtml.Lemmas.Sim.inv_new _⟩
    exact tt_flows (TextTypeOk_text (t := w.tbl) hside.tt .data) (x := TextType.data) (fun tt h => by simpa using h)
  · simp only [hinit, Bool.false_eq_true, if_false, PX0, Parser.new]
    exact ⟨⟨_, _, _, rfl, i2, LolHtml.Lemmas.Sim.inv_new _, Or.inl ⟨rfl, i1⟩⟩, rfl, rfl, rfl⟩

/-- one `write`: the guarded parse of the chunk is the real one, and the invariant is kept -/
theorem Stream.write_E (hside : RelexSide w.tbl L TT P S) (ht : EmitsChecked w.tbl = true)
    (hl : EndLawsD w.ctl PendE Good) (s : Stream γ) (data : Bytes) (hs : SXInvE w L TT P S PendE Good s) :
    Parser.parse (guardEnv w.env PendE) (s.pending ++ data) false s.parser = Parser.parse w.env (s.pending ++ data) false s.parser ∧
    ((s.write w data).2 = .ok () → SXInvE w L TT P S PendE Good (s.write w data).1) := by
  obtain ⟨e1, e2⟩ := C06_relex_end_tag_parse (env := w.env) (hl.laws (s.pending ++ data)) hside ht false s.parser (hs data)
  refine ⟨e1, ?_⟩
  unfold Stream.write
  cases hcf : s.chunkFor w data with
  | inl s' => intro hh; cases hh
  | inr sc =>
    obtain ⟨s1, chunk⟩ := sc
    obtain ⟨c1, c2, c3, c4, c5⟩ := Stream.chunkFor_inr hcf
    dsimp only
    subst c1
    rw [c2]
    cases hpr : (s.parser.parse w.env (s.pending ++ data) false).2 with
    | error e => intro hh; cases hh
    | ok consumed =>
      dsimp only
      have hnext := e2 consumed hpr rfl
      cases hfl : Disp.flushRemaining (Stream.disp { s1 with parser := (s.parser.parse w.env (s.pending ++ data) false).1 })
          (s.pending ++ data) consumed with
      | error e => intro hh; cases hh
      | ok d =>
        dsimp only
        intro hres
        obtain ⟨k1, k2⟩ := LolHtml.Thm.C09.keepTail_pending (w := w)
          (s := Stream.setDisp { s1 with parser := (s.parser.parse w.env (s.pending ++ data) false).1 } d)
          (data := data) (chunk := s.pending ++ data) (consumed := consumed)
          (by intro hb; exact c5 (by simpa [Stream.setDisp, c3] using hb))
          (by intro hb
              have : s.hasBuffered = false := by simpa [Stream.setDisp, c3] using hb
              simp [Stream.pending, this])
          hres
        obtain ⟨f1, f2⟩ := hl.flush _ _ _ _ hfl
        intro data'
        rw [k1, k2]
        exact PX0_setSinkE d (hnext data') f1 f2

/-- invariant of the public object -/
def RXInvE (w : World γ) (L : Labels) (TT : TLabels) (P : PLabels) (S : SLabels) (PendE : Disp γ → Bool)
    (Good : Disp γ → Prop) (r : Rewriter γ) : Prop :=
  r.poisoned = true ∨ SXInvE w L TT P S PendE Good r.stream

theorem writeAll_E (hside : RelexSide w.tbl L TT P S) (ht : EmitsChecked w.tbl = true)
    (hl : EndLawsD w.ctl PendE Good) (chunks : List Bytes) (r : Rewriter γ) (hr : RXInvE w L TT P S PendE Good r) :
    RXInvE w L TT P S PendE Good (writeAll w r chunks).1 := by
  induction chunks generalizing r with
  | nil => exact hr
  | cons c cs ih =>
    simp only [writeAll]
    apply ih
    unfold Rewriter.write
    by_cases hp : r.poisoned = true
    · simp only [hp, if_true]; exact Or.inl hp
    · have hs : SXInvE w L TT P S PendE Good r.stream := by rcases hr with h | h; exact absurd h hp; exact h
      simp only [hp, Bool.false_eq_true, if_false]
      cases hres : (r.stream.write w c).2 with
      | ok u => exact Or.inr ((Stream.write_E hside ht hl r.stream c hs).2 hres)
      | error e => exact Or.inl rfl

end

/-- **C06_relex_end_tag.** Every table with `RelexSide` and `EmitsChecked`, every controller, every
settings record, every flag `PendE` / invariant `Good` of the dispatcher with `EndLawsD` (raised only by
an end-tag hint answered `lex`, lowered by the next tag lexeme): after every prefix `pre` of writes that
left the rewriter usable, for every next chunk `data` — and for the final `end` — the parse over the
GUARDED dispatcher equals the parse over the real one: while `PendE` is up, the tag lexeme handed to
`handle_tag` is never a start tag. -/
theorem C06_relex_end_tag (w : World γ) (L : Labels) (TT : TLabels) (P : PLabels) (S : SLabels)
    (hside : RelexSide w.tbl L TT P S) (ht : EmitsChecked w.tbl = true) (PendE : Disp γ → Bool) (Good : Disp γ → Prop)
    (hl : EndLawsD w.ctl PendE Good) (g : γ) (cfg : Settings) (pre : List Bytes) :
    let r := (writeAll w (Rewriter.new w g cfg) pre).1
    r.poisoned = false →
      (∀ data, Parser.parse (guardEnv w.env PendE) (r.stream.pending ++ data) false r.stream.parser =
        Parser.parse w.env (r.stream.pending ++ data) false r.stream.parser) ∧
      Parser.parse (guardEnv w.env PendE) r.stream.pending true r.stream.parser =
        Parser.parse w.env r.stream.pending true r.stream.parser := by
  intro r hp
  have h0 : RXInvE w L TT P S PendE Good (Rewriter.new w g cfg) := Or.inr (Stream.new_SXE hside hl g cfg)
  have hr := writeAll_E hside ht hl pre _ h0
  have hs : SXInvE w L TT P S PendE Good r.stream := by
    rcases hr with h | h
    · rw [hp] at h; cases h
    · exact h
  refine ⟨fun data => (Stream.write_E hside ht hl r.stream data hs).1, ?_⟩
  have := hs []
  rw [List.append_nil] at this
  exact (C06_relex_end_tag_parse (env := w.env) (hl.laws _) hside ht true r.stream.parser this).1

/-- at the regenerated table -/
theorem C06_relex_end_tag_gen (w : World γ) (htbl : w.tbl = Gen.Syntax.table) (PendE : Disp γ → Bool)
    (Good : Disp γ → Prop) (hl : EndLawsD w.ctl PendE Good) (g : γ) (cfg : Settings) (pre : List Bytes) :
    let r := (writeAll w (Rewriter.new w g cfg) pre).1
    r.poisoned = false →
      (∀ data, Parser.parse (guardEnv w.env PendE) (r.stream.pending ++ data) false r.stream.parser =
        Parser.parse w.env (r.stream.pending ++ data) false r.stream.parser) ∧
      Parser.parse (guardEnv w.env PendE) r.stream.pending true r.stream.parser =
        Parser.parse w.env r.stream.pending true r.stream.parser :=
  C06_relex_end_tag w _ _ _ _ (by rw [htbl]; exact C15.C15_relexSide_gen)
    (by rw [htbl]; decide +kernel) PendE Good hl g cfg pre

/-- the laws are satisfiable (trivially, by the flag that is never up); a client's flag needs the same
four `clean*` facts, which `dispOps_clean_guard` provides for every clean controller -/
theorem endLawsD_trivial {ctl : Controller γ} (hc : CtlClean ctl) : EndLawsD ctl (fun _ => false) (fun _ => True) where
  laws := fun inp =>
    { hint := ⟨fun _ _ _ _ _ => rfl, fun _ _ _ _ => rfl, fun _ _ _ _ => rfl, fun _ _ _ _ _ => rfl⟩
      goodNT := fun _ _ _ => trivial
      goodT := fun _ _ _ => trivial
      goodS := fun _ _ _ _ _ => trivial
      goodE := fun _ _ _ _ => trivial
      pendNT := fun _ _ => rfl
      pendT := fun _ _ _ _ _ => rfl
      cleanNT := (dispOps_clean_guard (inp := inp) hc).1
      cleanT := (dispOps_clean_guard (inp := inp) hc).2.1
      cleanS := (dispOps_clean_guard (inp := inp) hc).2.2.1
      cleanE := (dispOps_clean_guard (inp := inp) hc).2.2.2 }
  flush := fun _ _ _ _ _ => ⟨rfl, fun _ => trivial⟩
  init := fun _ _ => ⟨rfl, trivial⟩

end LolHtml.Thm.C06
