/-
# Package `full`, part 19 — G1 / C04_real in the `ctlSteps` / `CtlEv` form (lexer mode), whole-run C05

`Thm/Full18.lean` extracts the event list of a lexer-mode byte-level run as `EvB` steps, where a token step carries
the DISPATCHER's flag `b`. Here: a token step with `b = true` IS the protocol event `.other tok` — if the
controller's own flag is set by definition of `ctlStep`, and if it is not set because then no handler of the kind is
active and `handle_token` is the identity (`tokIf_true_eq_other`; needs `DispWf`: the vector total is in sync with
the items). So no dispatcher-level flag invariant is needed, and `stepsB evs = ctlSteps (toCtlEvs evs)`.
-/
import LolHtml.Thm.Full18

namespace LolHtml.Thm.Full
open LolHtml LolHtml.Model LolHtml.Model.Full LolHtml.Model.Handlers LolHtml.EditModel LolHtml.Lemmas.Full
open LolHtml.Lemmas.FullReach
open LolHtml.Thm.C01 (run writeAll Rewriter.new)

/-! ## a delivered token is an `.other` event -/

theorem sum_zero_all (l : List Nat) (h : l.sum = 0) : ∀ x ∈ l, x = 0 := by
  induction l with
  | nil => intro x hx; cases hx
  | cons y ys ih =>
    simp only [List.sum_cons] at h
    intro x hx
    rcases List.mem_cons.1 hx with rfl | hx
    · omega
    · exact ih (by omega) x hx

theorem forEachActive_nil {α : Type} {v : HandlerVec α} (h : VecWf v) (hn : v.hasActive = false) :
    v.forEachActive = [] := by
  simp only [HandlerVec.hasActive, decide_eq_false_iff_not, Nat.not_lt, Nat.le_zero_eq] at hn
  rw [h] at hn
  have hall := sum_zero_all _ hn
  unfold HandlerVec.forEachActive
  rw [List.filter_eq_nil_iff.2]
  · rfl
  · intro it hit
    have := hall it.userCount (List.mem_map.2 ⟨it, hit, rfl⟩)
    simp [this]

/-- **tokIf_true_eq_other.** `handle_token(text | comment | doctype)` IS the protocol event `.other tok`, whether or
not the controller's capture flag is set: without an active handler of the kind the token changes nothing. -/
theorem tokIf_true_eq_other (cfg : Cfg) (s : St) (hf : s.fault = none) (hw : DispWf s.disp) (tok : Model.Token)
    (hk : (CtlEv.other tok).WellKinded) : tokIf cfg true s tok = ctlStep cfg s (.other tok) := by
  simp only [ctlStep]
  cases hb : flagFor s.flags tok with
  | true => rfl
  | false =>
    unfold tokIf
    simp only [if_true, Bool.false_eq_true, if_false]
    unfold token
    simp only [hf]
    cases tok with
    | startTag => simp [CtlEv.WellKinded] at hk
    | endTag => simp [CtlEv.WellKinded] at hk
    | comment text raw src =>
      have hn : s.disp.comment.hasActive = false := hb
      simp only [tokComment, forEachActive_nil hw.comment hn, runClosures, outOf]
      rfl
    | doctype name publicId systemId fq raw src =>
      have hn : s.disp.doctype.hasActive = false := hb
      simp only [tokDoctype, forEachActive_nil hw.doctype hn, runClosures, outOf]
      rfl
    | text bytes tt last src =>
      have hn : s.disp.text.hasActive = false := hb
      simp only [tokText, forEachActive_nil hw.text hn, runClosures, outOf]
      rfl

theorem toCtlEvs_ok : ∀ (evs : List EvB), (∀ e ∈ evs, e.Ok) → ∀ e ∈ toCtlEvs evs, EvOk e
  | [], _ => fun e he => by cases he
  | .ev c :: es, h => by
    intro e he
    simp only [toCtlEvs, List.mem_cons] at he
    rcases he with rfl | he
    · have := h (.ev e) (by simp)
      cases e with
      | other t => exact this.elim
      | start => exact this
      | end_ => exact this
    · exact toCtlEvs_ok es (fun x hx => h x (by simp [hx])) e he
  | .tok true t :: es, h => by
    intro e he
    simp only [toCtlEvs, List.mem_cons] at he
    rcases he with rfl | he
    · exact h (.tok true t) (by simp)
    · exact toCtlEvs_ok es (fun x hx => h x (by simp [hx])) e he
  | .tok false t :: es, h => by
    intro e he
    simp only [toCtlEvs] at he
    exact toCtlEvs_ok es (fun x hx => h x (by simp [hx])) e he

theorem tagEvents_toCtlEvs : ∀ (evs : List EvB), (toCtlEvs evs).filterMap selEvOf = tagEvents evs
  | [] => rfl
  | .ev c :: es => by
    simp only [toCtlEvs, tagEvents, List.filterMap_cons, selEvB]
    have := tagEvents_toCtlEvs es
    unfold tagEvents at this
    rw [this]
  | .tok true t :: es => by
    simp only [toCtlEvs, tagEvents, List.filterMap_cons, selEvB, selEvOf]
    exact tagEvents_toCtlEvs es
  | .tok false t :: es => by
    simp only [toCtlEvs, tagEvents, List.filterMap_cons, selEvB]
    exact tagEvents_toCtlEvs es

/-- J2 after one successful step -/
theorem stepB_J2 (cfg : Cfg) (s : St) (hJ : J2 cfg s) (e : EvB) (he : e.Ok) (hok : (stepB cfg s e).2 = none) :
    J2 cfg (stepB cfg s e).1 := by
  cases e with
  | tok b t => exact ((J2_evInv cfg).other s t b hJ he).1 hok
  | ev c =>
    cases c with
    | other t => exact he.elim
    | start name ns info tok =>
      cases tok with
      | startTag nm attrs ns' sc raw src base =>
        exact ((J2_evInv cfg).start s name ns info nm attrs ns' sc raw src base hJ).1 hok
      | endTag => simp [EvB.Ok, EvOk, CtlEv.WellKinded] at he
      | comment => simp [EvB.Ok, EvOk, CtlEv.WellKinded] at he
      | doctype => simp [EvB.Ok, EvOk, CtlEv.WellKinded] at he
      | text => simp [EvB.Ok, EvOk, CtlEv.WellKinded] at he
    | end_ name tok =>
      cases tok with
      | endTag nm raw src => exact ((J2_evInv cfg).end_ s name nm raw src hJ).1 hok
      | startTag => simp [EvB.Ok, EvOk, CtlEv.WellKinded] at he
      | comment => simp [EvB.Ok, EvOk, CtlEv.WellKinded] at he
      | doctype => simp [EvB.Ok, EvOk, CtlEv.WellKinded] at he
      | text => simp [EvB.Ok, EvOk, CtlEv.WellKinded] at he

/-- **stepsB_eq_ctlSteps.** A successful `EvB` run from a `J2` state is the `ctlSteps` run of the translated list. -/
theorem stepsB_eq_ctlSteps (cfg : Cfg) (evs : List EvB) :
    ∀ (s : St), J2 cfg s → (∀ e ∈ evs, e.Ok) → (stepsB cfg s evs).2 = none →
      ctlSteps cfg s (toCtlEvs evs) = stepsB cfg s evs := by
  induction evs with
  | nil => intro s _ _ _; rfl
  | cons ev evs ih =>
    intro s hJ hev hok
    have hev0 := hev ev (by simp)
    have hevs : ∀ e ∈ evs, e.Ok := fun e he => hev e (by simp [he])
    simp only [stepsB] at hok ⊢
    cases hr : (stepB cfg s ev).2 with
    | some err => simp [hr] at hok
    | none =>
      simp only [hr] at hok ⊢
      have hJ' := stepB_J2 cfg s hJ ev hev0 hr
      have hrec := ih _ hJ' hevs hok
      cases ev with
      | ev c =>
        have hr' : (ctlStep cfg s c).2 = none := hr
        simp only [toCtlEvs, ctlSteps, hr']
        exact hrec
      | tok b t =>
        cases b with
        | false =>
          simp only [toCtlEvs]
          have : (stepB cfg s (.tok false t)).1 = s := by simp [stepB, tokIf]
          rw [this] at hrec
          exact hrec
        | true =>
          have heq : ctlStep cfg s (.other t) = stepB cfg s (.tok true t) :=
            (tokIf_true_eq_other cfg s hJ.1.fault hJ.1.valid.wf t hev0).symm
          simp only [toCtlEvs, ctlSteps, heq, hr]
          exact hrec

/-! ## G1 and C04_real in the `ctlSteps` form, lexer mode -/

/-- **Full_events_lexer (G1, `CtlEv` form).** The lexer-mode half of `Full_events_statement`: after successful
`write`s the controller state of the byte-level run is `ctlSteps cfg (St.init cfg) evs` for a list of `EvOk`
protocol events of Model/FullEvents.lean. -/
theorem Full_events_lexer (cfg : Cfg) (hlex : LexCfg cfg) (settings : Settings) (chunks : List Bytes)
    (hok : ∀ x ∈ (writeAll (genWorld cfg) (Rewriter.new (genWorld cfg) (FullSt.init cfg) settings) chunks).2,
      x = CallRes.ok) :
    ∃ evs : List CtlEv, (∀ e ∈ evs, EvOk e) ∧
      ctlSteps cfg (St.init cfg) evs = ((afterWrites cfg settings chunks).stream.disp.ctl.1, none) := by
  obtain ⟨_, evs, hev, hsteps⟩ := Full_events_writes cfg hlex settings chunks hok
  refine ⟨toCtlEvs evs, toCtlEvs_ok evs hev, ?_⟩
  rw [stepsB_eq_ctlSteps cfg evs _ (J2_init cfg) hev (by rw [hsteps]), hsteps]

/-- **C04_real_lexer.** `C04_real_statement` for lexer-mode configurations. -/
theorem C04_real_lexer (cfg : Cfg) (hlex : LexCfg cfg) (hne : cfg.sels.isEmpty = false)
    (hsel : SelVM.selsOk cfg.selLists = true) (settings : Settings) (chunks : List Bytes)
    (hok : ∀ x ∈ (writeAll (genWorld cfg) (Rewriter.new (genWorld cfg) (FullSt.init cfg) settings) chunks).2,
      x = CallRes.ok) :
    ∃ evs : List CtlEv, (∀ e ∈ evs, EvOk e) ∧
      ctlSteps cfg (St.init cfg) evs = ((afterWrites cfg settings chunks).stream.disp.ctl.1, none) ∧
      ∃ vm', (SelVM.Vm.new (SelVM.Ast.ofSelectors cfg.selLists) cfg.esi).runAux (evs.filterMap selEvOf) 0 [] =
          .ok (vm', Spec.Css.run Spec.Css.cssLeaf cfg.selLists cfg.esi (evs.filterMap selEvOf)) ∧
        (afterWrites cfg settings chunks).stream.disp.ctl.1.vm = some vm' := by
  obtain ⟨evs, hev, hsteps, vm', hrun, hfin⟩ := C04_real cfg hlex hne hsel settings chunks hok
  refine ⟨toCtlEvs evs, toCtlEvs_ok evs hev, ?_, vm', ?_, hfin⟩
  · rw [stepsB_eq_ctlSteps cfg evs _ (J2_init cfg) hev (by rw [hsteps]), hsteps]
  · rw [tagEvents_toCtlEvs]; exact hrun

/-! ## G3 — whole-run C05 composition (lexer mode) -/

section C05
open LolHtml.Spec.Scope (expected openStep WfEvent OpenElem)
open LolHtml.Lemmas.Scope (Inv inv_init)

/-- the event of package scope's model a protocol event amounts to, at controller state `s`: a start tag carries
the match set the controller's VM computes on (name, namespace, attributes handed over) -/
def SevOf (s : St) : CtlEv → Controller.Event → Prop
  | .start name ns info _, sev =>
    (s.vm = none ∧ sev = .startTag [] .push false []) ∨
    ∃ vm aux vm' ms, s.vm = some vm ∧ auxConv info = some aux ∧
      vm.handleStartTag (selTag name ns aux) = .ok (vm', ms) ∧ sev = scopeEvStart vm (selTag name ns aux) ms
  | .end_ name _, sev => sev = .endTag (asciiLowerBytes (nameBytes name))
  | .other tok, sev => sev = scopeEvOther tok

/-- one entry of the run-level trace: the `on_end_tag` script and ordinal of the event, the scope event, the
handler invocations -/
structure TraceEntry where
  script : ElemScript
  ord : Nat
  sev : Controller.Event
  invs : List Invocation

/-- **the specification of a whole run**: from the open elements `sp`, every event invokes exactly
`Spec.Scope.expected` for the elements open before it, and the open elements evolve by `Spec.Scope.openStep`
(a start tag with content pushes the element with the selectors it matched; an end tag pops the last open
element of that name and everything inside it) -/
def TraceOK (cfg : Cfg) : List OpenElem → List TraceEntry → List OpenElem → Prop
  | sp, [], sp' => sp = sp'
  | sp, t :: rest, sp' =>
    t.invs = expected cfg.selRegs cfg.docRegs sp t.ord t.sev ∧
    TraceOK cfg (openStep t.script cfg.selRegs sp t.ord t.sev) rest sp'

/-- the trace follows the controller: entry `i` is ONE `Controller.step` of package scope's model on the projection
of the real controller's state before event `i`, for the scope event `SevOf` assigns to event `i` -/
def Follows (cfg : Cfg) : St → List CtlEv → List TraceEntry → Prop
  | _, [], [] => True
  | s, e :: es, t :: ts =>
    SevOf s e t.sev ∧
    Controller.step t.script (scopeState s) t.ord t.sev = .ok (scopeState (ctlStep cfg s e).1, t.invs) ∧
    Follows cfg (ctlStep cfg s e).1 es ts
  | _, _, _ => False

/-- one event -/
theorem event_trace (cfg : Cfg) (s : St) (hJ : J2 cfg s) (sp : List OpenElem)
    (hinv : Inv cfg.selRegs cfg.docRegs sp (scopeState s)) (ev : CtlEv) (hev : EvOk ev)
    (hok : (ctlStep cfg s ev).2 = none) :
    ∃ t : TraceEntry, SevOf s ev t.sev ∧
      Controller.step t.script (scopeState s) t.ord t.sev = .ok (scopeState (ctlStep cfg s ev).1, t.invs) ∧
      t.invs = expected cfg.selRegs cfg.docRegs sp t.ord t.sev ∧
      Inv cfg.selRegs cfg.docRegs (openStep t.script cfg.selRegs sp t.ord t.sev) (scopeState (ctlStep cfg s ev).1) := by
  have hJ1 := hJ.1
  cases ev with
  | start name ns info tok =>
    obtain ⟨⟨aux, ha⟩, hk⟩ := hev
    cases tok with
    | startTag nm attrs ns' sc raw src base =>
      cases hv : s.vm with
      | none =>
        obtain ⟨script, invs, hsim⟩ := start_refines_novm cfg s hJ1.fault hv hJ1.valid.sync hJ1.valid.wf name ns info
          nm attrs ns' sc raw src base (.startTag [] .push false []) ⟨_, _, _, _, rfl⟩ hok
        obtain ⟨h1, h2⟩ := Full_event_C05 cfg s _ sp hinv script _ _ invs (by simp [WfEvent]) hsim
        exact ⟨⟨script, s.ord + 1, _, invs⟩, Or.inl ⟨hv, rfl⟩, hsim, h1, h2⟩
      | some vm =>
        obtain ⟨hprog, ts, hsem⟩ := hJ1.vm vm hv
        obtain ⟨vm', ms, d, script, invs, hh, _, hsim⟩ := start_refines cfg s vm hJ1.fault hv hJ1.valid.sync hJ1.valid.wf
          name ns info aux ha nm attrs ns' sc raw src base hok
        have hids := vm_ids_bounded cfg vm vm' ts _ hprog (Full_idsBounded cfg) hsem _ ms hh
        have hwf : WfEvent cfg.selRegs.length (scopeEvStart vm (selTag name ns aux) ms) := by
          simp only [scopeEvStart, WfEvent, Cfg.selRegs, List.length_map]
          exact hids
        obtain ⟨h1, h2⟩ := Full_event_C05 cfg s _ sp hinv script _ _ invs hwf hsim
        exact ⟨⟨script, s.ord + 1, _, invs⟩, Or.inr ⟨vm, aux, vm', ms, hv, ha, hh, rfl⟩, hsim, h1, h2⟩
    | endTag => simp [CtlEv.WellKinded] at hk
    | comment => simp [CtlEv.WellKinded] at hk
    | doctype => simp [CtlEv.WellKinded] at hk
    | text => simp [CtlEv.WellKinded] at hk
  | end_ name tok =>
    cases tok with
    | endTag nm raw src =>
      have hpre : ∀ vm, s.vm = some vm → PreOk vm.stack := by
        intro vm hv
        obtain ⟨_, ts, hsem⟩ := hJ1.vm vm hv
        exact preOk_of_stackInv hsem.stack
      have hnf : (ctlStep cfg s (.end_ name (.endTag nm raw src))).1.fault = none :=
        (((Full_end_no_panic cfg s hJ1 name nm raw src).1 hok).1).fault
      obtain ⟨script, invs, hsim⟩ := end_refines cfg s hJ1.fault hJ1.valid.sync hJ1.valid.wf hpre name nm raw src s.ord hok hnf
      obtain ⟨h1, h2⟩ := Full_event_C05 cfg s _ sp hinv script _ _ invs (by simp [WfEvent]) hsim
      exact ⟨⟨script, s.ord, _, invs⟩, rfl, hsim, h1, h2⟩
    | startTag => simp [EvOk, CtlEv.WellKinded] at hev
    | comment => simp [EvOk, CtlEv.WellKinded] at hev
    | doctype => simp [EvOk, CtlEv.WellKinded] at hev
    | text => simp [EvOk, CtlEv.WellKinded] at hev
  | other tok =>
    obtain ⟨invs, hsim⟩ := other_refines cfg s hJ1.fault tok hev (fun _ _ => ⟨0, false, false⟩) s.ord
    have hwf : WfEvent cfg.selRegs.length (scopeEvOther tok) := by
      cases tok <;> simp [scopeEvOther, WfEvent]
    obtain ⟨h1, h2⟩ := Full_event_C05 cfg s _ sp hinv _ _ _ invs hwf hsim
    exact ⟨⟨fun _ _ => ⟨0, false, false⟩, s.ord, _, invs⟩, rfl, hsim, h1, h2⟩

/-- J2 after one successful protocol event -/
theorem ctlStep_J2 (cfg : Cfg) (s : St) (hJ : J2 cfg s) (ev : CtlEv) (hev : EvOk ev)
    (hok : (ctlStep cfg s ev).2 = none) : J2 cfg (ctlStep cfg s ev).1 := by
  cases ev with
  | other t =>
    have := tokIf_true_eq_other cfg s hJ.1.fault hJ.1.valid.wf t hev
    have h2 := stepB_J2 cfg s hJ (.tok true t) hev (by show (tokIf cfg true s t).2 = none; rw [this]; exact hok)
    have h3 : (stepB cfg s (.tok true t)).1 = (ctlStep cfg s (.other t)).1 := by
      show (tokIf cfg true s t).1 = _; rw [this]
    rw [h3] at h2; exact h2
  | start name ns info tok => exact stepB_J2 cfg s hJ (.ev (.start name ns info tok)) hev hok
  | end_ name tok => exact stepB_J2 cfg s hJ (.ev (.end_ name tok)) hev hok

/-- **scope_run.** Along a protocol-conforming event list that ends without error, from a `J2` state whose
projection satisfies package scope's invariant for `sp`: a trace that follows the controller and satisfies the
specification, ending in the invariant for the final open elements. -/
theorem scope_run (cfg : Cfg) (evs : List CtlEv) :
    ∀ (s : St) (sp : List OpenElem), J2 cfg s → Inv cfg.selRegs cfg.docRegs sp (scopeState s) →
      (∀ e ∈ evs, EvOk e) → (ctlSteps cfg s evs).2 = none →
      ∃ (tr : List TraceEntry) (sp' : List OpenElem), Follows cfg s evs tr ∧ TraceOK cfg sp tr sp' ∧
        Inv cfg.selRegs cfg.docRegs sp' (scopeState (ctlSteps cfg s evs).1) := by
  induction evs with
  | nil => intro s sp _ hinv _ _; exact ⟨[], sp, trivial, rfl, hinv⟩
  | cons ev evs ih =>
    intro s sp hJ hinv hev hok
    have hev0 := hev ev (by simp)
    simp only [ctlSteps] at hok ⊢
    cases hr : (ctlStep cfg s ev).2 with
    | some err => simp [hr] at hok
    | none =>
      simp only [hr] at hok ⊢
      obtain ⟨t, h1, h2, h3, h4⟩ := event_trace cfg s hJ sp hinv ev hev0 hr
      obtain ⟨tr, sp', f, ok, fin⟩ := ih _ _ (ctlStep_J2 cfg s hJ ev hev0 hr) h4 (fun e he => hev e (by simp [he])) hok
      exact ⟨t :: tr, sp', ⟨h1, h2, f⟩, ⟨h3, ok⟩, fin⟩

/-- **C05_real (lexer mode).** Lexer-mode configuration, ANY scripts, settings, chunking, all `write`s succeed:
the protocol events `evs` the byte-level run fed the controller (`Full_events_lexer`) have a trace `tr` — entry `i` is
one `Controller.step` of package scope's model on the projection of the REAL controller's state before event `i`
(`Follows`) — that satisfies package scope's specification from the empty stack (`TraceOK`): the handler
invocations of every event are exactly `Spec.Scope.expected` for the elements open before it. By definition of
`expected` / `openStep` (C05_scope_text, C05_scope_comment, C05_order, C05_end_tag_where apply per entry):
text / comment handlers registered with selector `k` receive exactly the text / comment tokens delivered while an
element that matched `k` is open; element handlers run at the start tags whose match set (the VM's, `SevOf`)
contains their selector; the `on_end_tag` handlers of an element run at the end-tag event that pops it — and
never again, since `openStep` removes it from the open elements. -/
theorem C05_real (cfg : Cfg) (hlex : LexCfg cfg) (settings : Settings) (chunks : List Bytes)
    (hok : ∀ x ∈ (writeAll (genWorld cfg) (Rewriter.new (genWorld cfg) (FullSt.init cfg) settings) chunks).2,
      x = CallRes.ok) :
    ∃ (evs : List CtlEv) (tr : List TraceEntry) (sp' : List OpenElem), (∀ e ∈ evs, EvOk e) ∧
      ctlSteps cfg (St.init cfg) evs = ((afterWrites cfg settings chunks).stream.disp.ctl.1, none) ∧
      Follows cfg (St.init cfg) evs tr ∧ TraceOK cfg [] tr sp' ∧
      Inv cfg.selRegs cfg.docRegs sp' (scopeState (afterWrites cfg settings chunks).stream.disp.ctl.1) := by
  obtain ⟨evs, hev, hsteps⟩ := Full_events_lexer cfg hlex settings chunks hok
  have hinv0 : Inv cfg.selRegs cfg.docRegs [] (scopeState (St.init cfg)) := by
    rw [scopeState_init]; exact inv_init _ _
  obtain ⟨tr, sp', f, ok, fin⟩ := scope_run cfg evs _ [] (J2_init cfg) hinv0 hev (by rw [hsteps])
  rw [hsteps] at fin
  exact ⟨evs, tr, sp', hev, hsteps, f, ok, fin⟩

/-- **C05_real, every configuration** (NOT proved): scanner mode needs `Full_events_statement`; from it `scope_run`
gives the rest verbatim. -/
def C05_real_statement : Prop :=
  ∀ (cfg : Cfg) (settings : Settings) (chunks : List Bytes),
    (∀ x ∈ (writeAll (genWorld cfg) (Rewriter.new (genWorld cfg) (FullSt.init cfg) settings) chunks).2, x = CallRes.ok) →
    ∃ (evs : List CtlEv) (tr : List TraceEntry) (sp' : List OpenElem), (∀ e ∈ evs, EvOk e) ∧
      ctlSteps cfg (St.init cfg) evs = ((afterWrites cfg settings chunks).stream.disp.ctl.1, none) ∧
      Follows cfg (St.init cfg) evs tr ∧ TraceOK cfg [] tr sp' ∧
      Inv cfg.selRegs cfg.docRegs sp' (scopeState (afterWrites cfg settings chunks).stream.disp.ctl.1)

theorem C05_real_partial (h : Full_events_statement) : C05_real_statement := by
  intro cfg settings chunks hok
  obtain ⟨evs, hev, hsteps⟩ := h cfg settings chunks hok
  have hinv0 : Inv cfg.selRegs cfg.docRegs [] (scopeState (St.init cfg)) := by
    rw [scopeState_init]; exact inv_init _ _
  obtain ⟨tr, sp', f, ok, fin⟩ := scope_run cfg evs _ [] (J2_init cfg) hinv0 hev (by rw [hsteps])
  rw [hsteps] at fin
  exact ⟨evs, tr, sp', hev, hsteps, f, ok, fin⟩

end C05

/-! ## `C04_real_statement` from `Full_events_statement` -/

/-- a protocol event as an `EvB` step -/
def ofCtl : CtlEv → EvB
  | .other t => .tok true t
  | e => .ev e

theorem ofCtl_ok (e : CtlEv) (h : EvOk e) : (ofCtl e).Ok := by
  cases e with
  | other t => exact h
  | start => exact h
  | end_ => exact h

theorem stepB_ofCtl (cfg : Cfg) (s : St) (hJ : J2 cfg s) (e : CtlEv) (h : EvOk e) :
    stepB cfg s (ofCtl e) = ctlStep cfg s e := by
  cases e with
  | other t => exact tokIf_true_eq_other cfg s hJ.1.fault hJ.1.valid.wf t h
  | start => rfl
  | end_ => rfl

theorem ctlSteps_eq_stepsB (cfg : Cfg) (evs : List CtlEv) :
    ∀ (s : St), J2 cfg s → (∀ e ∈ evs, EvOk e) → (ctlSteps cfg s evs).2 = none →
      stepsB cfg s (evs.map ofCtl) = ctlSteps cfg s evs := by
  induction evs with
  | nil => intro s _ _ _; rfl
  | cons ev evs ih =>
    intro s hJ hev hok
    have hev0 := hev ev (by simp)
    simp only [ctlSteps, List.map_cons, stepsB, stepB_ofCtl cfg s hJ ev hev0] at hok ⊢
    cases hr : (ctlStep cfg s ev).2 with
    | some err => simp [hr] at hok
    | none =>
      simp only [hr] at hok ⊢
      exact ih _ (ctlStep_J2 cfg s hJ ev hev0 hr) (fun e he => hev e (by simp [he])) hok

theorem tagEvents_ofCtl : ∀ (evs : List CtlEv), tagEvents (evs.map ofCtl) = evs.filterMap selEvOf
  | [] => rfl
  | .other t :: es => by
    simp only [List.map_cons, ofCtl, tagEvents, List.filterMap_cons, selEvB, selEvOf]
    exact tagEvents_ofCtl es
  | .start n ns i t :: es => by
    simp only [List.map_cons, ofCtl, tagEvents, List.filterMap_cons, selEvB]
    have := tagEvents_ofCtl es
    unfold tagEvents at this
    rw [this]
  | .end_ n t :: es => by
    simp only [List.map_cons, ofCtl, tagEvents, List.filterMap_cons, selEvB]
    have := tagEvents_ofCtl es
    unfold tagEvents at this
    rw [this]

/-- **C04_real_partial.** `C04_real_statement` (every configuration, scanner mode included) follows from
`Full_events_statement`: the VM and CSS part needs no further hypothesis. -/
theorem C04_real_partial (h : Full_events_statement) : C04_real_statement := by
  intro cfg settings chunks hne hsel hok
  obtain ⟨evs, hev, hsteps⟩ := h cfg settings chunks hok
  have hv : (St.init cfg).vm = some (SelVM.Vm.new (SelVM.Ast.ofSelectors cfg.selLists) cfg.esi) := by
    unfold St.init Cfg.selLists
    simp only [hne]
    rfl
  have hB := ctlSteps_eq_stepsB cfg evs _ (J2_init cfg) hev (by rw [hsteps])
  obtain ⟨vm', hits, hrun, hfin⟩ := vm_runB cfg (evs.map ofCtl) (St.init cfg) _ 0 [] (J2_init cfg) hv
    (fun e he => by
      obtain ⟨c, hc, rfl⟩ := List.mem_map.1 he
      exact ofCtl_ok c (hev c hc)) (by rw [hB, hsteps])
  rw [hB, hsteps, ] at hfin
  rw [tagEvents_ofCtl] at hrun
  have hsel' : SelVM.runSelectors cfg.selLists cfg.esi (evs.filterMap selEvOf) = .ok hits := by
    unfold SelVM.runSelectors
    simp only [hrun, bind, Except.bind, pure, Except.pure]
  have := C04_VM.C04_vm_refines_css cfg.selLists hsel cfg.esi (evs.filterMap selEvOf)
  rw [hsel'] at this
  simp only [Except.ok.injEq] at this
  exact ⟨evs, hev, hsteps, vm', by rw [← this]; exact hrun, hfin⟩

/-! ## non-vacuity -/

example : ∃ (evs : List CtlEv) (tr : List TraceEntry) (sp' : List Spec.Scope.OpenElem), (∀ e ∈ evs, EvOk e) ∧
    ctlSteps lexAuxCfg (St.init lexAuxCfg) evs = ((afterWrites lexAuxCfg {} sampleChunks).stream.disp.ctl.1, none) ∧
    Follows lexAuxCfg (St.init lexAuxCfg) evs tr ∧ TraceOK lexAuxCfg [] tr sp' ∧
    Lemmas.Scope.Inv lexAuxCfg.selRegs lexAuxCfg.docRegs sp' (scopeState (afterWrites lexAuxCfg {} sampleChunks).stream.disp.ctl.1) :=
  C05_real lexAuxCfg ⟨_, List.mem_cons_self, Or.inr (Or.inl rfl)⟩ {} sampleChunks
    (fun x hx => by rw [lexAux_writes_ok] at hx; simp at hx; exact hx)

/-- the concrete event list of Thm/Full18.lean translated: same run under `ctlSteps` -/
example : (ctlSteps lexAuxCfg (St.init lexAuxCfg) (toCtlEvs lexAuxEvs)).2 = none := by decide +kernel
example : ((ctlSteps lexAuxCfg (St.init lexAuxCfg) (toCtlEvs lexAuxEvs)).1.log.map (·.who)).length = 2 := by
  decide +kernel

end LolHtml.Thm.Full
